/-
Model of the aliasing views of a repeated field (property C10).

Python transcribed (all under /repo/autobean_refactor/models):
  internal/indexes.py            range_from_index, slice_from_range
  internal/properties.py         RepeatedNodeWrapper: __setitem__, __delitem__, insert, append, clear, extend, pop,
                                 drop_many, _notify, _notify_splice        (namespace `Raw`)
  internal/interleaving_comments.py   claim/unclaim: `items[:] = …; _notify()`   (`RawOp.reassign`)
  internal/value_properties.py   _RepeatedValueWrapperUpdateHandler.handle / handle_splice (`handle`, `handleSplice`),
                                 RepeatedValueWrapper / RepeatedFilteredNodeWrapper: every method (namespace `View`)
  meta_item_internal.py          RepeatedRawMetaItemWrapper / RepeatedMetaItemWrapper key operations (`ViewOp.*Key*`)

`PyList` is the reference semantics of CPython lists / `range` / `slice.indices` the Python code relies on
(`self._repeated.items` and `_raw_indexes` are real Python lists); it is tied to CPython by the harness, which
subjects a plain `list` to the same operations and compares with the driver's `PyList` results.

An item is abstracted to its identity, its element-type tag (what `isinstance(x, raw_type)` looks at) and a value
code (what `from_raw_type(x) == value` / `item.key == key` look at).  Core Lean only; everything is total and executable.
-/
namespace Autobean.Views

structure Item where
  id : Nat
  ty : Nat
  val : Nat := 0
deriving DecidableEq, Repr, Inhabited

/-! ## Reference semantics of Python lists, ranges and slices -/
namespace PyList

/-- `range(len)[i]` / `lst[i]` index normalisation; raises `IndexError`. -/
def normIndex (len : Nat) (i : Int) : Except String Nat :=
  let j : Int := if i < 0 then i + len else i
  if j < 0 ∨ (len : Int) ≤ j then .error "IndexError" else .ok j.toNat

/-- One bound of `PySlice_AdjustIndices`. -/
def clampBound (n : Int) (step : Int) (v : Int) : Int :=
  if v < 0 then
    (if v + n < 0 then (if step < 0 then -1 else 0) else v + n)
  else if n ≤ v then (if step < 0 then n - 1 else n)
  else v

/-- `slice(start, stop, step).indices(len)`; raises `ValueError` for step 0. -/
def sliceIndices (len : Nat) (start stop step : Option Int) : Except String (Int × Int × Int) :=
  let st : Int := step.getD 1
  if st = 0 then .error "ValueError:step0" else
  let n : Int := len
  let s : Int := match start with
    | none => if st < 0 then n - 1 else 0
    | some v => clampBound n st v
  let e : Int := match stop with
    | none => if st < 0 then -1 else n
    | some v => clampBound n st v
  .ok (s, e, st)

/-- `len(range(start, stop, step))` (step ≠ 0). -/
def rangeLen (start stop step : Int) : Nat :=
  if 0 < step then (if start < stop then ((stop - start - 1) / step + 1).toNat else 0)
  else (if stop < start then ((start - stop - 1) / (-step) + 1).toNat else 0)

/-- `list(range(start, stop, step))`. -/
def rangeList (start stop step : Int) : List Int :=
  (List.range (rangeLen start stop step)).map fun (k : Nat) => start + (k : Int) * step

/-- The natural indexes `range(len)[slice]` enumerates (all lie in `[0, len)`). -/
def sliceIdxs (len : Nat) (start stop step : Option Int) : Except String (List Nat) := do
  let (s, e, st) ← sliceIndices len start stop step
  pure ((rangeList s e st).map Int.toNat)

variable {α : Type}

/-- `lst[i]`. -/
def getItem (xs : List α) (i : Int) : Except String α := do
  let j ← normIndex xs.length i
  match xs[j]? with
  | some x => pure x
  | none => .error "IndexError"

/-- `lst[start:stop:step]`. -/
def getSlice (xs : List α) (start stop step : Option Int) : Except String (List α) := do
  let idxs ← sliceIdxs xs.length start stop step
  pure (idxs.filterMap fun i => xs[i]?)

/-- `lst[i] = v`. -/
def setItem (xs : List α) (i : Int) (v : α) : Except String (List α) := do
  let j ← normIndex xs.length i
  pure (xs.set j v)

/-- Elements of `xs` whose position is not in `idxs` (`del lst[extended slice]`). -/
def eraseIdxs (xs : List α) (idxs : List Nat) : List α :=
  (xs.zipIdx.filter fun p => !idxs.contains p.2).map (·.1)

/-- Assign `vals` to the positions `idxs` one after the other (extended-slice assignment, sizes equal). -/
def setMany (xs : List α) (idxs : List Nat) (vals : List α) : List α :=
  (idxs.zip vals).foldl (fun acc p => acc.set p.1 p.2) xs

/-- `lst[start:stop:step] = vals`: plain slice for step 1 (a reversed range inserts at `start`), otherwise the
sizes must match (`ValueError`). -/
def setSlice (xs : List α) (start stop step : Option Int) (vals : List α) : Except String (List α) := do
  let (s, e, st) ← sliceIndices xs.length start stop step
  if st = 1 then
    let e' := if e < s then s else e
    pure (xs.take s.toNat ++ vals ++ xs.drop e'.toNat)
  else
    let idxs := (rangeList s e st).map Int.toNat
    if idxs.length ≠ vals.length then .error "ValueError:size"
    else pure (setMany xs idxs vals)

/-- `del lst[i]`. -/
def delItem (xs : List α) (i : Int) : Except String (List α) := do
  let j ← normIndex xs.length i
  pure (xs.eraseIdx j)

/-- `del lst[start:stop:step]`. -/
def delSlice (xs : List α) (start stop step : Option Int) : Except String (List α) := do
  let (s, e, st) ← sliceIndices xs.length start stop step
  if st = 1 then
    let e' := if e < s then s else e
    pure (xs.take s.toNat ++ xs.drop e'.toNat)
  else
    pure (eraseIdxs xs ((rangeList s e st).map Int.toNat))

/-- The position `lst.insert(i, v)` inserts at. -/
def insertPos (len : Nat) (i : Int) : Nat :=
  let n : Int := len
  let j : Int := if i < 0 then (if i + n < 0 then 0 else i + n) else (if n < i then n else i)
  j.toNat

/-- `lst.insert(i, v)`. -/
def insert (xs : List α) (i : Int) (v : α) : List α :=
  let k := insertPos xs.length i
  xs.take k ++ [v] ++ xs.drop k

/-- `lst.pop(i)`: the remaining list and the popped element. -/
def pop (xs : List α) (i : Int) : Except String (List α × α) := do
  let j ← normIndex xs.length i
  match xs[j]? with
  | some x => pure (xs.eraseIdx j, x)
  | none => .error "IndexError"

def append (xs : List α) (v : α) : List α := xs ++ [v]
def extend (xs vals : List α) : List α := xs ++ vals
def clear (_xs : List α) : List α := []

/-- `lst.remove(value)` with equality abstracted to a predicate: first match, else `ValueError`. -/
def remove (xs : List α) (m : α → Bool) : Except String (List α) :=
  match xs.findIdx? m with
  | some j => pure (xs.eraseIdx j)
  | none => .error "ValueError:notfound"

/-- "remove every match" (what `discard` means for a list view). -/
def discard (xs : List α) (m : α → Bool) : List α := xs.filter fun x => !m x

end PyList

/-! ## Filtered indexes: `handle` and `handle_splice` -/

/-- `[i for i, item in enumerate(items, k) if isinstance(item, raw_type)]`. -/
def filterIdxFrom (p : Nat → Bool) : Nat → List Item → List Nat
  | _, [] => []
  | k, x :: xs => if p x.ty then k :: filterIdxFrom p (k + 1) xs else filterIdxFrom p (k + 1) xs

/-- What `handle()` (and the constructor of `RepeatedValueWrapper`) computes. -/
def filterIdx (p : Nat → Bool) (items : List Item) : List Nat := filterIdxFrom p 0 items

/-- `_RepeatedValueWrapperUpdateHandler.handle`: recompute from the (already updated) raw wrapper. -/
def handle (p : Nat → Bool) (items : List Item) : List Nat := filterIdx p items

/-- The loop of `bisect.bisect_left(a, x, lo, hi)`. -/
def bisectLoop (xs : List Nat) (v : Nat) (lo hi : Nat) : Nat :=
  if h : lo < hi then
    let mid := (lo + hi) / 2
    if xs.getD mid 0 < v then bisectLoop xs v (mid + 1) hi else bisectLoop xs v lo mid
  else lo
termination_by hi - lo
decreasing_by all_goals omega

/-- `bisect.bisect_left(xs, v)`. -/
def bisectLeft (xs : List Nat) (v : Nat) : Nat := bisectLoop xs v 0 xs.length

/-- `x += diff` on a stored index. -/
def shiftIdx (diff : Int) (x : Nat) : Nat := ((x : Int) + diff).toNat

/-- `_RepeatedValueWrapperUpdateHandler.handle_splice(l, r, values)`:
```
filtered_indexes = [l + i for i, value in enumerate(values) if isinstance(value, raw_type)]
ll = bisect_left(raw_indexes, l); rr = bisect_left(raw_indexes, r)
diff = len(values) - r + l
raw_indexes[ll:rr] = filtered_indexes
if diff: for i in range(ll + len(filtered_indexes), len(raw_indexes)): raw_indexes[i] += diff
``` -/
def handleSplice (p : Nat → Bool) (rawIdx : List Nat) (l r : Nat) (vals : List Item) : List Nat :=
  let filtered := (filterIdx p vals).map (l + ·)
  let ll := bisectLeft rawIdx l
  let rr := bisectLeft rawIdx r
  let diff : Int := (vals.length : Int) - r + l
  -- raw_indexes[ll:rr] = filtered   (a reversed range inserts at ll)
  let spliced := rawIdx.take ll ++ filtered ++ rawIdx.drop (if rr < ll then ll else rr)
  let k := ll + filtered.length
  if diff = 0 then spliced else spliced.take k ++ (spliced.drop k).map (shiftIdx diff)

/-! ## The raw wrapper `RepeatedNodeWrapper` at the level of the item list -/

/-- What the wrapper tells its update handlers. -/
inductive Notif where
  | splice (l r : Nat) (vals : List Item)   -- `_notify_splice(l, r, values)`
  | full                                    -- `_notify()`
deriving Repr, DecidableEq

inductive RawOp where
  | setInt (i : Int) (v : Item)
  | setSlice (start stop step : Option Int) (vals : List Item)
  | delInt (i : Int)
  | delSlice (start stop step : Option Int)
  | insert (i : Int) (v : Item)
  | append (v : Item)
  | extend (vals : List Item)
  | clear
  | pop (i : Int)
  | dropMany (idxs : List Nat)
  | reassign (items : List Item)   -- claim/unclaim_interleaving_comments: `items[:] = …; _notify()`
deriving Repr

namespace Raw

/-- `_check_reusable(values)`: no value twice, no value that is still attached (here: still in the list). -/
def reusable (items vals : List Item) : Bool :=
  decide (vals.map (·.id)).Nodup && vals.all fun v => !(items.map (·.id)).contains v.id

/-- `indexes.slice_from_range(r)`. -/
def sliceFromRange (s e st : Int) : Option Int × Option Int × Option Int :=
  (some s, if e = -1 then none else some e, some st)

/-- `__setitem__(index: int, value)`:
`item = items[index]` (IndexError) ; `if index < 0: index += len` ; `items[index] = value` ;
`_notify_splice(index, index + 1, [value])`. -/
def setInt (items : List Item) (i : Int) (v : Item) : Except String (List Item × Notif) := do
  let _ ← PyList.getItem items i
  let idx : Int := if i < 0 then i + items.length else i
  let items' ← PyList.setItem items idx v
  pure (items', .splice idx.toNat (idx + 1).toNat [v])

/-- `__setitem__(index: slice, values)`. -/
def setSlice (items : List Item) (start stop step : Option Int) (vals : List Item) :
    Except String (List Item × Notif) := do
  if !reusable items vals then throw "ValueError:reuse"
  let (s, e0, st) ← PyList.sliceIndices items.length start stop step      -- r = range(len)[index]
  let e := if st = 1 ∧ e0 < s then s else e0                              -- r = range(r.start, r.start)
  if st = 1 then
    let (a, b, c) := sliceFromRange s e st
    let items' ← PyList.setSlice items a b c vals                         -- items[slice_from_range(r)] = values
    pure (items', .splice s.toNat e.toNat vals)                           -- _notify_splice(r.start, r.stop, values)
  else
    let idxs := (PyList.rangeList s e st).map Int.toNat
    if idxs.length ≠ vals.length then throw "ValueError:size"
    pure (PyList.setMany items idxs vals, .full)                          -- items[i] = value ...; _notify()

/-- `drop_many(indexes)`: `items[:] = (item for i, item in enumerate(items) if i not in indexes)`; `_notify()`. -/
def dropMany (items : List Item) (idxs : List Nat) : List Item × Notif :=
  (PyList.eraseIdxs items idxs, .full)

/-- `__delitem__(index: int)`: `r = range_from_index(index, len)`; `self[slice_from_range(r)] = []`. -/
def delInt (items : List Item) (i : Int) : Except String (List Item × Notif) := do
  let j ← PyList.normIndex items.length i
  let (a, b, c) := sliceFromRange j (j + 1) 1
  setSlice items a b c []

/-- `__delitem__(index: slice)`. -/
def delSlice (items : List Item) (start stop step : Option Int) : Except String (List Item × Notif) := do
  let (s, e, st) ← PyList.sliceIndices items.length start stop step
  if st = 1 then
    let (a, b, c) := sliceFromRange s e st
    setSlice items a b c []
  else
    pure (dropMany items ((PyList.rangeList s e st).map Int.toNat))

/-- `insert(index, value)`:
`if index < 0: index = max(index + len, 0)`; `index = min(index, len)`; `items.insert(index, value)`;
`_notify_splice(index, index, [value])`. -/
def insert (items : List Item) (i : Int) (v : Item) : List Item × Notif :=
  let n : Int := items.length
  let idx : Int := if i < 0 then max (i + n) 0 else i
  let idx : Int := min idx n
  (PyList.insert items idx v, .splice idx.toNat idx.toNat [v])

def append (items : List Item) (v : Item) : List Item × Notif :=
  (PyList.append items v, .splice items.length items.length [v])

def extend (items vals : List Item) : Except String (List Item × Notif) := do
  if !reusable items vals then throw "ValueError:reuse"
  pure (PyList.extend items vals, .splice items.length items.length vals)

def clear (items : List Item) : List Item × Notif := (PyList.clear items, .full)

/-- `pop(index)`: `value = items[index]` (IndexError); `r = range_from_index(index, len)`; `items.pop(index)`;
`_notify_splice(r.start, r.stop, [])`. -/
def pop (items : List Item) (i : Int) : Except String (List Item × Notif) := do
  let _ ← PyList.getItem items i
  let j ← PyList.normIndex items.length i
  let (items', _) ← PyList.pop items i
  pure (items', .splice j (j + 1) [])

def apply (items : List Item) : RawOp → Except String (List Item × Notif)
  | .setInt i v => setInt items i v
  | .setSlice a b c vals => setSlice items a b c vals
  | .delInt i => delInt items i
  | .delSlice a b c => delSlice items a b c
  | .insert i v => pure (insert items i v)
  | .append v => pure (append items v)
  | .extend vals => extend items vals
  | .clear => pure (clear items)
  | .pop i => pop items i
  | .dropMany idxs => pure (dropMany items idxs)
  | .reassign items' => pure (items', .full)

end Raw

/-! ## The views `RepeatedValueWrapper` (string views, filtered node views, mapping views) -/

/-- How `update_raw(raw_value, value)` behaves: never (filtered node views), always (string views),
or only when old and new value have the same simple type (`Custom.values`). -/
inductive UpdKind where
  | never
  | always
  | sameTyIn (tys : List Nat)
deriving Repr, DecidableEq

def UpdKind.applies : UpdKind → Item → Item → Bool
  | .never, _, _ => false
  | .always, _, _ => true
  | .sameTyIn tys, o, n => o.ty == n.ty && tys.contains o.ty

/-- A registered view: its type test, its `update_raw` behaviour and its `_raw_indexes`. -/
structure View where
  pred : Nat → Bool
  upd : UpdKind
  rawIdx : List Nat

inductive ViewOp where
  | setInt (i : Int) (v : Item)
  | setSlice (start stop step : Option Int) (vals : List Item)
  | delInt (i : Int)
  | delSlice (start stop step : Option Int)
  | insert (i : Int) (v : Item)
  | append (v : Item)
  | extend (vals : List Item)
  | clear
  | pop (i : Int)
  | remove (val : Nat)
  | discard (val : Nat)
  | setKeyRaw (key : Nat) (v : Item)      -- raw_meta[key] = item
  | setKeyVal (key : Nat) (v : Item)      -- meta[key] = value  (v = MetaItem.from_value(key, value))
  | delKey (key : Nat)
  | popKey (key : Nat) (dflt : Bool)
deriving Repr

/-- What a view method does to the raw wrapper. -/
inductive Micro where
  | raw (op : RawOp)
  /-- `if not update_raw(raw_wrapper[raw_index], value): raw_wrapper[raw_index] = to_raw_type(value)` -/
  | setOrUpdate (upd : UpdKind) (rawIndex : Nat) (v : Item)
deriving Repr

namespace View

/-- `len(view)`. -/
def len (v : View) : Nat := v.rawIdx.length

/-- `iter(view)` before conversion: `raw_wrapper[i] for i in _raw_indexes`. -/
def iter (v : View) (items : List Item) : List Item := v.rawIdx.filterMap fun i => items[i]?

/-- `view[i]` before conversion. -/
def getInt (v : View) (items : List Item) (i : Int) : Except String Item := do
  let ri ← PyList.getItem v.rawIdx i
  PyList.getItem items ri

/-- `view[slice]` before conversion. -/
def getSlice (v : View) (items : List Item) (a b c : Option Int) : Except String (List Item) := do
  let ris ← PyList.getSlice v.rawIdx a b c
  pure (ris.filterMap fun i => items[i]?)

/-- Position in the view of the first element whose value code is `key` (`for i, item in enumerate(self)`). -/
def findKey (v : View) (items : List Item) (key : Nat) : Option Nat :=
  (iter v items).findIdx? fun x => x.val == key

/-- `view[key]` (first match) before `.value`. -/
def getKey (v : View) (items : List Item) (key : Nat) : Except String Item :=
  match (iter v items).find? fun x => x.val == key with
  | some x => pure x
  | none => .error "KeyError"

def containsKey (v : View) (items : List Item) (key : Nat) : Bool :=
  (iter v items).any fun x => x.val == key

/-- Body shared by `__setitem__(int)` and `__setitem__(slice)` once `r = range(s, e, st)` is known:
`raw_indexes_to_update = [self._raw_indexes[i] for i in r]`, the size check, then one `update_raw`/replace per pair. -/
def setIdxs (v : View) (s e st : Int) (vals : List Item) : Except String (List Micro) := do
  let toUpdate := (PyList.rangeList s e st).filterMap fun k => v.rawIdx[k.toNat]?
  if toUpdate.length ≠ vals.length then throw "ValueError:size"
  pure ((toUpdate.zip vals).map fun p => Micro.setOrUpdate v.upd p.1 p.2)

def setIntM (v : View) (i : Int) (val : Item) : Except String (List Micro) := do
  let j ← PyList.normIndex v.rawIdx.length i          -- range_from_index(int) = range(j, j + 1)
  setIdxs v j (j + 1) 1 [val]

def delIntM (v : View) (i : Int) : Except String (List Micro) := do
  let j ← PyList.normIndex v.rawIdx.length i
  pure [.raw (.dropMany ((PyList.rangeList j (j + 1) 1).filterMap fun k => v.rawIdx[k.toNat]?))]

def popM (v : View) (i : Int) : Except String (List Micro) := do
  let n : Int := v.rawIdx.length
  if ¬ (-n ≤ i ∧ i < n) then throw "IndexError"
  let ri ← PyList.getItem v.rawIdx i
  pure [.raw (.pop ri)]

/-- Every mutating method of `RepeatedValueWrapper` (and the key methods of the mapping views) as the calls
it makes on the raw wrapper, computed from `(items, rawIdx)`. -/
def apply (v : View) (items : List Item) : ViewOp → Except String (List Micro)
  | .setInt i val => setIntM v i val
  | .setSlice a b c vals => do
    let (s, e, st) ← PyList.sliceIndices v.rawIdx.length a b c
    setIdxs v s e st vals
  | .delInt i => delIntM v i
  | .delSlice a b c => do
    let (s, e, st) ← PyList.sliceIndices v.rawIdx.length a b c
    pure [.raw (.dropMany ((PyList.rangeList s e st).filterMap fun k => v.rawIdx[k.toNat]?))]
  | .insert i val =>
    let n : Int := v.rawIdx.length
    if n ≤ i then pure [.raw (.insert items.length val)]
    else if i < -n then pure [.raw (.insert 0 val)]
    else do
      let ri ← PyList.getItem v.rawIdx i
      pure [.raw (.insert ri val)]
  | .append val => pure [.raw (.append val)]
  | .extend vals => pure [.raw (.extend vals)]
  | .clear => pure [.raw (.dropMany v.rawIdx)]
  | .pop i => popM v i
  | .remove val =>
    match v.rawIdx.find? fun ri => (items[ri]?.map (·.val)) == some val with
    | some ri => pure [.raw (.pop ri)]
    | none => .error "ValueError:notfound"
  | .discard val =>
    pure [.raw (.dropMany (v.rawIdx.filter fun ri => (items[ri]?.map (·.val)) == some val))]
  | .setKeyRaw key val =>
    match findKey v items key with
    | some i => setIntM v i val
    | none => pure [.raw (.append val)]
  | .setKeyVal key val =>
    match findKey v items key with
    | some _ => pure []                     -- `item.value = value`: the list is not touched
    | none => pure [.raw (.append val)]
  | .delKey key =>
    match findKey v items key with
    | some i => delIntM v i
    | none => .error "KeyError"
  | .popKey key dflt =>
    match findKey v items key with
    | some i => popM v i
    | none => if dflt then pure [] else .error "KeyError"

end View

/-! ## World: one raw list and all registered views -/

structure World where
  items : List Item := []
  views : List View := []

/-- A handler receives one notification (the raw wrapper already holds `items'`). -/
def View.deliver (items' : List Item) (n : Notif) (v : View) : View :=
  match n with
  | .full => { v with rawIdx := handle v.pred items' }
  | .splice l r vals => { v with rawIdx := handleSplice v.pred v.rawIdx l r vals }

namespace World

/-- A view is created: `_raw_indexes` computed from the raw wrapper, handler registered. -/
def register (w : World) (pred : Nat → Bool) (upd : UpdKind) : World :=
  { w with views := w.views ++ [{ pred := pred, upd := upd, rawIdx := filterIdx pred w.items }] }

/-- One call on the raw wrapper; the notification goes to every registered view. -/
def stepRaw (w : World) (op : RawOp) : Except String World := do
  let (items', n) ← Raw.apply w.items op
  pure { items := items', views := w.views.map (View.deliver items' n) }

/-- In-place `update_raw`: the object stays, its value changes; nobody is notified. -/
def updateInPlace (w : World) (ri : Nat) (val : Nat) : World :=
  match w.items[ri]? with
  | some old => { w with items := w.items.set ri { old with val := val } }
  | none => w

def stepMicro (w : World) : Micro → Except String World
  | .raw op => stepRaw w op
  | .setOrUpdate upd ri v =>
    match w.items[ri]? with
    | none => .error "IndexError"
    | some old =>
      if upd.applies old v then pure (updateInPlace w ri v.val)
      else stepRaw w (.setInt ri v)

/-- Run the calls of one view method; stops at the first exception (keeping what was done, as Python does). -/
def runMicros (w : World) : List Micro → World × Option String
  | [] => (w, none)
  | m :: ms =>
    match stepMicro w m with
    | .ok w' => runMicros w' ms
    | .error e => (w, some e)

inductive Op where
  | register (pred : Nat → Bool) (upd : UpdKind)
  | raw (op : RawOp)
  | view (k : Nat) (op : ViewOp)

/-- One public call through the raw wrapper or through the `k`-th view.  Returns the new world and the
exception tag if the call raised. -/
def step (w : World) : Op → World × Option String
  | .register p u => (w.register p u, none)
  | .raw op =>
    match stepRaw w op with
    | .ok w' => (w', none)
    | .error e => (w, some e)
  | .view k op =>
    match w.views[k]? with
    | none => (w, some "no-such-view")
    | some v =>
      match v.apply w.items op with
      | .error e => (w, some e)
      | .ok ms => runMicros w ms

/-- A whole history. -/
def run (w : World) (ops : List Op) : World := ops.foldl (fun w op => (step w op).1) w

/-- The invariant of C10: every registered view's `_raw_indexes` is the raw list filtered now. -/
def Inv (w : World) : Prop := ∀ v ∈ w.views, v.rawIdx = filterIdx v.pred w.items

end World

/-! ## The plain-list reference each operation is compared with (printed by the driver, compared by the harness
with a real Python `list`, and the right-hand side of `rep_py_list` / `view_py_list`) -/

/-- The Python `list` operation a raw-wrapper call corresponds to (`none`: no list counterpart). -/
def RawOp.pyRef (items : List Item) : RawOp → Option (Except String (List Item))
  | .setInt i v => some (PyList.setItem items i v)
  | .setSlice a b c vals => some (PyList.setSlice items a b c vals)
  | .delInt i => some (PyList.delItem items i)
  | .delSlice a b c => some (PyList.delSlice items a b c)
  | .insert i v => some (pure (PyList.insert items i v))
  | .append v => some (pure (PyList.append items v))
  | .extend vals => some (pure (PyList.extend items vals))
  | .clear => some (pure (PyList.clear items))
  | .pop i => some ((PyList.pop items i).map (·.1))
  | .dropMany _ => none
  | .reassign _ => none

/-- The Python `list` operation a view call corresponds to, on the filtered list `fl`. -/
def ViewOp.pyRef (fl : List Item) : ViewOp → Option (Except String (List Item))
  | .setInt i v => some (PyList.setItem fl i v)
  | .setSlice a b c vals => some (PyList.setSlice fl a b c vals)
  | .delInt i => some (PyList.delItem fl i)
  | .delSlice a b c => some (PyList.delSlice fl a b c)
  | .insert i v => some (pure (PyList.insert fl i v))
  | .append v => some (pure (PyList.append fl v))
  | .extend vals => some (pure (PyList.extend fl vals))
  | .clear => some (pure (PyList.clear fl))
  | .pop i => some ((PyList.pop fl i).map (·.1))
  | .remove val => some (PyList.remove fl fun x => x.val == val)
  | .discard val => some (pure (PyList.discard fl fun x => x.val == val))
  | _ => none

/-- The items a view shows: the raw list filtered by the view's type test. -/
def filterItems (p : Nat → Bool) (items : List Item) : List Item := items.filter fun x => p x.ty

/-- The values a raw-wrapper call offers pass `_check_reusable` (calls without that check: `true`). -/
def RawOp.valsReusable (items : List Item) : RawOp → Bool
  | .setSlice _ _ _ vals => Raw.reusable items vals
  | .extend vals => Raw.reusable items vals
  | _ => true

/-- What the caller observes of one call: the new item list, or the exception. -/
def World.outcome (r : World × Option String) : Except String (List Item) :=
  match r.2 with
  | none => .ok r.1.items
  | some e => .error e

/-- The values a view call offers. -/
def ViewOp.vals : ViewOp → List Item
  | .setInt _ v => [v]
  | .insert _ v => [v]
  | .append v => [v]
  | .setKeyRaw _ v => [v]
  | .setKeyVal _ v => [v]
  | .setSlice _ _ _ vs => vs
  | .extend vs => vs
  | _ => []


/-- What `view_py_list` claims for one call through the `k`-th view: the caller observes, on the view's filtered
(and converted) list, exactly what the reference operation gives; and a call that raises changed nothing. -/
def ViewCallSpec {β : Type} (w : World) (k : Nat) (v : View) (op : ViewOp)
    (ref : Except String (List Item)) (conv : Item → β) : Prop :=
  (World.outcome (w.step (.view k op))).map (fun its => (filterItems v.pred its).map conv) = ref.map (List.map conv)
  ∧ ((w.step (.view k op)).2 ≠ none → (w.step (.view k op)).1 = w)

end Autobean.Views
