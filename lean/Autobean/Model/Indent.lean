/-
Model of the indentation rule for children created from values (C18).  Core Lean only; total; executable.

Python transcribed:
* `meta_item_internal.py`  `RepeatedMetaItemWrapper._get_indent`, `_get_default_indent`
* `internal/value_properties.py`  `optional_indented_string_property.__set__` (passes the owner's indent)
* `block_comment.py`  `_splitlines`, `BlockComment._format_value`, `BlockComment._parse_value` (indent part)
-/
namespace Autobean.Indent

abbrev Str := List Char

/--
`RepeatedMetaItemWrapper._get_indent()`:
`first = next(iter(items), None); return default_indent_getter() if first is None else first.indent`
with `_get_default_indent` = `indent_property.value + indent_by` for postings (`parentIndent = some _`) and
`indent_by` alone for entries (`parentIndent = none`).
`siblingIndents` are the indents of the existing meta items (comments filtered out), in order.
-/
def newIndent (siblingIndents : List Str) (parentIndent : Option Str) (indentBy : Str) : Str :=
  match siblingIndents with
  | i :: _ => i
  | [] =>
    match parentIndent with
    | some p => p ++ indentBy
    | none => indentBy

/-- `_splitlines`: split on `'\n'` keeping the `'\n'` at the end of every line but the last. -/
def splitLines : Str → List Str
  | [] => [[]]
  | c :: cs =>
    if c = '\n' then [c] :: splitLines cs
    else match splitLines cs with
      | l :: ls => (c :: l) :: ls
      | [] => [[c]]

/-- `line.rstrip('\r\n')` is non-empty: some character is neither CR nor LF. -/
def hasContent (line : Str) : Bool := line.any fun c => !(c = '\r' || c = '\n')

/-- One line of `_format_value`: `f'{indent}; {line}' if line.rstrip('\r\n') else f'{indent};{line}'`. -/
def commentLine (indent line : Str) : Str :=
  if hasContent line then indent ++ [';', ' '] ++ line else indent ++ [';'] ++ line

def commentLines (indent value : Str) : List Str := (splitLines value).map (commentLine indent)

/-- `BlockComment._format_value(indent, value)` -/
def commentFormat (indent value : Str) : Str := (commentLines indent value).flatten

/-- `BlockComment._parse_value(raw)[0]`: what precedes the first `';'` of the first line. -/
def indentOf (raw : Str) : Str :=
  match splitLines raw with
  | l :: _ => l.takeWhile (· ≠ ';')
  | [] => []

/-- The comment setters: `optional_indented_string_property` passes the owner's indent (postings, meta
items), `optional_string_property` none (top-level entries: indent `''`). -/
def commentIndentFor (ownerIndent : Option Str) : Str := ownerIndent.getD []

end Autobean.Indent
