/-
Optional and required slots of a generated model, at the token level.

  fields.py  optional_left_field._create_node   -> `createLeft`
             optional_left_field._remove_node   -> `removeLeft`
             optional_right_field._create_node  -> `createRight`
             optional_right_field._remove_node  -> `removeRight`
  properties.py  replace_node                   -> `replaceNode`
             (required_node_property.__set__ and the replace branch of optional_node_property.__set__)

`pivot` is the id of the token the class's `_x_pivot` property evaluates to; `seps` is a fresh copy of the
field's `separators` (`copy.deepcopy(self.separators)`), `child` the detached tokens of the value.
-/
import Autobean.Model.Seq

namespace Autobean.Slots
open Autobean.Seq

/-- `token_store.insert_after(pivot, [*copy.deepcopy(self.separators), *value.detach()])`. -/
def createLeft (s : List Tk) (pivot : Nat) (seps child : List Tk) : R (List Tk) :=
  insertAfter (some pivot) (seps ++ child) s

/-- `token_store.insert_before(pivot, [*value.detach(), *copy.deepcopy(self.separators)])`. -/
def createRight (s : List Tk) (pivot : Nat) (seps child : List Tk) : R (List Tk) :=
  insertBefore (some pivot) (child ++ seps) s

/-- `first = get_next(pivot); assert first is not None; remove(first, current.last_token)`. -/
def removeLeft (s : List Tk) (pivot childLast : Nat) : R (List Tk) :=
  match next pivot s with
  | .error e => .error e
  | .ok none => .error "AssertionError"
  | .ok (some first) => removeRange first childLast s

/-- `last = get_prev(pivot); assert last is not None; remove(current.first_token, last)`. -/
def removeRight (s : List Tk) (pivot childFirst : Nat) : R (List Tk) :=
  match prev pivot s with
  | .error e => .error e
  | .ok none => .error "AssertionError"
  | .ok (some last) => removeRange childFirst last s

/-- `token_store.splice(repl.detach(), node.first_token, node.last_token)`. -/
def replaceNode (s : List Tk) (oldFirst oldLast : Nat) (new : List Tk) : R (List Tk) :=
  spliceRange oldFirst oldLast new s

end Autobean.Slots
