/-
Model of `token_store.Position` and `_token_size` (autobean_refactor/token_store.py).

`Pos.add` is `Position.__iadd__`/`__add__`; `tokSize` is `_token_size`:
`line = text.count('\n')`, `column = len(text) - text.rfind('\n') - 1`
(the number of characters after the last line feed, or the whole length).
-/
namespace Autobean

structure Pos where
  line : Nat
  col : Nat
deriving DecidableEq, Repr, Inhabited

namespace Pos

def zero : Pos := ⟨0, 0⟩

/-- `Position.__iadd__`: lines add; the column restarts when `other` has a line break. -/
def add (a b : Pos) : Pos :=
  ⟨a.line + b.line, if b.line = 0 then a.col + b.col else b.col⟩

instance : Add Pos := ⟨add⟩

end Pos

/-- Number of `'\n'` in a text. -/
def countNL : List Char → Nat
  | [] => 0
  | c :: cs => (if c = '\n' then 1 else 0) + countNL cs

/-- Number of characters after the last `'\n'` (whole length when there is none). -/
def colAfterLastNL : List Char → Nat
  | [] => 0
  | c :: cs => if countNL cs = 0 then (if c = '\n' then 0 else 1) + cs.length else colAfterLastNL cs

/-- `_token_size`. -/
def tokSize (s : List Char) : Pos := ⟨countNL s, colAfterLastNL s⟩

/-- Sum of sizes, left to right, as `block.size` / `get_position` accumulate them. -/
def sumPos (ps : List Pos) : Pos := ps.foldl Pos.add Pos.zero

end Autobean
