/-
TREE-level model of the edit operations (DESIGN.md §3, property C05): every edit of `properties.py` /
`fields.py` is a PAIR (store edit, tree edit) on a document `Doc = (store, tree, tag)`.

  base.py        RawTreeModel.reattach                        -> `reattachAll` (Model/Tree.lean)
  properties.py  replace_node, required_node_property.__set__,
                 optional_node_property.__set__ (both present),
                 RepeatedNodeWrapper.__setitem__(int)         -> `replaceChild` (`setItem`)
  fields.py      optional_left_field._create_node/_remove_node  -> `createOptL` / `removeOptL`
                 optional_right_field._create_node/_remove_node -> `createOptR` / `removeOptR`
  properties.py  RepeatedNodeWrapper._prev_last               -> `prevLast`
                 _insert_tokens (one value; the three branches) + insert / append -> `insertItem`
                 extend (one `insertItem` per value, at the end)                 -> `extendItems`
                 _del_tokens (both branches) + __delitem__ (step 1) / clear      -> `removeItems`
                 pop                                           -> `popItem`
  the canonical `_x_pivot` chains (`Obligations.pivots_canonical`: last token of the fields before an
  optional-left field, first token of the fields after an optional-right one)    -> `pivotLeft` / `pivotRight`

The store is the list of token identities in store order (`Ids.*` mirror `Seq.*` of Model/Seq.lean on bare
ids); the tree is `Tree` of Model/Tree.lean (leaves = token ids, `absent` = an optional field holding `None`).
A child is addressed by the path `q` of its parent (field / item indexes from the root) and its index `k`.
A value handed to an edit is itself a document `n : Doc` — the node with its private store (`value.detach()`
returns that whole store).  Python raising is `none`.  Everything is executable.
-/
import Autobean.Model.Tree

namespace Autobean

abbrev Path := List Nat

/-! ### The store on bare ids (`Seq.*` with the token payload erased) -/
namespace Ids

/-- Cut at the first occurrence of `r`: `(before, after)`. -/
def cut (r : Nat) : List Nat → Option (List Nat × List Nat)
  | [] => none
  | x :: xs =>
    if x = r then some ([], xs)
    else match cut r xs with
      | none => none
      | some (a, b) => some (x :: a, b)

/-- `insert_after(ref, xs)`. -/
def insertAfter (r : Nat) (xs s : List Nat) : Option (List Nat) :=
  match cut r s with
  | none => none
  | some (a, b) => some (a ++ r :: (xs ++ b))

/-- `insert_before(ref, xs)`. -/
def insertBefore (r : Nat) (xs s : List Nat) : Option (List Nat) :=
  match cut r s with
  | none => none
  | some (a, b) => some (a ++ (xs ++ r :: b))

/-- `splice(xs, first, last)`: replace the inclusive range. -/
def splice (f l : Nat) (xs s : List Nat) : Option (List Nat) :=
  match cut f s with
  | none => none
  | some (a, rest) =>
    match cut l (f :: rest) with
    | none => none
    | some (_, b) => some (a ++ (xs ++ b))

/-- `remove(first, last)`. -/
def remove (f l : Nat) (s : List Nat) : Option (List Nat) := splice f l [] s

/-- `list(iter(first, last))`: the inclusive range. -/
def iter (f l : Nat) (s : List Nat) : Option (List Nat) :=
  match cut f s with
  | none => none
  | some (_, rest) =>
    match cut l (f :: rest) with
    | none => none
    | some (m, _) => some (m ++ [l])

/-- `get_prev(token)` (`none` also for the first token: every caller asserts the result). -/
def prev (r : Nat) (s : List Nat) : Option Nat :=
  match cut r s with
  | none => none
  | some (a, _) => a.getLast?

/-- `get_next(token)`. -/
def next (r : Nat) (s : List Nat) : Option Nat :=
  match cut r s with
  | none => none
  | some (_, b) => b.head?

end Ids

/-! ### Tree edits addressed by path -/

/-- The child list of a tree model: the fields of a generated class, the items of a `Repeated`. -/
def Tree.children : Tree → Option (List Tree)
  | .node _ _ _ fs => some fs
  | .rep _ _ is => some is
  | _ => none

/-- The same model with another child list (header — class, tag, `indent_by`, placeholder — kept). -/
def Tree.withChildren : Tree → List Tree → Tree
  | .node c g ind _, cs => .node c g ind cs
  | .rep g ph _, cs => .rep g ph cs
  | t, _ => t

/-- `replaceAt t p new`: the tree with the sub-tree at path `p` replaced (`none`: no such path). -/
def Tree.replaceAt : Tree → Path → Tree → Option Tree
  | _, [], new => some new
  | t, k :: p, new =>
    match t.children with
    | none => none
    | some cs =>
      match cs[k]? with
      | none => none
      | some c =>
        match c.replaceAt p new with
        | none => none
        | some c' => some (t.withChildren (cs.set k c'))

def Tree.isAbsent : Tree → Bool
  | .absent => true
  | _ => false

/-- `optional_field.__set__(instance, value)` on the node at `q`, field `k`: `None ↦ absent`. -/
def Tree.setOptAt (t : Tree) (q : Path) (k : Nat) (v : Option Tree) : Option Tree :=
  match t.subAt q with
  | some (.node c g ind fs) =>
    if k < fs.length then t.replaceAt q (.node c g ind (fs.set k (v.getD .absent))) else none
  | _ => none

/-- `repeated.items.insert(i, c)` on the `Repeated` at `q`. -/
def Tree.insertItemAt (t : Tree) (q : Path) (i : Nat) (c : Tree) : Option Tree :=
  match t.subAt q with
  | some (.rep g ph is) =>
    if i ≤ is.length then t.replaceAt q (.rep g ph (is.take i ++ c :: is.drop i)) else none
  | _ => none

/-- `del repeated.items[a:b]` on the `Repeated` at `q` (`a ≤ b ≤ len`). -/
def Tree.removeItemsAt (t : Tree) (q : Path) (a b : Nat) : Option Tree :=
  match t.subAt q with
  | some (.rep g ph is) =>
    if a ≤ b ∧ b ≤ is.length then t.replaceAt q (.rep g ph (is.take a ++ is.drop b)) else none
  | _ => none

/-! ### Documents -/

/-- A document: the store (token ids in store order), the tree, and the identity of the store (`tag`) that
every node's `_token_store` must point at. -/
structure Doc where
  store : List Nat
  tree : Tree
  tag : Nat
deriving Repr, Inhabited

/-- The structural invariant of a document: store ids distinct; every node carries the document's store;
the depth-first leaves are distinct tokens of the store, in store order (⇒ spans nested, ordered,
non-overlapping; no token owned twice; every leaf is a live store token). -/
structure DInv (d : Doc) : Prop where
  storeNodup : d.store.Nodup
  tagsEq : ∀ g ∈ d.tree.tags, g = d.tag
  leavesNodup : d.tree.leaves.Nodup
  leavesSub : d.tree.leaves.Sublist d.store

instance (d : Doc) : Decidable (DInv d) :=
  if h1 : d.store.Nodup then
    if h2 : ∀ g ∈ d.tree.tags, g = d.tag then
      if h3 : d.tree.leaves.Nodup then
        if h4 : d.tree.leaves.Sublist d.store then isTrue ⟨h1, h2, h3, h4⟩
        else isFalse fun h => h4 h.leavesSub
      else isFalse fun h => h3 h.leavesNodup
    else isFalse fun h => h2 h.tagsEq
  else isFalse fun h => h1 h.storeNodup

/-- What the Python guarantees about a value handed to an edit of `d`: it is a self-contained document
(`_check_reusable` / `detach()`: the node spans its whole private store) none of whose tokens lives in `d`'s
store, and the separator copies (`copy.deepcopy(separators)`) are new tokens as well. -/
def FreshVal (d : Doc) (seps : List Nat) (n : Doc) : Prop :=
  DInv n ∧ (seps ++ n.store).Nodup ∧ ∀ x ∈ seps ++ n.store, x ∉ d.store

instance (d : Doc) (seps : List Nat) (n : Doc) : Decidable (FreshVal d seps n) :=
  inferInstanceAs (Decidable (DInv n ∧ (seps ++ n.store).Nodup ∧ ∀ x ∈ seps ++ n.store, x ∉ d.store))

/-! ### Reference tokens computed from the fields (as the generated properties do) -/

def Tree.firstLeaf (t : Tree) : Option Nat := t.leaves.head?
def Tree.lastLeaf (t : Tree) : Option Nat := t.leaves.getLast?

/-- `_x_pivot` of an optional-LEFT field `k`: the last token of the nearest present field before it. -/
def pivotLeft (fs : List Tree) (k : Nat) : Option Nat := ((fs.take k).flatMap Tree.leaves).getLast?

/-- `_x_pivot` of an optional-RIGHT field `k`: the first token of the nearest present field after it. -/
def pivotRight (fs : List Tree) (k : Nat) : Option Nat := ((fs.drop (k + 1)).flatMap Tree.leaves).head?

/-- `_prev_last(index)`: `items[index-1].last_token`, the placeholder for `index = 0`. -/
def prevLast (ph : Nat) (is : List Tree) (i : Nat) : Option Nat :=
  match i with
  | 0 => some ph
  | j + 1 => match is[j]? with
    | none => none
    | some it => it.lastLeaf

/-- `model.tokens`: the store range from the model's first to its last token (`none` without tokens). -/
def spanIn (s : List Nat) (t : Tree) : Option (List Nat) :=
  match t.firstLeaf, t.lastLeaf with
  | some f, some l => Ids.iter f l s
  | _, _ => none

/-! ### The edits -/

/-- `replace_node(current, value)` + `field.__set__`: the store range `first_token … last_token` of the
child at `p` is spliced out for the value's whole store; the value is reattached and put in the field. -/
def replaceChild (d : Doc) (p : Path) (n : Doc) : Option Doc :=
  match d.tree.subAt p with
  | none => none
  | some old =>
    match old.firstLeaf, old.lastLeaf with
    | some f, some l =>
      match Ids.splice f l n.store d.store, d.tree.replaceAt p (reattachAll d.tag n.tree) with
      | some s', some t' => some ⟨s', t', d.tag⟩
      | _, _ => none
    | _, _ => none

/-- `RepeatedNodeWrapper.__setitem__(i, value)` is the same splice on item `i` of the `Repeated` at `q`. -/
def setItem (d : Doc) (q : Path) (i : Nat) (n : Doc) : Option Doc := replaceChild d (q ++ [i]) n

/-- `optional_left_field._create_node`: `insert_after(pivot, [*seps, *value.detach()])`, reattach, set. -/
def createOptL (d : Doc) (q : Path) (k : Nat) (seps : List Nat) (n : Doc) : Option Doc :=
  match d.tree.subAt q with
  | some (.node _ _ _ fs) =>
    match fs[k]? with
    | some slot =>
      if slot.isAbsent then
        match pivotLeft fs k with
        | some pv =>
          match Ids.insertAfter pv (seps ++ n.store) d.store,
                d.tree.setOptAt q k (some (reattachAll d.tag n.tree)) with
          | some s', some t' => some ⟨s', t', d.tag⟩
          | _, _ => none
        | none => none
      else none
    | none => none
  | _ => none

/-- `optional_right_field._create_node`: `insert_before(pivot, [*value.detach(), *seps])`, reattach, set. -/
def createOptR (d : Doc) (q : Path) (k : Nat) (seps : List Nat) (n : Doc) : Option Doc :=
  match d.tree.subAt q with
  | some (.node _ _ _ fs) =>
    match fs[k]? with
    | some slot =>
      if slot.isAbsent then
        match pivotRight fs k with
        | some pv =>
          match Ids.insertBefore pv (n.store ++ seps) d.store,
                d.tree.setOptAt q k (some (reattachAll d.tag n.tree)) with
          | some s', some t' => some ⟨s', t', d.tag⟩
          | _, _ => none
        | none => none
      else none
    | none => none
  | _ => none

/-- `optional_left_field._remove_node`: `first = get_next(pivot); remove(first, current.last_token)`; the
field becomes `None`. -/
def removeOptL (d : Doc) (q : Path) (k : Nat) : Option Doc :=
  match d.tree.subAt q with
  | some (.node _ _ _ fs) =>
    match fs[k]? with
    | some cur =>
      match pivotLeft fs k, cur.lastLeaf with
      | some pv, some l =>
        match Ids.next pv d.store with
        | some first =>
          match Ids.remove first l d.store, d.tree.setOptAt q k none with
          | some s', some t' => some ⟨s', t', d.tag⟩
          | _, _ => none
        | none => none
      | _, _ => none
    | none => none
  | _ => none

/-- `optional_right_field._remove_node`: `last = get_prev(pivot); remove(current.first_token, last)`. -/
def removeOptR (d : Doc) (q : Path) (k : Nat) : Option Doc :=
  match d.tree.subAt q with
  | some (.node _ _ _ fs) =>
    match fs[k]? with
    | some cur =>
      match pivotRight fs k, cur.firstLeaf with
      | some pv, some f =>
        match Ids.prev pv d.store with
        | some last =>
          match Ids.remove f last d.store, d.tree.setOptAt q k none with
          | some s', some t' => some ⟨s', t', d.tag⟩
          | _, _ => none
        | none => none
      | _, _ => none
    | none => none
  | _ => none

/-- The store edit of `_insert_tokens(i, [value])` on the `Repeated` `(ph, is)`:
* `i = 0` with items present: `value ++ seps` goes in front of the first item
  (`ref = get_prev(items[0].first_token)`);
* otherwise `seps ++ value` goes after `_prev_last(i)` (for the empty field `seps` is the copy of
  `separators_before`). -/
def insertTokens (s : List Nat) (ph : Nat) (is : List Tree) (i : Nat) (seps vs : List Nat) :
    Option (List Nat) :=
  if i = 0 then
    match is[0]? with
    | some it0 =>
      match it0.firstLeaf with
      | some f0 =>
        match Ids.prev f0 s with
        | some r => Ids.insertAfter r (vs ++ seps) s
        | none => none
      | none => none
    | none => Ids.insertAfter ph (seps ++ vs) s
  else
    match prevLast ph is i with
    | some r => Ids.insertAfter r (seps ++ vs) s
    | none => none

/-- `insert(i, value)` / `append(value)`: `_insert_tokens`, `value.reattach(store)`, `items.insert`.
`reattach := false` is the defective variant that forgets the reattach (see `insertItemNoReattach`). -/
def insertItemCore (reattach : Bool) (d : Doc) (q : Path) (i : Nat) (seps : List Nat) (n : Doc) :
    Option Doc :=
  match d.tree.subAt q with
  | some (.rep _ ph is) =>
    if i ≤ is.length then
      match insertTokens d.store ph is i seps n.store,
            d.tree.insertItemAt q i (if reattach then reattachAll d.tag n.tree else n.tree) with
      | some s', some t' => some ⟨s', t', d.tag⟩
      | _, _ => none
    else none
  | _ => none

def insertItem (d : Doc) (q : Path) (i : Nat) (seps : List Nat) (n : Doc) : Option Doc :=
  insertItemCore true d q i seps n

/-- What `extend()` did to each value before the repair: tokens moved into the store, value appended to
`items`, but the value's nodes keep pointing at their old store. -/
def insertItemNoReattach (d : Doc) (q : Path) (i : Nat) (seps : List Nat) (n : Doc) : Option Doc :=
  insertItemCore false d q i seps n

/-- `extend(values)`: every value (with its own separator copy) goes after the current last item.  The Python
builds one token list `seps₁ ++ v₁ ++ seps₂ ++ v₂ ++ …` and inserts it after `_prev_last(len)` in one call; since
a detached value ends with its last leaf (`detach()` refuses anything else), inserting the values one after the
other after the then-last item's last token gives the same store. -/
def extendItems (d : Doc) (q : Path) : List (List Nat × Doc) → Option Doc
  | [] => some d
  | (seps, n) :: rest =>
    match d.tree.subAt q with
    | some (.rep _ _ is) =>
      match insertItem d q is.length seps n with
      | some d1 => extendItems d1 q rest
      | none => none
    | _ => none

/-- The store edit of `_del_tokens(a, b)` for `a < b ≤ len`:
* `a = 0 ∧ b < len`: from the first item's first token up to the token before item `b`;
* otherwise: from the token after `_prev_last(a)` up to the last token of item `b-1`. -/
def delTokens (s : List Nat) (ph : Nat) (is : List Tree) (a b : Nat) : Option (List Nat) :=
  if a = 0 ∧ b < is.length then
    match is[0]?, is[b]? with
    | some it0, some itb =>
      match it0.firstLeaf, itb.firstLeaf with
      | some f0, some fb =>
        match Ids.prev fb s with
        | some last => Ids.remove f0 last s
        | none => none
      | _, _ => none
    | _, _ => none
  else
    match prevLast ph is a, is[b - 1]? with
    | some r, some itl =>
      match Ids.next r s, itl.lastLeaf with
      | some first, some l => Ids.remove first l s
      | _, _ => none
    | _, _ => none

/-- `del w[a:b]` (step 1; `clear()` is `a = 0, b = len`): `_del_tokens(a, b)` then `items[a:b] = []`.
An empty range is a no-op. -/
def removeItems (d : Doc) (q : Path) (a b : Nat) : Option Doc :=
  match d.tree.subAt q with
  | some (.rep _ ph is) =>
    if b ≤ a then some d
    else if b ≤ is.length then
      match delTokens d.store ph is a b, d.tree.removeItemsAt q a b with
      | some s', some t' => some ⟨s', t', d.tag⟩
      | _, _ => none
    else none
  | _ => none

/-- `pop(i)`: `tokens = value.tokens` (the store range first … last token of the item), `_del_tokens(i, i+1)`,
`value.reattach(TokenStore.from_tokens(tokens))` (a new store, tag `τ`), `items.pop(i)`.
Returns the remaining document and the popped node as a document of its own. -/
def popItem (d : Doc) (q : Path) (i : Nat) (τ : Nat) : Option (Doc × Doc) :=
  match d.tree.subAt q with
  | some (.rep _ _ is) =>
    match is[i]? with
    | some it =>
      match it.firstLeaf, it.lastLeaf with
      | some f, some l =>
        match Ids.iter f l d.store, removeItems d q i (i + 1) with
        | some span, some d1 => some (d1, ⟨span, reattachAll τ it, τ⟩)
        | _, _ => none
      | _, _ => none
    | none => none
  | _ => none

/-! ### Histories -/

inductive TOp where
  | replaceChild (p : Path) (n : Doc)
  | createOptL (q : Path) (k : Nat) (seps : List Nat) (n : Doc)
  | createOptR (q : Path) (k : Nat) (seps : List Nat) (n : Doc)
  | removeOptL (q : Path) (k : Nat)
  | removeOptR (q : Path) (k : Nat)
  | insertItem (q : Path) (i : Nat) (seps : List Nat) (n : Doc)
  | setItem (q : Path) (i : Nat) (n : Doc)
  | extendItems (q : Path) (vs : List (List Nat × Doc))
  | removeItems (q : Path) (a b : Nat)
  | popItem (q : Path) (i : Nat) (τ : Nat)
deriving Repr

/-- All values of an `extend` are mutually fresh: checked one after the other against the growing store. -/
def extendChecked (d : Doc) (q : Path) : List (List Nat × Doc) → Option Doc
  | [] => some d
  | (seps, n) :: rest =>
    if FreshVal d seps n then
      match d.tree.subAt q with
      | some (.rep _ _ is) =>
        match insertItem d q is.length seps n with
        | some d1 => extendChecked d1 q rest
        | none => none
      | _ => none
    else none

/-- One step of a history.  A value that is not a fresh self-contained node is refused (`none`), as
`detach()` / `_check_reusable` / the store's handle check do. -/
def applyOp (d : Doc) : TOp → Option Doc
  | .replaceChild p n => if FreshVal d [] n then replaceChild d p n else none
  | .createOptL q k seps n => if FreshVal d seps n then createOptL d q k seps n else none
  | .createOptR q k seps n => if FreshVal d seps n then createOptR d q k seps n else none
  | .removeOptL q k => removeOptL d q k
  | .removeOptR q k => removeOptR d q k
  | .insertItem q i seps n => if FreshVal d seps n then insertItem d q i seps n else none
  | .setItem q i n => if FreshVal d [] n then setItem d q i n else none
  | .extendItems q vs => extendChecked d q vs
  | .removeItems q a b => removeItems d q a b
  | .popItem q i τ => (popItem d q i τ).map (·.1)

def runOps (d : Doc) : List TOp → Option Doc
  | [] => some d
  | op :: ops =>
    match applyOp d op with
    | some d1 => runOps d1 ops
    | none => none

end Autobean
