/-
Reference semantics of an ORDERED dictionary with possibly repeated keys and first-match access — what the mapping
views `raw_meta` / `meta` (`meta_item_internal.py`: `RepeatedRawMetaItemWrapper`, `RepeatedMetaItemWrapper`) promise:
an insertion-ordered `(key, value)` list where `d[k]`, `k in d`, `d[k] = v`, `del d[k]`, `d.pop(k[, default])` address the
FIRST entry whose key is `k`, a missing key is `KeyError` (resp. an append / the default), and `keys()` / `values()` /
`items()` / `len` enumerate in list order.

Independent of `Model/Views.lean`: plain structural recursion over the association list, no positions, no `PyList`.
Keys are the value codes of the view model (`Nat`); the value type is arbitrary.
-/
namespace Autobean.PyDict

/-- An ordered multi-dictionary: `(key, value)` entries in insertion order; keys may repeat. -/
abbrev PyMultiDict (β : Type) := List (Nat × β)

variable {β : Type}

/-- `d[k]`: the value of the first entry with key `k`, else `KeyError`. -/
def get : PyMultiDict β → Nat → Except String β
  | [], _ => .error "KeyError"
  | (k', v) :: r, k => if k' = k then .ok v else get r k

/-- `k in d`. -/
def contains : PyMultiDict β → Nat → Bool
  | [], _ => false
  | (k', _) :: r, k => if k' = k then true else contains r k

/-- `d[k] = v`: the first entry with key `k` gets the value `v` in place (position kept), else `(k, v)` is appended. -/
def set : PyMultiDict β → Nat → β → PyMultiDict β
  | [], k, v => [(k, v)]
  | (k', v') :: r, k, v => if k' = k then (k, v) :: r else (k', v') :: set r k v

/-- `del d[k]`: the first entry with key `k` is removed, else `KeyError`. -/
def del : PyMultiDict β → Nat → Except String (PyMultiDict β)
  | [], _ => .error "KeyError"
  | (k', v') :: r, k =>
    if k' = k then .ok r
    else match del r k with
      | .ok r' => .ok ((k', v') :: r')
      | .error e => .error e

/-- `d.pop(k)` (`hasDefault = false`) / `d.pop(k, default)` (`hasDefault = true`): the value of the first entry with key
`k` (`some v`) and the dictionary without that entry; for a missing key the default (`none`) and the dictionary unchanged,
or `KeyError`. -/
def pop (d : PyMultiDict β) (k : Nat) (hasDefault : Bool) : Except String (Option β × PyMultiDict β) :=
  match get d k, del d k with
  | .ok v, .ok d' => .ok (some v, d')
  | _, _ => if hasDefault then .ok (none, d) else .error "KeyError"

/-- `list(d.keys())`, `list(d.values())`, `list(d.items())`, `len(d)`: in list order. -/
def keys (d : PyMultiDict β) : List Nat := d.map (·.1)
def values (d : PyMultiDict β) : List β := d.map (·.2)
def items (d : PyMultiDict β) : List (Nat × β) := d
def len (d : PyMultiDict β) : Nat := d.length

end Autobean.PyDict
