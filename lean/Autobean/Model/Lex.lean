/-
Model of `autobean_refactor/parser.py` (`PostLex.process`, `ModelBuilder`) and
`printer.print_model`, written as a transcription: one definition per Python function, same
statement order.  Core Lean only, total, executable.  Strings of the document are `List Char`;
token type names / rule names are `String`.

What is modelled
* `split3`      — `PostLex._NEWLINE_INDENT_COMMENT_SPLIT_RE = ([\r\n]*)([ \t]*)(;.*)?` with `re.S`
                  and `fullmatch` (group 3 `None` ↔ `[]`; no match ↔ `none`, i.e. `assert match`).
* `postLex`     — `PostLex.process` (state `indented`, `prev_is_block_comment`, trailing emissions).
* `PTree`       — the lark tree the builder consumes.  `leaf i` is the token object `tokens[i]` of the
                  list fed to `ModelBuilder` (the harness maps `id(token)` → index), `absent` is a
                  `None` child, `node rule children` is a `lark.Tree`.
* `buildChildren` / `buildItems` / `buildTree` / `build` — `ModelBuilder._build_tree` (child loop),
                  `_build_repeated_node`, `_build_required_node`, `build`; helpers `gap` (`_fix_gap`),
                  `buildToken` (`_build_token`), `findIndent`/`buildIndent` (`_build_indent`).
                  The builder state `(self._cursor, self._built_tokens)` is threaded functionally:
                  every function takes `(cursor, nextId)` and returns `(emitted tokens, cursor', model)`;
                  `self._built_tokens` is the concatenation of the emitted lists, the id of a store token
                  is its position in `_built_tokens` (= its index in the final store).
* `MTree`       — the built model tree; leaves are store-token ids.  `MField` of the design is encoded in
                  the same rose tree (`absent` = `None` field, `rep ph items` = `internal.Repeated`),
                  so that one nested inductive suffices.
* `MTree.adjust`— the one hand-written `from_parsed_children` that permutes children
                  (`Transaction.from_parsed_children`: a single string moves from slot `string1` to
                  `string2`).  `NumberAddExpr`/`NumberMulExpr.from_parsed_children` only split the children
                  alternately into operands/ops; the generic walk of the harness re-interleaves them.
* `printModel`  — `print_model` = `model.tokens` = `token_store.iter(first_token, last_token)`;
                  `first_token`/`last_token` are modelled generically as the first/last DFS leaf (a
                  `rep` contributes its placeholder first), `File` uses the store ends.

Faithfulness notes (what is *not* modelled)
* `models.TOKEN_MODELS[token.type]` / `models.TREE_MODELS[tree.data]` `KeyError`s (unknown names), the
  `assert isinstance(model, model_type)` of `build`, token-class specific `from_raw_text` parsing
  (the raw text is stored unchanged by every token class) and `BlockComment.claimed`.
* `Transaction.from_parsed_children` raises `ValueError` for fewer than 6 children; `adjust` leaves such a
  node unchanged (lark always supplies all children of a rule with `maybe_placeholders`).
-/
namespace Autobean.Lex

/-! ## Tokens and text -/

/-- A lark token: `(token.type, token.value)`. -/
structure LTok where
  type : String
  value : List Char
deriving DecidableEq, Repr

/-- A store token (`RawTokenModel`): `id` = position in `_built_tokens`, `kind` = `RULE`, `text` = `raw_text`. -/
structure STok where
  id : Nat
  kind : String
  text : List Char
deriving DecidableEq, Repr

/-- Concatenation of the values of lexer tokens. -/
def textOf (ts : List LTok) : List Char := (ts.map (·.value)).flatten

/-- Concatenation of the raw texts of store tokens. -/
def textOfS (ts : List STok) : List Char := (ts.map (·.text)).flatten

/-- The visible content of a lexer token list: `(type, value)` of the tokens with non-empty value. -/
def vis (ts : List LTok) : List (String × List Char) :=
  (ts.filter fun t => !t.value.isEmpty).map fun t => (t.type, t.value)

/-- The visible content of a store token list: `(kind, text)` of the tokens with non-empty text. -/
def visS (ts : List STok) : List (String × List Char) :=
  (ts.filter fun t => !t.text.isEmpty).map fun t => (t.kind, t.text)

/-! ## `PostLex` -/

def isNl (c : Char) : Bool := c == '\r' || c == '\n'
def isWs (c : Char) : Bool := c == ' ' || c == '\t'

/-- `re.compile(r'([\r\n]*)([ \t]*)(;.*)?', re.S).fullmatch(s).groups()`; group 3 `None` ↦ `[]`.
Greedy `[\r\n]*` then `[ \t]*` cannot usefully backtrack (the classes are disjoint and the rest must start
with `;` or be empty), so longest-prefix matching is exact. -/
def split3 (s : List Char) : Option (List Char × List Char × List Char) :=
  let nl := s.takeWhile isNl
  let r1 := s.dropWhile isNl
  let ind := r1.takeWhile isWs
  let r2 := r1.dropWhile isWs
  match r2 with
  | [] => some (nl, ind, [])
  | c :: _ => if c == ';' then some (nl, ind, r2) else none

def NIC : String := "_NEWLINE_INDENT_COMMENT"
def tEOL : LTok := ⟨"EOL", []⟩
def tDEDENT : LTok := ⟨"DEDENT_MARK", []⟩
def tINDENTMARK : LTok := ⟨"INDENT_MARK", []⟩

/-- Output of one `_NEWLINE_INDENT_COMMENT` token given its split and the state; returns the emitted tokens
and the new `(indented, prev_is_block_comment)`. Statement order as in `PostLex.process`. -/
def nicStep (indented prevBC : Bool) (nl ind com : List Char) : List LTok × Bool × Bool :=
  -- if newline_text and not prev_is_block_comment: yield EOL
  let e1 := if !nl.isEmpty && !prevBC then [tEOL] else []
  -- if not indent_text and indented: indented = False; yield DEDENT_MARK
  let dd := ind.isEmpty && indented
  let e2 := if dd then [tDEDENT] else []
  let indented1 := if dd then false else indented
  -- if newline_text: yield _NEWLINE
  let e3 := if !nl.isEmpty then [(⟨"_NEWLINE", nl⟩ : LTok)] else []
  -- prev_is_block_comment = False
  -- if indent_text and not indented: indented = True; yield INDENT_MARK
  let im := !ind.isEmpty && !indented1
  let e4 := if im then [tINDENTMARK] else []
  let indented2 := if im then true else indented1
  -- if comment_text: prev = True; yield BLOCK_COMMENT(indent+comment)  elif indent_text: yield INDENT
  if !com.isEmpty then (e1 ++ e2 ++ e3 ++ e4 ++ [⟨"BLOCK_COMMENT", ind ++ com⟩], indented2, true)
  else if !ind.isEmpty then (e1 ++ e2 ++ e3 ++ e4 ++ [⟨"INDENT", ind⟩], indented2, false)
  else (e1 ++ e2 ++ e3 ++ e4, indented2, false)

/-- `PostLex.process` from a given state. `.error "assert-match"` ↔ the `assert match` fails. -/
def postLexGo (indented prevBC : Bool) : List LTok → Except String (List LTok)
  | [] =>
    -- if not prev_is_block_comment: yield EOL ; if indented: yield DEDENT_MARK
    .ok ((if !prevBC then [tEOL] else []) ++ (if indented then [tDEDENT] else []))
  | t :: ts =>
    if t.type != NIC then
      match postLexGo indented prevBC ts with
      | .ok r => .ok (t :: r)
      | .error e => .error e
    else
      match split3 t.value with
      | none => .error "assert-match"
      | some (nl, ind, com) =>
        let (out, indented', prevBC') := nicStep indented prevBC nl ind com
        match postLexGo indented' prevBC' ts with
        | .ok r => .ok (out ++ r)
        | .error e => .error e

/-- `PostLex.process` (initial state `indented = False`, `prev_is_block_comment = False`). -/
def postLex (ts : List LTok) : Except String (List LTok) := postLexGo false false ts

/-- The visible pieces a raw token stands for: a `_NEWLINE_INDENT_COMMENT` is replaced by its
`_NEWLINE` piece and its `BLOCK_COMMENT` (indent+comment) or `INDENT` piece; other tokens are kept. -/
def pieces (t : LTok) : List LTok :=
  if t.type != NIC then [t] else
    match split3 t.value with
    | none => []
    | some (nl, ind, com) =>
      [(⟨"_NEWLINE", nl⟩ : LTok)] ++
        (if !com.isEmpty then [(⟨"BLOCK_COMMENT", ind ++ com⟩ : LTok)] else [⟨"INDENT", ind⟩])

/-! ## The lark tree and the built model tree -/

inductive PTree where
  | leaf (idx : Nat)
  | absent
  | node (rule : String) (children : List PTree)
deriving Repr

/-- Built model tree. `tok id` a token model (leaf = store-token id); `absent` a `None` field;
`rep ph items` an `internal.Repeated` with placeholder `ph`; `node rule fields` a tree model. -/
inductive MTree where
  | tok (id : Nat)
  | absent
  | rep (ph : Nat) (items : List MTree)
  | node (rule : String) (fields : List MTree)
deriving Repr

/-- `MField` of the design: a field value is an `MTree` (`tok`/`node` = one, `absent` = none, `rep`). -/
abbrev MField := MTree

/-! ## `ModelBuilder` -/

/-- `parser._IGNORED_TOKENS` (`%ignore` of beancount.lark); compared with the real set by the harness. -/
def ignoredTypes : List String := ["WHITESPACE", "INDENT", "_NEWLINE", "INLINE_COMMENT", "BLOCK_COMMENT"]

def isRepeated (r : String) : Bool := r == "repeated" || r == "repeated_sep"
def isIndent (r : String) : Bool := r == "indent" || r == "indent2"
/-- `tree.data.endswith('_')` -/
def isSkipped (r : String) : Bool := r.toList.getLast? == some '_'

/-- `self._tokens[a:b]` -/
def slice (toks : List LTok) (a b : Nat) : List LTok := (toks.drop a).take (b - a)

/-- `TOKEN_MODELS[token.type].from_raw_text(token.value)` for consecutive tokens, ids from `n`. -/
def mkToks (n : Nat) : List LTok → List STok
  | [] => []
  | t :: r => ⟨n, t.type, t.value⟩ :: mkToks (n + 1) r

/-- `_fix_gap(target)` with `self._cursor = c`: the tokens appended (empty-valued ones are skipped);
afterwards `self._cursor = target`. -/
def gap (toks : List LTok) (c target n : Nat) : List STok :=
  mkToks n ((slice toks c target).filter fun t => !t.value.isEmpty)

abbrev BRes (α : Type) := Except String (List STok × Nat × α)

/-- `_build_token(tokens[i])`: `_fix_gap(i)`, append the built token, `self._cursor += 1`. -/
def buildToken (toks : List LTok) (i c n : Nat) : BRes MTree :=
  match toks[i]? with
  | none => .error "KeyError:token-not-in-fed-list"
  | some t =>
    let g := gap toks c i n
    .ok (g ++ [⟨n + g.length, t.type, t.value⟩], i + 1, .tok (n + g.length))

/-- The `while` loop of `_build_indent` on `tokens[k:]` (`k` = absolute index of the head). -/
def findIndentGo : List LTok → Nat → Option Nat
  | [], _ => none
  | t :: ts, k =>
    if !t.value.isEmpty then
      if t.type == "INDENT" then some k
      else if !ignoredTypes.contains t.type then none
      else findIndentGo ts (k + 1)
    else findIndentGo ts (k + 1)

def findIndent (toks : List LTok) (c : Nat) : Option Nat := findIndentGo (toks.drop c) c

/-- `_build_indent`: `_fix_gap(j); _build_token(tokens[j])` for the `INDENT` found (the second
`_fix_gap(j)` inside `_build_token` appends nothing), else `UnexpectedInput('Missing indent.')`. -/
def buildIndent (toks : List LTok) (c n : Nat) : BRes MTree :=
  match findIndent toks c with
  | none => .error "UnexpectedInput:missing-indent"
  | some j => buildToken toks j c n

def placeholder (n : Nat) : STok := ⟨n, "PLACEHOLDER", []⟩

mutual
/-- The child loop of `_build_tree` (`cursor = c`, next store id `n`). -/
def buildChildren (toks : List LTok) : List PTree → Nat → Nat → BRes (List MTree)
  | [], c, _ => .ok ([], c, [])
  | .absent :: rest, c, n =>
    -- children.append(None)
    match buildChildren toks rest c n with
    | .ok (o, c', fs) => .ok (o, c', .absent :: fs)
    | .error e => .error e
  | .leaf i :: rest, c, n =>
    -- _build_required_node(token) = _build_token
    match buildToken toks i c n with
    | .error e => .error e
    | .ok (o1, c1, m) =>
      match buildChildren toks rest c1 (n + o1.length) with
      | .ok (o2, c2, fs) => .ok (o1 ++ o2, c2, m :: fs)
      | .error e => .error e
  | .node r cs :: rest, c, n =>
    if isRepeated r then
      -- _build_repeated_node: placeholder appended first (no _fix_gap), then the items
      match buildItems toks cs c (n + 1) with
      | .error e => .error e
      | .ok (o1, c1, items) =>
        match buildChildren toks rest c1 (n + 1 + o1.length) with
        | .ok (o2, c2, fs) => .ok (placeholder n :: o1 ++ o2, c2, .rep n items :: fs)
        | .error e => .error e
    else if isIndent r then
      match buildIndent toks c n with
      | .error e => .error e
      | .ok (o1, c1, m) =>
        match buildChildren toks rest c1 (n + o1.length) with
        | .ok (o2, c2, fs) => .ok (o1 ++ o2, c2, m :: fs)
        | .error e => .error e
    else if isSkipped r then
      buildChildren toks rest c n
    else
      -- _build_required_node(tree) = _build_tree(tree)
      match buildChildren toks cs c n with
      | .error e => .error e
      | .ok (o1, c1, fs1) =>
        match buildChildren toks rest c1 (n + o1.length) with
        | .ok (o2, c2, fs) => .ok (o1 ++ o2, c2, .node r fs1 :: fs)
        | .error e => .error e
/-- The list comprehension of `_build_repeated_node`. -/
def buildItems (toks : List LTok) : List PTree → Nat → Nat → BRes (List MTree)
  | [], c, _ => .ok ([], c, [])
  | .absent :: _, _, _ => .error "assert-false:required-none"
  | .leaf i :: rest, c, n =>
    match buildToken toks i c n with
    | .error e => .error e
    | .ok (o1, c1, m) =>
      match buildItems toks rest c1 (n + o1.length) with
      | .ok (o2, c2, ms) => .ok (o1 ++ o2, c2, m :: ms)
      | .error e => .error e
  | .node r cs :: rest, c, n =>
    if isSkipped r then buildItems toks rest c n
    else
      match buildChildren toks cs c n with
      | .error e => .error e
      | .ok (o1, c1, fs1) =>
        match buildItems toks rest c1 (n + o1.length) with
        | .ok (o2, c2, ms) => .ok (o1 ++ o2, c2, .node r fs1 :: ms)
        | .error e => .error e
end

/-- `_build_required_node` / `_build_tree` on one node. -/
def buildTree (toks : List LTok) (t : PTree) (c n : Nat) : BRes MTree :=
  match t with
  | .leaf i => buildToken toks i c n
  | .absent => .error "assert-false:required-none"
  | .node r cs =>
    match buildChildren toks cs c n with
    | .ok (o, c', fs) => .ok (o, c', .node r fs)
    | .error e => .error e

/-- `ModelBuilder.build` before `from_parsed_children` permutations: `_build_tree(tree)`,
`_fix_gap(len(tokens))`, `insert_after(None, built_tokens)`. -/
def buildRaw (toks : List LTok) (t : PTree) : Except String (List STok × MTree) :=
  match t with
  | .node _ _ =>
    match buildTree toks t 0 0 with
    | .ok (o, c, m) => .ok (o ++ gap toks c toks.length o.length, m)
    | .error e => .error e
  | _ => .error "root-not-a-tree"

def MTree.isAbsent : MTree → Bool
  | .absent => true
  | _ => false

/-- `Transaction.from_parsed_children`: `if string1 is not None and string2 is None:
string1, string2 = string0, string1`. -/
def txnSwap : List MTree → List MTree
  | lc :: d :: f :: s0 :: s1 :: s2 :: args =>
    if !s1.isAbsent && s2.isAbsent then lc :: d :: f :: s0 :: s0 :: s1 :: args
    else lc :: d :: f :: s0 :: s1 :: s2 :: args
  | fs => fs

def fromParsedChildren (rule : String) (fs : List MTree) : List MTree :=
  if rule == "transaction" then txnSwap fs else fs

mutual
/-- Apply `from_parsed_children` of every node (bottom-up, as the builder does). -/
def MTree.adjust : MTree → MTree
  | .tok i => .tok i
  | .absent => .absent
  | .rep ph items => .rep ph (adjustL items)
  | .node r fs => .node r (fromParsedChildren r (adjustL fs))
def adjustL : List MTree → List MTree
  | [] => []
  | m :: ms => m.adjust :: adjustL ms
end

/-- `ModelBuilder(tokens).build(tree, target)`. -/
def build (toks : List LTok) (t : PTree) : Except String (List STok × MTree) :=
  match buildRaw toks t with
  | .ok (s, m) => .ok (s, m.adjust)
  | .error e => .error e

/-! ## Leaves, sub-models, printing -/

mutual
/-- DFS leaves (store-token ids); a `rep` contributes its placeholder first. -/
def MTree.leaves : MTree → List Nat
  | .tok i => [i]
  | .absent => []
  | .rep ph items => ph :: leavesL items
  | .node _ fs => leavesL fs
def leavesL : List MTree → List Nat
  | [] => []
  | m :: ms => m.leaves ++ leavesL ms
end

mutual
/-- All sub-models in DFS pre-order (the node itself first; `absent` fields are not models). -/
def MTree.subs : MTree → List MTree
  | .tok i => [.tok i]
  | .absent => []
  | .rep ph items => .rep ph items :: subsL items
  | .node r fs => .node r fs :: subsL fs
def subsL : List MTree → List MTree
  | [] => []
  | m :: ms => m.subs ++ subsL ms
end

/-- `first_token` (generic): first DFS leaf. -/
def MTree.firstLeaf (m : MTree) : Option Nat := m.leaves.head?
/-- `last_token` (generic): last DFS leaf. -/
def MTree.lastLeaf (m : MTree) : Option Nat := m.leaves.getLast?

/-- `store_handle` lookup: position of the token with the given id. -/
def posOf (store : List STok) (id : Nat) : Option Nat := store.findIdx? fun t => t.id == id

/-- `token_store.iter(first, last)` by ids. -/
def segment (store : List STok) (a b : Nat) : List STok :=
  match posOf store a, posOf store b with
  | some i, some j => (store.drop i).take (j + 1 - i)
  | _, _ => []

def MTree.isFile : MTree → Bool
  | .node r _ => r == "file"
  | _ => false

/-- `first_token`: `File` → `token_store.get_first()`, otherwise the first leaf. -/
def firstTok (store : List STok) (m : MTree) : Option Nat :=
  if m.isFile then (store.head?.map (·.id)) else m.firstLeaf
/-- `last_token`: `File` → `token_store.get_last()`, otherwise the last leaf. -/
def lastTok (store : List STok) (m : MTree) : Option Nat :=
  if m.isFile then (store.getLast?.map (·.id)) else m.lastLeaf

/-- `print_model(model)`: concatenation of `raw_text` over `model.tokens`. -/
def printModel (store : List STok) (m : MTree) : List Char :=
  match firstTok store m, lastTok store m with
  | some a, some b => textOfS (segment store a b)
  | _, _ => []

/-! ## The lark assumption A2 as an executable predicate -/

/-- What the builder meets, in order: a token leaf, a placeholder (`repeated`), an `indent` request. -/
inductive Ev where
  | leaf (idx : Nat)
  | ph
  | indent
deriving DecidableEq, Repr

mutual
/-- Events of the child loop of `_build_tree`. -/
def eventsC : List PTree → List Ev
  | [] => []
  | .absent :: rest => eventsC rest
  | .leaf i :: rest => .leaf i :: eventsC rest
  | .node r cs :: rest =>
    if isRepeated r then .ph :: (eventsI cs ++ eventsC rest)
    else if isIndent r then .indent :: eventsC rest
    else if isSkipped r then eventsC rest
    else eventsC cs ++ eventsC rest
/-- Events of the items of a `repeated` node. -/
def eventsI : List PTree → List Ev
  | [] => []
  | .absent :: rest => eventsI rest
  | .leaf i :: rest => .leaf i :: eventsI rest
  | .node r cs :: rest =>
    if isSkipped r then eventsI rest else eventsC cs ++ eventsI rest
end

def events : PTree → List Ev
  | .leaf i => [.leaf i]
  | .absent => []
  | .node _ cs => eventsC cs

/-- Run the cursor over the events: every token leaf must lie at or after the cursor and inside the fed
list; an `indent` moves the cursor behind the `INDENT` token that `_build_indent` picks.
`some c'` = the cursor after the last event. -/
def cursorRun (toks : List LTok) : List Ev → Nat → Option Nat
  | [], c => some c
  | .leaf i :: r, c => if c ≤ i ∧ i < toks.length then cursorRun toks r (i + 1) else none
  | .ph :: r, c => cursorRun toks r c
  | .indent :: r, c =>
    match findIndent toks c with
    | some j => cursorRun toks r (j + 1)
    | none => none

/-- A2: the token leaves met by the builder in DFS order have strictly increasing indices `< toks.length`
(and, when the tree has `indent` nodes, each `INDENT` token picked by `_build_indent` lies strictly between
its neighbours). Without `indent` nodes this is exactly "strictly increasing and in range"
(`Proofs/LexBuild.lean: cursorRun_noIndent`). -/
def LeavesIncreasing (toks : List LTok) (t : PTree) : Prop := (cursorRun toks (events t) 0).isSome

instance (toks : List LTok) (t : PTree) : Decidable (LeavesIncreasing toks t) := by
  unfold LeavesIncreasing; exact inferInstance

/-- The token-leaf indices among the events. -/
def leafIdxs : List Ev → List Nat
  | [] => []
  | .leaf i :: r => i :: leafIdxs r
  | _ :: r => leafIdxs r

/-- "Indents are well placed", starting from cursor `c`: at every `indent` event `_build_indent` finds an
`INDENT` token (`findIndent toks cursor = some j`, where the cursor is the one the builder has reached there:
one past the last token leaf or one past the last `INDENT` picked, whichever came later) and the first token
leaf that follows in DFS order (if any) has an index strictly greater than `j`.  No ordering check is made on
the leaves themselves: that is plain A2 (`leafIdxs` strictly increasing and in range). -/
def indentsPlaced (toks : List LTok) : List Ev → Nat → Bool
  | [], _ => true
  | .leaf i :: r, _ => indentsPlaced toks r (i + 1)
  | .ph :: r, c => indentsPlaced toks r c
  | .indent :: r, c =>
    match findIndent toks c with
    | some j =>
      (match (leafIdxs r).head? with
        | some i => decide (j < i)
        | none => true) && indentsPlaced toks r (j + 1)
    | none => false

/-- The `[NEVER]` slot (4th child) of a `transaction` child list is absent (or the list is too short). -/
def slot3Absent : List MTree → Bool
  | _ :: _ :: _ :: s0 :: _ => s0.isAbsent
  | _ => true

mutual
/-- A3: in every `transaction` node the `[NEVER]` slot (4th child) is absent, so that
`Transaction.from_parsed_children` only moves a child into an empty slot. -/
def MTree.txnOk : MTree → Bool
  | .tok _ => true
  | .absent => true
  | .rep _ items => txnOkL items
  | .node r fs => (r != "transaction" || slot3Absent fs) && txnOkL fs
def txnOkL : List MTree → Bool
  | [] => true
  | m :: ms => m.txnOk && txnOkL ms
end

/-- A3 for a run of the builder (vacuous when the builder raises). -/
def txnSlotsOk (toks : List LTok) (t : PTree) : Bool :=
  match buildRaw toks t with
  | .ok (_, m) => m.txnOk
  | .error _ => true

end Autobean.Lex
