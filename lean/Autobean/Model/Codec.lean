/-
Codec: `_parse_value` / `_format_value` of every value-carrying token class of
`autobean_refactor/models/*.py`, and hand models of the lark terminals of `beancount.lark` that lex them.

Conventions
* texts are `List Char`; Python raising = `Except String` with a short tag;
* `lexX : Text → Option (Text × Text)` is the model of `re.match(TERMINAL, text)` at position 0 of a
  line start: `some (lexeme, rest)` or `none`.  The regexes are the ones lark compiles
  (`terminals_by_name[RULE].pattern.to_regexp()`), pinned in `harness/props/c12.py` (`TERMINALS`).
* core Lean only; every function is total and structurally recursive (kernel-evaluable).
-/
namespace Autobean.Codec

abbrev Text := List Char

/-! ## character classes (all ASCII: the regex classes are explicit ranges, no flags) -/

def isDigit (c : Char) : Bool := '0' ≤ c && c ≤ '9'
def isUpper (c : Char) : Bool := 'A' ≤ c && c ≤ 'Z'
def isLower (c : Char) : Bool := 'a' ≤ c && c ≤ 'z'
def isAlnum (c : Char) : Bool := isDigit c || isUpper c || isLower c
/-- `[ \t]` -/
def isBlank (c : Char) : Bool := c == ' ' || c == '\t'
/-- `[\r\n]` -/
def isEol (c : Char) : Bool := c == '\r' || c == '\n'
/-- `[^\r\n]` -/
def notEol (c : Char) : Bool := !isEol c
/-- `[A-Za-z0-9-_\/.]` (TAG, LINK) -/
def isTagChar (c : Char) : Bool := isAlnum c || c == '-' || c == '_' || c == '/' || c == '.'
/-- `[a-zA-Z0-9-_]` (META_KEY body) -/
def isKeyChar (c : Char) : Bool := isAlnum c || c == '-' || c == '_'
/-- `[*!&#?%PSTCURM]` (POSTING_FLAG) -/
def isFlagChar (c : Char) : Bool :=
  c == '*' || c == '!' || c == '&' || c == '#' || c == '?' || c == '%' || c == 'P' || c == 'S' || c == 'T' ||
  c == 'C' || c == 'U' || c == 'R' || c == 'M'
/-- `[^\x00-\x7f]` -/
def isNonAscii (c : Char) : Bool := c.toNat > 127

/-- `str.startswith` -/
def stripPrefix : Text → Text → Option Text
  | [], s => some s
  | _ :: _, [] => none
  | p :: ps, c :: s => if p = c then stripPrefix ps s else none

/-! ## EscapedString (`escaped_string.py`; terminal `ESCAPED_STRING: /".*?(?<!\\)(\\\\)*?"/s`) -/

/-- `__ESCAPE_PATTERN = [\\"]` -/
def needsEsc (c : Char) : Bool := c == '\\' || c == '"'

/-- `EscapedString.escape(s)` (non-aggressive): every `\` and `"` gets a `\` in front.
(`__ESCAPE_MAP` maps both characters to themselves.) -/
def escape : Text → Text
  | [] => []
  | c :: s => if needsEsc c then '\\' :: c :: escape s else c :: escape s

/-- `__UNESCAPE_MAP.get(c, c)` -/
def unescMap (c : Char) : Char :=
  if c = 'n' then '\n' else if c = 't' then '\t' else if c = 'r' then '\r'
  else if c = 'f' then '\x0c' else if c = 'b' then '\x08' else c

/-- `EscapedString.unescape(s)` = `re.sub(r'\\(.)', …)`: left to right, a backslash followed by any
character *other than `\n`* (`.` without `re.S`) is replaced by the mapped character; a backslash before
`\n` or at the end of the text stays. -/
def unescape : Text → Text
  | [] => []
  | [c] => [c]
  | c :: d :: s => if c = '\\' ∧ d ≠ '\n' then unescMap d :: unescape s else c :: unescape (d :: s)

/-- `EscapedString._format_value` -/
def fmtStr (v : Text) : Text := '"' :: (escape v ++ ['"'])

/-- `EscapedString._parse_value`: `unescape(raw_text[1:-1])`; never raises. -/
def parseStr (t : Text) : Text := unescape (t.drop 1).dropLast

/-- Body of ESCAPED_STRING after the opening quote, as a two-state scan (`esc` = the previous character was an
unpaired backslash): a backslash takes the next character with it (any character, `/s`), the first quote reached
in state `esc = false` closes.  Equivalent to "the earliest `"` preceded by an even-length maximal run of
backslashes" (validated against `re` exhaustively in the harness). -/
def scanStr : Bool → Text → Option (Text × Text)
  | _, [] => none
  | true, c :: s => (scanStr false s).map fun p => (c :: p.1, p.2)
  | false, c :: s =>
    if c = '"' then some ([c], s)
    else if c = '\\' then (scanStr true s).map fun p => (c :: p.1, p.2)
    else (scanStr false s).map fun p => (c :: p.1, p.2)

def lexStr : Text → Option (Text × Text)
  | [] => none
  | c :: s => if c = '"' then (scanStr false s).map fun p => (c :: p.1, p.2) else none

/-! ## InlineComment (`inline_comment.py`; `INLINE_COMMENT: /;[^\r\n]*/s`) -/

def fmtIC (v : Text) : Text := if v = [] then [';'] else ';' :: ' ' :: v

/-- `raw_text.removeprefix(';').lstrip(' ')` -/
def parseIC (t : Text) : Text :=
  match t with
  | [] => []
  | c :: s => if c = ';' then s.dropWhile (· == ' ') else (c :: s).dropWhile (· == ' ')

def lexIC : Text → Option (Text × Text)
  | [] => none
  | c :: s => if c = ';' then some (c :: (s.takeWhile notEol), (s.dropWhile notEol)) else none

/-! ## BlockComment (`block_comment.py`)
`BLOCK_COMMENT: /^/m INLINE_COMMENT (_NEWLINE INLINE_COMMENT)* | /^/m WHITESPACE INLINE_COMMENT (_NEWLINE WHITESPACE INLINE_COMMENT)*`
with `_NEWLINE: /\r*\n/`, `WHITESPACE: /[ \t]+/`. -/

/-- `_splitlines(s)`: split on `\n` only, keeping the `\n` at the end of every piece but the last. -/
def splitLines : Text → List Text
  | [] => [[]]
  | c :: s =>
    match splitLines s with
    | [] => [[c]]            -- unreachable: `splitLines` never returns `[]`
    | l :: ls => if c = '\n' then [c] :: l :: ls else (c :: l) :: ls

/-- `not line.rstrip('\r\n')` -/
def blankLine (l : Text) : Bool := l.all isEol

def fmtBCLine (indent l : Text) : Text :=
  if blankLine l then indent ++ ';' :: l else indent ++ ';' :: ' ' :: l

/-- `BlockComment._format_value(indent, value)` -/
def fmtBC (indent v : Text) : Text := ((splitLines v).map (fmtBCLine indent)).flatten

/-- `line.split(';', maxsplit=1)` when the line has a `;` -/
def splitSemi : Text → Option (Text × Text)
  | [] => none
  | c :: s => if c = ';' then some ([], s) else (splitSemi s).map fun p => (c :: p.1, p.2)

/-- `line.removeprefix(' ')` -/
def dropSpace : Text → Text
  | [] => []
  | c :: s => if c = ' ' then s else c :: s

def spacedLine (l : Text) : Bool := blankLine l || l.head? == some ' '

/-- `BlockComment._parse_value(raw_text)` → `(indent, value)`; raises `ValueError` (tuple unpacking) iff some
line has no `;`. -/
def parseBC (t : Text) : Except String (Text × Text) :=
  match (splitLines t).mapM splitSemi with
  | none => .error "ValueError"
  | some pairs =>
    let vals := pairs.map (·.2)
    let vals' := if vals.all spacedLine then vals.map dropSpace else vals
    .ok ((pairs.head?.map (·.1)).getD [], vals'.flatten)

/-- `\r*\n` -/
def lexNewline (s : Text) : Option (Text × Text) :=
  match (s.dropWhile (· == '\r')) with
  | [] => none
  | c :: r => if c = '\n' then some ((s.takeWhile (· == '\r')) ++ [c], r) else none

/-- One comment line: `[ \t]+;[^\r\n]*` (`ind = true`) or `;[^\r\n]*` (`ind = false`). -/
def lexBCLine (ind : Bool) (s : Text) : Option (Text × Text) :=
  if ind then
    match (s.takeWhile isBlank), lexIC (s.dropWhile isBlank) with
    | [], _ => none
    | _ :: _, none => none
    | w :: ws, some p => some ((w :: ws) ++ p.1, p.2)
  else lexIC s

/-- `(_NEWLINE line)*`, greedy; `fuel` bounds the number of lines (every line consumes ≥ 2 characters). -/
def lexBCMore : Nat → Bool → Text → Text × Text
  | 0, _, s => ([], s)
  | fuel + 1, ind, s =>
    match lexNewline s with
    | none => ([], s)
    | some (nlx, r) =>
      match lexBCLine ind r with
      | none => ([], s)
      | some (l, r') => (nlx ++ l ++ (lexBCMore fuel ind r').1, (lexBCMore fuel ind r').2)

/-- BLOCK_COMMENT at a line start.  The two alternatives exclude each other on the first character. -/
def lexBC (s : Text) : Option (Text × Text) :=
  let ind := match s with
    | [] => false
    | c :: _ => isBlank c
  match lexBCLine ind s with
  | none => none
  | some (l, r) => some (l ++ (lexBCMore s.length ind r).1, (lexBCMore s.length ind r).2)

/-! ## Tag, Link, MetaKey, Bool, TransactionFlag, Account, Currency -/

def fmtTag (v : Text) : Text := '#' :: v
def fmtLink (v : Text) : Text := '^' :: v
/-- `raw_text[1:]` (Tag and Link) -/
def parseTag (t : Text) : Text := t.drop 1
def parseLink (t : Text) : Text := t.drop 1

def lexSigil (sigil : Char) : Text → Option (Text × Text)
  | [] => none
  | c :: s =>
    if c = sigil then
      match (s.takeWhile isTagChar) with
      | [] => none
      | b :: bs => some (c :: b :: bs, (s.dropWhile isTagChar))
    else none

/-- `TAG: /#[A-Za-z0-9-_\/.]+/` -/
def lexTag : Text → Option (Text × Text) := lexSigil '#'
/-- `LINK: /\^[A-Za-z0-9-_\/.]+/` -/
def lexLink : Text → Option (Text × Text) := lexSigil '^'

def fmtKey (v : Text) : Text := v ++ [':']
/-- `raw_text[:-1]` -/
def parseKey (t : Text) : Text := t.dropLast

/-- `META_KEY: /[a-z][a-zA-Z0-9-_]+:/` -/
def lexKey : Text → Option (Text × Text)
  | [] => none
  | c :: s =>
    if isLower c then
      match (s.takeWhile isKeyChar), (s.dropWhile isKeyChar) with
      | [], _ => none
      | _ :: _, [] => none
      | b :: bs, d :: r => if d = ':' then some (c :: (b :: bs) ++ [d], r) else none
    else none

def sTRUE : Text := ['T', 'R', 'U', 'E']
def sFALSE : Text := ['F', 'A', 'L', 'S', 'E']
def sTxn : Text := ['t', 'x', 'n']

def fmtBool (b : Bool) : Text := if b then sTRUE else sFALSE

def parseBool (t : Text) : Except String Bool :=
  if t = sTRUE then .ok true else if t = sFALSE then .ok false else .error "KeyError"

/-- `BOOL: "TRUE" | "FALSE"` (compiled `(?:FALSE|TRUE)`) -/
def lexBool (s : Text) : Option (Text × Text) :=
  match stripPrefix sFALSE s with
  | some r => some (sFALSE, r)
  | none =>
    match stripPrefix sTRUE s with
    | some r => some (sTRUE, r)
    | none => none

def fmtFlag (v : Text) : Text := v
def parseFlag (t : Text) : Text := if t = sTxn then ['*'] else t

/-- `TRANSACTION_FLAG: POSTING_FLAG | "txn"` (compiled `(?:txn|[*!&#?%PSTCURM])`) -/
def lexFlag (s : Text) : Option (Text × Text) :=
  match stripPrefix sTxn s with
  | some r => some (sTxn, r)
  | none =>
    match s with
    | [] => none
    | c :: r => if isFlagChar c then some ([c], r) else none

/-- `ACCOUNT: _ACCOUNT_TYPE (":" _ACCOUNT_NAME)+` -/
def isAccTypeStart (c : Char) : Bool := isUpper c || isNonAscii c
def isAccNameStart (c : Char) : Bool := isUpper c || isDigit c || isNonAscii c
def isAccChar (c : Char) : Bool := isAlnum c || c == '-' || isNonAscii c

/-- `(":" _ACCOUNT_NAME)*`, greedy; a `:` not followed by a name start ends the lexeme before it. -/
def lexAccMore : Nat → Text → Text × Text
  | 0, s => ([], s)
  | fuel + 1, s =>
    match s with
    | c :: d :: r =>
      if c = ':' ∧ isAccNameStart d then
        let b := (r.takeWhile isAccChar)
        let r' := (r.dropWhile isAccChar)
        (c :: d :: b ++ (lexAccMore fuel r').1, (lexAccMore fuel r').2)
      else ([], s)
    | _ => ([], s)

def lexAccount : Text → Option (Text × Text)
  | [] => none
  | c :: s =>
    if isAccTypeStart c then
      let b := (s.takeWhile isAccChar)
      let r := (s.dropWhile isAccChar)
      match (lexAccMore r.length r).1 with
      | [] => none
      | m :: ms => some (c :: b ++ (m :: ms), (lexAccMore r.length r).2)
    else none

/-- `_CURRENCY_BODY: /[A-Z0-9'._-]*/` -/
def isCurBody (c : Char) : Bool := isUpper c || isDigit c || c == '\'' || c == '.' || c == '_' || c == '-'
def isCurEnd (c : Char) : Bool := isUpper c || isDigit c

/-- Longest prefix of `s` (all characters already known to be in the body class) that ends with a character
satisfying `p`; `none` if there is none.  Models greedy `BODY* p` with backtracking. -/
def longestEnding (p : Char → Bool) : Text → Option (Text × Text)
  | [] => none
  | c :: s =>
    match longestEnding p s with
    | some (l, r) => some (c :: l, r)
    | none => if p c then some ([c], s) else none

/-- `CURRENCY: /[A-Z]/ BODY /[A-Z0-9]/ | "/" BODY /[A-Z]/ [BODY /[A-Z0-9]/]`
(compiled with the `/` alternative first; the alternatives exclude each other on the first character). -/
def lexCurrency : Text → Option (Text × Text)
  | [] => none
  | c :: s =>
    let b := (s.takeWhile isCurBody)
    let r := (s.dropWhile isCurBody)
    if c = '/' then
      -- greedy BODY* [A-Z] then optional greedy BODY* [A-Z0-9]: the overall longest prefix of the body run
      -- that contains an upper-case letter and ends in [A-Z0-9]; else the longest ending in [A-Z].
      match longestEnding isUpper b with
      | none => none
      | some (l1, r1) =>
        match longestEnding isCurEnd r1 with
        | some (l2, r2) => some (c :: l1 ++ l2, r2 ++ r)
        | none => some (c :: l1, r1 ++ r)
    else if isUpper c then
      match longestEnding isCurEnd b with
      | none => none
      | some (l, r1) => some (c :: l, r1 ++ r)
    else none

/-! ## digits -/

def digitChar (d : Nat) : Char :=
  match d with
  | 0 => '0' | 1 => '1' | 2 => '2' | 3 => '3' | 4 => '4'
  | 5 => '5' | 6 => '6' | 7 => '7' | 8 => '8' | _ => '9'

/-- value of an ASCII digit (0 for anything else; only applied to digits) -/
def digitVal (c : Char) : Nat :=
  if c = '1' then 1 else if c = '2' then 2 else if c = '3' then 3 else if c = '4' then 4 else if c = '5' then 5
  else if c = '6' then 6 else if c = '7' then 7 else if c = '8' then 8 else if c = '9' then 9 else 0

/-- `int(s)` for a text of ASCII digits (most significant first), as a left fold. -/
def toNatAux (acc : Nat) : Text → Nat
  | [] => acc
  | c :: s => toNatAux (acc * 10 + digitVal c) s

def toNat (s : Text) : Nat := toNatAux 0 s

/-- Decimal digits of `n` without leading zeros (`"0"` for 0); `fuel > n` suffices. -/
def natDigitsAux : Nat → Nat → Text → Text
  | 0, _, acc => acc
  | fuel + 1, n, acc =>
    if n < 10 then digitChar n :: acc else natDigitsAux fuel (n / 10) (digitChar (n % 10) :: acc)

def natDigits (n : Nat) : Text := natDigitsAux (n + 1) n []

/-! ## Date (`date.py`; `DATE.10: /[0-9]{4,}[-\/][0-9]{1,2}[-\/][0-9]{1,2}/`) -/

structure Date where
  y : Nat
  m : Nat
  d : Nat
  deriving DecidableEq, Repr

def isLeap (y : Nat) : Bool := y % 4 == 0 && (y % 100 != 0 || y % 400 == 0)

def daysIn (y m : Nat) : Nat :=
  if m = 2 then (if isLeap y then 29 else 28)
  else if m = 4 ∨ m = 6 ∨ m = 9 ∨ m = 11 then 30 else 31

/-- `datetime.date(y, m, d)` does not raise. -/
def validDate (v : Date) : Bool :=
  1 ≤ v.y && v.y ≤ 9999 && 1 ≤ v.m && v.m ≤ 12 && 1 ≤ v.d && v.d ≤ daysIn v.y v.m

def pad2 (n : Nat) : Text := [digitChar (n / 10 % 10), digitChar (n % 10)]
def pad4 (n : Nat) : Text :=
  [digitChar (n / 1000 % 10), digitChar (n / 100 % 10), digitChar (n / 10 % 10), digitChar (n % 10)]

/-- `f'{y:04d}-{m:02d}-{d:02d}'` for `y ≤ 9999`, `m, d ≤ 99` (every `datetime.date`). -/
def fmtDate (v : Date) : Text := pad4 v.y ++ '-' :: (pad2 v.m ++ '-' :: pad2 v.d)

def isDateSep (c : Char) : Bool := c == '-' || c == '/'

/-- `re.split` on the class of `-` and `/` -/
def splitSep : Text → List Text
  | [] => [[]]
  | c :: s =>
    match splitSep s with
    | [] => [[c]]
    | l :: ls => if isDateSep c then [] :: l :: ls else (c :: l) :: ls

def isNumeral (s : Text) : Bool := s != [] && s.all isDigit

/-- `Date._parse_value`.  Exact for texts over digits, `-` and `/` (in particular for every DATE lexeme); `int()` also
accepts signs, blanks, `_` and non-ASCII digits, which no lexeme contains (out of the model's scope). -/
def parseDate (t : Text) : Except String Date :=
  match splitSep t with
  | [a, b, c] =>
    if isNumeral a && isNumeral b && isNumeral c then
      let v : Date := ⟨toNat a, toNat b, toNat c⟩
      if validDate v then .ok v else .error "ValueError"
    else .error "ValueError"
  | _ => .error "ValueError"

/-- `[0-9]{1,2}` greedy -/
def lexD12 : Text → Option (Text × Text)
  | [] => none
  | [c] => if isDigit c then some ([c], []) else none
  | c :: d :: s =>
    if isDigit c then (if isDigit d then some ([c, d], s) else some ([c], d :: s)) else none

def lexDate (s : Text) : Option (Text × Text) :=
  let ys := (s.takeWhile isDigit)
  if ys.length < 4 then none else
  match (s.dropWhile isDigit) with
  | [] => none
  | s1 :: r1 =>
    if !isDateSep s1 then none else
    match lexD12 r1 with
    | none => none
    | some (ms, r2) =>
      match r2 with
      | [] => none
      | s2 :: r3 =>
        if !isDateSep s2 then none else
        match lexD12 r3 with
        | none => none
        | some (ds, r4) => some (ys ++ s1 :: (ms ++ s2 :: ds), r4)

/-! ## Number (`number.py`; `NUMBER: (/([0-9]{1,3})(,[0-9]{3})+/ | /[0-9]+/) [/\.[0-9]*/]`) -/

/-- A finite non-negative `decimal.Decimal`: coefficient and exponent (`as_tuple()`), value `coeff · 10^exp`. -/
structure Dec where
  coeff : Nat
  exp : Int
  deriving DecidableEq, Repr

/-- `format(v, 'f')` (`Decimal.__format__`, type `f`, no precision): plain notation, never an exponent. -/
def fmtNum (v : Dec) : Text :=
  let ds := natDigits v.coeff
  match v.exp with
  | .ofNat e => if v.coeff = 0 then ['0'] else ds ++ List.replicate e '0'
  | .negSucc k' =>
    let k := k' + 1
    let padded := List.replicate (k + 1 - ds.length) '0' ++ ds
    padded.take (padded.length - k) ++ '.' :: padded.drop (padded.length - k)

/-- `Number._parse_value`: `Decimal(raw_text.replace(',', ''))`.  Exact for texts over `[0-9.,]` (every NUMBER
lexeme); `Decimal()` also accepts signs, exponents, `_`, blanks, `Infinity`/`NaN` and non-ASCII digits, which no
lexeme contains (out of the model's scope). -/
def parseNum (t : Text) : Except String Dec :=
  let s := t.filter (· != ',')
  let ip := (s.takeWhile isDigit)
  match (s.dropWhile isDigit) with
  | [] => if ip = [] then .error "InvalidOperation" else .ok ⟨toNat ip, 0⟩
  | c :: fr =>
    if c = '.' ∧ fr.all isDigit ∧ (ip ≠ [] ∨ fr ≠ []) then .ok ⟨toNat (ip ++ fr), - (fr.length : Int)⟩
    else .error "InvalidOperation"

/-- `(,[0-9]{3})*` greedy -/
def lexGroups : Nat → Text → Text × Text
  | 0, s => ([], s)
  | fuel + 1, s =>
    match s with
    | c :: d1 :: d2 :: d3 :: r =>
      if c = ',' ∧ isDigit d1 ∧ isDigit d2 ∧ isDigit d3 then
        (c :: d1 :: d2 :: d3 :: (lexGroups fuel r).1, (lexGroups fuel r).2)
      else ([], s)
    | _ => ([], s)

/-- `[/\.[0-9]*/]` -/
def lexFrac (s : Text) : Text × Text :=
  match s with
  | [] => ([], s)
  | c :: r => if c = '.' then (c :: (r.takeWhile isDigit), (r.dropWhile isDigit)) else ([], s)

def lexNumber (s : Text) : Option (Text × Text) :=
  let ds := (s.takeWhile isDigit)
  let r := (s.dropWhile isDigit)
  if ds = [] then none else
  let g := if ds.length ≤ 3 then lexGroups r.length r else ([], r)
  let f := lexFrac g.2
  some (ds ++ g.1 ++ f.1, f.2)

/-- Numeric equality of decimals (`Decimal.__eq__` on finite non-negative values): scale the one with the larger
exponent down to the smaller exponent and compare coefficients. -/
def Dec.eqv (a b : Dec) : Prop :=
  a.coeff * 10 ^ (a.exp - b.exp).toNat = b.coeff * 10 ^ (b.exp - a.exp).toNat

/-! ## domains (decidable; the C12 theorems are stated on them, the harness compares them with its own) -/

/-- InlineComment: no `\r`, `\n`; does not start with a space (`_parse_value` strips all leading spaces). -/
def domIC (v : Text) : Bool := v.all notEol && v.head? != some ' '

/-- BlockComment indent: `[ \t]*`. -/
def domIndent (i : Text) : Bool := i.all isBlank

/-- One piece of `_splitlines(value)`: `[^\r\n]*` (last piece) or `[^\r\n]*\r*\n`. -/
def domBCLine (l : Text) : Bool :=
  (l.dropWhile notEol) == [] || ((l.dropWhile notEol).dropWhile (· == '\r')) == ['\n']

/-- BlockComment value: every `\r` is inside a `\r*\n` run (a lone CR cannot appear inside BLOCK_COMMENT:
`[^\r\n]*` stops at it and `\r*\n` needs the `\n`). -/
def domBCValue (v : Text) : Bool := (splitLines v).all domBCLine

def domTag (v : Text) : Bool := v != [] && v.all isTagChar

def domKey (v : Text) : Bool :=
  match v with
  | c :: d :: s => isLower c && (d :: s).all isKeyChar
  | _ => false

def domFlag (v : Text) : Bool :=
  match v with
  | [c] => isFlagChar c
  | _ => false

def domAccount (v : Text) : Bool := lexAccount v == some (v, [])
def domCurrency (v : Text) : Bool := lexCurrency v == some (v, [])

end Autobean.Codec
