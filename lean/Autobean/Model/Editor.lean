/-
Model of `autobean_refactor/editor.py` over an abstract file system (C16).

What is modelled (core Lean only, total, executable):

* a file system `FS = List (Path × Bytes)` (association list; the first entry of a path is the file),
  with `read` / `write` / `unlink`, and a write log `List Event`.  The file system is addressed by the
  keys of the mapping; the walk guarantees that the keys it produces name pairwise different files
  (`bfs_once`), so one key = one file;
* text decoding.  `open(path)` in text mode with the default `newline=None` translates `\r\n` and `\r`
  to `\n` on read ("universal newlines") and writes `\n` as `os.linesep` (= `\n` on POSIX);
  `open(path, newline='')` translates nothing.  The mode is the parameter `translate : Bool`, so that both
  the repaired code (`translate = false`) and the old behaviour (`translate = true`) are expressible.
  UTF-8 itself is outside the model: file contents are code points;
* `posixpath.dirname` on path strings;
* include expansion as DATA: `includes : Path → List Path` gives, per file, the already-globbed and
  `normpath`ed matches of all its include directives, in directive order (what `_get_include_paths`
  yields).  `glob`, `normpath` and the parser are outside the model;
* `bfs`: the deque loop of `edit_file_recursive` (queue, the set `visited` of real paths,
  `continue` when the file was already read under any spelling) returning the visit order = the keys of
  `texts`/`files`; `os.path.realpath` is the function `ident`, given as data;
* `enter` (read every visited file once), `exit` (unlink `set(texts) - set(files)`; then for every entry
  of `files` in dict order: `makedirs(dirname)` when the dirname is non-empty; write iff the printed text
  differs from `texts.get(path)`), `editFile`, `editFileRecursive` with the generator protocol of
  `contextlib.contextmanager`: the code after `yield` is skipped when the body raises.

The parsed model is abstract: a model is represented by its printed text (`printer.print_model`), so the
mapping handed to the body is `List (Path × Text)` (dict order) and the body returns the mapping it leaves
behind (printed texts) or raises.
-/
namespace Autobean.Editor

abbrev Path := List Char
abbrev Bytes := List Char      -- file contents, as code points
abbrev Text := List Char       -- what Python's `f.read()` returns / `f.write()` takes
abbrev FS := List (Path × Bytes)

inductive Event where
  | write (p : Path)
  | unlink (p : Path)
  | mkdir (p : Path)
  deriving DecidableEq, Repr

/-! ### File system -/

/-- `open(p).read()` at the byte level: `none` = `FileNotFoundError`. -/
def FS.read (fs : FS) (p : Path) : Option Bytes := fs.lookup p

/-- `os.unlink(p)`. -/
def FS.unlink (fs : FS) (p : Path) : FS := fs.filter (fun e => e.1 ≠ p)

/-- `open(p, 'w').write(b)`: create or truncate-and-replace. -/
def FS.write (fs : FS) (p : Path) (b : Bytes) : FS := (p, b) :: fs.unlink p

/-! ### Text decoding -/

/-- Universal newlines on read (`newline=None`): `\r\n` → `\n`, lone `\r` → `\n`. -/
def universalNewlines : Bytes → Text
  | [] => []
  | '\r' :: '\n' :: rest => '\n' :: universalNewlines rest
  | '\r' :: rest => '\n' :: universalNewlines rest
  | c :: rest => c :: universalNewlines rest

/-- `f.read()` of a file opened with `newline=None` (`translate = true`) or `newline=''` (`false`). -/
def decode (translate : Bool) (b : Bytes) : Text :=
  if translate then universalNewlines b else b

/-- `f.write(t)`: with `newline=None` every `\n` becomes `os.linesep`, which is `\n` on POSIX; with
`newline=''` nothing is translated.  Either way the identity on POSIX. -/
def encode (_translate : Bool) (t : Text) : Bytes := t

/-! ### Paths -/

/-- `s.rstrip('/')`. -/
def rstripSlash (s : Path) : Path := (s.reverse.dropWhile (· = '/')).reverse

/-- `posixpath.dirname`: `i = p.rfind('/') + 1; head = p[:i];
if head and head != '/' * len(head): head = head.rstrip('/')`. -/
def dirname (p : Path) : Path :=
  let head := (p.reverse.dropWhile (· ≠ '/')).reverse
  if head.all (· = '/') then head else rstripSlash head

/-! ### The include walk -/

section BFS
variable {α ι : Type} [DecidableEq ι]

/-- The `while queue:` loop of `edit_file_recursive`.  `visited` is `list(texts)` (dict order: every key is
the spelling under which the file was first met); the Python set `visited` of real paths is
`visited.map ident`, where `ident` stands for `os.path.realpath` (given as data).
`none` = the fuel ran out before the queue was empty (never with the fuel of `bfs_once`). -/
def bfsLoop (includes : α → List α) (ident : α → ι) : Nat → List α → List α → Option (List α)
  | _, [], visited => some visited
  | 0, _ :: _, _ => none
  | fuel + 1, p :: queue, visited =>
    if ident p ∈ visited.map ident then bfsLoop includes ident fuel queue visited   -- `continue`
    else bfsLoop includes ident fuel (queue ++ includes p) (visited ++ [p])        -- read, parse, `queue.extend`

/-- Visit order of `edit_file_recursive(root)`: `queue = deque([root])`, `texts = {}`, `visited = set()`. -/
def bfs (includes : α → List α) (ident : α → ι) (root : α) (fuel : Nat) : Option (List α) :=
  bfsLoop includes ident fuel [root] []

/-- Number of loop iterations that always suffices when every reachable path is in `univ`:
one per queue entry ever pushed = 1 (the root) + the number of include edges. -/
def fuelBound (includes : α → List α) (univ : List α) : Nat :=
  1 + (univ.map fun u => (includes u).length).sum

end BFS

/-! ### enter / exit -/

/-- Read every visited path (once each): `texts[p] = f.read()`.  `none` = `FileNotFoundError`. -/
def readAll (translate : Bool) (fs : FS) : List Path → Option (List (Path × Text))
  | [] => some []
  | p :: rest =>
    match fs.read p, readAll translate fs rest with
    | some b, some ts => some ((p, decode translate b) :: ts)
    | _, _ => none

/-- `set(texts) - set(files)` (listed in `texts` order; the real order is a set's). -/
def removedKeys (texts files : List (Path × Text)) : List Path :=
  (texts.map (·.1)).filter fun p => !(files.map (·.1)).contains p

/-- `for current_path in set(texts) - set(files): os.unlink(current_path)`. -/
def unlinkPhase : List Path → FS → FS × List Event
  | [], fs => (fs, [])
  | p :: rest, fs =>
    let r := unlinkPhase rest (fs.unlink p)
    (r.1, Event.unlink p :: r.2)

/-- Events of one iteration of the write loop and whether the file is written. -/
def mkdirEvents (p : Path) : List Event :=
  if dirname p = [] then [] else [Event.mkdir (dirname p)]

/-- `for current_path, file in files.items(): ...` — `files` carries the printed text of every model. -/
def writePhase (translate : Bool) (texts : List (Path × Text)) : List (Path × Text) → FS → FS × List Event
  | [], fs => (fs, [])
  | (p, printed) :: rest, fs =>
    if texts.lookup p = some printed then
      let r := writePhase translate texts rest fs
      (r.1, mkdirEvents p ++ r.2)
    else
      let r := writePhase translate texts rest (fs.write p (encode translate printed))
      (r.1, mkdirEvents p ++ Event.write p :: r.2)

/-- Everything after the `yield` of `edit_file_recursive`. -/
def exit (translate : Bool) (texts files : List (Path × Text)) (fs : FS) : FS × List Event :=
  let u := unlinkPhase (removedKeys texts files) fs
  let w := writePhase translate texts files u.1
  (w.1, u.2 ++ w.2)

/-- Result of running a `with` block: the file system afterwards, the write log, the exception that
propagated (if any) and the visit order (keys of the mapping handed to the body). -/
structure Outcome where
  fs : FS
  log : List Event
  raised : Option String
  visit : List Path
  deriving Repr

/-- Everything before the `yield` of `edit_file_recursive`: the texts read, in visit order. -/
def enter (translate : Bool) (includes : Path → List Path) (ident : Path → Path) (fuel : Nat) (root : Path)
    (fs : FS) : Except String (List (Path × Text)) :=
  match bfs includes ident root fuel with
  | none => .error "OutOfFuel"
  | some visit =>
    match readAll translate fs visit with
    | none => .error "FileNotFoundError"
    | some texts => .ok texts

/-- `with editor.edit_file_recursive(root) as files: body(files)`.
`body` receives the mapping (path ↦ text of the parsed model) and returns the mapping it leaves behind
(path ↦ printed text, dict order) or `none` when it raises. -/
def editFileRecursive (translate : Bool) (includes : Path → List Path) (ident : Path → Path) (fuel : Nat)
    (root : Path) (body : List (Path × Text) → Option (List (Path × Text))) (fs : FS) : Outcome :=
  match enter translate includes ident fuel root fs with
  | .error e => { fs := fs, log := [], raised := some e, visit := [] }
  | .ok texts =>
    match body texts with
    | none => { fs := fs, log := [], raised := some "BodyRaised", visit := texts.map (·.1) }
    | some files =>
      let r := exit translate texts files fs
      { fs := r.1, log := r.2, raised := none, visit := texts.map (·.1) }

/-- `with editor.edit_file(p) as file: body(file)`; `body` maps the text of the parsed model to the
printed text of the model it leaves behind, or `none` when it raises. -/
def editFile (translate : Bool) (p : Path) (body : Text → Option Text) (fs : FS) : Outcome :=
  match fs.read p with
  | none => { fs := fs, log := [], raised := some "FileNotFoundError", visit := [] }
  | some b =>
    let text := decode translate b
    match body text with
    | none => { fs := fs, log := [], raised := some "BodyRaised", visit := [p] }
    | some printed =>
      if printed = text then { fs := fs, log := [], raised := none, visit := [p] }
      else { fs := fs.write p (encode translate printed), log := [Event.write p], raised := none, visit := [p] }

/-! ### Body actions (what the correspondence scenarios do inside the block) -/

inductive Action where
  | edit (p : Path) (printed : Text)     -- mutate the model stored under an existing key
  | del (p : Path)                       -- `del files[p]`
  | add (p : Path) (printed : Text)      -- `files[p] = model` (dict assignment: in place or appended)
  deriving Repr

def setKey (m : List (Path × Text)) (p : Path) (t : Text) : List (Path × Text) :=
  if (m.map (·.1)).contains p then m.map fun e => if e.1 = p then (p, t) else e else m ++ [(p, t)]

def applyAction (m : List (Path × Text)) : Action → List (Path × Text)
  | .edit p t => m.map fun e => if e.1 = p then (p, t) else e
  | .del p => m.filter fun e => e.1 ≠ p
  | .add p t => setKey m p t

def bodyOf (actions : List Action) (raises : Bool) (m : List (Path × Text)) : Option (List (Path × Text)) :=
  if raises then none else some (actions.foldl applyAction m)

end Autobean.Editor
