/-
Model of number expressions (C13).

Transcribes
  * `autobean_refactor/models/number_expr.py`      (`_wrap_paren`, `_as_mul_expr`, `_as_atom_expr`, `_unary`,
                                                     `_add_expr_from_value`, `_iaddsub`, `_imuldiv`, the dunder forms,
                                                     `wrap_with_parenthesis`)
  * `number_add_expr.py`, `number_mul_expr.py`     (`raw_operands`, `raw_ops`, `value`)
  * `number_unary_expr.py`, `number_paren_expr.py` (`value`)
  * the `number_expr` fragment of `beancount.lark`
        number_add_expr:   number_mul_expr (ADD_OP number_mul_expr)*
        number_mul_expr:   number_atom_expr (MUL_OP number_atom_expr)*
        ?number_atom_expr: NUMBER | number_paren_expr | number_unary_expr
        number_paren_expr: LEFT_PAREN number_add_expr RIGHT_PAREN
        number_unary_expr: UNARY_OP number_atom_expr

Representation.  `Mul = Atom × List (mulop × Atom)` and `Add = Mul × List (addop × Mul)` are encoded as
*snoc lists* (`single` / `snoc`): Python only ever appends at the right end (`raw_operands + (x,)`), the value is
a left fold, so the snoc encoding makes both structural.  `Mul.head`/`Mul.tail` (and `Add.head`/`Add.tail`) give
the flat `raw_operands[0]`, `zip(raw_ops, raw_operands[1:])` view and `Mul.ofList`/`Add.ofList` its inverse.

Spacing is data: every place where the Python token store may hold ignored tokens between two significant tokens
of an expression (around a binary operator, after `(`, before `)`, after a unary operator) carries a `Ws`, the
list of raw texts of the ignored tokens found there (Whitespace, and Newline/Indent when an expression is parsed
on its own).  `_iaddsub`/`_imuldiv` insert one default Whitespace `" "` on each side of the operator;
`_wrap_paren` and `_unary` insert none.

Numbers are kept as the raw text of the NUMBER token; their value is `Arith.lit` (uninterpreted).
Core Lean only; everything total and executable.
-/
namespace Autobean.NumExpr

abbrev Text := List Char
/-- The ignored tokens sitting at one place (raw texts, left to right). -/
abbrev Ws := List Text

/-- `+` / `-`: the text of an ADD_OP or a UNARY_OP token. -/
inductive Sign where
  | plus | minus
deriving DecidableEq, Repr, Inhabited

/-- `*` / `/`: the text of a MUL_OP token. -/
inductive MulOp where
  | times | over
deriving DecidableEq, Repr, Inhabited

/-- Tokens of the fragment, as classified by lark's contextual lexer. `ws` stands for every ignored token. -/
inductive Token where
  | number (t : Text)
  | addOp (s : Sign)
  | mulOp (o : MulOp)
  | unaryOp (s : Sign)
  | lparen
  | rparen
  | ws (t : Text)
deriving DecidableEq, Repr, Inhabited

mutual
/-- `NumberAtomExpr = Number | NumberParenExpr | NumberUnaryExpr`. -/
inductive Atom where
  | num (t : Text)
  | paren (w1 : Ws) (e : Add) (w2 : Ws)
  | unary (s : Sign) (w : Ws) (a : Atom)
/-- `NumberMulExpr`: `single a` has `raw_ops == ()`; `snoc m w1 o w2 a` is `m` with `o, a` appended. -/
inductive Mul where
  | single (a : Atom)
  | snoc (m : Mul) (w1 : Ws) (o : MulOp) (w2 : Ws) (a : Atom)
/-- `NumberAddExpr` (and `NumberExpr`, its transparent wrapper). -/
inductive Add where
  | single (m : Mul)
  | snoc (e : Add) (w1 : Ws) (o : Sign) (w2 : Ws) (m : Mul)
end

deriving instance Repr for Atom, Mul, Add
deriving instance DecidableEq for Atom, Mul, Add
instance : Inhabited Atom := ⟨.num []⟩
instance : Inhabited Mul := ⟨.single default⟩
instance : Inhabited Add := ⟨.single default⟩

/-! ### Flat view: `raw_operands`, `raw_ops` -/

/-- `raw_operands[0]`. -/
def Mul.head : Mul → Atom
  | .single a => a
  | .snoc m _ _ _ _ => m.head

/-- `zip(raw_ops, raw_operands[1:])` with the spacing around each operator. -/
def Mul.tail : Mul → List (Ws × MulOp × Ws × Atom)
  | .single _ => []
  | .snoc m w1 o w2 a => m.tail ++ [(w1, o, w2, a)]

def Mul.ofList (a : Atom) (l : List (Ws × MulOp × Ws × Atom)) : Mul :=
  l.foldl (fun m x => .snoc m x.1 x.2.1 x.2.2.1 x.2.2.2) (.single a)

/-- `len(raw_operands)`. -/
def Mul.len : Mul → Nat
  | .single _ => 1
  | .snoc m _ _ _ _ => m.len + 1

def Add.head : Add → Mul
  | .single m => m
  | .snoc e _ _ _ _ => e.head

def Add.tail : Add → List (Ws × Sign × Ws × Mul)
  | .single _ => []
  | .snoc e w1 o w2 m => e.tail ++ [(w1, o, w2, m)]

def Add.ofList (m : Mul) (l : List (Ws × Sign × Ws × Mul)) : Add :=
  l.foldl (fun e x => .snoc e x.1 x.2.1 x.2.2.1 x.2.2.2) (.single m)

def Add.len : Add → Nat
  | .single _ => 1
  | .snoc e _ _ _ _ => e.len + 1

/-- `bool(raw_ops)`. -/
def Mul.hasOps : Mul → Bool
  | .single _ => false
  | .snoc .. => true

def Add.hasOps : Add → Bool
  | .single _ => false
  | .snoc .. => true

/-! ### Printing: the token list of a tree (`model.tokens`) -/

def wsToks (w : Ws) : List Token := w.map Token.ws

mutual
def Atom.toks : Atom → List Token
  | .num t => [.number t]
  | .paren w1 e w2 => .lparen :: (wsToks w1 ++ (e.toks ++ (wsToks w2 ++ [.rparen])))
  | .unary s w a => .unaryOp s :: (wsToks w ++ a.toks)
def Mul.toks : Mul → List Token
  | .single a => a.toks
  | .snoc m w1 o w2 a => m.toks ++ (wsToks w1 ++ (.mulOp o :: (wsToks w2 ++ a.toks)))
def Add.toks : Add → List Token
  | .single m => m.toks
  | .snoc e w1 o w2 m => e.toks ++ (wsToks w1 ++ (.addOp o :: (wsToks w2 ++ m.toks)))
end

/-- `tokensOf e`: the tokens between `e.first_token` and `e.last_token`, ignored ones included. -/
abbrev tokensOf (e : Add) : List Token := e.toks

def Sign.text : Sign → Text
  | .plus => ['+']
  | .minus => ['-']

def MulOp.text : MulOp → Text
  | .times => ['*']
  | .over => ['/']

def Token.text : Token → Text
  | .number t => t
  | .addOp s => s.text
  | .mulOp o => o.text
  | .unaryOp s => s.text
  | .lparen => ['(']
  | .rparen => [')']
  | .ws t => t

/-- `printer.print_model`: concatenation of the raw texts. -/
def printToks (l : List Token) : Text := (l.map Token.text).flatten

/-! ### Evaluation over an abstract carrier (`.value`) -/

/-- Arithmetic with NO laws: `decimal.Decimal` under its context (rounding, traps) is one instance. -/
structure Arith (α : Type) where
  lit : Text → α
  add : α → α → α
  sub : α → α → α
  mul : α → α → α
  div : α → α → α
  neg : α → α

def Sign.bin {α} (A : Arith α) : Sign → α → α → α
  | .plus => A.add
  | .minus => A.sub

def MulOp.bin {α} (A : Arith α) : MulOp → α → α → α
  | .times => A.mul
  | .over => A.div

/-- `NumberUnaryExpr.value`: `+x` is `x` itself (not `Decimal.__pos__`), `-x` is `-x`. -/
def Sign.un {α} (A : Arith α) : Sign → α → α
  | .plus => id
  | .minus => A.neg

mutual
def Atom.eval {α} (A : Arith α) : Atom → α
  | .num t => A.lit t
  | .paren _ e _ => e.eval A
  | .unary s _ a => s.un A (a.eval A)
/-- `NumberMulExpr.value`: `value = operands[0].value; for op, x in zip(ops, operands[1:]): value = value op x`. -/
def Mul.eval {α} (A : Arith α) : Mul → α
  | .single a => a.eval A
  | .snoc m _ o _ a => o.bin A (m.eval A) (a.eval A)
/-- `NumberAddExpr.value`. -/
def Add.eval {α} (A : Arith α) : Add → α
  | .single m => m.eval A
  | .snoc e _ o _ m => o.bin A (e.eval A) (m.eval A)
end

abbrev eval {α} (A : Arith α) (e : Add) : α := e.eval A

/-! ### Reference recursive-descent parser

The lexer's ADD_OP/UNARY_OP classification is NOT trusted by the parser: `Token.blind` erases it and the parser
decides by position (a sign where an atom is expected is unary, a sign after an operand is binary) — which is how
lark's contextual lexer chooses between the two terminals.  Ignored tokens are collected into the spacing slots.
Recursion is on an explicit fuel; `parseAdd` supplies `6 * length + 1`, proved sufficient (`Proofs/NumExpr`). -/

def Token.blind : Token → Token
  | .unaryOp s => .addOp s
  | t => t

def takeWs : List Token → Ws × List Token
  | .ws t :: r => ((takeWs r).1 |> (t :: ·), (takeWs r).2)
  | r => ([], r)

mutual
def parseAtomF : Nat → List Token → Option (Atom × List Token)
  | 0, _ => none
  | _ + 1, [] => none
  | f + 1, t :: r =>
    match t with
    | .number n => some (.num n, r)
    | .lparen =>
      match parseAddF f (takeWs r).2 with
      | none => none
      | some (e, r2) =>
        match (takeWs r2).2 with
        | .rparen :: r4 => some (.paren (takeWs r).1 e (takeWs r2).1, r4)
        | _ => none
    | .addOp s =>
      match parseAtomF f (takeWs r).2 with
      | none => none
      | some (a, r2) => some (.unary s (takeWs r).1 a, r2)
    | _ => none
def parseMulF : Nat → List Token → Option (Mul × List Token)
  | 0, _ => none
  | f + 1, toks =>
    match parseAtomF f toks with
    | none => none
    | some (a, r) => parseMulRestF f (.single a) r
def parseMulRestF : Nat → Mul → List Token → Option (Mul × List Token)
  | 0, _, _ => none
  | f + 1, acc, toks =>
    match (takeWs toks).2 with
    | .mulOp o :: r2 =>
      match parseAtomF f (takeWs r2).2 with
      | none => none
      | some (a, r4) => parseMulRestF f (.snoc acc (takeWs toks).1 o (takeWs r2).1 a) r4
    | _ => some (acc, toks)
def parseAddF : Nat → List Token → Option (Add × List Token)
  | 0, _ => none
  | f + 1, toks =>
    match parseMulF f toks with
    | none => none
    | some (m, r) => parseAddRestF f (.single m) r
def parseAddRestF : Nat → Add → List Token → Option (Add × List Token)
  | 0, _, _ => none
  | f + 1, acc, toks =>
    match (takeWs toks).2 with
    | .addOp o :: r2 =>
      match parseMulF f (takeWs r2).2 with
      | none => none
      | some (m, r4) => parseAddRestF f (.snoc acc (takeWs toks).1 o (takeWs r2).1 m) r4
    | _ => some (acc, toks)
end

/-- Parse a `number_add_expr` at the front of `toks`; returns the tree and the unconsumed tokens
(with the ADD_OP/UNARY_OP class erased). -/
def parseAdd (toks : List Token) : Option (Add × List Token) :=
  parseAddF (6 * toks.length + 1) (toks.map Token.blind)

/-! ### The operations of `number_expr.py` at tree level

A deep copy of a tree is the tree itself (values are immutable); which Python object owns which tokens is the
business of the correspondence/oracle, not of this model. -/

/-- `Whitespace.from_default()`. -/
def dfltWs : Ws := [[' ']]

/-- `_wrap_paren`: `(` and `)` are inserted directly around the expression, no spacing. -/
def wrapParen (e : Add) : Atom := .paren [] e []

/-- `_as_mul_expr`: the only operand when there are no top-level ADD_OPs, otherwise `( e )`. -/
def asMulExpr : Add → Mul
  | .single m => m
  | e => .single (wrapParen e)

/-- `_as_atom_expr`: the only atom when there are neither top-level ADD_OPs nor MUL_OPs, otherwise `( e )`. -/
def asAtomExpr : Add → Atom
  | .single (.single a) => a
  | e => wrapParen e

/-- `_iaddsub(self=a, other=b, op)`. -/
def iaddsub (a b : Add) (o : Sign) : Add := .snoc a dfltWs o dfltWs (asMulExpr b)

/-- `_imuldiv(self=a, other=b, op)`; `self` is parenthesised (in place) when it has top-level ADD_OPs. -/
def imuldiv (a b : Add) (o : MulOp) : Add := .single (.snoc (asMulExpr a) dfltWs o dfltWs (asAtomExpr b))

/-- `_unary(a, op)` (`__pos__`, `__neg__`). -/
def unary (a : Add) (s : Sign) : Add := .single (.single (.unary s [] (asAtomExpr a)))

/-- `NumberExpr.wrap_with_parenthesis`. -/
def wrapWithParenthesis (a : Add) : Add := .single (.single (wrapParen a))

/-- `_add_expr_from_value(v)` / `NumberExpr.from_value(v)`: `neg` is `v < 0`, `absText` is
`Number._format_value(abs(v))`. -/
def fromValue (neg : Bool) (absText : Text) : Add :=
  .single (.single (if neg then .unary .minus [] (.num absText) else .num absText))

/-- The value a `fromValue` operand stands for. -/
def valueOf {α} (A : Arith α) (neg : Bool) (absText : Text) : α :=
  if neg then A.neg (A.lit absText) else A.lit absText

/-- `__add__`/`__sub__` (= `copy.deepcopy(self).__iadd__(other)`), `__iadd__`/`__isub__`. -/
abbrev add (a b : Add) : Add := iaddsub a b .plus
abbrev sub (a b : Add) : Add := iaddsub a b .minus
abbrev mul (a b : Add) : Add := imuldiv a b .times
abbrev div (a b : Add) : Add := imuldiv a b .over
/-- Reflected forms: `self.__radd__(other) = other + self`. -/
abbrev radd (self other : Add) : Add := add other self
abbrev rsub (self other : Add) : Add := sub other self
abbrev rmul (self other : Add) : Add := mul other self
abbrev rdiv (self other : Add) : Add := div other self
abbrev neg (a : Add) : Add := unary a .minus
abbrev pos (a : Add) : Add := unary a .plus

/-! ### Chains of applications -/

inductive BinOp where
  | add | sub | mul | div
deriving DecidableEq, Repr, Inhabited

/-- One application to the current expression `cur`. The same tree results from the plain (`cur + x`) and the
in-place (`cur += x`) form. -/
inductive Step where
  /-- `cur ∘ x` / `cur ∘= x` -/
  | bin (o : BinOp) (x : Add)
  /-- `x ∘ cur` (`cur.__r∘__(x)`) -/
  | rbin (o : BinOp) (x : Add)
  | neg
  | pos
  | wrap

def applyBin : BinOp → Add → Add → Add
  | .add, a, b => add a b
  | .sub, a, b => sub a b
  | .mul, a, b => mul a b
  | .div, a, b => div a b

def BinOp.bin {α} (A : Arith α) : BinOp → α → α → α
  | .add => A.add
  | .sub => A.sub
  | .mul => A.mul
  | .div => A.div

def applyStep (cur : Add) : Step → Add
  | .bin o x => applyBin o cur x
  | .rbin o x => applyBin o x cur
  | .neg => neg cur
  | .pos => pos cur
  | .wrap => wrapWithParenthesis cur

/-- What the step does to the value. -/
def stepVal {α} (A : Arith α) (v : α) : Step → α
  | .bin o x => o.bin A v (eval A x)
  | .rbin o x => o.bin A (eval A x) v
  | .neg => A.neg v
  | .pos => v
  | .wrap => v

/-! ### Tree shape as an s-expression (shared with the harness) -/

def joinSp : List String → String
  | [] => ""
  | [x] => x
  | x :: xs => x ++ " " ++ joinSp xs

mutual
def Atom.sexp : Atom → String
  | .num t => String.ofList t
  | .paren _ e _ => "(P " ++ e.sexp ++ ")"
  | .unary s _ a => "(U" ++ String.ofList s.text ++ " " ++ a.sexp ++ ")"
def Mul.sexpItems : Mul → String
  | .single a => a.sexp
  | .snoc m _ o _ a => m.sexpItems ++ " " ++ String.ofList o.text ++ " " ++ a.sexp
def Add.sexpItems : Add → String
  | .single m => "(M " ++ m.sexpItems ++ ")"
  | .snoc e _ o _ m => e.sexpItems ++ " " ++ String.ofList o.text ++ " (M " ++ m.sexpItems ++ ")"
def Add.sexp : Add → String
  | e => "(A " ++ e.sexpItems ++ ")"
end

/-- The free term carrier: evaluation prints the fully parenthesised expression. -/
def termArith : Arith String where
  lit t := String.ofList t
  add x y := "(" ++ x ++ "+" ++ y ++ ")"
  sub x y := "(" ++ x ++ "-" ++ y ++ ")"
  mul x y := "(" ++ x ++ "*" ++ y ++ ")"
  div x y := "(" ++ x ++ "/" ++ y ++ ")"
  neg x := "(-" ++ x ++ ")"

end Autobean.NumExpr
