/-
Helper lemmas for the tree model (`Model/Tree.lean`): list views of the `…L` companions, store
segments, renaming.  Used by `Properties/C11.lean` and `Properties/C20.lean`.
-/
import Autobean.Model.Tree

namespace Autobean
open List

theorem flatMap_congr' {α β} {f g : α → List β} {l : List α} (h : ∀ a ∈ l, f a = g a) :
    l.flatMap f = l.flatMap g := by
  induction l with
  | nil => rfl
  | cons a l ih =>
    simp only [List.flatMap_cons]
    rw [h a (by simp), ih (fun b hb => h b (by simp [hb]))]

/-! ### List views of the companions -/

@[simp] theorem Tree.leavesL_eq (ts : List Tree) : Tree.leavesL ts = ts.flatMap Tree.leaves := by
  induction ts with
  | nil => simp [Tree.leavesL]
  | cons t ts ih => simp [Tree.leavesL, ih]

@[simp] theorem Tree.tagsL_eq (ts : List Tree) : Tree.tagsL ts = ts.flatMap Tree.tags := by
  induction ts with
  | nil => simp [Tree.tagsL]
  | cons t ts ih => simp [Tree.tagsL, ih]

@[simp] theorem Tree.shapeL_eq (ts : List Tree) : Tree.shapeL ts = ts.map Tree.shape := by
  induction ts with
  | nil => simp [Tree.shapeL]
  | cons t ts ih => simp [Tree.shapeL, ih]

@[simp] theorem Tree.mapIdsL_eq (ρ σ) (ts : List Tree) : Tree.mapIdsL ρ σ ts = ts.map (Tree.mapIds ρ σ) := by
  induction ts with
  | nil => simp [Tree.mapIdsL]
  | cons t ts ih => simp [Tree.mapIdsL, ih]

@[simp] theorem Tree.leaves_tok (i) : (Tree.tok i).leaves = [i] := by simp [Tree.leaves]
@[simp] theorem Tree.leaves_absent : Tree.absent.leaves = [] := by simp [Tree.leaves]
@[simp] theorem Tree.leaves_node (c g ind fs) : (Tree.node c g ind fs).leaves = fs.flatMap Tree.leaves := by
  simp [Tree.leaves]
@[simp] theorem Tree.leaves_rep (g ph is) : (Tree.rep g ph is).leaves = ph :: is.flatMap Tree.leaves := by
  simp [Tree.leaves]

@[simp] theorem Tree.tags_tok (i) : (Tree.tok i).tags = [] := by simp [Tree.tags]
@[simp] theorem Tree.tags_absent : Tree.absent.tags = [] := by simp [Tree.tags]
@[simp] theorem Tree.tags_node (c g ind fs) : (Tree.node c g ind fs).tags = g :: fs.flatMap Tree.tags := by
  simp [Tree.tags]
@[simp] theorem Tree.tags_rep (g ph is) : (Tree.rep g ph is).tags = g :: is.flatMap Tree.tags := by
  simp [Tree.tags]

@[simp] theorem Tree.mapIds_tok (ρ σ i) : (Tree.tok i).mapIds ρ σ = .tok (ρ i) := by simp [Tree.mapIds]
@[simp] theorem Tree.mapIds_absent (ρ σ) : Tree.absent.mapIds ρ σ = .absent := by simp [Tree.mapIds]
@[simp] theorem Tree.mapIds_node (ρ σ c g ind fs) :
    (Tree.node c g ind fs).mapIds ρ σ = .node c σ ind (fs.map (Tree.mapIds ρ σ)) := by simp [Tree.mapIds]
@[simp] theorem Tree.mapIds_rep (ρ σ g ph is) :
    (Tree.rep g ph is).mapIds ρ σ = .rep σ (ρ ph) (is.map (Tree.mapIds ρ σ)) := by simp [Tree.mapIds]

@[simp] theorem Tree.shape_tok (i) : (Tree.tok i).shape = .tok 0 := by simp [Tree.shape]
@[simp] theorem Tree.shape_absent : Tree.absent.shape = .absent := by simp [Tree.shape]
@[simp] theorem Tree.shape_node (c g ind fs) :
    (Tree.node c g ind fs).shape = .node c 0 ind (fs.map Tree.shape) := by simp [Tree.shape]
@[simp] theorem Tree.shape_rep (g ph is) :
    (Tree.rep g ph is).shape = .rep 0 0 (is.map Tree.shape) := by simp [Tree.shape]

@[simp] theorem Tree.fileFreeL_eq (ts : List Tree) : Tree.fileFreeL ts = ts.all Tree.fileFree := by
  induction ts with
  | nil => simp [Tree.fileFreeL]
  | cons t ts ih => simp [Tree.fileFreeL, ih]

theorem Tree.isFile_of_fileFree {t : Tree} (h : t.fileFree = true) : t.isFile = false := by
  cases t <;> simp_all [Tree.fileFree, Tree.isFile]

theorem Tree.innerFileFree_of_fileFree {t : Tree} (h : t.fileFree = true) : t.innerFileFree = true := by
  cases t <;> simp_all [Tree.fileFree, Tree.innerFileFree]

theorem Tree.fileFree_of_innerFileFree {t : Tree} (h : t.innerFileFree = true) (hf : t.isFile = false) :
    t.fileFree = true := by
  cases t <;> simp_all [Tree.fileFree, Tree.innerFileFree, Tree.isFile]

theorem tokensOf_of_not_file {s : List TTk} {t : Tree} (h : t.isFile = false) : tokensOf s t = spanOf s t := by
  simp [tokensOf, h]

theorem tokensOf_of_file {s : List TTk} {t : Tree} (h : t.isFile = true) : tokensOf s t = s := by
  simp [tokensOf, h]

/-- `isFile` is a function of the shape. -/
theorem Tree.isFile_shape (t : Tree) : t.shape.isFile = t.isFile := by
  cases t <;> simp [Tree.isFile]

/-! ### mapIds: leaves, tags, shape -/

theorem Tree.leaves_mapIds (ρ σ) : ∀ t : Tree, (t.mapIds ρ σ).leaves = t.leaves.map ρ := by
  intro t
  induction t using Tree.induct with
  | tok i => simp
  | absent => simp
  | node c g ind fs ih =>
    simp only [mapIds_node, leaves_node, List.flatMap_map, List.map_flatMap]
    exact flatMap_congr' ih
  | rep g ph is ih =>
    simp only [mapIds_rep, leaves_rep, List.flatMap_map, List.map_cons, List.map_flatMap]
    congr 1
    exact flatMap_congr' ih

theorem Tree.tags_mapIds (ρ σ) : ∀ t : Tree, ∀ g ∈ (t.mapIds ρ σ).tags, g = σ := by
  intro t
  induction t using Tree.induct with
  | tok i => simp
  | absent => simp
  | node c g ind fs ih =>
    intro g' hg'
    simp only [mapIds_node, tags_node, List.mem_cons, List.mem_flatMap, List.mem_map] at hg'
    rcases hg' with h | ⟨t', ⟨t, ht, rfl⟩, hg'⟩
    · exact h
    · exact ih t ht g' hg'
  | rep g ph is ih =>
    intro g' hg'
    simp only [mapIds_rep, tags_rep, List.mem_cons, List.mem_flatMap, List.mem_map] at hg'
    rcases hg' with h | ⟨t', ⟨t, ht, rfl⟩, hg'⟩
    · exact h
    · exact ih t ht g' hg'

theorem Tree.shape_mapIds (ρ σ) : ∀ t : Tree, (t.mapIds ρ σ).shape = t.shape := by
  intro t
  induction t using Tree.induct with
  | tok i => simp
  | absent => simp
  | node c g ind fs ih =>
    simp only [mapIds_node, shape_node, List.map_map]
    congr 1
    exact List.map_congr_left (by intro t ht; simpa using ih t ht)
  | rep g ph is ih =>
    simp only [mapIds_rep, shape_rep, List.map_map]
    congr 1
    exact List.map_congr_left (by intro t ht; simpa using ih t ht)

theorem all_congr_mem {α} {l : List α} {p q : α → Bool} (h : ∀ a ∈ l, p a = q a) : l.all p = l.all q := by
  induction l with
  | nil => rfl
  | cons a l ih =>
    simp only [List.all_cons]
    rw [h a (by simp), ih (fun b hb => h b (by simp [hb]))]

theorem Tree.fileFree_mapIds (ρ σ) : ∀ t : Tree, (t.mapIds ρ σ).fileFree = t.fileFree := by
  intro t
  induction t using Tree.induct with
  | tok i => simp [Tree.fileFree]
  | absent => simp [Tree.fileFree]
  | node c g ind fs ih =>
    simp only [mapIds_node, Tree.fileFree, fileFreeL_eq, List.all_map]
    congr 1
    exact all_congr_mem (fun t ht => by simpa using ih t ht)
  | rep g ph is ih =>
    simp only [mapIds_rep, Tree.fileFree, fileFreeL_eq, List.all_map]
    exact all_congr_mem (fun t ht => by simpa using ih t ht)

theorem Tree.innerFileFree_mapIds (ρ σ) (t : Tree) : (t.mapIds ρ σ).innerFileFree = t.innerFileFree := by
  cases t with
  | tok i => simp [Tree.innerFileFree, Tree.fileFree]
  | absent => simp [Tree.innerFileFree, Tree.fileFree]
  | node c g ind fs =>
    simp only [mapIds_node, Tree.innerFileFree, fileFreeL_eq, List.all_map]
    exact all_congr_mem (fun t _ => by simpa using Tree.fileFree_mapIds ρ σ t)
  | rep g ph is =>
    simp only [mapIds_rep, Tree.innerFileFree, Tree.fileFree, fileFreeL_eq, List.all_map]
    exact all_congr_mem (fun t _ => by simpa using Tree.fileFree_mapIds ρ σ t)

end Autobean
