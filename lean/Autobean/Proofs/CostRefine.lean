import Autobean.Proofs.CostLemmas
/-
Every assignment to a canonical cost refines the record-of-optionals update.
-/
namespace Autobean.Cost

section uset_simp
variable {k k' : Kind} {p : Bool} {y : Comp} {l : List Comp}
/-! Side conditions are stated as Boolean tests so that `simp` discharges them by evaluation. -/

theorem ufind_uset_some_self (hy : (y.kind == k) = true) : ufind k (uset k p (some y) l) = some y := by
  have hy : y.kind = k := by simpa using hy
  cases hf : ufind k l with
  | none => cases p <;> simp [uset, hf, ufind, ufind_append, hy]
  | some x => simp only [uset, hf]; rw [ufind_urepl_self hy]; simp [hf]

theorem ufind_uset_none_self (h1 : cnt k l ≤ 1) : ufind k (uset k p none l) = none :=
  ufind_uset_self (by simp) l h1

theorem ufind_uset_some_ne (hy : (y.kind == k) = true) (h : (k' != k) = true) :
    ufind k' (uset k p (some y) l) = ufind k' l :=
  ufind_uset_ne (by intro z hz; cases hz; simpa using hy) (by simpa using h) l

theorem ufind_uset_none_ne (h : (k' != k) = true) : ufind k' (uset k p none l) = ufind k' l :=
  ufind_uset_ne (by simp) (by simpa using h) l

theorem cnt_uset_some_self (hy : (y.kind == k) = true) (h1 : cnt k l ≤ 1) : cnt k (uset k p (some y) l) = 1 := by
  rw [cnt_uset_self (by intro z hz; cases hz; simpa using hy) l h1]; rfl

theorem cnt_uset_none_self (h1 : cnt k l ≤ 1) : cnt k (uset k p none l) = 0 := by
  rw [cnt_uset_self (by simp) l h1]; rfl

theorem cnt_uset_some_ne (hy : (y.kind == k) = true) (h : (k' != k) = true) :
    cnt k' (uset k p (some y) l) = cnt k' l :=
  cnt_uset_ne (by intro z hz; cases hz; simpa using hy) (by simpa using h) l

theorem cnt_uset_none_ne (h : (k' != k) = true) : cnt k' (uset k p none l) = cnt k' l :=
  cnt_uset_ne (by simp) (by simpa using h) l

theorem ufind_urepl_self' (hy : (y.kind == k) = true) {x : Comp} (h : ufind k l = some x) :
    ufind k (urepl k y l) = some y := by
  rw [ufind_urepl_self (by simpa using hy)]; simp [h]

theorem ufind_urepl_ne' (hy : (y.kind == k) = true) (h : (k' != k) = true) :
    ufind k' (urepl k y l) = ufind k' l :=
  ufind_urepl_ne (by simpa using hy) (by simpa using h) l

theorem cnt_urepl' (hy : (y.kind == k) = true) : cnt k' (urepl k y l) = cnt k' l :=
  cnt_urepl (by simpa using hy) k' l

end uset_simp

theorem ufind_of_cnt_zero {k : Kind} {l : List Comp} (h : cnt k l = 0) : ufind k l = none :=
  (ufind_none_iff k l).2 h

/-- The five shapes of the main component of a canonical cost. -/
theorem main_cases {c : Cost} (h : Canon c) :
    (ufind .compound c.comps = none ∧ ufind .amount c.comps = none ∧ ufind .number c.comps = none ∧
      ufind .currency c.comps = none ∧
      cnt .compound c.comps = 0 ∧ cnt .amount c.comps = 0 ∧ cnt .number c.comps = 0 ∧ cnt .currency c.comps = 0) ∨
    (∃ p t cu, ufind .compound c.comps = some (.compound p t cu) ∧ ufind .amount c.comps = none ∧
      ufind .number c.comps = none ∧ ufind .currency c.comps = none ∧
      cnt .compound c.comps = 1 ∧ cnt .amount c.comps = 0 ∧ cnt .number c.comps = 0 ∧ cnt .currency c.comps = 0) ∨
    (∃ n cu, ufind .compound c.comps = none ∧ ufind .amount c.comps = some (.amount n cu) ∧
      ufind .number c.comps = none ∧ ufind .currency c.comps = none ∧
      cnt .compound c.comps = 0 ∧ cnt .amount c.comps = 1 ∧ cnt .number c.comps = 0 ∧ cnt .currency c.comps = 0) ∨
    (∃ n, ufind .compound c.comps = none ∧ ufind .amount c.comps = none ∧
      ufind .number c.comps = some (.number n) ∧ ufind .currency c.comps = none ∧
      cnt .compound c.comps = 0 ∧ cnt .amount c.comps = 0 ∧ cnt .number c.comps = 1 ∧ cnt .currency c.comps = 0) ∨
    (∃ cu, ufind .compound c.comps = none ∧ ufind .amount c.comps = none ∧
      ufind .number c.comps = none ∧ ufind .currency c.comps = some (.currency cu) ∧
      cnt .compound c.comps = 0 ∧ cnt .amount c.comps = 0 ∧ cnt .number c.comps = 0 ∧ cnt .currency c.comps = 1) := by
  obtain ⟨hm, -, -, -⟩ := h
  cases h1 : ufind .compound c.comps with
  | some x =>
    have hk := ufind_some_kind h1
    have hc := ufind_some_cnt h1
    cases x <;> simp [Comp.kind] at hk
    right; left
    exact ⟨_, _, _, rfl, ufind_of_cnt_zero (by omega), ufind_of_cnt_zero (by omega), ufind_of_cnt_zero (by omega),
      by omega, by omega, by omega, by omega⟩
  | none =>
    have c1 := (ufind_none_iff _ _).1 h1
    cases h2 : ufind .amount c.comps with
    | some x =>
      have hk := ufind_some_kind h2
      have hc := ufind_some_cnt h2
      cases x <;> simp [Comp.kind] at hk
      right; right; left
      exact ⟨_, _, rfl, rfl, ufind_of_cnt_zero (by omega), ufind_of_cnt_zero (by omega),
        by omega, by omega, by omega, by omega⟩
    | none =>
      have c2 := (ufind_none_iff _ _).1 h2
      cases h3 : ufind .number c.comps with
      | some x =>
        have hk := ufind_some_kind h3
        have hc := ufind_some_cnt h3
        cases x <;> simp [Comp.kind] at hk
        right; right; right; left
        exact ⟨_, rfl, rfl, rfl, ufind_of_cnt_zero (by omega), by omega, by omega, by omega, by omega⟩
      | none =>
        have c3 := (ufind_none_iff _ _).1 h3
        cases h4 : ufind .currency c.comps with
        | some x =>
          have hk := ufind_some_kind h4
          have hc := ufind_some_cnt h4
          cases x <;> simp [Comp.kind] at hk
          right; right; right; right
          exact ⟨_, rfl, rfl, rfl, rfl, by omega, by omega, by omega, by omega⟩
        | none =>
          have c4 := (ufind_none_iff _ _).1 h4
          left
          exact ⟨rfl, rfl, rfl, rfl, c1, c2, c3, c4⟩

end Autobean.Cost
