/-
Sequences of operations: every (step-1) operation of `RepeatedNodeWrapper` maps a well-formed region with
frame `L … R` to a well-formed region with the SAME frame, hence so does every sequence of them.
-/
import Autobean.Proofs.RepFresh

namespace Autobean.Rep
open Autobean.Seq

inductive Op where
  | insert (index : Int) (v : List Tk)
  | append (v : List Tk)
  | extend (vs : List (List Tk))
  | pop (index : Int)
  | delItem (index : Int)
  | delSlice (start stop step : Option Int)
  | setItem (index : Int) (v : List Tk)
  | setSlice (start stop step : Option Int) (vs : List (List Tk))
  | clear

def Op.values : Op → List (List Tk)
  | .insert _ v => [v]
  | .append v => [v]
  | .extend vs => vs
  | .setItem _ v => [v]
  | .setSlice _ _ _ vs => vs
  | _ => []

/-- step 1 or `None` (the extended-slice forms are outside this theorem) -/
def Op.step1 : Op → Prop
  | .delSlice _ _ k => k.getD 1 = 1
  | .setSlice _ _ k _ => k.getD 1 = 1
  | _ => True

def applyOp (c : Cfg) (st : St) : Op → R St
  | .insert i v => insert c st i v
  | .append v => append c st v
  | .extend vs => extend c st vs
  | .pop i => (pop c st i).map (·.1)
  | .delItem i => delItemInt c st i
  | .delSlice a b k => delSlice c st a b k
  | .setItem i v => setItemInt c st i v
  | .setSlice a b k vs => setSlice c st a b k vs
  | .clear => clear c st

/-- The invariant carried along a history: a well-formed region inside the frame `L … R`, ids below the
counter. -/
def Inv (c : Cfg) (L R : List Tk) (ph : Tk) (st : St) : Prop :=
  ∃ segs, RegionWF c st.store st.items L R ph segs ∧ CtrOK st.store st.ctr

/-- What is asked of the arguments of one operation in the current state. -/
def OpOK (st : St) (op : Op) : Prop := op.step1 ∧ ValsOK st.store st.ctr op.values

theorem split_at {α} (l : List α) {k : Nat} (h : k < l.length) :
    l = l.take k ++ [l[k]] ++ l.drop (k + 1) := by
  have := List.take_append_drop k l
  rw [List.drop_eq_getElem_cons h] at this
  simpa using this.symm

theorem pyIndex_lt {i : Int} {n k : Nat} (h : pyIndex i n = some k) : k < n := by
  unfold pyIndex at h
  split at h
  · split at h
    · cases h; omega
    · cases h
  · split at h
    · cases h; omega
    · cases h

theorem insertPos_le (i : Int) (n : Nat) : insertPos i n ≤ n := by
  unfold insertPos
  split <;> omega

theorem sliceIndices_step1 (start stop step : Option Int) (n : Nat) (h : step.getD 1 = 1) :
    ∃ s e, sliceIndices start stop step n = .ok (s, e, 1) := by
  unfold sliceIndices
  simp only [h]
  have h10 : ¬ ((1 : Int) = 0) := by decide
  rw [if_neg h10]
  exact ⟨_, _, rfl⟩

theorem rep_delete_wf_aux {c : Cfg} {store : List Tk} {items : List Span} {L R : List Tk} {ph : Tk}
    {pre mid post : List Seg} (wf : RegionWF c store items L R ph (pre ++ mid ++ post)) :
    RegionWF c (L ++ layout ph (deleteSegs pre mid post) ++ R) (spans (deleteSegs pre mid post)) L R ph
      (deleteSegs pre mid post) := by
  have := wf.delete
  rwa [← deleteSegs_spans] at this

/-- Replacing the tokens of one item keeps the region well-formed. -/
theorem RegionWF.setItem {c : Cfg} {store : List Tk} {items : List Span} {L R : List Tk} {ph : Tk}
    {pre post : List Seg} {sg : Seg} {ctr : Nat} {v : List Tk}
    (wf : RegionWF c store items L R ph (pre ++ [sg] ++ post)) (hc : CtrOK store ctr) (hv : ValsOK store ctr [v]) :
    RegionWF c (L ++ layout ph (pre ++ [(sg.1, v)] ++ post) ++ R) (spans (pre ++ [(sg.1, v)] ++ post)) L R ph
        (pre ++ [(sg.1, v)] ++ post) ∧
      CtrOK (L ++ layout ph (pre ++ [(sg.1, v)] ++ post) ++ R) ctr := by
  have hs : store = (L ++ layout ph pre ++ sg.1) ++ sg.2 ++ (body post ++ R) := by
    rw [wf.store_eq, layout_append, layout_append]; simp
  have e : L ++ layout ph (pre ++ [(sg.1, v)] ++ post) ++ R = (L ++ layout ph pre ++ sg.1) ++ v ++ (body post ++ R) := by
    rw [layout_append, layout_append]; simp
  have hd := wf.distinct
  rw [hs] at hd hc
  have hvd : Distinct v := by have := hv.batch.distinct; simpa using this
  have hsub : ∀ y ∈ (L ++ layout ph pre ++ sg.1) ++ (body post ++ R), y ∈ store := by
    intro y hy; rw [hs]; simp only [List.mem_append] at hy ⊢
    rcases hy with hy | hy
    · exact Or.inl (Or.inl hy)
    · exact Or.inr hy
  have hnew : ∀ x ∈ v, ∀ y ∈ (L ++ layout ph pre ++ sg.1) ++ (body post ++ R), x.id ≠ y.id :=
    fun x hx y hy => hv.new x (by simp [hx]) y (hsub y hy)
  have hne : ItemsNonempty (pre ++ [(sg.1, v)] ++ post) := by
    have h1 := ItemsNonempty.append.mp wf.nonempty
    have h2 := ItemsNonempty.append.mp h1.1
    refine ItemsNonempty.append.mpr ⟨ItemsNonempty.append.mpr ⟨h2.1, ?_⟩, h1.2⟩
    intro x hx; simp at hx; subst hx; exact hv.nonempty v (by simp)
  refine ⟨⟨rfl, ?_, wf.ph_id, hne, rfl⟩, ?_⟩
  · rw [e]; exact hd.remove.insert hvd hnew
  · rw [e]
    intro t ht
    simp only [List.mem_append] at ht
    rcases ht with (ht | ht) | ht
    · exact hc t (by simp only [List.mem_append]; exact Or.inl (Or.inl ht))
    · exact hv.batch.lt t (by simp [ht])
    · exact hc t (by simp only [List.mem_append]; exact Or.inr ht)

/-- One operation preserves the invariant (same `L`, `R`, `ph`). -/
theorem op_preserves {c : Cfg} {L R : List Tk} {ph : Tk} {st st' : St} {op : Op}
    (hinv : Inv c L R ph st) (hok : OpOK st op) (h : applyOp c st op = .ok st') : Inv c L R ph st' := by
  obtain ⟨segs, wf, hc⟩ := hinv
  obtain ⟨hstep, hv⟩ := hok
  have hn : st.items.length = segs.length := by rw [wf.items_eq]; simp
  cases op with
  | insert i v =>
    have hk := insertPos_le i st.items.length
    rw [hn] at hk
    have hsegs : segs = segs.take (insertPos i segs.length) ++ segs.drop (insertPos i segs.length) :=
      (List.take_append_drop _ _).symm
    rw [hsegs] at wf
    have hlen : insertPos i st.items.length = (segs.take (insertPos i segs.length)).length := by
      rw [hn, List.length_take]; omega
    have e := insert_region i v wf hlen
    simp only [applyOp] at h
    rw [e] at h; cases h
    obtain ⟨w, hc'⟩ := wf.insert hc hv
    exact ⟨_, w, hc'⟩
  | append v =>
    have e := append_region v wf
    simp only [applyOp] at h
    rw [e] at h; cases h
    have wf' : RegionWF c st.store st.items L R ph (segs ++ []) := by simpa using wf
    obtain ⟨w, hc'⟩ := wf'.insert hc hv
    exact ⟨_, w, hc'⟩
  | extend vs =>
    have e := extend_region vs wf
    simp only [applyOp] at h
    rw [e] at h; cases h
    have wf' : RegionWF c st.store st.items L R ph (segs ++ []) := by simpa using wf
    obtain ⟨w, hc'⟩ := wf'.insert hc hv
    exact ⟨_, w, hc'⟩
  | pop i =>
    simp only [applyOp] at h
    cases hp : pyIndex i st.items.length with
    | none => simp [pop, hp] at h; cases h
    | some k =>
      have hk := pyIndex_lt hp
      rw [hn] at hk
      have hsegs := split_at segs hk
      rw [hsegs] at wf
      have hlen : k = (segs.take k).length := by rw [List.length_take]; omega
      rw [hlen] at hp
      have e := pop_region i wf hp
      rw [e] at h
      simp only [Except.map] at h
      cases h
      have hs := wf.store_eq
      exact ⟨_, rep_delete_wf_aux wf, by
        have := hc; rw [hs] at this; exact this.delete⟩
  | delItem i =>
    simp only [applyOp] at h
    cases hp : pyIndex i st.items.length with
    | none => simp [delItemInt, hp] at h
    | some k =>
      have hk := pyIndex_lt hp
      rw [hn] at hk
      have hsegs := split_at segs hk
      rw [hsegs] at wf
      have hlen : k = (segs.take k).length := by rw [List.length_take]; omega
      rw [hlen] at hp
      have e := delItemInt_region i wf hp
      rw [e] at h
      cases h
      have hs := wf.store_eq
      exact ⟨_, rep_delete_wf_aux wf, by
        have := hc; rw [hs] at this; exact this.delete⟩
  | delSlice a b k =>
    simp only [applyOp] at h
    obtain ⟨s, e0, hsl⟩ := sliceIndices_step1 a b k st.items.length hstep
    have hsl' := hsl; rw [hn] at hsl'
    obtain ⟨pre, mid, post, hsegs, hpre, he⟩ := slice_decomposition segs hsl'
    rw [hsegs] at wf
    have e := delSlice_region a b k wf hsl hpre he
    rw [e] at h
    cases h
    have hs := wf.store_eq
    exact ⟨_, rep_delete_wf_aux wf, by
      have := hc; rw [hs] at this; exact this.delete⟩
  | setItem i v =>
    simp only [applyOp] at h
    cases hp : pyIndex i st.items.length with
    | none => simp [setItemInt, hp] at h
    | some k =>
      have hk := pyIndex_lt hp
      rw [hn] at hk
      have hsegs := split_at segs hk
      rw [hsegs] at wf
      have hlen : k = (segs.take k).length := by rw [List.length_take]; omega
      rw [hlen] at hp
      have e := setItemInt_region i v wf hp
      rw [e] at h
      cases h
      obtain ⟨w, hc'⟩ := wf.setItem hc hv
      exact ⟨_, w, hc'⟩
  | setSlice a b k vs =>
    simp only [applyOp] at h
    obtain ⟨s, e0, hsl⟩ := sliceIndices_step1 a b k st.items.length hstep
    have hsl' := hsl; rw [hn] at hsl'
    obtain ⟨pre, mid, post, hsegs, hpre, he⟩ := slice_decomposition segs hsl'
    rw [hsegs] at wf
    have e := setSlice_region a b k vs wf hsl hpre he
    rw [e] at h
    cases h
    have hs := wf.store_eq
    have wfD := wf.delete
    rw [deleteSegs_eq] at wfD
    have hcD : CtrOK (L ++ layout ph (pre ++ postAfter pre mid post) ++ R) st.ctr := by
      have := hc; rw [hs] at this; have := this.delete; rwa [deleteSegs_eq] at this
    have hvD : ValsOK (L ++ layout ph (pre ++ postAfter pre mid post) ++ R) st.ctr vs := by
      have := hv; simp only [Op.values] at this; rw [hs] at this; have := this.delete; rwa [deleteSegs_eq] at this
    obtain ⟨w, hc'⟩ := wfD.insert hcD hvD
    exact ⟨_, w, hc'⟩
  | clear =>
    simp only [applyOp] at h
    have e := clear_region wf
    rw [e] at h
    cases h
    have wf' : RegionWF c st.store st.items L R ph ([] ++ segs ++ []) := by simpa using wf
    have hds : deleteSegs [] segs [] = [] := by cases segs <;> rfl
    have w := rep_delete_wf_aux wf'
    rw [hds] at w
    have hs := wf'.store_eq
    exact ⟨[], w, by
      have := hc; rw [hs] at this; have := this.delete; rwa [hds] at this⟩

/-- A history of operations, each checked against the state it meets. -/
def applyOps (c : Cfg) : St → List Op → R St
  | st, [] => .ok st
  | st, op :: ops =>
    match applyOp c st op with
    | .error e => .error e
    | .ok st' => applyOps c st' ops

def OpsOK (c : Cfg) : St → List Op → Prop
  | _, [] => True
  | st, op :: ops => OpOK st op ∧ ∀ st', applyOp c st op = .ok st' → OpsOK c st' ops

theorem ops_preserve {c : Cfg} {L R : List Tk} {ph : Tk} {st st' : St} {ops : List Op}
    (hinv : Inv c L R ph st) (hok : OpsOK c st ops) (h : applyOps c st ops = .ok st') : Inv c L R ph st' := by
  induction ops generalizing st with
  | nil => simp [applyOps] at h; cases h; exact hinv
  | cons op ops ih =>
    simp only [applyOps] at h
    cases hop : applyOp c st op with
    | error e => rw [hop] at h; cases h
    | ok st1 =>
      rw [hop] at h
      exact ih (op_preserves hinv hok.1 hop) (hok.2 st1 hop) h

end Autobean.Rep
