/-
What the gaps of the region look like after an insertion / slice assignment: every NEW gap is a fresh copy
of the declared separators, every other gap is an old gap, unchanged.
-/
import Autobean.Proofs.RepSlice

namespace Autobean.Rep
open Autobean.Seq

/-- Inside the list (`pre ≠ []`): the old segments stay as they are; each new item comes with a fresh copy
of `separators` in front of it. -/
theorem setSegs_inner (c : Cfg) (ctr : Nat) (sg : Seg) (pre' mid post : List Seg) (vs : List (List Tk)) :
    ∃ news, setSegs c ctr (sg :: pre') mid post vs = (sg :: pre') ++ news ++ post ∧
      itemsOf news = vs ∧ ∀ n ∈ news, IsCopy c.seps n.1 :=
  ⟨leftSegs c.seps ctr vs, rfl, leftSegs_items _ _ _, leftSegs_gaps _ _ _⟩

/-- The list is or becomes empty (`pre = post = []`): `separators_before` before the first new item,
`separators` before every later one. -/
theorem setSegs_empty (c : Cfg) (ctr : Nat) (mid : List Seg) (v : List Tk) (vs : List (List Tk)) :
    ∃ sB news, setSegs c ctr [] mid [] (v :: vs) = (sB, v) :: news ∧ IsCopy c.sepsBefore sB ∧
      itemsOf news = vs ∧ ∀ n ∈ news, IsCopy c.seps n.1 := by
  have hpa : postAfter [] mid [] = [] := by cases mid <;> rfl
  refine ⟨copySeps c.sepsBefore ctr, leftSegs c.seps (ctr + c.sepsBefore.length) vs, ?_,
    copySeps_isCopy _ _, leftSegs_items _ _ _, leftSegs_gaps _ _ _⟩
  simp [setSegs, hpa, insertSegs, beforeSegs]

theorem setSegs_empty_nil (c : Cfg) (ctr : Nat) (mid : List Seg) : setSegs c ctr [] mid [] [] = [] := by
  have hpa : postAfter [] mid [] = [] := by cases mid <;> rfl
  simp [setSegs, hpa, insertSegs, beforeSegs]

/-- The gap in front of the first item of a non-empty run of segments. -/
def firstGap : List Seg → List Tk
  | [] => []
  | sg :: _ => sg.1

/-- At the front of a list that stays non-empty (`pre = []`, `post = sgs :: post'`): the gap that preceded
the old first item stays where it is (now in front of the first new item, or of `sgs` when there is no new
item); every other new item, and the old item `sgs` that follows the batch, get a fresh copy of `separators`;
the segments after `sgs` are untouched. -/
theorem setSegs_front (c : Cfg) (ctr : Nat) (mid : List Seg) (sgs : Seg) (post' : List Seg) (vs : List (List Tk)) :
    ∃ head ss, setSegs c ctr [] mid (sgs :: post') vs = head ++ post' ∧
      itemsOf head = vs ++ [sgs.2] ∧
      gapsOf head = firstGap (mid ++ [sgs]) :: ss ∧ ss.length = vs.length ∧ ∀ s ∈ ss, IsCopy c.seps s := by
  have hpa : ∃ g0, postAfter [] mid (sgs :: post') = (g0, sgs.2) :: post' ∧ g0 = firstGap (mid ++ [sgs]) := by
    cases mid with
    | nil => exact ⟨sgs.1, rfl, rfl⟩
    | cons sg0 mid' => exact ⟨sg0.1, rfl, rfl⟩
  obtain ⟨g0, h1, h2⟩ := hpa
  obtain ⟨ss, hg, hl, hc⟩ := rightSegs_gaps c.seps ctr g0 vs sgs.2
  refine ⟨rightSegs c.seps ctr g0 vs sgs.2, ss, ?_, rightSegs_items _ _ _ _ _, by rw [hg, h2], hl, hc⟩
  simp [setSegs, h1, insertSegs]

/-- The same three shapes for `insert` / `append` / `extend` (no deletion). -/
theorem insertSegs_inner (c : Cfg) (ctr : Nat) (sg : Seg) (pre' post : List Seg) (vs : List (List Tk)) :
    ∃ news, insertSegs c ctr (sg :: pre') post vs = (sg :: pre') ++ news ++ post ∧
      itemsOf news = vs ∧ ∀ n ∈ news, IsCopy c.seps n.1 :=
  ⟨leftSegs c.seps ctr vs, rfl, leftSegs_items _ _ _, leftSegs_gaps _ _ _⟩

theorem insertSegs_empty (c : Cfg) (ctr : Nat) (v : List Tk) (vs : List (List Tk)) :
    ∃ sB news, insertSegs c ctr [] [] (v :: vs) = (sB, v) :: news ∧ IsCopy c.sepsBefore sB ∧
      itemsOf news = vs ∧ ∀ n ∈ news, IsCopy c.seps n.1 :=
  ⟨copySeps c.sepsBefore ctr, leftSegs c.seps (ctr + c.sepsBefore.length) vs, rfl,
    copySeps_isCopy _ _, leftSegs_items _ _ _, leftSegs_gaps _ _ _⟩

theorem insertSegs_front (c : Cfg) (ctr : Nat) (sg0 : Seg) (post' : List Seg) (vs : List (List Tk)) :
    ∃ head ss, insertSegs c ctr [] (sg0 :: post') vs = head ++ post' ∧
      itemsOf head = vs ++ [sg0.2] ∧
      gapsOf head = sg0.1 :: ss ∧ ss.length = vs.length ∧ ∀ s ∈ ss, IsCopy c.seps s := by
  obtain ⟨ss, hg, hl, hc⟩ := rightSegs_gaps c.seps ctr sg0.1 vs sg0.2
  exact ⟨rightSegs c.seps ctr sg0.1 vs sg0.2, ss, rfl, rightSegs_items _ _ _ _ _, hg, hl, hc⟩

/-- After a deletion every surviving segment is an old segment, except that after a deletion at the very
front the first surviving item takes over the gap of the old first item. -/
theorem deleteSegs_shape (pre mid post : List Seg) :
    deleteSegs pre mid post = pre ++ post ∨
    (pre = [] ∧ ∃ sg0 mid' sgs post', mid = sg0 :: mid' ∧ post = sgs :: post' ∧
      deleteSegs pre mid post = (sg0.1, sgs.2) :: post') := by
  cases pre with
  | cons sg pre' => exact Or.inl rfl
  | nil =>
    cases mid with
    | nil => exact Or.inl rfl
    | cons sg0 mid' =>
      cases post with
      | nil => exact Or.inl rfl
      | cons sgs post' => exact Or.inr ⟨rfl, sg0, mid', sgs, post', rfl, rfl, rfl⟩

end Autobean.Rep

namespace Autobean.Rep
open Autobean.Seq

/-- Every gap of `segs'` is a gap of `segs`, or a copy of the declared separators. -/
def GapsFrom (c : Cfg) (segs segs' : List Seg) : Prop :=
  ∀ g ∈ gapsOf segs', g ∈ gapsOf segs ∨ IsCopy c.seps g ∨ IsCopy c.sepsBefore g

theorem GapsFrom.refl (c : Cfg) (segs : List Seg) : GapsFrom c segs segs := fun _ hg => Or.inl hg

theorem GapsFrom.trans {c : Cfg} {a b d : List Seg} (h1 : GapsFrom c a b) (h2 : GapsFrom c b d) : GapsFrom c a d := by
  intro g hg
  rcases h2 g hg with h | h
  · exact h1 g h
  · exact Or.inr h

theorem gapsOf_append (a b : List Seg) : gapsOf (a ++ b) = gapsOf a ++ gapsOf b := by simp [gapsOf]

theorem setSegs_gapsFrom (c : Cfg) (ctr : Nat) (pre mid post : List Seg) (vs : List (List Tk)) :
    GapsFrom c (pre ++ mid ++ post) (setSegs c ctr pre mid post vs) := by
  intro g hg
  cases pre with
  | cons sg pre' =>
    obtain ⟨news, he, _, hn⟩ := setSegs_inner c ctr sg pre' mid post vs
    rw [he, gapsOf_append, gapsOf_append] at hg
    simp only [gapsOf_append, List.mem_append] at hg ⊢
    rcases hg with (hg | hg) | hg
    · exact Or.inl (Or.inl (Or.inl hg))
    · obtain ⟨n, hn1, rfl⟩ := List.mem_map.mp hg
      exact Or.inr (Or.inl (hn n hn1))
    · exact Or.inl (Or.inr hg)
  | nil =>
    cases post with
    | nil =>
      cases vs with
      | nil => rw [setSegs_empty_nil] at hg; simp [gapsOf] at hg
      | cons v vs' =>
        obtain ⟨sB, news, he, hB, _, hn⟩ := setSegs_empty c ctr mid v vs'
        rw [he] at hg
        simp only [gapsOf, List.map_cons, List.mem_cons] at hg
        rcases hg with rfl | hg
        · exact Or.inr (Or.inr hB)
        · obtain ⟨n, hn1, rfl⟩ := List.mem_map.mp hg
          exact Or.inr (Or.inl (hn n hn1))
    | cons sgs post' =>
      obtain ⟨head, ss, he, _, hgaps, _, hc⟩ := setSegs_front c ctr mid sgs post' vs
      rw [he, gapsOf_append, hgaps] at hg
      simp only [List.mem_append, List.mem_cons] at hg
      rcases hg with (rfl | hg) | hg
      · left
        simp only [List.nil_append, gapsOf_append, List.mem_append]
        cases mid with
        | nil => exact Or.inr (by simp [firstGap, gapsOf])
        | cons sg0 mid' => exact Or.inl (by simp [firstGap, gapsOf])
      · exact Or.inr (Or.inl (hc g hg))
      · left
        simp only [List.nil_append, gapsOf_append, List.mem_append]
        exact Or.inr (by simp [gapsOf] at hg ⊢; exact Or.inr hg)

end Autobean.Rep
