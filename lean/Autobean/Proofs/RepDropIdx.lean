/-
Index bookkeeping of `drop_many`: `sorted(indexes, reverse=True)`, `itertools.groupby` into runs, and the final
list comprehension `[item for i, item in enumerate(items) if i not in indexes]` agree: removing the runs one
after the other (high to low) is filtering by "index not in indexes".
-/
import Autobean.Proofs.RepDrop

namespace Autobean.Rep
open Autobean.Seq

/-- keep the elements whose index (counted from `i`) does not satisfy `p` -/
def keepIdx {α} (p : Nat → Bool) : Nat → List α → List α
  | _, [] => []
  | i, x :: xs => if p i then keepIdx p (i + 1) xs else x :: keepIdx p (i + 1) xs

theorem keepNotIn_eq_keepIdx (idxs : List Nat) (i : Nat) (l : List Span) :
    keepNotIn idxs i l = keepIdx (fun j => idxs.contains j) i l := by
  induction l generalizing i with
  | nil => rfl
  | cons x xs ih => simp [keepNotIn, keepIdx, ih]

theorem keepIdx_append {α} (p : Nat → Bool) (i : Nat) (a b : List α) :
    keepIdx p i (a ++ b) = keepIdx p i a ++ keepIdx p (i + a.length) b := by
  induction a generalizing i with
  | nil => simp [keepIdx]
  | cons x xs ih =>
    simp only [List.cons_append, keepIdx, ih, List.length_cons]
    have : i + 1 + xs.length = i + (xs.length + 1) := by omega
    rw [this]
    split <;> simp

theorem keepIdx_congr {α} {p q : Nat → Bool} (i : Nat) (l : List α)
    (h : ∀ j, i ≤ j → j < i + l.length → p j = q j) : keepIdx p i l = keepIdx q i l := by
  induction l generalizing i with
  | nil => rfl
  | cons x xs ih =>
    have h0 := h i (Nat.le_refl _) (by simp)
    have ih' := ih (i + 1) (fun j h1 h2 => h j (by omega) (by simp; omega))
    simp [keepIdx, h0, ih']

theorem keepIdx_false {α} {p : Nat → Bool} (i : Nat) (l : List α)
    (h : ∀ j, i ≤ j → j < i + l.length → p j = false) : keepIdx p i l = l := by
  induction l generalizing i with
  | nil => rfl
  | cons x xs ih =>
    have h0 := h i (Nat.le_refl _) (by simp)
    have ih' := ih (i + 1) (fun j h1 h2 => h j (by omega) (by simp; omega))
    simp [keepIdx, h0, ih']

theorem keepIdx_true {α} {p : Nat → Bool} (i : Nat) (l : List α)
    (h : ∀ j, i ≤ j → j < i + l.length → p j = true) : keepIdx p i l = [] := by
  induction l generalizing i with
  | nil => rfl
  | cons x xs ih =>
    have h0 := h i (Nat.le_refl _) (by simp)
    have ih' := ih (i + 1) (fun j h1 h2 => h j (by omega) (by simp; omega))
    simp [keepIdx, h0, ih']

theorem keepIdx_map {α β} (f : α → β) (p : Nat → Bool) (i : Nat) (l : List α) :
    keepIdx p i (l.map f) = (keepIdx p i l).map f := by
  induction l generalizing i with
  | nil => rfl
  | cons x xs ih => simp only [List.map_cons, keepIdx, ih]; split <;> simp

/-- index `i` lies in one of the runs -/
def inRuns (runs : List (Nat × Nat)) (i : Nat) : Bool := runs.any fun r => decide (r.2 ≤ i) && decide (i ≤ r.1)

theorem inRuns_false_of_below {b : Nat} {runs : List (Nat × Nat)} (h : RunsBelow b runs) {i : Nat} (hi : b ≤ i + 1) :
    inRuns runs i = false := by
  induction runs generalizing b with
  | nil => rfl
  | cons r rest ih =>
    obtain ⟨hi', lo⟩ := r
    obtain ⟨h1, h2, h3⟩ := h
    have := ih h3 (by omega)
    simp only [inRuns, List.any_cons] at this ⊢
    rw [this]
    simp; omega

/-- Removing well-separated runs one after the other = filtering by "index in no run". -/
theorem removeIvs_eq_keepIdx {α} {b : Nat} (runs : List (Nat × Nat)) (h : RunsBelow b runs) (l : List α) :
    removeIvs l runs = keepIdx (inRuns runs) 0 l := by
  induction runs generalizing b l with
  | nil =>
    simp only [removeIvs]
    exact (keepIdx_false 0 l (fun _ _ _ => rfl)).symm
  | cons r rest ih =>
    obtain ⟨hi, lo⟩ := r
    obtain ⟨h1, h2, h3⟩ := h
    simp only [removeIvs]
    rw [ih h3]
    -- split l at lo and hi+1
    have hl : l = l.take lo ++ ((l.drop lo).take (hi + 1 - lo) ++ l.drop (hi + 1)) := by
      have e1 : l.drop (hi + 1) = (l.drop lo).drop (hi + 1 - lo) := by
        rw [List.drop_drop]; congr 1; omega
      rw [e1, List.take_append_drop, List.take_append_drop]
    have hq : ∀ j, inRuns ((hi, lo) :: rest) j = (decide (lo ≤ j) && decide (j ≤ hi) || inRuns rest j) := by
      intro j; simp [inRuns]
    conv => rhs; rw [hl]
    rw [keepIdx_append, keepIdx_append, keepIdx_append]
    -- part below lo: same predicate
    have e1 : keepIdx (inRuns rest) 0 (l.take lo) = keepIdx (inRuns ((hi, lo) :: rest)) 0 (l.take lo) := by
      apply keepIdx_congr
      intro j _ hj
      have : j < lo := by simp at hj; omega
      rw [hq]; simp; intro hlo; omega
    -- the run itself disappears
    have e2 : keepIdx (inRuns ((hi, lo) :: rest)) (0 + (l.take lo).length) ((l.drop lo).take (hi + 1 - lo)) = [] := by
      by_cases hll : lo ≤ l.length
      · apply keepIdx_true
        intro j hj1 hj2
        simp only [List.length_take, List.length_drop] at hj1 hj2
        rw [hq]; simp; left; omega
      · have : (l.drop lo).take (hi + 1 - lo) = [] := by
          rw [List.drop_eq_nil_of_le (show l.length ≤ lo by omega)]; simp
        rw [this]; rfl
    -- above the run nothing else is removed
    have e3 : keepIdx (inRuns rest) (0 + (l.take lo).length) (l.drop (hi + 1)) = l.drop (hi + 1) := by
      by_cases hll : hi + 1 ≤ l.length
      · apply keepIdx_false
        intro j hj1 _
        simp only [List.length_take] at hj1
        exact inRuns_false_of_below h3 (by omega)
      · rw [List.drop_eq_nil_of_le (show l.length ≤ hi + 1 by omega)]; rfl
    have e4 : keepIdx (inRuns ((hi, lo) :: rest))
        (0 + (l.take lo).length + ((l.drop lo).take (hi + 1 - lo)).length) (l.drop (hi + 1)) = l.drop (hi + 1) := by
      by_cases hll : hi + 1 ≤ l.length
      · apply keepIdx_false
        intro j hj1 _
        simp only [List.length_take, List.length_drop] at hj1
        rw [hq]
        have : inRuns rest j = false := inRuns_false_of_below h3 (by omega)
        rw [this]; simp; intro _; omega
      · rw [List.drop_eq_nil_of_le (show l.length ≤ hi + 1 by omega)]; rfl
    rw [← e1, e2, e3, e4]
    simp

/-- The runs of a strictly descending list cover exactly its elements. -/
theorem inRuns_runsDesc : ∀ (l : List Nat), l.Pairwise (· > ·) → ∀ i, inRuns (runsDesc l) i = l.contains i := by
  intro l
  induction l with
  | nil => intro _ i; rfl
  | cons y ys ih =>
    intro hp i
    have hy := List.pairwise_cons.mp hp
    have ih' := ih hy.2 i
    cases ys with
    | nil =>
      simp only [runsDesc, inRuns, List.any_cons, List.any_nil, Bool.or_false, List.contains_cons,
        List.contains_nil]
      rw [Bool.eq_iff_iff]; simp; omega
    | cons z zs =>
      obtain ⟨_, h2⟩ := runsDesc_spec _ hy.2
      obtain ⟨lo, rest, hr, hlo, hrest⟩ := h2 z zs rfl
      have hzy : z < y := hy.1 z (by simp)
      have e : runsDesc (y :: z :: zs) =
          (match runsDesc (z :: zs) with
           | (hi, lo) :: rest => if hi + 1 = y then (y, lo) :: rest else (y, y) :: (hi, lo) :: rest
           | [] => [(y, y)]) := rfl
      rw [hr] at ih'
      rw [e, hr]
      simp only
      have hc : (y :: z :: zs).contains i = (decide (i = y) || (z :: zs).contains i) := by
        simp [List.contains_cons, eq_comm]
      rw [hc, ← ih']
      split
      · rename_i heq
        simp only [inRuns, List.any_cons]
        cases hrest' : rest.any (fun r => decide (r.2 ≤ i) && decide (i ≤ r.1))
        · simp
          rw [Bool.eq_iff_iff]; simp; omega
        · simp
      · simp only [inRuns, List.any_cons]
        cases hrest' : rest.any (fun r => decide (r.2 ≤ i) && decide (i ≤ r.1))
        · simp
          rw [Bool.eq_iff_iff]; simp; omega
        · simp

/-- The list comprehension of `drop_many` computes the spans of the region left by the deletions. -/
theorem keepNotIn_spans_dropRuns {idxs : List Nat} {n : Nat} (S : List Seg) (hnd : idxs.Nodup)
    (hlt : ∀ i ∈ idxs, i < n) :
    keepNotIn idxs 0 (spans S) = spans (dropRuns S (runsDesc (sortDesc idxs))) := by
  have hruns := runsBelow_of_indexes hnd hlt
  have hp := pairwise_sortDesc hnd
  have h1 : spans (dropRuns S (runsDesc (sortDesc idxs))) = removeIvs (spans S) (runsDesc (sortDesc idxs)) := by
    generalize runsDesc (sortDesc idxs) = runs
    induction runs generalizing S with
    | nil => rfl
    | cons r rest ih =>
      obtain ⟨hi, lo⟩ := r
      simp only [dropRuns, removeIvs]
      rw [ih, deleteSegs_spans]
      simp [spans, List.map_take, List.map_drop]
  rw [h1, removeIvs_eq_keepIdx _ hruns, keepNotIn_eq_keepIdx]
  apply keepIdx_congr
  intro j _ _
  rw [inRuns_runsDesc _ hp]
  simp only [List.contains_eq_mem, decide_eq_decide]
  exact mem_sortDesc.symm

end Autobean.Rep

namespace Autobean.Rep
open Autobean.Seq

/-- `drop_many(indexes)` for distinct in-range indexes, complete: store, returned `items`, well-formedness, the
Python-list result for the items, no new gap. -/
theorem dropMany_full {c : Cfg} {st : St} {L R : List Tk} {ph : Tk} {S : List Seg} (idxs : List Nat)
    (wf : RegionWF c st.store st.items L R ph S) (hnd : idxs.Nodup) (hlt : ∀ i ∈ idxs, i < S.length) :
    ∃ segs', dropMany c st idxs = .ok ⟨L ++ layout ph segs' ++ R, spans segs', st.ctr⟩ ∧
      RegionWF c (L ++ layout ph segs' ++ R) (spans segs') L R ph segs' ∧
      itemsOf segs' = keepIdx (fun j => idxs.contains j) 0 (itemsOf S) ∧
      ∀ g ∈ gapsOf segs', g ∈ gapsOf S := by
  obtain ⟨h1, h2, h3⟩ := dropMany_region idxs wf hnd hlt
  have hk := keepNotIn_spans_dropRuns S hnd hlt
  refine ⟨dropRuns S (runsDesc (sortDesc idxs)), ?_, ⟨rfl, h2, wf.ph_id, h3, rfl⟩, ?_, dropRuns_gaps c S _⟩
  · rw [h1, wf.items_eq, hk]
  · rw [dropRuns_items, removeIvs_eq_keepIdx _ (runsBelow_of_indexes hnd hlt)]
    apply keepIdx_congr
    intro j _ _
    rw [inRuns_runsDesc _ (pairwise_sortDesc hnd)]
    simp only [List.contains_eq_mem, decide_eq_decide]
    exact mem_sortDesc

/-- `del self[a:b:k]` with `k ≠ 1`, complete. -/
theorem delSlice_ext_full {c : Cfg} {st : St} {L R : List Tk} {ph : Tk} {S : List Seg}
    (start stop step : Option Int) {s e k : Int}
    (wf : RegionWF c st.store st.items L R ph S)
    (hs : sliceIndices start stop step st.items.length = .ok (s, e, k)) (hk : k ≠ 1) :
    ∃ segs', delSlice c st start stop step = .ok ⟨L ++ layout ph segs' ++ R, spans segs', st.ctr⟩ ∧
      RegionWF c (L ++ layout ph segs' ++ R) (spans segs') L R ph segs' ∧
      itemsOf segs' = keepIdx (fun j => (rangeElems s e k).contains j) 0 (itemsOf S) ∧
      ∀ g ∈ gapsOf segs', g ∈ gapsOf S := by
  have hn : st.items.length = S.length := by rw [wf.items_eq]; simp
  obtain ⟨segs', h1, h2, h3, h4⟩ := dropMany_full (rangeElems s e k) wf (rangeElems_nodup hs)
    (by rw [← hn]; exact rangeElems_lt hs)
  refine ⟨segs', ?_, h2, h3, h4⟩
  unfold delSlice
  rw [hs]
  simp only [hk, ↓reduceIte]
  exact h1

end Autobean.Rep
