import Autobean.Model.Editor
/-
Helper lemmas for C16 (core Lean only): the include walk (`bfsLoop`) and the two phases of `exit`.
-/
namespace Autobean.Editor

/-! ### Reachability and the BFS loop -/
section BFS
variable {α ι : Type}

/-- `p` is matched (transitively) through include directives starting at `r`. -/
inductive Reachable (inc : α → List α) (r : α) : α → Prop
  | root : Reachable inc r r
  | step {p q : α} : Reachable inc r p → q ∈ inc p → Reachable inc r q

/-- Two spellings of the same file include the same files: `ident p = ident p'` implies that the
include matches of `p` and `p'` are the same files (in the same order). -/
def Coherent (inc : α → List α) (ident : α → ι) : Prop :=
  ∀ p p', ident p = ident p' → (inc p).map ident = (inc p').map ident

/-- Loop invariant of `bfsLoop`. -/
structure BfsInv (inc : α → List α) (ident : α → ι) (r : α) (queue visited : List α) : Prop where
  nodup : (visited.map ident).Nodup
  reachV : ∀ p ∈ visited, Reachable inc r p
  reachQ : ∀ p ∈ queue, Reachable inc r p
  closed : ∀ v ∈ visited, ∀ q ∈ inc v, ident q ∈ visited.map ident ∨ q ∈ queue
  root : ident r ∈ visited.map ident ∨ r ∈ queue

theorem BfsInv.init (inc : α → List α) (ident : α → ι) (r : α) : BfsInv inc ident r [r] [] where
  nodup := List.nodup_nil
  reachV := by simp
  reachQ := by
    intro p hp
    have : p = r := by simpa using hp
    subst this
    exact .root
  closed := by simp
  root := by simp

theorem BfsInv.skip {inc : α → List α} {ident : α → ι} {r p : α} {queue visited : List α}
    (h : BfsInv inc ident r (p :: queue) visited) (hp : ident p ∈ visited.map ident) :
    BfsInv inc ident r queue visited where
  nodup := h.nodup
  reachV := h.reachV
  reachQ := fun x hx => h.reachQ x (List.mem_cons_of_mem _ hx)
  closed := by
    intro v hv q hq
    rcases h.closed v hv q hq with h1 | h1
    · exact .inl h1
    · rcases List.mem_cons.mp h1 with h2 | h2
      · exact .inl (h2 ▸ hp)
      · exact .inr h2
  root := by
    rcases h.root with h1 | h1
    · exact .inl h1
    · rcases List.mem_cons.mp h1 with h2 | h2
      · exact .inl (h2 ▸ hp)
      · exact .inr h2

theorem BfsInv.visit {inc : α → List α} {ident : α → ι} {r p : α} {queue visited : List α}
    (h : BfsInv inc ident r (p :: queue) visited) (hp : ident p ∉ visited.map ident) :
    BfsInv inc ident r (queue ++ inc p) (visited ++ [p]) where
  nodup := by
    rw [List.map_append, List.nodup_append]
    refine ⟨h.nodup, by simp, ?_⟩
    intro a ha b hb
    have : b = ident p := by simpa using hb
    subst this
    intro hab
    exact hp (hab ▸ ha)
  reachV := by
    intro x hx
    rcases List.mem_append.mp hx with h1 | h1
    · exact h.reachV x h1
    · have : x = p := by simpa using h1
      subst this
      exact h.reachQ x (List.mem_cons_self ..)
  reachQ := by
    intro x hx
    rcases List.mem_append.mp hx with h1 | h1
    · exact h.reachQ x (List.mem_cons_of_mem _ h1)
    · exact .step (h.reachQ p (List.mem_cons_self ..)) h1
  closed := by
    intro v hv q hq
    rw [List.map_append]
    rcases List.mem_append.mp hv with h1 | h1
    · rcases h.closed v h1 q hq with h2 | h2
      · exact .inl (List.mem_append_left _ h2)
      · rcases List.mem_cons.mp h2 with h3 | h3
        · exact .inl (by simp [h3])
        · exact .inr (List.mem_append_left _ h3)
    · have : v = p := by simpa using h1
      subst this
      exact .inr (List.mem_append_right _ hq)
  root := by
    rw [List.map_append]
    rcases h.root with h1 | h1
    · exact .inl (List.mem_append_left _ h1)
    · rcases List.mem_cons.mp h1 with h2 | h2
      · exact .inl (by simp [h2])
      · exact .inr (List.mem_append_left _ h2)

/-- The invariant is carried to the end of the loop. -/
theorem bfsLoop_inv [DecidableEq ι] {inc : α → List α} {ident : α → ι} {r : α} :
    ∀ (fuel : Nat) (queue visited out : List α),
      BfsInv inc ident r queue visited → bfsLoop inc ident fuel queue visited = some out →
      BfsInv inc ident r [] out := by
  intro fuel
  induction fuel with
  | zero =>
    intro queue visited out h ho
    cases queue with
    | nil => simp [bfsLoop] at ho; exact ho ▸ h
    | cons p q => simp [bfsLoop] at ho
  | succ n ih =>
    intro queue visited out h ho
    cases queue with
    | nil => simp [bfsLoop] at ho; exact ho ▸ h
    | cons p q =>
      by_cases hp : ident p ∈ visited.map ident
      · simp only [bfsLoop, hp, if_true] at ho
        exact ih _ _ _ (h.skip hp) ho
      · simp only [bfsLoop, hp, if_false] at ho
        exact ih _ _ _ (h.visit hp) ho

/-- At the end of the loop: no file (identity) was visited twice, everything visited is reachable, and
every reachable path names a file that was visited (under its first spelling). -/
theorem BfsInv.final {inc : α → List α} {ident : α → ι} {r : α} {out : List α}
    (hcoh : Coherent inc ident) (h : BfsInv inc ident r [] out) :
    (out.map ident).Nodup ∧ (∀ p ∈ out, Reachable inc r p) ∧
      ∀ p, Reachable inc r p → ident p ∈ out.map ident := by
  refine ⟨h.nodup, h.reachV, ?_⟩
  intro p hr
  induction hr with
  | root => rcases h.root with h1 | h1
            · exact h1
            · cases h1
  | @step p q _ hq ih =>
    obtain ⟨v, hv, hvp⟩ := List.mem_map.mp ih
    have hm : ident q ∈ (inc v).map ident := by
      rw [hcoh v p hvp]; exact List.mem_map.mpr ⟨q, hq, rfl⟩
    obtain ⟨q', hq', hqq⟩ := List.mem_map.mp hm
    rcases h.closed v hv q' hq' with h1 | h1
    · exact hqq ▸ h1
    · cases h1

/-- Include edges leaving paths of `univ` whose file has not been read yet. -/
def pending [DecidableEq ι] (inc : α → List α) (ident : α → ι) (visited : List α) : List α → Nat
  | [] => 0
  | u :: us => (if ident u ∈ visited.map ident then 0 else (inc u).length) + pending inc ident visited us

theorem pending_nil [DecidableEq ι] (inc : α → List α) (ident : α → ι) (univ : List α) :
    pending inc ident [] univ = (univ.map fun u => (inc u).length).sum := by
  induction univ with
  | nil => rfl
  | cons u us ih => simp [pending, ih]

theorem pending_mono [DecidableEq ι] (inc : α → List α) (ident : α → ι) (visited : List α) (p : α)
    (univ : List α) : pending inc ident (visited ++ [p]) univ ≤ pending inc ident visited univ := by
  induction univ with
  | nil => simp [pending]
  | cons u us ih =>
    simp only [pending]
    by_cases h1 : ident u ∈ visited.map ident
    · have : ident u ∈ (visited ++ [p]).map ident := by
        rw [List.map_append]; exact List.mem_append_left _ h1
      simp only [h1, this, if_true]; omega
    · by_cases h2 : ident u ∈ (visited ++ [p]).map ident
      · simp only [h1, h2, if_true, if_false]; omega
      · simp only [h1, h2, if_false]; omega

theorem pending_visit [DecidableEq ι] (inc : α → List α) (ident : α → ι) (visited : List α) (p : α)
    (hp : ident p ∉ visited.map ident) (univ : List α) (hu : p ∈ univ) :
    (inc p).length + pending inc ident (visited ++ [p]) univ ≤ pending inc ident visited univ := by
  induction univ with
  | nil => cases hu
  | cons u us ih =>
    simp only [pending]
    rcases List.mem_cons.mp hu with hup | hmem
    · subst hup
      have h2 : ident p ∈ (visited ++ [p]).map ident := by simp
      have := pending_mono inc ident visited p us
      simp only [hp, h2, if_true, if_false]; omega
    · have := ih hmem
      have hm := pending_mono inc ident visited p us
      by_cases h1 : ident u ∈ visited.map ident
      · have h2 : ident u ∈ (visited ++ [p]).map ident := by
          rw [List.map_append]; exact List.mem_append_left _ h1
        simp only [h1, h2, if_true]; omega
      · by_cases h2 : ident u ∈ (visited ++ [p]).map ident
        · simp only [h1, h2, if_true, if_false]; omega
        · simp only [h1, h2, if_false]; omega

/-- The loop ends within `queue.length + pending` iterations. -/
theorem bfsLoop_isSome [DecidableEq ι] {inc : α → List α} {ident : α → ι} {r : α} (univ : List α)
    (huniv : ∀ p, Reachable inc r p → p ∈ univ) :
    ∀ (fuel : Nat) (queue visited : List α), BfsInv inc ident r queue visited →
      queue.length + pending inc ident visited univ ≤ fuel →
      ∃ out, bfsLoop inc ident fuel queue visited = some out := by
  intro fuel
  induction fuel with
  | zero =>
    intro queue visited h hf
    cases queue with
    | nil => exact ⟨visited, by simp [bfsLoop]⟩
    | cons p q => simp at hf
  | succ n ih =>
    intro queue visited h hf
    cases queue with
    | nil => exact ⟨visited, by simp [bfsLoop]⟩
    | cons p q =>
      by_cases hp : ident p ∈ visited.map ident
      · simp only [bfsLoop, hp, if_true]
        exact ih _ _ (h.skip hp) (by simp at hf; omega)
      · simp only [bfsLoop, hp, if_false]
        have hpu : p ∈ univ := huniv p (h.reachQ p (List.mem_cons_self ..))
        have := pending_visit inc ident visited p hp univ hpu
        exact ih _ _ (h.visit hp) (by simp at hf ⊢; omega)

/-- A finite list closed under `inc` that contains the root contains every reachable path. -/
theorem reachable_subset_of_closed {inc : α → List α} {r : α} (univ : List α) (hr : r ∈ univ)
    (hc : ∀ u ∈ univ, ∀ q ∈ inc u, q ∈ univ) : ∀ p, Reachable inc r p → p ∈ univ := by
  intro p hp
  induction hp with
  | root => exact hr
  | step _ hq ih => exact hc _ ih _ hq

/-- With `ident = id` (one spelling per file) every include relation is coherent. -/
theorem coherent_id (inc : α → List α) : Coherent inc (fun p => p) := by
  intro p p' h
  cases h
  rfl

theorem nodup_of_nodup_map {β : Type} (f : α → β) : ∀ (l : List α), (l.map f).Nodup → l.Nodup := by
  intro l
  induction l with
  | nil => intro _; exact List.nodup_nil
  | cons a as ih =>
    intro h
    simp only [List.map_cons, List.nodup_cons] at h ⊢
    exact ⟨fun hm => h.1 (List.mem_map.mpr ⟨a, hm, rfl⟩), ih h.2⟩

end BFS

/-! ### File system -/

theorem lookup_filter_ne (fs : FS) (p q : Path) :
    List.lookup q (fs.filter fun e => decide (e.1 ≠ p)) = if q = p then none else List.lookup q fs := by
  induction fs with
  | nil => simp
  | cons e es ih =>
    obtain ⟨k, v⟩ := e
    rw [List.filter_cons]
    by_cases hk : k = p
    · have hd : decide ((k, v).1 ≠ p) = false := by simp [hk]
      rw [hd, if_neg (by simp), ih]
      by_cases hq : q = p
      · simp [hq]
      · have hb : (q == k) = false := by simp [hk, hq]
        simp [hq, List.lookup_cons, hb]
    · have hd : decide ((k, v).1 ≠ p) = true := by simp [hk]
      rw [hd, if_pos rfl, List.lookup_cons, List.lookup_cons, ih]
      by_cases hqk : q = k
      · subst hqk; simp [hk]
      · have hb : (q == k) = false := by simpa using hqk
        simp [hb]

theorem read_unlink (fs : FS) (p q : Path) :
    (fs.unlink p).read q = if q = p then none else fs.read q := by
  simp only [FS.read, FS.unlink]
  exact lookup_filter_ne fs p q

theorem read_write (fs : FS) (p q : Path) (b : Bytes) :
    (fs.write p b).read q = if q = p then some b else fs.read q := by
  simp only [FS.write, FS.read, List.lookup_cons]
  by_cases h : q = p
  · subst h; simp
  · have : (q == p) = false := by simpa using h
    have h2 := read_unlink fs p q
    simp only [FS.read] at h2
    simp [this, h, h2]

theorem lookup_none_of_not_mem_keys {β : Type} (m : List (Path × β)) (p : Path) (h : p ∉ m.map (·.1)) :
    m.lookup p = none := by
  induction m with
  | nil => rfl
  | cons e es ih =>
    obtain ⟨k, v⟩ := e
    have hk : p ≠ k := by intro hpk; apply h; simp [hpk]
    have hb : (p == k) = false := by simpa using hk
    have : p ∉ es.map (·.1) := by intro hm; apply h; simp at hm ⊢; exact .inr hm
    simp [List.lookup_cons, hb, ih this]

theorem mem_keys_of_lookup_some {β : Type} (m : List (Path × β)) (p : Path) (v : β) (h : m.lookup p = some v) :
    p ∈ m.map (·.1) := by
  apply Classical.byContradiction
  intro hn
  rw [lookup_none_of_not_mem_keys m p hn] at h
  cases h

theorem lookup_of_mem_nodup {β : Type} (m : List (Path × β)) (h : (m.map (·.1)).Nodup) (p : Path) (v : β)
    (hm : (p, v) ∈ m) : m.lookup p = some v := by
  induction m with
  | nil => cases hm
  | cons e es ih =>
    obtain ⟨k, w⟩ := e
    simp only [List.map_cons, List.nodup_cons] at h
    rcases List.mem_cons.mp hm with h1 | h1
    · cases h1; simp
    · have hpk : p ≠ k := by
        intro hpk
        subst hpk
        apply h.1
        exact List.mem_map.mpr ⟨(p, v), h1, rfl⟩
      have hb : (p == k) = false := by simpa using hpk
      simp [List.lookup_cons, hb, ih h.2 h1]

/-! ### The unlink phase -/

theorem unlinkPhase_log (ps : List Path) (fs : FS) : (unlinkPhase ps fs).2 = ps.map Event.unlink := by
  induction ps generalizing fs with
  | nil => rfl
  | cons p ps ih => simp [unlinkPhase, ih]

theorem unlinkPhase_read (ps : List Path) (fs : FS) (q : Path) :
    (unlinkPhase ps fs).1.read q = if q ∈ ps then none else fs.read q := by
  induction ps generalizing fs with
  | nil => simp [unlinkPhase]
  | cons p ps ih =>
    simp only [unlinkPhase, ih, read_unlink]
    by_cases h1 : q = p
    · subst h1; simp
    · by_cases h2 : q ∈ ps <;> simp [h1, h2]

theorem mem_removedKeys (texts files : List (Path × Text)) (p : Path) :
    p ∈ removedKeys texts files ↔ p ∈ texts.map (·.1) ∧ p ∉ files.map (·.1) := by
  simp [removedKeys]

/-! ### The write phase -/

theorem writePhase_unlink_not_mem (tr : Bool) (texts files : List (Path × Text)) (fs : FS) (q : Path) :
    Event.unlink q ∉ (writePhase tr texts files fs).2 := by
  induction files generalizing fs with
  | nil => simp [writePhase]
  | cons e es ih =>
    obtain ⟨p, pr⟩ := e
    simp only [writePhase]
    split
    · simp only [List.mem_append, not_or]
      refine ⟨?_, ih _⟩
      simp only [mkdirEvents]; split <;> simp
    · simp only [List.mem_append, List.mem_cons, not_or]
      refine ⟨?_, by simp, ih _⟩
      simp only [mkdirEvents]; split <;> simp

theorem writePhase_write_mem (tr : Bool) (texts files : List (Path × Text)) (fs : FS) (q : Path) :
    Event.write q ∈ (writePhase tr texts files fs).2 ↔
      ∃ printed, (q, printed) ∈ files ∧ texts.lookup q ≠ some printed := by
  induction files generalizing fs with
  | nil => simp [writePhase]
  | cons e es ih =>
    obtain ⟨p, pr⟩ := e
    have hmk : Event.write q ∉ mkdirEvents p := by simp only [mkdirEvents]; split <;> simp
    simp only [writePhase]
    split
    · rename_i hsame
      simp only [List.mem_append, hmk, false_or, ih, List.mem_cons]
      constructor
      · rintro ⟨x, hx, hne⟩; exact ⟨x, .inr hx, hne⟩
      · rintro ⟨x, hx | hx, hne⟩
        · cases hx; exact absurd hsame hne
        · exact ⟨x, hx, hne⟩
    · rename_i hdiff
      simp only [List.mem_append, hmk, false_or, List.mem_cons, ih, Event.write.injEq]
      constructor
      · rintro (h | ⟨x, hx, hne⟩)
        · subst h; exact ⟨pr, .inl rfl, hdiff⟩
        · exact ⟨x, .inr hx, hne⟩
      · rintro ⟨x, hx | hx, hne⟩
        · cases hx; exact .inl rfl
        · exact .inr ⟨x, hx, hne⟩

theorem writePhase_mkdir_mem (tr : Bool) (texts files : List (Path × Text)) (fs : FS) (d : Path) :
    Event.mkdir d ∈ (writePhase tr texts files fs).2 ↔ ∃ e ∈ files, d = dirname e.1 ∧ d ≠ [] := by
  induction files generalizing fs with
  | nil => simp [writePhase]
  | cons e es ih =>
    obtain ⟨p, pr⟩ := e
    have hmk : Event.mkdir d ∈ mkdirEvents p ↔ (d = dirname p ∧ d ≠ []) := by
      simp only [mkdirEvents]
      split
      · rename_i h; simp only [List.not_mem_nil, false_iff, not_and]; intro hd; simp [hd, h]
      · rename_i h; simp only [List.mem_singleton, Event.mkdir.injEq]
        constructor
        · intro hd; exact ⟨hd, hd ▸ h⟩
        · intro hd; exact hd.1
    simp only [writePhase]
    split
    · simp only [List.mem_append, hmk, ih]
      constructor
      · rintro (h | ⟨e, he, h⟩)
        · exact ⟨(p, pr), List.mem_cons_self .., h⟩
        · exact ⟨e, List.mem_cons_of_mem _ he, h⟩
      · rintro ⟨e, he, h⟩
        rcases List.mem_cons.mp he with h1 | h1
        · subst h1; exact .inl h
        · exact .inr ⟨e, h1, h⟩
    · simp only [List.mem_append, List.mem_cons, hmk, ih, reduceCtorEq, false_or]
      constructor
      · rintro (h | ⟨e, he, h⟩)
        · exact ⟨(p, pr), .inl rfl, h⟩
        · exact ⟨e, .inr he, h⟩
      · rintro ⟨e, he | he, h⟩
        · subst he; exact .inl h
        · exact .inr ⟨e, he, h⟩

/-- Closed form of the file system after the write loop (distinct keys, as in a dict). -/
theorem writePhase_read (tr : Bool) (texts files : List (Path × Text)) (fs : FS) (q : Path)
    (hn : (files.map (·.1)).Nodup) :
    (writePhase tr texts files fs).1.read q =
      match files.lookup q with
      | some printed => if texts.lookup q = some printed then fs.read q else some (encode tr printed)
      | none => fs.read q := by
  induction files generalizing fs with
  | nil => simp [writePhase]
  | cons e es ih =>
    obtain ⟨p, pr⟩ := e
    simp only [List.map_cons, List.nodup_cons] at hn
    by_cases hq : q = p
    · subst hq
      have hl : es.lookup q = none := lookup_none_of_not_mem_keys es q hn.1
      simp only [writePhase, List.lookup_cons, beq_self_eq_true]
      split
      · rw [ih _ hn.2, hl]
      · rw [ih _ hn.2, hl]; simp [read_write]
    · have hb : (q == p) = false := by simpa using hq
      simp only [writePhase, List.lookup_cons, hb]
      split
      · rw [ih _ hn.2]
      · rw [ih _ hn.2]; simp [read_write, hq]

/-! ### Reading -/

theorem readAll_spec (tr : Bool) (fs : FS) (visit : List Path) (texts : List (Path × Text))
    (h : readAll tr fs visit = some texts) :
    texts.map (·.1) = visit ∧ ∀ e ∈ texts, ∃ b, fs.read e.1 = some b ∧ e.2 = decode tr b := by
  induction visit generalizing texts with
  | nil => simp [readAll] at h; subst h; simp
  | cons p ps ih =>
    simp only [readAll] at h
    split at h
    · rename_i b ts hb hts
      cases h
      obtain ⟨h1, h2⟩ := ih ts hts
      refine ⟨by simp [h1], ?_⟩
      intro e he
      rcases List.mem_cons.mp he with h3 | h3
      · subst h3; exact ⟨b, hb, rfl⟩
      · exact h2 e h3
    · cases h

theorem readAll_isSome (tr : Bool) (fs : FS) (visit : List Path) (h : ∀ p ∈ visit, (fs.read p).isSome) :
    ∃ texts, readAll tr fs visit = some texts := by
  induction visit with
  | nil => exact ⟨[], rfl⟩
  | cons p ps ih =>
    obtain ⟨ts, hts⟩ := ih (fun q hq => h q (List.mem_cons_of_mem _ hq))
    have hp := h p (List.mem_cons_self ..)
    obtain ⟨b, hb⟩ := Option.isSome_iff_exists.mp hp
    exact ⟨(p, decode tr b) :: ts, by simp [readAll, hb, hts]⟩

end Autobean.Editor
