/-
Definitions used by the C07/C08 theorems: the abstraction (`cores`), the structural invariant `SInv`,
the cache invariant `CInv`, freshness of inserted tokens, and the block-list form of the invariants
(`BOK`, `BInv`, `Inv`) the proofs work with.
-/
import Autobean.Model.Store

namespace Autobean

/-- What a token *is* for the plain-list view: its identity and its text. -/
def Tok.core (t : Tok) : Nat × List Char := (t.id, t.text)

/-- A token with its store handle erased. -/
def Tok.strip (t : Tok) : Tok := { t with h := none }

/-- The abstraction function: the blocked store read as a plain list. -/
def Store.cores (s : Store) : List (Nat × List Char) := s.toList.map Tok.core

/-- Flat index of block position `(p, k)`: `k + Σ_{q<p} len(block q)`. -/
def flatIdx (bs : List Block) (p k : Nat) : Nat := k + ((bs.take p).map (·.toks.length)).sum

/-- Structural invariant of the concrete store. -/
structure SInv (s : Store) : Prop where
  nonempty : s.blocks ≠ []
  noEmpty : 1 < s.blocks.length → ∀ b ∈ s.blocks, b.toks ≠ []
  idx : ∀ p (h : p < s.blocks.length), (s.blocks[p]).idx = p
  refsNodup : (s.blocks.map (·.ref)).Nodup
  refsLt : ∀ b ∈ s.blocks, b.ref < s.nextRef
  handles : ∀ p (hp : p < s.blocks.length) j (hj : j < (s.blocks[p]).toks.length),
      ((s.blocks[p]).toks[j]).h = some ⟨s.sid, (s.blocks[p]).ref, j⟩
  idsNodup : (s.toList.map (·.id)).Nodup
  len : s.len = s.toList.length

/-- Cache invariant (C08): every cached size is the recomputed one. -/
structure CInv (s : Store) : Prop where
  tokSize : ∀ t ∈ s.toList, t.size = tokSize t.text
  blockSize : ∀ b ∈ s.blocks, b.size = sizeOfToks b.toks ∧ b.lni = lniFrom 0 (-1) b.toks

/-- Tokens that may be handed to `from_tokens`: detached, with a correct size, pairwise distinct. -/
structure FreshToks (ts : List Tok) : Prop where
  detached : ∀ t ∈ ts, t.h = none
  sized : ∀ t ∈ ts, t.size = tokSize t.text
  nodup : (ts.map (·.id)).Nodup

/-- Tokens that may be inserted into `s`: `FreshToks` and not already in `s`. -/
structure Fresh (s : Store) (ts : List Tok) : Prop extends FreshToks ts where
  disjoint : ∀ t ∈ ts, t.id ∉ s.ids

/-! ### Block-list form -/

/-- One block is internally consistent: handles, cached size, cached last-newline index. -/
structure BOK (sid : Nat) (b : Block) : Prop where
  hs : setHandlesFrom sid b.ref 0 b.toks = b.toks
  size : b.size = sizeOfToks b.toks
  lni : b.lni = lniFrom 0 (-1) b.toks

/-- Stored indexes are `p, p+1, …`. -/
def IdxFrom (p : Nat) (bs : List Block) : Prop := bs.map (·.idx) = List.range' p bs.length

/-- Everything about the list of blocks that does not involve the tokens' identities. -/
structure BInv (sid nextRef : Nat) (bs : List Block) : Prop where
  nonempty : bs ≠ []
  noEmpty : 1 < bs.length → ∀ b ∈ bs, b.toks ≠ []
  idx : IdxFrom 0 bs
  refsNodup : (bs.map (·.ref)).Nodup
  refsLt : ∀ b ∈ bs, b.ref < nextRef
  bok : ∀ b ∈ bs, BOK sid b

/-- `SInv ∧ CInv` in the form the proofs use. -/
structure Inv (s : Store) : Prop where
  binv : BInv s.sid s.nextRef s.blocks
  idsNodup : s.ids.Nodup
  tokSize : ∀ t ∈ s.toList, t.size = tokSize t.text
  len : s.len = s.toList.length

end Autobean
