/-
Layout of a repeated region and the location lemmas used by the frame theorems of `RepeatedNodeWrapper`.

A region is `ph :: gap₀ ++ item₀ ++ gap₁ ++ item₁ ++ … ++ item_{n-1}`: a list of segments `(gapᵢ, itemᵢ)`,
gaps arbitrary, items non-empty.  The document store is `L ++ layout ph segs ++ R` with arbitrary `L`, `R`.
-/
import Autobean.Model.Repeated
import Autobean.Proofs.SeqFrame

namespace Autobean.Rep
open Autobean.Seq

/-- `(gap before the item, tokens of the item)`. -/
abbrev Seg := List Tk × List Tk

def body : List Seg → List Tk
  | [] => []
  | sg :: rest => sg.1 ++ sg.2 ++ body rest

def layout (ph : Tk) (segs : List Seg) : List Tk := ph :: body segs

def spans (segs : List Seg) : List Span := segs.map fun sg => spanOf sg.2

/-- item token lists, in order -/
def itemsOf (segs : List Seg) : List (List Tk) := segs.map (·.2)

/-- gap token lists, in order -/
def gapsOf (segs : List Seg) : List (List Tk) := segs.map (·.1)

def ItemsNonempty (segs : List Seg) : Prop := ∀ sg ∈ segs, sg.2 ≠ []

/-- Well-formed repeated region inside a store (DESIGN.md §3.3 restricted to one region, §3.4 local form). -/
structure RegionWF (c : Cfg) (store : List Tk) (items : List Span) (L R : List Tk) (ph : Tk)
    (segs : List Seg) : Prop where
  store_eq : store = L ++ layout ph segs ++ R
  distinct : Distinct store
  ph_id : ph.id = c.ph
  nonempty : ItemsNonempty segs
  items_eq : items = spans segs

/-- `xs` is a copy of the separator templates: same kinds and texts (identities are new). -/
def IsCopy (tmpl xs : List Tk) : Prop :=
  xs.map (fun t => (t.kind, t.text)) = tmpl.map (fun t => (t.kind, t.text))

theorem copySeps_isCopy (tmpl : List Tk) (c : Nat) : IsCopy tmpl (copySeps tmpl c) := by
  induction tmpl generalizing c with
  | nil => simp [copySeps, IsCopy]
  | cons t ts ih =>
    have := ih (c + 1)
    simp [copySeps, IsCopy] at this ⊢
    exact this

theorem copySeps_length (tmpl : List Tk) (c : Nat) : (copySeps tmpl c).length = tmpl.length := by
  induction tmpl generalizing c with
  | nil => simp [copySeps]
  | cons t ts ih => simp [copySeps, ih]

theorem copySeps_ids (tmpl : List Tk) (c : Nat) :
    ∀ t ∈ copySeps tmpl c, c ≤ t.id ∧ t.id < c + tmpl.length := by
  induction tmpl generalizing c with
  | nil => simp [copySeps]
  | cons t ts ih =>
    intro x hx
    simp [copySeps] at hx
    rcases hx with rfl | hx
    · simp
    · have := ih (c + 1) x hx
      simp; omega

/-! ### list algebra of layouts -/

@[simp] theorem body_nil : body [] = [] := rfl
@[simp] theorem body_cons (sg : Seg) (rest : List Seg) : body (sg :: rest) = sg.1 ++ sg.2 ++ body rest := rfl

theorem body_append (a b : List Seg) : body (a ++ b) = body a ++ body b := by
  induction a with
  | nil => simp
  | cons sg a ih => simp [ih]

theorem layout_append (ph : Tk) (a b : List Seg) : layout ph (a ++ b) = layout ph a ++ body b := by
  simp [layout, body_append]

theorem spans_append (a b : List Seg) : spans (a ++ b) = spans a ++ spans b := by simp [spans]

@[simp] theorem spans_length (a : List Seg) : (spans a).length = a.length := by simp [spans]

theorem ItemsNonempty.append {a b : List Seg} : ItemsNonempty (a ++ b) ↔ ItemsNonempty a ∧ ItemsNonempty b := by
  unfold ItemsNonempty
  constructor
  · intro h
    exact ⟨fun sg hs => h sg (List.mem_append_left _ hs), fun sg hs => h sg (List.mem_append_right _ hs)⟩
  · intro h sg hs
    rcases List.mem_append.mp hs with hs | hs
    · exact h.1 sg hs
    · exact h.2 sg hs

theorem ItemsNonempty.cons {sg : Seg} {a : List Seg} : ItemsNonempty (sg :: a) ↔ sg.2 ≠ [] ∧ ItemsNonempty a := by
  simp [ItemsNonempty]

theorem body_ne_nil {segs : List Seg} (h : segs ≠ []) (hne : ItemsNonempty segs) : body segs ≠ [] := by
  cases segs with
  | nil => exact absurd rfl h
  | cons sg rest =>
    have := (ItemsNonempty.cons.mp hne).1
    simp [this]

/-- The last token of a non-empty run of segments is the last token of its last item. -/
theorem body_getLast? {segs : List Seg} {sg : Seg} (pre : List Seg) (h : segs = pre ++ [sg]) (hne : sg.2 ≠ []) :
    (body segs).getLast? = sg.2.getLast? := by
  subst h
  rw [body_append]
  simp only [body_cons, body_nil, List.append_nil]
  rw [List.getLast?_append, List.getLast?_append]
  cases h2 : sg.2.getLast? with
  | none => exact absurd (List.getLast?_eq_none_iff.mp h2) hne
  | some x => simp

theorem spanOf_last {v : List Tk} {t : Tk} (h : v.getLast? = some t) : (spanOf v).last = t.id := by
  simp [spanOf, h]

theorem spanOf_first {v : List Tk} {t : Tk} (h : v.head? = some t) : (spanOf v).first = t.id := by
  simp [spanOf, h]

theorem exists_getLast {v : List Tk} (h : v ≠ []) : ∃ t, v.getLast? = some t := by
  cases hh : v.getLast? with
  | none => exact absurd (List.getLast?_eq_none_iff.mp hh) h
  | some t => exact ⟨t, rfl⟩

theorem exists_head {v : List Tk} (h : v ≠ []) : ∃ t, v.head? = some t := by
  cases v with
  | nil => exact absurd rfl h
  | cons t _ => exact ⟨t, rfl⟩

theorem snoc_cases {α} (l : List α) : l = [] ∨ ∃ l' a, l = l' ++ [a] := by
  rcases List.eq_nil_or_concat l with h | ⟨l', a, h⟩
  · exact Or.inl h
  · exact Or.inr ⟨l', a, by rw [h, List.concat_eq_append]⟩

/-- `_prev_last(index)` evaluates to the last token of `layout ph pre` where `pre` are the first `index` segments. -/
theorem prevLast_eq {c : Cfg} {ph : Tk} (pre post : List Seg) (hph : ph.id = c.ph)
    (hne : ItemsNonempty pre) :
    ∃ t, (layout ph pre).getLast? = some t ∧ prevLast c (spans (pre ++ post)) pre.length = .ok t.id := by
  rcases snoc_cases pre with rfl | ⟨pre', sg, rfl⟩
  · exact ⟨ph, by simp [layout], by simp [prevLast, hph]⟩
  · have hsg : sg.2 ≠ [] := (ItemsNonempty.append.mp hne).2 sg (by simp)
    obtain ⟨t, ht⟩ := exists_getLast hsg
    refine ⟨t, ?_, ?_⟩
    · have : layout ph (pre' ++ [sg]) = ph :: body (pre' ++ [sg]) := rfl
      rw [this, List.getLast?_cons, body_getLast? pre' rfl hsg, ht]; rfl
    · have hlen : (pre' ++ [sg]).length = pre'.length + 1 := by simp
      have hget : (spans (pre' ++ [sg] ++ post))[pre'.length]? = some (spanOf sg.2) := by
        simp [spans]
      unfold prevLast
      rw [hlen]
      simp only [Nat.add_sub_cancel, Nat.zero_lt_succ, ↓reduceIte, hget, spanOf_last ht]

end Autobean.Rep
