/-
Lifting lemmas for the path-addressed tree edits of `Model/TreeOps.lean`: an edit of the sub-tree at a path
changes exactly that sub-tree's segment of the depth-first leaf sequence (and of the tag sequence).

  `replaceAt_decomp` / `leaves_replaceAt` / `tags_replaceAt`   — replacing a sub-tree
  `leaves_setOptAt` (+ `_create`, `_remove`)                    — optional field `None ↔ child`
  `leaves_insertItemAt`, `leaves_removeItemsAt`                 — items of a repeated field
-/
import Autobean.Model.TreeOps
import Autobean.Proofs.TreeLemmas

namespace Autobean
open List

/-! ### List views -/

theorem Tree.subAtL_eq (fs : List Tree) (k : Nat) (p : Path) :
    Tree.subAtL fs k p = (fs[k]?).bind (fun c => c.subAt p) := by
  induction fs generalizing k with
  | nil => simp [Tree.subAtL]
  | cons t ts ih =>
    cases k with
    | zero => simp [Tree.subAtL]
    | succ k => simp [Tree.subAtL, ih]

theorem Tree.subAt_nil (t : Tree) : t.subAt [] = some t := by
  cases t <;> simp [Tree.subAt]

theorem Tree.subAt_cons (t : Tree) (k : Nat) (p : Path) :
    t.subAt (k :: p) = t.children.bind (fun cs => (cs[k]?).bind (fun c => c.subAt p)) := by
  cases t <;> simp [Tree.subAt, Tree.children, Tree.subAtL_eq]

/-- Header tokens of a model that are not in a child: the placeholder of a `Repeated`. -/
def Tree.hdr : Tree → List Nat
  | .rep _ ph _ => [ph]
  | _ => []

theorem Tree.leaves_of_children {t : Tree} {cs : List Tree} (h : t.children = some cs) :
    t.leaves = t.hdr ++ cs.flatMap Tree.leaves ∧
    ∀ cs', (t.withChildren cs').leaves = t.hdr ++ cs'.flatMap Tree.leaves := by
  cases t <;> simp [Tree.children] at h <;> subst h <;> simp [Tree.hdr, Tree.withChildren]

theorem Tree.tags_of_children {t : Tree} {cs : List Tree} (h : t.children = some cs) :
    ∃ g, t.tags = g :: cs.flatMap Tree.tags ∧
    ∀ cs', (t.withChildren cs').tags = g :: cs'.flatMap Tree.tags := by
  cases t <;> simp [Tree.children] at h <;> subst h <;> simp [Tree.withChildren]

theorem getElem?_split {α} {cs : List α} {k : Nat} {c : α} (h : cs[k]? = some c) :
    cs = cs.take k ++ c :: cs.drop (k + 1) ∧ ∀ c', cs.set k c' = cs.take k ++ c' :: cs.drop (k + 1) := by
  obtain ⟨hk, rfl⟩ := List.getElem?_eq_some_iff.mp h
  constructor
  · conv => lhs; rw [← List.take_append_drop k cs]
    rw [List.drop_eq_getElem_cons hk]
  · intro c'
    rw [List.set_eq_take_append_cons_drop]
    simp [hk]

theorem Tree.subAt_append : ∀ (q r : Path) (t : Tree), t.subAt (q ++ r) = (t.subAt q).bind (fun s => s.subAt r) := by
  intro q
  induction q with
  | nil => intro r t; simp [Tree.subAt_nil]
  | cons k q ih =>
    intro r t
    simp only [List.cons_append, Tree.subAt_cons]
    cases t.children with
    | none => simp
    | some cs => simp [ih, Option.bind_assoc]

/-- The child `k` of the model at `q` is the sub-tree at `q ++ [k]`. -/
theorem Tree.subAt_snoc {t parent : Tree} {q : Path} {k : Nat} {cs : List Tree} {c : Tree}
    (hs : t.subAt q = some parent) (hc : parent.children = some cs) (hk : cs[k]? = some c) :
    t.subAt (q ++ [k]) = some c := by
  rw [Tree.subAt_append, hs]
  simp [Tree.subAt_cons, hc, hk, Tree.subAt_nil]

/-! ### Replacing a sub-tree -/

/-- **Lifting lemma.**  Replacing the sub-tree at `p` replaces exactly its segment of the leaf sequence and
of the tag sequence. -/
theorem replaceAt_decomp : ∀ (p : Path) {t old new t' : Tree}, t.subAt p = some old →
    t.replaceAt p new = some t' →
    ∃ A B TA TB, t.leaves = A ++ old.leaves ++ B ∧ t'.leaves = A ++ new.leaves ++ B ∧
      t.tags = TA ++ old.tags ++ TB ∧ t'.tags = TA ++ new.tags ++ TB := by
  intro p
  induction p with
  | nil =>
    intro t old new t' hs hr
    rw [Tree.subAt_nil] at hs
    simp only [Tree.replaceAt, Option.some.injEq] at hs hr
    subst hs; subst hr
    exact ⟨[], [], [], [], by simp, by simp, by simp, by simp⟩
  | cons k p ih =>
    intro t old new t' hs hr
    rw [Tree.subAt_cons] at hs
    simp only [Tree.replaceAt] at hr
    cases hc : t.children with
    | none => simp [hc] at hs
    | some cs =>
      simp only [hc, Option.bind_some] at hs hr
      cases hk : cs[k]? with
      | none => simp [hk] at hs
      | some c =>
        simp only [hk, Option.bind_some] at hs hr
        cases hr' : c.replaceAt p new with
        | none => simp [hr'] at hr
        | some c' =>
          simp only [hr', Option.some.injEq] at hr
          subst hr
          obtain ⟨A, B, TA, TB, h1, h2, h3, h4⟩ := ih hs hr'
          obtain ⟨hl, hl'⟩ := Tree.leaves_of_children hc
          obtain ⟨g, hg, hg'⟩ := Tree.tags_of_children hc
          obtain ⟨hsplit, hset⟩ := getElem?_split hk
          refine ⟨t.hdr ++ (cs.take k).flatMap Tree.leaves ++ A, B ++ (cs.drop (k + 1)).flatMap Tree.leaves,
            g :: (cs.take k).flatMap Tree.tags ++ TA, TB ++ (cs.drop (k + 1)).flatMap Tree.tags, ?_, ?_, ?_, ?_⟩
          · rw [hl]; conv => lhs; rw [hsplit]
            simp [h1]
          · rw [hl', hset c']
            simp [h2]
          · rw [hg]; conv => lhs; rw [hsplit]
            simp [h3]
          · rw [hg', hset c']
            simp [h4]

theorem leaves_replaceAt {p : Path} {t old new t' : Tree} (hs : t.subAt p = some old)
    (hr : t.replaceAt p new = some t') :
    ∃ A B, t.leaves = A ++ old.leaves ++ B ∧ t'.leaves = A ++ new.leaves ++ B := by
  obtain ⟨A, B, _, _, h1, h2, _, _⟩ := replaceAt_decomp p hs hr
  exact ⟨A, B, h1, h2⟩

theorem tags_replaceAt {p : Path} {t old new t' : Tree} (hs : t.subAt p = some old)
    (hr : t.replaceAt p new = some t') :
    ∃ TA TB, t.tags = TA ++ old.tags ++ TB ∧ t'.tags = TA ++ new.tags ++ TB := by
  obtain ⟨_, _, TA, TB, _, _, h3, h4⟩ := replaceAt_decomp p hs hr
  exact ⟨TA, TB, h3, h4⟩

/-- `replaceAt` succeeds exactly on the paths `subAt` resolves. -/
theorem replaceAt_isSome : ∀ (p : Path) {t old : Tree} (new : Tree), t.subAt p = some old →
    ∃ t', t.replaceAt p new = some t' := by
  intro p
  induction p with
  | nil => intro t old new _; exact ⟨new, by simp [Tree.replaceAt]⟩
  | cons k p ih =>
    intro t old new hs
    rw [Tree.subAt_cons] at hs
    cases hc : t.children with
    | none => simp [hc] at hs
    | some cs =>
      simp only [hc, Option.bind_some] at hs
      cases hk : cs[k]? with
      | none => simp [hk] at hs
      | some c =>
        simp only [hk, Option.bind_some] at hs
        obtain ⟨c', hc'⟩ := ih new hs
        exact ⟨t.withChildren (cs.set k c'), by simp [Tree.replaceAt, hc, hk, hc']⟩

/-- Tags after a replacement come from the old tree or from the new sub-tree. -/
theorem tags_replaceAt_all {p : Path} {t old new t' : Tree} {σ : Nat} (hs : t.subAt p = some old)
    (hr : t.replaceAt p new = some t') (ht : ∀ g ∈ t.tags, g = σ) (hn : ∀ g ∈ new.tags, g = σ) :
    ∀ g ∈ t'.tags, g = σ := by
  obtain ⟨TA, TB, h3, h4⟩ := tags_replaceAt hs hr
  intro g hg
  rw [h4] at hg
  simp only [List.mem_append] at hg
  rcases hg with (hg | hg) | hg
  · exact ht g (by rw [h3]; simp [hg])
  · exact hn g hg
  · exact ht g (by rw [h3]; simp [hg])

theorem tags_subAt {p : Path} {t old : Tree} (hs : t.subAt p = some old) : ∀ g ∈ old.tags, g ∈ t.tags := by
  obtain ⟨t', hr⟩ := replaceAt_isSome p old hs
  obtain ⟨TA, TB, h3, _⟩ := tags_replaceAt hs hr
  intro g hg
  rw [h3]; simp [hg]

/-! ### Optional field -/

/-- Setting the optional field `k` of the node at `q`: the slot's leaf segment — between the leaves of the
fields before it and those of the fields after it — is replaced by the value's leaves (none for `None`). -/
theorem leaves_setOptAt {t t' : Tree} {q : Path} {k c g : Nat} {ind : Option (List Char)} {fs : List Tree}
    {slot : Tree} {v : Option Tree} (hs : t.subAt q = some (.node c g ind fs)) (hk : fs[k]? = some slot)
    (h : t.setOptAt q k v = some t') :
    ∃ A B, t.leaves = A ++ ((fs.take k).flatMap Tree.leaves ++ slot.leaves ++
                            (fs.drop (k + 1)).flatMap Tree.leaves) ++ B ∧
           t'.leaves = A ++ ((fs.take k).flatMap Tree.leaves ++ (v.getD .absent).leaves ++
                            (fs.drop (k + 1)).flatMap Tree.leaves) ++ B := by
  have hlt : k < fs.length := (List.getElem?_eq_some_iff.mp hk).1
  simp only [Tree.setOptAt, hs, hlt, if_true] at h
  obtain ⟨A, B, h1, h2⟩ := leaves_replaceAt hs h
  obtain ⟨hsplit, hset⟩ := getElem?_split hk
  refine ⟨A, B, ?_, ?_⟩
  · rw [h1]; simp only [Tree.leaves_node]
    conv => lhs; rw [hsplit]
    simp
  · rw [h2]; simp only [Tree.leaves_node, hset]
    simp

/-- `None → child`: the child's leaves appear between the two halves. -/
theorem leaves_setOptAt_create {t t' : Tree} {q : Path} {k c g : Nat} {ind : Option (List Char)}
    {fs : List Tree} {ch : Tree} (hs : t.subAt q = some (.node c g ind fs)) (hk : fs[k]? = some .absent)
    (h : t.setOptAt q k (some ch) = some t') :
    ∃ A B, t.leaves = A ++ B ∧ t'.leaves = A ++ ch.leaves ++ B := by
  obtain ⟨A, B, h1, h2⟩ := leaves_setOptAt hs hk h
  exact ⟨A ++ (fs.take k).flatMap Tree.leaves, (fs.drop (k + 1)).flatMap Tree.leaves ++ B,
    by rw [h1]; simp, by rw [h2]; simp⟩

/-- `child → None`: exactly the child's leaves disappear. -/
theorem leaves_setOptAt_remove {t t' : Tree} {q : Path} {k c g : Nat} {ind : Option (List Char)}
    {fs : List Tree} {cur : Tree} (hs : t.subAt q = some (.node c g ind fs)) (hk : fs[k]? = some cur)
    (h : t.setOptAt q k none = some t') :
    ∃ A B, t.leaves = A ++ cur.leaves ++ B ∧ t'.leaves = A ++ B := by
  obtain ⟨A, B, h1, h2⟩ := leaves_setOptAt hs hk h
  exact ⟨A ++ (fs.take k).flatMap Tree.leaves, (fs.drop (k + 1)).flatMap Tree.leaves ++ B,
    by rw [h1]; simp, by rw [h2]; simp⟩

theorem tags_setOptAt {t t' : Tree} {q : Path} {k c g σ : Nat} {ind : Option (List Char)} {fs : List Tree}
    {v : Option Tree} (hs : t.subAt q = some (.node c g ind fs))
    (h : t.setOptAt q k v = some t') (ht : ∀ g ∈ t.tags, g = σ) (hv : ∀ g ∈ (v.getD .absent).tags, g = σ) :
    ∀ g ∈ t'.tags, g = σ := by
  by_cases hlt : k < fs.length
  · simp only [Tree.setOptAt, hs, hlt, if_true] at h
    refine tags_replaceAt_all hs h ht ?_
    have hold := tags_subAt hs
    intro g' hg'
    simp only [Tree.tags_node, List.mem_cons, List.mem_flatMap] at hg'
    rcases hg' with rfl | ⟨x, hx, hgx⟩
    · exact ht _ (hold _ (by simp))
    · rcases List.mem_or_eq_of_mem_set hx with hx | rfl
      · exact ht _ (hold _ (by simp only [Tree.tags_node, List.mem_cons, List.mem_flatMap]; exact Or.inr ⟨x, hx, hgx⟩))
      · exact hv _ hgx
  · simp [Tree.setOptAt, hs, hlt] at h

/-! ### Items of a repeated field -/

/-- Inserting an item at `i`: its leaves go right after the leaves of the items before it (after the
placeholder for `i = 0`). -/
theorem leaves_insertItemAt {t t' : Tree} {q : Path} {i g ph : Nat} {is : List Tree} {ch : Tree}
    (hs : t.subAt q = some (.rep g ph is)) (h : t.insertItemAt q i ch = some t') :
    ∃ A B, t.leaves = A ++ (ph :: (is.take i).flatMap Tree.leaves ++ (is.drop i).flatMap Tree.leaves) ++ B ∧
           t'.leaves = A ++ (ph :: (is.take i).flatMap Tree.leaves ++ ch.leaves ++
                             (is.drop i).flatMap Tree.leaves) ++ B := by
  by_cases hle : i ≤ is.length
  · simp only [Tree.insertItemAt, hs, hle, if_true] at h
    obtain ⟨A, B, h1, h2⟩ := leaves_replaceAt hs h
    refine ⟨A, B, ?_, ?_⟩
    · have e : is.flatMap Tree.leaves = (is.take i).flatMap Tree.leaves ++ (is.drop i).flatMap Tree.leaves := by
        rw [← List.flatMap_append, List.take_append_drop]
      rw [h1]; simp only [Tree.leaves_rep]
      rw [e]; simp
    · rw [h2]; simp
  · simp [Tree.insertItemAt, hs, hle] at h

/-- Removing the items `a … b-1`: exactly their leaves disappear. -/
theorem leaves_removeItemsAt {t t' : Tree} {q : Path} {a b g ph : Nat} {is : List Tree}
    (hs : t.subAt q = some (.rep g ph is)) (h : t.removeItemsAt q a b = some t') :
    ∃ A B, t.leaves = A ++ (ph :: (is.take a).flatMap Tree.leaves ++
                            ((is.take b).drop a).flatMap Tree.leaves ++ (is.drop b).flatMap Tree.leaves) ++ B ∧
           t'.leaves = A ++ (ph :: (is.take a).flatMap Tree.leaves ++ (is.drop b).flatMap Tree.leaves) ++ B := by
  by_cases hle : a ≤ b ∧ b ≤ is.length
  · simp only [Tree.removeItemsAt, hs, hle, and_self, if_true] at h
    obtain ⟨A, B, h1, h2⟩ := leaves_replaceAt hs h
    refine ⟨A, B, ?_, ?_⟩
    · rw [h1]; simp only [Tree.leaves_rep]
      have e : is = is.take a ++ (is.take b).drop a ++ is.drop b := by
        conv => lhs; rw [← List.take_append_drop b is, ← List.take_append_drop a (is.take b)]
        rw [List.take_take, Nat.min_eq_left hle.1]
      conv => lhs; rw [e]
      simp
    · rw [h2]; simp
  · simp [Tree.removeItemsAt, hs, hle] at h

theorem tags_repItems {t t' : Tree} {q : Path} {g ph σ : Nat} {is is' : List Tree}
    (hs : t.subAt q = some (.rep g ph is)) (h : t.replaceAt q (.rep g ph is') = some t')
    (ht : ∀ g ∈ t.tags, g = σ) (hv : ∀ x ∈ is', x ∈ is ∨ ∀ g ∈ x.tags, g = σ) :
    ∀ g ∈ t'.tags, g = σ := by
  refine tags_replaceAt_all hs h ht ?_
  have hold := tags_subAt hs
  intro g' hg'
  simp only [Tree.tags_rep, List.mem_cons, List.mem_flatMap] at hg'
  rcases hg' with rfl | ⟨x, hx, hgx⟩
  · exact ht _ (hold _ (by simp))
  · rcases hv x hx with hx | hx
    · exact ht _ (hold _ (by simp only [Tree.tags_rep, List.mem_cons, List.mem_flatMap]; exact Or.inr ⟨x, hx, hgx⟩))
    · exact hx _ hgx

theorem tags_insertItemAt {t t' : Tree} {q : Path} {i g ph σ : Nat} {is : List Tree} {ch : Tree}
    (hs : t.subAt q = some (.rep g ph is)) (h : t.insertItemAt q i ch = some t')
    (ht : ∀ g ∈ t.tags, g = σ) (hv : ∀ g ∈ ch.tags, g = σ) : ∀ g ∈ t'.tags, g = σ := by
  by_cases hle : i ≤ is.length
  · simp only [Tree.insertItemAt, hs, hle, if_true] at h
    refine tags_repItems hs h ht ?_
    intro x hx
    simp only [List.mem_append, List.mem_cons] at hx
    rcases hx with hx | rfl | hx
    · exact Or.inl (List.mem_of_mem_take hx)
    · exact Or.inr hv
    · exact Or.inl (List.mem_of_mem_drop hx)
  · simp [Tree.insertItemAt, hs, hle] at h

theorem tags_removeItemsAt {t t' : Tree} {q : Path} {a b g ph σ : Nat} {is : List Tree}
    (hs : t.subAt q = some (.rep g ph is)) (h : t.removeItemsAt q a b = some t')
    (ht : ∀ g ∈ t.tags, g = σ) : ∀ g ∈ t'.tags, g = σ := by
  by_cases hle : a ≤ b ∧ b ≤ is.length
  · simp only [Tree.removeItemsAt, hs, hle, and_self, if_true] at h
    refine tags_repItems hs h ht ?_
    intro x hx
    simp only [List.mem_append] at hx
    rcases hx with hx | hx
    · exact Or.inl (List.mem_of_mem_take hx)
    · exact Or.inl (List.mem_of_mem_drop hx)
  · simp [Tree.removeItemsAt, hs, hle] at h

end Autobean
