import Autobean.Model.Spacing
/-! Helper lemmas for C17 (core Lean only). -/
set_option linter.unusedSimpArgs false
namespace Autobean.Spacing

/-! ### basic facts -/

theorem mem_takeWhile_sat {α} (p : α → Bool) {l : List α} {a : α} (h : a ∈ l.takeWhile p) : p a = true := by
  induction l with
  | nil => simp at h
  | cons x xs ih =>
    by_cases hx : p x = true
    · simp [List.takeWhile_cons, hx] at h
      rcases h with rfl | h
      · exact hx
      · exact ih h
    · simp [List.takeWhile_cons, hx] at h

theorem dropWhile_head_not {α} (p : α → Bool) {l : List α} {a : α} {tl : List α}
    (h : l.dropWhile p = a :: tl) : p a = false := by
  induction l with
  | nil => simp at h
  | cons x xs ih =>
    by_cases hx : p x = true
    · simp [List.dropWhile_cons, hx] at h; exact ih h
    · simp [List.dropWhile_cons, hx] at h; rw [← h.1]; simpa using hx

theorem textOf_nil : textOf [] = [] := rfl

theorem textOf_cons (t : Tk) (l : List Tk) : textOf (t :: l) = t.text ++ textOf l := by
  simp [textOf]

theorem textOf_append (a b : List Tk) : textOf (a ++ b) = textOf a ++ textOf b := by
  simp [textOf]

theorem textOf_reverse_length (a : List Tk) : (textOf a.reverse).length = (textOf a).length := by
  induction a with
  | nil => rfl
  | cons t l ih => simp [textOf_append, textOf_cons, textOf_nil, ih]; omega

theorem ne_append (a b : List Tk) : ne (a ++ b) = ne a ++ ne b := by simp [ne]

theorem ne_reverse (a : List Tk) : ne a.reverse = (ne a).reverse := by simp [ne]

theorem ne_of_all_empty {l : List Tk} (h : ∀ t ∈ l, t.isEmpty = true) : ne l = [] := by
  simp only [ne, List.filter_eq_nil_iff]
  intro t ht
  simp [Tk.nonEmpty, h t ht]

theorem textOf_of_all_empty {l : List Tk} (h : ∀ t ∈ l, t.isEmpty = true) : textOf l = [] := by
  induction l with
  | nil => rfl
  | cons t l ih =>
    have h1 := h t (by simp)
    have : t.text = [] := by simpa [Tk.isEmpty] using h1
    rw [textOf_cons, this, ih (fun x hx => h x (by simp [hx]))]; rfl

/-- dropping the zero-width tokens does not change the text -/
theorem textOf_ne (l : List Tk) : textOf (ne l) = textOf l := by
  induction l with
  | nil => rfl
  | cons t l ih =>
    by_cases h : t.text = []
    · have : t.nonEmpty = false := by simp [Tk.nonEmpty, Tk.isEmpty, h]
      simp [ne, List.filter_cons, this, textOf_cons, h] at *
      exact ih
    · have : t.nonEmpty = true := by simp [Tk.nonEmpty, Tk.isEmpty, h]
      simp [ne, List.filter_cons, this, textOf_cons] at *
      exact ih

theorem dropWhile_empty_append {z : List Tk} (h : ∀ t ∈ z, t.isEmpty = true) (x : List Tk) :
    (z ++ x).dropWhile Tk.isEmpty = x.dropWhile Tk.isEmpty := by
  induction z with
  | nil => rfl
  | cons t z ih =>
    have := h t (by simp)
    simp [List.dropWhile_cons, this]
    exact ih (fun y hy => h y (by simp [hy]))

theorem takeWhile_empty_append {z : List Tk} (h : ∀ t ∈ z, t.isEmpty = true) (x : List Tk) :
    (z ++ x).takeWhile Tk.isEmpty = z ++ x.takeWhile Tk.isEmpty := by
  induction z with
  | nil => rfl
  | cons t z ih =>
    have := h t (by simp)
    simp [List.takeWhile_cons, this]
    exact ih (fun y hy => h y (by simp [hy]))

theorem takeWhile_blank_append {r : List Tk} (h : ∀ t ∈ r, t.isBlankKind = true) (x : List Tk) :
    (r ++ x).takeWhile Tk.isBlankKind = r ++ x.takeWhile Tk.isBlankKind := by
  induction r with
  | nil => rfl
  | cons t r ih =>
    have := h t (by simp)
    simp [List.takeWhile_cons, this]
    exact ih (fun y hy => h y (by simp [hy]))

theorem dropWhile_blank_append {r : List Tk} (h : ∀ t ∈ r, t.isBlankKind = true) (x : List Tk) :
    (r ++ x).dropWhile Tk.isBlankKind = x.dropWhile Tk.isBlankKind := by
  induction r with
  | nil => rfl
  | cons t r ih =>
    have := h t (by simp)
    simp [List.dropWhile_cons, this]
    exact ih (fun y hy => h y (by simp [hy]))

/-- The scan stops at `rest`: it is exhausted, or its head is not a blank-class token and — unless something
has already been collected — has non-empty text (a zero-width head would be skipped by the first loop). -/
def Stops (r rest : List Tk) : Prop :=
  rest = [] ∨ ∃ h tl, rest = h :: tl ∧ h.isBlankKind = false ∧ (h.isEmpty = false ∨ ne r ≠ [])

theorem ne_takeWhile_blank_empties {z rest : List Tk} (hz : ∀ t ∈ z, t.isEmpty = true)
    (hr : rest = [] ∨ ∃ h tl, rest = h :: tl ∧ h.isBlankKind = false) :
    ne ((z ++ rest).takeWhile Tk.isBlankKind) = [] := by
  induction z with
  | nil =>
    rcases hr with rfl | ⟨h, tl, rfl, hb⟩
    · rfl
    · simp [List.takeWhile_cons, hb, ne]
  | cons t z ih =>
    have ht := hz t (by simp)
    have ih' := ih (fun y hy => hz y (by simp [hy]))
    by_cases hb : t.isBlankKind = true
    · simp only [List.cons_append, List.takeWhile_cons, hb, if_true]
      simp only [ne, List.filter_cons, Tk.nonEmpty, ht]
      simpa [ne, Tk.nonEmpty] using ih'
    · simp [List.takeWhile_cons, hb, ne]

/-- **The layout lemma.**  `Z₁` zero-width tokens, `R` blank-class tokens, `Z₂` zero-width tokens, then a
token that stops the scan: the scan returns exactly the non-empty tokens of `R`. -/
theorem findSpacing_layout {z1 r z2 rest : List Tk}
    (hz1 : ∀ t ∈ z1, t.isEmpty = true) (hr : ∀ t ∈ r, t.isBlankKind = true)
    (hz2 : ∀ t ∈ z2, t.isEmpty = true) (hs : Stops r rest) :
    findSpacing (z1 ++ r ++ z2 ++ rest) = ne r := by
  unfold findSpacing
  rw [List.append_assoc, List.append_assoc, dropWhile_empty_append hz1]
  induction r with
  | nil =>
    simp only [List.nil_append]
    rw [dropWhile_empty_append hz2]
    rcases hs with rfl | ⟨h, tl, rfl, hb, he | he⟩
    · rfl
    · simp [List.dropWhile_cons, he, List.takeWhile_cons, hb, ne]
    · exact absurd rfl he
  | cons t r ih =>
    have hbt := hr t (by simp)
    by_cases he : t.isEmpty = true
    · have hne : ne (t :: r) = ne r := by simp [ne, List.filter_cons, Tk.nonEmpty, he]
      simp only [List.cons_append, List.dropWhile_cons, he, if_true, hne]
      apply ih (fun y hy => hr y (by simp [hy]))
      rcases hs with h | ⟨h, tl, h1, h2, h3⟩
      · exact Or.inl h
      · exact Or.inr ⟨h, tl, h1, h2, by rw [hne] at h3; exact h3⟩
    · have he' : t.isEmpty = false := by simpa using he
      simp only [List.cons_append, List.dropWhile_cons, he', Bool.false_eq_true, if_false]
      have : (t :: (r ++ (z2 ++ rest))) = (t :: r) ++ (z2 ++ rest) := rfl
      rw [this, takeWhile_blank_append hr, ne_append]
      have hstop : rest = [] ∨ ∃ h tl, rest = h :: tl ∧ h.isBlankKind = false := by
        rcases hs with h | ⟨h, tl, h1, h2, _⟩
        · exact Or.inl h
        · exact Or.inr ⟨h, tl, h1, h2⟩
      rw [ne_takeWhile_blank_empties hz2 hstop]; simp

/-- Every list has that layout (with `Z₂ = []`): the decomposition `_find_spacing` computes. -/
theorem layout_exists (l : List Tk) :
    ∃ z r rest, l = z ++ r ++ rest ∧ (∀ t ∈ z, t.isEmpty = true) ∧ (∀ t ∈ r, t.isBlankKind = true) ∧
      Stops r rest ∧ (∀ h, r.head? = some h → h.isEmpty = false) := by
  refine ⟨l.takeWhile Tk.isEmpty, (l.dropWhile Tk.isEmpty).takeWhile Tk.isBlankKind,
    (l.dropWhile Tk.isEmpty).dropWhile Tk.isBlankKind, ?_, ?_, ?_, ?_, ?_⟩
  · rw [List.append_assoc, List.takeWhile_append_dropWhile, List.takeWhile_append_dropWhile]
  · intro t ht; exact mem_takeWhile_sat _ ht
  · intro t ht; exact mem_takeWhile_sat _ ht
  · generalize hd : l.dropWhile Tk.isEmpty = d
    cases hd2 : d.dropWhile Tk.isBlankKind with
    | nil => exact Or.inl rfl
    | cons h tl =>
      refine Or.inr ⟨h, tl, rfl, dropWhile_head_not _ hd2, ?_⟩
      cases d with
      | nil => simp at hd2
      | cons x xs =>
        have hx : x.isEmpty = false := dropWhile_head_not _ hd
        by_cases hb : x.isBlankKind = true
        · right
          simp [List.takeWhile_cons, hb, ne, List.filter_cons, Tk.nonEmpty, hx]
        · left
          simp [List.dropWhile_cons, hb] at hd2
          rw [← hd2.1]; exact hx
  · intro h hh
    generalize hd : l.dropWhile Tk.isEmpty = d at hh
    cases d with
    | nil => simp at hh
    | cons x xs =>
      have hx : x.isEmpty = false := dropWhile_head_not _ hd
      by_cases hb : x.isBlankKind = true
      · simp [List.takeWhile_cons, hb] at hh; rw [← hh]; exact hx
      · simp [List.takeWhile_cons, hb] at hh

/-! ### the setter -/

theorem all_empty_of_ne_nil {l : List Tk} (h : ne l = []) : ∀ t ∈ l, t.isEmpty = true := by
  intro t ht
  simp only [ne, List.filter_eq_nil_iff] at h
  have := h t ht
  simpa [Tk.nonEmpty] using this

/-- What `scanSet` does, in one shape for both branches: `l = A ++ old ++ Z₂ ++ rest`, the result is
`A ++ new ++ Z₂ ++ rest`; `A`, `Z₂` are zero-width tokens, `old` blank-class tokens whose non-empty members are
exactly what the getter returns, and `rest` is exhausted or starts with a non-blank-class token. -/
theorem scanSet_shape (l new : List Tk) :
    ∃ A old Z2 rest, l = A ++ old ++ Z2 ++ rest ∧ scanSet l new = A ++ new ++ Z2 ++ rest ∧
      (∀ t ∈ A, t.isEmpty = true) ∧ (∀ t ∈ old, t.isBlankKind = true) ∧ (∀ t ∈ Z2, t.isEmpty = true) ∧
      (rest = [] ∨ ∃ h tl, rest = h :: tl ∧ h.isBlankKind = false) ∧ ne old = findSpacing l := by
  have hz : ∀ t ∈ l.takeWhile Tk.isEmpty, t.isEmpty = true := fun t ht => mem_takeWhile_sat _ ht
  have hr : ∀ t ∈ (l.dropWhile Tk.isEmpty).takeWhile Tk.isBlankKind, t.isBlankKind = true :=
    fun t ht => mem_takeWhile_sat _ ht
  have hrest : (l.dropWhile Tk.isEmpty).dropWhile Tk.isBlankKind = [] ∨
      ∃ h tl, (l.dropWhile Tk.isEmpty).dropWhile Tk.isBlankKind = h :: tl ∧ h.isBlankKind = false := by
    cases hd : (l.dropWhile Tk.isEmpty).dropWhile Tk.isBlankKind with
    | nil => exact Or.inl rfl
    | cons h tl => exact Or.inr ⟨h, tl, rfl, dropWhile_head_not _ hd⟩
  have hl : l = l.takeWhile Tk.isEmpty ++ (l.dropWhile Tk.isEmpty).takeWhile Tk.isBlankKind ++
      (l.dropWhile Tk.isEmpty).dropWhile Tk.isBlankKind := by
    rw [List.append_assoc, List.takeWhile_append_dropWhile, List.takeWhile_append_dropWhile]
  by_cases hne : ne ((l.dropWhile Tk.isEmpty).takeWhile Tk.isBlankKind) = []
  · refine ⟨[], [], l.takeWhile Tk.isEmpty ++ (l.dropWhile Tk.isEmpty).takeWhile Tk.isBlankKind,
      (l.dropWhile Tk.isEmpty).dropWhile Tk.isBlankKind, ?_, ?_, ?_, ?_, ?_, hrest, ?_⟩
    · simp
    · simp only [scanSet, hne, List.isEmpty_nil, if_true, List.nil_append]
      rw [List.append_assoc new, ← hl]
    · simp
    · simp
    · intro t ht
      rcases List.mem_append.1 ht with h | h
      · exact hz t h
      · exact all_empty_of_ne_nil hne t h
    · rw [findSpacing, hne]; rfl
  · generalize hR : (l.dropWhile Tk.isEmpty).takeWhile Tk.isBlankKind = r at hne hr hl
    have hsplit : r = (r.reverse.dropWhile Tk.isEmpty).reverse ++ (r.reverse.takeWhile Tk.isEmpty).reverse := by
      rw [← List.reverse_append, List.takeWhile_append_dropWhile, List.reverse_reverse]
    have he : ∀ t ∈ (r.reverse.takeWhile Tk.isEmpty).reverse, t.isEmpty = true := by
      intro t ht; exact mem_takeWhile_sat _ (List.mem_reverse.1 ht)
    refine ⟨l.takeWhile Tk.isEmpty, (r.reverse.dropWhile Tk.isEmpty).reverse,
      (r.reverse.takeWhile Tk.isEmpty).reverse, (l.dropWhile Tk.isEmpty).dropWhile Tk.isBlankKind,
      ?_, ?_, hz, ?_, he, hrest, ?_⟩
    · rw [List.append_assoc (l.takeWhile Tk.isEmpty), ← hsplit]; exact hl
    · have : (ne r).isEmpty = false := by
        cases h : ne r with
        | nil => exact absurd h hne
        | cons _ _ => rfl
      simp only [scanSet, hR, this, Bool.false_eq_true, if_false]
    · intro t ht
      apply hr
      rw [hsplit]; exact List.mem_append_left _ ht
    · simp only [findSpacing, hR]
      conv => rhs; rw [hsplit, ne_append, ne_of_all_empty he, List.append_nil]

/-- Reading after writing (scan direction): a non-empty replacement made of non-empty blank-class tokens is
what the getter returns afterwards — no layout hypothesis is needed. -/
theorem findSpacing_scanSet (l new : List Tk) (hne : new ≠ [])
    (hnew : ∀ t ∈ new, t.isBlankKind = true ∧ t.isEmpty = false) :
    findSpacing (scanSet l new) = new := by
  obtain ⟨A, old, Z2, rest, _, hs, hA, _, hZ2, hrest, _⟩ := scanSet_shape l new
  have hnn : ne new = new := by
    simp only [ne, List.filter_eq_self]
    intro t ht; simp [Tk.nonEmpty, (hnew t ht).2]
  rw [hs, findSpacing_layout hA (fun t ht => (hnew t ht).1) hZ2, hnn]
  rcases hrest with h | ⟨h, tl, h1, h2⟩
  · exact Or.inl h
  · exact Or.inr ⟨h, tl, h1, h2, Or.inr (by rw [hnn]; exact hne)⟩

/-! ### locating the model -/

theorem splitAtId_append {pre : List Tk} {t : Tk} {post : List Tk} (h : ∀ x ∈ pre, x.id ≠ t.id) :
    splitAtId (pre ++ t :: post) t.id = some (pre, t, post) := by
  induction pre with
  | nil => simp [splitAtId]
  | cons x xs ih =>
    have hx := h x (by simp)
    simp [splitAtId, hx, ih (fun y hy => h y (by simp [hy]))]

theorem splitAtId_some {store : List Tk} {i : Nat} {pre : List Tk} {t : Tk} {post : List Tk}
    (h : splitAtId store i = some (pre, t, post)) :
    store = pre ++ t :: post ∧ t.id = i ∧ ∀ x ∈ pre, x.id ≠ i := by
  induction store generalizing pre with
  | nil => simp [splitAtId] at h
  | cons x xs ih =>
    by_cases hx : x.id = i
    · simp [splitAtId, hx] at h
      obtain ⟨rfl, rfl, rfl⟩ := h
      simp [hx]
    · simp only [splitAtId, hx, if_false] at h
      cases hs : splitAtId xs i with
      | none => simp [hs] at h
      | some v =>
        obtain ⟨p, y, q⟩ := v
        simp [hs] at h
        obtain ⟨rfl, rfl, rfl⟩ := h
        obtain ⟨h1, h2, h3⟩ := ih hs
        refine ⟨by simp [h1], h2, ?_⟩
        intro z hz
        rcases List.mem_cons.1 hz with rfl | hz
        · exact hx
        · exact h3 z hz

theorem splitAtId_isSome {store : List Tk} {i : Nat} (h : ∃ t ∈ store, t.id = i) :
    ∃ v, splitAtId store i = some v := by
  induction store with
  | nil => obtain ⟨t, ht, _⟩ := h; simp at ht
  | cons x xs ih =>
    by_cases hx : x.id = i
    · exact ⟨([], x, xs), by simp [splitAtId, hx]⟩
    · obtain ⟨t, ht, hti⟩ := h
      rcases List.mem_cons.1 ht with rfl | ht
      · exact absurd hti hx
      · obtain ⟨⟨p, y, q⟩, hv⟩ := ih ⟨t, ht, hti⟩
        exact ⟨(x :: p, y, q), by simp [splitAtId, hx, hv]⟩

/-! ### `_text_to_tokens` -/

def piecesText (ps : List (Kind × Str)) : Str := (ps.map (·.2)).flatten

theorem piecesText_append (a b : List (Kind × Str)) : piecesText (a ++ b) = piecesText a ++ piecesText b := by
  simp [piecesText]

theorem textOf_mkTokens (n : Nat) (ps : List (Kind × Str)) : textOf (mkTokens n ps) = piecesText ps := by
  induction ps generalizing n with
  | nil => rfl
  | cons p ps ih =>
    obtain ⟨k, t⟩ := p
    simp [mkTokens, textOf_cons, ih, piecesText]

def modePrefix : Mode → Str
  | .clean => []
  | .ws acc => acc.reverse
  | .cr acc => acc.reverse

/-- What the scanner may assume about the rest of the text in each mode. -/
def ModeOk : Mode → Str → Prop
  | .clean, s => spacingLang s = true
  | .ws _, s => spacingLang s = true
  | .cr _, s => spacingLang s = true ∧ ∃ d tl, s = d :: tl ∧ (d = '\r' ∨ d = '\n')

theorem spacingLang_cons {c : Char} {cs : Str} (h : spacingLang (c :: cs) = true) :
    spacingLang cs = true ∧
      (isWsChar c = true ∨ c = '\n' ∨ (c = '\r' ∧ ∃ d tl, cs = d :: tl ∧ (d = '\r' ∨ d = '\n'))) := by
  simp only [spacingLang, Bool.and_eq_true, Bool.or_eq_true, decide_eq_true_eq] at h
  refine ⟨h.2, ?_⟩
  rcases h.1 with (h1 | h1) | ⟨h1, h2⟩
  · exact Or.inl h1
  · exact Or.inr (Or.inl h1)
  · refine Or.inr (Or.inr ⟨h1, ?_⟩)
    cases cs with
    | nil => simp at h2
    | cons d tl => exact ⟨d, tl, rfl, by simpa using h2⟩

theorem startPiece_ws {c : Char} (h : isWsChar c = true) : startPiece c = (.ws [c], []) := by
  simp [startPiece, h]

theorem startPiece_cr : startPiece '\r' = (.cr ['\r'], []) := by
  simp [startPiece, isWsChar]

theorem startPiece_nl : startPiece '\n' = (.clean, [(.newline, ['\n'])]) := by
  simp [startPiece, isWsChar]

theorem startPiece_other {c : Char} (hw : ¬ isWsChar c = true) (hr : ¬ c = '\r') (hn : ¬ c = '\n') :
    startPiece c = (.clean, []) := by
  simp [startPiece, hw, hr, hn]

theorem scanPieces_text (s : Str) : ∀ m, ModeOk m s → piecesText (scanPieces m s) = modePrefix m ++ s := by
  induction s with
  | nil =>
    intro m hm
    cases m with
    | clean => rfl
    | ws acc => simp [scanPieces, piecesText, modePrefix]
    | cr acc => obtain ⟨_, d, tl, h, _⟩ := hm; simp at h
  | cons c cs ih =>
    have step : spacingLang (c :: cs) = true →
        piecesText ((startPiece c).2 ++ scanPieces (startPiece c).1 cs) = c :: cs := by
      intro hl
      obtain ⟨hcs, hc⟩ := spacingLang_cons hl
      rcases hc with hw | hn | ⟨hr, hnext⟩
      · rw [startPiece_ws hw]
        simp only [List.nil_append]
        rw [ih (.ws [c]) hcs]; simp [modePrefix]
      · subst hn
        rw [startPiece_nl]
        simp only []
        rw [piecesText_append, ih .clean hcs]; simp [piecesText, modePrefix]
      · subst hr
        rw [startPiece_cr]
        simp only [List.nil_append]
        rw [ih (.cr ['\r']) ⟨hcs, hnext⟩]; simp [modePrefix]
    intro m hm
    cases m with
    | clean => simpa [scanPieces, modePrefix] using step hm
    | ws acc =>
      by_cases hw : isWsChar c = true
      · simp only [scanPieces, hw, if_true]
        rw [ih (.ws (c :: acc)) (spacingLang_cons hm).1]; simp [modePrefix]
      · simp only [scanPieces, hw, Bool.false_eq_true, if_false]
        have := step hm
        simp only [piecesText, List.map_cons, List.flatten_cons, modePrefix] at this ⊢
        rw [this]
    | cr acc =>
      obtain ⟨hl, d, tl, hd, hdc⟩ := hm
      have hdc' : c = '\r' ∨ c = '\n' := by
        have : d = c := by injection hd with h1 _; exact h1.symm
        rw [← this]; exact hdc
      rcases hdc' with hr | hn
      · obtain ⟨hcs, hc⟩ := spacingLang_cons hl
        have hnext : ∃ d tl, cs = d :: tl ∧ (d = '\r' ∨ d = '\n') := by
          rcases hc with hw | hn | ⟨_, h⟩
          · subst hr; exact absurd hw (by decide)
          · subst hr; exact absurd hn (by decide)
          · exact h
        simp only [scanPieces, hr, if_true]
        rw [ih (.cr ('\r' :: acc)) ⟨hcs, hnext⟩]; simp [modePrefix]
      · have hr : ¬ c = '\r' := by subst hn; decide
        simp only [scanPieces, hr, hn, if_false, if_true]
        have := ih .clean (spacingLang_cons hl).1
        simp only [piecesText, modePrefix, List.nil_append] at this
        simp [piecesText, modePrefix, this]

/-- Every piece is a non-empty `WHITESPACE` or `_NEWLINE` lexeme, for any input text. -/
theorem scanPieces_pieces (s : Str) : ∀ m, (∀ acc, m = .ws acc → acc ≠ []) →
    ∀ p ∈ scanPieces m s, p.1 ≠ Kind.other ∧ p.2 ≠ [] := by
  induction s with
  | nil =>
    intro m hm p hp
    cases m with
    | clean => simp [scanPieces] at hp
    | ws acc =>
      simp [scanPieces] at hp; subst hp
      exact ⟨by simp, by simpa using hm acc rfl⟩
    | cr acc => simp [scanPieces] at hp
  | cons c cs ih =>
    have step : ∀ p ∈ (startPiece c).2 ++ scanPieces (startPiece c).1 cs, p.1 ≠ Kind.other ∧ p.2 ≠ [] := by
      intro p hp
      by_cases hw : isWsChar c = true
      · rw [startPiece_ws hw] at hp
        simp only [List.nil_append] at hp
        exact ih (.ws [c]) (by intro acc h; injection h with h; subst h; simp) p hp
      · by_cases hr : c = '\r'
        · subst hr
          rw [startPiece_cr] at hp
          simp only [List.nil_append] at hp
          exact ih (.cr ['\r']) (by intro acc h; cases h) p hp
        · by_cases hn : c = '\n'
          · subst hn
            rw [startPiece_nl] at hp
            rcases List.mem_append.1 hp with h | h
            · simp at h; subst h; simp
            · exact ih .clean (by intro acc h; cases h) p h
          · rw [startPiece_other hw hr hn] at hp
            simp only [List.nil_append] at hp
            exact ih .clean (by intro acc h; cases h) p hp
    intro m hm p hp
    cases m with
    | clean => exact step p (by simpa [scanPieces] using hp)
    | ws acc =>
      by_cases hw : isWsChar c = true
      · simp only [scanPieces, hw, if_true] at hp
        exact ih (.ws (c :: acc)) (by intro a h; injection h with h; subst h; simp) p hp
      · simp only [scanPieces, hw, Bool.false_eq_true, if_false] at hp
        rcases List.mem_cons.1 hp with h | h
        · subst h; exact ⟨by simp, by simpa using hm acc rfl⟩
        · exact step p h
    | cr acc =>
      by_cases hr : c = '\r'
      · simp only [scanPieces, hr, if_true] at hp
        exact ih (.cr ('\r' :: acc)) (by intro a h; cases h) p hp
      · by_cases hn : c = '\n'
        · simp only [scanPieces, hr, hn, if_false, if_true] at hp
          rcases List.mem_cons.1 hp with h | h
          · subst h; simp
          · exact ih .clean (by intro a h; cases h) p h
        · simp only [scanPieces, hr, hn, if_false] at hp
          exact step p hp

theorem mkTokens_mem {n : Nat} {ps : List (Kind × Str)} {t : Tk} (h : t ∈ mkTokens n ps) :
    (t.kind, t.text) ∈ ps ∧ n ≤ t.id := by
  induction ps generalizing n with
  | nil => simp [mkTokens] at h
  | cons p ps ih =>
    obtain ⟨k, s⟩ := p
    simp only [mkTokens, List.mem_cons] at h
    rcases h with rfl | h
    · simp
    · obtain ⟨h1, h2⟩ := ih h
      exact ⟨List.mem_cons_of_mem _ h1, by omega⟩

theorem textToTokens_tokens (n : Nat) (s : Str) :
    ∀ t ∈ textToTokens n s, t.isBlankKind = true ∧ t.isEmpty = false ∧ n ≤ t.id := by
  intro t ht
  obtain ⟨h1, h2⟩ := mkTokens_mem ht
  obtain ⟨hk, htx⟩ := scanPieces_pieces s .clean (by intro acc h; cases h) _ h1
  refine ⟨?_, ?_, h2⟩
  · have hk' : t.kind ≠ Kind.other := hk
    unfold Tk.isBlankKind
    cases hkk : t.kind with
    | other => exact absurd hkk hk'
    | newline => rfl
    | whitespace => rfl
  · simpa [Tk.isEmpty] using htx

/-! ### when do the two sides agree?  (the converse of the layout lemma) -/

theorem takeWhile_blank_stop {l post : List Tk} {b : Tk} (hb : b.isBlankKind = false) :
    (l ++ b :: post).takeWhile Tk.isBlankKind = l.takeWhile Tk.isBlankKind := by
  induction l with
  | nil => simp [List.takeWhile_cons, hb]
  | cons t l ih =>
    by_cases ht : t.isBlankKind = true
    · simp [List.takeWhile_cons, ht, ih]
    · simp [List.takeWhile_cons, ht]

/-- A solid token (non-empty, not of blank class) ends the scan exactly as the end of the list does. -/
theorem findSpacing_solid_stop (g post : List Tk) {b : Tk} (hb : b.isBlankKind = false) (he : b.isEmpty = false) :
    findSpacing (g ++ b :: post) = findSpacing g := by
  induction g with
  | nil => simp [findSpacing, List.dropWhile_cons, he, List.takeWhile_cons, hb, ne]
  | cons t g ih =>
    by_cases ht : t.isEmpty = true
    · simpa [findSpacing, List.dropWhile_cons, ht] using ih
    · have ht' : t.isEmpty = false := by simpa using ht
      simp only [findSpacing, List.cons_append, List.dropWhile_cons, ht', Bool.false_eq_true, if_false]
      have : t :: (g ++ b :: post) = (t :: g) ++ b :: post := rfl
      rw [this, takeWhile_blank_stop hb]

theorem ne_takeWhile_blank_append_empties {core z : List Tk} (hz : ∀ t ∈ z, t.isEmpty = true) :
    ne ((core ++ z).takeWhile Tk.isBlankKind) = ne (core.takeWhile Tk.isBlankKind) := by
  induction core with
  | nil =>
    simp only [List.nil_append, List.takeWhile_nil]
    apply ne_of_all_empty
    intro t ht
    exact hz t ((List.takeWhile_prefix _).subset ht)
  | cons t core ih =>
    by_cases ht : t.isBlankKind = true
    · simp only [List.cons_append, List.takeWhile_cons, ht, if_true]
      simp only [ne, List.filter_cons] at ih ⊢
      rw [ih]
    · simp [List.takeWhile_cons, ht]

/-- `findSpacing` of `Z₁ ++ core ++ Z₂` where `core` is empty or starts with a non-empty token. -/
theorem findSpacing_core {z1 core z2 : List Tk} (hz1 : ∀ t ∈ z1, t.isEmpty = true) (hz2 : ∀ t ∈ z2, t.isEmpty = true)
    (hh : ∀ h, core.head? = some h → h.isEmpty = false) :
    findSpacing (z1 ++ core ++ z2) = ne (core.takeWhile Tk.isBlankKind) := by
  rw [findSpacing, List.append_assoc, dropWhile_empty_append hz1]
  cases core with
  | nil =>
    have : ([] ++ z2).dropWhile Tk.isEmpty = [] := by
      have := dropWhile_empty_append hz2 []
      simpa using this
    rw [this]
  | cons h core =>
    have := hh h rfl
    simp only [List.cons_append, List.dropWhile_cons, this, Bool.false_eq_true, if_false]
    exact ne_takeWhile_blank_append_empties (core := h :: core) hz2

theorem mem_takeWhile_snoc {α} (p : α → Bool) {l : List α} {x : α} (hx : x ∈ (l ++ [x]).takeWhile p) (hn : x ∉ l) :
    ∀ y ∈ l, p y = true := by
  induction l with
  | nil => simp
  | cons y l ih =>
    by_cases hy : p y = true
    · simp only [List.cons_append, List.takeWhile_cons, hy, if_true, List.mem_cons] at hx
      have hxy : x ≠ y := by intro h; exact hn (by simp [h])
      rcases hx with h | h
      · exact absurd h hxy
      · intro z hz
        rcases List.mem_cons.1 hz with rfl | hz
        · exact hy
        · exact ih h (by intro h'; exact hn (by simp [h'])) z hz
    · simp [List.takeWhile_cons, hy] at hx

/-- If both scans of `core` (from the left and from the right) collect the same tokens and `core` is not entirely of
blank class, then `core` does not start with a blank-class token. -/
theorem agree_head_not_blank {h : Tk} {rest : List Tk} (hne : h.isEmpty = false)
    (hid : ∀ t ∈ rest, t.id ≠ h.id)
    (heq : ne ((h :: rest).takeWhile Tk.isBlankKind) = (ne ((h :: rest).reverse.takeWhile Tk.isBlankKind)).reverse)
    (hnot : ¬ ∀ t ∈ h :: rest, t.isBlankKind = true) : h.isBlankKind = false := by
  by_cases hb : h.isBlankKind = true
  · exfalso
    have h1 : h ∈ ne ((h :: rest).takeWhile Tk.isBlankKind) := by
      simp [List.takeWhile_cons, hb, ne, List.filter_cons, Tk.nonEmpty, hne]
    rw [heq] at h1
    have h2 : h ∈ (rest.reverse ++ [h]).takeWhile Tk.isBlankKind := by
      have := List.mem_reverse.1 h1
      simp only [ne, List.mem_filter] at this
      simpa using this.1
    have hnotin : h ∉ rest.reverse := by
      intro hm; exact hid h (List.mem_reverse.1 hm) rfl
    have hall := mem_takeWhile_snoc Tk.isBlankKind h2 hnotin
    apply hnot
    intro t ht
    rcases List.mem_cons.1 ht with rfl | ht
    · exact hb
    · exact hall t (List.mem_reverse.2 ht)
  · simpa using hb

/-- Distinct ids. -/
def DistinctIds (l : List Tk) : Prop := l.Pairwise (fun x y => x.id ≠ y.id)

theorem DistinctIds.reverse {l : List Tk} (h : DistinctIds l) : DistinctIds l.reverse := by
  unfold DistinctIds at *
  rw [List.pairwise_reverse]
  exact h.imp (fun h => fun e => h e.symm)

/-- **Exactness.**  For a `core` that is empty or starts and ends with a non-empty token and has distinct ids: the
left scan and the right scan collect the same tokens iff `core` consists of blank-class tokens only, or starts
and ends with a token that is not of blank class (then both collect nothing). -/
theorem scans_agree_iff {core : List Tk}
    (hh : ∀ h, core.head? = some h → h.isEmpty = false) (hl : ∀ l, core.getLast? = some l → l.isEmpty = false)
    (hnd : DistinctIds core) :
    ne (core.takeWhile Tk.isBlankKind) = (ne (core.reverse.takeWhile Tk.isBlankKind)).reverse ↔
      ((∀ t ∈ core, t.isBlankKind = true) ∨
        ∃ h l, core.head? = some h ∧ core.getLast? = some l ∧ h.isBlankKind = false ∧ l.isBlankKind = false) := by
  constructor
  · intro heq
    by_cases hall : ∀ t ∈ core, t.isBlankKind = true
    · exact Or.inl hall
    · right
      cases hc : core with
      | nil => subst hc; exact absurd (by simp) hall
      | cons h rest =>
        have hnd' : ∀ t ∈ rest, t.id ≠ h.id := by
          have := hnd; rw [hc, DistinctIds, List.pairwise_cons] at this
          intro t ht e; exact this.1 t ht e.symm
        have h1 : h.isBlankKind = false :=
          agree_head_not_blank (hh h (by rw [hc]; rfl)) hnd' (by rw [← hc]; exact heq) (by rw [← hc]; exact hall)
        -- the mirror image
        cases hr : core.reverse with
        | nil => rw [List.reverse_eq_nil_iff] at hr; rw [hr] at hc; cases hc
        | cons l rrest =>
          have hlast : core.getLast? = some l := by rw [← List.head?_reverse, hr]; rfl
          have hndr : ∀ t ∈ rrest, t.id ≠ l.id := by
            have := hnd.reverse; rw [hr, DistinctIds, List.pairwise_cons] at this
            intro t ht e; exact this.1 t ht e.symm
          have heq' : ne ((l :: rrest).takeWhile Tk.isBlankKind) =
              (ne ((l :: rrest).reverse.takeWhile Tk.isBlankKind)).reverse := by
            rw [← hr, List.reverse_reverse, heq, List.reverse_reverse]
          have hall' : ¬ ∀ t ∈ l :: rrest, t.isBlankKind = true := by
            rw [← hr]; intro h'; exact hall (fun t ht => h' t (List.mem_reverse.2 ht))
          have h2 : l.isBlankKind = false := agree_head_not_blank (hl l hlast) hndr heq' hall'
          exact ⟨h, l, rfl, by rw [← hc]; exact hlast, h1, h2⟩
  · rintro (hall | ⟨h, l, hh', hl', hb, hlb⟩)
    · have e1 := takeWhile_blank_append hall []
      have e2 := takeWhile_blank_append (r := core.reverse) (fun t ht => hall t (List.mem_reverse.1 ht)) []
      simp only [List.append_nil, List.takeWhile_nil] at e1 e2
      rw [e1, e2, ne_reverse, List.reverse_reverse]
    · cases hc : core with
      | nil => rfl
      | cons x rest =>
        rw [hc] at hh'
        have hx : x = h := by simpa using hh'
        subst hx
        cases hr : (x :: rest).reverse with
        | nil => simp at hr
        | cons y rrest =>
          have : core.getLast? = some y := by rw [← List.head?_reverse, hc, hr]; rfl
          have hy : y = l := by rw [this] at hl'; simpa using hl'
          subst hy
          simp [List.takeWhile_cons, hb, hlb, ne]

/-! ### the regular language `([ \t]+|\r*\n)*` -/

/-- `([ \t]+|\r*\n)*`, literally: a sequence of blanks/tabs and of `\r…\r\n` groups. -/
inductive SpLang : Str → Prop
  | nil : SpLang []
  | ws (c : Char) (s : Str) : isWsChar c = true → SpLang s → SpLang (c :: s)
  | nl (k : Nat) (s : Str) : SpLang s → SpLang (List.replicate k '\r' ++ '\n' :: s)

theorem spacingLang_of_SpLang {s : Str} (h : SpLang s) : spacingLang s = true := by
  induction h with
  | nil => rfl
  | ws c s hc _ ih => simp [spacingLang, hc, ih]
  | nl k s _ ih =>
    induction k with
    | zero => simp [spacingLang, ih]
    | succ k ihk =>
      rw [List.replicate_succ, List.cons_append]
      cases k with
      | zero => simp [spacingLang, ih] at ihk ⊢
      | succ k => simp only [List.replicate_succ, List.cons_append] at ihk ⊢; simp [spacingLang] at ihk ⊢; exact ihk

theorem SpLang.cr {s : Str} (h : SpLang s) : ∀ d tl, s = d :: tl → (d = '\r' ∨ d = '\n') → SpLang ('\r' :: s) := by
  induction h with
  | nil => intro d tl h; cases h
  | ws c s hc _ _ =>
    intro d tl h hd
    injection h with h1 _
    subst h1
    rcases hd with rfl | rfl <;> exact absurd hc (by decide)
  | nl k s hs _ =>
    intro _ _ _ _
    have := SpLang.nl (k + 1) s hs
    rwa [List.replicate_succ, List.cons_append] at this

theorem SpLang_of_spacingLang {s : Str} (h : spacingLang s = true) : SpLang s := by
  induction s with
  | nil => exact .nil
  | cons c cs ih =>
    obtain ⟨hcs, hc⟩ := spacingLang_cons h
    rcases hc with hw | hn | ⟨hr, d, tl, hd, hdc⟩
    · exact .ws c cs hw (ih hcs)
    · subst hn; exact .nl 0 cs (ih hcs)
    · subst hr; exact (ih hcs).cr d tl hd hdc

end Autobean.Spacing
