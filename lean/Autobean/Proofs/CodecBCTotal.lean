import Autobean.Proofs.CodecBCLex
/-! Lemmas for C12: every BLOCK_COMMENT lexeme is accepted by `BlockComment._parse_value`. -/
set_option linter.unusedSimpArgs false
namespace Autobean.Codec

/-- every `_splitlines` piece contains a `;` -/
def AllSemi (x : Text) : Prop := ∀ l ∈ splitLines x, ';' ∈ l

theorem splitSemi_isSome (l : Text) (h : ';' ∈ l) : ∃ p, splitSemi l = some p := by
  induction l with
  | nil => simp at h
  | cons c l ih =>
    by_cases hc : c = ';'
    · exact ⟨([], l), by simp [splitSemi, hc]⟩
    · have : ';' ∈ l := by
        simp only [List.mem_cons] at h
        rcases h with h | h
        · exact absurd h.symm hc
        · exact h
      obtain ⟨p, hp⟩ := ih this
      exact ⟨(c :: p.1, p.2), by simp [splitSemi, hc, hp]⟩

theorem mapM_splitSemi_isSome (ls : List Text) (h : ∀ l ∈ ls, ';' ∈ l) : ∃ ps, ls.mapM splitSemi = some ps := by
  induction ls with
  | nil => exact ⟨[], rfl⟩
  | cons l ls ih =>
    obtain ⟨p, hp⟩ := splitSemi_isSome l (h l (by simp))
    obtain ⟨ps, hps⟩ := ih (fun x hx => h x (by simp [hx]))
    exact ⟨p :: ps, by simp [List.mapM_cons, hp, hps]⟩

theorem parseBC_of_allSemi (x : Text) (h : AllSemi x) : ∃ iv, parseBC x = .ok iv := by
  obtain ⟨ps, hps⟩ := mapM_splitSemi_isSome _ h
  unfold parseBC
  rw [hps]
  exact ⟨_, rfl⟩

/-- shape of what `(_NEWLINE line)*` consumed -/
def MoreShape (x : Text) : Prop :=
  x = [] ∨ ∃ crs y, x = crs ++ '\n' :: y ∧ '\n' ∉ crs ∧ AllSemi y

theorem allSemi_line_more (l x : Text) (hn : '\n' ∉ l) (hs : ';' ∈ l) (hx : MoreShape x) : AllSemi (l ++ x) := by
  rcases hx with rfl | ⟨crs, y, rfl, hc, hy⟩
  · intro l' hl'
    rw [List.append_nil, splitLines_noNL l hn] at hl'
    simp only [List.mem_singleton] at hl'
    subst hl'; exact hs
  · intro l' hl'
    have e : l ++ (crs ++ '\n' :: y) = (l ++ crs) ++ '\n' :: y := by simp
    have hn' : '\n' ∉ l ++ crs := by
      intro h; simp only [List.mem_append] at h; rcases h with h | h
      · exact hn h
      · exact hc h
    rw [e, splitLines_line _ _ hn'] at hl'
    simp only [List.mem_cons] at hl'
    rcases hl' with rfl | hl'
    · simp [hs]
    · exact hy l' hl'

theorem lexIC_shape (s l r : Text) (h : lexIC s = some (l, r)) : '\n' ∉ l ∧ ';' ∈ l := by
  cases s with
  | nil => simp [lexIC] at h
  | cons c s =>
    simp only [lexIC] at h
    split at h
    · rename_i hc
      simp only [Option.some.injEq, Prod.mk.injEq] at h
      obtain ⟨rfl, _⟩ := h
      subst hc
      refine ⟨?_, by simp⟩
      intro hm
      simp only [List.mem_cons] at hm
      rcases hm with hm | hm
      · exact absurd hm (by decide)
      · exact absurd (all_takeWhile notEol s _ hm) (by decide)
    · simp at h

theorem lexBCLine_shape (ind : Bool) (s l r : Text) (h : lexBCLine ind s = some (l, r)) : '\n' ∉ l ∧ ';' ∈ l := by
  unfold lexBCLine at h
  split at h
  · split at h
    · simp at h
    · simp at h
    · rename_i w ws p hw hp
      simp only [Option.some.injEq, Prod.mk.injEq] at h
      obtain ⟨rfl, _⟩ := h
      obtain ⟨h1, h2⟩ := lexIC_shape _ p.1 p.2 hp
      refine ⟨?_, by simp [h2]⟩
      intro hm
      rw [List.mem_append] at hm
      rcases hm with hm | hm
      · rw [← hw] at hm
        exact absurd (all_takeWhile isBlank s _ hm) (by decide)
      · exact h1 hm
  · exact lexIC_shape s l r h

theorem lexNewline_shape (s nlx r : Text) (h : lexNewline s = some (nlx, r)) :
    ∃ crs, nlx = crs ++ ['\n'] ∧ '\n' ∉ crs := by
  unfold lexNewline at h
  split at h
  · simp at h
  · split at h
    · rename_i c r' hc hd
      simp only [Option.some.injEq, Prod.mk.injEq] at h
      obtain ⟨rfl, _⟩ := h
      subst hd
      refine ⟨_, rfl, ?_⟩
      intro hm
      exact absurd (all_takeWhile _ s _ hm) (by decide)
    · simp at h

theorem lexBCMore_shape (fuel : Nat) (ind : Bool) (s : Text) : MoreShape (lexBCMore fuel ind s).1 := by
  induction fuel generalizing s with
  | zero => exact Or.inl rfl
  | succ f ih =>
    unfold lexBCMore
    split
    · exact Or.inl rfl
    · rename_i nlx r hn
      split
      · exact Or.inl rfl
      · rename_i l r' hl
        obtain ⟨crs, rfl, hc⟩ := lexNewline_shape _ _ _ hn
        obtain ⟨h1, h2⟩ := lexBCLine_shape _ _ _ _ hl
        right
        refine ⟨crs, l ++ (lexBCMore f ind r').1, by simp, hc, allSemi_line_more _ _ h1 h2 (ih r')⟩

/-- Every lexeme of BLOCK_COMMENT is accepted by `BlockComment._parse_value` (so `from_raw_text` keeps it verbatim). -/
theorem parseBC_of_lexBC (s x r : Text) (h : lexBC s = some (x, r)) : ∃ iv, parseBC x = .ok iv := by
  rw [lexBC_eq] at h
  unfold lexLinesF at h
  split at h
  · simp at h
  · rename_i l r' hl
    simp only [Option.some.injEq, Prod.mk.injEq] at h
    obtain ⟨rfl, _⟩ := h
    obtain ⟨h1, h2⟩ := lexBCLine_shape _ _ _ _ hl
    exact parseBC_of_allSemi _ (allSemi_line_more _ _ h1 h2 (lexBCMore_shape _ _ _))

/-! ### the indent `_parse_value` returns never contains `;` or `\n` -/

theorem splitSemi_shape (l a b : Text) (h : splitSemi l = some (a, b)) : l = a ++ ';' :: b ∧ ';' ∉ a := by
  induction l generalizing a b with
  | nil => simp [splitSemi] at h
  | cons c l ih =>
    simp only [splitSemi] at h
    split at h
    · rename_i hc
      simp only [Option.some.injEq, Prod.mk.injEq] at h
      obtain ⟨rfl, rfl⟩ := h
      simp [hc]
    · rename_i hc
      cases hs : splitSemi l with
      | none => simp [hs] at h
      | some p =>
        simp only [hs, Option.map_some, Option.some.injEq, Prod.mk.injEq] at h
        obtain ⟨rfl, rfl⟩ := h
        obtain ⟨h1, h2⟩ := ih p.1 p.2 (by rw [hs])
        refine ⟨by rw [h1]; simp, ?_⟩
        intro e
        simp only [List.mem_cons] at e
        rcases e with e | e
        · exact hc e.symm
        · exact h2 e

theorem nl_not_in_prefix (a b body : Text) (h : a ++ ';' :: b = body ++ ['\n']) (hb : '\n' ∉ body) : '\n' ∉ a := by
  rw [List.append_eq_append_iff] at h
  rcases h with ⟨a', h1, _⟩ | ⟨c', h1, h2⟩
  · intro e; exact hb (by rw [h1]; simp [e])
  · cases c' with
    | nil => simp at h2
    | cons x xs =>
      have := congrArg List.length h2
      simp at this

theorem parseBC_indent_ok (t i v : Text) (h : parseBC t = .ok (i, v)) : ';' ∉ i ∧ '\n' ∉ i := by
  unfold parseBC at h
  split at h
  · simp at h
  · rename_i pairs hp
    simp only [Except.ok.injEq, Prod.mk.injEq] at h
    obtain ⟨rfl, _⟩ := h
    obtain ⟨hwf, _⟩ := splitLines_wf t
    cases hs : splitLines t with
    | nil => exact absurd hs (splitLines_ne_nil t)
    | cons l ls =>
      rw [hs] at hp hwf
      simp only [List.mapM_cons] at hp
      cases hl : splitSemi l with
      | none => simp [hl] at hp
      | some p =>
        cases hm : ls.mapM splitSemi with
        | none => simp [hl, hm] at hp
        | some ps =>
          simp [hl, hm] at hp
          subst hp
          obtain ⟨h1, h2⟩ := splitSemi_shape l p.1 p.2 (by rw [hl])
          simp only [List.head?_cons, Option.map_some, Option.getD_some]
          refine ⟨h2, ?_⟩
          cases ls with
          | nil =>
            simp only [LinesWF] at hwf
            intro e; exact hwf (by rw [h1]; simp [e])
          | cons l' ls' =>
            obtain ⟨⟨body, hb1, hb2⟩, _⟩ := hwf
            exact nl_not_in_prefix p.1 p.2 body (by rw [← h1, hb1]) hb2

end Autobean.Codec
