/-
Histories of tree-level edits (`TOp`, `applyOp`, `runOps` of `Model/TreeOps.lean`) keep `DInv`; the relation
between `DInv` and the invariant `TInv` of `Model/Tree.lean` (C11).
-/
import Autobean.Proofs.TreeOpsRemove

namespace Autobean
open List

/-- One step of a history keeps the invariant. -/
theorem dinv_applyOp {d d' : Doc} {op : TOp} (hd : DInv d) (h : applyOp d op = some d') : DInv d' := by
  cases op with
  | replaceChild p n =>
    simp only [applyOp] at h
    by_cases hf : FreshVal d [] n
    · simp only [hf, if_true] at h; exact dinv_replaceChild hd hf h
    · simp [hf] at h
  | createOptL q k seps n =>
    simp only [applyOp] at h
    by_cases hf : FreshVal d seps n
    · simp only [hf, if_true] at h; exact dinv_createOptL hd hf h
    · simp [hf] at h
  | createOptR q k seps n =>
    simp only [applyOp] at h
    by_cases hf : FreshVal d seps n
    · simp only [hf, if_true] at h; exact dinv_createOptR hd hf h
    · simp [hf] at h
  | removeOptL q k => exact dinv_removeOptL hd h
  | removeOptR q k => exact dinv_removeOptR hd h
  | insertItem q i seps n =>
    simp only [applyOp] at h
    by_cases hf : FreshVal d seps n
    · simp only [hf, if_true] at h; exact dinv_insertItem hd hf h
    · simp [hf] at h
  | setItem q i n =>
    simp only [applyOp] at h
    by_cases hf : FreshVal d [] n
    · simp only [hf, if_true] at h; exact dinv_setItem hd hf h
    · simp [hf] at h
  | extendItems q vs => exact dinv_extendChecked hd h
  | removeItems q a b => exact dinv_removeItems hd h
  | popItem q i τ =>
    simp only [applyOp] at h
    cases hp : popItem d q i τ with
    | none => simp [hp] at h
    | some r =>
      obtain ⟨d1, pop⟩ := r
      simp only [hp, Option.map_some, Option.some.injEq] at h
      subst h
      exact (dinv_popItem hd hp).1

/-- **History.**  After every sequence of tree-level edits the document satisfies the invariant. -/
theorem dinv_history : ∀ (ops : List TOp) {d d' : Doc}, DInv d → runOps d ops = some d' → DInv d' := by
  intro ops
  induction ops with
  | nil => intro d d' hd h; simp only [runOps, Option.some.injEq] at h; subst h; exact hd
  | cons op ops ih =>
    intro d d' hd h
    simp only [runOps] at h
    cases h1 : applyOp d op with
    | none => simp [h1] at h
    | some d1 =>
      simp only [h1] at h
      exact ih (dinv_applyOp hd h1) h

/-- … and so does every intermediate document (every prefix of the history). -/
theorem dinv_history_prefix (ops₁ ops₂ : List TOp) {d d' : Doc} (hd : DInv d)
    (h : runOps d (ops₁ ++ ops₂) = some d') : ∃ dm, runOps d ops₁ = some dm ∧ DInv dm ∧ runOps dm ops₂ = some d' := by
  induction ops₁ generalizing d with
  | nil => exact ⟨d, rfl, hd, h⟩
  | cons op ops ih =>
    simp only [List.cons_append, runOps] at h ⊢
    cases h1 : applyOp d op with
    | none => simp [h1] at h
    | some d1 =>
      simp only [h1] at h ⊢
      exact ih (dinv_applyOp hd h1) h

/-! ### `DInv` and `TInv` -/

/-- The C11 invariant on a store of tokens is `DInv` on its ids plus "has a leaf" and "`File` at the root only". -/
theorem tinv_iff_dinv (σ : Nat) (s : List TTk) (t : Tree) :
    TInv σ s t ↔ DInv ⟨ids s, t, σ⟩ ∧ t.leaves ≠ [] ∧ t.innerFileFree = true := by
  constructor
  · intro h
    exact ⟨⟨h.storeNodup, h.tagsEq, h.leavesSub.nodup h.storeNodup, h.leavesSub⟩, h.nonempty, h.fileRoot⟩
  · rintro ⟨h, hne, hf⟩
    exact ⟨h.storeNodup, h.leavesSub, hne, h.tagsEq, hf⟩

/-- `leaves.Nodup` is implied by the other clauses (kept in `DInv` because it is what the property says). -/
theorem dinv_iff (d : Doc) :
    DInv d ↔ d.store.Nodup ∧ (∀ g ∈ d.tree.tags, g = d.tag) ∧ d.tree.leaves <+ d.store :=
  ⟨fun h => ⟨h.storeNodup, h.tagsEq, h.leavesSub⟩, fun ⟨h1, h2, h3⟩ => ⟨h1, h2, h3.nodup h1, h3⟩⟩

end Autobean
