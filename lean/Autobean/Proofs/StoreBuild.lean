/-
`_build_blocks` and `TokenStore.from_tokens`.
-/
import Autobean.Proofs.StoreBasic

set_option linter.unusedSimpArgs false

namespace Autobean

/-! ### `buildBlocks` -/

/-- Flattening the built blocks gives the input back, up to the handles that were just assigned. -/
theorem buildBlocks_strip (c : LF) (sid ref idx : Nat) (ts : List Tok) :
    ((buildBlocks c sid ref idx ts).flatMap (·.toks)).map Tok.strip = ts.map Tok.strip := by
  fun_induction buildBlocks c sid ref idx ts with
  | case1 ref idx ts h0 =>
    have : ts = [] := List.eq_nil_of_length_eq_zero h0
    simp [this]
  | case2 => simp
  | case3 ref idx ts h0 hlf hgt ih =>
    simp only [List.flatMap_cons, List.map_append, ih, Block.build_toks, setHandlesFrom_map_strip]
    rw [← List.map_append, List.take_append_drop]
  | case4 ref idx ts =>
    simp only [List.flatMap_cons, List.flatMap_nil, List.append_nil, List.map_append, Block.build_toks,
      setHandlesFrom_map_strip]
    rw [← List.map_append, List.take_append_drop]
  | case5 => simp

/-- Every built block is internally consistent (handles, cached size, last-newline index). -/
theorem buildBlocks_bok (c : LF) (sid ref idx : Nat) (ts : List Tok) :
    ∀ b ∈ buildBlocks c sid ref idx ts, BOK sid b := by
  fun_induction buildBlocks c sid ref idx ts with
  | case1 => simp
  | case2 => simp [bok_build]
  | case3 ref idx ts h0 hlf hgt ih =>
    intro b hb
    simp only [List.mem_cons] at hb
    rcases hb with rfl | hb
    · exact bok_build ..
    · exact ih b hb
  | case4 ref idx ts =>
    intro b hb
    simp only [List.mem_cons, List.not_mem_nil, or_false] at hb
    rcases hb with rfl | rfl <;> exact bok_build ..
  | case5 => simp [bok_build]

/-- For well-formed constants no built block is empty. -/
theorem buildBlocks_noEmpty {c : LF} (hc : c.WF) (sid ref idx : Nat) (ts : List Tok) :
    ∀ b ∈ buildBlocks c sid ref idx ts, b.toks ≠ [] := by
  obtain ⟨h2, hd, hh, ho⟩ := hc
  fun_induction buildBlocks c sid ref idx ts with
  | case1 => simp
  | case2 ref idx ts h0 hlf => omega
  | case3 ref idx ts h0 hlf hgt ih =>
    intro b hb
    simp only [List.mem_cons] at hb
    rcases hb with rfl | hb
    · apply build_toks_ne_nil
      apply List.ne_nil_of_length_pos
      simp only [List.length_take, List.length_drop]; omega
    · exact ih b hb
  | case4 ref idx ts h0 hlf hgt hgt2 =>
    intro b hb
    simp only [List.mem_cons, List.not_mem_nil, or_false] at hb
    rcases hb with rfl | rfl
    · apply build_toks_ne_nil
      apply List.ne_nil_of_length_pos
      simp only [List.length_take, List.length_drop]; omega
    · apply build_toks_ne_nil
      apply List.ne_nil_of_length_pos
      simp only [List.length_take, List.length_drop]; omega
  | case5 ref idx ts h0 =>
    intro b hb
    simp only [List.mem_cons, List.not_mem_nil, or_false] at hb
    subst hb
    apply build_toks_ne_nil
    intro e; simp [e] at h0

/-- The new block objects get the references `ref, ref+1, …`. -/
theorem buildBlocks_refs (c : LF) (sid ref idx : Nat) (ts : List Tok) :
    (buildBlocks c sid ref idx ts).map (·.ref) = List.range' ref (buildBlocks c sid ref idx ts).length := by
  fun_induction buildBlocks c sid ref idx ts with
  | case1 => simp
  | case2 => simp [List.range'_succ]
  | case3 ref idx ts h0 hlf hgt ih => simp [List.range'_succ, ih]
  | case4 => simp [List.range'_succ]
  | case5 => simp [List.range'_succ]

/-- The stored indexes are `idx, idx+1, …`. -/
theorem buildBlocks_idx (c : LF) (sid ref idx : Nat) (ts : List Tok) :
    IdxFrom idx (buildBlocks c sid ref idx ts) := by
  fun_induction buildBlocks c sid ref idx ts with
  | case1 => simp
  | case2 => simp [idxFrom_cons]
  | case3 ref idx ts h0 hlf hgt ih => simp [idxFrom_cons, ih]
  | case4 => simp [idxFrom_cons]
  | case5 => simp [idxFrom_cons]

theorem buildBlocks_ne_nil (c : LF) (sid ref idx : Nat) {ts : List Tok} (h : ts ≠ []) :
    buildBlocks c sid ref idx ts ≠ [] := by
  fun_induction buildBlocks c sid ref idx ts with
  | case1 ref idx ts h0 => exact absurd (List.eq_nil_of_length_eq_zero h0) h
  | case2 => simp
  | case3 => simp
  | case4 => simp
  | case5 => simp

end Autobean
