/-
CPython range / slice semantics (`Model/Repeated.lean`: `sliceIndices`, `rangeLen`, `rangeElems`):
the elements of `range(len)[start:stop:step]` are distinct list positions below `len`.
-/
import Autobean.Model.Repeated

namespace Autobean.Rep
open Autobean.Seq

theorem adjustBound_range (v : Int) (len : Nat) (neg : Bool) :
    (neg = false → 0 ≤ adjustBound v len neg ∧ adjustBound v len neg ≤ len) ∧
    (neg = true → -1 ≤ adjustBound v len neg ∧ adjustBound v len neg ≤ (len : Int) - 1) := by
  unfold adjustBound
  constructor
  · intro h; subst h
    split
    · split
      · simp
      · constructor <;> omega
    · split
      · simp
      · constructor <;> omega
  · intro h; subst h
    split
    · split
      · simp; omega
      · constructor <;> omega
    · split
      · simp; omega
      · constructor <;> omega

/-- Bounds of the normalised slice for either sign of the step. -/
theorem sliceIndices_bounds {start stop step : Option Int} {len : Nat} {s e k : Int}
    (h : sliceIndices start stop step len = .ok (s, e, k)) :
    k ≠ 0 ∧ (0 < k → 0 ≤ s ∧ s ≤ len ∧ 0 ≤ e ∧ e ≤ len) ∧
      (k < 0 → -1 ≤ s ∧ s ≤ (len : Int) - 1 ∧ -1 ≤ e ∧ e ≤ (len : Int) - 1) := by
  unfold sliceIndices at h
  simp only at h
  split at h
  · cases h
  · rename_i hk0
    injection h with h
    simp only [Prod.mk.injEq] at h
    obtain ⟨h1, h2, h3⟩ := h
    subst h3
    refine ⟨hk0, ?_, ?_⟩
    · intro hpos
      have hneg : decide (step.getD 1 < 0) = false := by simp; omega
      rw [hneg] at h1 h2
      have hs : 0 ≤ s ∧ s ≤ len := by
        cases start with
        | none => simp at h1; omega
        | some v => simp at h1; have := (adjustBound_range v len false).1 rfl; omega
      have he : 0 ≤ e ∧ e ≤ len := by
        cases stop with
        | none => simp at h2; omega
        | some v => simp at h2; have := (adjustBound_range v len false).1 rfl; omega
      exact ⟨hs.1, hs.2, he.1, he.2⟩
    · intro hlt
      have hneg : decide (step.getD 1 < 0) = true := by simp; omega
      rw [hneg] at h1 h2
      have hs : -1 ≤ s ∧ s ≤ (len : Int) - 1 := by
        cases start with
        | none => simp at h1; omega
        | some v => simp at h1; have := (adjustBound_range v len true).2 rfl; omega
      have he : -1 ≤ e ∧ e ≤ (len : Int) - 1 := by
        cases stop with
        | none => simp at h2; omega
        | some v => simp at h2; have := (adjustBound_range v len true).2 rfl; omega
      exact ⟨hs.1, hs.2, he.1, he.2⟩

/-- The `j`-th element of a non-empty range lies strictly between the bounds. -/
theorem range_elem_bounds {s e k : Int} {j : Nat} (hj : j < rangeLen s e k) :
    (0 < k → s ≤ s + (j : Int) * k ∧ s + (j : Int) * k < e) ∧
    (k < 0 → e < s + (j : Int) * k ∧ s + (j : Int) * k ≤ s) := by
  unfold rangeLen at hj
  constructor
  · intro hk
    have hk' : k > 0 := hk
    simp only [hk', ↓reduceIte] at hj
    split at hj
    · rename_i hse
      have hq : 0 ≤ (e - s - 1) / k := Int.ediv_nonneg (by omega) (by omega)
      have hjq : (j : Int) ≤ (e - s - 1) / k := by omega
      have h1 : (j : Int) * k ≤ (e - s - 1) / k * k := Int.mul_le_mul_of_nonneg_right hjq (by omega)
      have h2 : (e - s - 1) / k * k ≤ e - s - 1 := Int.ediv_mul_le _ (by omega)
      have h3 : 0 ≤ (j : Int) * k := Int.mul_nonneg (by omega) (by omega)
      constructor <;> omega
    · simp at hj
  · intro hk
    have hk1 : ¬ (k > 0) := by omega
    simp only [hk1, ↓reduceIte, hk] at hj
    split at hj
    · rename_i hse
      have hq : 0 ≤ (s - e - 1) / (-k) := Int.ediv_nonneg (by omega) (by omega)
      have hjq : (j : Int) ≤ (s - e - 1) / (-k) := by omega
      have h1 : (j : Int) * (-k) ≤ (s - e - 1) / (-k) * (-k) := Int.mul_le_mul_of_nonneg_right hjq (by omega)
      have h2 : (s - e - 1) / (-k) * (-k) ≤ s - e - 1 := Int.ediv_mul_le _ (by omega)
      have h3 : 0 ≤ (j : Int) * (-k) := Int.mul_nonneg (by omega) (by omega)
      have h4 : (j : Int) * (-k) = -((j : Int) * k) := by rw [Int.mul_neg]
      constructor <;> omega
    · simp at hj

/-- Elements of `range(len)[slice]` are positions below `len`. -/
theorem rangeElems_lt {start stop step : Option Int} {len : Nat} {s e k : Int}
    (h : sliceIndices start stop step len = .ok (s, e, k)) : ∀ i ∈ rangeElems s e k, i < len := by
  obtain ⟨hk0, hpos, hneg⟩ := sliceIndices_bounds h
  intro i hi
  unfold rangeElems at hi
  obtain ⟨j, hj, rfl⟩ := List.mem_map.mp hi
  have hj' := List.mem_range.mp hj
  have hb := range_elem_bounds hj'
  rcases Int.lt_or_gt_of_ne hk0 with hk | hk
  · have := hb.2 hk; have := hneg hk
    exact (Int.toNat_lt (by omega)).mpr (by omega)
  · have := hb.1 hk; have := hpos hk
    exact (Int.toNat_lt (by omega)).mpr (by omega)

/-- … and they are pairwise distinct. -/
theorem rangeElems_nodup {start stop step : Option Int} {len : Nat} {s e k : Int}
    (h : sliceIndices start stop step len = .ok (s, e, k)) : (rangeElems s e k).Nodup := by
  obtain ⟨hk0, hpos, hneg⟩ := sliceIndices_bounds h
  unfold rangeElems List.Nodup
  rw [List.pairwise_map]
  refine List.Pairwise.imp_of_mem ?_ List.pairwise_lt_range
  intro a b ha hb hab
  have ha' := range_elem_bounds (List.mem_range.mp ha)
  have hb' := range_elem_bounds (List.mem_range.mp hb)
  intro heq
  rcases Int.lt_or_gt_of_ne hk0 with hk | hk
  · have h1 := ha'.2 hk; have h2 := hb'.2 hk; have := hneg hk
    have hmul : (b : Int) * (-k) > (a : Int) * (-k) := by
      have : ((a : Int) + 1) * (-k) ≤ (b : Int) * (-k) := Int.mul_le_mul_of_nonneg_right (by omega) (by omega)
      rw [Int.add_mul] at this; omega
    rw [Int.mul_neg, Int.mul_neg] at hmul
    have e1 : ((s + (a : Int) * k).toNat : Int) = s + (a : Int) * k := Int.toNat_of_nonneg (by omega)
    have e2 : ((s + (b : Int) * k).toNat : Int) = s + (b : Int) * k := Int.toNat_of_nonneg (by omega)
    have : ((s + (a : Int) * k).toNat : Int) = ((s + (b : Int) * k).toNat : Int) := by rw [heq]
    omega
  · have h1 := ha'.1 hk; have h2 := hb'.1 hk; have := hpos hk
    have hmul : (b : Int) * k > (a : Int) * k := by
      have : ((a : Int) + 1) * k ≤ (b : Int) * k := Int.mul_le_mul_of_nonneg_right (by omega) (by omega)
      rw [Int.add_mul] at this; omega
    have e1 : ((s + (a : Int) * k).toNat : Int) = s + (a : Int) * k := Int.toNat_of_nonneg (by omega)
    have e2 : ((s + (b : Int) * k).toNat : Int) = s + (b : Int) * k := Int.toNat_of_nonneg (by omega)
    have : ((s + (a : Int) * k).toNat : Int) = ((s + (b : Int) * k).toNat : Int) := by rw [heq]
    omega

end Autobean.Rep
