/-
What `DInv` means for spans (`model.tokens` = the store range first token … last token, `spanIn`):

* `span_exists`        — every sub-tree with a token has a span; its leaves lie inside, all other leaves outside;
* `span_nested`        — the span of a descendant is a contiguous part of the span of its ancestor;
* `siblings_ordered`   — the spans of two children of one model are disjoint parts of the store, in field order.
-/
import Autobean.Proofs.TreeOpsHistory

namespace Autobean
open List

theorem leaves_subAt {p : Path} {t old : Tree} (hs : t.subAt p = some old) :
    ∃ A B, t.leaves = A ++ old.leaves ++ B := by
  obtain ⟨t', hr⟩ := replaceAt_isSome p old hs
  obtain ⟨A, B, h1, _⟩ := leaves_replaceAt hs hr
  exact ⟨A, B, h1⟩

theorem ends_of_ne_nil {L : List Nat} (h : L ≠ []) : ∃ f l, L.head? = some f ∧ L.getLast? = some l := by
  cases L with
  | nil => exact absurd rfl h
  | cons a L' =>
    rcases List.eq_nil_or_concat (a :: L') with h0 | ⟨L0, l, h0⟩
    · simp at h0
    · exact ⟨a, l, rfl, by rw [h0]; simp⟩

theorem spanIn_eq {s : List Nat} {t : Tree} {f l : Nat} (hf : t.leaves.head? = some f)
    (hl : t.leaves.getLast? = some l) : spanIn s t = Ids.iter f l s := by
  simp [spanIn, Tree.firstLeaf, Tree.lastLeaf, hf, hl]

/-- Every sub-tree with a token has a span: a contiguous part `M` of the store that starts at its first and
ends at its last leaf, contains its leaves in order, and no leaf of the rest of the tree. -/
theorem span_exists {d : Doc} {p : Path} {sub : Tree} (hd : DInv d) (hs : d.tree.subAt p = some sub)
    (hne : sub.leaves ≠ []) :
    ∃ S1 M S2 A B, d.store = S1 ++ M ++ S2 ∧ spanIn d.store sub = some M ∧
      d.tree.leaves = A ++ sub.leaves ++ B ∧ A <+ S1 ∧ sub.leaves <+ M ∧ B <+ S2 ∧
      M.head? = sub.firstLeaf ∧ M.getLast? = sub.lastLeaf := by
  obtain ⟨f, l, hf, hl⟩ := ends_of_ne_nil hne
  obtain ⟨A, B, h1⟩ := leaves_subAt hs
  have hsub := hd.leavesSub
  rw [h1] at hsub
  obtain ⟨S1, M, S2, hst, hA, hL, hB, hMf, hMl⟩ := span_decomp hsub hf hl
  have hnd := hd.storeNodup
  rw [hst] at hnd
  refine ⟨S1, M, S2, A, B, hst, ?_, h1, hA, hL, hB, hMf.trans hf.symm, hMl.trans hl.symm⟩
  rw [spanIn_eq hf hl, hst]
  exact (Ids.range_spec hnd hMf hMl []).2

/-- **Nesting.**  The span of a descendant is a contiguous part of the span of its ancestor. -/
theorem span_nested {d : Doc} {p r : Path} {t1 t2 : Tree} (hd : DInv d) (h1 : d.tree.subAt p = some t1)
    (h2 : t1.subAt r = some t2) (hne : t2.leaves ≠ []) :
    ∃ S1 P1 M2 P2 S2, d.store = S1 ++ (P1 ++ M2 ++ P2) ++ S2 ∧
      spanIn d.store t1 = some (P1 ++ M2 ++ P2) ∧ spanIn d.store t2 = some M2 := by
  obtain ⟨A', B', hl12⟩ := leaves_subAt h2
  have hne1 : t1.leaves ≠ [] := by
    rw [hl12]; intro h0
    simp only [List.append_eq_nil_iff] at h0
    exact hne h0.1.2
  obtain ⟨S1, M1, S2, A, B, hst, hsp1, _, _, hL1, _, _, _⟩ := span_exists hd h1 hne1
  obtain ⟨f, l, hf, hl⟩ := ends_of_ne_nil hne
  rw [hl12] at hL1
  obtain ⟨R1, M2, R2, hM1, _, _, _, hMf, hMl⟩ := span_decomp hL1 hf hl
  subst hM1
  refine ⟨S1, R1, M2, R2, S2, hst, hsp1, ?_⟩
  have hnd := hd.storeNodup
  rw [hst] at hnd
  have e : S1 ++ (R1 ++ M2 ++ R2) ++ S2 = (S1 ++ R1) ++ M2 ++ (R2 ++ S2) := by simp
  rw [spanIn_eq hf hl, hst, e]
  rw [e] at hnd
  exact (Ids.range_spec hnd hMf hMl []).2

/-- **Order and non-overlap.**  For two children `i < j` of one model (each with a token) the store is
`… span(child i) … span(child j) …`: disjoint, in field order. -/
theorem siblings_ordered {d : Doc} {q : Path} {parent ci cj : Tree} {cs : List Tree} {i j : Nat} (hd : DInv d)
    (hs : d.tree.subAt q = some parent) (hc : parent.children = some cs) (hij : i < j)
    (hi : cs[i]? = some ci) (hj : cs[j]? = some cj) (hnei : ci.leaves ≠ []) (hnej : cj.leaves ≠ []) :
    ∃ S1 Mi G Mj S2, d.store = S1 ++ Mi ++ G ++ Mj ++ S2 ∧
      spanIn d.store ci = some Mi ∧ spanIn d.store cj = some Mj := by
  obtain ⟨A, B, h1⟩ := leaves_subAt hs
  obtain ⟨hl, _⟩ := Tree.leaves_of_children hc
  obtain ⟨hsplit, _⟩ := getElem?_split hi
  -- `cj` sits in the part after `ci`
  have hj' : (cs.drop (i + 1))[j - (i + 1)]? = some cj := by
    rw [List.getElem?_drop]
    have : i + 1 + (j - (i + 1)) = j := by omega
    rw [this]; exact hj
  obtain ⟨hsplit2, _⟩ := getElem?_split hj'
  have e1 : d.tree.leaves = (A ++ parent.hdr ++ (cs.take i).flatMap Tree.leaves) ++ ci.leaves ++
      ((((cs.drop (i + 1)).take (j - (i + 1))).flatMap Tree.leaves) ++ cj.leaves ++
        ((((cs.drop (i + 1)).drop (j - (i + 1) + 1)).flatMap Tree.leaves) ++ B)) := by
    rw [h1, hl]
    conv => lhs; rw [hsplit]
    simp only [List.flatMap_append, List.flatMap_cons]
    conv => lhs; rw [hsplit2]
    simp
  obtain ⟨fi, li, hfi, hli⟩ := ends_of_ne_nil hnei
  obtain ⟨fj, lj, hfj, hlj⟩ := ends_of_ne_nil hnej
  have hsub := hd.leavesSub
  rw [e1] at hsub
  obtain ⟨S1, Mi, T, hst, _, _, hT, hMif, hMil⟩ := span_decomp hsub hfi hli
  obtain ⟨G, Mj, S2, hT2, _, _, _, hMjf, hMjl⟩ := span_decomp hT hfj hlj
  subst hT2
  have hnd := hd.storeNodup
  rw [hst] at hnd
  refine ⟨S1, Mi, G, Mj, S2, by rw [hst]; simp, ?_, ?_⟩
  · rw [spanIn_eq hfi hli, hst]
    exact (Ids.range_spec hnd hMif hMil []).2
  · have e : S1 ++ Mi ++ (G ++ Mj ++ S2) = (S1 ++ Mi ++ G) ++ Mj ++ S2 := by simp
    rw [spanIn_eq hfj hlj, hst, e]
    rw [e] at hnd
    exact (Ids.range_spec hnd hMjf hMjl []).2

end Autobean
