/-
Rebalancing: `_merge_blocks`, `_split_block`, `_update_block`.

The central statement is `updateBlock_spec`: if every block except the one at position `p` is in
order (the block at `p` may have stale handles, a stale cached size and may even be empty) then
`_update_block` succeeds, re-establishes the block-list invariant and does not change the token
sequence.
-/
import Autobean.Proofs.StoreInv

set_option linter.unusedSimpArgs false
set_option linter.unusedVariables false

namespace Autobean

/-! ### Positions in `L ++ b :: R` -/

theorem getBlock_of {bs : List Block} {p : Nat} {b : Block} (h : bs[p]? = some b) : getBlock bs p = .ok b := by
  simp [getBlock, h]; rfl

theorem getBlock_mid (L R : List Block) (b : Block) : getBlock (L ++ b :: R) L.length = .ok b :=
  getBlock_of (by simp)

theorem setAt_mid (L R : List Block) (b b' : Block) : setAt (L ++ b :: R) L.length b' = L ++ b' :: R := by
  simp [setAt]

theorem eraseIdx_mid {α} (L R : List α) (b : α) : (L ++ b :: R).eraseIdx L.length = L ++ R := by
  rw [List.eraseIdx_append_of_length_le (Nat.le_refl _)]; simp

theorem merge_list_single (L R : List Block) (a b a' : Block) :
    (setAt (L ++ a :: b :: R) L.length a').eraseIdx (L.length + 1) = (L ++ [a']) ++ R := by
  rw [setAt_mid]
  have : L ++ a' :: b :: R = (L ++ [a']) ++ b :: R := by simp
  rw [this]
  have hl : L.length + 1 = (L ++ [a']).length := by simp
  rw [hl, eraseIdx_mid]

theorem merge_list_double (L R : List Block) (a b a' b' : Block) :
    setAt (setAt (L ++ a :: b :: R) L.length a') (L.length + 1) b' = (L ++ [a', b']) ++ R := by
  simp [setAt]

/-! ### `_merge_blocks` -/

theorem mergeBlocks_eq (c : LF) {s : Store} {L R : List Block} {a b : Block}
    (hs : s.blocks = L ++ a :: b :: R) (hb : b.idx = L.length + 1) :
    mergeBlocks c s L.length (L.length + 1) = .ok
      (if (a.toks ++ b.toks).length < c.dbl then
        { s with blocks := (L ++ [Block.build s.sid a.ref a.idx (a.toks ++ b.toks)]) ++
            reindexFrom (L.length + 1) (L ++ [Block.build s.sid a.ref a.idx (a.toks ++ b.toks)]).length R }
      else
        { s with blocks := (L ++ [Block.build s.sid a.ref a.idx ((a.toks ++ b.toks).take ((a.toks ++ b.toks).length / 2)),
            Block.build s.sid b.ref b.idx ((a.toks ++ b.toks).drop ((a.toks ++ b.toks).length / 2))]) ++ R }) := by
  unfold mergeBlocks
  rw [hs, getBlock_of (b := a) (by simp), getBlock_of (b := b) (by simp)]
  simp only [bind, Except.bind]
  by_cases hlt : (a.toks ++ b.toks).length < c.dbl
  · simp only [hlt, if_true]
    have hlen : b.idx < (setAt (L ++ a :: b :: R) L.length
        (Block.rebuild s.sid { a with toks := a.toks ++ b.toks })).length := by
      simp [setAt, hb]
    rw [if_pos hlen, hb, merge_list_single, reindexFrom_split (by simp)]
    rfl
  · simp only [hlt, if_false]
    rw [merge_list_double]
    rfl

theorem mergeBlocks_spec {c : LF} (hc : c.WF) {s : Store} {L R : List Block} {a b : Block}
    (hs : s.blocks = L ++ a :: b :: R)
    (hidx : IdxFrom 0 (L ++ a :: b :: R))
    (hrefs : ((L ++ a :: b :: R).map (·.ref)).Nodup)
    (hlt : ∀ x ∈ L ++ a :: b :: R, x.ref < s.nextRef)
    (hbok : ∀ x ∈ L ++ R, BOK s.sid x)
    (hne : ∀ x ∈ L ++ R, x.toks ≠ [])
    (hab : a.toks ++ b.toks ≠ []) :
    ∃ s', mergeBlocks c s L.length (L.length + 1) = .ok s' ∧ s'.sid = s.sid ∧ s'.len = s.len ∧
      s'.nextRef = s.nextRef ∧ BInv s.sid s.nextRef s'.blocks ∧
      s'.toList.map Tok.strip = s.toList.map Tok.strip := by
  obtain ⟨h2, hd, hh, ho⟩ := hc
  rw [idxFrom_append, idxFrom_cons, idxFrom_cons] at hidx
  obtain ⟨hiL, hia, hib, hiR⟩ := hidx
  simp only [Nat.zero_add] at hia hib hiR
  rw [mergeBlocks_eq c hs hib]
  refine ⟨_, rfl, ?_⟩
  by_cases hl : (a.toks ++ b.toks).length < c.dbl
  · rw [if_pos hl]
    refine ⟨rfl, rfl, rfl, ?_, ?_⟩
    · apply binv_reindex (by simp)
      · rw [idxFrom_append]; simp [hiL, idxFrom_cons, hia]
      · simp
      · refine hrefs.sublist ?_; simp
      · intro x hx
        simp only [List.mem_append, List.mem_cons, List.not_mem_nil, or_false] at hx
        rcases hx with (hx | rfl) | hx
        · exact hlt x (by simp [hx])
        · exact hlt a (by simp)
        · exact hlt x (by simp [hx])
      · intro x hx
        simp only [List.mem_append, List.mem_cons, List.not_mem_nil, or_false] at hx
        rcases hx with (hx | rfl) | hx
        · exact hbok x (by simp [hx])
        · exact bok_build ..
        · exact hbok x (by simp [hx])
      · intro _ x hx
        simp only [List.mem_append, List.mem_cons, List.not_mem_nil, or_false] at hx
        rcases hx with (hx | rfl) | hx
        · exact hne x (by simp [hx])
        · exact build_toks_ne_nil hab
        · exact hne x (by simp [hx])
    · simp [Store.toList, hs]
  · rw [if_neg hl]
    refine ⟨rfl, rfl, rfl, ?_, ?_⟩
    · have hR : IdxFrom (L ++ [Block.build s.sid a.ref a.idx ((a.toks ++ b.toks).take ((a.toks ++ b.toks).length / 2)),
          Block.build s.sid b.ref b.idx ((a.toks ++ b.toks).drop ((a.toks ++ b.toks).length / 2))]).length R := by
        simpa [Nat.add_assoc] using hiR
      rw [← reindexFrom_of_idxFrom (i := 0) hR]
      apply binv_reindex (by simp)
      · rw [idxFrom_append]; simp [hiL, idxFrom_cons, hia, hib]
      · simp
      · refine hrefs.sublist ?_; simp
      · intro x hx
        simp only [List.mem_append, List.mem_cons, List.not_mem_nil, or_false] at hx
        rcases hx with (hx | rfl | rfl) | hx
        · exact hlt x (by simp [hx])
        · exact hlt a (by simp)
        · exact hlt b (by simp)
        · exact hlt x (by simp [hx])
      · intro x hx
        simp only [List.mem_append, List.mem_cons, List.not_mem_nil, or_false] at hx
        rcases hx with (hx | rfl | rfl) | hx
        · exact hbok x (by simp [hx])
        · exact bok_build ..
        · exact bok_build ..
        · exact hbok x (by simp [hx])
      · intro _ x hx
        simp only [List.mem_append, List.mem_cons, List.not_mem_nil, or_false] at hx
        rcases hx with (hx | rfl | rfl) | hx
        · exact hne x (by simp [hx])
        · apply build_toks_ne_nil
          apply List.ne_nil_of_length_pos
          simp only [List.length_take]; omega
        · apply build_toks_ne_nil
          apply List.ne_nil_of_length_pos
          simp only [List.length_drop]; omega
        · exact hne x (by simp [hx])
    · simp only [Store.toList, hs, List.flatMap_append, List.flatMap_cons, List.flatMap_nil, Block.build_toks,
        List.map_append, setHandlesFrom_map_strip, List.append_nil, List.append_assoc]
      congr 1
      rw [← List.append_assoc, ← List.map_append, List.take_append_drop]
      simp

/-! ### `_split_block` -/

theorem getLast_idx {p : Nat} {bs : List Block} {last : Block} (h : IdxFrom p bs) (hl : bs.getLast? = some last) :
    last.idx + 1 = p + bs.length := by
  obtain ⟨ys, rfl⟩ := List.getLast?_eq_some_iff.1 hl
  rw [idxFrom_append, idxFrom_cons] at h
  simp; omega

theorem splitBlock_spec {c : LF} (hc : c.WF) {s : Store} {L R : List Block} {b : Block}
    (hs : s.blocks = L ++ b :: R)
    (hidx : IdxFrom 0 (L ++ b :: R))
    (hrefs : ((L ++ b :: R).map (·.ref)).Nodup)
    (hlt : ∀ x ∈ L ++ b :: R, x.ref < s.nextRef)
    (hbok : ∀ x ∈ L ++ R, BOK s.sid x)
    (hne : ∀ x ∈ L ++ R, x.toks ≠ [])
    (hb : b.toks ≠ []) :
    ∃ s', splitBlock c s b = .ok s' ∧ s'.sid = s.sid ∧ s'.len = s.len ∧
      s.nextRef ≤ s'.nextRef ∧ BInv s.sid s'.nextRef s'.blocks ∧
      s'.toList.map Tok.strip = s.toList.map Tok.strip := by
  rw [idxFrom_append, idxFrom_cons] at hidx
  obtain ⟨hiL, hib, hiR⟩ := hidx
  simp only [Nat.zero_add] at hib hiR
  unfold splitBlock
  have hnn := buildBlocks_ne_nil c s.sid s.nextRef b.idx hb
  have hnrefs := buildBlocks_refs c s.sid s.nextRef b.idx b.toks
  have hnidx := buildBlocks_idx c s.sid s.nextRef b.idx b.toks
  have hnbok := buildBlocks_bok c s.sid s.nextRef b.idx b.toks
  have hnne := buildBlocks_noEmpty hc s.sid s.nextRef b.idx b.toks
  have hnstrip := buildBlocks_strip c s.sid s.nextRef b.idx b.toks
  generalize buildBlocks c s.sid s.nextRef b.idx b.toks = new at *
  obtain ⟨last, hlast⟩ : ∃ last, new.getLast? = some last := by
    cases h : new.getLast? with
    | none => exact absurd (List.getLast?_eq_none_iff.1 h) hnn
    | some l => exact ⟨l, rfl⟩
  have hli := getLast_idx hnidx hlast
  simp only [bind, Except.bind, hlast]
  have hd : List.drop (L.length + 1) (L ++ b :: R) = R := by
    have : L ++ b :: R = (L ++ [b]) ++ R := by simp
    rw [this]; exact List.drop_left' (by simp)
  rw [hib] at hli hnidx ⊢
  refine ⟨_, rfl, rfl, rfl, by simp, ?_, ?_⟩
  · simp only [hs, List.take_left', hd]
    rw [reindexFrom_split (by simp; omega)]
    apply binv_reindex (by simp; omega)
    · rw [idxFrom_append]; exact ⟨hiL, by simpa using hnidx⟩
    · simp [hnn]
    · simp only [List.map_append, hnrefs, List.nodup_append, List.mem_append, List.mem_range'_1]
      simp only [List.map_append, List.map_cons, List.nodup_append, List.nodup_cons, List.mem_append,
        List.mem_cons, List.mem_map] at hrefs
      refine ⟨⟨hrefs.1, List.nodup_range', ?_⟩, hrefs.2.1.2, ?_⟩
      · intro x hx y hy
        obtain ⟨z, hz, rfl⟩ := List.mem_map.1 hx
        have := hlt z (by simp [hz]); omega
      · intro x hx y hy
        obtain ⟨z, hz, rfl⟩ := List.mem_map.1 hy
        rcases hx with hx | hx
        · intro e
          exact hrefs.2.2 _ (List.mem_map.1 hx) _ (Or.inr ⟨z, hz, rfl⟩) e
        · have := hlt z (by simp [hz]); omega
    · intro x hx
      simp only [List.mem_append] at hx
      rcases hx with (hx | hx) | hx
      · have := hlt x (by simp [hx]); omega
      · have : x.ref ∈ new.map (·.ref) := List.mem_map_of_mem hx
        rw [hnrefs, List.mem_range'_1] at this
        exact this.2
      · have := hlt x (by simp [hx]); omega
    · intro x hx
      simp only [List.mem_append] at hx
      rcases hx with (hx | hx) | hx
      · exact hbok x (by simp [hx])
      · exact hnbok x hx
      · exact hbok x (by simp [hx])
    · intro _ x hx
      simp only [List.mem_append] at hx
      rcases hx with (hx | hx) | hx
      · exact hne x (by simp [hx])
      · exact hnne x hx
      · exact hne x (by simp [hx])
  · simp only [Store.toList, hs, List.take_left', hd]
    simp only [reindexFrom_flatMap_toks, List.flatMap_append, List.map_append, List.flatMap_cons,
      hnstrip, List.append_assoc]

/-! ### `_update_block` -/

/-- Everything is in order except possibly the block `b` at position `L.length`. -/
structure Dirty (sid n : Nat) (L : List Block) (b : Block) (R : List Block) : Prop where
  idx : IdxFrom 0 (L ++ b :: R)
  refsNodup : ((L ++ b :: R).map (·.ref)).Nodup
  refsLt : ∀ x ∈ L ++ b :: R, x.ref < n
  bok : ∀ x ∈ L ++ R, BOK sid x
  ne : ∀ x ∈ L ++ R, x.toks ≠ []

theorem updateBlock_spec {c : LF} (hc : c.WF) {s : Store} {L R : List Block} {b : Block}
    (hs : s.blocks = L ++ b :: R) (hd : Dirty s.sid s.nextRef L b R) :
    ∃ s', updateBlock c s L.length = .ok s' ∧ s'.sid = s.sid ∧ s'.len = s.len ∧
      s.nextRef ≤ s'.nextRef ∧ BInv s.sid s'.nextRef s'.blocks ∧
      s'.toList.map Tok.strip = s.toList.map Tok.strip := by
  obtain ⟨hidx, hrefs, hlt, hbok, hne⟩ := hd
  have hidx' := hidx
  rw [idxFrom_append, idxFrom_cons] at hidx'
  obtain ⟨hiL, hib, hiR⟩ := hidx'
  simp only [Nat.zero_add] at hib hiR
  have hc' := hc
  obtain ⟨h2, hdbl, hh, ho⟩ := hc'
  unfold updateBlock
  rw [hs, getBlock_mid]
  simp only [bind, Except.bind]
  by_cases h1 : b.toks.length ≥ c.dbl
  · -- split
    simp only [h1, if_true]
    exact splitBlock_spec hc hs hidx hrefs hlt hbok hne (by intro e; simp [e] at h1; omega)
  · simp only [h1, if_false]
    by_cases h3 : b.toks.length ≤ c.half ∧ (L ++ b :: R).length > 1
    · simp only [h3, and_self, if_true]
      by_cases h4 : b.idx ≠ 0
      · -- merge with the previous block
        simp only [h4, ne_eq, not_false_eq_true, if_true]
        have hLne : L ≠ [] := by intro e; subst e; simp at hib; exact h4 hib
        obtain ⟨L', a, rfl⟩ : ∃ L' a, L = L' ++ [a] := by
          refine ⟨L.dropLast, L.getLast hLne, ?_⟩
          exact (List.dropLast_concat_getLast hLne).symm
        have e1 : (L' ++ [a]).length - 1 = L'.length := by simp
        have e2 : (L' ++ [a]).length = L'.length + 1 := by simp
        have hs' : s.blocks = L' ++ a :: b :: R := by simp [hs]
        have e3 : L' ++ [a] ++ b :: R = L' ++ a :: b :: R := by simp
        rw [hib, e1, e3, getBlock_mid]
        simp only [e2]
        obtain ⟨s', r1, r2, r3, r4, r5, r6⟩ := mergeBlocks_spec hc hs' (by simpa using hidx) (by simpa using hrefs)
          (fun x hx => hlt x (by simpa using hx))
          (fun x hx => hbok x (by simp only [List.mem_append] at hx ⊢; rcases hx with hx | hx <;> simp [hx]))
          (fun x hx => hne x (by simp only [List.mem_append] at hx ⊢; rcases hx with hx | hx <;> simp [hx]))
          (by have := hne a (by simp); intro e; simp at e; exact this e.1)
        exact ⟨s', r1, r2, r3, by omega, by rw [r4]; exact r5, r6⟩
      · -- merge with the next block
        have h4' : b.idx = 0 := by simpa using h4
        simp only [h4', ne_eq, not_true_eq_false, if_false]
        have hL : L = [] := by
          rw [h4'] at hib; exact List.eq_nil_of_length_eq_zero hib.symm
        subst hL
        obtain ⟨nb, R', rfl⟩ : ∃ nb R', R = nb :: R' := by
          cases R with
          | nil => simp at h3
          | cons nb R' => exact ⟨nb, R', rfl⟩
        simp only [List.nil_append, List.length_nil, Nat.zero_add] at *
        have g1 : getBlock (b :: nb :: R') 1 = .ok nb := getBlock_of (by simp)
        rw [g1]
        simp only []
        have hs' : s.blocks = [] ++ b :: nb :: R' := by simp [hs]
        obtain ⟨s', r1, r2, r3, r4, r5, r6⟩ := mergeBlocks_spec (L := []) hc hs' (by simpa using hidx) (by simpa using hrefs)
          (fun x hx => hlt x (by simpa using hx)) (fun x hx => hbok x (by simp at hx; simp [hx]))
          (fun x hx => hne x (by simp at hx; simp [hx]))
          (by have := hne nb (by simp); intro e; simp at e; exact this e.2)
        exact ⟨s', by simpa using r1, r2, r3, by omega, by rw [r4]; exact r5, r6⟩
    · -- plain rebuild
      simp only [h3, if_false]
      have hreb : Block.rebuild s.sid b = Block.build s.sid b.ref b.idx b.toks := rfl
      rw [setAt_mid, hreb]
      have hres : ∀ i, BInv s.sid s.nextRef ((L ++ [Block.build s.sid b.ref b.idx b.toks]) ++
          reindexFrom i (L ++ [Block.build s.sid b.ref b.idx b.toks]).length R) ∧
          (((L ++ [Block.build s.sid b.ref b.idx b.toks]) ++
            reindexFrom i (L ++ [Block.build s.sid b.ref b.idx b.toks]).length R).flatMap (·.toks)).map Tok.strip
            = s.toList.map Tok.strip := by
        intro i
        have hR : IdxFrom (L ++ [Block.build s.sid b.ref b.idx b.toks]).length R := by simpa using hiR
        rw [reindexFrom_of_idxFrom hR, ← reindexFrom_of_idxFrom (i := 0) hR]
        constructor
        · apply binv_reindex (by simp)
          · rw [idxFrom_append]; simp [hiL, idxFrom_cons, hib]
          · simp
          · simpa using hrefs
          · intro x hx
            simp only [List.mem_append, List.mem_cons, List.not_mem_nil, or_false] at hx
            rcases hx with (hx | rfl) | hx
            · exact hlt x (by simp [hx])
            · exact hlt b (by simp)
            · exact hlt x (by simp [hx])
          · intro x hx
            simp only [List.mem_append, List.mem_cons, List.not_mem_nil, or_false] at hx
            rcases hx with (hx | rfl) | hx
            · exact hbok x (by simp [hx])
            · exact bok_build ..
            · exact hbok x (by simp [hx])
          · intro hlen x hx
            simp only [List.mem_append, List.mem_cons, List.not_mem_nil, or_false] at hx
            rcases hx with (hx | rfl) | hx
            · exact hne x (by simp [hx])
            · apply build_toks_ne_nil
              intro e
              apply h3
              simp only [List.length_append, List.length_cons, List.length_nil] at hlen ⊢
              simp [e]; omega
            · exact hne x (by simp [hx])
        · simp [Store.toList, hs]
      have e0 : L ++ Block.build s.sid b.ref b.idx b.toks :: R = (L ++ [Block.build s.sid b.ref b.idx b.toks]) ++ R := by simp
      have hR : IdxFrom (L ++ [Block.build s.sid b.ref b.idx b.toks]).length R := by simpa using hiR
      rw [e0]
      split
      · split
        · rw [reindexFrom_split (by simp; omega)]
          exact ⟨_, rfl, rfl, rfl, Nat.le_refl _, (hres _).1, (hres _).2⟩
        · have := hres 0
          rw [reindexFrom_of_idxFrom hR] at this
          exact ⟨_, rfl, rfl, rfl, Nat.le_refl _, this.1, this.2⟩
      · have := hres 0
        rw [reindexFrom_of_idxFrom hR] at this
        exact ⟨_, rfl, rfl, rfl, Nat.le_refl _, this.1, this.2⟩

end Autobean
