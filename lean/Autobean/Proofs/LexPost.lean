/-
Lemmas about `split3` and `postLex` (`PostLex.process`): the post-lexer neither drops nor duplicates
nor reorders any character; it only inserts zero-width marks and splits `_NEWLINE_INDENT_COMMENT`.
-/
import Autobean.Model.Lex

namespace Autobean.Lex

theorem split3_concat {s a b c : List Char} (h : split3 s = some (a, b, c)) : a ++ b ++ c = s := by
  have e1 := List.takeWhile_append_dropWhile (p := isNl) (l := s)
  have e2 := List.takeWhile_append_dropWhile (p := isWs) (l := s.dropWhile isNl)
  simp only [split3] at h
  split at h
  · rename_i hr
    simp only [Option.some.injEq, Prod.mk.injEq] at h
    obtain ⟨rfl, rfl, rfl⟩ := h
    rw [hr, List.append_nil] at e2
    rw [List.append_nil, e2, e1]
  · split at h
    · simp only [Option.some.injEq, Prod.mk.injEq] at h
      obtain ⟨rfl, rfl, rfl⟩ := h
      rw [List.append_assoc, e2, e1]
    · cases h

@[simp] theorem textOf_nil : textOf [] = [] := rfl
@[simp] theorem textOf_cons (t : LTok) (ts : List LTok) : textOf (t :: ts) = t.value ++ textOf ts := by
  simp [textOf]
@[simp] theorem textOf_append (a b : List LTok) : textOf (a ++ b) = textOf a ++ textOf b := by
  simp [textOf]
@[simp] theorem vis_nil : vis [] = [] := rfl
@[simp] theorem vis_append (a b : List LTok) : vis (a ++ b) = vis a ++ vis b := by
  simp [vis]
theorem vis_cons (t : LTok) (ts : List LTok) :
    vis (t :: ts) = (if t.value.isEmpty then [] else [(t.type, t.value)]) ++ vis ts := by
  unfold vis
  cases h : t.value.isEmpty <;> simp [h]

/-- The text is determined by the visible tokens. -/
theorem textOf_eq_vis (ts : List LTok) : textOf ts = ((vis ts).map (·.2)).flatten := by
  induction ts with
  | nil => rfl
  | cons t ts ih =>
    rw [vis_cons, textOf_cons, ih]
    cases h : t.value.isEmpty
    · simp
    · have : t.value = [] := by simpa using h
      simp [this]

/-- One `_NEWLINE_INDENT_COMMENT`: the emitted tokens carry exactly `nl ++ ind ++ com`. -/
theorem nicStep_text (i p : Bool) (nl ind com : List Char) :
    textOf (nicStep i p nl ind com).1 = nl ++ ind ++ com := by
  unfold nicStep
  cases hn : nl.isEmpty <;> cases hi : ind.isEmpty <;> cases hc : com.isEmpty <;>
    cases i <;> cases p <;>
    simp_all [tEOL, tDEDENT, tINDENTMARK, List.isEmpty_iff]

/-- One `_NEWLINE_INDENT_COMMENT`: the visible emitted tokens are the visible pieces. -/
theorem nicStep_vis (i p : Bool) (nl ind com : List Char) :
    vis (nicStep i p nl ind com).1 =
      vis ([(⟨"_NEWLINE", nl⟩ : LTok)] ++
        (if !com.isEmpty then [(⟨"BLOCK_COMMENT", ind ++ com⟩ : LTok)] else [⟨"INDENT", ind⟩])) := by
  unfold nicStep
  cases hn : nl.isEmpty <;> cases hi : ind.isEmpty <;> cases hc : com.isEmpty <;>
    cases i <;> cases p <;>
    simp_all [tEOL, tDEDENT, tINDENTMARK, List.isEmpty_iff, vis]

theorem postLexGo_text (ts : List LTok) : ∀ (i p : Bool) (out : List LTok),
    postLexGo i p ts = .ok out → textOf out = textOf ts := by
  induction ts with
  | nil =>
    intro i p out h
    simp only [postLexGo, Except.ok.injEq] at h
    subst h
    cases i <;> cases p <;> simp [tEOL, tDEDENT]
  | cons t ts ih =>
    intro i p out h
    rw [postLexGo] at h
    split at h
    · split at h
      · rename_i r hr
        simp only [Except.ok.injEq] at h; subst h
        simp [ih _ _ _ hr]
      · cases h
    · split at h
      · cases h
      · rename_i nl ind com hs
        simp only at h
        split at h
        · rename_i r hr
          simp only [Except.ok.injEq] at h; subst h
          rw [textOf_append, nicStep_text, ih _ _ _ hr, textOf_cons, split3_concat hs]
        · cases h

/-- `PostLex.process` preserves the text: the concatenation of the values is unchanged. -/
theorem postLex_text {ts out : List LTok} (h : postLex ts = .ok out) : textOf out = textOf ts :=
  postLexGo_text ts _ _ _ h

theorem postLexGo_vis (ts : List LTok) : ∀ (i p : Bool) (out : List LTok),
    postLexGo i p ts = .ok out → vis out = vis (ts.flatMap pieces) := by
  induction ts with
  | nil =>
    intro i p out h
    simp only [postLexGo, Except.ok.injEq] at h
    subst h
    cases i <;> cases p <;> simp [tEOL, tDEDENT, vis]
  | cons t ts ih =>
    intro i p out h
    rw [postLexGo] at h
    split at h
    · rename_i hty
      split at h
      · rename_i r hr
        simp only [Except.ok.injEq] at h; subst h
        rw [List.flatMap_cons, vis_append, ← ih _ _ _ hr]
        simp [pieces, hty, vis_cons]
      · cases h
    · rename_i hty
      split at h
      · cases h
      · rename_i nl ind com hs
        simp only at h
        split at h
        · rename_i r hr
          simp only [Except.ok.injEq] at h; subst h
          rw [List.flatMap_cons, vis_append, vis_append, ← ih _ _ _ hr, nicStep_vis]
          simp [pieces, hty, hs]
        · cases h

/-- The non-empty-valued output tokens of `PostLex.process` are, in order, the input tokens with each
`_NEWLINE_INDENT_COMMENT` replaced by its non-empty pieces (`_NEWLINE`, then `BLOCK_COMMENT` = indent+comment
or `INDENT`): nothing dropped, nothing duplicated, nothing reordered; everything else emitted is zero-width. -/
theorem postLex_keeps_nonempty {ts out : List LTok} (h : postLex ts = .ok out) :
    vis out = vis (ts.flatMap pieces) :=
  postLexGo_vis ts _ _ _ h

end Autobean.Lex
