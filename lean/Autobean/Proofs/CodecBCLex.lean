import Autobean.Proofs.CodecBC
/-! Lemmas for C12: BLOCK_COMMENT lexes the formatted comment back. -/
set_option linter.unusedSimpArgs false
namespace Autobean.Codec

def isCR (c : Char) : Bool := c == '\r'

/-- `line (_NEWLINE line)*` with a bound on the number of further lines -/
def lexLinesF (fuel : Nat) (ind : Bool) (s : Text) : Option (Text × Text) :=
  match lexBCLine ind s with
  | none => none
  | some (l, r) => some (l ++ (lexBCMore fuel ind r).1, (lexBCMore fuel ind r).2)

/-- No further comment line can be lexed from `rest`: it does not start with `\r*\n` followed by a comment line. -/
def StopBC (ind : Bool) (rest : Text) : Prop :=
  lexNewline rest = none ∨ ∃ nlx r, lexNewline rest = some (nlx, r) ∧ lexBCLine ind r = none

theorem lexBCMore_stop (fuel : Nat) (ind : Bool) (rest : Text) (h : StopBC ind rest) :
    lexBCMore fuel ind rest = ([], rest) := by
  cases fuel with
  | zero => rfl
  | succ f =>
    rcases h with h | ⟨nlx, r, h1, h2⟩
    · simp [lexBCMore, h]
    · simp [lexBCMore, h1, h2]

theorem stopBC_nil (ind : Bool) : StopBC ind [] := Or.inl (by simp [lexNewline])

theorem lexBCMore_step (f : Nat) (ind : Bool) (s nlx r x r' : Text)
    (h1 : lexNewline s = some (nlx, r)) (h2 : lexLinesF f ind r = some (x, r')) :
    lexBCMore (f + 1) ind s = (nlx ++ x, r') := by
  unfold lexLinesF at h2
  cases hl : lexBCLine ind r with
  | none => simp [hl] at h2
  | some p =>
    obtain ⟨l, r1⟩ := p
    simp [hl] at h2
    simp [lexBCMore, h1, hl, ← h2.1, ← h2.2]

theorem lexNewline_crs (crs t : Text) (h : ∀ c ∈ crs, c = '\r') :
    lexNewline (crs ++ '\n' :: t) = some (crs ++ ['\n'], t) := by
  have hall : ∀ c ∈ crs, (fun x : Char => x == '\r') c = true := by intro c hc; simp [h c hc]
  have hstop : Stops (fun x : Char => x == '\r') ('\n' :: t) := Or.inr ⟨'\n', t, rfl, by decide⟩
  have h1 := takeWhile_append_stop _ crs _ hall hstop
  have h2 := dropWhile_append_stop _ crs _ hall hstop
  simp only [lexNewline, h1, h2]
  simp

theorem lexIC_body (X tail : Text) (hX : ∀ c ∈ X, notEol c = true) (ht : Stops notEol tail) :
    lexIC (';' :: (X ++ tail)) = some (';' :: X, tail) := by
  simp [lexIC, takeWhile_append_stop notEol X tail hX ht, dropWhile_append_stop notEol X tail hX ht]

theorem lexBCLine_fmt (indent X tail : Text) (hi : ∀ c ∈ indent, isBlank c = true)
    (hX : ∀ c ∈ X, notEol c = true) (ht : Stops notEol tail) :
    lexBCLine (!indent.isEmpty) (indent ++ ';' :: (X ++ tail)) = some (indent ++ ';' :: X, tail) := by
  cases indent with
  | nil => simpa [lexBCLine] using lexIC_body X tail hX ht
  | cons w ws =>
    have hstop : Stops isBlank (';' :: (X ++ tail)) := Or.inr ⟨';', _, rfl, by decide⟩
    have h1 := takeWhile_append_stop isBlank (w :: ws) _ hi hstop
    have h2 := dropWhile_append_stop isBlank (w :: ws) _ hi hstop
    simp only [lexBCLine, List.isEmpty_cons, Bool.not_false, if_true, h1, h2, lexIC_body X tail hX ht]

/-- rendered non-last line: `indent;X\r*\n`, `X` free of `\r`, `\n` -/
def RLine (indent t : Text) : Prop :=
  ∃ X crs, t = indent ++ ';' :: (X ++ (crs ++ ['\n'])) ∧ (∀ c ∈ X, notEol c = true) ∧ (∀ c ∈ crs, c = '\r')

/-- rendered last line: `indent;X` -/
def RLast (indent t : Text) : Prop := ∃ X, t = indent ++ ';' :: X ∧ ∀ c ∈ X, notEol c = true

def Rendered (indent : Text) : List Text → Prop
  | [] => False
  | [t] => RLast indent t
  | t :: t' :: ts => RLine indent t ∧ Rendered indent (t' :: ts)

theorem stops_crs_nl (crs t : Text) (h : ∀ c ∈ crs, c = '\r') : Stops notEol (crs ++ '\n' :: t) := by
  cases crs with
  | nil => exact Or.inr ⟨'\n', t, rfl, by decide⟩
  | cons c cs =>
    have : c = '\r' := h c (by simp)
    subst this
    exact Or.inr ⟨'\r', cs ++ '\n' :: t, rfl, by decide⟩

theorem lexLinesF_rendered (indent rest : Text) (hi : ∀ c ∈ indent, isBlank c = true)
    (hr : Stops notEol rest) (hs : StopBC (!indent.isEmpty) rest) (ts : List Text) (h : Rendered indent ts) :
    ∀ fuel, ts.length ≤ fuel → lexLinesF fuel (!indent.isEmpty) (ts.flatten ++ rest) = some (ts.flatten, rest) := by
  induction ts with
  | nil => exact absurd h (by simp [Rendered])
  | cons t ts ih =>
    intro fuel hf
    cases ts with
    | nil =>
      obtain ⟨X, rfl, hX⟩ := h
      have := lexBCLine_fmt indent X rest hi hX hr
      simp only [List.flatten_cons, List.flatten_nil, List.append_nil, List.append_assoc, List.cons_append]
      simp [lexLinesF, this, lexBCMore_stop fuel _ rest hs]
    | cons t' ts' =>
      obtain ⟨⟨X, crs, rfl, hX, hcrs⟩, hrest⟩ := h
      cases fuel with
      | zero => simp at hf
      | succ f =>
        have hf' : (t' :: ts').length ≤ f := by simp at hf ⊢; omega
        have ih' := ih hrest f hf'
        have hl := lexBCLine_fmt indent X (crs ++ '\n' :: ((t' :: ts').flatten ++ rest)) hi hX (stops_crs_nl _ _ hcrs)
        have hn := lexNewline_crs crs ((t' :: ts').flatten ++ rest) hcrs
        have hm := lexBCMore_step f _ _ _ _ _ _ hn ih'
        have e : (((indent ++ ';' :: (X ++ (crs ++ ['\n']))) :: t' :: ts').flatten ++ rest)
            = indent ++ ';' :: (X ++ (crs ++ '\n' :: ((t' :: ts').flatten ++ rest))) := by
          simp [List.flatten_cons, List.append_assoc]
        rw [e]
        simp only [lexLinesF, hl, hm]
        simp [List.flatten_cons, List.append_assoc]

/-! ### from the domain predicate to the rendered shape -/

theorem mem_of_mem_dropWhile (p : Char → Bool) (l : Text) (c : Char) (h : c ∈ l.dropWhile p) : c ∈ l := by
  have := List.takeWhile_append_dropWhile (p := p) (l := l)
  have hm : c ∈ List.takeWhile p l ++ List.dropWhile p l := List.mem_append_right _ h
  rwa [this] at hm

theorem dom_last (l : Text) (hn : '\n' ∉ l) (hd : domBCLine l = true) : ∀ c ∈ l, notEol c = true := by
  simp only [domBCLine, Bool.or_eq_true, beq_iff_eq] at hd
  rcases hd with hd | hd
  · have := List.takeWhile_append_dropWhile (p := notEol) (l := l)
    rw [hd, List.append_nil] at this
    rw [← this]
    exact all_takeWhile notEol l
  · exfalso
    apply hn
    apply mem_of_mem_dropWhile notEol
    apply mem_of_mem_dropWhile (fun x => x == '\r')
    rw [hd]; simp

theorem dom_line (b : Text) (hd : domBCLine (b ++ ['\n']) = true) :
    ∃ body crs, b ++ ['\n'] = body ++ (crs ++ ['\n']) ∧ (∀ c ∈ body, notEol c = true) ∧ (∀ c ∈ crs, c = '\r') := by
  simp only [domBCLine, Bool.or_eq_true, beq_iff_eq] at hd
  have hsplit := List.takeWhile_append_dropWhile (p := notEol) (l := b ++ ['\n'])
  rcases hd with hd | hd
  · exfalso
    rw [hd, List.append_nil] at hsplit
    have := all_takeWhile notEol (b ++ ['\n']) '\n' (by rw [hsplit]; simp)
    exact absurd this (by decide)
  · refine ⟨(b ++ ['\n']).takeWhile notEol, ((b ++ ['\n']).dropWhile notEol).takeWhile (fun x => x == '\r'), ?_, all_takeWhile _ _, ?_⟩
    · have h2 := List.takeWhile_append_dropWhile (p := fun x : Char => x == '\r') (l := (b ++ ['\n']).dropWhile notEol)
      rw [hd] at h2
      rw [h2, hsplit]
    · intro c hc
      have := all_takeWhile _ _ c hc
      simpa using this

theorem tailOf_structured (body crs : Text) (hb : ∀ c ∈ body, notEol c = true) (hc : ∀ c ∈ crs, c = '\r') :
    ∃ X, tailOf (body ++ (crs ++ ['\n'])) = X ++ (crs ++ ['\n']) ∧ ∀ c ∈ X, notEol c = true := by
  cases body with
  | nil =>
    refine ⟨[], ?_, by simp⟩
    have : blankLine (crs ++ ['\n']) = true := by
      simp only [blankLine, List.all_append, List.all_cons, List.all_nil, Bool.and_true, Bool.and_eq_true, List.all_eq_true]
      exact ⟨fun c h => by rw [hc c h]; decide, by decide⟩
    simp [tailOf, this]
  | cons x xs =>
    have hx : notEol x = true := hb x (by simp)
    have : blankLine (x :: xs ++ (crs ++ ['\n'])) = false := by
      simp only [notEol, Bool.not_eq_true'] at hx
      simp [blankLine, hx]
    refine ⟨' ' :: x :: xs, by simp only [tailOf, this]; simp, ?_⟩
    intro c h
    simp only [List.mem_cons] at h
    rcases h with rfl | h
    · decide
    · exact hb c (by simpa using h)

theorem tailOf_last (l : Text) (h : ∀ c ∈ l, notEol c = true) : ∀ c ∈ tailOf l, notEol c = true := by
  unfold tailOf; split
  · exact h
  · intro c hc
    simp only [List.mem_cons] at hc
    rcases hc with rfl | hc
    · decide
    · exact h c hc

theorem rendered_fmt (indent : Text) (ls : List Text) (hwf : LinesWF ls) (hd : ∀ l ∈ ls, domBCLine l = true) :
    Rendered indent (ls.map (fmtBCLine indent)) := by
  induction ls with
  | nil => exact absurd hwf (by simp [LinesWF])
  | cons l ls ih =>
    cases ls with
    | nil =>
      exact ⟨tailOf l, fmtBCLine_eq indent l, tailOf_last l (dom_last l hwf (hd l (by simp)))⟩
    | cons l' ls' =>
      obtain ⟨⟨b, rfl, hb⟩, hwf'⟩ := hwf
      refine ⟨?_, ih hwf' (fun x hx => hd x (by simp [hx]))⟩
      obtain ⟨body, crs, e, h1, h2⟩ := dom_line b (hd _ (by simp))
      obtain ⟨X, eX, hX⟩ := tailOf_structured body crs h1 h2
      exact ⟨X, crs, by rw [fmtBCLine_eq, e, eX], hX, h2⟩

theorem length_le_flatten (ts : List Text) (h : ∀ t ∈ ts, t ≠ []) : ts.length ≤ ts.flatten.length := by
  induction ts with
  | nil => simp
  | cons t ts ih =>
    have ht : 0 < t.length := List.length_pos_iff.mpr (h t (by simp))
    have := ih (fun x hx => h x (by simp [hx]))
    simp only [List.length_cons, List.flatten_cons, List.length_append]
    omega

theorem lexBC_eq (s : Text) :
    lexBC s = lexLinesF s.length (match s with | [] => false | c :: _ => isBlank c) s := by
  unfold lexBC lexLinesF
  rfl

/-- BLOCK_COMMENT lexes `_format_value(indent, value)` back as one lexeme when the value is in the domain (every
`\r` inside a `\r*\n` run), the indent is in `[ \t]*`, and what follows neither continues the last line
(`rest` is empty or starts with `\r`/`\n`) nor is another comment line (`StopBC`). -/
theorem lexBC_fmtBC (indent v rest : Text) (hi : domIndent indent = true) (hv : domBCValue v = true)
    (hr : Stops notEol rest) (hs : StopBC (!indent.isEmpty) rest) :
    lexBC (fmtBC indent v ++ rest) = some (fmtBC indent v, rest) := by
  have hi' : ∀ c ∈ indent, isBlank c = true := by simpa [domIndent] using hi
  have hv' : ∀ l ∈ splitLines v, domBCLine l = true := by simpa [domBCValue] using hv
  obtain ⟨hwf, _⟩ := splitLines_wf v
  have hrend := rendered_fmt indent _ hwf hv'
  have hne : ∀ t ∈ (splitLines v).map (fmtBCLine indent), t ≠ [] := by
    intro t ht
    simp only [List.mem_map] at ht
    obtain ⟨l, _, rfl⟩ := ht
    rw [fmtBCLine_eq]; simp
  have hlen := length_le_flatten _ hne
  have hfuel : ((splitLines v).map (fmtBCLine indent)).length ≤ (fmtBC indent v ++ rest).length := by
    simp only [fmtBC, List.length_append] at hlen ⊢; omega
  have main := lexLinesF_rendered indent rest hi' hr hs _ hrend _ hfuel
  rw [lexBC_eq]
  have hind : (match fmtBC indent v ++ rest with | [] => false | c :: _ => isBlank c) = !indent.isEmpty := by
    cases hsl : splitLines v with
    | nil => exact absurd hsl (splitLines_ne_nil v)
    | cons l ls =>
      cases indent with
      | nil => simp [fmtBC, hsl, fmtBCLine_eq]; decide
      | cons w ws => simp [fmtBC, hsl, fmtBCLine_eq]; exact hi' w (by simp)
  rw [hind]
  exact main

end Autobean.Codec
