/-
Frame lemmas for optional / required slots (`Model/Slots.lean`), local form of DESIGN.md §3.4:
the store is `L ++ S ++ R` with `S` the parent's span and arbitrary `L`, `R`.
-/
import Autobean.Model.Slots
import Autobean.Proofs.SeqFrame

namespace Autobean.Slots
open Autobean.Seq

/-- create-left: `S = a ++ p :: b` (pivot `p`) becomes `a ++ p :: seps ++ child ++ b`. -/
theorem createLeft_frame {L R a b : List Tk} {p : Tk} (seps child : List Tk)
    (h : Distinct (L ++ (a ++ p :: b) ++ R)) :
    createLeft (L ++ (a ++ p :: b) ++ R) p.id seps child
      = .ok (L ++ (a ++ p :: (seps ++ child ++ b)) ++ R) := by
  have h' : Distinct ((L ++ a) ++ p :: (b ++ R)) := by simpa using h
  have := insertAfter_frame (seps ++ child) h'
  simpa [createLeft] using this

/-- create-right: `S = a ++ p :: b` becomes `a ++ child ++ seps ++ p :: b`. -/
theorem createRight_frame {L R a b : List Tk} {p : Tk} (seps child : List Tk)
    (h : Distinct (L ++ (a ++ p :: b) ++ R)) :
    createRight (L ++ (a ++ p :: b) ++ R) p.id seps child
      = .ok (L ++ (a ++ (child ++ seps ++ p :: b)) ++ R) := by
  have h' : Distinct ((L ++ a) ++ p :: (b ++ R)) := by simpa using h
  have := insertBefore_frame (child ++ seps) h'
  simpa [createRight] using this

/-- remove-left: what disappears is exactly `gap ++ child` (the tokens between the pivot and the child,
plus the child). -/
theorem removeLeft_frame {L R a b gap child : List Tk} {p c : Tk}
    (hc : child.getLast? = some c)
    (h : Distinct (L ++ (a ++ p :: (gap ++ child ++ b)) ++ R)) :
    removeLeft (L ++ (a ++ p :: (gap ++ child ++ b)) ++ R) p.id c.id
      = .ok (L ++ (a ++ p :: b) ++ R) := by
  have hne : gap ++ child ≠ [] := by
    intro e; rw [List.append_eq_nil_iff] at e; rw [e.2] at hc; simp at hc
  obtain ⟨f, m, hm⟩ : ∃ f m, gap ++ child = f :: m := by
    cases hgc : gap ++ child with
    | nil => exact absurd hgc hne
    | cons f m => exact ⟨f, m, rfl⟩
  have hlast : (gap ++ child).getLast? = some c := by
    rw [List.getLast?_append, hc]; rfl
  have h1 : Distinct ((L ++ a) ++ p :: ((gap ++ child) ++ (b ++ R))) := by simpa using h
  have e1 : next p.id ((L ++ a) ++ p :: ((gap ++ child) ++ (b ++ R))) = .ok (some f.id) := by
    rw [next_cut h1, hm]; rfl
  have h2 : Distinct ((L ++ a ++ [p]) ++ (gap ++ child) ++ (b ++ R)) := by simpa using h
  have e2 := removeRange_frame (a := L ++ a ++ [p]) (b := b ++ R) (mid := gap ++ child) (f := f) (l := c)
    (by rw [hm]; rfl) hlast h2
  have eS : L ++ (a ++ p :: (gap ++ child ++ b)) ++ R = (L ++ a) ++ p :: ((gap ++ child) ++ (b ++ R)) := by
    simp
  have eS2 : (L ++ a) ++ p :: ((gap ++ child) ++ (b ++ R)) = (L ++ a ++ [p]) ++ (gap ++ child) ++ (b ++ R) := by
    simp
  unfold removeLeft
  rw [eS, e1]
  simp only
  rw [eS2, e2]
  simp

/-- remove-right: what disappears is exactly `child ++ gap`. -/
theorem removeRight_frame {L R a b gap child : List Tk} {p c : Tk}
    (hc : child.head? = some c)
    (h : Distinct (L ++ (a ++ (child ++ gap ++ p :: b)) ++ R)) :
    removeRight (L ++ (a ++ (child ++ gap ++ p :: b)) ++ R) p.id c.id
      = .ok (L ++ (a ++ p :: b) ++ R) := by
  have hne : child ++ gap ≠ [] := by
    intro e; rw [List.append_eq_nil_iff] at e; rw [e.1] at hc; simp at hc
  obtain ⟨l, hl⟩ : ∃ l, (child ++ gap).getLast? = some l := by
    cases hgc : (child ++ gap).getLast? with
    | none => exact absurd (List.getLast?_eq_none_iff.mp hgc) hne
    | some l => exact ⟨l, rfl⟩
  have hhead : (child ++ gap).head? = some c := by
    rw [List.head?_append, hc]; rfl
  have h1 : Distinct ((L ++ a ++ (child ++ gap)) ++ p :: (b ++ R)) := by simpa using h
  have e1 : prev p.id ((L ++ a ++ (child ++ gap)) ++ p :: (b ++ R)) = .ok (some l.id) := by
    rw [prev_cut h1, List.getLast?_append, hl]; rfl
  have h2 : Distinct ((L ++ a) ++ (child ++ gap) ++ (p :: (b ++ R))) := by simpa using h
  have e2 := removeRange_frame (a := L ++ a) (b := p :: (b ++ R)) (mid := child ++ gap) (f := c) (l := l)
    hhead hl h2
  have eS : L ++ (a ++ (child ++ gap ++ p :: b)) ++ R = (L ++ a ++ (child ++ gap)) ++ p :: (b ++ R) := by
    simp
  have eS2 : (L ++ a ++ (child ++ gap)) ++ p :: (b ++ R) = (L ++ a) ++ (child ++ gap) ++ (p :: (b ++ R)) := by
    simp
  unfold removeRight
  rw [eS, e1]
  simp only
  rw [eS2, e2]
  simp

/-- replace: `S = a ++ old ++ b` becomes `a ++ new ++ b`. -/
theorem replaceNode_frame {L R a b old : List Tk} {f l : Tk} (new : List Tk)
    (hf : old.head? = some f) (hl : old.getLast? = some l)
    (h : Distinct (L ++ (a ++ old ++ b) ++ R)) :
    replaceNode (L ++ (a ++ old ++ b) ++ R) f.id l.id new = .ok (L ++ (a ++ new ++ b) ++ R) := by
  have h' : Distinct ((L ++ a) ++ old ++ (b ++ R)) := by simpa using h
  have := spliceRange_frame new hf hl h'
  simpa [replaceNode] using this

end Autobean.Slots
