/-
A2 with `indent` nodes: `cursorRun` succeeds exactly when the token-leaf indices are strictly increasing and
in range (plain A2) and every `indent` is well placed (`indentsPlaced`).
-/
import Autobean.Proofs.LexPrint

namespace Autobean.Lex

theorem findIndent_ge {toks : List LTok} {c j : Nat} (h : findIndent toks c = some j) : c ≤ j :=
  (findIndentGo_bounds _ _ _ h).1

theorem pairwise_head_le {l : List Nat} (hp : l.Pairwise (· < ·)) {h : Nat} (hh : l.head? = some h) :
    ∀ i ∈ l, h ≤ i := by
  cases l with
  | nil => cases hh
  | cons a r =>
    simp only [List.head?_cons, Option.some.injEq] at hh
    subst hh
    intro i hi
    rcases List.mem_cons.mp hi with rfl | hi
    · exact Nat.le_refl _
    · exact Nat.le_of_lt ((List.pairwise_cons.mp hp).1 i hi)

/-- The exact characterisation of `cursorRun`: from cursor `c` the run succeeds iff the leaf indices are
strictly increasing, all at or after `c` and in range, and the indents are well placed. -/
theorem cursorRun_iff (toks : List LTok) (evs : List Ev) : ∀ c,
    (cursorRun toks evs c).isSome ↔
      (leafIdxs evs).Pairwise (· < ·) ∧ (∀ i ∈ leafIdxs evs, c ≤ i ∧ i < toks.length) ∧
        indentsPlaced toks evs c = true := by
  induction evs with
  | nil => intro c; simp [cursorRun, leafIdxs, indentsPlaced]
  | cons e r ih =>
    intro c
    cases e with
    | ph => simp only [cursorRun, leafIdxs, indentsPlaced]; exact ih c
    | leaf i =>
      simp only [cursorRun, leafIdxs, indentsPlaced, List.pairwise_cons, List.mem_cons, forall_eq_or_imp]
      split
      · rename_i hci
        rw [ih (i + 1)]
        constructor
        · rintro ⟨hp, hb, hi⟩
          exact ⟨⟨fun j hj => (hb j hj).1, hp⟩,
            ⟨hci, fun j hj => ⟨by have := (hb j hj).1; omega, (hb j hj).2⟩⟩, hi⟩
        · rintro ⟨⟨hlt, hp⟩, ⟨_, hb⟩, hi⟩
          exact ⟨hp, fun j hj => ⟨hlt j hj, (hb j hj).2⟩, hi⟩
      · rename_i hci
        simp only [Option.isSome_none, Bool.false_eq_true, false_iff]
        rintro ⟨_, ⟨h1, _⟩, _⟩
        exact hci h1
    | indent =>
      simp only [cursorRun, leafIdxs, indentsPlaced]
      cases hf : findIndent toks c with
      | none => simp
      | some j =>
        have hcj := findIndent_ge hf
        simp only [Bool.and_eq_true]
        rw [ih (j + 1)]
        constructor
        · rintro ⟨hp, hb, hi⟩
          refine ⟨hp, fun i hi' => ⟨by have := (hb i hi').1; omega, (hb i hi').2⟩, ?_, hi⟩
          cases hh : (leafIdxs r).head? with
          | none => rfl
          | some i0 =>
            have := (hb i0 (List.mem_of_head? hh)).1
            simp only [decide_eq_true_eq]; omega
        · rintro ⟨hp, hb, hhd, hi⟩
          refine ⟨hp, fun i hi' => ⟨?_, (hb i hi').2⟩, hi⟩
          cases hh : (leafIdxs r).head? with
          | none =>
            cases hl : leafIdxs r with
            | nil => rw [hl] at hi'; cases hi'
            | cons a l => rw [hl] at hh; cases hh
          | some i0 =>
            rw [hh] at hhd
            simp only [decide_eq_true_eq] at hhd
            have := pairwise_head_le hp hh i hi'
            omega

end Autobean.Lex
