/-
The invariants: `Inv s ↔ SInv s ∧ CInv s`, the empty store, `from_tokens`, and the lemma that
re-indexing a tail of the block list re-establishes the block-list invariant.
-/
import Autobean.Proofs.StoreBuild

set_option linter.unusedSimpArgs false

namespace Autobean

theorem idxFrom_zero_iff (bs : List Block) :
    IdxFrom 0 bs ↔ ∀ p (h : p < bs.length), (bs[p]).idx = p := by
  unfold IdxFrom
  constructor
  · intro h p hp
    have := congrArg (fun l => l[p]?) h
    simp [hp] at this
    exact this
  · intro h
    apply List.ext_getElem (by simp)
    intro p h1 h2
    simp at h1
    simp [h p h1]

theorem forall_mem_iff_getElem {α} (l : List α) (P : α → Prop) :
    (∀ x ∈ l, P x) ↔ ∀ p (h : p < l.length), P (l[p]) := by
  constructor
  · intro h p hp; exact h _ (List.getElem_mem hp)
  · intro h x hx
    obtain ⟨p, hp, rfl⟩ := List.getElem_of_mem hx
    exact h p hp

/-- The block-list form is the same statement as `SInv ∧ CInv`. -/
theorem inv_iff (s : Store) : Inv s ↔ SInv s ∧ CInv s := by
  constructor
  · intro h
    refine ⟨⟨h.binv.nonempty, h.binv.noEmpty, (idxFrom_zero_iff _).1 h.binv.idx, h.binv.refsNodup,
      h.binv.refsLt, ?_, h.idsNodup, h.len⟩, ⟨h.tokSize, ?_⟩⟩
    · intro p hp j hj
      have := (setHandlesFrom_eq_self_iff _ _ _ _).1 (h.binv.bok _ (List.getElem_mem hp)).hs j hj
      simpa using this
    · intro b hb
      exact ⟨(h.binv.bok b hb).size, (h.binv.bok b hb).lni⟩
  · rintro ⟨h1, h2⟩
    refine ⟨⟨h1.nonempty, h1.noEmpty, (idxFrom_zero_iff _).2 h1.idx, h1.refsNodup, h1.refsLt, ?_⟩,
      h1.idsNodup, h2.tokSize, h1.len⟩
    intro b hb
    obtain ⟨p, hp, rfl⟩ := List.getElem_of_mem hb
    refine ⟨?_, (h2.blockSize _ (List.getElem_mem hp)).1, (h2.blockSize _ (List.getElem_mem hp)).2⟩
    rw [setHandlesFrom_eq_self_iff]
    intro j hj
    simpa using h1.handles p hp j hj

theorem Inv.sinv {s : Store} (h : Inv s) : SInv s := ((inv_iff s).1 h).1
theorem Inv.cinv {s : Store} (h : Inv s) : CInv s := ((inv_iff s).1 h).2
theorem inv_of {s : Store} (h1 : SInv s) (h2 : CInv s) : Inv s := (inv_iff s).2 ⟨h1, h2⟩

/-! ### Re-indexing a tail -/

theorem reindexFrom_split {i : Nat} {A R : List Block} (h : A.length ≤ i) :
    reindexFrom i 0 (A ++ R) = A ++ reindexFrom i A.length R := by
  rw [reindexFrom_append, reindexFrom_of_le (by simpa using h)]
  simp

/-- All of `BInv` except the stored indexes of the tail `R`, which are then re-assigned. -/
theorem binv_reindex {sid n : Nat} {A R : List Block} {i : Nat}
    (hi : i ≤ A.length) (hidx : IdxFrom 0 A) (hne : A ≠ [])
    (hrefs : ((A ++ R).map (·.ref)).Nodup)
    (hlt : ∀ x ∈ A ++ R, x.ref < n)
    (hbok : ∀ x ∈ A ++ R, BOK sid x)
    (hnoE : 1 < (A ++ R).length → ∀ x ∈ A ++ R, x.toks ≠ []) :
    BInv sid n (A ++ reindexFrom i A.length R) where
  nonempty := by simp [hne]
  noEmpty := by
    intro h x hx
    simp only [List.length_append, reindexFrom_length] at h
    simp only [List.mem_append] at hx
    rcases hx with hx | hx
    · exact hnoE (by simpa using h) x (by simp [hx])
    · obtain ⟨y, hy, k, rfl⟩ := mem_reindexFrom hx
      exact hnoE (by simpa using h) y (by simp [hy])
  idx := by
    rw [idxFrom_append]
    exact ⟨hidx, by simpa using idxFrom_reindexFrom R (by simpa using hi)⟩
  refsNodup := by simpa using hrefs
  refsLt := by
    intro x hx
    simp only [List.mem_append] at hx
    rcases hx with hx | hx
    · exact hlt x (by simp [hx])
    · obtain ⟨y, hy, k, rfl⟩ := mem_reindexFrom hx
      exact hlt y (by simp [hy])
  bok := by
    intro x hx
    simp only [List.mem_append] at hx
    rcases hx with hx | hx
    · exact hbok x (by simp [hx])
    · obtain ⟨y, hy, k, rfl⟩ := mem_reindexFrom hx
      exact (bok_idx_irrel k).2 (hbok y (by simp [hy]))

theorem flatMap_toks_reindex (A R : List Block) (i k : Nat) :
    (A ++ reindexFrom i k R).flatMap (·.toks) = (A ++ R).flatMap (·.toks) := by
  simp

/-! ### The empty store and `from_tokens` -/

theorem inv_empty (sid : Nat) : Inv (Store.empty sid) where
  binv :=
    { nonempty := by simp [Store.empty]
      noEmpty := by simp [Store.empty]
      idx := by simp [Store.empty, IdxFrom]
      refsNodup := by simp [Store.empty]
      refsLt := by simp [Store.empty]
      bok := by
        intro b hb
        simp only [Store.empty, List.mem_singleton] at hb
        subst hb
        exact ⟨rfl, rfl, rfl⟩ }
  idsNodup := by simp [Store.empty, Store.ids, Store.toList]
  tokSize := by simp [Store.empty, Store.toList]
  len := by simp [Store.empty, Store.toList]

theorem any_isSome_false {ts : List Tok} (h : ∀ t ∈ ts, t.h = none) : ts.any (·.h.isSome) = false := by
  simp only [List.any_eq_false]
  intro t ht; simp [h t ht]

/-- `from_tokens` on fresh, pairwise distinct tokens builds a store that satisfies the invariants
and reads back as the given list. -/
theorem fromTokens_inv {c : LF} (hc : c.WF) (sid : Nat) {ts : List Tok} (hf : FreshToks ts) :
    ∃ s, Store.fromTokens c sid ts = .ok s ∧ Inv s ∧ s.sid = sid ∧ s.toList.map Tok.strip = ts.map Tok.strip := by
  unfold Store.fromTokens
  rw [any_isSome_false hf.detached]
  by_cases he : ts = []
  · subst he
    exact ⟨Store.empty sid, rfl, inv_empty sid, rfl, rfl⟩
  · have hemp : ts.isEmpty = false := by cases ts <;> simp_all
    simp only [hemp, Bool.false_eq_true, if_false]
    refine ⟨_, rfl, ?_, rfl, ?_⟩
    · have hstrip := buildBlocks_strip c sid 1 0 ts
      refine ⟨⟨buildBlocks_ne_nil c sid 1 0 he, fun _ => buildBlocks_noEmpty hc sid 1 0 ts,
        buildBlocks_idx c sid 1 0 ts, ?_, ?_, buildBlocks_bok c sid 1 0 ts⟩, ?_, ?_, ?_⟩
      · rw [buildBlocks_refs]; exact List.nodup_range'
      · intro b hb
        have : b.ref ∈ (buildBlocks c sid 1 0 ts).map (·.ref) := List.mem_map_of_mem hb
        rw [buildBlocks_refs, List.mem_range'_1] at this
        exact this.2
      · show ((buildBlocks c sid 1 0 ts).flatMap (·.toks)).map (·.id) |>.Nodup
        rw [map_id_of_strip hstrip]; exact hf.nodup
      · exact forall_of_strip hstrip (fun t => t.size = tokSize t.text) (fun t => Iff.rfl) hf.sized
      · exact (length_of_strip hstrip).symm
    · exact buildBlocks_strip c sid 1 0 ts

end Autobean
