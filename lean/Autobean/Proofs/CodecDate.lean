import Autobean.Proofs.CodecStr
/-! Lemmas for C12: digits, Date. -/
set_option linter.unusedSimpArgs false
namespace Autobean.Codec

theorem digitVal_digitChar (k : Nat) (h : k < 10) : digitVal (digitChar k) = k := by
  match k, h with
  | 0, _ | 1, _ | 2, _ | 3, _ | 4, _ | 5, _ | 6, _ | 7, _ | 8, _ | 9, _ => rfl

theorem isDigit_digitChar (k : Nat) : isDigit (digitChar k) = true := by
  unfold digitChar; split <;> decide

theorem isDateSep_digitChar (k : Nat) : isDateSep (digitChar k) = false := by
  unfold digitChar; split <;> decide

theorem isDigit_not_sep (c : Char) (h : isDigit c = true) : isDateSep c = false := by
  simp only [isDigit, Bool.and_eq_true, decide_eq_true_eq] at h
  have h1 : c ≠ '-' := by rintro rfl; exact absurd h.1 (by decide)
  have h2 : c ≠ '/' := by rintro rfl; exact absurd h.1 (by decide)
  simp [isDateSep, h1, h2]

theorem toNat_pad2 (n : Nat) (h : n < 100) : toNat (pad2 n) = n := by
  simp only [toNat, pad2, toNatAux]
  rw [digitVal_digitChar _ (Nat.mod_lt _ (by decide)), digitVal_digitChar _ (Nat.mod_lt _ (by decide))]
  omega

theorem toNat_pad4 (n : Nat) (h : n < 10000) : toNat (pad4 n) = n := by
  simp only [toNat, pad4, toNatAux]
  rw [digitVal_digitChar _ (Nat.mod_lt _ (by decide)), digitVal_digitChar _ (Nat.mod_lt _ (by decide)),
    digitVal_digitChar _ (Nat.mod_lt _ (by decide)), digitVal_digitChar _ (Nat.mod_lt _ (by decide))]
  omega

theorem isNumeral_pad2 (n : Nat) : isNumeral (pad2 n) = true := by
  simp [isNumeral, pad2, isDigit_digitChar]

theorem isNumeral_pad4 (n : Nat) : isNumeral (pad4 n) = true := by
  simp [isNumeral, pad4, isDigit_digitChar]

theorem splitSep_fmtDate (v : Date) : splitSep (fmtDate v) = [pad4 v.y, pad2 v.m, pad2 v.d] := by
  have hs : isDateSep '-' = true := by decide
  simp [fmtDate, pad4, pad2, splitSep, isDateSep_digitChar, hs]

theorem validDate_bounds (v : Date) (h : validDate v = true) : v.y < 10000 ∧ v.m < 100 ∧ v.d < 100 := by
  simp only [validDate, Bool.and_eq_true, decide_eq_true_eq] at h
  obtain ⟨⟨⟨⟨⟨_, h2⟩, _⟩, h4⟩, _⟩, h6⟩ := h
  have : daysIn v.y v.m ≤ 31 := by
    unfold daysIn; split
    · split <;> omega
    · split <;> omega
  omega

/-- `Date._parse_value(Date._format_value(d)) == d` for every calendar date (1 ≤ year ≤ 9999). -/
theorem parseDate_fmtDate (v : Date) (h : validDate v = true) : parseDate (fmtDate v) = .ok v := by
  obtain ⟨hy, hm, hd⟩ := validDate_bounds v h
  unfold parseDate
  rw [splitSep_fmtDate]
  simp only [isNumeral_pad4, isNumeral_pad2, Bool.and_self, if_true, toNat_pad4 _ hy, toNat_pad2 _ hm, toNat_pad2 _ hd]
  simp [h]

/-- DATE lexes the formatted date back as one lexeme, whatever follows (year is 4 digits then `-`; month and day have
the maximal 2 digits). -/
theorem lexDate_fmtDate (v : Date) (rest : Text) : lexDate (fmtDate v ++ rest) = some (fmtDate v, rest) := by
  have hs : isDateSep '-' = true := by decide
  have hd : isDigit '-' = false := by decide
  simp [lexDate, fmtDate, pad4, pad2, List.takeWhile_cons, List.dropWhile_cons, isDigit_digitChar, hd, hs, lexD12]

/-! ### every DATE lexeme is split into three numerals; only the calendar check can reject it -/

theorem splitSep_ne_nil (s : Text) : splitSep s ≠ [] := by
  induction s with
  | nil => simp [splitSep]
  | cons c s ih =>
    simp only [splitSep]
    split
    · simp
    · split <;> simp

theorem splitSep_digits (a : Text) (h : ∀ c ∈ a, isDigit c = true) : splitSep a = [a] := by
  induction a with
  | nil => rfl
  | cons c a ih =>
    have hc := isDigit_not_sep c (h c (by simp))
    simp [splitSep, ih (fun x hx => h x (by simp [hx])), hc]

theorem splitSep_digits_sep (a : Text) (c : Char) (t : Text) (h : ∀ x ∈ a, isDigit x = true) (hc : isDateSep c = true) :
    splitSep (a ++ c :: t) = a :: splitSep t := by
  induction a with
  | nil =>
    cases hs : splitSep t with
    | nil => exact absurd hs (splitSep_ne_nil t)
    | cons l ls => simp [splitSep, hs, hc]
  | cons x a ih =>
    have hx := isDigit_not_sep x (h x (by simp))
    simp [splitSep, ih (fun y hy => h y (by simp [hy])), hx]

theorem lexD12_shape (s m r : Text) (h : lexD12 s = some (m, r)) : m ≠ [] ∧ ∀ c ∈ m, isDigit c = true := by
  unfold lexD12 at h
  split at h
  · simp at h
  · split at h
    · simp only [Option.some.injEq, Prod.mk.injEq] at h; obtain ⟨rfl, rfl⟩ := h; simp [*]
    · simp at h
  · split at h
    · split at h
      · simp only [Option.some.injEq, Prod.mk.injEq] at h; obtain ⟨rfl, rfl⟩ := h; simp [*]
      · simp only [Option.some.injEq, Prod.mk.injEq] at h; obtain ⟨rfl, rfl⟩ := h; simp [*]
    · simp at h

theorem isNumeral_of (m : Text) (h1 : m ≠ []) (h2 : ∀ c ∈ m, isDigit c = true) : isNumeral m = true := by
  unfold isNumeral
  simp only [Bool.and_eq_true, List.all_eq_true]
  exact ⟨by simpa using h1, h2⟩

/-- A DATE lexeme `x` is `a<sep>b<sep>c` with three numerals, and `Date._parse_value` rejects it only when
`datetime.date(int(a), int(b), int(c))` does (not a calendar date, or year 0 / above 9999). -/
theorem parseDate_of_lexDate (s x r : Text) (h : lexDate s = some (x, r)) :
    ∃ a b c, splitSep x = [a, b, c] ∧
      parseDate x = if validDate ⟨toNat a, toNat b, toNat c⟩ then .ok ⟨toNat a, toNat b, toNat c⟩ else .error "ValueError" := by
  unfold lexDate at h
  simp only at h
  split at h
  · simp at h
  · rename_i hlen
    split at h
    · simp at h
    · rename_i s1 r1 _
      split at h
      · simp at h
      · rename_i hs1
        split at h
        · simp at h
        · rename_i ms r2 hm
          split at h
          · simp at h
          · rename_i s2 r3
            split at h
            · simp at h
            · rename_i hs2
              split at h
              · simp at h
              · rename_i ds r4 hd
                simp only [Option.some.injEq, Prod.mk.injEq] at h
                obtain ⟨rfl, _⟩ := h
                have hy := all_takeWhile isDigit s
                have hyne : s.takeWhile isDigit ≠ [] := by
                  intro e; rw [e] at hlen; simp at hlen
                obtain ⟨hm1, hm2⟩ := lexD12_shape _ _ _ hm
                obtain ⟨hd1, hd2⟩ := lexD12_shape _ _ _ hd
                have hs1' : isDateSep s1 = true := by simpa using hs1
                have hs2' : isDateSep s2 = true := by simpa using hs2
                have hsplit : splitSep (s.takeWhile isDigit ++ s1 :: (ms ++ s2 :: ds)) = [s.takeWhile isDigit, ms, ds] := by
                  rw [splitSep_digits_sep _ _ _ hy hs1', splitSep_digits_sep _ _ _ hm2 hs2', splitSep_digits _ hd2]
                refine ⟨_, _, _, hsplit, ?_⟩
                unfold parseDate
                rw [hsplit]
                simp only [isNumeral_of _ hyne hy, isNumeral_of _ hm1 hm2, isNumeral_of _ hd1 hd2, Bool.and_self, if_true]

end Autobean.Codec
