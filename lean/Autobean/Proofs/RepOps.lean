/-
Frame theorems of the public `RepeatedNodeWrapper` methods under `RegionWF`.
-/
import Autobean.Proofs.RepInsert
import Autobean.Proofs.RepDelete

namespace Autobean.Rep
open Autobean.Seq

/-- The segments after inserting the batch `vs` at position `|pre|` of a region `pre ++ post`
(what `_insert_tokens` does when `items` is up to date). -/
def insertSegs (c : Cfg) (ctr : Nat) : List Seg → List Seg → List (List Tk) → List Seg
  | [], [], vs => beforeSegs c ctr vs
  | [], sg0 :: post', vs => rightSegs c.seps ctr sg0.1 vs sg0.2 ++ post'
  | sg :: pre, post, vs => (sg :: pre) ++ leftSegs c.seps ctr vs ++ post

/-- The allocation counter after `_insert_tokens` inserted the batch `vs`. -/
def insertCtr (c : Cfg) (ctr : Nat) : List Seg → List Seg → List (List Tk) → Nat
  | [], [], vs => beforeCtr c ctr vs
  | _, _, vs => ctr + vs.length * c.seps.length

/-- The segments after deleting `mid` from `pre ++ mid ++ post` (what `_del_tokens` does). -/
def deleteSegs : List Seg → List Seg → List Seg → List Seg
  | [], sg0 :: _, sgs :: post' => (sg0.1, sgs.2) :: post'
  | pre, _, post => pre ++ post

theorem beforeSegs_spans (c : Cfg) (ctr : Nat) (vs : List (List Tk)) : spans (beforeSegs c ctr vs) = vs.map spanOf := by
  cases vs with
  | nil => rfl
  | cons v vs =>
    have := leftSegs_spans c.seps (ctr + c.sepsBefore.length) vs
    simp [beforeSegs, spans] at this ⊢; exact this

theorem beforeSegs_items (c : Cfg) (ctr : Nat) (vs : List (List Tk)) : itemsOf (beforeSegs c ctr vs) = vs := by
  cases vs with
  | nil => rfl
  | cons v vs =>
    have := leftSegs_items c.seps (ctr + c.sepsBefore.length) vs
    simp [beforeSegs, itemsOf] at this ⊢; exact this

theorem beforeSegs_nonempty (c : Cfg) (ctr : Nat) (vs : List (List Tk)) (h : ∀ v ∈ vs, v ≠ []) :
    ItemsNonempty (beforeSegs c ctr vs) := by
  cases vs with
  | nil => simp [beforeSegs, ItemsNonempty]
  | cons v vs =>
    simp only [beforeSegs]
    exact ItemsNonempty.cons.mpr ⟨h v (by simp), leftSegs_nonempty _ _ _ (fun w hw => h w (by simp [hw]))⟩

theorem insertSegs_spans (c : Cfg) (ctr : Nat) (pre post : List Seg) (vs : List (List Tk)) :
    spans (insertSegs c ctr pre post vs) = spans pre ++ vs.map spanOf ++ spans post := by
  cases pre with
  | nil =>
    cases post with
    | nil => simp only [insertSegs]; rw [beforeSegs_spans]; simp [spans]
    | cons sg0 post' =>
      simp only [insertSegs]; rw [spans_append, rightSegs_spans]; simp [spans]
  | cons sg pre =>
    simp only [insertSegs]; rw [spans_append, spans_append, leftSegs_spans]

theorem insertSegs_items (c : Cfg) (ctr : Nat) (pre post : List Seg) (vs : List (List Tk)) :
    itemsOf (insertSegs c ctr pre post vs) = itemsOf pre ++ vs ++ itemsOf post := by
  cases pre with
  | nil =>
    cases post with
    | nil => simp only [insertSegs]; rw [beforeSegs_items]; simp [itemsOf]
    | cons sg0 post' =>
      have := rightSegs_items c.seps ctr sg0.1 vs sg0.2
      simp [insertSegs, itemsOf] at this ⊢; simp [this]
  | cons sg pre =>
    have := leftSegs_items c.seps ctr vs
    simp [insertSegs, itemsOf] at this ⊢; simp [this]

theorem deleteSegs_spans (pre mid post : List Seg) : spans (deleteSegs pre mid post) = spans pre ++ spans post := by
  cases pre with
  | nil =>
    cases mid with
    | nil => simp [deleteSegs, spans]
    | cons sg0 mid' =>
      cases post with
      | nil => simp [deleteSegs, spans]
      | cons sgs post' => simp [deleteSegs, spans]
  | cons sg pre => simp only [deleteSegs]; rw [spans_append]

theorem deleteSegs_items (pre mid post : List Seg) : itemsOf (deleteSegs pre mid post) = itemsOf pre ++ itemsOf post := by
  cases pre with
  | nil =>
    cases mid with
    | nil => simp [deleteSegs, itemsOf]
    | cons sg0 mid' =>
      cases post with
      | nil => simp [deleteSegs, itemsOf]
      | cons sgs post' => simp [deleteSegs, itemsOf]
  | cons sg pre => simp [deleteSegs, itemsOf]

theorem deleteSegs_nonempty {pre mid post : List Seg} (h : ItemsNonempty (pre ++ mid ++ post)) :
    ItemsNonempty (deleteSegs pre mid post) := by
  have h1 := (ItemsNonempty.append.mp h)
  have h2 := (ItemsNonempty.append.mp h1.1)
  cases pre with
  | nil =>
    cases mid with
    | nil => simpa [deleteSegs] using h1.2
    | cons sg0 mid' =>
      cases post with
      | nil => simp [deleteSegs, ItemsNonempty]
      | cons sgs post' =>
        have := ItemsNonempty.cons.mp h1.2
        exact ItemsNonempty.cons.mpr ⟨this.1, this.2⟩
  | cons sg pre => exact ItemsNonempty.append.mpr ⟨h2.1, h1.2⟩

/-- `_del_tokens(|pre|, |pre| + |mid|)` on a well-formed region, all cases. -/
theorem delTokens_region {c : Cfg} {store : List Tk} {items : List Span} {L R : List Tk} {ph : Tk}
    {pre mid post : List Seg} (wf : RegionWF c store items L R ph (pre ++ mid ++ post)) :
    delTokens c store items pre.length (pre.length + mid.length)
      = .ok (L ++ layout ph (deleteSegs pre mid post) ++ R) := by
  cases mid with
  | nil =>
    rw [delTokens_noop c store items (by simp)]
    have : deleteSegs pre [] post = pre ++ post := by cases pre <;> rfl
    rw [this, wf.store_eq]; simp
  | cons sg0 mid' =>
    cases pre with
    | cons sg pre' =>
      have := delTokens_tail wf (by simp) (Or.inl (by simp))
      simpa [deleteSegs] using this
    | nil =>
      cases post with
      | nil =>
        have := delTokens_tail wf (by simp) (Or.inr rfl)
        simpa [deleteSegs] using this
      | cons sgs post' =>
        have wf' : RegionWF c store items L R ph ((sg0.1, sg0.2) :: mid' ++ (sgs.1, sgs.2) :: post') := by
          simpa using wf
        have := delTokens_head wf'
        simpa [deleteSegs] using this

/-- The region after `_del_tokens` is again well-formed (with the items list brought up to date). -/
theorem RegionWF.delete {c : Cfg} {store : List Tk} {items : List Span} {L R : List Tk} {ph : Tk}
    {pre mid post : List Seg} (wf : RegionWF c store items L R ph (pre ++ mid ++ post)) :
    RegionWF c (L ++ layout ph (deleteSegs pre mid post) ++ R) (spans pre ++ spans post) L R ph
      (deleteSegs pre mid post) := by
  refine ⟨rfl, ?_, wf.ph_id, deleteSegs_nonempty wf.nonempty, (deleteSegs_spans pre mid post).symm⟩
  have hd := wf.distinct
  rw [wf.store_eq] at hd
  cases pre with
  | cons sg pre' =>
    have e : L ++ layout ph (sg :: pre' ++ mid ++ post) ++ R
        = (L ++ layout ph (sg :: pre')) ++ body mid ++ (body post ++ R) := by
      rw [layout_append, layout_append]; simp
    rw [e] at hd
    have := hd.remove
    have e2 : deleteSegs (sg :: pre') mid post = (sg :: pre') ++ post := rfl
    rw [e2, layout_append]
    simpa using this
  | nil =>
    cases mid with
    | nil => simpa [deleteSegs] using hd
    | cons sg0 mid' =>
      cases post with
      | nil =>
        have e : L ++ layout ph ([] ++ sg0 :: mid' ++ []) ++ R = (L ++ [ph]) ++ body (sg0 :: mid') ++ R := by
          simp [layout]
        rw [e] at hd
        have := hd.remove
        simpa [deleteSegs, layout] using this
      | cons sgs post' =>
        have e : L ++ layout ph ([] ++ sg0 :: mid' ++ sgs :: post') ++ R
            = (L ++ ph :: sg0.1) ++ (sg0.2 ++ body mid' ++ sgs.1) ++ (sgs.2 ++ body post' ++ R) := by
          simp [layout, body_append]
        rw [e] at hd
        have := hd.remove
        simpa [deleteSegs, layout] using this

/-- `separators_before_last` / the lazily computed reference of value-first mode: the token right before
the first item, i.e. the last token of `L ++ ph :: gap₀`. -/
theorem prev_first_item {c : Cfg} {store : List Tk} {items : List Span} {L R : List Tk} {ph : Tk}
    {sg0 : Seg} {rest : List Seg} (wf : RegionWF c store items L R ph (sg0 :: rest)) :
    ∃ x, (L ++ ph :: sg0.1).getLast? = some x ∧ items[0]? = some (spanOf sg0.2) ∧
      prev (spanOf sg0.2).first store = .ok (some x.id) := by
  have hit : sg0.2 ≠ [] := (ItemsNonempty.cons.mp wf.nonempty).1
  obtain ⟨f, hf⟩ := exists_head hit
  obtain ⟨x, hx⟩ := exists_getLast (v := L ++ ph :: sg0.1) (by simp)
  refine ⟨x, hx, by rw [wf.items_eq]; simp [spans], ?_⟩
  have hstore : store = (L ++ ph :: sg0.1) ++ (sg0.2 ++ body rest ++ R) := by
    rw [wf.store_eq]; simp [layout]
  have hd : Distinct ((L ++ ph :: sg0.1) ++ (sg0.2 ++ body rest ++ R)) := by rw [← hstore]; exact wf.distinct
  have hq : (sg0.2 ++ body rest ++ R).head? = some f := by
    rw [List.append_assoc, List.head?_append, hf]; rfl
  rw [spanOf_first hf, hstore, prev_before hq hd, hx]; rfl

/-- `_insert_tokens(|pre|, vs)` with default `length` / `separators_before_last` on a well-formed region
(the form used by `insert`, `append`, `extend`). -/
theorem insertTokens_region {c : Cfg} {store : List Tk} {items : List Span} {L R : List Tk} {ph : Tk}
    {pre post : List Seg} (ctr : Nat) (vs : List (List Tk))
    (wf : RegionWF c store items L R ph (pre ++ post)) :
    insertTokens c store items ctr pre.length vs none none
      = .ok (L ++ layout ph (insertSegs c ctr pre post vs) ++ R, insertCtr c ctr pre post vs) := by
  have hd := wf.distinct
  cases pre with
  | cons sg pre' =>
    have hne_pre : ItemsNonempty (sg :: pre') := (ItemsNonempty.append.mp wf.nonempty).1
    obtain ⟨t, ht, hpl⟩ := prevLast_eq (c := c) (ph := ph) (sg :: pre') post wf.ph_id hne_pre
    rw [← wf.items_eq] at hpl
    have hstore : store = (L ++ layout ph (sg :: pre')) ++ (body post ++ R) := by
      rw [wf.store_eq, layout_append]; simp
    have hP : (L ++ layout ph (sg :: pre')).getLast? = some t := by
      rw [List.getLast?_append, ht]; rfl
    rw [hstore] at hd ⊢
    rw [insertTokens_left ctr (sg :: pre').length vs none none (by simp) hpl hP hd]
    simp [insertSegs, insertCtr, layout, body_append]
  | nil =>
    cases post with
    | nil =>
      have hstore : store = (L ++ [ph]) ++ R := by rw [wf.store_eq]; simp [layout]
      have hlen : (none : Option Nat).getD items.length = 0 := by rw [wf.items_eq]; simp [spans]
      rw [hstore] at hd ⊢
      have h := insertTokens_before (c := c) (items := items) ctr vs none none hlen wf.ph_id
        (by simp) hd
      simp only [List.length_nil]
      rw [h]
      simp [insertSegs, insertCtr, layout]
    | cons sg0 post' =>
      obtain ⟨x, hx, hget, hprev⟩ := prev_first_item (by simpa using wf)
      have hstore : store = (L ++ ph :: sg0.1) ++ (sg0.2 ++ body post' ++ R) := by
        rw [wf.store_eq]; simp [layout]
      have hlen : (none : Option Nat).getD items.length ≠ 0 := by rw [wf.items_eq]; simp [spans]
      cases vs with
      | nil =>
        have hpl : prevLast c items 0 = .ok ph.id := by simp [prevLast, wf.ph_id]
        have hstore2 : store = (L ++ [ph]) ++ (body (sg0 :: post') ++ R) := by
          rw [wf.store_eq]; simp [layout]
        rw [hstore2] at hd ⊢
        simp only [List.length_nil]
        rw [insertTokens_nil (c := c) ctr 0 none none hpl (by simp) hd]
        simp [insertSegs, insertCtr, rightSegs, layout]
      | cons v vs' =>
        have hres : resolveSbl store items none = .ok x.id := by
          simp only [resolveSbl, hget, hprev]
        rw [hstore] at hd hres ⊢
        simp only [List.length_nil]
        rw [insertTokens_right ctr v vs' none none hlen hres hx hd]
        simp [insertSegs, insertCtr, layout, body_append, body_rightSegs]

end Autobean.Rep
