import Autobean.Proofs.Comments
/-
The ownership invariant of C14 and its preservation by every claim / unclaim function of the model.
-/
namespace Autobean.Comments

/-- Every block comment is held by at most one ownership slot, a slot holds one comment, and the `claimed` flag of a
comment says whether a slot holds it. -/
structure OwnInv (d : Doc) : Prop where
  ids : IdsNodup d.store
  lkeys : (d.leading.map (·.1)).Nodup
  tkeys : (d.trailing.map (·.1)).Nodup
  uniq : (owned d).Nodup
  flags : ∀ t ∈ d.store, t.kind = .blockComment → (t.claimed = true ↔ t.id ∈ owned d)

/-! ### flags -/

theorem setFlag_eq_setFlags (c : Nat) (b : Bool) (s : Store) : setFlag c b s = setFlags [c] b s := by
  simp [setFlag, setFlags]

theorem setFlags_ids (ids : List Nat) (b : Bool) (s : Store) : (setFlags ids b s).map (·.id) = s.map (·.id) := by
  simp only [setFlags, List.map_map]
  apply List.map_congr_left
  intro t _
  simp only [Function.comp]
  split <;> rfl

theorem idsNodup_of_perm_setFlags {s s' : Store} {ids : List Nat} {b : Bool}
    (hp : s'.Perm (setFlags ids b s)) (h : IdsNodup s) : IdsNodup s' := by
  have := (hp.map (·.id))
  rw [setFlags_ids] at this
  exact this.nodup_iff.mpr h

/-- How the flag/ownership correspondence moves when the comments `ids` get flag `b`. -/
theorem flags_after {s s' : Store} {own own' ids : List Nat} {b : Bool}
    (hp : s'.Perm (setFlags ids b s))
    (hflags : ∀ t ∈ s, t.kind = .blockComment → (t.claimed = true ↔ t.id ∈ own))
    (hin : ∀ i, i ∈ ids → (b = true ↔ i ∈ own'))
    (hout : ∀ i, i ∉ ids → (i ∈ own' ↔ i ∈ own)) :
    ∀ t ∈ s', t.kind = .blockComment → (t.claimed = true ↔ t.id ∈ own') := by
  intro t ht hk
  have ht' := hp.mem_iff.mp ht
  simp only [setFlags, List.mem_map] at ht'
  obtain ⟨u, hu, rfl⟩ := ht'
  by_cases hc : u.kind = .blockComment ∧ u.id ∈ ids
  · simp only [hc, and_self, if_true]
    exact hin u.id hc.2
  · simp only [hc, if_false] at hk ⊢
    have hni : u.id ∉ ids := fun h => hc ⟨hk, h⟩
    rw [hout u.id hni]
    exact hflags u hu hk

/-! ### assoc lists -/

theorem lookup_none_iff (n : Nat) (l : List (Nat × Nat)) : lookup n l = none ↔ n ∉ l.map (·.1) := by
  induction l with
  | nil => simp [lookup]
  | cons p r ih =>
    obtain ⟨k, v⟩ := p
    simp only [lookup, List.map_cons, List.mem_cons, not_or]
    by_cases h : k = n
    · simp [h]
    · simp [h, ih, Ne.symm h]

theorem lookup_perm {n c : Nat} {l : List (Nat × Nat)} (h : lookup n l = some c) :
    (l.map (·.2)).Perm (c :: (eraseKey n l).map (·.2)) := by
  induction l with
  | nil => simp [lookup] at h
  | cons p r ih =>
    obtain ⟨k, v⟩ := p
    simp only [lookup] at h
    by_cases hk : k = n
    · simp only [hk, if_true, Option.some.injEq] at h
      simp [eraseKey, hk, h]
    · simp only [hk, if_false] at h
      simp only [eraseKey, hk, if_false, List.map_cons]
      exact ((ih h).cons v).trans (List.Perm.swap _ _ _)

theorem eraseKey_keys_sublist (n : Nat) (l : List (Nat × Nat)) :
    ((eraseKey n l).map (·.1)).Sublist (l.map (·.1)) := by
  induction l with
  | nil => simp [eraseKey]
  | cons p r ih =>
    obtain ⟨k, v⟩ := p
    simp only [eraseKey]
    split
    · simp
    · simp only [List.map_cons]; exact ih.cons_cons _

theorem lookup_eraseKey_self {n : Nat} {l : List (Nat × Nat)} (h : (l.map (·.1)).Nodup) :
    lookup n (eraseKey n l) = none := by
  induction l with
  | nil => simp [eraseKey, lookup]
  | cons p r ih =>
    obtain ⟨k, v⟩ := p
    simp only [List.map_cons, List.nodup_cons] at h
    simp only [eraseKey]
    by_cases hk : k = n
    · simp only [hk, if_true]
      rw [lookup_none_iff]; rw [← hk]; exact h.1
    · simp [hk, lookup, ih h.2]

theorem lookup_eraseKey_ne {n m : Nat} (hne : m ≠ n) (l : List (Nat × Nat)) :
    lookup m (eraseKey n l) = lookup m l := by
  induction l with
  | nil => rfl
  | cons p r ih =>
    obtain ⟨k, v⟩ := p
    simp only [eraseKey]
    by_cases hk : k = n
    · have : k ≠ m := fun h => hne (h ▸ hk)
      simp [hk, lookup]
      intro h; exact absurd h.symm hne
    · simp [hk, lookup, ih]

theorem itemCommentIds_append (a b : List Item) : itemCommentIds (a ++ b) = itemCommentIds a ++ itemCommentIds b := by
  simp [itemCommentIds]

theorem itemCommentIds_commentItems (l : List Tk) : itemCommentIds (l.map commentItem) = l.map (·.id) := by
  induction l with
  | nil => rfl
  | cons a l ih => simp [itemCommentIds, commentItem] at ih ⊢; exact ih

theorem itemCommentIds_cons (it : Item) (l : List Item) :
    itemCommentIds (it :: l) = (if it.isComment then [it.first] else []) ++ itemCommentIds l := by
  simp only [itemCommentIds, List.filter_cons]
  split <;> simp

/-- Replacing the items of field `r`: what leaves and what enters the owned comments. -/
theorem flatMap_setRep (r : Nat) (items : List Item) (reps : List (Nat × List Item)) :
    (((setRep r items reps).flatMap fun p => itemCommentIds p.2) ++ itemCommentIds (repItems r reps)).Perm
      ((reps.flatMap fun p => itemCommentIds p.2) ++ itemCommentIds items) := by
  induction reps with
  | nil =>
    simp only [setRep, repItems]
    by_cases h : items.isEmpty = true
    · have : items = [] := by simpa using h
      simp [this, itemCommentIds]
    · simp [h, itemCommentIds]
  | cons p rest ih =>
    obtain ⟨k, v⟩ := p
    simp only [setRep, repItems]
    by_cases hk : k = r
    · simp only [hk, if_true, List.flatMap_cons]
      rw [List.perm_iff_count]
      intro a
      simp only [List.count_append]
      omega
    · simp only [hk, if_false, List.flatMap_cons, List.append_assoc]
      exact ih.append_left _

/-! ### `_claim_comment`: exact effect on flags -/

theorem setFlags_of_not_mem {ids : List Nat} {b : Bool} {x : List Tk} (h : ∀ t ∈ x, t.id ∉ ids) : setFlags ids b x = x := by
  simp only [setFlags]
  conv => rhs; rw [← List.map_id x]
  apply List.map_congr_left
  intro t ht
  simp [h t ht]

theorem setFlags_append (ids : List Nat) (b : Bool) (x y : List Tk) :
    setFlags ids b (x ++ y) = setFlags ids b x ++ setFlags ids b y := by simp [setFlags]

theorem setFlags_reverse (ids : List Nat) (b : Bool) (x : List Tk) :
    setFlags ids b x.reverse = (setFlags ids b x).reverse := by simp [setFlags]

theorem idsNodup_append {x y : List Tk} (h : IdsNodup (x ++ y)) :
    IdsNodup x ∧ IdsNodup y ∧ ∀ a ∈ x, ∀ b ∈ y, a.id ≠ b.id := by
  simp only [IdsNodup, List.map_append] at h
  have := List.nodup_append.mp h
  refine ⟨this.1, this.2.1, ?_⟩
  intro a ha b hb
  exact this.2.2 a.id (List.mem_map_of_mem ha) b.id (List.mem_map_of_mem hb)

/-- Walk level: a successful claim only flags the found comment and permutes. -/
theorem claimWalk_some_perm {ig : Bool} {w w' : List Tk} {cid : Nat} (hn : IdsNodup w)
    (h : claimWalk ig w = .ok (w', some cid)) :
    w'.Perm (setFlags [cid] true w) ∧ ∃ ct ∈ w, ct.id = cid ∧ ct.kind = .blockComment ∧ ct.claimed = false := by
  obtain ⟨p1, nl, p2, c, r4, hw, hw', hid, hk, hcl, hnk, -, -, -, -⟩ := claimWalk_some h
  subst hw hw'
  refine ⟨?_, c, by simp, hid, hk, hcl⟩
  -- the only token with id `cid` is `c`
  have h1 := idsNodup_append hn
  have h2 := idsNodup_append (x := [nl]) (y := p2 ++ c :: r4) h1.2.1
  have h3 := idsNodup_append (x := p2) (y := c :: r4) h2.2.1
  have h4 := idsNodup_append (x := [c]) (y := r4) h3.2.1
  have e1 : setFlags [cid] true p1 = p1 := setFlags_of_not_mem (by
    intro t ht; simp only [List.mem_singleton]; rw [← hid]; exact h1.2.2 t ht c (by simp))
  have e2 : setFlags [cid] true [nl] = [nl] := setFlags_of_not_mem (by
    intro t ht; simp only [List.mem_singleton]; rw [← hid]; exact h2.2.2 t ht c (by simp))
  have e3 : setFlags [cid] true p2 = p2 := setFlags_of_not_mem (by
    intro t ht; simp only [List.mem_singleton]; rw [← hid]; exact h3.2.2 t ht c (by simp))
  have e4 : setFlags [cid] true r4 = r4 := setFlags_of_not_mem (by
    intro t ht; simp only [List.mem_singleton]; rw [← hid]
    intro he; exact h4.2.2 c (by simp) t ht he.symm)
  have e5 : setFlags [cid] true [c] = [{ c with claimed := true }] := by simp [setFlags, hk, hid]
  have : setFlags [cid] true (p1 ++ nl :: (p2 ++ c :: r4)) = p1 ++ nl :: (p2 ++ { c with claimed := true } :: r4) := by
    have : p1 ++ nl :: (p2 ++ c :: r4) = p1 ++ ([nl] ++ (p2 ++ ([c] ++ r4))) := by simp
    rw [this, setFlags_append, setFlags_append, setFlags_append, setFlags_append, e1, e2, e3, e4, e5]
    simp
  rw [this]
  refine List.Perm.symm ?_
  refine (List.perm_middle).trans (List.Perm.cons _ ?_)
  rw [← List.append_assoc]
  refine (List.perm_middle).trans ?_
  rw [List.append_assoc]

theorem claimComment_none_spec {bw ig : Bool} {start : Nat} {s s' : Store}
    (h : claimComment bw ig start s = .ok (s', none)) : s' = s := by
  rw [claimComment_eq] at h
  split at h
  · cases h
  · rename_i pre st post heq
    have hs := (splitAt?_eq heq).1
    cases bw
    · simp only [Bool.false_eq_true, if_false] at h
      split at h
      · cases h
      · rename_i w' r' hw
        cases h
        rw [claimWalk_none hw, hs]
    · simp only [if_true] at h
      split at h
      · cases h
      · rename_i w' r' hw
        cases h
        rw [claimWalk_none hw, hs]; simp

theorem claimComment_some_spec {bw ig : Bool} {start : Nat} {s s' : Store} {c : Nat} (hn : IdsNodup s)
    (h : claimComment bw ig start s = .ok (s', some c)) :
    s'.Perm (setFlags [c] true s) ∧ ∃ ct ∈ s, ct.id = c ∧ ct.kind = .blockComment ∧ ct.claimed = false := by
  rw [claimComment_eq] at h
  split at h
  · cases h
  · rename_i pre st post heq
    have hs := (splitAt?_eq heq).1
    subst hs
    have hpre := idsNodup_append hn
    have hst := idsNodup_append (x := [st]) (y := post) hpre.2.1
    cases bw
    · simp only [Bool.false_eq_true, if_false] at h
      split at h
      · cases h
      · rename_i w' r' hw
        cases h
        obtain ⟨hp, ct, hct, hid, hk, hcl⟩ := claimWalk_some_perm hst.2.1 hw
        refine ⟨?_, ct, by simp [hct], hid, hk, hcl⟩
        have e1 : setFlags [c] true pre = pre := setFlags_of_not_mem (by
          intro t ht; simp only [List.mem_singleton]; rw [← hid]; exact hpre.2.2 t ht ct (by simp [hct]))
        have e2 : setFlags [c] true [st] = [st] := setFlags_of_not_mem (by
          intro t ht; simp only [List.mem_singleton]; rw [← hid]; exact hst.2.2 t ht ct hct)
        have : pre ++ st :: post = pre ++ ([st] ++ post) := by simp
        rw [this, setFlags_append, setFlags_append, e1, e2]
        exact (hp.append_left [st]).append_left pre
    · simp only [if_true] at h
      split at h
      · cases h
      · rename_i w' r' hw
        cases h
        have hrev : IdsNodup pre.reverse := by
          simp only [IdsNodup, List.map_reverse]; exact (List.reverse_perm _).nodup_iff.mpr hpre.1
        obtain ⟨hp, ct, hct, hid, hk, hcl⟩ := claimWalk_some_perm hrev hw
        have hct' : ct ∈ pre := by simpa using hct
        refine ⟨?_, ct, by simp [hct'], hid, hk, hcl⟩
        have e2 : setFlags [c] true (st :: post) = st :: post := setFlags_of_not_mem (by
          intro t ht; simp only [List.mem_singleton]; rw [← hid]
          intro he; exact hpre.2.2 ct hct' t ht he.symm)
        rw [setFlags_append, e2]
        refine List.Perm.append_right _ ?_
        have := hp
        rw [setFlags_reverse] at this
        exact (List.reverse_perm _).trans (this.trans (List.reverse_perm _))

/-! ### Generic preservation lemmas -/

/-- Claiming: the comments `new` (unclaimed tokens of the store) enter slots, `ids ⊇ new` are flagged. -/
theorem OwnInv.addMany {d d' : Doc} {new ids : List Nat} (hi : OwnInv d)
    (hp : d'.store.Perm (setFlags ids true d.store))
    (hsub : ∀ i ∈ ids, i ∈ new ∨ i ∈ owned d)
    (hnew_in : ∀ i ∈ new, i ∈ ids)
    (hnew : new.Nodup)
    (hfresh : ∀ i ∈ new, ∃ ct ∈ d.store, ct.id = i ∧ ct.kind = .blockComment ∧ ct.claimed = false)
    (ho : (owned d').Perm (new ++ owned d))
    (hl : (d'.leading.map (·.1)).Nodup) (ht : (d'.trailing.map (·.1)).Nodup) : OwnInv d' := by
  have hdisj : ∀ i ∈ new, i ∉ owned d := by
    intro i hin hown
    obtain ⟨ct, hct, hid, hk, hcl⟩ := hfresh i hin
    have := (hi.flags ct hct hk).mpr (hid ▸ hown)
    simp [hcl] at this
  refine ⟨idsNodup_of_perm_setFlags hp hi.ids, hl, ht, ?_, ?_⟩
  · refine ho.nodup_iff.mpr ?_
    refine List.nodup_append.mpr ⟨hnew, hi.uniq, ?_⟩
    intro a ha b hb hab
    exact hdisj a ha (hab ▸ hb)
  · refine flags_after hp hi.flags ?_ ?_
    · intro i hin
      simp only [true_iff]
      refine ho.mem_iff.mpr ?_
      rcases hsub i hin with h | h
      · exact List.mem_append_left _ h
      · exact List.mem_append_right _ h
    · intro i hni
      have : i ∉ new := fun h => hni (hnew_in i h)
      rw [ho.mem_iff, List.mem_append]
      simp [this]

/-- Unclaiming: the comments `un` leave their slots and lose their flag together. -/
theorem OwnInv.removeMany {d d' : Doc} {un : List Nat} (hi : OwnInv d)
    (hs : d'.store = setFlags un false d.store)
    (ho : (owned d).Perm (un ++ owned d'))
    (hl : (d'.leading.map (·.1)).Nodup) (ht : (d'.trailing.map (·.1)).Nodup) : OwnInv d' := by
  have hnd : (un ++ owned d').Nodup := ho.nodup_iff.mp hi.uniq
  have hnd' := List.nodup_append.mp hnd
  have hp : d'.store.Perm (setFlags un false d.store) := by rw [hs]
  refine ⟨?_, hl, ht, hnd'.2.1, ?_⟩
  · exact idsNodup_of_perm_setFlags hp hi.ids
  · refine flags_after hp hi.flags ?_ ?_
    · intro i hin
      simp only [Bool.false_eq_true, false_iff]
      intro h
      exact hnd'.2.2 i hin i h rfl
    · intro i hni
      rw [ho.mem_iff, List.mem_append]
      simp [hni]

/-! ### Leading / trailing -/

theorem OwnInv.claimLeading {n start : Nat} {ig : Bool} {d d' : Doc} {r : Option Nat} (hi : OwnInv d)
    (h : claimLeading n start ig d = .ok (d', r)) : OwnInv d' := by
  unfold Comments.claimLeading at h
  split at h
  · cases h; exact hi
  · rename_i hlk
    cases hc : claimComment true ig start d.store with
    | error e => simp [hc] at h
    | ok p =>
      obtain ⟨s, r'⟩ := p
      cases r' with
      | none =>
        simp only [hc] at h; cases h
        have := claimComment_none_spec hc
        subst this
        exact ⟨hi.ids, hi.lkeys, hi.tkeys, hi.uniq, hi.flags⟩
      | some c =>
        simp only [hc] at h; cases h
        obtain ⟨hp, hct⟩ := claimComment_some_spec hi.ids hc
        refine OwnInv.addMany (new := [c]) (ids := [c]) hi hp (by simp) (by simp) (by simp) ?_ ?_ ?_ hi.tkeys
        · intro i hin; simp only [List.mem_singleton] at hin; subst hin; exact hct
        · simp [owned]
        · simp only [List.map_cons, List.nodup_cons]
          exact ⟨(lookup_none_iff n d.leading).mp hlk, hi.lkeys⟩

theorem OwnInv.claimTrailing {n start : Nat} {ig : Bool} {d d' : Doc} {r : Option Nat} (hi : OwnInv d)
    (h : claimTrailing n start ig d = .ok (d', r)) : OwnInv d' := by
  unfold Comments.claimTrailing at h
  split at h
  · cases h; exact hi
  · rename_i hlk
    cases hc : claimComment false ig start d.store with
    | error e => simp [hc] at h
    | ok p =>
      obtain ⟨s, r'⟩ := p
      cases r' with
      | none =>
        simp only [hc] at h; cases h
        have := claimComment_none_spec hc
        subst this
        exact ⟨hi.ids, hi.lkeys, hi.tkeys, hi.uniq, hi.flags⟩
      | some c =>
        simp only [hc] at h; cases h
        obtain ⟨hp, hct⟩ := claimComment_some_spec hi.ids hc
        refine OwnInv.addMany (new := [c]) (ids := [c]) hi hp (by simp) (by simp) (by simp) ?_ ?_ hi.lkeys ?_
        · intro i hin; simp only [List.mem_singleton] at hin; subst hin; exact hct
        · simp only [owned, List.map_cons, List.singleton_append]
          rw [List.perm_iff_count]; intro a; simp only [List.count_append, List.count_cons]; omega
        · simp only [List.map_cons, List.nodup_cons]
          exact ⟨(lookup_none_iff n d.trailing).mp hlk, hi.tkeys⟩

theorem OwnInv.unclaimLeading (n : Nat) {d : Doc} (hi : OwnInv d) : OwnInv (unclaimLeading n d).1 := by
  unfold Comments.unclaimLeading
  split
  · exact hi
  · rename_i c hlk
    refine OwnInv.removeMany (un := [c]) hi (setFlag_eq_setFlags _ _ _) ?_ ?_ hi.tkeys
    · simp only [owned, List.singleton_append]
      have := lookup_perm hlk
      rw [List.perm_iff_count] at this ⊢
      intro a; have := this a
      simp only [List.count_append, List.count_cons] at this ⊢; omega
    · exact (eraseKey_keys_sublist n d.leading).nodup hi.lkeys

theorem OwnInv.unclaimTrailing (n : Nat) {d : Doc} (hi : OwnInv d) : OwnInv (unclaimTrailing n d).1 := by
  unfold Comments.unclaimTrailing
  split
  · exact hi
  · rename_i c hlk
    refine OwnInv.removeMany (un := [c]) hi (setFlag_eq_setFlags _ _ _) ?_ hi.lkeys ?_
    · simp only [owned, List.singleton_append]
      have := lookup_perm hlk
      rw [List.perm_iff_count] at this ⊢
      intro a; have := this a
      simp only [List.count_append, List.count_cons] at this ⊢; omega
    · exact (eraseKey_keys_sublist n d.trailing).nodup hi.tkeys

/-! ### The scans of `_CommentClaimer.claim` -/

/-- `_find_outer` yields a subsequence of the walk, and only unclaimed block comments. -/
theorem findOuter_spec (inSet : Nat → Bool) (limit : Nat) (prev : Nat) (w : List Tk) :
    (findOuter inSet limit prev w).Sublist w ∧
    ∀ t ∈ findOuter inSet limit prev w, t.kind = .blockComment ∧ t.claimed = false := by
  induction w generalizing prev with
  | nil => simp [findOuter]
  | cons t ts ih =>
    unfold findOuter
    split
    · simp
    · split
      · exact ⟨(ih t.id).1.cons _, (ih t.id).2⟩
      · split
        · rename_i hk
          split
          · simp
          · rename_i hcl
            split
            · refine ⟨by simpa using (ih t.id).1.cons_cons t, ?_⟩
              intro u hu
              simp only [List.singleton_append, List.mem_cons] at hu
              rcases hu with rfl | hu
              · exact ⟨hk, by simpa using hcl⟩
              · exact (ih t.id).2 u hu
            · simp only [List.nil_append]
              exact ⟨(ih t.id).1.cons _, (ih t.id).2⟩
        · simp

theorem gapComments_spec (inSet : Nat → Bool) (gap : List Tk) :
    (gapComments inSet gap).Sublist gap ∧ ∀ t ∈ gapComments inSet gap, t.kind = .blockComment ∧ t.claimed = false := by
  refine ⟨List.filter_sublist, ?_⟩
  intro t ht
  have := (List.mem_filter.mp ht).2
  simp only [Bool.and_eq_true, decide_eq_true_eq, Bool.not_eq_true'] at this
  exact ⟨this.1.1, this.2⟩

/-- `_find_inner`: the yielded sequence is the old items with the found comments interleaved; found comments and the
rest of the walk are disjoint pieces of the walk. -/
theorem findInner_spec {inSet : Nat → Bool} {cur : List Tk} {items ys : List Item} {left : List Tk}
    (h : findInner inSet cur items = .ok (ys, left)) :
    ∃ found : List Tk, (found ++ left).Sublist cur ∧
      (itemCommentIds ys).Perm (found.map (·.id) ++ itemCommentIds items) ∧
      ∀ t ∈ found, t.kind = .blockComment ∧ t.claimed = false := by
  induction items generalizing cur ys left with
  | nil =>
    simp only [findInner] at h
    cases h
    exact ⟨[], by simp, by simp [itemCommentIds], by simp⟩
  | cons it its ih =>
    simp only [findInner] at h
    cases hsp : splitAt? it.last (List.dropWhile (fun t => t.id != it.first) cur) with
    | none => simp [hsp] at h
    | some trip =>
      obtain ⟨a, x, after⟩ := trip
      simp only [hsp] at h
      cases hrec : findInner inSet after its with
      | error e => simp [hrec] at h
      | ok p =>
        obtain ⟨ys', left'⟩ := p
        simp only [hrec] at h
        cases h
        obtain ⟨found', hsub, hperm, hall⟩ := ih hrec
        have hg := gapComments_spec inSet (List.takeWhile (fun t => t.id != it.first) cur)
        have hcur : cur = List.takeWhile (fun t => t.id != it.first) cur ++ (a ++ x :: after) := by
          rw [← (splitAt?_eq hsp).1]; exact (List.takeWhile_append_dropWhile).symm
        refine ⟨gapComments inSet (List.takeWhile (fun t => t.id != it.first) cur) ++ found', ?_, ?_, ?_⟩
        · rw [List.append_assoc]
          conv => rhs; rw [hcur]
          refine hg.1.append ?_
          exact (hsub.trans (List.sublist_cons_self x after)).trans (List.sublist_append_right a _)
        · rw [itemCommentIds_append, itemCommentIds_commentItems, itemCommentIds_cons, itemCommentIds_cons]
          rw [List.perm_iff_count] at hperm ⊢
          intro z; have := hperm z
          simp only [List.count_append, List.map_append] at this ⊢; omega
        · intro t ht
          rcases List.mem_append.mp ht with h1 | h1
          · exact hg.2 t h1
          · exact hall t h1

/-- The three scans together: what is found is a duplicate-free list of unclaimed block comments of the store, and the
new item list holds exactly the old comment items plus what was found. -/
theorem scan_spec {inSet : Nat → Bool} {ph : Nat} {items : List Item} {mf ml : Nat} {s : Store} {sc : Scan}
    (hn : IdsNodup s) (h : scanComments inSet ph items mf ml s = .ok sc) :
    ∃ new : List Tk,
      (itemCommentIds (sc.before.map commentItem ++ sc.inner ++ sc.after.map commentItem)).Perm
        (new.map (·.id) ++ itemCommentIds items) ∧
      (new.map (·.id)).Nodup ∧
      ∀ t ∈ new, t ∈ s ∧ t.kind = .blockComment ∧ t.claimed = false := by
  unfold scanComments at h
  cases hsp : splitAt? ph s with
  | none => simp [hsp] at h
  | some trip =>
    obtain ⟨pre, p, post⟩ := trip
    simp only [hsp] at h
    cases hfi : findInner inSet post items with
    | error e => simp [hfi] at h
    | ok q =>
      obtain ⟨inner, left⟩ := q
      simp only [hfi] at h
      cases h
      have hs := (splitAt?_eq hsp).1
      obtain ⟨found, hsub, hperm, hall⟩ := findInner_spec hfi
      dsimp only
      generalize lastIdOf ph items = lastId
      have hb := findOuter_spec inSet mf ph pre.reverse
      have ha := findOuter_spec inSet ml lastId left
      refine ⟨(findOuter inSet mf ph pre.reverse).reverse ++ (found ++ findOuter inSet ml lastId left), ?_, ?_, ?_⟩
      · simp only [itemCommentIds_append, itemCommentIds_commentItems, List.map_append]
        rw [List.perm_iff_count] at hperm ⊢
        intro z; have := hperm z
        simp only [List.count_append] at this ⊢; omega
      · have hsl : ((findOuter inSet mf ph pre.reverse).reverse ++ (found ++ findOuter inSet ml lastId left)).Sublist s := by
          rw [hs]
          refine List.Sublist.append ?_ ?_
          · have := hb.1.reverse; simpa using this
          · exact ((List.Sublist.append_left ha.1 found).trans hsub).trans (List.sublist_cons_self p post)
        have hn' : (s.map (·.id)).Nodup := hn
        exact (hsl.map (·.id)).nodup hn'
      · intro t ht
        have hsl : ((findOuter inSet mf ph pre.reverse).reverse ++ (found ++ findOuter inSet ml lastId left)).Sublist s := by
          rw [hs]
          refine List.Sublist.append ?_ ?_
          · have := hb.1.reverse; simpa using this
          · exact ((List.Sublist.append_left ha.1 found).trans hsub).trans (List.sublist_cons_self p post)
        refine ⟨hsl.subset ht, ?_⟩
        rcases List.mem_append.mp ht with h1 | h1
        · exact hb.2 t (by simpa using h1)
        · rcases List.mem_append.mp h1 with h2 | h2
          · exact hall t h2
          · exact ha.2 t h2

/-! ### Interleaving comments -/

theorem claimInterleaving_spec {ph : Nat} {items : List Item} {mf ml : Nat} {set : Option (List Nat)} {s : Store}
    {o : InterOut} (hn : IdsNodup s) (h : claimInterleaving ph items mf ml set s = .ok o) :
    ∃ new : List Tk,
      o.store.Perm (setFlags (itemCommentIds o.items) true s) ∧
      o.comments = itemCommentIds o.items ∧
      (itemCommentIds o.items).Perm (new.map (·.id) ++ itemCommentIds items) ∧
      (new.map (·.id)).Nodup ∧
      ∀ t ∈ new, t ∈ s ∧ t.kind = .blockComment ∧ t.claimed = false := by
  unfold claimInterleaving at h
  cases hsc : scanComments (inSetOf set) ph items mf ml s with
  | error e => simp [hsc] at h
  | ok sc =>
    simp only [hsc] at h
    split at h
    · cases h
    · cases h1 : shiftBefore sc.before ph s with
      | error e => simp [h1] at h
      | ok s1 =>
        simp only [h1] at h
        cases h2 : shiftAfter sc.after sc.lastId s1 with
        | error e => simp [h2] at h
        | ok s2 =>
          simp only [h2] at h
          cases h
          obtain ⟨new, hperm, hnd, hall⟩ := scan_spec hn hsc
          refine ⟨new, ?_, rfl, hperm, hnd, hall⟩
          have hp : s2.Perm s := (shiftAfter_moved h2).2.trans (shiftBefore_moved h1).2
          exact hp.map _

theorem mem_owned_of_repItems {r : Nat} {reps : List (Nat × List Item)} {i : Nat}
    (h : i ∈ itemCommentIds (repItems r reps)) : i ∈ reps.flatMap fun p => itemCommentIds p.2 := by
  induction reps with
  | nil => simp [repItems, itemCommentIds] at h
  | cons p rest ih =>
    obtain ⟨k, v⟩ := p
    simp only [repItems] at h
    simp only [List.flatMap_cons, List.mem_append]
    by_cases hk : k = r
    · simp only [hk, if_true] at h; exact Or.inl h
    · simp only [hk, if_false] at h; exact Or.inr (ih h)

theorem OwnInv.claimInter {r ph mf ml : Nat} {set : Option (List Nat)} {d d' : Doc} {cs : List Nat} (hi : OwnInv d)
    (h : claimInter r ph mf ml set d = .ok (d', cs)) : OwnInv d' := by
  unfold Comments.claimInter at h
  cases hc : claimInterleaving ph (repItems r d.reps) mf ml set d.store with
  | error e => simp [hc] at h
  | ok o =>
    simp only [hc] at h
    cases h
    obtain ⟨new, hp, -, hperm, hnd, hall⟩ := claimInterleaving_spec hi.ids hc
    refine OwnInv.addMany (new := new.map (·.id)) (ids := itemCommentIds o.items) hi hp ?_ ?_ hnd ?_ ?_ hi.lkeys hi.tkeys
    · intro i hin
      rcases List.mem_append.mp (hperm.mem_iff.mp hin) with h1 | h1
      · exact Or.inl h1
      · right
        simp only [owned, List.mem_append]
        exact Or.inr (mem_owned_of_repItems h1)
    · intro i hin
      exact hperm.mem_iff.mpr (List.mem_append_left _ hin)
    · intro i hin
      obtain ⟨t, ht, rfl⟩ := List.mem_map.mp hin
      exact ⟨t, (hall t ht).1, rfl, (hall t ht).2.1, (hall t ht).2.2⟩
    · have hf := flatMap_setRep r o.items d.reps
      simp only [owned]
      rw [List.perm_iff_count] at hf hperm ⊢
      intro z; have a := hf z; have b := hperm z
      simp only [List.count_append] at a b ⊢; omega

theorem unclaim_partition (set : Option (List Nat)) (items : List Item) :
    (itemCommentIds items).Perm
      ((items.filter (unSel set)).map (·.first) ++ itemCommentIds (items.filter (fun it => !unSel set it))) := by
  induction items with
  | nil => simp [itemCommentIds]
  | cons it its ih =>
    rw [List.perm_iff_count] at ih ⊢
    intro z; have := ih z
    simp only [itemCommentIds_cons, List.filter_cons]
    by_cases hc : it.isComment = true
    · by_cases hs : unSel set it = true
      · simp only [hc, hs, if_true, Bool.not_true, Bool.false_eq_true, if_false, List.map_cons, List.count_append,
          List.count_cons] at this ⊢
        simp only [List.count_nil] ; omega
      · simp only [hc, hs, if_true, Bool.not_false, Bool.false_eq_true, if_false, List.count_append, List.count_cons,
          itemCommentIds_cons] at this ⊢
        simp only [List.count_nil] ; omega
    · have hs : unSel set it = false := by simp [unSel, hc]
      simp only [hc, hs, Bool.false_eq_true, if_false, Bool.not_false, if_true, List.count_append, itemCommentIds_cons,
        List.nil_append] at this ⊢
      omega

theorem OwnInv.unclaimInter {r : Nat} {set : Option (List Nat)} {d d' : Doc} {cs : List Nat} (hi : OwnInv d)
    (h : unclaimInter r set d = .ok (d', cs)) : OwnInv d' := by
  unfold Comments.unclaimInter at h
  cases hc : unclaimInterleaving (repItems r d.reps) set d.store with
  | error e => simp [hc] at h
  | ok o =>
    simp only [hc] at h
    cases h
    unfold unclaimInterleaving at hc
    simp only at hc
    split at hc
    · cases hc
    · cases hc
      refine OwnInv.removeMany (un := ((repItems r d.reps).filter (unSel set)).map (·.first)) hi rfl ?_ hi.lkeys hi.tkeys
      have hf := flatMap_setRep r ((repItems r d.reps).filter (fun it => !unSel set it)) d.reps
      have hq := unclaim_partition set (repItems r d.reps)
      simp only [owned]
      rw [List.perm_iff_count] at hf hq ⊢
      intro z; have a := hf z; have b := hq z
      simp only [List.count_append] at a b ⊢; omega

theorem OwnInv.runCall {d : Doc} (hi : OwnInv d) (c : Call) : OwnInv (runCall d c) := by
  cases c with
  | claimLeading n st ig =>
    simp only [Comments.runCall]
    cases h : Comments.claimLeading n st ig d with
    | error e => exact hi
    | ok p => exact hi.claimLeading (d' := p.1) (r := p.2) h
  | claimTrailing n st ig =>
    simp only [Comments.runCall]
    cases h : Comments.claimTrailing n st ig d with
    | error e => exact hi
    | ok p => exact hi.claimTrailing (d' := p.1) (r := p.2) h
  | unclaimLeading n => exact hi.unclaimLeading n
  | unclaimTrailing n => exact hi.unclaimTrailing n
  | claimInter r ph mf ml set =>
    simp only [Comments.runCall]
    cases h : Comments.claimInter r ph mf ml set d with
    | error e => exact hi
    | ok p => exact hi.claimInter (d' := p.1) (cs := p.2) h
  | unclaimInter r set =>
    simp only [Comments.runCall]
    cases h : Comments.unclaimInter r set d with
    | error e => exact hi
    | ok p => exact hi.unclaimInter (d' := p.1) (cs := p.2) h

theorem OwnInv.autoClaim {d : Doc} (hi : OwnInv d) (calls : List Call) : OwnInv (autoClaim d calls) := by
  induction calls generalizing d with
  | nil => exact hi
  | cons c cs ih =>
    simp only [Comments.autoClaim, List.foldl_cons]
    exact ih (hi.runCall c)

/-! ### Stops at a claimed comment -/

theorem findOuter_stops {inSet : Nat → Bool} {limit : Nat} {c : Tk} (hk : c.kind = .blockComment)
    (htx : c.text ≠ []) (hcl : c.claimed = true) (a b : List Tk) (prev : Nat) :
    (findOuter inSet limit prev (a ++ c :: b)).Sublist a := by
  have hsk : skippable c = false := by simp [skippable, hk, htx]
  induction a generalizing prev with
  | nil =>
    simp only [List.nil_append]
    unfold findOuter
    split
    · simp
    · simp [hsk]
  | cons t ts ih =>
    simp only [List.cons_append]
    unfold findOuter
    split
    · simp
    · split
      · exact (ih t.id).cons _
      · split
        · split
          · simp
          · split
            · simpa using (ih t.id).cons_cons t
            · simpa using (ih t.id).cons _
        · simp

/-! ### When everything is claimed, claiming changes nothing -/

def AllClaimed (s : Store) : Prop := ∀ t ∈ s, t.kind = .blockComment → t.claimed = true

theorem claimWalk_allClaimed {ig : Bool} {w w' : List Tk} {r : Option Nat} (ha : AllClaimed w)
    (h : claimWalk ig w = .ok (w', r)) : w' = w ∧ r = none := by
  cases r with
  | none => exact ⟨claimWalk_none h, rfl⟩
  | some cid =>
    obtain ⟨p1, nl, p2, c, r4, hw, -, -, hk, hcl, -⟩ := claimWalk_some h
    have : c ∈ w := by rw [hw]; simp
    have := ha c this hk
    simp [hcl] at this

theorem claimComment_allClaimed {bw ig : Bool} {start : Nat} {s s' : Store} {r : Option Nat} (ha : AllClaimed s)
    (h : claimComment bw ig start s = .ok (s', r)) : s' = s ∧ r = none := by
  rw [claimComment_eq] at h
  split at h
  · cases h
  · rename_i pre st post heq
    have hs := (splitAt?_eq heq).1
    cases bw
    · simp only [Bool.false_eq_true, if_false] at h
      split at h
      · cases h
      · rename_i w' r' hw
        cases h
        have hap : AllClaimed post := fun t ht => ha t (by rw [hs]; simp [ht])
        obtain ⟨e1, e2⟩ := claimWalk_allClaimed hap hw
        exact ⟨by rw [e1, hs], e2⟩
    · simp only [if_true] at h
      split at h
      · cases h
      · rename_i w' r' hw
        cases h
        have hap : AllClaimed pre.reverse := fun t ht => ha t (by rw [hs]; simp at ht; simp [ht])
        obtain ⟨e1, e2⟩ := claimWalk_allClaimed hap hw
        exact ⟨by rw [e1, hs]; simp, e2⟩

theorem findOuter_allClaimed {inSet : Nat → Bool} {limit prev : Nat} {w : List Tk} (ha : AllClaimed w) :
    findOuter inSet limit prev w = [] := by
  apply List.eq_nil_iff_forall_not_mem.mpr
  intro t ht
  have h1 := (findOuter_spec inSet limit prev w).2 t ht
  have h2 := ha t ((findOuter_spec inSet limit prev w).1.subset ht) h1.1
  simp [h1.2] at h2

theorem findInner_allClaimed {inSet : Nat → Bool} {cur : List Tk} {items ys : List Item} {left : List Tk}
    (ha : AllClaimed cur) (h : findInner inSet cur items = .ok (ys, left)) : ys = items ∧ AllClaimed left := by
  induction items generalizing cur ys left with
  | nil => simp only [findInner] at h; cases h; exact ⟨rfl, ha⟩
  | cons it its ih =>
    simp only [findInner] at h
    cases hsp : splitAt? it.last (List.dropWhile (fun t => t.id != it.first) cur) with
    | none => simp [hsp] at h
    | some trip =>
      obtain ⟨a, x, after⟩ := trip
      simp only [hsp] at h
      cases hrec : findInner inSet after its with
      | error e => simp [hrec] at h
      | ok p =>
        obtain ⟨ys', left'⟩ := p
        simp only [hrec] at h
        cases h
        have hafter : AllClaimed after := by
          intro t ht
          apply ha t
          have : t ∈ List.dropWhile (fun t => t.id != it.first) cur := by rw [(splitAt?_eq hsp).1]; simp [ht]
          exact (List.dropWhile_sublist _).subset this
        obtain ⟨e1, e2⟩ := ih hafter hrec
        refine ⟨?_, e2⟩
        have : gapComments inSet (List.takeWhile (fun t => t.id != it.first) cur) = [] := by
          apply List.eq_nil_iff_forall_not_mem.mpr
          intro t ht
          have h1 := (gapComments_spec inSet _).2 t ht
          have h2 := ha t ((List.takeWhile_sublist _).subset ((gapComments_spec inSet _).1.subset ht)) h1.1
          simp [h1.2] at h2
        simp [this, e1]

theorem setFlags_true_of_allClaimed {ids : List Nat} {s : Store} (ha : AllClaimed s) : setFlags ids true s = s := by
  simp only [setFlags]
  conv => rhs; rw [← List.map_id s]
  apply List.map_congr_left
  intro t ht
  split
  · rename_i hc
    have := ha t ht hc.1
    cases t; simp_all
  · rfl

theorem setRep_repItems (r : Nat) (reps : List (Nat × List Item)) : setRep r (repItems r reps) reps = reps := by
  induction reps with
  | nil => simp [setRep, repItems]
  | cons p rest ih =>
    obtain ⟨k, v⟩ := p
    simp only [setRep, repItems]
    by_cases hk : k = r
    · simp [hk]
    · simp [hk, ih]

theorem claimInterleaving_allClaimed {ph : Nat} {items : List Item} {mf ml : Nat} {set : Option (List Nat)} {s : Store}
    {o : InterOut} (ha : AllClaimed s) (h : claimInterleaving ph items mf ml set s = .ok o) :
    o.store = s ∧ o.items = items := by
  unfold claimInterleaving at h
  cases hsc : scanComments (inSetOf set) ph items mf ml s with
  | error e => simp [hsc] at h
  | ok sc =>
    simp only [hsc] at h
    -- the scans find nothing
    have hscan : sc.before = [] ∧ sc.inner = items ∧ sc.after = [] := by
      unfold scanComments at hsc
      cases hsp : splitAt? ph s with
      | none => simp [hsp] at hsc
      | some trip =>
        obtain ⟨pre, p, post⟩ := trip
        simp only [hsp] at hsc
        have hs := (splitAt?_eq hsp).1
        cases hfi : findInner (inSetOf set) post items with
        | error e => simp [hfi] at hsc
        | ok q =>
          obtain ⟨inner, left⟩ := q
          simp only [hfi] at hsc
          cases hsc
          have hpost : AllClaimed post := fun t ht => ha t (by rw [hs]; simp [ht])
          have hpre : AllClaimed pre.reverse := fun t ht => ha t (by rw [hs]; simp at ht; simp [ht])
          obtain ⟨e1, e2⟩ := findInner_allClaimed hpost hfi
          exact ⟨by simp [findOuter_allClaimed hpre], e1, findOuter_allClaimed e2⟩
    obtain ⟨hb, hin, haf⟩ := hscan
    split at h
    · cases h
    · simp only [hb, haf, shiftBefore, shiftAfter, List.getLast?_nil] at h
      cases h
      simp only [List.map_nil, List.nil_append, List.append_nil]
      exact ⟨setFlags_true_of_allClaimed ha, hin⟩

theorem runCall_auto_fixed {d : Doc} {c : Call} (ha : AllClaimed d.store) (hc : c.isAuto = true) : runCall d c = d := by
  cases c with
  | claimLeading n st ig =>
    simp only [runCall]
    cases h : claimLeading n st ig d with
    | error e => rfl
    | ok p =>
      obtain ⟨d', r⟩ := p
      simp only
      unfold claimLeading at h
      split at h
      · cases h; rfl
      · cases hcc : claimComment true ig st d.store with
        | error e => simp [hcc] at h
        | ok q =>
          obtain ⟨s, r'⟩ := q
          obtain ⟨e1, e2⟩ := claimComment_allClaimed ha hcc
          subst e1 e2
          simp only [hcc] at h
          cases h; rfl
  | claimTrailing n st ig =>
    simp only [runCall]
    cases h : claimTrailing n st ig d with
    | error e => rfl
    | ok p =>
      obtain ⟨d', r⟩ := p
      simp only
      unfold claimTrailing at h
      split at h
      · cases h; rfl
      · cases hcc : claimComment false ig st d.store with
        | error e => simp [hcc] at h
        | ok q =>
          obtain ⟨s, r'⟩ := q
          obtain ⟨e1, e2⟩ := claimComment_allClaimed ha hcc
          subst e1 e2
          simp only [hcc] at h
          cases h; rfl
  | unclaimLeading n => simp [Call.isAuto] at hc
  | unclaimTrailing n => simp [Call.isAuto] at hc
  | claimInter r ph mf ml set =>
    simp only [runCall]
    cases h : claimInter r ph mf ml set d with
    | error e => rfl
    | ok p =>
      obtain ⟨d', cs⟩ := p
      simp only
      unfold claimInter at h
      cases hci : claimInterleaving ph (repItems r d.reps) mf ml set d.store with
      | error e => simp [hci] at h
      | ok o =>
        simp only [hci] at h
        cases h
        obtain ⟨e1, e2⟩ := claimInterleaving_allClaimed ha hci
        rw [e1, e2, setRep_repItems]
  | unclaimInter r set => simp [Call.isAuto] at hc

theorem autoClaim_fixed {d : Doc} (ha : AllClaimed d.store) {calls : List Call} (hc : ∀ c ∈ calls, c.isAuto = true) :
    autoClaim d calls = d := by
  induction calls with
  | nil => rfl
  | cons c cs ih =>
    simp only [autoClaim, List.foldl_cons]
    rw [runCall_auto_fixed ha (hc c (by simp))]
    exact ih (fun c' h => hc c' (by simp [h]))

/-! ### unclaim then claim -/

theorem dropWhile_allPh {p : List Tk} {x : Tk} {r : List Tk} (hp : ∀ t ∈ p, isPh t = true) (hx : isPh x = false) :
    (p ++ x :: r).dropWhile isPh = x :: r ∧ (p ++ x :: r).takeWhile isPh = p := by
  induction p with
  | nil => simp [hx]
  | cons a l ih =>
    have ha := hp a (by simp)
    have := ih (fun t ht => hp t (by simp [ht]))
    simp [ha, this]

/-- `claimWalk` on the layout `placeholders, newline, placeholders, unclaimed comment`. -/
theorem claimWalk_layout {ig : Bool} {p1 p2 r4 : List Tk} {nl c : Tk}
    (hp1 : ∀ t ∈ p1, isPh t = true) (hp2 : ∀ t ∈ p2, isPh t = true)
    (hnl : nl.kind = .newline) (hc : c.kind = .blockComment) (hcl : c.claimed = false) :
    claimWalk ig (p1 ++ nl :: (p2 ++ c :: r4)) =
      .ok (nl :: { c with claimed := true } :: ((p1 ++ p2) ++ r4), some c.id) := by
  have hnl' : isPh nl = false := by simp [isPh, hnl]
  have hc' : isPh c = false := by simp [isPh, hc]
  have d1 := dropWhile_allPh (r := p2 ++ c :: r4) hp1 hnl'
  have d2 := dropWhile_allPh (r := r4) hp2 hc'
  unfold claimWalk
  rw [d1.1]
  simp only [hnl, ne_eq, not_true_eq_false, if_false, d2.1, hc, hcl, Bool.false_eq_true, d1.2, d2.2]
  simp

theorem setFlags_single_at {a b : List Tk} {x : Tk} {v : Bool} (hn : IdsNodup (a ++ x :: b)) (hk : x.kind = .blockComment) :
    setFlags [x.id] v (a ++ x :: b) = a ++ { x with claimed := v } :: b := by
  have h1 := idsNodup_append hn
  have h2 := idsNodup_append (x := [x]) (y := b) h1.2.1
  have e1 : setFlags [x.id] v a = a := setFlags_of_not_mem (by
    intro t ht; simp only [List.mem_singleton]; exact h1.2.2 t ht x (by simp))
  have e2 : setFlags [x.id] v b = b := setFlags_of_not_mem (by
    intro t ht; simp only [List.mem_singleton]; intro he; exact h2.2.2 x (by simp) t ht he.symm)
  have e3 : setFlags [x.id] v [x] = [{ x with claimed := v }] := by simp [setFlags, hk]
  have : a ++ x :: b = a ++ ([x] ++ b) := by simp
  rw [this, setFlags_append, setFlags_append, e1, e2, e3]
  simp

/-- Unclaiming the leading comment of node `n` and claiming it again (layout unchanged: comment, newline, first token,
placeholders anywhere in between) restores slot, flags and every non-placeholder token; placeholders may have moved. -/
theorem unclaimLeading_claimLeading {d : Doc} {n c : Nat} {A P2 P1 B : List Tk} {ct nl st : Tk} (ig : Bool)
    (hi : OwnInv d) (hslot : lookup n d.leading = some c)
    (hlay : d.store = A ++ ct :: (P2 ++ nl :: (P1 ++ st :: B)))
    (hid : ct.id = c) (hk : ct.kind = .blockComment) (hnl : nl.kind = .newline)
    (hP1 : ∀ t ∈ P1, isPh t = true) (hP2 : ∀ t ∈ P2, isPh t = true) :
    ∃ d2, claimLeading n st.id ig (unclaimLeading n d).1 = .ok (d2, some c) ∧
      lookup n d2.leading = some c ∧ (∀ m, m ≠ n → lookup m d2.leading = lookup m d.leading) ∧
      d2.trailing = d.trailing ∧ d2.reps = d.reps ∧
      d2.store = A ++ (P2 ++ P1) ++ ct :: nl :: st :: B := by
  -- the comment is claimed in `d`
  have hcin : c ∈ owned d := by
    have : c ∈ d.leading.map (·.2) := (lookup_perm hslot).mem_iff.mpr List.mem_cons_self
    simp only [owned, List.mem_append]; exact Or.inl (Or.inl this)
  have hct_mem : ct ∈ d.store := by rw [hlay]; simp
  have hclaimed : ct.claimed = true := (hi.flags ct hct_mem hk).mpr (hid ▸ hcin)
  have hn : IdsNodup (A ++ ct :: (P2 ++ nl :: (P1 ++ st :: B))) := hlay ▸ hi.ids
  -- unclaim
  have hun : (unclaimLeading n d).1 =
      { d with store := A ++ { ct with claimed := false } :: (P2 ++ nl :: (P1 ++ st :: B)), leading := eraseKey n d.leading } := by
    unfold unclaimLeading
    simp only [hslot]
    rw [setFlag_eq_setFlags, hlay, ← hid, setFlags_single_at hn hk]
  rw [hun]
  -- claim again
  have hlk : lookup n (eraseKey n d.leading) = none := lookup_eraseKey_self hi.lkeys
  have hn' : IdsNodup ((A ++ { ct with claimed := false } :: (P2 ++ nl :: P1)) ++ st :: B) := by
    have : (A ++ { ct with claimed := false } :: (P2 ++ nl :: P1)) ++ st :: B
        = setFlags [ct.id] false (A ++ ct :: (P2 ++ nl :: (P1 ++ st :: B))) := by
      rw [setFlags_single_at hn hk]; simp
    rw [this]
    simp only [IdsNodup, setFlags_ids]; exact hn
  have hsplit := splitAt?_of_nodup hn'
  have hwalk : claimWalk ig (A ++ { ct with claimed := false } :: (P2 ++ nl :: P1)).reverse =
      .ok (nl :: ct :: ((P1.reverse ++ P2.reverse) ++ A.reverse), some c) := by
    have e : (A ++ { ct with claimed := false } :: (P2 ++ nl :: P1)).reverse
        = P1.reverse ++ nl :: (P2.reverse ++ { ct with claimed := false } :: A.reverse) := by simp
    rw [e, claimWalk_layout (c := { ct with claimed := false }) (by simpa using hP1) (by simpa using hP2) hnl hk rfl]
    have : ({ id := c, kind := ct.kind, text := ct.text, claimed := true } : Tk) = ct := by
      cases ct; simp_all
    simp [hid, this]
  refine ⟨{ d with store := A ++ (P2 ++ P1) ++ ct :: nl :: st :: B, leading := (n, c) :: eraseKey n d.leading }, ?_, ?_, ?_, rfl, rfl, rfl⟩
  · unfold claimLeading
    simp only [hlk]
    have hst : A ++ { ct with claimed := false } :: (P2 ++ nl :: (P1 ++ st :: B))
        = (A ++ { ct with claimed := false } :: (P2 ++ nl :: P1)) ++ st :: B := by simp
    rw [claimComment_eq, hst, hsplit]
    simp only [if_true, hwalk]
    simp
  · simp [lookup]
  · intro m hm
    simp only [lookup, Ne.symm hm, if_false]
    exact lookup_eraseKey_ne hm _

end Autobean.Comments
