/-
Frame theorems of the public `RepeatedNodeWrapper` methods (`insert`, `append`, `extend`, `pop`, `clear`,
`__setitem__` int / step-1 slice, `__delitem__` int / step-1 slice) under `RegionWF`.
-/
import Autobean.Proofs.RepOps

namespace Autobean.Rep
open Autobean.Seq

theorem take_spans (pre rest : List Seg) : (spans (pre ++ rest)).take pre.length = spans pre := by
  simp [spans]

theorem drop_spans (pre rest : List Seg) : (spans (pre ++ rest)).drop pre.length = spans rest := by
  simp [spans]

/-- The position `insert(index, ·)` clamps to. -/
def insertPos (index : Int) (n : Nat) : Nat :=
  (min (if index < 0 then max (index + n) 0 else index) n).toNat

/-! ### insert / append / extend -/

theorem insert_region {c : Cfg} {st : St} {L R : List Tk} {ph : Tk} {pre post : List Seg}
    (index : Int) (v : List Tk)
    (wf : RegionWF c st.store st.items L R ph (pre ++ post))
    (hk : insertPos index st.items.length = pre.length) :
    insert c st index v =
      .ok ⟨L ++ layout ph (insertSegs c st.ctr pre post [v]) ++ R, spans (insertSegs c st.ctr pre post [v]),
           insertCtr c st.ctr pre post [v]⟩ := by
  have h := insertTokens_region st.ctr [v] wf
  unfold insert
  simp only
  have hk' : (min (if index < 0 then max (index + ↑st.items.length) 0 else index) ↑st.items.length).toNat
      = pre.length := hk
  rw [hk', h]
  simp only
  rw [insertSegs_spans, wf.items_eq, take_spans, drop_spans]
  simp

theorem extend_region {c : Cfg} {st : St} {L R : List Tk} {ph : Tk} {segs : List Seg}
    (vs : List (List Tk)) (wf : RegionWF c st.store st.items L R ph segs) :
    extend c st vs =
      .ok ⟨L ++ layout ph (insertSegs c st.ctr segs [] vs) ++ R, spans (insertSegs c st.ctr segs [] vs),
           insertCtr c st.ctr segs [] vs⟩ := by
  have wf' : RegionWF c st.store st.items L R ph (segs ++ []) := by simpa using wf
  have h := insertTokens_region st.ctr vs wf'
  unfold extend
  simp only
  have : st.items.length = segs.length := by rw [wf.items_eq]; simp
  rw [this, h]
  simp only
  rw [insertSegs_spans, wf.items_eq]
  simp [spans]

theorem append_region {c : Cfg} {st : St} {L R : List Tk} {ph : Tk} {segs : List Seg}
    (v : List Tk) (wf : RegionWF c st.store st.items L R ph segs) :
    append c st v =
      .ok ⟨L ++ layout ph (insertSegs c st.ctr segs [] [v]) ++ R, spans (insertSegs c st.ctr segs [] [v]),
           insertCtr c st.ctr segs [] [v]⟩ := by
  have wf' : RegionWF c st.store st.items L R ph (segs ++ []) := by simpa using wf
  have h := insertTokens_region st.ctr [v] wf'
  unfold append
  simp only
  have : st.items.length = segs.length := by rw [wf.items_eq]; simp
  rw [this, h]
  simp only
  rw [insertSegs_spans, wf.items_eq]
  simp [spans]

/-! ### pop / clear -/

theorem pop_region {c : Cfg} {st : St} {L R : List Tk} {ph : Tk} {pre post : List Seg} {sg : Seg}
    (index : Int) (wf : RegionWF c st.store st.items L R ph (pre ++ [sg] ++ post))
    (hk : pyIndex index st.items.length = some pre.length) :
    pop c st index =
      .ok (⟨L ++ layout ph (deleteSegs pre [sg] post) ++ R, spans (deleteSegs pre [sg] post), st.ctr⟩, spanOf sg.2) := by
  have hdel := delTokens_region wf
  have hget : st.items[pre.length]? = some (spanOf sg.2) := by
    rw [wf.items_eq]; simp [spans]
  unfold pop
  rw [hk]
  simp only
  rw [hget]
  simp only
  have : pre.length + [sg].length = pre.length + 1 := rfl
  rw [this] at hdel
  rw [hdel]
  simp only
  rw [deleteSegs_spans, wf.items_eq]
  congr 2
  simp [spans, List.eraseIdx_append_of_length_le]

theorem clear_region {c : Cfg} {st : St} {L R : List Tk} {ph : Tk} {segs : List Seg}
    (wf : RegionWF c st.store st.items L R ph segs) :
    clear c st = .ok ⟨L ++ layout ph [] ++ R, [], st.ctr⟩ := by
  have wf' : RegionWF c st.store st.items L R ph ([] ++ segs ++ []) := by simpa using wf
  have hdel := delTokens_region wf'
  have hlen : st.items.length = segs.length := by rw [wf.items_eq]; simp
  have hds : deleteSegs [] segs [] = [] := by cases segs <;> rfl
  unfold clear
  simp only [List.length_nil, Nat.zero_add] at hdel
  rw [hlen, hdel, hds]

/-! ### `self[i] = value` -/

theorem setItemInt_region {c : Cfg} {st : St} {L R : List Tk} {ph : Tk} {pre post : List Seg} {sg : Seg}
    (index : Int) (v : List Tk) (wf : RegionWF c st.store st.items L R ph (pre ++ [sg] ++ post))
    (hk : pyIndex index st.items.length = some pre.length) :
    setItemInt c st index v =
      .ok ⟨L ++ layout ph (pre ++ [(sg.1, v)] ++ post) ++ R, spans (pre ++ [(sg.1, v)] ++ post), st.ctr⟩ := by
  have hit : sg.2 ≠ [] := by
    have := (ItemsNonempty.append.mp (ItemsNonempty.append.mp wf.nonempty).1).2
    exact this sg (by simp)
  obtain ⟨f, hf⟩ := exists_head hit
  obtain ⟨l, hl⟩ := exists_getLast hit
  have hget : st.items[pre.length]? = some (spanOf sg.2) := by
    rw [wf.items_eq]; simp [spans]
  have hstore : st.store = (L ++ layout ph pre ++ sg.1) ++ sg.2 ++ (body post ++ R) := by
    rw [wf.store_eq, layout_append, layout_append]; simp
  have hd : Distinct ((L ++ layout ph pre ++ sg.1) ++ sg.2 ++ (body post ++ R)) := by
    rw [← hstore]; exact wf.distinct
  have hsp := spliceRange_frame v hf hl hd
  unfold setItemInt
  rw [hk]
  simp only
  rw [hget]
  simp only
  rw [spanOf_first hf, spanOf_last hl, hstore, hsp]
  have e1 : L ++ layout ph pre ++ sg.1 ++ v ++ (body post ++ R)
      = L ++ layout ph (pre ++ [(sg.1, v)] ++ post) ++ R := by
    rw [layout_append, layout_append]; simp
  have e2 : st.items.set pre.length (spanOf v) = spans (pre ++ [(sg.1, v)] ++ post) := by
    rw [wf.items_eq]; simp [spans]
  simp only [e1, e2]

end Autobean.Rep
