import Autobean.Model.Comments
/-
Helper lemmas about the comment-attribution model (used by Properties/C04.lean and Properties/C14.lean).
-/
namespace Autobean.Comments

/-! ### Hypotheses about a store -/

/-- Token ids are pairwise distinct. -/
def IdsNodup (s : Store) : Prop := (s.map (·.id)).Nodup

/-- Placeholders have no text (`Placeholder.from_default() = Placeholder('')`; checked on every real dump). -/
def PhEmpty (s : Store) : Prop := ∀ t ∈ s, isPh t = true → t.text = []

/-- The two facts "only placeholders moved": the non-placeholder tokens are the same, in the same order, with the
same kinds and texts; and the store as a whole is a permutation (nothing created, nothing dropped). -/
structure OnlyPhMoved (s' s : Store) : Prop where
  nonPh : (s'.filter (fun t => !isPh t)).map Tk.core = (s.filter (fun t => !isPh t)).map Tk.core
  perm : (s'.map Tk.core).Perm (s.map Tk.core)

theorem OnlyPhMoved.refl (s : Store) : OnlyPhMoved s s := ⟨rfl, List.Perm.refl _⟩

theorem OnlyPhMoved.trans {a b c : Store} (h1 : OnlyPhMoved a b) (h2 : OnlyPhMoved b c) : OnlyPhMoved a c :=
  ⟨h1.nonPh.trans h2.nonPh, h1.perm.trans h2.perm⟩

theorem OnlyPhMoved.of_core_eq {s' s : Store} (h : s'.map Tk.core = s.map Tk.core) : OnlyPhMoved s' s := by
  refine ⟨?_, h ▸ List.Perm.refl _⟩
  induction s' generalizing s with
  | nil => cases s <;> simp_all
  | cons a l ih =>
    cases s with
    | nil => simp at h
    | cons b m =>
      simp only [List.map_cons, List.cons.injEq] at h
      have hk : isPh a = isPh b := by
        have : a.kind = b.kind := by have := h.1; simp [Tk.core] at this; exact this.2.1
        simp [isPh, this]
      have := ih h.2
      simp only [List.filter_cons, hk]
      split <;> simp_all

theorem phEmpty_of_perm {s' s : Store} (hp : (s'.map Tk.core).Perm (s.map Tk.core)) (h : PhEmpty s) : PhEmpty s' := by
  intro t ht hph
  have : t.core ∈ s'.map Tk.core := List.mem_map_of_mem ht
  have := hp.mem_iff.mp this
  obtain ⟨u, hu, hc⟩ := List.mem_map.mp this
  simp only [Tk.core, Prod.mk.injEq] at hc
  have hph' : isPh u = true := by simpa [isPh, hc.2.1] using hph
  rw [← hc.2.2]; exact h u hu hph'

private theorem visible_filter_aux (s : Store) (h : PhEmpty s) :
    (s.filter visible).map Tk.key = (((s.filter (fun t => !isPh t)).map Tk.core).filter (fun c => !c.2.2.isEmpty)).map (fun c => (c.1, c.2.2)) := by
  induction s with
  | nil => rfl
  | cons a l ih =>
    have hl : PhEmpty l := fun t ht => h t (List.mem_cons_of_mem _ ht)
    have ha := h a (List.mem_cons_self)
    simp only [List.filter_cons]
    by_cases hp : isPh a = true
    · have : a.text = [] := ha hp
      simp [hp, visible, this, ih hl]
    · simp only [hp]
      by_cases hv : visible a = true
      · have : a.text.isEmpty = false := by simpa [visible] using hv
        simp [hv, Tk.core, Tk.key, this, ih hl]
      · have : a.text.isEmpty = true := by simpa [visible] using hv
        simp [hv, Tk.core, this, ih hl]

/-- Moving placeholders does not change the visible tokens (identity, order, text). -/
theorem OnlyPhMoved.visible {s' s : Store} (h : OnlyPhMoved s' s) (hs : PhEmpty s) :
    (s'.filter visible).map Tk.key = (s.filter visible).map Tk.key := by
  rw [visible_filter_aux s hs, visible_filter_aux s' (phEmpty_of_perm h.perm hs), h.nonPh]

theorem textOf_eq_visible (s : Store) : textOf s = (((s.filter visible).map Tk.key).map (·.2)).flatten := by
  induction s with
  | nil => rfl
  | cons a l ih =>
    simp only [textOf, List.map_cons, List.flatten_cons, List.filter_cons] at *
    by_cases hv : visible a = true
    · simp [hv, Tk.key, ih]
    · have : a.text = [] := by simpa [visible] using hv
      simp [hv, this, ih]

theorem OnlyPhMoved.text {s' s : Store} (h : OnlyPhMoved s' s) (hs : PhEmpty s) : textOf s' = textOf s := by
  rw [textOf_eq_visible, textOf_eq_visible, h.visible hs]

/-! ### `splitAt?`, `takeIgnored` -/

theorem splitAt?_eq {id : Nat} {s : Store} {a : List Tk} {x : Tk} {b : List Tk}
    (h : splitAt? id s = some (a, x, b)) : s = a ++ x :: b ∧ x.id = id := by
  induction s generalizing a with
  | nil => simp [splitAt?] at h
  | cons t ts ih =>
    simp only [splitAt?] at h
    split at h
    · cases h; simp_all
    · split at h
      · cases h
      · rename_i a' x' b' heq
        cases h
        have := ih heq
        simp [this.1.symm, this.2]

theorem splitAt?_of_nodup {a : List Tk} {x : Tk} {b : List Tk} (h : IdsNodup (a ++ x :: b)) :
    splitAt? x.id (a ++ x :: b) = some (a, x, b) := by
  induction a with
  | nil => simp [splitAt?]
  | cons t ts ih =>
    have h' : (t.id :: (ts ++ x :: b).map (·.id)).Nodup := by simpa [IdsNodup] using h
    have hn := List.nodup_cons.mp h'
    have hne : t.id ≠ x.id := by
      intro he
      apply hn.1
      simp [he]
    have ht : IdsNodup (ts ++ x :: b) := hn.2
    simp [splitAt?, hne, ih ht]

theorem takeIgnored_eq (w ign : List Tk) :
    takeIgnored w ign = (ign ++ w.takeWhile isPh, w.dropWhile isPh) := by
  induction w generalizing ign with
  | nil => simp [takeIgnored]
  | cons t ts ih =>
    simp only [takeIgnored]
    by_cases h : isPh t = true
    · simp [h, ih]
    · simp [h]

theorem takeWhile_all (p : Tk → Bool) (w : List Tk) : ∀ t ∈ w.takeWhile p, p t = true := by
  induction w with
  | nil => simp
  | cons a l ih =>
    intro t ht
    by_cases h : p a = true
    · simp [h] at ht
      rcases ht with rfl | ht
      · exact h
      · exact ih t ht
    · simp [h] at ht

/-! ### `_claim_comment` as a function of the walk -/

/-- The walk-level core of `_claim_comment`: the new walk and the claimed comment.  The walk
`p1 ++ nl :: p2 ++ c :: r4` becomes `nl :: c' :: p1 ++ p2 ++ r4`. -/
def claimWalk (ig : Bool) (w : List Tk) : Except String (List Tk × Option Nat) :=
  match w.dropWhile isPh with
  | [] => .ok (w, none)
  | nl :: r2 =>
    if nl.kind ≠ .newline then .ok (w, none) else
    match r2.dropWhile isPh with
    | [] => .ok (w, none)
    | c :: r4 =>
      if c.kind ≠ .blockComment then .ok (w, none) else
      if c.claimed then (if ig then .ok (w, none) else .error "claimed") else
      .ok (nl :: { c with claimed := true } :: (w.takeWhile isPh ++ r2.takeWhile isPh) ++ r4, some c.id)

/-- Both directions of `claimComment` (with their literal splices) are `claimWalk` on the walk. -/
theorem claimComment_eq (bw ig : Bool) (start : Nat) (s : Store) :
    claimComment bw ig start s =
      match splitAt? start s with
      | none => .error "not-in-store"
      | some (pre, st, post) =>
        if bw then
          match claimWalk ig pre.reverse with
          | .error e => .error e
          | .ok (w', r) => .ok (w'.reverse ++ st :: post, r)
        else
          match claimWalk ig post with
          | .error e => .error e
          | .ok (w', r) => .ok (pre ++ st :: w', r) := by
  cases hsp : splitAt? start s with
  | none => simp [claimComment, hsp]
  | some trip =>
    obtain ⟨pre, st, post⟩ := trip
    have hs := (splitAt?_eq hsp).1
    simp only [claimComment, hsp]
    cases bw <;> simp only [takeIgnored_eq, claimWalk, List.nil_append, Bool.false_eq_true, if_false, if_true]
    · -- forwards
      split
      · rename_i h1; simp at h1; simp [h1, hs]
      · rename_i ign1 nl r2 h1
        simp only [Prod.mk.injEq] at h1
        obtain ⟨h1a, h1b⟩ := h1
        simp only [h1b]
        by_cases hk : nl.kind = .newline
        · simp only [hk, ne_eq, not_true_eq_false, if_false]
          split
          · rename_i h2; simp at h2; simp [h2, hs]
          · rename_i ign c r4 h2
            simp only [Prod.mk.injEq] at h2
            obtain ⟨h2a, h2b⟩ := h2
            simp only [h2b]
            by_cases hc : c.kind = .blockComment
            · simp only [hc, not_true_eq_false, if_false]
              by_cases hcl : c.claimed = true
              · simp only [hcl, if_true]
                cases ig <;> simp [hs]
              · simp only [hcl, if_false, Bool.false_eq_true]
                subst h1a
                subst h2a
                by_cases he : (List.takeWhile isPh post ++ List.takeWhile isPh r2).isEmpty = true
                · simp only [he, if_true]
                  have : List.takeWhile isPh post ++ List.takeWhile isPh r2 = [] := by simpa using he
                  simp [this]
                · simp [he]
            · simp [hc, hs]
        · simp [hk, hs]
    · -- backwards
      split
      · rename_i h1; simp at h1; simp [h1, hs]
      · rename_i ign1 nl r2 h1
        simp only [Prod.mk.injEq] at h1
        obtain ⟨h1a, h1b⟩ := h1
        simp only [h1b]
        by_cases hk : nl.kind = .newline
        · simp only [hk, ne_eq, not_true_eq_false, if_false]
          split
          · rename_i h2; simp at h2; simp [h2, hs]
          · rename_i ign c r4 h2
            simp only [Prod.mk.injEq] at h2
            obtain ⟨h2a, h2b⟩ := h2
            simp only [h2b]
            by_cases hc : c.kind = .blockComment
            · simp only [hc, not_true_eq_false, if_false]
              by_cases hcl : c.claimed = true
              · simp only [hcl, if_true]
                cases ig <;> simp [hs]
              · simp only [hcl, if_false, Bool.false_eq_true]
                subst h1a
                subst h2a
                by_cases he : (List.takeWhile isPh pre.reverse ++ List.takeWhile isPh r2).isEmpty = true
                · simp only [he, if_true]
                  have : List.takeWhile isPh pre.reverse ++ List.takeWhile isPh r2 = [] := by simpa using he
                  simp [this]
                · simp [he]
            · simp [hc, hs]
        · simp [hk, hs]

theorem claimWalk_none {ig : Bool} {w w' : List Tk} (h : claimWalk ig w = .ok (w', none)) : w' = w := by
  unfold claimWalk at h
  split at h
  · cases h; rfl
  · split at h
    · cases h; rfl
    · split at h
      · cases h; rfl
      · split at h
        · cases h; rfl
        · split at h
          · split at h
            · cases h; rfl
            · cases h
          · cases h

theorem claimWalk_some {ig : Bool} {w w' : List Tk} {cid : Nat} (h : claimWalk ig w = .ok (w', some cid)) :
    ∃ p1 nl p2 c r4, w = p1 ++ nl :: (p2 ++ c :: r4) ∧
      w' = nl :: { c with claimed := true } :: ((p1 ++ p2) ++ r4) ∧
      c.id = cid ∧ c.kind = .blockComment ∧ c.claimed = false ∧ nl.kind = .newline ∧
      (∀ t ∈ p1, isPh t = true) ∧ (∀ t ∈ p2, isPh t = true) ∧ isPh nl = false ∧ isPh c = false := by
  unfold claimWalk at h
  split at h
  · cases h
  · rename_i nl r2 h1
    split at h
    · cases h
    · rename_i hk
      split at h
      · cases h
      · rename_i c r4 h2
        split at h
        · cases h
        · rename_i hc
          split at h
          · split at h <;> cases h
          · rename_i hcl
            cases h
            refine ⟨w.takeWhile isPh, nl, r2.takeWhile isPh, c, r4, ?_, rfl, rfl, ?_, ?_, ?_, takeWhile_all _ _, takeWhile_all _ _, ?_, ?_⟩
            · have e1 := List.takeWhile_append_dropWhile (p := isPh) (l := w)
              have e2 := List.takeWhile_append_dropWhile (p := isPh) (l := r2)
              rw [h1] at e1
              rw [h2] at e2
              rw [e2]; exact e1.symm
            · simpa using hc
            · simpa using hcl
            · simpa using hk
            · have : nl.kind = .newline := by simpa using hk
              simp [isPh, this]
            · have : c.kind = .blockComment := by simpa using hc
              simp [isPh, this]

/-! ### Congruences of `OnlyPhMoved` -/

theorem OnlyPhMoved.append {a' a b' b : Store} (h1 : OnlyPhMoved a' a) (h2 : OnlyPhMoved b' b) :
    OnlyPhMoved (a' ++ b') (a ++ b) := by
  constructor
  · simp only [List.filter_append, List.map_append, h1.nonPh, h2.nonPh]
  · simp only [List.map_append]; exact h1.perm.append h2.perm

theorem OnlyPhMoved.reverse {a' a : Store} (h : OnlyPhMoved a' a) : OnlyPhMoved a'.reverse a.reverse := by
  constructor
  · simp only [List.filter_reverse, List.map_reverse, h.nonPh]
  · simp only [List.map_reverse]
    exact (List.reverse_perm _).trans (h.perm.trans (List.reverse_perm _).symm)

theorem filter_nonPh_of_allPh {p : List Tk} (h : ∀ t ∈ p, isPh t = true) : p.filter (fun t => !isPh t) = [] := by
  apply List.filter_eq_nil_iff.mpr
  intro t ht
  simp [h t ht]

theorem claimWalk_moved {ig : Bool} {w w' : List Tk} {r : Option Nat} (h : claimWalk ig w = .ok (w', r)) :
    OnlyPhMoved w' w := by
  cases r with
  | none => rw [claimWalk_none h]; exact OnlyPhMoved.refl _
  | some cid =>
    obtain ⟨p1, nl, p2, c, r4, hw, hw', -, -, -, -, hp1, hp2, hnl, hc⟩ := claimWalk_some h
    subst hw hw'
    have hc' : isPh { c with claimed := true } = false := by simpa [isPh] using hc
    constructor
    · simp [List.filter_append, filter_nonPh_of_allPh hp1, filter_nonPh_of_allPh hp2, hnl, hc, hc', Tk.core]
    · simp only [List.map_append, List.map_cons, List.append_assoc]
      have e : Tk.core { c with claimed := true } = Tk.core c := rfl
      rw [e]
      -- p1 ++ nl :: (p2 ++ c :: r4)  ~  nl :: c :: (p1 ++ (p2 ++ r4))
      refine List.Perm.symm ?_
      refine (List.perm_middle).trans (List.Perm.cons _ ?_)
      rw [← List.append_assoc]
      refine (List.perm_middle).trans ?_
      rw [List.append_assoc]

theorem claimComment_moved {bw ig : Bool} {start : Nat} {s s' : Store} {r : Option Nat}
    (h : claimComment bw ig start s = .ok (s', r)) : OnlyPhMoved s' s := by
  rw [claimComment_eq] at h
  split at h
  · cases h
  · rename_i pre st post heq
    have hs := (splitAt?_eq heq).1
    subst hs
    cases bw
    · simp only [Bool.false_eq_true, if_false] at h
      split at h
      · cases h
      · rename_i w' r' hw
        cases h
        exact (OnlyPhMoved.refl pre).append ((OnlyPhMoved.refl [st]).append (claimWalk_moved hw))
    · simp only [if_true] at h
      split at h
      · cases h
      · rename_i w' r' hw
        cases h
        have := (claimWalk_moved hw).reverse
        simp only [List.reverse_reverse] at this
        exact this.append (OnlyPhMoved.refl _)

/-! ### `_shift_ignored`, flags -/

/-- Shape of a successful `shiftIgnored`: the range is replaced by its placeholders and its other tokens. -/
theorem shiftIgnored_shape {first last : Nat} {bw : Bool} {s s' : Store} (h : shiftIgnored first last bw s = .ok s') :
    s' = s ∨ ∃ a range b, s = a ++ range ++ b ∧
      s' = a ++ (if bw then range.filter isPh ++ range.filter (fun t => !isPh t)
                 else range.filter (fun t => !isPh t) ++ range.filter isPh) ++ b := by
  unfold shiftIgnored at h
  split at h
  · cases h
  · rename_i a f rest h1
    have hs := (splitAt?_eq h1).1
    split at h
    · cases h
    · rename_i mid l b h2
      have hr := (splitAt?_eq h2).1
      simp only at h
      split at h
      · cases h; exact Or.inl rfl
      · right
        refine ⟨a, mid ++ [l], b, ?_, ?_⟩
        · rw [hs, hr]; simp
        · cases bw <;> simp at h <;> simp [← h]

theorem filter_isPh_append_perm (l : List Tk) :
    (l.filter isPh ++ l.filter (fun t => !isPh t)).Perm l := List.filter_append_perm isPh l

theorem shiftIgnored_perm {first last : Nat} {bw : Bool} {s s' : Store} (h : shiftIgnored first last bw s = .ok s') :
    s'.Perm s := by
  rcases shiftIgnored_shape h with rfl | ⟨a, range, b, rfl, rfl⟩
  · exact List.Perm.refl _
  · cases bw
    · simp only [Bool.false_eq_true, if_false]
      exact ((List.perm_append_comm.trans (filter_isPh_append_perm range)).append_left a).append_right b
    · simp only [if_true]
      exact ((filter_isPh_append_perm range).append_left a).append_right b

theorem shiftIgnored_moved {first last : Nat} {bw : Bool} {s s' : Store} (h : shiftIgnored first last bw s = .ok s') :
    OnlyPhMoved s' s := by
  refine ⟨?_, (shiftIgnored_perm h).map _⟩
  rcases shiftIgnored_shape h with rfl | ⟨a, range, b, rfl, rfl⟩
  · rfl
  · have e1 : (range.filter isPh).filter (fun t => !isPh t) = [] := by
      apply List.filter_eq_nil_iff.mpr; intro t ht; simp [(List.mem_filter.mp ht).2]
    have e2 : (range.filter (fun t => !isPh t)).filter (fun t => !isPh t) = range.filter (fun t => !isPh t) := by
      rw [List.filter_filter]; simp
    cases bw <;> simp [List.filter_append, e1, e2]

theorem setFlags_core (ids : List Nat) (b : Bool) (s : Store) : (setFlags ids b s).map Tk.core = s.map Tk.core := by
  simp only [setFlags, List.map_map]
  apply List.map_congr_left
  intro t _
  simp only [Function.comp]
  split <;> rfl

theorem setFlag_core (id : Nat) (b : Bool) (s : Store) : (setFlag id b s).map Tk.core = s.map Tk.core := by
  simp only [setFlag, List.map_map]
  apply List.map_congr_left
  intro t _
  simp only [Function.comp]
  split <;> rfl

theorem shiftBefore_moved {before : List Tk} {ph : Nat} {s s' : Store} (h : shiftBefore before ph s = .ok s') :
    OnlyPhMoved s' s ∧ s'.Perm s := by
  unfold shiftBefore at h
  split at h
  · cases h; exact ⟨OnlyPhMoved.refl _, List.Perm.refl _⟩
  · exact ⟨shiftIgnored_moved h, shiftIgnored_perm h⟩

theorem shiftAfter_moved {after : List Tk} {lastId : Nat} {s s' : Store} (h : shiftAfter after lastId s = .ok s') :
    OnlyPhMoved s' s ∧ s'.Perm s := by
  unfold shiftAfter at h
  split at h
  · cases h; exact ⟨OnlyPhMoved.refl _, List.Perm.refl _⟩
  · split at h
    · cases h
    · exact ⟨shiftIgnored_moved h, shiftIgnored_perm h⟩

/-- Result shape of `claimInterleaving`: two shifts, then flags. -/
theorem claimInterleaving_store {ph : Nat} {items : List Item} {mf ml : Nat} {set : Option (List Nat)} {s : Store}
    {o : InterOut} (h : claimInterleaving ph items mf ml set s = .ok o) :
    ∃ s2 : Store, s2.Perm s ∧ OnlyPhMoved s2 s ∧ o.store = setFlags o.comments true s2 ∧ o.comments = itemCommentIds o.items := by
  unfold claimInterleaving at h
  cases hsc : scanComments (inSetOf set) ph items mf ml s with
  | error e => simp [hsc] at h
  | ok sc =>
    simp only [hsc] at h
    split at h
    · cases h
    · cases h1 : shiftBefore sc.before ph s with
      | error e => simp [h1] at h
      | ok s1 =>
        simp only [h1] at h
        cases h2 : shiftAfter sc.after sc.lastId s1 with
        | error e => simp [h2] at h
        | ok s2 =>
          simp only [h2] at h
          cases h
          have a1 := shiftBefore_moved h1
          have a2 := shiftAfter_moved h2
          exact ⟨s2, a2.2.trans a1.2, a2.1.trans a1.1, rfl, rfl⟩

theorem claimInterleaving_moved {ph : Nat} {items : List Item} {mf ml : Nat} {set : Option (List Nat)} {s : Store}
    {o : InterOut} (h : claimInterleaving ph items mf ml set s = .ok o) : OnlyPhMoved o.store s := by
  obtain ⟨s2, -, hm, hs, -⟩ := claimInterleaving_store h
  rw [hs]
  exact (OnlyPhMoved.of_core_eq (setFlags_core _ _ _)).trans hm

/-! ### Document-level calls -/

theorem claimLeading_moved {n start : Nat} {ig : Bool} {d d' : Doc} {r : Option Nat}
    (h : claimLeading n start ig d = .ok (d', r)) : OnlyPhMoved d'.store d.store := by
  unfold claimLeading at h
  split at h
  · cases h; exact OnlyPhMoved.refl _
  · cases hc : claimComment true ig start d.store with
    | error e => simp [hc] at h
    | ok p =>
      obtain ⟨s, r'⟩ := p
      cases r' <;> simp only [hc] at h <;> cases h <;> exact claimComment_moved hc

theorem claimTrailing_moved {n start : Nat} {ig : Bool} {d d' : Doc} {r : Option Nat}
    (h : claimTrailing n start ig d = .ok (d', r)) : OnlyPhMoved d'.store d.store := by
  unfold claimTrailing at h
  split at h
  · cases h; exact OnlyPhMoved.refl _
  · cases hc : claimComment false ig start d.store with
    | error e => simp [hc] at h
    | ok p =>
      obtain ⟨s, r'⟩ := p
      cases r' <;> simp only [hc] at h <;> cases h <;> exact claimComment_moved hc

theorem unclaimLeading_core (n : Nat) (d : Doc) : (unclaimLeading n d).1.store.map Tk.core = d.store.map Tk.core := by
  unfold unclaimLeading
  split
  · rfl
  · exact setFlag_core _ _ _

theorem unclaimTrailing_core (n : Nat) (d : Doc) : (unclaimTrailing n d).1.store.map Tk.core = d.store.map Tk.core := by
  unfold unclaimTrailing
  split
  · rfl
  · exact setFlag_core _ _ _

theorem unclaimInterleaving_core {items : List Item} {set : Option (List Nat)} {s : Store} {o : UnclaimOut}
    (h : unclaimInterleaving items set s = .ok o) : o.store.map Tk.core = s.map Tk.core := by
  unfold unclaimInterleaving at h
  simp only at h
  split at h
  · cases h
  · cases h; exact setFlags_core _ _ _

theorem claimInter_moved {r ph mf ml : Nat} {set : Option (List Nat)} {d d' : Doc} {cs : List Nat}
    (h : claimInter r ph mf ml set d = .ok (d', cs)) : OnlyPhMoved d'.store d.store := by
  unfold claimInter at h
  cases hc : claimInterleaving ph (repItems r d.reps) mf ml set d.store with
  | error e => simp [hc] at h
  | ok o => simp only [hc] at h; cases h; exact claimInterleaving_moved hc

theorem unclaimInter_core {r : Nat} {set : Option (List Nat)} {d d' : Doc} {cs : List Nat}
    (h : unclaimInter r set d = .ok (d', cs)) : d'.store.map Tk.core = d.store.map Tk.core := by
  unfold unclaimInter at h
  cases hc : unclaimInterleaving (repItems r d.reps) set d.store with
  | error e => simp [hc] at h
  | ok o => simp only [hc] at h; cases h; exact unclaimInterleaving_core hc

theorem runCall_moved (d : Doc) (c : Call) : OnlyPhMoved (runCall d c).store d.store := by
  cases c with
  | claimLeading n st ig =>
    simp only [runCall]
    cases h : claimLeading n st ig d with
    | error e => exact OnlyPhMoved.refl _
    | ok p => exact claimLeading_moved (r := p.2) (d' := p.1) h
  | claimTrailing n st ig =>
    simp only [runCall]
    cases h : claimTrailing n st ig d with
    | error e => exact OnlyPhMoved.refl _
    | ok p => exact claimTrailing_moved (r := p.2) (d' := p.1) h
  | unclaimLeading n => exact OnlyPhMoved.of_core_eq (unclaimLeading_core n d)
  | unclaimTrailing n => exact OnlyPhMoved.of_core_eq (unclaimTrailing_core n d)
  | claimInter r ph mf ml set =>
    simp only [runCall]
    cases h : claimInter r ph mf ml set d with
    | error e => exact OnlyPhMoved.refl _
    | ok p => exact claimInter_moved (d' := p.1) (cs := p.2) h
  | unclaimInter r set =>
    simp only [runCall]
    cases h : unclaimInter r set d with
    | error e => exact OnlyPhMoved.refl _
    | ok p => exact OnlyPhMoved.of_core_eq (unclaimInter_core (d' := p.1) (cs := p.2) h)

theorem autoClaim_moved (d : Doc) (calls : List Call) : OnlyPhMoved (autoClaim d calls).store d.store := by
  induction calls generalizing d with
  | nil => exact OnlyPhMoved.refl _
  | cons c cs ih =>
    simp only [autoClaim, List.foldl_cons]
    exact (ih (runCall d c)).trans (runCall_moved d c)

end Autobean.Comments
