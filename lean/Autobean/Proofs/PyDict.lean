/-
Bridging lemmas: the recursive reference operations of `Model/PyDict.lean` expressed by the position of the first match
(`findIdx?` / `find?` / `any`), which is how the mapping views compute them.
-/
import Autobean.Model.PyDict

namespace Autobean.PyDict
variable {β : Type}

theorem get_eq_find (d : PyMultiDict β) (k : Nat) :
    get d k = match d.find? (fun p => p.1 == k) with
      | some p => .ok p.2
      | none => .error "KeyError" := by
  induction d with
  | nil => rfl
  | cons p r ih =>
    obtain ⟨k', v⟩ := p
    by_cases h : k' = k
    · simp [get, h]
    · simp [get, h, ih]

theorem contains_eq_any (d : PyMultiDict β) (k : Nat) : contains d k = d.any (fun p => p.1 == k) := by
  induction d with
  | nil => rfl
  | cons p r ih =>
    obtain ⟨k', v⟩ := p
    by_cases h : k' = k
    · simp [contains, h]
    · simp [contains, h, ih]

theorem set_of_findIdx_some (d : PyMultiDict β) (k : Nat) (v : β) {i : Nat}
    (h : d.findIdx? (fun p => p.1 == k) = some i) : set d k v = List.set d i (k, v) := by
  induction d generalizing i with
  | nil => simp at h
  | cons p r ih =>
    obtain ⟨k', v'⟩ := p
    by_cases hk : k' = k
    · simp [List.findIdx?_cons, hk] at h
      subst h
      simp [set, hk]
    · simp only [List.findIdx?_cons, beq_iff_eq, hk, if_false] at h
      cases hr : r.findIdx? (fun p => p.1 == k) with
      | none => rw [hr] at h; cases h
      | some j =>
        rw [hr] at h
        simp only [Option.map_some, Option.some.injEq] at h
        subst h
        simp [set, hk, ih hr]

theorem set_of_findIdx_none (d : PyMultiDict β) (k : Nat) (v : β)
    (h : d.findIdx? (fun p => p.1 == k) = none) : set d k v = d ++ [(k, v)] := by
  induction d with
  | nil => rfl
  | cons p r ih =>
    obtain ⟨k', v'⟩ := p
    by_cases hk : k' = k
    · simp [List.findIdx?_cons, hk] at h
    · simp only [List.findIdx?_cons, beq_iff_eq, hk, if_false, Option.map_eq_none_iff] at h
      simp [set, hk, ih h]

theorem del_of_findIdx_some (d : PyMultiDict β) (k : Nat) {i : Nat}
    (h : d.findIdx? (fun p => p.1 == k) = some i) : del d k = .ok (d.eraseIdx i) := by
  induction d generalizing i with
  | nil => simp at h
  | cons p r ih =>
    obtain ⟨k', v'⟩ := p
    by_cases hk : k' = k
    · simp [List.findIdx?_cons, hk] at h
      subst h
      simp [del, hk]
    · simp only [List.findIdx?_cons, beq_iff_eq, hk, if_false] at h
      cases hr : r.findIdx? (fun p => p.1 == k) with
      | none => rw [hr] at h; cases h
      | some j =>
        rw [hr] at h
        simp only [Option.map_some, Option.some.injEq] at h
        subst h
        simp [del, hk, ih hr]

theorem del_of_findIdx_none (d : PyMultiDict β) (k : Nat)
    (h : d.findIdx? (fun p => p.1 == k) = none) : del d k = .error "KeyError" := by
  induction d with
  | nil => rfl
  | cons p r ih =>
    obtain ⟨k', v'⟩ := p
    by_cases hk : k' = k
    · simp [List.findIdx?_cons, hk] at h
    · simp only [List.findIdx?_cons, beq_iff_eq, hk, if_false, Option.map_eq_none_iff] at h
      simp [del, hk, ih h]

theorem get_of_findIdx_none (d : PyMultiDict β) (k : Nat)
    (h : d.findIdx? (fun p => p.1 == k) = none) : get d k = .error "KeyError" := by
  induction d with
  | nil => rfl
  | cons p r ih =>
    obtain ⟨k', v'⟩ := p
    by_cases hk : k' = k
    · simp [List.findIdx?_cons, hk] at h
    · simp only [List.findIdx?_cons, beq_iff_eq, hk, if_false, Option.map_eq_none_iff] at h
      simp [get, hk, ih h]

theorem get_of_findIdx_some (d : PyMultiDict β) (k : Nat) {i : Nat}
    (h : d.findIdx? (fun p => p.1 == k) = some i) : ∃ p, d[i]? = some p ∧ p.1 = k ∧ get d k = .ok p.2 := by
  induction d generalizing i with
  | nil => simp at h
  | cons p r ih =>
    obtain ⟨k', v'⟩ := p
    by_cases hk : k' = k
    · simp [List.findIdx?_cons, hk] at h
      subst h
      exact ⟨(k', v'), by simp, hk, by simp [get, hk]⟩
    · simp only [List.findIdx?_cons, beq_iff_eq, hk, if_false] at h
      cases hr : r.findIdx? (fun p => p.1 == k) with
      | none => rw [hr] at h; cases h
      | some j =>
        rw [hr] at h
        simp only [Option.map_some, Option.some.injEq] at h
        subst h
        obtain ⟨p, hp, hpk, hg⟩ := ih hr
        exact ⟨p, by simpa using hp, hpk, by simp [get, hk, hg]⟩

/-- `pop` by the position of the first match. -/
theorem pop_of_findIdx_some (d : PyMultiDict β) (k : Nat) (dflt : Bool) {i : Nat}
    (h : d.findIdx? (fun p => p.1 == k) = some i) :
    ∃ p, d[i]? = some p ∧ pop d k dflt = .ok (some p.2, d.eraseIdx i) := by
  obtain ⟨p, hp, _, hg⟩ := get_of_findIdx_some d k h
  exact ⟨p, hp, by simp [pop, hg, del_of_findIdx_some d k h]⟩

theorem pop_of_findIdx_none (d : PyMultiDict β) (k : Nat) (dflt : Bool)
    (h : d.findIdx? (fun p => p.1 == k) = none) :
    pop d k dflt = if dflt then .ok (none, d) else .error "KeyError" := by
  simp [pop, get_of_findIdx_none d k h]

/-- Assigning the value that is already there changes nothing. -/
theorem set_get_self (d : PyMultiDict β) (k : Nat) (v : β) (h : get d k = .ok v) : set d k v = d := by
  induction d with
  | nil => simp [get] at h
  | cons p r ih =>
    obtain ⟨k', v'⟩ := p
    by_cases hk : k' = k
    · simp [get, hk] at h
      simp [set, hk, h]
    · simp only [get, hk, if_false] at h
      simp [set, hk, ih h]

/-- `findIdx?` through a map that keeps the key. -/
theorem findIdx_map_key {α : Type} (l : List α) (key : α → Nat) (f : α → β) (k : Nat) :
    (l.map fun x => (key x, f x)).findIdx? (fun p => p.1 == k) = l.findIdx? (fun x => key x == k) := by
  induction l with
  | nil => rfl
  | cons x r ih => simp [List.findIdx?_cons, ih]

/-- `get` through a map that keeps the key. -/
theorem get_map_key {α : Type} (l : List α) (key : α → Nat) (f : α → β) (k : Nat) :
    get (l.map fun x => (key x, f x)) k = match l.find? (fun x => key x == k) with
      | some x => .ok (f x)
      | none => .error "KeyError" := by
  induction l with
  | nil => rfl
  | cons x r ih =>
    by_cases h : key x = k
    · simp [get, h]
    · simp [get, h, ih]

theorem map_eraseIdx {α γ : Type} (f : α → γ) (l : List α) (i : Nat) :
    (l.eraseIdx i).map f = (l.map f).eraseIdx i := by
  induction l generalizing i with
  | nil => rfl
  | cons x r ih => cases i <;> simp [List.eraseIdx, ih]

theorem findIdx_some_lt {α : Type} {l : List α} {p : α → Bool} {i : Nat} (h : l.findIdx? p = some i) :
    i < l.length :=
  (List.findIdx?_eq_some_iff_findIdx_eq.mp h).1

end Autobean.PyDict
