/-
Well-formedness is preserved by insertions: the inserted tokens (free-standing values with new ids, separator
copies with ids from the counter) keep the store's ids distinct.  Needed to compose operations (`_fold`).
-/
import Autobean.Proofs.RepShape

namespace Autobean.Rep
open Autobean.Seq

theorem distinct_append {a b : List Tk} (ha : Distinct a) (hb : Distinct b)
    (hab : ∀ x ∈ a, ∀ y ∈ b, x.id ≠ y.id) : Distinct (a ++ b) := by
  unfold Distinct at *
  rw [ids_append]
  refine List.nodup_append.mpr ⟨ha, hb, ?_⟩
  intro i hi j hj
  obtain ⟨x, hx, rfl⟩ := List.mem_map.mp hi
  obtain ⟨y, hy, rfl⟩ := List.mem_map.mp hj
  exact hab x hx y hy

theorem copySeps_distinct (tmpl : List Tk) (c : Nat) : Distinct (copySeps tmpl c) := by
  induction tmpl generalizing c with
  | nil => simp [copySeps, Distinct, ids]
  | cons t ts ih =>
    have h1 : Distinct [({ t with id := c } : Tk)] := by simp [Distinct, ids]
    have := distinct_append h1 (ih (c + 1)) (by
      intro x hx y hy
      simp at hx; subst hx
      have := (copySeps_ids ts (c + 1) y hy).1
      simp; omega)
    simpa [copySeps] using this

/-- `X` consists of tokens of the batch `vs` and of separator copies with ids in `[lo, hi)`, all distinct. -/
def Mix (lo hi : Nat) (vs : List (List Tk)) (X : List Tk) : Prop :=
  Distinct X ∧ ∀ x ∈ X, x ∈ vs.flatten ∨ (lo ≤ x.id ∧ x.id < hi)

/-- The batch: distinct tokens with ids below the counter. -/
structure BatchOK (ctr : Nat) (vs : List (List Tk)) : Prop where
  distinct : Distinct vs.flatten
  lt : ∀ t ∈ vs.flatten, t.id < ctr

theorem BatchOK.tail {ctr : Nat} {v : List Tk} {vs : List (List Tk)} (h : BatchOK ctr (v :: vs)) : BatchOK ctr vs :=
  ⟨by have := h.distinct; simp at this; exact this.append_right,
   fun t ht => h.lt t (by simp; exact Or.inr (by simpa using ht))⟩

theorem BatchOK.head {ctr : Nat} {v : List Tk} {vs : List (List Tk)} (h : BatchOK ctr (v :: vs)) :
    Distinct v ∧ (∀ t ∈ v, t.id < ctr) ∧ ∀ x ∈ v, ∀ y ∈ vs.flatten, x.id ≠ y.id := by
  have hd := h.distinct
  simp only [List.flatten_cons] at hd
  exact ⟨hd.append_left, fun t ht => h.lt t (by simp [ht]), hd.disjoint⟩

/-- One value, one separator copy (in either order) and the rest. -/
theorem mix_step {ctr lo hi n : Nat} {v : List Tk} {vs : List (List Tk)} {A rest : List Tk}
    (hb : BatchOK ctr (v :: vs)) (hlo : ctr ≤ lo) (hA : Distinct A) (hAid : ∀ t ∈ A, lo ≤ t.id ∧ t.id < lo + n)
    (hhi : lo + n ≤ hi) (hrest : Mix (lo + n) hi vs rest) :
    Mix lo hi (v :: vs) (A ++ v ++ rest) ∧ Mix lo hi (v :: vs) (v ++ A ++ rest) := by
  obtain ⟨hv, hvlt, hvdis⟩ := hb.head
  have hbt := hb.tail
  have hAv : ∀ x ∈ A, ∀ y ∈ v, x.id ≠ y.id := by
    intro x hx y hy; have := (hAid x hx).1; have := hvlt y hy; omega
  have hrest_id : ∀ y ∈ rest, (y ∈ vs.flatten ∧ y.id < ctr) ∨ lo + n ≤ y.id := by
    intro y hy
    rcases hrest.2 y hy with h | h
    · exact Or.inl ⟨h, hbt.lt y h⟩
    · exact Or.inr h.1
  have hAr : ∀ x ∈ A, ∀ y ∈ rest, x.id ≠ y.id := by
    intro x hx y hy
    have h1 := hAid x hx
    rcases hrest_id y hy with h | h <;> omega
  have hvr : ∀ x ∈ v, ∀ y ∈ rest, x.id ≠ y.id := by
    intro x hx y hy
    rcases hrest_id y hy with h | h
    · exact hvdis x hx y h.1
    · have := hvlt x hx; omega
  have hmem : ∀ x, x ∈ A ∨ x ∈ v ∨ x ∈ rest → x ∈ (v :: vs).flatten ∨ (lo ≤ x.id ∧ x.id < hi) := by
    intro x hx
    rcases hx with hx | hx | hx
    · have := hAid x hx; exact Or.inr ⟨this.1, by omega⟩
    · exact Or.inl (by simp [hx])
    · rcases hrest.2 x hx with h | h
      · exact Or.inl (by simp; exact Or.inr (by simpa using h))
      · exact Or.inr ⟨by omega, h.2⟩
  constructor
  · refine ⟨?_, ?_⟩
    · refine distinct_append (distinct_append hA hv hAv) hrest.1 ?_
      intro x hx y hy
      rcases List.mem_append.mp hx with hx | hx
      · exact hAr x hx y hy
      · exact hvr x hx y hy
    · intro x hx
      simp only [List.mem_append] at hx
      rcases hx with (h | h) | h
      · exact hmem x (Or.inl h)
      · exact hmem x (Or.inr (Or.inl h))
      · exact hmem x (Or.inr (Or.inr h))
  · refine ⟨?_, ?_⟩
    · refine distinct_append (distinct_append hv hA (fun x hx y hy => (hAv y hy x hx).symm)) hrest.1 ?_
      intro x hx y hy
      rcases List.mem_append.mp hx with hx | hx
      · exact hvr x hx y hy
      · exact hAr x hx y hy
    · intro x hx
      simp only [List.mem_append] at hx
      rcases hx with (h | h) | h
      · exact hmem x (Or.inr (Or.inl h))
      · exact hmem x (Or.inl h)
      · exact hmem x (Or.inr (Or.inr h))

theorem mix_nil (lo hi : Nat) : Mix lo hi [] [] := ⟨by simp [Distinct, ids], by simp⟩

theorem mix_leftSegs {ctr : Nat} (seps : List Tk) (lo : Nat) (vs : List (List Tk)) (hb : BatchOK ctr vs)
    (hlo : ctr ≤ lo) : Mix lo (lo + vs.length * seps.length) vs (body (leftSegs seps lo vs)) := by
  induction vs generalizing lo with
  | nil => simpa [leftSegs] using mix_nil lo lo
  | cons v vs ih =>
    have ih' := ih (lo + seps.length) hb.tail (by omega)
    have hhi : lo + seps.length + vs.length * seps.length = lo + (vs.length + 1) * seps.length := by
      rw [Nat.add_mul]; omega
    rw [hhi] at ih'
    have := (mix_step (n := seps.length) hb hlo (copySeps_distinct seps lo) (copySeps_ids seps lo)
      (by rw [Nat.add_mul]; omega) ih').1
    simpa [leftSegs] using this

theorem mix_rightToks {ctr : Nat} (seps : List Tk) (lo : Nat) (vs : List (List Tk)) (hb : BatchOK ctr vs)
    (hlo : ctr ≤ lo) : Mix lo (lo + vs.length * seps.length) vs (rightToks seps lo vs) := by
  induction vs generalizing lo with
  | nil => simpa [rightToks] using mix_nil lo lo
  | cons v vs ih =>
    have ih' := ih (lo + seps.length) hb.tail (by omega)
    have hhi : lo + seps.length + vs.length * seps.length = lo + (vs.length + 1) * seps.length := by
      rw [Nat.add_mul]; omega
    rw [hhi] at ih'
    have := (mix_step (n := seps.length) hb hlo (copySeps_distinct seps lo) (copySeps_ids seps lo)
      (by rw [Nat.add_mul]; omega) ih').2
    simpa [rightToks] using this

theorem mix_beforeSegs {ctr : Nat} (c : Cfg) (vs : List (List Tk)) (hb : BatchOK ctr vs) :
    Mix ctr (beforeCtr c ctr vs) vs (body (beforeSegs c ctr vs)) := by
  cases vs with
  | nil => simpa [beforeSegs, beforeCtr] using mix_nil ctr ctr
  | cons v vs =>
    have h1 := mix_leftSegs c.seps (ctr + c.sepsBefore.length) vs hb.tail (by omega)
    have := (mix_step (n := c.sepsBefore.length) hb (Nat.le_refl ctr) (copySeps_distinct c.sepsBefore ctr)
      (copySeps_ids c.sepsBefore ctr) (by omega) h1).1
    simpa [beforeSegs, beforeCtr] using this

/-- Inserting a `Mix` into a cut of a store whose ids are below the counter keeps ids distinct and below the new
counter. -/
theorem distinct_insert_mix {P Q X : List Tk} {ctr hi : Nat} {vs : List (List Tk)}
    (hd : Distinct (P ++ Q)) (hlt : ∀ t ∈ P ++ Q, t.id < ctr) (hX : Mix ctr hi vs X)
    (hnew : ∀ t ∈ vs.flatten, ∀ s ∈ P ++ Q, t.id ≠ s.id) :
    Distinct (P ++ X ++ Q) := by
  refine hd.insert hX.1 ?_
  intro x hx y hy
  rcases hX.2 x hx with h | h
  · exact hnew x h y hy
  · have := hlt y hy; omega

theorem lt_insert_mix {P Q X : List Tk} {ctr hi : Nat} {vs : List (List Tk)}
    (hlt : ∀ t ∈ P ++ Q, t.id < ctr) (hX : Mix ctr hi vs X) (hb : BatchOK ctr vs) (hhi : ctr ≤ hi) :
    ∀ t ∈ P ++ X ++ Q, t.id < hi := by
  intro t ht
  simp only [List.mem_append] at ht
  rcases ht with (ht | ht) | ht
  · have := hlt t (by simp [ht]); omega
  · rcases hX.2 t ht with h | h
    · have := hb.lt t h; omega
    · exact h.2
  · have := hlt t (by simp [ht]); omega

end Autobean.Rep

namespace Autobean.Rep
open Autobean.Seq

/-- Every id of the store is below the allocation counter (so separator copies are new). -/
def CtrOK (store : List Tk) (ctr : Nat) : Prop := ∀ t ∈ store, t.id < ctr

/-- A batch of free-standing values that may be inserted: distinct tokens, unknown to the store, with ids below
the counter, no empty value. -/
structure ValsOK (store : List Tk) (ctr : Nat) (vs : List (List Tk)) : Prop where
  batch : BatchOK ctr vs
  new : ∀ t ∈ vs.flatten, ∀ s ∈ store, t.id ≠ s.id
  nonempty : ∀ v ∈ vs, v ≠ []

theorem insertCtr_ge (c : Cfg) (ctr : Nat) (pre post : List Seg) (vs : List (List Tk)) :
    ctr ≤ insertCtr c ctr pre post vs := by
  unfold insertCtr
  split
  · cases vs <;> simp [beforeCtr]; omega
  · omega

theorem insertSegs_nonempty (c : Cfg) (ctr : Nat) {pre post : List Seg} {vs : List (List Tk)}
    (h : ItemsNonempty (pre ++ post)) (hv : ∀ v ∈ vs, v ≠ []) : ItemsNonempty (insertSegs c ctr pre post vs) := by
  have h1 := ItemsNonempty.append.mp h
  cases pre with
  | cons sg pre' =>
    simp only [insertSegs]
    exact ItemsNonempty.append.mpr ⟨ItemsNonempty.append.mpr ⟨h1.1, leftSegs_nonempty _ _ _ hv⟩, h1.2⟩
  | nil =>
    cases post with
    | nil => exact beforeSegs_nonempty c ctr vs hv
    | cons sg0 post' =>
      simp only [insertSegs]
      have h2 := ItemsNonempty.cons.mp h1.2
      exact ItemsNonempty.append.mpr ⟨rightSegs_nonempty _ _ _ _ _ hv h2.1, h2.2⟩

/-- An insertion is one cut of the store filled with a `Mix` of the batch and separator copies. -/
theorem insertSegs_cut {c : Cfg} {L R : List Tk} {ph : Tk} (pre post : List Seg) {ctr : Nat}
    {vs : List (List Tk)} (hb : BatchOK ctr vs) :
    ∃ P Q X, L ++ layout ph (pre ++ post) ++ R = P ++ Q ∧
      L ++ layout ph (insertSegs c ctr pre post vs) ++ R = P ++ X ++ Q ∧
      Mix ctr (insertCtr c ctr pre post vs) vs X ∧ ctr ≤ insertCtr c ctr pre post vs := by
  cases pre with
  | cons sg pre' =>
    refine ⟨L ++ layout ph (sg :: pre'), body post ++ R, body (leftSegs c.seps ctr vs), ?_, ?_, ?_, ?_⟩
    · rw [layout_append]; simp
    · simp [insertSegs, layout, body_append]
    · simpa [insertCtr] using mix_leftSegs c.seps ctr vs hb (Nat.le_refl _)
    · simp [insertCtr]
  | nil =>
    cases post with
    | nil =>
      refine ⟨L ++ [ph], R, body (beforeSegs c ctr vs), ?_, ?_, ?_, ?_⟩
      · simp [layout]
      · simp [insertSegs, layout]
      · simpa [insertCtr] using mix_beforeSegs c vs hb
      · cases vs <;> simp [insertCtr, beforeCtr]; omega
    | cons sg0 post' =>
      refine ⟨L ++ ph :: sg0.1, sg0.2 ++ body post' ++ R, rightToks c.seps ctr vs, ?_, ?_, ?_, ?_⟩
      · simp [layout]
      · simp [insertSegs, layout, body_append, body_rightSegs]
      · simpa [insertCtr] using mix_rightToks c.seps ctr vs hb (Nat.le_refl _)
      · simp [insertCtr]

/-- Insertion preserves well-formedness and the counter invariant. -/
theorem RegionWF.insert {c : Cfg} {store : List Tk} {items : List Span} {L R : List Tk} {ph : Tk}
    {pre post : List Seg} {ctr : Nat} {vs : List (List Tk)}
    (wf : RegionWF c store items L R ph (pre ++ post)) (hc : CtrOK store ctr) (hv : ValsOK store ctr vs) :
    RegionWF c (L ++ layout ph (insertSegs c ctr pre post vs) ++ R) (spans (insertSegs c ctr pre post vs)) L R ph
        (insertSegs c ctr pre post vs) ∧
      CtrOK (L ++ layout ph (insertSegs c ctr pre post vs) ++ R) (insertCtr c ctr pre post vs) := by
  have hd := wf.distinct
  have hne := insertSegs_nonempty c ctr wf.nonempty hv.nonempty
  obtain ⟨P, Q, X, hs, hs', hX, hhi⟩ := insertSegs_cut (c := c) (L := L) (R := R) (ph := ph) pre post hv.batch
  rw [wf.store_eq, hs] at hd
  have hc' : ∀ t ∈ P ++ Q, t.id < ctr := by rw [← hs, ← wf.store_eq]; exact hc
  have hnew : ∀ t ∈ vs.flatten, ∀ s ∈ P ++ Q, t.id ≠ s.id := by rw [← hs, ← wf.store_eq]; exact hv.new
  refine ⟨⟨rfl, ?_, wf.ph_id, hne, rfl⟩, ?_⟩
  · rw [hs']; exact distinct_insert_mix hd hc' hX hnew
  · rw [hs']; exact lt_insert_mix hc' hX hv.batch hhi

/-- Where the tokens of the store come from after an insertion. -/
theorem mem_insert_store {c : Cfg} {L R : List Tk} {ph : Tk} (pre post : List Seg) {ctr : Nat}
    {vs : List (List Tk)} (hb : BatchOK ctr vs) {t : Tk}
    (ht : t ∈ L ++ layout ph (insertSegs c ctr pre post vs) ++ R) :
    t ∈ L ++ layout ph (pre ++ post) ++ R ∨ t ∈ vs.flatten ∨ ctr ≤ t.id := by
  obtain ⟨P, Q, X, hs, hs', hX, _⟩ := insertSegs_cut (c := c) (L := L) (R := R) (ph := ph) pre post hb
  rw [hs'] at ht
  rw [hs]
  simp only [List.mem_append] at ht ⊢
  rcases ht with (ht | ht) | ht
  · exact Or.inl (Or.inl ht)
  · rcases hX.2 t ht with h | h
    · exact Or.inr (Or.inl h)
    · exact Or.inr (Or.inr h.1)
  · exact Or.inl (Or.inr ht)

/-- Every token left after a deletion was there before. -/
theorem mem_of_mem_delete {L R : List Tk} {ph : Tk} {pre mid post : List Seg} {t : Tk}
    (ht : t ∈ L ++ layout ph (deleteSegs pre mid post) ++ R) : t ∈ L ++ layout ph (pre ++ mid ++ post) ++ R := by
  have hsub : ∀ x ∈ body (deleteSegs pre mid post), x ∈ body (pre ++ mid ++ post) := by
    intro x hx
    rcases deleteSegs_shape pre mid post with e | ⟨rfl, sg0, mid', sgs, post', rfl, rfl, e⟩
    · rw [e, body_append] at hx
      simp only [body_append, List.mem_append] at hx ⊢
      rcases hx with hx | hx
      · exact Or.inl (Or.inl hx)
      · exact Or.inr hx
    · rw [e] at hx
      simp only [body_cons, List.mem_append] at hx
      simp only [List.nil_append, List.cons_append, body_cons, body_append, List.mem_append]
      rcases hx with (hx | hx) | hx
      · exact Or.inl (Or.inl hx)
      · exact Or.inr (Or.inr (Or.inl (Or.inr hx)))
      · exact Or.inr (Or.inr (Or.inr hx))
  simp only [layout, List.mem_append, List.mem_cons] at ht ⊢
  rcases ht with (ht | ht | ht) | ht
  · exact Or.inl (Or.inl ht)
  · exact Or.inl (Or.inr (Or.inl ht))
  · exact Or.inl (Or.inr (Or.inr (hsub t ht)))
  · exact Or.inr ht

/-- Deletion keeps the counter invariant. -/
theorem CtrOK.delete {L R : List Tk} {ph : Tk} {pre mid post : List Seg} {ctr : Nat}
    (h : CtrOK (L ++ layout ph (pre ++ mid ++ post) ++ R) ctr) :
    CtrOK (L ++ layout ph (deleteSegs pre mid post) ++ R) ctr :=
  fun t ht => h t (mem_of_mem_delete ht)

/-- A batch that is new to a store is new to what remains of it after a deletion. -/
theorem ValsOK.delete {L R : List Tk} {ph : Tk} {pre mid post : List Seg} {ctr : Nat} {vs : List (List Tk)}
    (h : ValsOK (L ++ layout ph (pre ++ mid ++ post) ++ R) ctr vs) :
    ValsOK (L ++ layout ph (deleteSegs pre mid post) ++ R) ctr vs :=
  ⟨h.batch, fun t ht s hs => h.new t ht s (mem_of_mem_delete hs), h.nonempty⟩

end Autobean.Rep
