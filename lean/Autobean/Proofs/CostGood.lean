import Autobean.Proofs.CostRefine
/-
Every assignment (raw or value level) to a canonical cost refines the record-of-optionals update:
all branches of the three dependent setters, by cases on the shape of the main component,
the brace kind and the assigned value.
-/
namespace Autobean.Cost

/-- What "the concrete result refines the record update" means for one assignment. -/
def Good (a : Assign) (c : Cost) : Except String Cost → Prop
  | .ok c' => Canon c' ∧ view c' = Rec.set a (view c) ∧ Rec.rejects a (view c) = false
  | .error e => Rec.rejects a (view c) = true ∧ e = errCost

/-- Evaluate a setter on a cost whose shape is known and read the result back. -/
macro "cost_eval" : tactic => `(tactic|
  simp_all [Good, setPer, setTotal, setCur, setPerV, setTotalV, setCurV, updPer, updTotal, updCur,
      setDateRaw, setLabelRaw, setAsteriskRaw, setDateV, setLabelV, setMerge,
      findCompound, findAmount, findNumber, findCurrency, findDate, findLabel, hasAsterisk,
      setCompoundComp, setAmountComp, setNumberComp, setCurrencyComp, setDateComp, setLabelComp, setAsteriskComp,
      per, tot, cur, date, label, merge, view,
      Canon, Rec.set, Rec.rejects, Rec.bad, Comp.kind, errCost,
      ufind_uset_some_self, ufind_uset_none_self, ufind_uset_some_ne, ufind_uset_none_ne,
      cnt_uset_some_self, cnt_uset_none_self, cnt_uset_some_ne, cnt_uset_none_ne, ufind_urepl_self', cnt_urepl',
      ufind_urepl_ne'])

-- Case split on the main component of a canonical cost and the assigned optional value
-- (introduces the names `p t cu n h1..h4 c1..c4 hm hd hl ha` on purpose).
set_option hygiene false in
macro "main_split" h:ident v:ident : tactic => `(tactic|
  (obtain ⟨hm, hd, hl, ha⟩ := id $h
   rcases main_cases $h with ⟨h1, h2, h3, h4, c1, c2, c3, c4⟩ | ⟨p, t, cu, h1, h2, h3, h4, c1, c2, c3, c4⟩ |
     ⟨n, cu, h1, h2, h3, h4, c1, c2, c3, c4⟩ | ⟨n, h1, h2, h3, h4, c1, c2, c3, c4⟩ |
     ⟨cu, h1, h2, h3, h4, c1, c2, c3, c4⟩ <;>
   cases $v:ident))

theorem setPer_good (v : Option V) (c : Cost) (h : Canon c) : Good (.per v) c (setPer v c) := by
  obtain ⟨total, comps⟩ := c
  main_split h v <;> cases total <;> cost_eval

theorem setTotal_good (v : Option V) (c : Cost) (h : Canon c) : Good (.tot v) c (setTotal v c) := by
  obtain ⟨total, comps⟩ := c
  main_split h v <;> cases total <;> cost_eval

theorem setCur_good (v : Option Cu) (c : Cost) (h : Canon c) : Good (.cur v) c (setCur v c) := by
  obtain ⟨total, comps⟩ := c
  main_split h v <;> cases total
  case inr.inl.none.false => cases p <;> cases t <;> cost_eval
  case inr.inl.none.true => cases p <;> cases t <;> cost_eval
  all_goals cost_eval

theorem setPerV_good (v : Option V) (c : Cost) (h : Canon c) : Good (.per v) c (setPerV v c) := by
  obtain ⟨total, comps⟩ := c
  main_split h v <;> cases total
  case inr.inl.some.false => cases p <;> cost_eval
  case inr.inl.some.true => cases p <;> cost_eval
  all_goals cost_eval

theorem setTotalV_good (v : Option V) (c : Cost) (h : Canon c) : Good (.tot v) c (setTotalV v c) := by
  obtain ⟨total, comps⟩ := c
  main_split h v <;> cases total
  case inr.inl.some.false => cases t <;> cost_eval
  case inr.inl.some.true => cases t <;> cost_eval
  all_goals cost_eval

theorem setCurV_good (v : Option Cu) (c : Cost) (h : Canon c) : Good (.cur v) c (setCurV v c) := by
  obtain ⟨total, comps⟩ := c
  main_split h v <;> cases total
  case inr.inl.none.false => cases p <;> cases t <;> cost_eval
  case inr.inl.none.true => cases p <;> cases t <;> cost_eval
  all_goals cost_eval

theorem date_cases (l : List Comp) : ufind .date l = none ∨ ∃ d, ufind .date l = some (.date d) := by
  cases h : ufind .date l with
  | none => exact .inl rfl
  | some x => have hk := ufind_some_kind h; cases x <;> simp [Comp.kind] at hk; exact .inr ⟨_, rfl⟩

theorem label_cases (l : List Comp) : ufind .label l = none ∨ ∃ s, ufind .label l = some (.label s) := by
  cases h : ufind .label l with
  | none => exact .inl rfl
  | some x => have hk := ufind_some_kind h; cases x <;> simp [Comp.kind] at hk; exact .inr ⟨_, rfl⟩

theorem asterisk_cases (l : List Comp) : ufind .asterisk l = none ∨ ufind .asterisk l = some .asterisk := by
  cases h : ufind .asterisk l with
  | none => exact .inl rfl
  | some x => have hk := ufind_some_kind h; cases x <;> simp [Comp.kind] at hk; exact .inr rfl

/-- A canonical cost never shows the forbidden combination. -/
theorem view_ok (c : Cost) (h : Canon c) : (view c).bad = false := by
  obtain ⟨total, comps⟩ := c
  obtain ⟨hm, hd, hl, ha⟩ := id h
  rcases main_cases h with ⟨h1, h2, h3, h4, c1, c2, c3, c4⟩ | ⟨p, t, cu, h1, h2, h3, h4, c1, c2, c3, c4⟩ |
     ⟨n, cu, h1, h2, h3, h4, c1, c2, c3, c4⟩ | ⟨n, h1, h2, h3, h4, c1, c2, c3, c4⟩ |
     ⟨cu, h1, h2, h3, h4, c1, c2, c3, c4⟩ <;> cases total <;> cost_eval

theorem setDateRaw_good (v : Option Dt) (c : Cost) (h : Canon c) : Good (.date v) c (.ok (setDateRaw v c)) := by
  have hv := view_ok c h
  obtain ⟨total, comps⟩ := c
  obtain ⟨hm, hd, hl, ha⟩ := id h
  cases v <;> cost_eval

theorem setDateV_good (v : Option Dt) (c : Cost) (h : Canon c) : Good (.date v) c (.ok (setDateV v c)) := by
  have hv := view_ok c h
  obtain ⟨total, comps⟩ := c
  obtain ⟨hm, hd, hl, ha⟩ := id h
  rcases date_cases comps with hx | ⟨d, hx⟩ <;> cases v <;> cost_eval

theorem setLabelRaw_good (v : Option St) (c : Cost) (h : Canon c) : Good (.label v) c (.ok (setLabelRaw v c)) := by
  have hv := view_ok c h
  obtain ⟨total, comps⟩ := c
  obtain ⟨hm, hd, hl, ha⟩ := id h
  cases v <;> cost_eval

theorem setLabelV_good (v : Option St) (c : Cost) (h : Canon c) : Good (.label v) c (.ok (setLabelV v c)) := by
  have hv := view_ok c h
  obtain ⟨total, comps⟩ := c
  obtain ⟨hm, hd, hl, ha⟩ := id h
  rcases label_cases comps with hx | ⟨d, hx⟩ <;> cases v <;> cost_eval

theorem setAsteriskRaw_good (b : Bool) (c : Cost) (h : Canon c) : Good (.merge b) c (.ok (setAsteriskRaw b c)) := by
  have hv := view_ok c h
  obtain ⟨total, comps⟩ := c
  obtain ⟨hm, hd, hl, ha⟩ := id h
  cases b <;> cost_eval

theorem setMerge_good (b : Bool) (c : Cost) (h : Canon c) : Good (.merge b) c (.ok (setMerge b c)) := by
  have hv := view_ok c h
  obtain ⟨total, comps⟩ := c
  obtain ⟨hm, hd, hl, ha⟩ := id h
  rcases asterisk_cases comps with hx | hx <;> cases b <;> cost_eval

/-- All six properties, both levels. -/
theorem apply_good (o : Op) (c : Cost) (h : Canon c) : Good o.a c (o.apply c) := by
  obtain ⟨raw, a⟩ := o
  cases raw
  · cases a with
    | per v => exact setPerV_good v c h
    | tot v => exact setTotalV_good v c h
    | cur v => exact setCurV_good v c h
    | date v => exact setDateV_good v c h
    | label v => exact setLabelV_good v c h
    | merge b => exact setMerge_good b c h
  · cases a with
    | per v => exact setPer_good v c h
    | tot v => exact setTotal_good v c h
    | cur v => exact setCur_good v c h
    | date v => exact setDateRaw_good v c h
    | label v => exact setLabelRaw_good v c h
    | merge b => exact setAsteriskRaw_good b c h

end Autobean.Cost
