/-
`drop_many`: the deletions of `dropLoop` run with the `items` list of BEFORE the first deletion (the Python
updates `items` only after the loop).  `_del_tokens` reads `items` only at positions that the earlier
(higher) deletions did not touch, so it behaves as on an up-to-date list.
-/
import Autobean.Proofs.RepExt

namespace Autobean.Rep
open Autobean.Seq

/-- else-branch of `_del_tokens` with a stale tail of `items` (`postS` instead of `post`). -/
theorem delTokens_tail_stale {c : Cfg} {store : List Tk} {items : List Span} {L R : List Tk} {ph : Tk}
    {pre mid post postS : List Seg}
    (hstore : store = L ++ layout ph (pre ++ mid ++ post) ++ R) (hdist : Distinct store) (hph : ph.id = c.ph)
    (hne : ItemsNonempty (pre ++ mid ++ post)) (hitems0 : items = spans (pre ++ mid ++ postS))
    (hhead : post.head? = postS.head?) (hmid : mid ≠ []) (hbr : pre ≠ [] ∨ post = []) :
    delTokens c store items pre.length (pre.length + mid.length) = .ok (L ++ layout ph (pre ++ post) ++ R) := by
  have hne_pre : ItemsNonempty pre := (ItemsNonempty.append.mp (ItemsNonempty.append.mp hne).1).1
  have hne_mid : ItemsNonempty mid := (ItemsNonempty.append.mp (ItemsNonempty.append.mp hne).1).2
  have hmlen : 0 < mid.length := List.length_pos_iff.mpr hmid
  have hitems : items = spans (pre ++ (mid ++ postS)) := by rw [hitems0, List.append_assoc]
  have hilen : items.length = pre.length + mid.length + postS.length := by
    rw [hitems0]; simp; omega
  obtain ⟨t, ht, hpl⟩ := prevLast_eq (c := c) (ph := ph) pre (mid ++ postS) hph hne_pre
  rw [← hitems] at hpl
  have hbody : body mid ≠ [] := body_ne_nil hmid hne_mid
  obtain ⟨f, hf⟩ := exists_head hbody
  obtain ⟨mid0, sgl, rfl⟩ : ∃ mid0 sgl, mid = mid0 ++ [sgl] := by
    rcases snoc_cases mid with h | h
    · exact absurd h hmid
    · exact h
  have hsgl : sgl.2 ≠ [] := (ItemsNonempty.append.mp hne_mid).2 sgl (by simp)
  obtain ⟨l, hl⟩ := exists_getLast hsgl
  have hlast : (body (mid0 ++ [sgl])).getLast? = some l := by
    rw [body_getLast? mid0 rfl hsgl, hl]
  have hstore' : store = (L ++ layout ph pre) ++ body (mid0 ++ [sgl]) ++ (body post ++ R) := by
    rw [hstore, layout_append, layout_append]; simp
  have hd : Distinct ((L ++ layout ph pre) ++ body (mid0 ++ [sgl]) ++ (body post ++ R)) := by
    rw [← hstore']; exact hdist
  have hd2 : Distinct ((L ++ layout ph pre) ++ (body (mid0 ++ [sgl]) ++ (body post ++ R))) := by
    simpa using hd
  have hPlast : (L ++ layout ph pre).getLast? = some t := by
    rw [List.getLast?_append, ht]; rfl
  have hnext : next t.id store = .ok (some f.id) := by
    rw [hstore', List.append_assoc, next_after hPlast hd2, List.head?_append, hf]; rfl
  have hget : items[pre.length + (mid0 ++ [sgl]).length - 1]? = some (spanOf sgl.2) := by
    rw [hitems0]
    have : pre.length + (mid0 ++ [sgl]).length - 1 = (pre ++ mid0).length := by simp
    rw [this]
    simp [spans]
  have hrm := removeRange_frame (a := L ++ layout ph pre) (b := body post ++ R) hf hlast hd
  unfold delTokens
  have h1 : ¬ (pre.length + (mid0 ++ [sgl]).length ≤ pre.length) := by omega
  have h2 : ¬ (pre.length = 0 ∧ pre.length + (mid0 ++ [sgl]).length < items.length) := by
    rintro ⟨ha, hb⟩
    rcases hbr with hb' | hb'
    · exact hb' (List.length_eq_zero_iff.mp ha)
    · rw [hb'] at hhead
      have : postS = [] := by
        cases postS with
        | nil => rfl
        | cons a b => simp at hhead
      rw [hilen, this] at hb; simp at hb
  rw [if_neg h1, if_neg h2, hpl]
  simp only
  rw [hnext]
  simp only
  rw [hget]
  simp only
  rw [spanOf_last hl, hstore', hrm, layout_append]
  simp

/-- first branch of `_del_tokens` with a stale tail of `items`. -/
theorem delTokens_head_stale {c : Cfg} {store : List Tk} {items : List Span} {L R : List Tk} {ph : Tk}
    {g0 it0 gs its : List Tk} {mid' post' postS' : List Seg}
    (hstore : store = L ++ layout ph ((g0, it0) :: mid' ++ (gs, its) :: post') ++ R) (hdist : Distinct store)
    (hne : ItemsNonempty ((g0, it0) :: mid' ++ (gs, its) :: post'))
    (hitems0 : items = spans ((g0, it0) :: mid' ++ (gs, its) :: postS')) :
    delTokens c store items 0 (mid'.length + 1) = .ok (L ++ layout ph ((g0, its) :: post') ++ R) := by
  have hne1 : ItemsNonempty ((g0, it0) :: mid') := (ItemsNonempty.append.mp hne).1
  have hne2 : ItemsNonempty ((gs, its) :: post') := (ItemsNonempty.append.mp hne).2
  have hit0 : it0 ≠ [] := (ItemsNonempty.cons.mp hne1).1
  have hits : its ≠ [] := (ItemsNonempty.cons.mp hne2).1
  obtain ⟨f, hf⟩ := exists_head hit0
  obtain ⟨n, hn⟩ := exists_head hits
  have hilen : items.length = (mid'.length + 1) + (postS'.length + 1) := by
    rw [hitems0]; simp; omega
  have hW : it0 ++ body mid' ++ gs ≠ [] := by simp [hit0]
  obtain ⟨l, hl⟩ := exists_getLast hW
  have hWhead : (it0 ++ body mid' ++ gs).head? = some f := by
    rw [List.append_assoc, List.head?_append, hf]; rfl
  have hstore' : store = (L ++ (ph :: g0)) ++ (it0 ++ body mid' ++ gs) ++ (its ++ body post' ++ R) := by
    rw [hstore]; simp [layout, body_append]
  have hd : Distinct ((L ++ (ph :: g0)) ++ (it0 ++ body mid' ++ gs) ++ (its ++ body post' ++ R)) := by
    rw [← hstore']; exact hdist
  have hprev : prev n.id store = .ok (some l.id) := by
    rw [hstore']
    have hq : (its ++ body post' ++ R).head? = some n := by
      rw [List.append_assoc, List.head?_append, hn]; rfl
    rw [prev_before hq hd, List.getLast?_append, hl]; rfl
  have hget0 : items[0]? = some (spanOf it0) := by rw [hitems0]; simp [spans]
  have hgetS : items[mid'.length + 1]? = some (spanOf its) := by
    rw [hitems0]
    have : mid'.length + 1 = ((g0, it0) :: mid').length := by simp
    rw [this]
    simp [spans]
  have hrm := removeRange_frame (a := L ++ (ph :: g0)) (b := its ++ body post' ++ R) hWhead hl hd
  unfold delTokens
  have h1 : ¬ (mid'.length + 1 ≤ 0) := by omega
  have h2 : (0 = 0 ∧ mid'.length + 1 < items.length) := ⟨rfl, by omega⟩
  rw [if_neg h1, if_pos h2, hget0, hgetS]
  simp only
  rw [spanOf_first hn, hprev]
  simp only
  rw [spanOf_first hf, hstore', hrm]
  simp [layout]

/-- `_del_tokens(|pre|, |pre|+|mid|)` when `items` is stale behind the deleted window but agrees on its first
element. -/
theorem delTokens_stale {c : Cfg} {store : List Tk} {items : List Span} {L R : List Tk} {ph : Tk}
    {pre mid post postS : List Seg}
    (hstore : store = L ++ layout ph (pre ++ mid ++ post) ++ R) (hdist : Distinct store) (hph : ph.id = c.ph)
    (hne : ItemsNonempty (pre ++ mid ++ post)) (hitems : items = spans (pre ++ mid ++ postS))
    (hhead : post.head? = postS.head?) (hmid : mid ≠ []) :
    delTokens c store items pre.length (pre.length + mid.length)
      = .ok (L ++ layout ph (deleteSegs pre mid post) ++ R) := by
  cases mid with
  | nil => exact absurd rfl hmid
  | cons sg0 mid' =>
    cases pre with
    | cons sg pre' =>
      have := delTokens_tail_stale hstore hdist hph hne hitems hhead (by simp) (Or.inl (by simp))
      simpa [deleteSegs] using this
    | nil =>
      cases post with
      | nil =>
        have := delTokens_tail_stale hstore hdist hph hne hitems hhead (by simp) (Or.inr rfl)
        simpa [deleteSegs] using this
      | cons sgs post' =>
        cases postS with
        | nil => simp at hhead
        | cons sgsS postS' =>
          simp at hhead
          subst hhead
          have h1 : store = L ++ layout ph ((sg0.1, sg0.2) :: mid' ++ (sgs.1, sgs.2) :: post') ++ R := by
            simpa using hstore
          have h2 : items = spans ((sg0.1, sg0.2) :: mid' ++ (sgs.1, sgs.2) :: postS') := by
            simpa using hitems
          have := delTokens_head_stale (c := c) h1 hdist (by simpa using hne) h2
          simpa [deleteSegs] using this

/-- Runs `(hi, lo)` from high to low, each strictly below the previous one with at least one surviving index
between them (maximal runs), the first one below `b - 1`. -/
def RunsBelow : Nat → List (Nat × Nat) → Prop
  | _, [] => True
  | b, (hi, lo) :: rest => lo ≤ hi ∧ hi + 2 ≤ b ∧ RunsBelow lo rest

/-- The segments after deleting the runs one after the other. -/
def dropRuns : List Seg → List (Nat × Nat) → List Seg
  | T, [] => T
  | T, (hi, lo) :: rest =>
    dropRuns (deleteSegs (T.take lo) ((T.drop lo).take (hi + 1 - lo)) (T.drop (hi + 1))) rest

/-- The loop of `drop_many` over well-separated runs: the store becomes `L ++ layout ph (dropRuns T runs) ++ R`.
`S` is the list the stale `items` describes, `T` the current one; they agree below `b`. -/
theorem dropLoop_region {c : Cfg} {L R : List Tk} {ph : Tk} (hph : ph.id = c.ph) (S : List Seg) :
    ∀ (runs : List (Nat × Nat)) (T : List Seg) (b : Nat),
      Distinct (L ++ layout ph T ++ R) → ItemsNonempty T →
      T.take b = S.take b → b ≤ S.length + 1 → RunsBelow b runs →
      dropLoop c (spans S) (L ++ layout ph T ++ R) runs = .ok (L ++ layout ph (dropRuns T runs) ++ R) ∧
        Distinct (L ++ layout ph (dropRuns T runs) ++ R) ∧ ItemsNonempty (dropRuns T runs) := by
  intro runs
  induction runs with
  | nil => intro T b hd hne _ _ _; exact ⟨rfl, hd, hne⟩
  | cons run rest ih =>
    intro T b hd hne hagree hb hruns
    obtain ⟨hi, lo⟩ := run
    obtain ⟨hlohi, hhib, hrest⟩ := hruns
    -- T and S agree on the first hi+2 positions
    have hag2 : T.take (hi + 2) = S.take (hi + 2) := by
      have := congrArg (List.take (hi + 2)) hagree
      rw [List.take_take, List.take_take] at this
      rwa [Nat.min_eq_left hhib] at this
    have hSlen : hi < S.length := by omega
    have hTlen : hi < T.length := by
      have := congrArg List.length hag2
      simp only [List.length_take] at this
      omega
    -- decomposition of T and S
    let pre := T.take lo
    let mid := (T.drop lo).take (hi + 1 - lo)
    let post := T.drop (hi + 1)
    have hT : T = pre ++ mid ++ post := by
      have e1 : T.drop (hi + 1) = (T.drop lo).drop (hi + 1 - lo) := by
        rw [List.drop_drop]; congr 1; omega
      show T = T.take lo ++ (T.drop lo).take (hi + 1 - lo) ++ T.drop (hi + 1)
      rw [e1, List.append_assoc, List.take_append_drop, List.take_append_drop]
    have hprelen : pre.length = lo := by simp [pre]; omega
    have hmidlen : mid.length = hi + 1 - lo := by simp [mid]; omega
    have hS : S = pre ++ mid ++ S.drop (hi + 1) := by
      have h1 : pre ++ mid = T.take (hi + 1) := by
        have := List.take_append_drop (hi + 1) T
        have e : T.take (hi + 1) ++ post = pre ++ mid ++ post := by rw [this]; exact hT
        exact (List.append_cancel_right e).symm
      have h2 : T.take (hi + 1) = S.take (hi + 1) := by
        have := congrArg (List.take (hi + 1)) hag2
        rw [List.take_take, List.take_take] at this
        rwa [Nat.min_eq_left (by omega)] at this
      rw [h1, h2, List.take_append_drop]
    have hhead : post.head? = (S.drop (hi + 1)).head? := by
      show (T.drop (hi + 1)).head? = (S.drop (hi + 1)).head?
      rw [List.head?_drop, List.head?_drop]
      have := congrArg (fun l => l[hi + 1]?) hag2
      simp only [List.getElem?_take] at this
      simpa using this
    have hmidne : mid ≠ [] := by
      intro e; rw [e] at hmidlen; simp at hmidlen; omega
    have hstep := delTokens_stale (c := c) (items := spans S) (L := L) (R := R) (ph := ph)
      (pre := pre) (mid := mid) (post := post) (postS := S.drop (hi + 1))
      (by rw [← hT]) hd hph (by rw [← hT]; exact hne) (by rw [← hS]) hhead hmidne
    rw [hprelen, hmidlen] at hstep
    have harith : lo + (hi + 1 - lo) = hi + 1 := by omega
    rw [harith] at hstep
    -- the region after the deletion
    have wfT : RegionWF c (L ++ layout ph T ++ R) (spans T) L R ph (pre ++ mid ++ post) :=
      ⟨by rw [← hT], hd, hph, by rw [← hT]; exact hne, by rw [← hT]⟩
    have wfD := wfT.delete
    -- agreement below lo for the next runs
    have hagree' : (deleteSegs pre mid post).take lo = S.take lo := by
      have hpre : pre = S.take lo := by
        show T.take lo = S.take lo
        have := congrArg (List.take lo) hag2
        rw [List.take_take, List.take_take] at this
        rwa [Nat.min_eq_left (by omega)] at this
      rcases deleteSegs_shape pre mid post with e | ⟨hp, _⟩
      · rw [e, List.take_append_of_le_length (by omega), ← hprelen, List.take_length, hprelen, hpre]
      · have : lo = 0 := by rw [← hprelen, hp]; rfl
        rw [this]; simp
    have := ih (deleteSegs pre mid post) lo wfD.distinct wfD.nonempty hagree' (by omega) hrest
    simp only [dropLoop, dropRuns]
    rw [hstep]
    exact this

end Autobean.Rep

namespace Autobean.Rep
open Autobean.Seq

/-- Remove the index intervals `[lo, hi]` one after the other (high to low). -/
def removeIvs {α} : List α → List (Nat × Nat) → List α
  | l, [] => l
  | l, (hi, lo) :: rest => removeIvs (l.take lo ++ l.drop (hi + 1)) rest

theorem itemsOf_take (T : List Seg) (n : Nat) : itemsOf (T.take n) = (itemsOf T).take n := by
  simp [itemsOf, List.map_take]

theorem itemsOf_drop (T : List Seg) (n : Nat) : itemsOf (T.drop n) = (itemsOf T).drop n := by
  simp [itemsOf, List.map_drop]

/-- Items after `dropRuns`: the Python-list result of removing the runs; every surviving item keeps its token
list. -/
theorem dropRuns_items (T : List Seg) (runs : List (Nat × Nat)) :
    itemsOf (dropRuns T runs) = removeIvs (itemsOf T) runs := by
  induction runs generalizing T with
  | nil => rfl
  | cons run rest ih =>
    obtain ⟨hi, lo⟩ := run
    simp only [dropRuns, removeIvs]
    rw [ih, deleteSegs_items, itemsOf_take, itemsOf_drop]

/-- No gap is created by `drop_many`. -/
theorem dropRuns_gaps (c : Cfg) (T : List Seg) (runs : List (Nat × Nat)) :
    ∀ g ∈ gapsOf (dropRuns T runs), g ∈ gapsOf T := by
  induction runs generalizing T with
  | nil => intro g hg; exact hg
  | cons run rest ih =>
    obtain ⟨hi, lo⟩ := run
    intro g hg
    simp only [dropRuns] at hg
    have h1 := ih _ g hg
    have hsub : ∀ (pre mid post : List Seg), ∀ g ∈ gapsOf (deleteSegs pre mid post), g ∈ gapsOf (pre ++ mid ++ post) := by
      intro pre mid post g hg
      rcases deleteSegs_shape pre mid post with e | ⟨rfl, sg0, mid', sgs, post', rfl, rfl, e⟩
      · rw [e] at hg; simp only [gapsOf_append, List.mem_append] at hg ⊢
        rcases hg with hg | hg
        · exact Or.inl (Or.inl hg)
        · exact Or.inr hg
      · rw [e] at hg
        simp only [gapsOf, List.map_cons, List.mem_cons, List.nil_append, List.cons_append, List.map_append,
          List.mem_append] at hg ⊢
        rcases hg with rfl | hg
        · exact Or.inl rfl
        · exact Or.inr (Or.inr (Or.inr hg))
    have h2 := hsub _ _ _ g h1
    have e : T.take lo ++ (T.drop lo).take (hi + 1 - lo) ++ T.drop (hi + 1) = T ∨ True := Or.inr trivial
    -- membership in the three pieces implies membership in T
    simp only [gapsOf_append, List.mem_append] at h2
    have hmem : ∀ (l : List Seg), (∀ x ∈ l, x ∈ T) → ∀ g ∈ gapsOf l, g ∈ gapsOf T := by
      intro l hl g hg
      obtain ⟨x, hx, rfl⟩ := List.mem_map.mp hg
      exact List.mem_map_of_mem (hl x hx)
    rcases h2 with (h2 | h2) | h2
    · exact hmem _ (fun x hx => List.mem_of_mem_take hx) g h2
    · exact hmem _ (fun x hx => List.mem_of_mem_drop (List.mem_of_mem_take hx)) g h2
    · exact hmem _ (fun x hx => List.mem_of_mem_drop hx) g h2

/-- `drop_many(indexes)` (used by `del self[a:b:k]`, `k ≠ 1`, and by the views), token level, for
well-separated runs. -/
theorem dropMany_region_partial {c : Cfg} {st : St} {L R : List Tk} {ph : Tk} {S : List Seg} (idxs : List Nat)
    (wf : RegionWF c st.store st.items L R ph S)
    (hruns : RunsBelow (S.length + 1) (runsDesc (sortDesc idxs))) :
    dropMany c st idxs =
        .ok ⟨L ++ layout ph (dropRuns S (runsDesc (sortDesc idxs))) ++ R, keepNotIn idxs 0 st.items, st.ctr⟩ ∧
      Distinct (L ++ layout ph (dropRuns S (runsDesc (sortDesc idxs))) ++ R) ∧
      ItemsNonempty (dropRuns S (runsDesc (sortDesc idxs))) := by
  have hd := wf.distinct
  rw [wf.store_eq] at hd
  obtain ⟨h1, h2, h3⟩ := dropLoop_region (c := c) (L := L) (R := R) wf.ph_id S (runsDesc (sortDesc idxs)) S
    (S.length + 1) hd wf.nonempty rfl (Nat.le_refl _) hruns
  refine ⟨?_, h2, h3⟩
  unfold dropMany
  rw [wf.items_eq, wf.store_eq, h1]

end Autobean.Rep

namespace Autobean.Rep
open Autobean.Seq

/-! ### `sorted(indexes, reverse=True)` and `groupby` produce well-separated runs -/

theorem mem_insertDesc {x y : Nat} {l : List Nat} : y ∈ insertDesc x l ↔ y = x ∨ y ∈ l := by
  induction l with
  | nil => simp [insertDesc]
  | cons z zs ih =>
    unfold insertDesc
    split
    · simp
    · simp [ih]; constructor
      · rintro (h | h | h)
        · exact Or.inr (Or.inl h)
        · exact Or.inl h
        · exact Or.inr (Or.inr h)
      · rintro (h | h | h)
        · exact Or.inr (Or.inl h)
        · exact Or.inl h
        · exact Or.inr (Or.inr h)

theorem pairwise_insertDesc {x : Nat} {l : List Nat} (h : l.Pairwise (· > ·)) (hx : x ∉ l) :
    (insertDesc x l).Pairwise (· > ·) := by
  induction l with
  | nil => simp [insertDesc]
  | cons z zs ih =>
    have hz := List.pairwise_cons.mp h
    have hxz : x ≠ z := fun e => hx (by simp [e])
    have hxzs : x ∉ zs := fun e => hx (by simp [e])
    unfold insertDesc
    split
    · rename_i hle
      refine List.pairwise_cons.mpr ⟨?_, h⟩
      intro a ha
      rcases List.mem_cons.mp ha with rfl | ha
      · omega
      · have := hz.1 a ha; omega
    · rename_i hle
      refine List.pairwise_cons.mpr ⟨?_, ih hz.2 hxzs⟩
      intro a ha
      rcases mem_insertDesc.mp ha with rfl | ha
      · omega
      · exact hz.1 a ha

theorem mem_sortDesc {y : Nat} {l : List Nat} : y ∈ sortDesc l ↔ y ∈ l := by
  induction l with
  | nil => simp [sortDesc]
  | cons x xs ih =>
    have : sortDesc (x :: xs) = insertDesc x (sortDesc xs) := rfl
    rw [this, mem_insertDesc, ih]; simp

theorem pairwise_sortDesc {l : List Nat} (h : l.Nodup) : (sortDesc l).Pairwise (· > ·) := by
  induction l with
  | nil => simp [sortDesc]
  | cons x xs ih =>
    have hn := List.nodup_cons.mp h
    have : sortDesc (x :: xs) = insertDesc x (sortDesc xs) := rfl
    rw [this]
    exact pairwise_insertDesc (ih hn.2) (fun e => hn.1 (mem_sortDesc.mp e))

/-- The runs of a strictly descending list start at its head and are well separated. -/
theorem runsDesc_spec : ∀ (l : List Nat), l.Pairwise (· > ·) →
    (l = [] → runsDesc l = []) ∧
    (∀ x xs, l = x :: xs → ∃ lo rest, runsDesc l = (x, lo) :: rest ∧ lo ≤ x ∧ RunsBelow lo rest) := by
  intro l
  induction l with
  | nil => intro _; exact ⟨fun _ => rfl, fun x xs h => by simp at h⟩
  | cons y ys ih =>
    intro hp
    have hy := List.pairwise_cons.mp hp
    obtain ⟨ih1, ih2⟩ := ih hy.2
    refine ⟨fun h => by simp at h, ?_⟩
    intro x xs hxs
    simp only [List.cons.injEq] at hxs
    obtain ⟨rfl, rfl⟩ := hxs
    cases ys with
    | nil =>
      refine ⟨y, [], ?_, Nat.le_refl _, trivial⟩
      simp [runsDesc]
    | cons z zs =>
      obtain ⟨lo, rest, hr, hlo, hrest⟩ := ih2 z zs rfl
      have hzy : z < y := hy.1 z (by simp)
      have e : runsDesc (y :: z :: zs) =
          (match runsDesc (z :: zs) with
           | (hi, lo) :: rest => if hi + 1 = y then (y, lo) :: rest else (y, y) :: (hi, lo) :: rest
           | [] => [(y, y)]) := rfl
      rw [e, hr]
      simp only
      split
      · exact ⟨lo, rest, rfl, by omega, hrest⟩
      · rename_i hne
        exact ⟨y, (z, lo) :: rest, rfl, Nat.le_refl _, ⟨hlo, by omega, hrest⟩⟩

theorem runsBelow_of_indexes {idxs : List Nat} {n : Nat} (hnd : idxs.Nodup) (hlt : ∀ i ∈ idxs, i < n) :
    RunsBelow (n + 1) (runsDesc (sortDesc idxs)) := by
  have hp := pairwise_sortDesc hnd
  obtain ⟨h1, h2⟩ := runsDesc_spec _ hp
  rcases hs : sortDesc idxs with _ | ⟨x, xs⟩
  · have := h1 hs; rw [hs] at this; rw [this]; trivial
  · obtain ⟨lo, rest, hr, hlo, hrest⟩ := h2 x xs hs
    rw [hs] at hr
    rw [hr]
    have hx : x < n := hlt x (mem_sortDesc.mp (by rw [hs]; simp))
    exact ⟨hlo, by omega, hrest⟩

/-- `drop_many` for distinct in-range indexes (in particular `del self[a:b:k]`, `k ≠ 1`): token-level frame. -/
theorem dropMany_region {c : Cfg} {st : St} {L R : List Tk} {ph : Tk} {S : List Seg} (idxs : List Nat)
    (wf : RegionWF c st.store st.items L R ph S) (hnd : idxs.Nodup) (hlt : ∀ i ∈ idxs, i < S.length) :
    dropMany c st idxs =
        .ok ⟨L ++ layout ph (dropRuns S (runsDesc (sortDesc idxs))) ++ R, keepNotIn idxs 0 st.items, st.ctr⟩ ∧
      Distinct (L ++ layout ph (dropRuns S (runsDesc (sortDesc idxs))) ++ R) ∧
      ItemsNonempty (dropRuns S (runsDesc (sortDesc idxs))) :=
  dropMany_region_partial idxs wf (runsBelow_of_indexes hnd hlt)

/-- `del self[a:b:k]` with `k ≠ 1`. -/
theorem delSlice_ext_region {c : Cfg} {st : St} {L R : List Tk} {ph : Tk} {S : List Seg}
    (start stop step : Option Int) {s e k : Int}
    (wf : RegionWF c st.store st.items L R ph S)
    (hs : sliceIndices start stop step st.items.length = .ok (s, e, k)) (hk : k ≠ 1) :
    delSlice c st start stop step =
        .ok ⟨L ++ layout ph (dropRuns S (runsDesc (sortDesc (rangeElems s e k)))) ++ R,
             keepNotIn (rangeElems s e k) 0 st.items, st.ctr⟩ ∧
      Distinct (L ++ layout ph (dropRuns S (runsDesc (sortDesc (rangeElems s e k)))) ++ R) ∧
      ItemsNonempty (dropRuns S (runsDesc (sortDesc (rangeElems s e k)))) := by
  have hn : st.items.length = S.length := by rw [wf.items_eq]; simp
  have h := dropMany_region (rangeElems s e k) wf (rangeElems_nodup hs) (by rw [← hn]; exact rangeElems_lt hs)
  refine ⟨?_, h.2⟩
  unfold delSlice
  rw [hs]
  simp only [hk, ↓reduceIte]
  exact h.1

end Autobean.Rep
