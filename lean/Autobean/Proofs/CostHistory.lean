import Autobean.Proofs.CostGood
/-
Histories of assignments, `from_value`, the documented start forms and their permutations.
-/
namespace Autobean.Cost

theorem step_agree (o : Op) (c : Cost) (h : Canon c) :
    Canon (stepC o c).2 ∧ ((stepC o c).1, view (stepC o c).2) = stepR o (view c) := by
  have hg := apply_good o c h
  unfold stepC stepR
  cases hr : o.apply c with
  | ok c' =>
    rw [hr] at hg
    obtain ⟨hc, hv, hn⟩ := hg
    simp [hc, hv, hn]
  | error e =>
    rw [hr] at hg
    obtain ⟨hrej, -⟩ := hg
    simp [h, hrej]

theorem run_agree (os : List Op) (c : Cost) (h : Canon c) :
    (runC os c).map (fun s => (s.1, view s.2)) = runR os (view c) ∧ ∀ s ∈ runC os c, Canon s.2 := by
  induction os generalizing c with
  | nil => simp [runC, runR]
  | cons o os ih =>
    obtain ⟨hc, hs⟩ := step_agree o c h
    obtain ⟨ih1, ih2⟩ := ih (stepC o c).2 hc
    have hs2 : (stepR o (view c)).2 = view (stepC o c).2 := by rw [← hs]
    refine ⟨?_, ?_⟩
    · simp only [runC, runR, List.map_cons]
      rw [hs2, ← ih1, ← hs]
    · intro s hmem
      simp only [runC, List.mem_cons] at hmem
      rcases hmem with rfl | hmem
      · exact hc
      · exact ih2 s hmem

/-! ### Order of the components does not matter for a canonical cost -/

theorem cnt_perm {l l' : List Comp} (hp : l.Perm l') (k : Kind) : cnt k l = cnt k l' :=
  hp.countP_eq _

theorem ufind_perm {l l' : List Comp} (hp : l.Perm l') (k : Kind) (h1 : cnt k l ≤ 1) : ufind k l = ufind k l' := by
  induction hp with
  | nil => rfl
  | cons x _ ih =>
    by_cases hx : x.kind = k
    · simp [ufind, hx]
    · simp only [ufind, hx, if_false]; apply ih; simpa [cnt_cons, hx] using h1
  | swap x y l =>
    by_cases hx : x.kind = k <;> by_cases hy : y.kind = k <;> simp_all [ufind, cnt_cons]
    all_goals omega
  | trans p1 _ ih1 ih2 =>
    rw [ih1 h1, ih2 (by rw [← cnt_perm p1 k]; exact h1)]

theorem canon_perm {t t' : Bool} {l l' : List Comp} (hp : l.Perm l') (h : Canon ⟨t, l⟩) : Canon ⟨t', l'⟩ := by
  simp only [Canon] at *
  simp only [← cnt_perm hp]
  exact h

theorem view_perm {t : Bool} {l l' : List Comp} (hp : l.Perm l') (h : Canon ⟨t, l⟩) : view ⟨t, l⟩ = view ⟨t, l'⟩ := by
  obtain ⟨hm, hd, hl, ha⟩ := id h
  simp only [] at hm hd hl ha
  have e1 := ufind_perm hp .compound (by omega)
  have e2 := ufind_perm hp .amount (by omega)
  have e3 := ufind_perm hp .number (by omega)
  have e4 := ufind_perm hp .currency (by omega)
  have e5 := ufind_perm hp .date hd
  have e6 := ufind_perm hp .label hl
  have e7 := ufind_perm hp .asterisk ha
  simp only [view, per, tot, cur, date, label, merge, findCompound, findAmount, findNumber, findCurrency, findDate,
    findLabel, hasAsterisk, e1, e2, e3, e4, e5, e6, e7]

/-! ### The documented start forms -/

theorem mkForm_canon (t : Bool) (main : Option Comp) (hmain : ∀ x, main = some x → x.isMain = true)
    (d : Option Dt) (s : Option St) (m : Bool) : Canon ⟨t, mkForm main d s m⟩ := by
  cases main with
  | none => cases d <;> cases s <;> cases m <;> simp [mkForm, Canon, cnt_cons, Comp.kind]
  | some x =>
    have := hmain x rfl
    cases x <;> simp [Comp.isMain] at this <;>
      cases d <;> cases s <;> cases m <;> simp [mkForm, Canon, cnt_cons, Comp.kind]

/-- What a start form reads as: date, label and merge directly; the main component by its kind and the braces. -/
theorem view_mkForm (t : Bool) (main : Option Comp) (hmain : ∀ x, main = some x → x.isMain = true)
    (d : Option Dt) (s : Option St) (m : Bool) :
    view ⟨t, mkForm main d s m⟩ =
      { per := match main with
          | some (.compound p _ _) => p
          | some (.amount n _) => if t then none else some n
          | some (.number n) => if t then none else some n
          | _ => none,
        tot := match main with
          | some (.compound _ q _) => q
          | some (.amount n _) => if t then some n else none
          | some (.number n) => if t then some n else none
          | _ => none,
        cur := match main with
          | some (.compound _ _ c) => some c
          | some (.amount _ c) => some c
          | some (.currency c) => some c
          | _ => none,
        date := d, label := s, merge := m } := by
  cases main with
  | none =>
    cases d <;> cases s <;> cases m <;> cases t <;>
      simp [mkForm, view, per, tot, cur, date, label, merge, findCompound, findAmount, findNumber,
        findCurrency, findDate, findLabel, hasAsterisk, ufind, Comp.kind]
  | some x =>
    have := hmain x rfl
    cases x <;> simp [Comp.isMain] at this <;>
      cases d <;> cases s <;> cases m <;> cases t <;>
      simp [mkForm, view, per, tot, cur, date, label, merge, findCompound, findAmount, findNumber,
        findCurrency, findDate, findLabel, hasAsterisk, ufind, Comp.kind]

/-! ### `from_value` -/

/-- The main component `from_value` builds. -/
def fvMain (r : Rec) : Bool × Option Comp :=
  match r.per, r.tot, r.cur with
  | some p, some t, some cu => (false, some (.compound (some p) (some t) cu))
  | some _, some _, none => (false, none)
  | some p, none, none => (false, some (.number p))
  | some p, none, some cu => (false, some (.amount p cu))
  | none, some t, none => (true, some (.number t))
  | none, some t, some cu => (true, some (.amount t cu))
  | none, none, some cu => (false, some (.currency cu))
  | none, none, none => (false, none)

theorem fromValue_eq (r : Rec) (h : r.bad = false) :
    fromValue r = .ok ⟨(fvMain r).1, mkForm (fvMain r).2 r.date r.label r.merge⟩ := by
  obtain ⟨p, t, cu, d, s, m⟩ := r
  cases p <;> cases t <;> cases cu <;> simp [Rec.bad] at h <;>
    cases d <;> cases s <;> cases m <;> simp [fromValue, fvMain, mkForm]

theorem fvMain_isMain (r : Rec) : ∀ x, (fvMain r).2 = some x → x.isMain = true := by
  obtain ⟨p, t, cu, d, s, m⟩ := r
  cases p <;> cases t <;> cases cu <;> simp [fvMain, Comp.isMain]

theorem fromValue_ok (r : Rec) (h : r.bad = false) :
    ∃ c, fromValue r = .ok c ∧ view c = r ∧ Canon c := by
  refine ⟨_, fromValue_eq r h, ?_, mkForm_canon _ _ (fvMain_isMain r) _ _ _⟩
  rw [view_mkForm _ _ (fvMain_isMain r)]
  obtain ⟨p, t, cu, d, s, m⟩ := r
  cases p <;> cases t <;> cases cu <;> simp [Rec.bad] at h <;> simp [fvMain]

theorem fromValue_err (r : Rec) (h : r.bad = true) : fromValue r = .error errCost := by
  obtain ⟨p, t, cu, d, s, m⟩ := r
  cases p <;> cases t <;> cases cu <;> simp [Rec.bad] at h
  simp [fromValue]

end Autobean.Cost
