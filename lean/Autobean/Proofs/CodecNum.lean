import Autobean.Proofs.CodecDate
/-! Lemmas for C12: Number (`format(v, 'f')`, `Decimal(text.replace(',', ''))`, NUMBER). -/
set_option linter.unusedSimpArgs false
namespace Autobean.Codec

theorem toNatAux_cons (acc : Nat) (c : Char) (s : Text) :
    toNatAux acc (c :: s) = toNatAux (acc * 10 + digitVal c) s := rfl

theorem toNatAux_eq (a : Nat) (s : Text) : toNatAux a s = a * 10 ^ s.length + toNatAux 0 s := by
  induction s generalizing a with
  | nil => simp [toNatAux]
  | cons c s ih =>
    rw [toNatAux_cons, ih, toNatAux_cons 0, ih (0 * 10 + digitVal c)]
    simp only [List.length_cons, Nat.pow_succ, Nat.zero_mul, Nat.zero_add, Nat.add_mul]
    rw [Nat.mul_assoc, Nat.mul_comm 10 (10 ^ s.length), Nat.add_assoc]

theorem toNat_append (x y : Text) : toNat (x ++ y) = toNat x * 10 ^ y.length + toNat y := by
  unfold toNat
  induction x generalizing y with
  | nil => simp [toNatAux]
  | cons c x ih =>
    simp only [List.cons_append, toNatAux_cons]
    rw [toNatAux_eq, toNatAux_eq (0 * 10 + digitVal c) x, ih y]
    simp only [List.length_append, Nat.pow_add, Nat.add_mul, Nat.mul_assoc, Nat.add_assoc]

theorem toNat_zeros (k : Nat) : toNat (List.replicate k '0') = 0 := by
  induction k with
  | zero => rfl
  | succ k ih =>
    have : List.replicate (k + 1) '0' = ['0'] ++ List.replicate k '0' := by simp [List.replicate_succ]
    rw [this, toNat_append, ih]
    simp [toNat, toNatAux, digitVal]

theorem natDigitsAux_toNat (fuel n : Nat) (acc : Text) (h : n < fuel) :
    toNat (natDigitsAux fuel n acc) = n * 10 ^ acc.length + toNat acc := by
  induction fuel generalizing n acc with
  | zero => omega
  | succ f ih =>
    unfold natDigitsAux
    split
    · rename_i hn
      have : digitChar n :: acc = [digitChar n] ++ acc := rfl
      rw [this, toNat_append]
      simp [toNat, toNatAux, digitVal_digitChar n hn]
    · rename_i hn
      rw [ih (n / 10) _ (by omega)]
      have e : digitChar (n % 10) :: acc = [digitChar (n % 10)] ++ acc := rfl
      rw [e, toNat_append]
      have hd : toNat [digitChar (n % 10)] = n % 10 := by
        simp [toNat, toNatAux, digitVal_digitChar _ (Nat.mod_lt n (by decide))]
      rw [hd]
      simp only [List.length_append, List.length_cons, List.length_nil, Nat.zero_add]
      have hn' : n * 10 ^ acc.length = (10 * (n / 10) + n % 10) * 10 ^ acc.length := by rw [Nat.div_add_mod]
      rw [hn', Nat.add_mul, Nat.pow_add, ← Nat.add_assoc]
      congr 1
      congr 1
      rw [Nat.mul_comm 10 (n / 10), Nat.mul_assoc, Nat.mul_comm (10 ^ 1)]

theorem toNat_natDigits (n : Nat) : toNat (natDigits n) = n := by
  unfold natDigits
  rw [natDigitsAux_toNat _ _ _ (by omega)]
  simp [toNat, toNatAux]

theorem natDigitsAux_digits (fuel n : Nat) (acc : Text) (h : ∀ c ∈ acc, isDigit c = true) :
    ∀ c ∈ natDigitsAux fuel n acc, isDigit c = true := by
  induction fuel generalizing n acc with
  | zero => exact h
  | succ f ih =>
    unfold natDigitsAux
    split
    · intro c hc
      simp only [List.mem_cons] at hc
      rcases hc with rfl | hc
      · exact isDigit_digitChar _
      · exact h c hc
    · apply ih
      intro c hc
      simp only [List.mem_cons] at hc
      rcases hc with rfl | hc
      · exact isDigit_digitChar _
      · exact h c hc

theorem natDigits_digits (n : Nat) : ∀ c ∈ natDigits n, isDigit c = true :=
  natDigitsAux_digits _ _ _ (by simp)

theorem natDigitsAux_length (fuel n : Nat) (acc : Text) : acc.length ≤ (natDigitsAux fuel n acc).length := by
  induction fuel generalizing n acc with
  | zero => simp [natDigitsAux]
  | succ f ih =>
    unfold natDigitsAux
    split
    · simp
    · have := ih (n / 10) (digitChar (n % 10) :: acc)
      simp only [List.length_cons] at this
      omega

theorem natDigits_ne_nil (n : Nat) : natDigits n ≠ [] := by
  unfold natDigits natDigitsAux
  split
  · simp
  · have := natDigitsAux_length n (n / 10) [digitChar (n % 10)]
    intro e
    rw [e] at this
    simp at this

/-! ### `_parse_value ∘ _format_value` -/

theorem digit_ne_comma (c : Char) (h : isDigit c = true) : c ≠ ',' := by
  rintro rfl; exact absurd h (by decide)

theorem digit_ne_dot (c : Char) (h : isDigit c = true) : c ≠ '.' := by
  rintro rfl; exact absurd h (by decide)

theorem filter_no_comma (s : Text) (h : ∀ c ∈ s, c ≠ ',') : s.filter (fun x => x != ',') = s := by
  rw [List.filter_eq_self]
  intro c hc
  simp [h c hc]

theorem parseNum_int (T : Text) (hne : T ≠ []) (hd : ∀ c ∈ T, isDigit c = true) : parseNum T = .ok ⟨toNat T, 0⟩ := by
  have hf := filter_no_comma T (fun c hc => digit_ne_comma c (hd c hc))
  have h1 := takeWhile_append_stop isDigit T [] hd (Or.inl rfl)
  have h2 := dropWhile_append_stop isDigit T [] hd (Or.inl rfl)
  rw [List.append_nil] at h1 h2
  unfold parseNum
  simp only [hf, h1, h2, hne, if_false]

theorem parseNum_frac (ip fr : Text) (hne : ip ≠ []) (hi : ∀ c ∈ ip, isDigit c = true) (hfr : ∀ c ∈ fr, isDigit c = true) :
    parseNum (ip ++ '.' :: fr) = .ok ⟨toNat (ip ++ fr), - (fr.length : Int)⟩ := by
  have hf := filter_no_comma (ip ++ '.' :: fr) (by
    intro c hc
    simp only [List.mem_append, List.mem_cons] at hc
    rcases hc with hc | rfl | hc
    · exact digit_ne_comma c (hi c hc)
    · decide
    · exact digit_ne_comma c (hfr c hc))
  have hstop : Stops isDigit ('.' :: fr) := Or.inr ⟨'.', fr, rfl, by decide⟩
  have h1 := takeWhile_append_stop isDigit ip _ hi hstop
  have h2 := dropWhile_append_stop isDigit ip _ hi hstop
  have hall : fr.all isDigit = true := by simpa using hfr
  unfold parseNum
  simp only [hf, h1, h2, hall, hne, true_and, ne_eq, not_false_eq_true, true_or, if_true]

/-- what `Decimal(format(v, 'f'))` is: the same number, with a positive exponent multiplied out -/
def plain (v : Dec) : Dec :=
  match v.exp with
  | .ofNat e => ⟨v.coeff * 10 ^ e, 0⟩
  | .negSucc _ => v

theorem all_replicate_zero (k : Nat) : ∀ c ∈ List.replicate k '0', isDigit c = true := by
  intro c hc
  rw [List.mem_replicate] at hc
  rw [hc.2]; decide

/-- `Number._parse_value(Number._format_value(v))` is `v` with a positive exponent multiplied out. -/
theorem parseNum_fmtNum (v : Dec) : parseNum (fmtNum v) = .ok (plain v) := by
  obtain ⟨c, e⟩ := v
  cases e with
  | ofNat e =>
    simp only [fmtNum, plain]
    split
    · rename_i hc
      subst hc
      rw [parseNum_int ['0'] (by simp) (by simp; decide)]
      simp [toNat, toNatAux, digitVal]
    · have hd : ∀ x ∈ natDigits c ++ List.replicate e '0', isDigit x = true := by
        intro x hx
        rw [List.mem_append] at hx
        rcases hx with hx | hx
        · exact natDigits_digits c x hx
        · exact all_replicate_zero e x hx
      rw [parseNum_int _ (by simp [natDigits_ne_nil]) hd, toNat_append, toNat_natDigits, toNat_zeros]
      simp
  | negSucc k =>
    simp only [fmtNum, plain]
    generalize hp : List.replicate (k + 1 + 1 - (natDigits c).length) '0' ++ natDigits c = padded
    have hpd : ∀ x ∈ padded, isDigit x = true := by
      intro x hx
      rw [← hp, List.mem_append] at hx
      rcases hx with hx | hx
      · exact all_replicate_zero _ x hx
      · exact natDigits_digits c x hx
    have hlen : k + 2 ≤ padded.length := by
      rw [← hp]; simp only [List.length_append, List.length_replicate]; omega
    have hval : toNat padded = c := by
      rw [← hp, toNat_append, toNat_zeros, toNat_natDigits]; simp
    have hip : padded.take (padded.length - (k + 1)) ≠ [] := by
      intro e
      have := congrArg List.length e
      simp only [List.length_take, List.length_nil] at this
      omega
    rw [parseNum_frac _ _ hip (fun x hx => hpd x (List.mem_of_mem_take hx)) (fun x hx => hpd x (List.mem_of_mem_drop hx)),
      List.take_append_drop, hval]
    have : ((padded.drop (padded.length - (k + 1))).length : Int) = (k : Int) + 1 := by
      simp only [List.length_drop]; omega
    rw [this]
    rfl

theorem eqv_plain (v : Dec) : Dec.eqv (plain v) v := by
  obtain ⟨c, e⟩ := v
  cases e with
  | ofNat e =>
    have h1 : ((0 : Int) - Int.ofNat e).toNat = 0 := by simp
    have h2 : (Int.ofNat e - (0 : Int)).toNat = e := by simp
    simp only [Dec.eqv, plain, h1, h2]
    simp
  | negSucc k => simp [Dec.eqv, plain]

theorem plain_of_nonpos (v : Dec) (h : v.exp ≤ 0) : plain v = v := by
  obtain ⟨c, e⟩ := v
  cases e with
  | ofNat e =>
    have : e = 0 := by simp at h; omega
    subst this
    simp [plain]
  | negSucc k => rfl

/-! ### NUMBER lexes the formatted number back -/

/-- characters that could extend a NUMBER lexeme: a digit, `.` or `,` -/
def numCont (c : Char) : Bool := isDigit c || c == '.' || c == ','

theorem fmtNum_shape (v : Dec) :
    (∃ T, fmtNum v = T ∧ T ≠ [] ∧ ∀ c ∈ T, isDigit c = true) ∨
    (∃ ip fr, fmtNum v = ip ++ '.' :: fr ∧ ip ≠ [] ∧ (∀ c ∈ ip, isDigit c = true) ∧ (∀ c ∈ fr, isDigit c = true)) := by
  obtain ⟨c, e⟩ := v
  cases e with
  | ofNat e =>
    left
    simp only [fmtNum]
    split
    · exact ⟨_, rfl, by simp, by simp; decide⟩
    · refine ⟨_, rfl, by simp [natDigits_ne_nil], ?_⟩
      intro x hx
      rw [List.mem_append] at hx
      rcases hx with hx | hx
      · exact natDigits_digits c x hx
      · exact all_replicate_zero e x hx
  | negSucc k =>
    right
    simp only [fmtNum]
    generalize hp : List.replicate (k + 1 + 1 - (natDigits c).length) '0' ++ natDigits c = padded
    have hpd : ∀ x ∈ padded, isDigit x = true := by
      intro x hx
      rw [← hp, List.mem_append] at hx
      rcases hx with hx | hx
      · exact all_replicate_zero _ x hx
      · exact natDigits_digits c x hx
    have hlen : k + 2 ≤ padded.length := by
      rw [← hp]; simp only [List.length_append, List.length_replicate]; omega
    refine ⟨_, _, rfl, ?_, fun x hx => hpd x (List.mem_of_mem_take hx), fun x hx => hpd x (List.mem_of_mem_drop hx)⟩
    intro e
    have := congrArg List.length e
    simp only [List.length_take, List.length_nil] at this
    omega

theorem lexGroups_nomatch (fuel : Nat) (s : Text) (h : s = [] ∨ ∃ c r, s = c :: r ∧ c ≠ ',') :
    lexGroups fuel s = ([], s) := by
  cases fuel with
  | zero => rfl
  | succ f =>
    unfold lexGroups
    split
    · rename_i c d1 d2 d3 r
      rcases h with h | ⟨c', r', h, hc⟩
      · simp at h
      · simp only [List.cons.injEq] at h
        obtain ⟨rfl, _⟩ := h
        simp [hc]
    · rfl

theorem lexFrac_nomatch (s : Text) (h : s = [] ∨ ∃ c r, s = c :: r ∧ c ≠ '.') : lexFrac s = ([], s) := by
  rcases h with rfl | ⟨c, r, rfl, hc⟩
  · rfl
  · simp [lexFrac, hc]

theorem stops_of_numCont (rest : Text) (h : Stops numCont rest) :
    Stops isDigit rest ∧ (rest = [] ∨ ∃ c r, rest = c :: r ∧ c ≠ ',') ∧ (rest = [] ∨ ∃ c r, rest = c :: r ∧ c ≠ '.') := by
  rcases h with rfl | ⟨c, r, rfl, hc⟩
  · exact ⟨Or.inl rfl, Or.inl rfl, Or.inl rfl⟩
  · simp only [numCont, Bool.or_eq_false_iff, beq_eq_false_iff_ne] at hc
    exact ⟨Or.inr ⟨c, r, rfl, hc.1.1⟩, Or.inr ⟨c, r, rfl, hc.2⟩, Or.inr ⟨c, r, rfl, hc.1.2⟩⟩

theorem lexNumber_int (T rest : Text) (hne : T ≠ []) (hd : ∀ c ∈ T, isDigit c = true) (hr : Stops numCont rest) :
    lexNumber (T ++ rest) = some (T, rest) := by
  obtain ⟨h1, h2, h3⟩ := stops_of_numCont rest hr
  unfold lexNumber
  simp only [takeWhile_append_stop isDigit T rest hd h1, dropWhile_append_stop isDigit T rest hd h1, hne, if_false]
  split <;> simp [lexGroups_nomatch _ rest h2, lexFrac_nomatch rest h3]

theorem lexNumber_frac (ip fr rest : Text) (hne : ip ≠ []) (hi : ∀ c ∈ ip, isDigit c = true)
    (hf : ∀ c ∈ fr, isDigit c = true) (hr : Stops isDigit rest) :
    lexNumber (ip ++ '.' :: fr ++ rest) = some (ip ++ '.' :: fr, rest) := by
  have hstop : Stops isDigit ('.' :: (fr ++ rest)) := Or.inr ⟨'.', _, rfl, by decide⟩
  have hg : ∀ fuel, lexGroups fuel ('.' :: (fr ++ rest)) = ([], '.' :: (fr ++ rest)) :=
    fun fuel => lexGroups_nomatch fuel _ (Or.inr ⟨'.', _, rfl, by decide⟩)
  have e : ip ++ '.' :: fr ++ rest = ip ++ '.' :: (fr ++ rest) := by simp
  unfold lexNumber
  rw [e]
  simp only [takeWhile_append_stop isDigit ip _ hi hstop, dropWhile_append_stop isDigit ip _ hi hstop, hne, if_false]
  split <;> simp [hg, lexFrac, takeWhile_append_stop isDigit fr rest hf hr, dropWhile_append_stop isDigit fr rest hf hr]

/-- NUMBER lexes `format(v, 'f')` back as one lexeme when what follows is empty or starts with a character other than
a digit, `.` or `,`. -/
theorem lexNumber_fmtNum (v : Dec) (rest : Text) (hr : Stops numCont rest) :
    lexNumber (fmtNum v ++ rest) = some (fmtNum v, rest) := by
  rcases fmtNum_shape v with ⟨T, e, hne, hd⟩ | ⟨ip, fr, e, hne, hi, hf⟩
  · rw [e]; exact lexNumber_int T rest hne hd hr
  · rw [e]; exact lexNumber_frac ip fr rest hne hi hf (stops_of_numCont rest hr).1

/-! ### every NUMBER lexeme is accepted by `Number._parse_value` -/

theorem lexGroups_shape (fuel : Nat) (s : Text) : ∀ c ∈ (lexGroups fuel s).1, isDigit c = true ∨ c = ',' := by
  induction fuel generalizing s with
  | zero => simp [lexGroups]
  | succ f ih =>
    unfold lexGroups
    split
    · rename_i c d1 d2 d3 r
      split
      · rename_i h
        obtain ⟨rfl, h1, h2, h3⟩ := h
        intro x hx
        simp only [List.mem_cons] at hx
        rcases hx with rfl | rfl | rfl | rfl | hx
        · exact Or.inr rfl
        · exact Or.inl h1
        · exact Or.inl h2
        · exact Or.inl h3
        · exact ih r x hx
      · simp
    · simp

theorem lexFrac_shape (s : Text) :
    (lexFrac s).1 = [] ∨ ∃ fr, (lexFrac s).1 = '.' :: fr ∧ ∀ c ∈ fr, isDigit c = true := by
  unfold lexFrac
  split
  · exact Or.inl rfl
  · rename_i c r
    split
    · rename_i hc
      subst hc
      exact Or.inr ⟨_, rfl, all_takeWhile isDigit r⟩
    · exact Or.inl rfl

theorem filter_groups_digits (g : Text) (h : ∀ c ∈ g, isDigit c = true ∨ c = ',') :
    ∀ c ∈ g.filter (fun x => x != ','), isDigit c = true := by
  intro c hc
  rw [List.mem_filter] at hc
  rcases h c hc.1 with h | h
  · exact h
  · simp [h] at hc

theorem parseNum_shape (ds g f : Text) (hne : ds ≠ []) (hd : ∀ c ∈ ds, isDigit c = true)
    (hg : ∀ c ∈ g, isDigit c = true ∨ c = ',')
    (hf : f = [] ∨ ∃ fr, f = '.' :: fr ∧ ∀ c ∈ fr, isDigit c = true) :
    ∃ v, parseNum (ds ++ g ++ f) = .ok v := by
  have hG : ∀ c ∈ ds ++ g.filter (fun x => x != ','), isDigit c = true := by
    intro c hc
    rw [List.mem_append] at hc
    rcases hc with hc | hc
    · exact hd c hc
    · exact filter_groups_digits g hg c hc
  have hGne : ds ++ g.filter (fun x => x != ',') ≠ [] := by simp [hne]
  rcases hf with rfl | ⟨fr, rfl, hfr⟩
  · have hfil : (ds ++ g ++ []).filter (fun x => x != ',') = ds ++ g.filter (fun x => x != ',') := by
      simp [List.filter_append, filter_no_comma ds (fun c hc => digit_ne_comma c (hd c hc))]
    have h1 := takeWhile_append_stop isDigit _ [] hG (Or.inl rfl)
    have h2 := dropWhile_append_stop isDigit _ [] hG (Or.inl rfl)
    rw [List.append_nil] at h1 h2
    unfold parseNum
    simp only [hfil, h1, h2, hGne, if_false]
    exact ⟨_, rfl⟩
  · have hfil : (ds ++ g ++ '.' :: fr).filter (fun x => x != ',') = (ds ++ g.filter (fun x => x != ',')) ++ '.' :: fr := by
      have hdot : (('.' : Char) != ',') = true := by decide
      simp [List.filter_append, List.filter_cons, hdot, filter_no_comma ds (fun c hc => digit_ne_comma c (hd c hc)),
        filter_no_comma fr (fun c hc => digit_ne_comma c (hfr c hc))]
    have hstop : Stops isDigit ('.' :: fr) := Or.inr ⟨'.', fr, rfl, by decide⟩
    have h1 := takeWhile_append_stop isDigit _ _ hG hstop
    have h2 := dropWhile_append_stop isDigit _ _ hG hstop
    have hall : fr.all isDigit = true := by simpa using hfr
    unfold parseNum
    simp only [hfil, h1, h2, hall, hGne, true_and, ne_eq, not_false_eq_true, true_or, if_true]
    exact ⟨_, rfl⟩

/-- Every lexeme of NUMBER is accepted by `Number._parse_value` (so `from_raw_text` keeps it verbatim). -/
theorem parseNum_of_lexNumber (s x r : Text) (h : lexNumber s = some (x, r)) : ∃ v, parseNum x = .ok v := by
  unfold lexNumber at h
  simp only at h
  split at h
  · simp at h
  · rename_i hne
    simp only [Option.some.injEq, Prod.mk.injEq] at h
    obtain ⟨rfl, _⟩ := h
    apply parseNum_shape _ _ _ hne (all_takeWhile isDigit s)
    · split
      · exact lexGroups_shape _ _
      · simp
    · exact lexFrac_shape _

end Autobean.Codec
