/-
Operation histories: the blocked store and a plain list, started from the same tokens and subjected
to the same operations, agree after every step (`refines_history`).
-/
import Autobean.Proofs.StoreMutators
import Autobean.Proofs.StoreText

set_option linter.unusedSimpArgs false
set_option linter.unusedVariables false

namespace Autobean

/-- An element of the plain-list model: token identity and text. -/
abbrev Core := Nat × List Char

/-- Identities of a plain list. -/
def absIds (l : List Core) : List Nat := l.map (·.1)

theorem absIds_cores (s : Store) : absIds s.cores = s.ids := by
  simp [absIds, Store.cores, Store.ids, Tok.core, List.map_map, Function.comp_def]

/-- The mutating operations of the public interface (tokens addressed by identity). -/
inductive Op where
  | splice (ts : List Tok) (ref delEnd : Option Nat)
  | insertAfter (ref : Option Nat) (ts : List Tok)
  | insertBefore (ref : Option Nat) (ts : List Tok)
  | replace (tok : Nat) (repl : Tok)
  | remove (start : Nat) (stop : Option Nat)
  | updateText (id : Nat) (txt : List Char)

/-- The operation on a plain list (Python list slice assignment / item update). -/
def Op.abs : Op → List Core → List Core
  | .splice ts ref delEnd, l =>
    l.take (refIdx (absIds l) ref) ++ ts.map Tok.core ++ l.drop (endIdx (absIds l) (refIdx (absIds l) ref) delEnd)
  | .insertAfter ref ts, l =>
    l.take (afterIdx (absIds l) ref) ++ ts.map Tok.core ++ l.drop (afterIdx (absIds l) ref)
  | .insertBefore ref ts, l =>
    l.take (refIdx (absIds l) ref) ++ ts.map Tok.core ++ l.drop (refIdx (absIds l) ref)
  | .replace tok repl, l =>
    l.take ((absIds l).idxOf tok) ++ [repl.core] ++ l.drop ((absIds l).idxOf tok + 1)
  | .remove start stop, l =>
    l.take ((absIds l).idxOf start) ++ l.drop ((absIds l).idxOf (stop.getD start) + 1)
  | .updateText id txt, l => l.set ((absIds l).idxOf id) (id, txt)

/-- The operation on the blocked store. -/
def Op.run (c : LF) : Op → Store → R Store
  | .splice ts ref delEnd, s => (s.splice c ts ref delEnd).map (·.store)
  | .insertAfter ref ts, s => (s.insertAfter c ref ts).map (·.store)
  | .insertBefore ref ts, s => (s.insertBefore c ref ts).map (·.store)
  | .replace tok repl, s => (s.replace c tok repl).map (·.store)
  | .remove start stop, s => (s.remove c start stop).map (·.store)
  | .updateText id txt, s => s.updateText id txt

/-- Inserted tokens are detached, correctly sized, pairwise distinct and not in the list. -/
def FreshFor (l : List Core) (ts : List Tok) : Prop := FreshToks ts ∧ ∀ t ∈ ts, t.id ∉ absIds l

/-- Well-formedness of an operation with respect to the plain list: references present, the end
not before the reference, inserted tokens fresh. -/
def Op.WF : Op → List Core → Prop
  | .splice ts ref delEnd, l =>
    FreshFor l ts ∧ (∀ r, ref = some r → r ∈ absIds l) ∧ (∀ e, delEnd = some e → e ∈ absIds l) ∧
      (∀ r e, ref = some r → delEnd = some e → (absIds l).idxOf r ≤ (absIds l).idxOf e)
  | .insertAfter ref ts, l => FreshFor l ts ∧ (∀ r, ref = some r → r ∈ absIds l)
  | .insertBefore ref ts, l => FreshFor l ts ∧ (∀ r, ref = some r → r ∈ absIds l)
  | .replace tok repl, l => FreshFor l [repl] ∧ tok ∈ absIds l
  | .remove start stop, l =>
    start ∈ absIds l ∧ stop.getD start ∈ absIds l ∧
      (absIds l).idxOf start ≤ (absIds l).idxOf (stop.getD start)
  | .updateText id _, l => id ∈ absIds l

/-- Run a history on the plain list. -/
def absRun : List Op → List Core → List Core
  | [], l => l
  | op :: ops, l => absRun ops (op.abs l)

/-- Run a history on the blocked store. -/
def conRun (c : LF) : List Op → Store → R Store
  | [], s => pure s
  | op :: ops, s => op.run c s >>= conRun c ops

/-- Every operation of the history is well-formed at the moment it is applied. -/
def WFHist : List Op → List Core → Prop
  | [], _ => True
  | op :: ops, l => op.WF l ∧ WFHist ops (op.abs l)

theorem fresh_of_freshFor {s : Store} {ts : List Tok} (h : FreshFor s.cores ts) : Fresh s ts :=
  { toFreshToks := h.1, disjoint := by intro t ht; rw [← absIds_cores]; exact h.2 t ht }

/-- One step: the concrete operation succeeds, keeps the invariants and commutes with the abstraction. -/
theorem step_refines {c : LF} (hc : c.WF) {s : Store} (hinv : Inv s) (op : Op) (hwf : op.WF s.cores) :
    ∃ s', op.run c s = .ok s' ∧ Inv s' ∧ s'.sid = s.sid ∧ s'.cores = op.abs s.cores := by
  cases op with
  | splice ts ref delEnd =>
    simp only [Op.WF, absIds_cores] at hwf
    obtain ⟨out, h1, h2⟩ := splice_spec hc hinv (fresh_of_freshFor hwf.1) hwf.2.1 hwf.2.2.1 hwf.2.2.2
    exact ⟨out.store, by simp [Op.run, h1, Except.map], h2.inv, h2.sid, by simp [Op.abs, absIds_cores, h2.cores]⟩
  | insertAfter ref ts =>
    simp only [Op.WF, absIds_cores] at hwf
    obtain ⟨out, h1, h2⟩ := insertAfter_spec hc hinv (fresh_of_freshFor hwf.1) hwf.2
    exact ⟨out.store, by simp [Op.run, h1, Except.map], h2.inv, h2.sid, by simp [Op.abs, absIds_cores, h2.cores]⟩
  | insertBefore ref ts =>
    simp only [Op.WF, absIds_cores] at hwf
    obtain ⟨out, h1, h2⟩ := insertBefore_spec hc hinv (fresh_of_freshFor hwf.1) hwf.2
    exact ⟨out.store, by simp [Op.run, h1, Except.map], h2.inv, h2.sid, by simp [Op.abs, absIds_cores, h2.cores]⟩
  | replace tok repl =>
    simp only [Op.WF, absIds_cores] at hwf
    obtain ⟨out, h1, h2⟩ := replace_spec hc hinv (fresh_of_freshFor hwf.1) hwf.2
    exact ⟨out.store, by simp [Op.run, h1, Except.map], h2.inv, h2.sid, by simp [Op.abs, absIds_cores, h2.cores]⟩
  | remove start stop =>
    simp only [Op.WF, absIds_cores] at hwf
    obtain ⟨out, h1, h2⟩ := remove_spec hc hinv hwf.1 hwf.2.1 hwf.2.2
    exact ⟨out.store, by simp [Op.run, h1, Except.map], h2.inv, h2.sid, by simp [Op.abs, absIds_cores, h2.cores]⟩
  | updateText id txt =>
    simp only [Op.WF, absIds_cores] at hwf
    obtain ⟨s', h1, h2, h3, h4, h5, h6⟩ := updateText_inv hinv hwf txt
    exact ⟨s', h1, h2, h3, by simp [Op.abs, absIds_cores, h5]⟩

/-- Histories: by induction over the list of operations. -/
theorem run_refines {c : LF} (hc : c.WF) (ops : List Op) {s : Store} (hinv : Inv s) (hwf : WFHist ops s.cores) :
    ∃ s', conRun c ops s = .ok s' ∧ Inv s' ∧ s'.sid = s.sid ∧ s'.cores = absRun ops s.cores := by
  induction ops generalizing s with
  | nil => exact ⟨s, rfl, hinv, rfl, rfl⟩
  | cons op ops ih =>
    obtain ⟨s1, h1, h2, h3, h4⟩ := step_refines hc hinv op hwf.1
    obtain ⟨s2, g1, g2, g3, g4⟩ := ih h2 (by rw [h4]; exact hwf.2)
    refine ⟨s2, ?_, g2, by rw [g3, h3], by rw [g4, h4]; rfl⟩
    simp only [conRun, h1, bind, Except.bind]
    exact g1

theorem wfHist_take (ops : List Op) (l : List Core) (n : Nat) (h : WFHist ops l) : WFHist (ops.take n) l := by
  induction ops generalizing l n with
  | nil => simpa using h
  | cons op ops ih =>
    cases n with
    | zero => trivial
    | succ n => exact ⟨h.1, ih _ n h.2⟩

end Autobean
