/-
`At s id L b R A t B`: the token with identity `id` is `t`, sitting in block `b` (at block position
`L.length`) at index `A.length`.  Under the invariant every handle-based lookup of the model lands
exactly there.
-/
import Autobean.Proofs.StoreLocate

set_option linter.unusedSimpArgs false
set_option linter.unusedVariables false

namespace Autobean

structure At (s : Store) (id : Nat) (L : List Block) (b : Block) (R : List Block)
    (A : List Tok) (t : Tok) (B : List Tok) : Prop where
  blocks : s.blocks = L ++ b :: R
  toks : b.toks = A ++ t :: B
  id : t.id = id

theorem exists_at {s : Store} {id : Nat} (h : id ∈ s.ids) : ∃ L b R A t B, At s id L b R A t B := by
  simp only [Store.ids, Store.toList, List.mem_map, List.mem_flatMap] at h
  obtain ⟨t, ⟨b, hb, ht⟩, hid⟩ := h
  obtain ⟨L, R, hs⟩ := List.append_of_mem hb
  obtain ⟨A, B, hts⟩ := List.append_of_mem ht
  exact ⟨L, b, R, A, t, B, hs, hts, hid⟩

namespace At

variable {s : Store} {id : Nat} {L R : List Block} {b : Block} {A B : List Tok} {t : Tok}

theorem toList (h : At s id L b R A t B) :
    s.toList = (L.flatMap (·.toks) ++ A) ++ t :: (B ++ R.flatMap (·.toks)) := by
  simp [Store.toList, h.blocks, h.toks]

theorem ids (h : At s id L b R A t B) :
    s.ids = (L.flatMap (·.toks) ++ A).map (·.id) ++ id :: (B ++ R.flatMap (·.toks)).map (·.id) := by
  simp only [Store.ids, h.toList, List.map_append, List.map_cons, h.id]

theorem notin_before (h : At s id L b R A t B) (hinv : Inv s) : id ∉ (L.flatMap (·.toks) ++ A).map (·.id) := by
  have := hinv.idsNodup
  rw [h.ids, List.nodup_append] at this
  intro hm
  exact this.2.2 id hm id (by simp) rfl

theorem notin_after (h : At s id L b R A t B) (hinv : Inv s) : id ∉ (B ++ R.flatMap (·.toks)).map (·.id) := by
  have := hinv.idsNodup
  rw [h.ids, List.nodup_append, List.nodup_cons] at this
  exact this.2.1.1

theorem idxOf (h : At s id L b R A t B) (hinv : Inv s) :
    s.ids.idxOf id = (L.flatMap (·.toks)).length + A.length := by
  rw [idxOf_of_split h.ids (h.notin_before hinv)]; simp

theorem idxOf_lt (h : At s id L b R A t B) (hinv : Inv s) : s.ids.idxOf id < s.ids.length := by
  rw [h.idxOf hinv, h.ids]; simp

theorem mem (h : At s id L b R A t B) : id ∈ s.ids := by rw [h.ids]; simp

theorem handle (h : At s id L b R A t B) (hinv : Inv s) : t.h = some ⟨s.sid, b.ref, A.length⟩ := by
  have hb := hinv.binv.bok b (by rw [h.blocks]; simp)
  have := (setHandlesFrom_eq_self_iff _ _ _ _).1 hb.hs A.length (by rw [h.toks]; simp)
  simpa [h.toks] using this

theorem findTokIn_eq (h : At s id L b R A t B) (hinv : Inv s) (k : Nat) :
    findTokIn id k b.toks = some (k + A.length, t) := by
  have hA : ∀ x ∈ A, x.id ≠ id := by
    intro x hx e
    exact h.notin_before hinv (by rw [← e]; exact List.mem_map_of_mem (by simp [hx]))
  rw [h.toks]
  have hid := h.id
  clear h
  induction A generalizing k with
  | nil => simp [findTokIn, hid]
  | cons x A ih =>
    simp only [List.mem_cons, forall_eq_or_imp] at hA
    simp only [List.cons_append, findTokIn, hA.1, if_false, List.length_cons]
    rw [ih _ hA.2]; congr 2; omega

end At

theorem findTokIn_none {id : Nat} {ts : List Tok} (h : ∀ x ∈ ts, x.id ≠ id) (k : Nat) : findTokIn id k ts = none := by
  induction ts generalizing k with
  | nil => rfl
  | cons x ts ih =>
    simp only [List.mem_cons, forall_eq_or_imp] at h
    simp [findTokIn, h.1, ih h.2]

theorem findTok_none {id : Nat} {bs : List Block} (h : ∀ x ∈ bs.flatMap (·.toks), x.id ≠ id) (p : Nat) :
    findTok id p bs = none := by
  induction bs generalizing p with
  | nil => rfl
  | cons b bs ih =>
    simp only [List.flatMap_cons, List.mem_append] at h
    simp only [findTok]
    rw [findTokIn_none (fun x hx => h x (Or.inl hx))]
    exact ih (fun x hx => h x (Or.inr hx)) _

/-- A token that is not in the store is not found. -/
theorem findTok_of_not_mem {s : Store} {id : Nat} (h : id ∉ s.ids) : findTok id 0 s.blocks = none := by
  apply findTok_none
  intro x hx e
  exact h (by rw [← e]; exact List.mem_map_of_mem hx)

theorem findTok_mid {id : Nat} {L R : List Block} {b : Block} {j : Nat} {t : Tok}
    (hL : ∀ x ∈ L.flatMap (·.toks), x.id ≠ id) (hb : findTokIn id 0 b.toks = some (j, t)) (p : Nat) :
    findTok id p (L ++ b :: R) = some (p + L.length, j, t) := by
  induction L generalizing p with
  | nil => simp [findTok, hb]
  | cons x L ih =>
    simp only [List.flatMap_cons, List.mem_append] at hL
    simp only [List.cons_append, findTok]
    rw [findTokIn_none (fun y hy => hL y (Or.inl hy))]
    simp only []
    rw [ih (fun y hy => hL y (Or.inr hy))]
    simp; omega

namespace At

variable {s : Store} {id : Nat} {L R : List Block} {b : Block} {A B : List Tok} {t : Tok}

theorem findTok_eq (h : At s id L b R A t B) (hinv : Inv s) :
    findTok id 0 s.blocks = some (L.length, A.length, t) := by
  have hL : ∀ x ∈ L.flatMap (·.toks), x.id ≠ id := by
    intro x hx e
    exact h.notin_before hinv (by rw [← e]; exact List.mem_map_of_mem (by simp only [List.mem_append]; exact Or.inl hx))
  have := findTok_mid (R := R) hL (by simpa using h.findTokIn_eq hinv 0) 0
  rw [h.blocks, this]; simp

theorem refs_before (h : At s id L b R A t B) (hinv : Inv s) : ∀ x ∈ L, (decide (x.ref = b.ref)) = false := by
  intro x hx
  have := hinv.binv.refsNodup
  rw [h.blocks] at this
  simp only [List.map_append, List.map_cons, List.nodup_append, List.mem_cons] at this
  simp only [decide_eq_false_iff_not]
  intro e
  exact this.2.2 x.ref (List.mem_map_of_mem hx) b.ref (Or.inl rfl) e

theorem blockOfRef_eq (h : At s id L b R A t B) (hinv : Inv s) : blockOfRef s.blocks b.ref = some b := by
  rw [blockOfRef, h.blocks]
  exact find?_mid (h.refs_before hinv) (by simp)

theorem blockIdxOfRef_eq (h : At s id L b R A t B) (hinv : Inv s) : blockIdxOfRef s.blocks b.ref = some L.length := by
  have := h.blockOfRef_eq hinv
  rw [blockOfRef] at this
  rw [blockIdxOfRef, this]
  have hi := hinv.binv.idx
  rw [h.blocks, idxFrom_append, idxFrom_cons] at hi
  simp [hi.2.1]

theorem findIdx?_eq (h : At s id L b R A t B) (hinv : Inv s) :
    s.blocks.findIdx? (·.ref = b.ref) = some L.length := by
  rw [h.blocks]
  exact findIdx?_mid (h.refs_before hinv) (by simp)

theorem idx_eq (h : At s id L b R A t B) (hinv : Inv s) : b.idx = L.length := by
  have hi := hinv.binv.idx
  rw [h.blocks, idxFrom_append, idxFrom_cons] at hi
  simpa using hi.2.1

theorem handlePos_eq (h : At s id L b R A t B) (hinv : Inv s) : handlePos s id = .ok (L.length, A.length) := by
  simp only [handlePos, h.findTok_eq hinv, h.handle hinv, h.blockIdxOfRef_eq hinv]
  rfl

theorem handleBlock_eq (h : At s id L b R A t B) (hinv : Inv s) : handleBlock s id = .ok (b, A.length) := by
  simp only [handleBlock, h.findTok_eq hinv, h.handle hinv, h.blockOfRef_eq hinv]
  rfl

theorem flatIdx_eq (h : At s id L b R A t B) (hinv : Inv s) (k : Nat) :
    flatIdx s.blocks L.length k = (L.flatMap (·.toks)).length + k := by
  rw [h.blocks, flatIdx_mid]

theorem lt_blocks (h : At s id L b R A t B) : L.length < s.blocks.length := by
  rw [h.blocks]; simp

theorem getElem_blocks (h : At s id L b R A t B) : s.blocks[L.length]'h.lt_blocks = b := by
  simp [h.blocks]

end At

end Autobean
