/-
`self[start:stop] = values` (step 1: delete, then insert with the stale `items`, explicit `length` and the
`separators_before_last` computed before the deletion) and `del self[i]`, `del self[a:b]` which reduce to it.
-/
import Autobean.Proofs.RepMethods

namespace Autobean.Rep
open Autobean.Seq

/-- What is left of `post` after `_del_tokens` removed `mid` from `pre ++ mid ++ post`: unchanged, except
that after a deletion at the very front the first surviving item takes over the gap that preceded the old
first item (its own gap is deleted). -/
def postAfter : List Seg → List Seg → List Seg → List Seg
  | [], sg0 :: _, sgs :: post' => (sg0.1, sgs.2) :: post'
  | _, _, post => post

theorem deleteSegs_eq (pre mid post : List Seg) : deleteSegs pre mid post = pre ++ postAfter pre mid post := by
  cases pre with
  | nil =>
    cases mid with
    | nil => rfl
    | cons sg0 mid' => cases post <;> rfl
  | cons sg pre' => rfl

theorem postAfter_spans (pre mid post : List Seg) : spans (postAfter pre mid post) = spans post := by
  cases pre with
  | nil =>
    cases mid with
    | nil => rfl
    | cons sg0 mid' => cases post <;> rfl
  | cons sg pre' => rfl

theorem postAfter_items (pre mid post : List Seg) : itemsOf (postAfter pre mid post) = itemsOf post := by
  cases pre with
  | nil =>
    cases mid with
    | nil => rfl
    | cons sg0 mid' => cases post <;> rfl
  | cons sg pre' => rfl

/-- The segments after `self[|pre| : |pre|+|mid|] = vs`. -/
def setSegs (c : Cfg) (ctr : Nat) (pre mid post : List Seg) (vs : List (List Tk)) : List Seg :=
  insertSegs c ctr pre (postAfter pre mid post) vs

/-- The allocation counter after `self[|pre| : |pre|+|mid|] = vs`. -/
def setCtr (c : Cfg) (ctr : Nat) (pre mid post : List Seg) (vs : List (List Tk)) : Nat :=
  insertCtr c ctr pre (postAfter pre mid post) vs

theorem setSegs_spans (c : Cfg) (ctr : Nat) (pre mid post : List Seg) (vs : List (List Tk)) :
    spans (setSegs c ctr pre mid post vs) = spans pre ++ vs.map spanOf ++ spans post := by
  rw [setSegs, insertSegs_spans, postAfter_spans]

/-- The item sequence is the Python list result `items[:a] + values + items[b:]`. -/
theorem setSegs_items (c : Cfg) (ctr : Nat) (pre mid post : List Seg) (vs : List (List Tk)) :
    itemsOf (setSegs c ctr pre mid post vs) = itemsOf pre ++ vs ++ itemsOf post := by
  rw [setSegs, insertSegs_items, postAfter_items]

theorem sepsBeforeLast_ok {c : Cfg} {st : St} {L R : List Tk} {ph : Tk} {sg0 : Seg} {rest : List Seg}
    (wf : RegionWF c st.store st.items L R ph (sg0 :: rest)) :
    ∃ x, (L ++ ph :: sg0.1).getLast? = some x ∧ sepsBeforeLast st = .ok (some x.id) := by
  obtain ⟨x, hx, hget, hprev⟩ := prev_first_item wf
  exact ⟨x, hx, by simp only [sepsBeforeLast, hget, hprev]⟩

/-- `separators_before_last` is the token right before the first item of `segs` (only needed when value-first
mode is going to be used). -/
def SblFor (L : List Tk) (ph : Tk) (segs : List Seg) (sbl : Option Nat) : Prop :=
  ∀ first rest, segs = first :: rest → ∃ x, (L ++ ph :: first.1).getLast? = some x ∧ sbl = some x.id

/-- The insertion step that follows `_del_tokens(|pre|, |pre|+|mid|)` inside `__setitem__`: `items` is still
the list from before the deletion, `length` is passed explicitly, `separators_before_last` was computed before. -/
theorem insertAfterDelete {c : Cfg} {st : St} {L R : List Tk} {ph : Tk} {pre mid post : List Seg}
    (vs : List (List Tk)) (sbl : Option Nat)
    (wf : RegionWF c st.store st.items L R ph (pre ++ mid ++ post))
    (hsbl : pre = [] → post ≠ [] → vs ≠ [] → SblFor L ph (mid ++ post) sbl) :
    insertTokens c (L ++ layout ph (pre ++ postAfter pre mid post) ++ R) st.items st.ctr pre.length vs
        (some (st.items.length - (pre.length + mid.length - pre.length))) sbl
      = .ok (L ++ layout ph (setSegs c st.ctr pre mid post vs) ++ R, setCtr c st.ctr pre mid post vs) := by
  have wfD := wf.delete
  rw [deleteSegs_eq] at wfD
  have hn : st.items.length = pre.length + mid.length + post.length := by
    rw [wf.items_eq]; simp; omega
  have hdD := wfD.distinct
  have hL : st.items.length - (pre.length + mid.length - pre.length) = pre.length + post.length := by
    rw [hn]; omega
  rw [hL]
  cases pre with
  | cons sg pre' =>
    have hne_pre : ItemsNonempty (sg :: pre') :=
      (ItemsNonempty.append.mp (ItemsNonempty.append.mp wf.nonempty).1).1
    obtain ⟨t, ht, hpl⟩ := prevLast_eq (c := c) (ph := ph) (sg :: pre') (mid ++ post) wf.ph_id hne_pre
    rw [← List.append_assoc, ← wf.items_eq] at hpl
    have hP : (L ++ layout ph (sg :: pre')).getLast? = some t := by
      rw [List.getLast?_append, ht]; rfl
    have hst : L ++ layout ph (sg :: pre' ++ postAfter (sg :: pre') mid post) ++ R
        = (L ++ layout ph (sg :: pre')) ++ (body post ++ R) := by
      rw [layout_append]; simp [postAfter]
    rw [hst] at hdD ⊢
    rw [insertTokens_left st.ctr (sg :: pre').length vs _ sbl (by simp) hpl hP hdD]
    simp [setSegs, setCtr, insertCtr, insertSegs, postAfter, layout, body_append]
  | nil =>
    cases post with
    | nil =>
      -- the list is (or becomes) empty: `separators_before` mode
      have hpa : postAfter [] mid [] = [] := by cases mid <;> rfl
      have hst : L ++ layout ph ([] ++ postAfter [] mid []) ++ R = (L ++ [ph]) ++ R := by
        rw [hpa]; simp [layout]
      have hlen : (some (0 + ([] : List Seg).length)).getD st.items.length = 0 := rfl
      rw [hst] at hdD ⊢
      have h := insertTokens_before (c := c) (items := st.items) st.ctr vs _ sbl hlen wf.ph_id
        (by simp) hdD
      simp only [List.length_nil] at h ⊢
      rw [h]
      simp [setSegs, setCtr, insertCtr, insertSegs, hpa, layout]
    | cons sgs post' =>
      -- value-first mode: the reference is `separators_before_last`, computed before the deletion
      obtain ⟨first, rest, hfr, hg⟩ : ∃ first rest, mid ++ sgs :: post' = first :: rest ∧
          postAfter [] mid (sgs :: post') = (first.1, sgs.2) :: post' := by
        cases mid with
        | nil => exact ⟨sgs, post', rfl, rfl⟩
        | cons sg0 mid' => exact ⟨sg0, mid' ++ sgs :: post', by simp, rfl⟩
      have hst : L ++ layout ph ([] ++ postAfter [] mid (sgs :: post')) ++ R
          = (L ++ ph :: first.1) ++ (sgs.2 ++ body post' ++ R) := by
        rw [hg]; simp [layout]
      have hlen : (some (0 + (sgs :: post').length)).getD st.items.length ≠ 0 := by simp
      cases vs with
      | nil =>
        have hpl : prevLast c st.items 0 = .ok ph.id := by simp [prevLast, wf.ph_id]
        have hst2 : L ++ layout ph ([] ++ postAfter [] mid (sgs :: post')) ++ R
            = (L ++ [ph]) ++ (body ((first.1, sgs.2) :: post') ++ R) := by
          rw [hg]; simp [layout]
        rw [hst2] at hdD ⊢
        simp only [List.length_nil]
        rw [insertTokens_nil (c := c) st.ctr 0 _ _ hpl (by simp) hdD]
        simp [setSegs, setCtr, insertCtr, insertSegs, hg, rightSegs, layout]
      | cons v vs' =>
        obtain ⟨x, hx, hsx⟩ := hsbl rfl (by simp) (by simp) first rest hfr
        subst hsx
        rw [hst] at hdD ⊢
        simp only [List.length_nil]
        rw [insertTokens_right st.ctr v vs' _ (some x.id) hlen rfl hx hdD]
        simp [setSegs, setCtr, insertCtr, insertSegs, hg, layout, body_append, body_rightSegs]

/-- On a well-formed region `separators_before_last` (computed before the deletion) is the token before the
first item. -/
theorem sblFor_of_sepsBeforeLast {c : Cfg} {st : St} {L R : List Tk} {ph : Tk} {segs : List Seg}
    {sbl : Option Nat} (wf : RegionWF c st.store st.items L R ph segs) (h : sepsBeforeLast st = .ok sbl) :
    SblFor L ph segs sbl := by
  intro first rest hfr
  obtain ⟨x, hx, hsb⟩ := sepsBeforeLast_ok (by rw [← hfr]; exact wf)
  rw [hsb] at h
  cases h
  exact ⟨x, hx, rfl⟩

theorem sepsBeforeLast_total {c : Cfg} {st : St} {L R : List Tk} {ph : Tk} {segs : List Seg}
    (wf : RegionWF c st.store st.items L R ph segs) : ∃ sbl, sepsBeforeLast st = .ok sbl := by
  cases hsegs : segs with
  | nil =>
    refine ⟨none, ?_⟩
    have : st.items = [] := by rw [wf.items_eq, hsegs]; rfl
    simp [sepsBeforeLast, this]
  | cons sg0 rest =>
    obtain ⟨x, _, h⟩ := sepsBeforeLast_ok (by rw [← hsegs]; exact wf)
    exact ⟨_, h⟩

/-- Step-1 slice assignment on a well-formed region, in terms of the normalised range. -/
theorem setSlice_region {c : Cfg} {st : St} {L R : List Tk} {ph : Tk} {pre mid post : List Seg}
    (start stop step : Option Int) (vs : List (List Tk)) {s0 e0 : Int}
    (wf : RegionWF c st.store st.items L R ph (pre ++ mid ++ post))
    (hs : sliceIndices start stop step st.items.length = .ok (s0, e0, 1))
    (hpre : s0 = (pre.length : Int))
    (he : (if e0 < s0 then s0 else e0) = ((pre.length + mid.length : Nat) : Int)) :
    setSlice c st start stop step vs =
      .ok ⟨L ++ layout ph (setSegs c st.ctr pre mid post vs) ++ R,
           spans (setSegs c st.ctr pre mid post vs), setCtr c st.ctr pre mid post vs⟩ := by
  have hdel := delTokens_region wf
  rw [deleteSegs_eq] at hdel
  have hitems : st.items.take pre.length ++ vs.map spanOf ++ st.items.drop (pre.length + mid.length)
      = spans (setSegs c st.ctr pre mid post vs) := by
    rw [setSegs_spans, wf.items_eq]
    have e1 : (spans (pre ++ mid ++ post)).take pre.length = spans pre := by
      rw [List.append_assoc]; exact take_spans pre (mid ++ post)
    have e2 : (spans (pre ++ mid ++ post)).drop (pre.length + mid.length) = spans post := by
      have := drop_spans (pre ++ mid) post
      simpa using this
    rw [e1, e2]
  have he1 : (if True ∧ e0 < s0 then s0 else e0) = ((pre.length + mid.length : Nat) : Int) := by
    simpa using he
  obtain ⟨sbl, hsbl⟩ := sepsBeforeLast_total wf
  have hins := insertAfterDelete vs sbl wf (by
    intro hp _ _
    have := sblFor_of_sepsBeforeLast wf hsbl
    rw [hp] at this
    simpa using this)
  unfold setSlice
  simp only
  rw [hs]
  simp only
  rw [hsbl]
  simp only [↓reduceIte]
  rw [he1, hpre]
  simp only [Int.toNat_natCast]
  rw [hdel]
  simp only
  rw [hins]
  simp only
  rw [hitems]

end Autobean.Rep

namespace Autobean.Rep
open Autobean.Seq

theorem setSegs_nil (c : Cfg) (ctr : Nat) (pre mid post : List Seg) :
    setSegs c ctr pre mid post [] = deleteSegs pre mid post := by
  rw [deleteSegs_eq, setSegs]
  cases pre with
  | nil =>
    cases h : postAfter [] mid post with
    | nil => rfl
    | cons sg0 post' => simp [insertSegs, rightSegs]
  | cons sg pre' => simp [insertSegs, leftSegs]

theorem setCtr_nil (c : Cfg) (ctr : Nat) (pre mid post : List Seg) : setCtr c ctr pre mid post [] = ctr := by
  unfold setCtr insertCtr
  split <;> simp [beforeCtr]

/-! ### `slice.indices` for step 1 -/

theorem adjustBound_pos_range (v : Int) (len : Nat) :
    0 ≤ adjustBound v len false ∧ adjustBound v len false ≤ len := by
  unfold adjustBound
  split
  · split
    · simp
    · constructor <;> omega
  · split
    · simp
    · constructor <;> omega

theorem adjustBound_pos_idem (v : Int) (len : Nat) (h0 : 0 ≤ v) (h1 : v ≤ len) :
    adjustBound v len false = v := by
  unfold adjustBound
  split
  · omega
  · split
    · simp; omega
    · rfl

/-- For step 1 (or `None`) both normalised bounds lie in `[0, len]`. -/
theorem sliceIndices_step1_range {start stop step : Option Int} {len : Nat} {s e : Int}
    (h : sliceIndices start stop step len = .ok (s, e, 1)) :
    0 ≤ s ∧ s ≤ len ∧ 0 ≤ e ∧ e ≤ len := by
  unfold sliceIndices at h
  simp only at h
  split at h
  · cases h
  · rename_i hk
    injection h with h
    simp only [Prod.mk.injEq] at h
    obtain ⟨h1, h2, h3⟩ := h
    have hneg : decide (step.getD 1 < 0) = false := by rw [h3]; rfl
    rw [hneg] at h1 h2
    constructor
    · cases start with
      | none => simp at h1; omega
      | some v => simp at h1; have := adjustBound_pos_range v len; omega
    constructor
    · cases start with
      | none => simp at h1; omega
      | some v => simp at h1; have := adjustBound_pos_range v len; omega
    constructor
    · cases stop with
      | none => simp at h2; omega
      | some v => simp at h2; have := adjustBound_pos_range v len; omega
    · cases stop with
      | none => simp at h2; omega
      | some v => simp at h2; have := adjustBound_pos_range v len; omega

/-- Re-normalising a normalised step-1 range is the identity (`self[slice_from_range(r)] = []`). -/
theorem sliceIndices_renorm {len : Nat} {s e : Int} (hs0 : 0 ≤ s) (hs1 : s ≤ len) (he0 : 0 ≤ e) (he1 : e ≤ len) :
    sliceIndices (some s) (some e) (some 1) len = .ok (s, e, 1) := by
  simp [sliceIndices, adjustBound_pos_idem s len hs0 hs1, adjustBound_pos_idem e len he0 he1]

/-- Every step-1 slice determines a decomposition `pre ++ mid ++ post` of the region (totality of the
hypotheses of `setSlice_region`). -/
theorem slice_decomposition {start stop step : Option Int} (segs : List Seg) {s e : Int}
    (h : sliceIndices start stop step segs.length = .ok (s, e, 1)) :
    ∃ pre mid post, segs = pre ++ mid ++ post ∧ s = (pre.length : Int) ∧
      (if e < s then s else e) = ((pre.length + mid.length : Nat) : Int) := by
  obtain ⟨h1, h2, h3, h4⟩ := sliceIndices_step1_range h
  let a := s.toNat
  let b := (if e < s then s else e).toNat
  have hab : a ≤ b := by
    simp only [a, b]; split <;> omega
  have hb : b ≤ segs.length := by
    simp only [b]; split <;> omega
  refine ⟨segs.take a, (segs.drop a).take (b - a), segs.drop b, ?_, ?_, ?_⟩
  · have e1 : segs.drop b = (segs.drop a).drop (b - a) := by
      rw [List.drop_drop]; congr 1; omega
    rw [e1, List.append_assoc, List.take_append_drop, List.take_append_drop]
  · simp only [a, List.length_take]; omega
  · simp only [a, b, List.length_take, List.length_drop]
    split <;> omega

/-! ### `del self[i]`, `del self[a:b]` -/

theorem delItemInt_region {c : Cfg} {st : St} {L R : List Tk} {ph : Tk} {pre post : List Seg} {sg : Seg}
    (index : Int) (wf : RegionWF c st.store st.items L R ph (pre ++ [sg] ++ post))
    (hk : pyIndex index st.items.length = some pre.length) :
    delItemInt c st index =
      .ok ⟨L ++ layout ph (deleteSegs pre [sg] post) ++ R, spans (deleteSegs pre [sg] post), st.ctr⟩ := by
  have hn : st.items.length = pre.length + 1 + post.length := by rw [wf.items_eq]; simp; omega
  have hs : sliceIndices (some (pre.length : Int)) (some ((pre.length : Int) + 1)) (some 1) st.items.length
      = .ok ((pre.length : Int), (pre.length : Int) + 1, 1) :=
    sliceIndices_renorm (by omega) (by omega) (by omega) (by omega)
  have h := setSlice_region (some (pre.length : Int)) (some ((pre.length : Int) + 1)) (some 1) [] wf hs rfl
    (by simp; omega)
  unfold delItemInt
  rw [hk]
  simp only
  rw [h, setSegs_nil, setCtr_nil]

theorem delSlice_region {c : Cfg} {st : St} {L R : List Tk} {ph : Tk} {pre mid post : List Seg}
    (start stop step : Option Int) {s0 e0 : Int}
    (wf : RegionWF c st.store st.items L R ph (pre ++ mid ++ post))
    (hs : sliceIndices start stop step st.items.length = .ok (s0, e0, 1))
    (hpre : s0 = (pre.length : Int))
    (he : (if e0 < s0 then s0 else e0) = ((pre.length + mid.length : Nat) : Int)) :
    delSlice c st start stop step =
      .ok ⟨L ++ layout ph (deleteSegs pre mid post) ++ R, spans (deleteSegs pre mid post), st.ctr⟩ := by
  obtain ⟨h1, h2, h3, h4⟩ := sliceIndices_step1_range hs
  have hne : ¬ (e0 = -1) := by omega
  have hs' := sliceIndices_renorm h1 h2 h3 h4
  have h := setSlice_region (some s0) (some e0) (some 1) [] wf hs' hpre he
  unfold delSlice
  rw [hs]
  simp only [↓reduceIte, hne]
  rw [h, setSegs_nil, setCtr_nil]

end Autobean.Rep
