/-
`Token._update_raw_text` / `TokenStore.update`: changing the text of one token adjusts the cached
size and last-newline index of its block incrementally.  The adjusted values are the recomputed ones,
so both invariants are kept, and exactly one text changes.
-/
import Autobean.Proofs.StoreAt

set_option linter.unusedSimpArgs false
set_option linter.unusedVariables false

namespace Autobean

/-! ### List plumbing -/

theorem modify_mid {α} (L R : List α) (x : α) (g : α → α) :
    (L ++ x :: R).modify L.length g = L ++ g x :: R := by
  induction L with
  | nil => simp
  | cons y L ih => simp [ih]

theorem modifyTokAt_mid (L R : List Block) (b : Block) (A B : List Tok) (t : Tok) (f : Tok → Tok)
    (hb : b.toks = A ++ t :: B) :
    modifyTokAt (L ++ b :: R) L.length A.length f = L ++ { b with toks := A ++ f t :: B } :: R := by
  rw [modifyTokAt, modify_mid, hb, modify_mid]

theorem set_mid {α} (X Y : List α) (x y : α) : (X ++ x :: Y).set X.length y = X ++ y :: Y := by
  induction X with
  | nil => simp
  | cons z X ih => simp [ih]

/-! ### Sizes of a run without line breaks -/

theorem sizeOfToks_noNL {B : List Tok} (h : lastNL B = none) : sizeOfToks B = ⟨0, sumColsFrom B⟩ := by
  rw [lastNL_none_iff] at h
  induction B with
  | nil => rfl
  | cons t B ih =>
    simp only [List.mem_cons, forall_eq_or_imp] at h
    rw [sizeOfToks_cons, ih h.2]
    apply Pos.ext'
    · simp [h.1]
    · simp [Pos.add_col, sumColsFrom]

theorem lastNL_single (x : Tok) : lastNL [x] = if x.size.line = 0 then none else some 0 := by
  simp [lastNL]

/-! ### `scanBack` -/

theorem scanBack_go_rev (r : List Tok) :
    ∀ acc, scanBack.go r (r.length - 1) acc =
      (acc + (sizeOfToks r.reverse).col, lniFrom 0 (-1) r.reverse) := by
  induction r with
  | nil => intro acc; simp [scanBack.go, lniFrom]
  | cons x r ih =>
    intro acc
    simp only [List.reverse_cons, List.length_cons, Nat.add_sub_cancel, scanBack.go]
    by_cases hx : x.size.line = 0
    · have hl : lastNL [x] = none := by rw [lastNL_single, if_pos hx]
      simp only [hx, ne_eq, not_true_eq_false, if_false]
      rw [ih]
      have hc : (sizeOfToks (r.reverse ++ [x])).col = (sizeOfToks r.reverse).col + x.size.col := by
        rw [sizeOfToks_append, sizeOfToks_cons, sizeOfToks_nil, Pos.add_zero, Pos.add_col, if_pos hx]
      have hn : lniFrom 0 (-1) (r.reverse ++ [x]) = lniFrom 0 (-1) r.reverse := by
        cases hA : lastNL r.reverse with
        | none =>
          rw [lniFrom_of_none hA, lniFrom_of_none (by rw [lastNL_append_none _ hl]; exact hA)]
        | some i =>
          rw [lniFrom_of_some hA, lniFrom_of_some (by rw [lastNL_append_none _ hl]; exact hA)]
      rw [hc, hn]
      congr 1; omega
    · have hl : lastNL [x] = some 0 := by rw [lastNL_single, if_neg hx]
      simp only [hx, ne_eq, not_false_eq_true, if_true]
      have hc : (sizeOfToks (r.reverse ++ [x])).col = x.size.col := by
        rw [sizeOfToks_append, sizeOfToks_cons, sizeOfToks_nil, Pos.add_zero, Pos.add_col, if_neg hx]
      rw [hc, lniFrom_of_some (lastNL_append_some _ hl)]
      simp

theorem scanBack_go_eq (A : List Tok) (acc : Nat) :
    scanBack.go A.reverse (A.length - 1) acc = (acc + (sizeOfToks A).col, lniFrom 0 (-1) A) := by
  have := scanBack_go_rev A.reverse acc
  simpa using this

/-- `scanBack` computes the column of the size and the last-newline index of the scanned prefix. -/
theorem scanBack_eq (A : List Tok) : scanBack A = ((sizeOfToks A).col, lniFrom 0 (-1) A) := by
  cases A with
  | nil => rfl
  | cons a A =>
    have := scanBack_go_eq (a :: A) 0
    simp only [Nat.zero_add] at this
    rw [← this]
    rfl

/-! ### The incremental cache update -/

/-- Size of `A ++ x :: B` when no token of `B` has a line break. -/
theorem sizeOfToks_mid_noNL (A : List Tok) (x : Tok) {B : List Tok} (hB : lastNL B = none) :
    sizeOfToks (A ++ x :: B) =
      ⟨(sizeOfToks A).line + x.size.line,
        if x.size.line = 0 then (sizeOfToks A).col + x.size.col + sumColsFrom B
        else x.size.col + sumColsFrom B⟩ := by
  rw [sizeOfToks_append, sizeOfToks_cons, sizeOfToks_noNL hB]
  apply Pos.ext'
  · simp
  · simp only [Pos.add_col, Pos.add_line, Nat.add_zero, if_true]
    split <;> omega

/-- Last-newline index of `A ++ x :: B` when no token of `B` has a line break. -/
theorem lniFrom_mid_noNL (A : List Tok) (x : Tok) {B : List Tok} (hB : lastNL B = none) :
    lniFrom 0 (-1) (A ++ x :: B) =
      if x.size.line = 0 then lniFrom 0 (-1) A else (A.length : Int) := by
  have hx : lastNL (x :: B) = if x.size.line = 0 then none else some 0 := by
    simp [lastNL, hB]
  by_cases h0 : x.size.line = 0
  · rw [if_pos h0] at hx ⊢
    cases hA : lastNL A with
    | none => rw [lniFrom_of_none hA, lniFrom_of_none (by rw [lastNL_append_none _ hx]; exact hA)]
    | some i => rw [lniFrom_of_some hA, lniFrom_of_some (by rw [lastNL_append_none _ hx]; exact hA)]
  · rw [if_neg h0] at hx ⊢
    rw [lniFrom_of_some (lastNL_append_some _ hx)]; simp

theorem lniFrom_lt_length (A : List Tok) : lniFrom 0 (-1) A < (A.length : Int) := by
  cases hA : lastNL A with
  | none => rw [lniFrom_of_none hA]; omega
  | some i => rw [lniFrom_of_some hA]; have := lastNL_lt hA; omega

/-- What `TokenStore.update` writes into the block's cached `(size, last_newline_index)`: `size`,
`lni` are the cached values, `A`/`B` the tokens before/after the changed one, `o`/`n` its old and
new size. -/
def textCache (size : Pos) (lni : Int) (A B : List Tok) (o n : Pos) : Pos × Int :=
  if (A.length : Int) < lni then
    (⟨((size.line : Int) + (n.line : Int) - (o.line : Int)).toNat, size.col⟩, lni)
  else if n.line ≠ 0 ∧ o.line = 0 then
    (⟨((size.line : Int) + (n.line : Int) - (o.line : Int)).toNat, n.col + sumColsFrom B⟩, (A.length : Int))
  else if o.line ≠ 0 ∧ n.line = 0 then
    (⟨((size.line : Int) + (n.line : Int) - (o.line : Int)).toNat,
      ((size.col : Int) + (n.col : Int) - (o.col : Int) + ((scanBack A).1 : Int)).toNat⟩, (scanBack A).2)
  else
    (⟨((size.line : Int) + (n.line : Int) - (o.line : Int)).toNat,
      ((size.col : Int) + (n.col : Int) - (o.col : Int)).toNat⟩, lni)

/-- The incrementally updated cache is the recomputed one. -/
theorem textCache_spec {size : Pos} {lni : Int} {A B : List Tok} (t t' : Tok)
    (hsize : size = sizeOfToks (A ++ t :: B)) (hlni : lni = lniFrom 0 (-1) (A ++ t :: B)) :
    textCache size lni A B t.size t'.size =
      (sizeOfToks (A ++ t' :: B), lniFrom 0 (-1) (A ++ t' :: B)) := by
  cases hB : lastNL B with
  | some i =>
    have hx : ∀ x : Tok, lastNL (x :: B) = some (i + 1) := by intro x; simp [lastNL, hB]
    have hBl : (sizeOfToks B).line ≠ 0 := by
      rw [Ne, sizeOfToks_line_eq_zero_iff, hB]; simp
    have hl : ∀ x : Tok, lniFrom 0 (-1) (A ++ x :: B) = (A.length : Int) + ((i + 1 : Nat) : Int) := by
      intro x; rw [lniFrom_of_some (lastNL_append_some _ (hx x))]; simp
    have hlt : (A.length : Int) < lni := by rw [hlni, hl]; omega
    rw [textCache, if_pos hlt, hl t', hlni, hl t]
    congr 1
    apply Pos.ext'
    · simp only [hsize, sizeOfToks_append, sizeOfToks_cons, Pos.add_line]; omega
    · simp only [hsize, sizeOfToks_append, sizeOfToks_cons, Pos.add_col, Pos.add_line]
      have : ∀ a : Nat, ¬ (a + (sizeOfToks B).line = 0) := by intro a; omega
      simp only [this, hBl, if_false]
  | none =>
    have hAl := lniFrom_lt_length A
    rw [sizeOfToks_mid_noNL A t hB] at hsize
    rw [lniFrom_mid_noNL A t hB] at hlni
    rw [sizeOfToks_mid_noNL A t' hB, lniFrom_mid_noNL A t' hB]
    have hnlt : ¬ ((A.length : Int) < lni) := by
      rw [hlni]; split <;> omega
    have h1 : size.line = (sizeOfToks A).line + t.size.line := by rw [hsize]
    have h2 : size.col = if t.size.line = 0 then (sizeOfToks A).col + t.size.col + sumColsFrom B
        else t.size.col + sumColsFrom B := by rw [hsize]
    rw [textCache, if_neg hnlt, scanBack_eq]
    by_cases ho : t.size.line = 0 <;> by_cases hn : t'.size.line = 0
    all_goals simp only [ho, hn, if_true, if_false, ne_eq, not_true_eq_false, not_false_eq_true,
      and_self, and_true, and_false, true_and, false_and] at h2 hlni ⊢
    all_goals
      congr 1
      apply Pos.ext' <;> simp only [] <;> omega

/-! ### `Store.updateText` -/

/-- The token after `_update_raw_text`. -/
def Tok.withText (t : Tok) (txt : List Char) : Tok := { t with text := txt, size := tokSize txt }

/-- The block `TokenStore.update` + `_update_raw_text` leave behind. -/
def textBlock (b : Block) (A B : List Tok) (t : Tok) (txt : List Char) : Block :=
  { b with
    toks := A ++ t.withText txt :: B,
    size := (textCache b.size b.lni A B t.size (tokSize txt)).1,
    lni := (textCache b.size b.lni A B t.size (tokSize txt)).2 }

theorem updateText_eq {s : Store} (hinv : Inv s) {id : Nat} {L R : List Block} {b : Block}
    {A B : List Tok} {t : Tok} (h : At s id L b R A t B) (txt : List Char) :
    Store.updateText s id txt = .ok { s with blocks := L ++ textBlock b A B t txt :: R } := by
  have htake : b.toks.take A.length = A := by rw [h.toks, List.take_left' rfl]
  have hdrop : b.toks.drop (A.length + 1) = B := by
    have : A ++ t :: B = (A ++ [t]) ++ B := by simp
    rw [h.toks, this, List.drop_left' (by simp)]
  unfold Store.updateText
  simp only [h.findTok_eq hinv, h.handle hinv, h.findIdx?_eq hinv]
  rw [h.blocks, getBlock_mid]
  simp only [bind, Except.bind, pure, Except.pure, setAt_mid, htake, hdrop]
  unfold textBlock textCache Tok.withText
  repeat' split
  all_goals simp only [modifyTokAt, modify_mid, h.toks]

theorem textBlock_bok {sid : Nat} {b : Block} (hb : BOK sid b) {A B : List Tok} {t : Tok}
    (ht : b.toks = A ++ t :: B) (txt : List Char) : BOK sid (textBlock b A B t txt) := by
  have hc := textCache_spec (size := b.size) (lni := b.lni) (A := A) (B := B) t (t.withText txt)
    (by rw [← ht]; exact hb.size) (by rw [← ht]; exact hb.lni)
  refine ⟨?_, ?_, ?_⟩
  · show setHandlesFrom sid b.ref 0 (A ++ t.withText txt :: B) = A ++ t.withText txt :: B
    have h0 := hb.hs
    rw [ht, setHandlesFrom_append, setHandlesFrom] at h0
    obtain ⟨h1, h2⟩ := List.append_inj h0 (by simp)
    simp only [List.cons.injEq] at h2
    rw [setHandlesFrom_append, setHandlesFrom, h1, h2.2]
    have hh : t.h = some ⟨sid, b.ref, 0 + A.length⟩ := by rw [← h2.1]
    congr 2
    simp [Tok.withText, hh]
  · exact congrArg Prod.fst hc
  · exact congrArg Prod.snd hc

theorem map_ite_of_notin {X : List Tok} {id : Nat} (v : Nat × List Char)
    (h : id ∉ X.map (·.id)) :
    (X.map Tok.core).map (fun c => if c.1 = id then v else c) = X.map Tok.core := by
  induction X with
  | nil => rfl
  | cons x X ih =>
    simp only [List.map_cons, List.mem_cons, not_or] at h ⊢
    rw [ih h.2]
    have : ¬ x.core.1 = id := fun e => h.1 e.symm
    rw [if_neg this]

theorem cores_map_mid {X Y : List Tok} {id : Nat} (v x : Nat × List Char) (hx : x.1 = id)
    (hX : id ∉ X.map (·.id)) (hY : id ∉ Y.map (·.id)) :
    (X.map Tok.core ++ x :: Y.map Tok.core).map (fun c => if c.1 = id then v else c) =
      X.map Tok.core ++ v :: Y.map Tok.core := by
  rw [List.map_append, List.map_cons, map_ite_of_notin v hX, map_ite_of_notin v hY, if_pos hx]

/-- `Token._update_raw_text` keeps both invariants and changes exactly one text. -/
theorem updateText_inv {s : Store} (hinv : Inv s) {id : Nat} (h : id ∈ s.ids) (txt : List Char) :
    ∃ s', Store.updateText s id txt = .ok s' ∧ Inv s' ∧ s'.sid = s.sid ∧ s'.ids = s.ids ∧
      s'.cores = s.cores.set (s.ids.idxOf id) (id, txt) ∧
      s'.cores = s.cores.map (fun c => if c.1 = id then (id, txt) else c) := by
  obtain ⟨L, b, R, A, t, B, hat⟩ := exists_at h
  have hbinv := hinv.binv
  rw [hat.blocks] at hbinv
  have hbok : BOK s.sid (textBlock b A B t txt) :=
    textBlock_bok (hbinv.bok b (by simp)) hat.toks txt
  have htl' : ({ s with blocks := L ++ textBlock b A B t txt :: R } : Store).toList =
      (L.flatMap (·.toks) ++ A) ++ t.withText txt :: (B ++ R.flatMap (·.toks)) := by
    simp [Store.toList, textBlock]
  have hids : ({ s with blocks := L ++ textBlock b A B t txt :: R } : Store).ids = s.ids := by
    simp only [Store.ids, htl', hat.toList, List.map_append, List.map_cons]
    rfl
  have hcore : (t.withText txt).core = (id, txt) := by
    simp [Tok.core, Tok.withText, hat.id]
  have hcore0 : t.core.1 = id := hat.id
  have hcs : s.cores = (L.flatMap (·.toks) ++ A).map Tok.core ++
      t.core :: (B ++ R.flatMap (·.toks)).map Tok.core := by
    simp only [Store.cores, hat.toList, List.map_append, List.map_cons]
  have hcs' : ({ s with blocks := L ++ textBlock b A B t txt :: R } : Store).cores =
      (L.flatMap (·.toks) ++ A).map Tok.core ++ (id, txt) :: (B ++ R.flatMap (·.toks)).map Tok.core := by
    simp only [Store.cores, htl', List.map_append, List.map_cons, hcore]
  refine ⟨_, updateText_eq hinv hat txt, ?_, rfl, hids, ?_, ?_⟩
  · refine ⟨?_, ?_, ?_, ?_⟩
    · exact binv_replace_mid hbinv rfl rfl hbok (by intro _; simp [textBlock])
    · rw [hids]; exact hinv.idsNodup
    · intro x hx
      rw [htl'] at hx
      simp only [List.mem_append, List.mem_cons] at hx
      have hm : ∀ y, (y ∈ L.flatMap (·.toks) ∨ y ∈ A) ∨ y ∈ B ∨ y ∈ R.flatMap (·.toks) → y ∈ s.toList := by
        intro y hy
        rw [hat.toList]
        simp only [List.mem_append, List.mem_cons]
        rcases hy with hy | hy
        · exact Or.inl hy
        · exact Or.inr (Or.inr hy)
      rcases hx with hx | rfl | hx
      · exact hinv.tokSize x (hm x (Or.inl hx))
      · rfl
      · exact hinv.tokSize x (hm x (Or.inr hx))
    · show s.len = _
      rw [htl', hinv.len, hat.toList]
      simp
  · rw [hcs', hcs, hat.idxOf hinv]
    have hl : (L.flatMap (·.toks)).length + A.length = ((L.flatMap (·.toks) ++ A).map Tok.core).length := by
      simp
    rw [hl, set_mid]
  · rw [hcs', hcs]
    exact (cores_map_mid _ _ hcore0 (hat.notin_before hinv) (hat.notin_after hinv)).symm

theorem updateText_not_mem {s : Store} {id : Nat} (h : id ∉ s.ids) (txt : List Char) :
    Store.updateText s id txt = .error "ValueError:not-in-store" := by
  unfold Store.updateText
  simp only [findTok_of_not_mem h]
  rfl

end Autobean
