/-
Frame lemmas of the abstract store (`Model/Seq.lean`): every operation changes only the named window.
All lemmas are in "cut" form: the store is written as a concatenation that exposes the reference token(s).
-/
import Autobean.Model.Seq

namespace Autobean.Seq

theorem ids_append (a b : List Tk) : ids (a ++ b) = ids a ++ ids b := by simp [ids]

theorem ids_cons (t : Tk) (b : List Tk) : ids (t :: b) = t.id :: ids b := rfl

theorem Distinct.append_left {a b : List Tk} (h : Distinct (a ++ b)) : Distinct a := by
  unfold Distinct at *; rw [ids_append] at h; exact (List.nodup_append.mp h).1

theorem Distinct.append_right {a b : List Tk} (h : Distinct (a ++ b)) : Distinct b := by
  unfold Distinct at *; rw [ids_append] at h; exact (List.nodup_append.mp h).2.1

theorem Distinct.disjoint {a b : List Tk} (h : Distinct (a ++ b)) :
    ∀ x ∈ a, ∀ y ∈ b, x.id ≠ y.id := by
  unfold Distinct at h; rw [ids_append] at h
  intro x hx y hy
  exact (List.nodup_append.mp h).2.2 x.id (List.mem_map_of_mem hx) y.id (List.mem_map_of_mem hy)

/-- In a distinct store the token before which we cut is not among the earlier ones. -/
theorem Distinct.not_before {p q : List Tk} {t : Tk} (h : Distinct (p ++ t :: q)) :
    ∀ x ∈ p, x.id ≠ t.id := fun x hx => h.disjoint x hx t (List.mem_cons_self)

theorem splitId_cut {p : List Tk} {t : Tk} (q : List Tk) (h : ∀ x ∈ p, x.id ≠ t.id) :
    splitId t.id (p ++ t :: q) = some (p, t, q) := by
  induction p with
  | nil => simp [splitId]
  | cons x p ih =>
    have hx : x.id ≠ t.id := h x List.mem_cons_self
    have ih' := ih (fun y hy => h y (List.mem_cons_of_mem _ hy))
    simp [splitId, hx, ih']

theorem splitId_sound {r : Nat} {s a b : List Tk} {t : Tk} (h : splitId r s = some (a, t, b)) :
    s = a ++ t :: b ∧ t.id = r ∧ ∀ x ∈ a, x.id ≠ r := by
  induction s generalizing a with
  | nil => simp [splitId] at h
  | cons x s ih =>
    unfold splitId at h
    split at h
    · rename_i hx
      cases h
      exact ⟨rfl, hx, by simp⟩
    · rename_i hx
      split at h
      · cases h
      · rename_i a' t' b' heq
        cases h
        obtain ⟨h1, h2, h3⟩ := ih heq
        refine ⟨by rw [h1]; rfl, h2, ?_⟩
        intro y hy
        cases hy with
        | head => exact hx
        | tail _ hy => exact h3 y hy

theorem splitId_none {r : Nat} {s : List Tk} (h : splitId r s = none) : ∀ x ∈ s, x.id ≠ r := by
  induction s with
  | nil => simp
  | cons x s ih =>
    unfold splitId at h
    split at h
    · cases h
    · rename_i hx
      split at h
      · rename_i heq
        intro y hy
        cases hy with
        | head => exact hx
        | tail _ hy => exact ih heq y hy
      · cases h

/-! ### Frame lemmas (cut form) -/

/-- `insert_after(t, xs)`: the store is cut right after `t`; `xs` lands in the cut, nothing else moves. -/
theorem insertAfter_frame {p q : List Tk} {t : Tk} (xs : List Tk) (h : Distinct (p ++ t :: q)) :
    insertAfter (some t.id) xs (p ++ t :: q) = .ok (p ++ t :: (xs ++ q)) := by
  simp [insertAfter, splitId_cut q h.not_before]

/-- Same, the part up to and including the reference token given as one list `p` with last element `t`. -/
theorem insertAfter_cut {p q : List Tk} {t : Tk} (xs : List Tk) (hp : p.getLast? = some t)
    (h : Distinct (p ++ q)) : insertAfter (some t.id) xs (p ++ q) = .ok (p ++ xs ++ q) := by
  obtain ⟨p', rfl⟩ : ∃ p', p = p' ++ [t] := by
    rcases List.getLast?_eq_some_iff.mp hp with ⟨p', rfl⟩; exact ⟨p', rfl⟩
  have h' : Distinct (p' ++ t :: q) := by simpa using h
  have := insertAfter_frame xs h'
  simpa using this

theorem insertAfter_none (xs s : List Tk) : insertAfter none xs s = .ok (xs ++ s) := rfl

/-- `insert_before(t, xs)`. -/
theorem insertBefore_frame {p q : List Tk} {t : Tk} (xs : List Tk) (h : Distinct (p ++ t :: q)) :
    insertBefore (some t.id) xs (p ++ t :: q) = .ok (p ++ (xs ++ t :: q)) := by
  simp [insertBefore, splitId_cut q h.not_before]

theorem insertBefore_cut {p q : List Tk} {t : Tk} (xs : List Tk) (hq : q.head? = some t)
    (h : Distinct (p ++ q)) : insertBefore (some t.id) xs (p ++ q) = .ok (p ++ xs ++ q) := by
  obtain ⟨q', rfl⟩ : ∃ q', q = t :: q' := by
    cases q with
    | nil => simp at hq
    | cons a q' => simp at hq; exact ⟨q', by rw [hq]⟩
  have := insertBefore_frame xs h
  simpa using this

/-- `splice(xs, first, last)`: exactly the inclusive range `mid` is replaced by `xs`. -/
theorem spliceRange_frame {a mid b : List Tk} {f l : Tk} (xs : List Tk)
    (hf : mid.head? = some f) (hl : mid.getLast? = some l) (h : Distinct (a ++ mid ++ b)) :
    spliceRange f.id l.id xs (a ++ mid ++ b) = .ok (a ++ xs ++ b) := by
  obtain ⟨m', rfl⟩ : ∃ m', mid = f :: m' := by
    cases mid with
    | nil => simp at hf
    | cons x m' => simp at hf; exact ⟨m', by rw [hf]⟩
  obtain ⟨m'', hm''⟩ : ∃ m'', f :: m' = m'' ++ [l] := by
    rcases List.getLast?_eq_some_iff.mp hl with ⟨m'', h2⟩; exact ⟨m'', h2⟩
  have h1 : Distinct (a ++ f :: (m' ++ b)) := by simpa using h
  have h2 : Distinct (m'' ++ l :: b) := by
    have : Distinct ((f :: m') ++ b) := by
      have := h1.append_right; simpa using this
    rw [hm''] at this; simpa using this
  have e1 : splitId f.id (a ++ f :: (m' ++ b)) = some (a, f, m' ++ b) :=
    splitId_cut (m' ++ b) h1.not_before
  have e2 : splitId l.id (f :: (m' ++ b)) = some (m'', l, b) := by
    have e : f :: (m' ++ b) = m'' ++ l :: b := by
      have : (f :: m') ++ b = (m'' ++ [l]) ++ b := by rw [hm'']
      simpa using this
    rw [e]; exact splitId_cut b h2.not_before
  unfold spliceRange
  simp only [List.append_assoc, List.cons_append, e1, e2]

/-- `remove(first, last)`. -/
theorem removeRange_frame {a mid b : List Tk} {f l : Tk}
    (hf : mid.head? = some f) (hl : mid.getLast? = some l) (h : Distinct (a ++ mid ++ b)) :
    removeRange f.id l.id (a ++ mid ++ b) = .ok (a ++ b) := by
  have := spliceRange_frame [] hf hl h
  simpa [removeRange] using this

/-- `get_prev`. -/
theorem prev_cut {p q : List Tk} {t : Tk} (h : Distinct (p ++ t :: q)) :
    prev t.id (p ++ t :: q) = .ok (p.getLast?.map (·.id)) := by
  simp [prev, splitId_cut q h.not_before]

/-- `get_next`. -/
theorem next_cut {p q : List Tk} {t : Tk} (h : Distinct (p ++ t :: q)) :
    next t.id (p ++ t :: q) = .ok (q.head?.map (·.id)) := by
  simp [next, splitId_cut q h.not_before]

/-- `get_next` across a cut: the token after the last token of `p` is the head of `q`. -/
theorem next_after {p q : List Tk} {t : Tk} (hp : p.getLast? = some t) (h : Distinct (p ++ q)) :
    next t.id (p ++ q) = .ok (q.head?.map (·.id)) := by
  obtain ⟨p', rfl⟩ : ∃ p', p = p' ++ [t] := by
    rcases List.getLast?_eq_some_iff.mp hp with ⟨p', rfl⟩; exact ⟨p', rfl⟩
  have h' : Distinct (p' ++ t :: q) := by simpa using h
  have := next_cut h'
  simpa using this

/-- `get_prev` across a cut: the token before the head of `q` is the last token of `p`. -/
theorem prev_before {p q : List Tk} {t : Tk} (hq : q.head? = some t) (h : Distinct (p ++ q)) :
    prev t.id (p ++ q) = .ok (p.getLast?.map (·.id)) := by
  obtain ⟨q', rfl⟩ : ∃ q', q = t :: q' := by
    cases q with
    | nil => simp at hq
    | cons a q' => simp at hq; exact ⟨q', by rw [hq]⟩
  exact prev_cut h

/-- Soundness direction: whatever `insertAfter` returns differs from the input only by `xs` in one cut. -/
theorem insertAfter_sound {r : Nat} {xs s s' : List Tk} (h : insertAfter (some r) xs s = .ok s') :
    ∃ p t q, s = p ++ t :: q ∧ t.id = r ∧ s' = p ++ t :: (xs ++ q) := by
  simp only [insertAfter] at h
  split at h
  · cases h
  · rename_i a t b heq
    cases h
    obtain ⟨h1, h2, _⟩ := splitId_sound heq
    exact ⟨a, t, b, h1, h2, rfl⟩

theorem insertBefore_sound {r : Nat} {xs s s' : List Tk} (h : insertBefore (some r) xs s = .ok s') :
    ∃ p t q, s = p ++ t :: q ∧ t.id = r ∧ s' = p ++ (xs ++ t :: q) := by
  simp only [insertBefore] at h
  split at h
  · cases h
  · rename_i a t b heq
    cases h
    obtain ⟨h1, h2, _⟩ := splitId_sound heq
    exact ⟨a, t, b, h1, h2, rfl⟩

/-- Soundness direction for `splice`: the result is the input with one contiguous window replaced. -/
theorem spliceRange_sound {f l : Nat} {xs s s' : List Tk} (h : spliceRange f l xs s = .ok s') :
    ∃ a mid b, s = a ++ mid ++ b ∧ s' = a ++ xs ++ b ∧
      (mid.head?.map (·.id)) = some f ∧ (mid.getLast?.map (·.id)) = some l := by
  unfold spliceRange at h
  split at h
  · cases h
  · rename_i a t rest heq
    split at h
    · split at h <;> cases h
    · rename_i m x b heq2
      cases h
      obtain ⟨h1, h2, _⟩ := splitId_sound heq
      obtain ⟨h3, h4, _⟩ := splitId_sound heq2
      refine ⟨a, m ++ [x], b, ?_, by simp, ?_, by simp [h4]⟩
      · rw [h1, h3]; simp
      · cases m with
        | nil => simp at h3 ⊢; rw [← h3.1]; exact h2
        | cons y m => simp at h3 ⊢; rw [← h3.1]; exact h2

/-- Distinctness is preserved when the inserted tokens are distinct and new. -/
theorem Distinct.insert {a b xs : List Tk} (h : Distinct (a ++ b)) (hx : Distinct xs)
    (hnew : ∀ x ∈ xs, ∀ y ∈ a ++ b, x.id ≠ y.id) : Distinct (a ++ xs ++ b) := by
  unfold Distinct at *
  simp only [ids_append] at *
  have ha := List.nodup_append.mp h
  rw [List.append_assoc]
  refine List.nodup_append.mpr ⟨ha.1, List.nodup_append.mpr ⟨hx, ha.2.1, ?_⟩, ?_⟩
  · intro i hi j hj
    obtain ⟨x, hx1, rfl⟩ := List.mem_map.mp hi
    obtain ⟨y, hy1, rfl⟩ := List.mem_map.mp hj
    exact hnew x hx1 y (List.mem_append_right _ hy1)
  · intro i hi j hj
    rcases List.mem_append.mp hj with hj | hj
    · obtain ⟨x, hx1, rfl⟩ := List.mem_map.mp hi
      obtain ⟨y, hy1, rfl⟩ := List.mem_map.mp hj
      exact fun e => hnew y hy1 x (List.mem_append_left _ hx1) e.symm
    · exact ha.2.2 i hi j hj

/-- Removing a window keeps ids distinct. -/
theorem Distinct.remove {a mid b : List Tk} (h : Distinct (a ++ mid ++ b)) : Distinct (a ++ b) := by
  unfold Distinct at *
  simp only [ids_append] at *
  have h1 := List.nodup_append.mp h
  have h2 := List.nodup_append.mp h1.1
  refine List.nodup_append.mpr ⟨h2.1, h1.2.1, ?_⟩
  intro i hi j hj
  exact h1.2.2 i (List.mem_append_left _ hi) j hj

end Autobean.Seq
