/-
`DInv` is preserved by `removeItems` (`_del_tokens`, both branches, + `items[a:b] = []`) and by `popItem`:
the remaining document AND the popped node — whose store is exactly its old span, disjoint from what remains,
and spanned end to end by the node (so it can be inserted again).
-/
import Autobean.Proofs.TreeOpsItems

namespace Autobean
open List

theorem removeItems_spec {d d' : Doc} {q : Path} {a b : Nat} (hd : DInv d) (hab : a < b)
    (h : removeItems d q a b = some d') :
    ∃ g ph is S1 M S2 A B, d.tree.subAt q = some (.rep g ph is) ∧ b ≤ is.length ∧
      d.store = S1 ++ M ++ S2 ∧ d'.store = S1 ++ S2 ∧
      d.tree.leaves = A ++ ((is.take b).drop a).flatMap Tree.leaves ++ B ∧ d'.tree.leaves = A ++ B ∧
      A <+ S1 ∧ ((is.take b).drop a).flatMap Tree.leaves <+ M ∧ B <+ S2 ∧ d'.tag = d.tag ∧ DInv d' := by
  unfold removeItems at h
  cases hs : d.tree.subAt q with
  | none => simp [hs] at h
  | some parent =>
    cases parent with
    | tok i => simp [hs] at h
    | absent => simp [hs] at h
    | node c g ind fs => simp [hs] at h
    | rep g ph is =>
      simp only [hs] at h
      have hnab : ¬ b ≤ a := by omega
      simp only [hnab, if_false] at h
      by_cases hble : b ≤ is.length
      · simp only [hble, if_true] at h
        cases hdel : delTokens d.store ph is a b with
        | none => simp [hdel] at h
        | some s' =>
          cases hset : d.tree.removeItemsAt q a b with
          | none => simp [hdel, hset] at h
          | some t' =>
            simp only [hdel, hset, Option.some.injEq] at h
            subst h
            obtain ⟨A, B, h1, h2⟩ := leaves_removeItemsAt hs hset
            have hsub := hd.leavesSub
            have key : ∃ S1 M S2 A' B', d.store = S1 ++ M ++ S2 ∧ s' = S1 ++ S2 ∧
                d.tree.leaves = A' ++ ((is.take b).drop a).flatMap Tree.leaves ++ B' ∧ t'.leaves = A' ++ B' ∧
                A' <+ S1 ∧ ((is.take b).drop a).flatMap Tree.leaves <+ M ∧ B' <+ S2 := by
              unfold delTokens at hdel
              by_cases hc : a = 0 ∧ b < is.length
              · obtain ⟨ha, hblt⟩ := hc
                subst ha
                simp only [hblt, and_self, if_true] at hdel
                cases h0 : is[0]? with
                | none => simp [h0] at hdel
                | some it0 =>
                  cases hb : is[b]? with
                  | none => simp [h0, hb] at hdel
                  | some itb =>
                    simp only [h0, hb] at hdel
                    cases hf0 : it0.firstLeaf with
                    | none => simp [hf0] at hdel
                    | some f0 =>
                      cases hfb : itb.firstLeaf with
                      | none => simp [hf0, hfb] at hdel
                      | some fb =>
                        simp only [hf0, hfb] at hdel
                        cases hpr : Ids.prev fb d.store with
                        | none => simp [hpr] at hdel
                        | some last =>
                          simp only [hpr] at hdel
                          obtain ⟨rest, hrest⟩ : ∃ rest, is = it0 :: rest := by
                            cases is with
                            | nil => simp at h0
                            | cons x rest => simp at h0; exact ⟨rest, by rw [h0]⟩
                          obtain ⟨Y0, hY0⟩ := head?_split hf0
                          obtain ⟨Z0, hZ0⟩ := head?_split hfb
                          -- leaves of the removed items start with `f0`
                          obtain ⟨Y, hY⟩ : ∃ Y, ((is.take b).drop 0).flatMap Tree.leaves = f0 :: Y := by
                            obtain ⟨b', rfl⟩ : ∃ b', b = b' + 1 := ⟨b - 1, by omega⟩
                            rw [hrest]
                            exact ⟨Y0 ++ (rest.take b').flatMap Tree.leaves, by simp [hY0]⟩
                          -- leaves of the kept items start with `fb`
                          have hdrop : (is.drop b).flatMap Tree.leaves =
                              fb :: (Z0 ++ (is.drop (b + 1)).flatMap Tree.leaves) := by
                            obtain ⟨hlt, hget⟩ := List.getElem?_eq_some_iff.mp hb
                            rw [List.drop_eq_getElem_cons hlt, hget]
                            simp [hZ0]
                          have e1 : d.tree.leaves = (A ++ [ph]) ++ (f0 :: Y) ++
                              fb :: (Z0 ++ (is.drop (b + 1)).flatMap Tree.leaves ++ B) := by
                            rw [h1, hY, hdrop]; simp
                          have e2 : t'.leaves = (A ++ [ph]) ++
                              fb :: (Z0 ++ (is.drop (b + 1)).flatMap Tree.leaves ++ B) := by
                            rw [h2, hdrop]; simp
                          rw [e1] at hsub
                          obtain ⟨S1, M, S2, hst, hA, hM, hB, _, last', hpr', hrm'⟩ :=
                            removeBefore_decomp hd.storeNodup hsub
                          rw [hpr, Option.some.injEq] at hpr'
                          subst hpr'
                          rw [hdel, Option.some.injEq] at hrm'
                          exact ⟨S1, M, S2, _, _, hst, hrm', by rw [e1, hY], e2, hA, by rw [hY]; exact hM, hB⟩
              · simp only [hc, if_false] at hdel
                cases hpl : prevLast ph is a with
                | none => simp [hpl] at hdel
                | some r0 =>
                  cases hit : is[b - 1]? with
                  | none => simp [hpl, hit] at hdel
                  | some itl =>
                    simp only [hpl, hit] at hdel
                    cases hnx : Ids.next r0 d.store with
                    | none => simp [hnx] at hdel
                    | some first =>
                      cases hl : itl.lastLeaf with
                      | none => simp [hnx, hl] at hdel
                      | some l =>
                        simp only [hnx, hl] at hdel
                        obtain ⟨X, hX⟩ := prevLast_split hpl
                        obtain ⟨Y, hY⟩ := mid_last hab hble hit hl
                        have e1 : d.tree.leaves = ((A ++ X) ++ [r0]) ++ (Y ++ [l]) ++
                            ((is.drop b).flatMap Tree.leaves ++ B) := by
                          rw [h1, hY]
                          have : A ++ (ph :: (is.take a).flatMap Tree.leaves ++ (Y ++ [l]) ++
                                (is.drop b).flatMap Tree.leaves) ++ B =
                              A ++ ((ph :: (is.take a).flatMap Tree.leaves) ++ (Y ++ [l]) ++
                                (is.drop b).flatMap Tree.leaves) ++ B := by simp
                          rw [this, hX]; simp
                        have e2 : t'.leaves = ((A ++ X) ++ [r0]) ++ ((is.drop b).flatMap Tree.leaves ++ B) := by
                          rw [h2]
                          have : A ++ (ph :: (is.take a).flatMap Tree.leaves ++
                                (is.drop b).flatMap Tree.leaves) ++ B =
                              A ++ ((ph :: (is.take a).flatMap Tree.leaves) ++
                                (is.drop b).flatMap Tree.leaves) ++ B := by simp
                          rw [this, hX]; simp
                        rw [e1] at hsub
                        obtain ⟨S1, M, S2, hst, hA, hM, hB, _, first', hnx', hrm'⟩ :=
                          removeAfter_decomp hd.storeNodup hsub
                        rw [hnx, Option.some.injEq] at hnx'
                        subst hnx'
                        rw [hdel, Option.some.injEq] at hrm'
                        exact ⟨S1, M, S2, _, _, hst, hrm', by rw [e1, hY], e2, hA, by rw [hY]; exact hM, hB⟩
            obtain ⟨S1, M, S2, A', B', hst, hs', e1, e2, hA, hM, hB⟩ := key
            subst hs'
            have e2' : t'.leaves = A' ++ [] ++ B' := by simpa using e2
            have hinv := dinv_edit (M' := []) (t' := t') hd hst List.nodup_nil (by simp) hA
              (Sublist.refl _) hB e2' (tags_removeItemsAt hs hset hd.tagsEq)
            exact ⟨g, ph, is, S1, M, S2, A', B', rfl, hble, hst, rfl, e1, e2, hA, hM, hB, rfl,
              by simpa using hinv⟩
      · simp [hble] at h

/-- **`del w[a:b]` / `clear()` keep the invariant.** -/
theorem dinv_removeItems {d d' : Doc} {q : Path} {a b : Nat} (hd : DInv d)
    (h : removeItems d q a b = some d') : DInv d' := by
  by_cases hab : a < b
  · obtain ⟨_, _, _, _, _, _, _, _, _, _, _, _, _, _, _, _, _, _, hinv⟩ := removeItems_spec hd hab h
    exact hinv
  · -- empty range: nothing happens
    unfold removeItems at h
    cases hs : d.tree.subAt q with
    | none => simp [hs] at h
    | some parent =>
      cases parent with
      | tok i => simp [hs] at h
      | absent => simp [hs] at h
      | node c g ind fs => simp [hs] at h
      | rep g ph is =>
        have hba : b ≤ a := by omega
        simp only [hs, hba, if_true, Option.some.injEq] at h
        subst h; exact hd

/-! ### pop -/

/-- The store range of a leaf segment lying inside a window `Mr` of the store lies inside `Mr`. -/
theorem iter_within {S1 Mr S2 L : List Nat} {f l : Nat} (hnd : (S1 ++ Mr ++ S2).Nodup) (hL : L <+ Mr)
    (hf : L.head? = some f) (hl : L.getLast? = some l) :
    ∃ M, Ids.iter f l (S1 ++ Mr ++ S2) = some M ∧ M <+ Mr ∧ L <+ M ∧
      M.head? = some f ∧ M.getLast? = some l := by
  have hL' : ([] ++ L ++ []) <+ Mr := by simpa using hL
  obtain ⟨R1, M, R2, rfl, _, hLM, _, hMf, hMl⟩ := span_decomp hL' hf hl
  have e : S1 ++ (R1 ++ M ++ R2) ++ S2 = (S1 ++ R1) ++ M ++ (R2 ++ S2) := by simp
  rw [e] at hnd ⊢
  exact ⟨M, (Ids.range_spec hnd hMf hMl []).2,
    (List.sublist_append_right R1 M).trans (List.sublist_append_left (R1 ++ M) R2), hLM, hMf, hMl⟩

/-- **`pop(i)`**: the remaining document and the popped node both satisfy the invariant; the popped node's
store is exactly its old span (`iter first last`), is disjoint from the remaining store, and the node spans
it end to end (first / last leaf = first / last store token: it is a reusable, self-contained value). -/
theorem popItem_spec {d d1 pop : Doc} {q : Path} {i τ : Nat} (hd : DInv d)
    (h : popItem d q i τ = some (d1, pop)) :
    ∃ g ph is it f l, d.tree.subAt q = some (.rep g ph is) ∧ is[i]? = some it ∧
      it.firstLeaf = some f ∧ it.lastLeaf = some l ∧
      DInv d1 ∧ DInv pop ∧ pop.tag = τ ∧ pop.tree = reattachAll τ it ∧
      Ids.iter f l d.store = some pop.store ∧ pop.store.head? = some f ∧ pop.store.getLast? = some l ∧
      (∀ x ∈ pop.store, x ∈ d.store ∧ x ∉ d1.store) ∧ removeItems d q i (i + 1) = some d1 := by
  unfold popItem at h
  cases hs : d.tree.subAt q with
  | none => simp [hs] at h
  | some parent =>
    cases parent with
    | tok i => simp [hs] at h
    | absent => simp [hs] at h
    | node c g ind fs => simp [hs] at h
    | rep g ph is =>
      simp only [hs] at h
      cases hi : is[i]? with
      | none => simp [hi] at h
      | some it =>
        simp only [hi] at h
        cases hf : it.firstLeaf with
        | none => simp [hf] at h
        | some f =>
          cases hl : it.lastLeaf with
          | none => simp [hf, hl] at h
          | some l =>
            simp only [hf, hl] at h
            cases hit : Ids.iter f l d.store with
            | none => simp [hit] at h
            | some span =>
              cases hrm : removeItems d q i (i + 1) with
              | none => simp [hit, hrm] at h
              | some d1' =>
                simp only [hit, hrm, Option.some.injEq, Prod.mk.injEq] at h
                obtain ⟨rfl, rfl⟩ := h
                obtain ⟨g', ph', is', S1, Mr, S2, A, B, hs', _, hst, hst1, _, _, _, hM, _, _, hinv1⟩ :=
                  removeItems_spec hd (Nat.lt_succ_self i) hrm
                rw [hs, Option.some.injEq] at hs'
                injection hs' with _ _ his
                subst his
                rw [take_succ_drop hi] at hM
                simp only [List.flatMap_cons, List.flatMap_nil, List.append_nil] at hM
                have hnd := hd.storeNodup
                rw [hst] at hnd
                obtain ⟨M, hiter, hMsub, hLM, hMf, hMl⟩ := iter_within hnd hM hf hl
                rw [← hst, hit, Option.some.injEq] at hiter
                subst hiter
                have hMnd : span.Nodup := by
                  have hinf : span <+ d.store := by
                    rw [hst]
                    exact (hMsub.trans (List.sublist_append_right S1 Mr)).trans (List.sublist_append_left _ S2)
                  exact hinf.nodup hd.storeNodup
                refine ⟨g, ph, is, it, f, l, rfl, hi, hf, hl, hinv1, ?_, rfl, rfl, hit, hMf, hMl, ?_, rfl⟩
                · exact ⟨hMnd, reattachAll_tags' _ _, (by rw [reattachAll_leaves']; exact hLM.nodup hMnd),
                    by rw [reattachAll_leaves']; exact hLM⟩
                · intro x hx
                  have hxMr := hMsub.subset hx
                  refine ⟨by rw [hst]; simp [hxMr], ?_⟩
                  rw [hst1]
                  have hnd2 := hnd
                  simp only [List.append_assoc, List.nodup_append, List.mem_append] at hnd2
                  intro hmem
                  rcases List.mem_append.mp hmem with h1 | h2
                  · exact hnd2.2.2 x h1 x (Or.inl hxMr) rfl
                  · exact hnd2.2.1.2.2 x hxMr x h2 rfl

/-- **`pop()` keeps the invariant, and returns a complete self-contained tree.** -/
theorem dinv_popItem {d d1 pop : Doc} {q : Path} {i τ : Nat} (hd : DInv d)
    (h : popItem d q i τ = some (d1, pop)) :
    DInv d1 ∧ DInv pop ∧ (∀ x ∈ pop.store, x ∉ d1.store) ∧
      pop.store.head? = pop.tree.firstLeaf ∧ pop.store.getLast? = pop.tree.lastLeaf := by
  obtain ⟨g, ph, is, it, f, l, _, _, hf, hl, h1, h2, _, htree, _, hMf, hMl, hdis, _⟩ := popItem_spec hd h
  refine ⟨h1, h2, fun x hx => (hdis x hx).2, ?_, ?_⟩
  · rw [hMf, htree, Tree.firstLeaf, reattachAll_leaves']; exact hf.symm
  · rw [hMl, htree, Tree.lastLeaf, reattachAll_leaves']; exact hl.symm

end Autobean
