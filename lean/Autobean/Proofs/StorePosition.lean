/-
`get_position`: the reported (line, column) of a token is the size of the text before it (C08).
-/
import Autobean.Proofs.StoreAt

set_option linter.unusedSimpArgs false
set_option linter.unusedVariables false

namespace Autobean

theorem sumPos_block_sizes {L : List Block} (h : ∀ b ∈ L, b.size = sizeOfToks b.toks) :
    sumPos (L.map (·.size)) = sizeOfToks (L.flatMap (·.toks)) := by
  induction L with
  | nil => rfl
  | cons b L ih =>
    simp only [List.mem_cons, forall_eq_or_imp] at h
    simp only [List.map_cons, sumPos_cons, List.flatMap_cons, sizeOfToks_append, ih h.2, h.1]

theorem foldl_add_size (A : List Tok) (p0 : Pos) :
    A.foldl (fun p t => p + t.size) p0 = p0 + sizeOfToks A := by
  induction A generalizing p0 with
  | nil => simp
  | cons t A ih => simp only [List.foldl_cons, ih, sizeOfToks_cons, Pos.add_assoc]

/-- With correct per-token sizes, the summed size of a token list is the size of its text. -/
theorem sizeOfToks_eq_tokSize {X : List Tok} (h : ∀ t ∈ X, t.size = tokSize t.text) :
    sizeOfToks X = tokSize (X.map (·.text)).flatten := by
  rw [tokSize_flatten, sizeOfToks, List.map_map]
  congr 1
  apply List.map_congr_left
  intro t ht
  exact h t ht

/-- `get_position(token)` is the size (lines, column after the last line break) of the
concatenated text of all tokens before `token`. -/
theorem getPosition_inv {s : Store} (hinv : Inv s) {id : Nat} (h : id ∈ s.ids) :
    s.getPosition id = .ok (tokSize ((s.toList.take (s.ids.idxOf id)).map (·.text)).flatten) := by
  obtain ⟨L, b, R, A, t, B, hat⟩ := exists_at h
  have htake : s.toList.take (s.ids.idxOf id) = L.flatMap (·.toks) ++ A := by
    rw [hat.toList, hat.idxOf hinv]
    exact List.take_left' (by simp)
  have hsz : ∀ x ∈ L.flatMap (·.toks) ++ A, x.size = tokSize x.text := by
    intro x hx
    apply hinv.tokSize
    rw [hat.toList]; simp only [List.mem_append] at hx ⊢; exact Or.inl hx
  have hL : ∀ x ∈ L, x.size = sizeOfToks x.toks := by
    intro x hx
    exact (hinv.binv.bok x (by rw [hat.blocks]; simp [hx])).size
  unfold Store.getPosition
  simp only [hat.findTok_eq hinv, hat.handle hinv, hat.blockOfRef_eq hinv, hat.idx_eq hinv, bind, Except.bind,
    pure, Except.pure]
  have e1 : s.blocks.take L.length = L := by rw [hat.blocks]; exact List.take_left' rfl
  have e2 : b.toks.take A.length = A := by rw [hat.toks]; exact List.take_left' rfl
  rw [e1, e2, foldl_add_size, sumPos_block_sizes hL, ← sizeOfToks_append, htake, sizeOfToks_eq_tokSize hsz]

theorem getPosition_not_mem {s : Store} {id : Nat} (h : id ∉ s.ids) :
    s.getPosition id = .error "ValueError:not-in-store" := by
  unfold Store.getPosition
  simp only [findTok_of_not_mem h, bind, Except.bind]
  rfl

end Autobean
