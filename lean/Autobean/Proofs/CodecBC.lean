import Autobean.Proofs.CodecStr
/-! Lemmas for C12: BlockComment (`_splitlines`, `_format_value`, `_parse_value`, BLOCK_COMMENT). -/
set_option linter.unusedSimpArgs false
namespace Autobean.Codec

/-- The shape of `_splitlines` results: non-empty; every piece but the last is `b ++ "\n"` with no other `\n`;
the last piece has no `\n`. -/
def LinesWF : List Text → Prop
  | [] => False
  | [l] => '\n' ∉ l
  | l :: l' :: ls => (∃ b, l = b ++ ['\n'] ∧ '\n' ∉ b) ∧ LinesWF (l' :: ls)

theorem splitLines_ne_nil (s : Text) : splitLines s ≠ [] := by
  induction s with
  | nil => simp [splitLines]
  | cons c s ih =>
    simp only [splitLines]
    split
    · simp
    · split <;> simp

theorem splitLines_cons (c : Char) (s : Text) :
    ∃ l ls, splitLines s = l :: ls ∧
      splitLines (c :: s) = if c = '\n' then [c] :: l :: ls else (c :: l) :: ls := by
  cases h : splitLines s with
  | nil => exact absurd h (splitLines_ne_nil s)
  | cons l ls => exact ⟨l, ls, rfl, by simp [splitLines, h]⟩

theorem splitLines_noNL (l : Text) (h : '\n' ∉ l) : splitLines l = [l] := by
  induction l with
  | nil => rfl
  | cons c l ih =>
    have hc : c ≠ '\n' := by intro e; subst e; simp at h
    have hl : '\n' ∉ l := by intro e; exact h (by simp [e])
    simp [splitLines, ih hl, hc]

theorem splitLines_line (b s : Text) (h : '\n' ∉ b) :
    splitLines (b ++ '\n' :: s) = (b ++ ['\n']) :: splitLines s := by
  induction b with
  | nil =>
    obtain ⟨l, ls, h1, h2⟩ := splitLines_cons '\n' s
    simp [h2, h1]
  | cons c b ih =>
    have hc : c ≠ '\n' := by intro e; subst e; simp at h
    have hb : '\n' ∉ b := by intro e; exact h (by simp [e])
    simp [splitLines, ih hb, hc]

theorem splitLines_flatten (ls : List Text) (h : LinesWF ls) : splitLines ls.flatten = ls := by
  induction ls with
  | nil => exact absurd h (by simp [LinesWF])
  | cons l ls ih =>
    cases ls with
    | nil => simpa using splitLines_noNL l h
    | cons l' ls' =>
      obtain ⟨⟨b, rfl, hb⟩, hwf⟩ := h
      have := ih hwf
      simp only [List.flatten_cons, List.append_assoc, List.singleton_append] at this ⊢
      rw [splitLines_line b _ hb, this]

theorem splitLines_wf (v : Text) : LinesWF (splitLines v) ∧ (splitLines v).flatten = v := by
  induction v with
  | nil => simp [splitLines, LinesWF]
  | cons c v ih =>
    obtain ⟨l, ls, h1, h2⟩ := splitLines_cons c v
    rw [h1] at ih
    obtain ⟨hwf, hfl⟩ := ih
    rw [h2]
    by_cases hc : c = '\n'
    · subst hc
      simp only [if_true]
      refine ⟨⟨⟨[], by simp, by simp⟩, hwf⟩, ?_⟩
      simpa using hfl
    · simp only [hc, if_false]
      constructor
      · cases ls with
        | nil =>
          simp only [LinesWF] at hwf ⊢
          intro e
          simp only [List.mem_cons] at e
          rcases e with e | e
          · exact hc e.symm
          · exact hwf e
        | cons l' ls' =>
          obtain ⟨⟨b, rfl, hb⟩, hwf'⟩ := hwf
          refine ⟨⟨c :: b, by simp, ?_⟩, hwf'⟩
          intro e
          simp only [List.mem_cons] at e
          rcases e with e | e
          · exact hc e.symm
          · exact hb e
      · simpa using hfl

/-! ### `_parse_value ∘ _format_value` -/

/-- what `_format_value` puts after the `;` of a line -/
def tailOf (l : Text) : Text := if blankLine l then l else ' ' :: l

theorem fmtBCLine_eq (indent l : Text) : fmtBCLine indent l = indent ++ ';' :: tailOf l := by
  unfold fmtBCLine tailOf; split <;> rfl

theorem blankLine_snoc_nl (b : Text) : blankLine (b ++ ['\n']) = blankLine b := by
  simp [blankLine, isEol]

theorem tailOf_snoc_nl (b : Text) : tailOf (b ++ ['\n']) = tailOf b ++ ['\n'] := by
  unfold tailOf; rw [blankLine_snoc_nl]; split <;> simp

theorem nl_not_mem_tailOf (l : Text) (h : '\n' ∉ l) : '\n' ∉ tailOf l := by
  unfold tailOf; split
  · exact h
  · intro e; simp only [List.mem_cons] at e; rcases e with e | e
    · exact absurd e (by decide)
    · exact h e

theorem fmt_wf (indent : Text) (hi : '\n' ∉ indent) (ls : List Text) (h : LinesWF ls) :
    LinesWF (ls.map (fmtBCLine indent)) := by
  induction ls with
  | nil => exact absurd h (by simp [LinesWF])
  | cons l ls ih =>
    cases ls with
    | nil =>
      simp only [List.map, LinesWF, fmtBCLine_eq] at h ⊢
      intro e
      simp only [List.mem_append, List.mem_cons] at e
      rcases e with e | e | e
      · exact hi e
      · exact absurd e (by decide)
      · exact nl_not_mem_tailOf l h e
    | cons l' ls' =>
      obtain ⟨⟨b, rfl, hb⟩, hwf⟩ := h
      refine ⟨⟨indent ++ ';' :: tailOf b, ?_, ?_⟩, ih hwf⟩
      · simp [fmtBCLine_eq, tailOf_snoc_nl]
      · intro e
        simp only [List.mem_append, List.mem_cons] at e
        rcases e with e | e | e
        · exact hi e
        · exact absurd e (by decide)
        · exact nl_not_mem_tailOf b hb e

theorem splitSemi_fmt (indent t : Text) (hi : ';' ∉ indent) : splitSemi (indent ++ ';' :: t) = some (indent, t) := by
  induction indent with
  | nil => simp [splitSemi]
  | cons c i ih =>
    have hc : c ≠ ';' := by intro e; subst e; simp at hi
    have hi' : ';' ∉ i := by intro e; exact hi (by simp [e])
    simp [splitSemi, hc, ih hi']

theorem mapM_splitSemi_fmt (indent : Text) (hi : ';' ∉ indent) (ls : List Text) :
    (ls.map (fmtBCLine indent)).mapM splitSemi = some (ls.map fun l => (indent, tailOf l)) := by
  induction ls with
  | nil => rfl
  | cons l ls ih => simp [List.mapM_cons, ih, fmtBCLine_eq, splitSemi_fmt indent _ hi]

theorem spacedLine_tailOf (l : Text) : spacedLine (tailOf l) = true := by
  unfold tailOf spacedLine; split <;> simp [*]

theorem dropSpace_tailOf (l : Text) : dropSpace (tailOf l) = l := by
  unfold tailOf; split
  · rename_i h
    cases l with
    | nil => rfl
    | cons c s =>
      have hc : c ≠ ' ' := by
        intro e; subst e; simp [blankLine, isEol] at h
      simp [dropSpace, hc]
  · simp [dropSpace]

/-- `_parse_value(_format_value(indent, value)) == (indent, value)` for every value, provided the indent contains
neither `;` nor `\n` (in particular for every indent in `[ \t]*`). -/
theorem parseBC_fmtBC (indent v : Text) (h1 : ';' ∉ indent) (h2 : '\n' ∉ indent) :
    parseBC (fmtBC indent v) = .ok (indent, v) := by
  obtain ⟨hwf, hfl⟩ := splitLines_wf v
  have hsl := splitLines_flatten _ (fmt_wf indent h2 _ hwf)
  unfold parseBC fmtBC
  rw [hsl, mapM_splitSemi_fmt indent h1]
  have hall : ((splitLines v).map fun l => (indent, tailOf l)).map (·.2) = (splitLines v).map tailOf := by
    simp [List.map_map, Function.comp_def]
  simp only [hall]
  have hsp : ((splitLines v).map tailOf).all spacedLine = true := by
    simp [List.all_map, spacedLine_tailOf]
  simp only [hsp, if_true, List.map_map]
  have hd : (dropSpace ∘ tailOf) = id := by funext l; simp [dropSpace_tailOf]
  rw [hd, List.map_id, hfl]
  cases hs : splitLines v with
  | nil => exact absurd hs (splitLines_ne_nil v)
  | cons l ls => simp

end Autobean.Codec
