import Autobean.Proofs.CodecStr
/-! Lemmas for C12: InlineComment, Tag, Link, MetaKey, Bool, TransactionFlag. -/
set_option linter.unusedSimpArgs false
namespace Autobean.Codec

theorem stripPrefix_append (p r : Text) : stripPrefix p (p ++ r) = some r := by
  induction p with
  | nil => cases r <;> rfl
  | cons c p ih => simp [stripPrefix, ih]

/-! ### InlineComment -/

theorem parseIC_fmtIC (v : Text) (h : domIC v = true) : parseIC (fmtIC v) = v := by
  cases v with
  | nil => rfl
  | cons c v =>
    simp [domIC] at h
    have hc : c ≠ ' ' := h.2
    simp [fmtIC, parseIC, List.dropWhile_cons, hc]

theorem lexIC_fmtIC (v rest : Text) (hv : v.all notEol = true) (hr : Stops notEol rest) :
    lexIC (fmtIC v ++ rest) = some (fmtIC v, rest) := by
  have hv' : ∀ c ∈ v, notEol c = true := by simpa using hv
  cases v with
  | nil =>
    simp only [fmtIC, lexIC, if_true, List.cons_append, List.nil_append]
    have h1 := takeWhile_append_stop notEol [] rest (by simp) hr
    have h2 := dropWhile_append_stop notEol [] rest (by simp) hr
    simp at h1 h2
    simp [h1, h2]
  | cons c v =>
    have hsp : notEol ' ' = true := by decide
    have hall : ∀ x ∈ ' ' :: c :: v, notEol x = true := by
      intro x hx
      simp only [List.mem_cons] at hx
      rcases hx with rfl | hx
      · exact hsp
      · exact hv' x (by simpa using hx)
    have h1 := takeWhile_append_stop notEol (' ' :: c :: v) rest hall hr
    have h2 := dropWhile_append_stop notEol (' ' :: c :: v) rest hall hr
    simp only [fmtIC, lexIC, if_true, List.cons_append, reduceCtorEq, if_false] at h1 h2 ⊢
    simp [h1, h2]

/-! ### Tag / Link -/

theorem lexSigil_fmt (sg : Char) (v rest : Text) (hv : domTag v = true) (hr : Stops isTagChar rest) :
    lexSigil sg (sg :: v ++ rest) = some (sg :: v, rest) := by
  simp [domTag] at hv
  obtain ⟨hne, hall⟩ := hv
  have h1 := takeWhile_append_stop isTagChar v rest hall hr
  have h2 := dropWhile_append_stop isTagChar v rest hall hr
  cases v with
  | nil => exact absurd rfl hne
  | cons b bs =>
    simp only [lexSigil, List.cons_append, if_true] at h1 h2 ⊢
    simp [h1, h2]

/-! ### MetaKey -/

theorem parseKey_fmtKey (v : Text) : parseKey (fmtKey v) = v := by
  simp [parseKey, fmtKey, List.dropLast_concat]

theorem lexKey_fmtKey (v rest : Text) (hv : domKey v = true) : lexKey (fmtKey v ++ rest) = some (fmtKey v, rest) := by
  match v, hv with
  | c :: d :: s, hv =>
    simp [domKey] at hv
    obtain ⟨hc, hd, hs⟩ := hv
    have hall : ∀ x ∈ d :: s, isKeyChar x = true := by
      intro x hx
      simp only [List.mem_cons] at hx
      rcases hx with rfl | hx
      · exact hd
      · exact hs x hx
    have hstop : Stops isKeyChar (':' :: rest) := Or.inr ⟨':', rest, rfl, by decide⟩
    have h1 := takeWhile_append_stop isKeyChar (d :: s) (':' :: rest) hall hstop
    have h2 := dropWhile_append_stop isKeyChar (d :: s) (':' :: rest) hall hstop
    simp only [fmtKey, lexKey, List.cons_append, List.append_assoc, List.singleton_append, hc, if_true] at h1 h2 ⊢
    simp [h1, h2]

/-! ### Bool -/

theorem parseBool_fmtBool (b : Bool) : parseBool (fmtBool b) = .ok b := by
  cases b <;> simp [parseBool, fmtBool, sTRUE, sFALSE]

theorem lexBool_fmtBool (b : Bool) (rest : Text) : lexBool (fmtBool b ++ rest) = some (fmtBool b, rest) := by
  cases b
  · simp [lexBool, fmtBool, stripPrefix_append]
  · simp [lexBool, fmtBool, stripPrefix_append, sTRUE, sFALSE, stripPrefix]

theorem lexBool_parse (s : Text) (h : lexBool s = some (s, [])) : ∃ b, parseBool s = .ok b := by
  unfold lexBool at h
  split at h
  · simp at h; exact ⟨false, by simp [parseBool, ← h.1, sTRUE, sFALSE]⟩
  · split at h
    · simp at h; exact ⟨true, by simp [parseBool, ← h.1]⟩
    · simp at h

/-! ### TransactionFlag -/

theorem flagChar_ne_t (c : Char) (h : isFlagChar c = true) : c ≠ 't' := by
  intro e; subst e; revert h; decide

theorem parseFlag_fmtFlag (v : Text) (h : domFlag v = true) : parseFlag (fmtFlag v) = v := by
  match v, h with
  | [c], h => simp [parseFlag, fmtFlag, sTxn]

theorem lexFlag_fmtFlag (v rest : Text) (h : domFlag v = true) : lexFlag (fmtFlag v ++ rest) = some (fmtFlag v, rest) := by
  match v, h with
  | [c], h =>
    simp only [domFlag] at h
    have hc := flagChar_ne_t c h
    have : ('t' = c) = False := by simp; exact fun e => hc e.symm
    simp [lexFlag, fmtFlag, sTxn, stripPrefix, this, h]

end Autobean.Codec
