import Autobean.Model.NumExpr
/-
Helper lemmas for C13: the reference parser `parseAdd` reads back every printed tree.

Plan.  For each level of the grammar there is a fuel requirement (`need`), and
  * `atom_ok`   : with enough fuel `parseAtomF` reads `a.toks` off the front of any input;
  * `mul_loop`  : parsing `m.toks ++ rest` from scratch reaches the state "accumulator = m, input = rest" of the
                  MUL_OP loop (so whatever the loop does next on `rest`, it does after `m.toks` too);
  * `add_loop`  : the same for the ADD_OP loop (needs: `rest` does not continue the last product).
`need_le` bounds the fuel by `6 * (number of tokens)`, which is what `parseAdd` supplies.
-/
namespace Autobean.NumExpr

/-! ### spacing -/

def startsWs : List Token → Bool
  | .ws _ :: _ => true
  | _ => false

/-- the input goes on with a MUL_OP (after ignored tokens) -/
def contMul (r : List Token) : Bool :=
  match (takeWs r).2 with
  | .mulOp _ :: _ => true
  | _ => false

/-- the input goes on with a sign (after ignored tokens) -/
def contAdd (r : List Token) : Bool :=
  match (takeWs r).2 with
  | .addOp _ :: _ => true
  | _ => false

theorem takeWs_of_not_ws : ∀ (r : List Token), startsWs r = false → takeWs r = ([], r)
  | [], _ => by simp [takeWs]
  | .ws _ :: _, h => by simp [startsWs] at h
  | .number _ :: _, _ => by simp [takeWs]
  | .addOp _ :: _, _ => by simp [takeWs]
  | .mulOp _ :: _, _ => by simp [takeWs]
  | .unaryOp _ :: _, _ => by simp [takeWs]
  | .lparen :: _, _ => by simp [takeWs]
  | .rparen :: _, _ => by simp [takeWs]

theorem takeWs_wsToks (w : Ws) (r : List Token) (h : startsWs r = false) :
    takeWs (wsToks w ++ r) = (w, r) := by
  induction w with
  | nil => simpa [wsToks] using takeWs_of_not_ws r h
  | cons t w ih =>
    have ih' : takeWs (List.map Token.ws w ++ r) = (w, r) := by simpa [wsToks] using ih
    simp [wsToks, takeWs, ih']

@[simp] theorem wsToks_blind (w : Ws) : (wsToks w).map Token.blind = wsToks w := by
  induction w with
  | nil => rfl
  | cons t w ih =>
    have ih' : List.map (Token.blind ∘ Token.ws) w = List.map Token.ws w := by simpa [wsToks] using ih
    simp [wsToks, Token.blind, ih']

/-! ### first token of a printed tree is never an ignored token -/

theorem Atom.startsWs_toks (a : Atom) (r : List Token) : startsWs (a.toks.map Token.blind ++ r) = false := by
  cases a <;> simp [Atom.toks, startsWs, Token.blind]

theorem Mul.startsWs_toks : ∀ (m : Mul) (r : List Token), startsWs (m.toks.map Token.blind ++ r) = false
  | .single a, r => by simpa [Mul.toks] using a.startsWs_toks r
  | .snoc m w1 o w2 a, r => by
    simpa [Mul.toks, List.append_assoc] using Mul.startsWs_toks m _

theorem Add.startsWs_toks : ∀ (e : Add) (r : List Token), startsWs (e.toks.map Token.blind ++ r) = false
  | .single m, r => by simpa [Add.toks] using m.startsWs_toks r
  | .snoc e w1 o w2 m, r => by
    simpa [Add.toks, List.append_assoc] using Add.startsWs_toks e _

/-! ### fuel -/

mutual
def Atom.need : Atom → Nat
  | .num _ => 1
  | .paren _ e _ => e.need + e.len + 1
  | .unary _ _ a => a.need + 1
def Mul.need : Mul → Nat
  | .single a => a.need + 1
  | .snoc m _ _ _ a => m.need + a.need + 1
def Add.need : Add → Nat
  | .single m => m.need + m.len + 1
  | .snoc e _ _ _ m => e.need + m.need + m.len + 1
end

mutual
theorem Atom.need_le : ∀ a : Atom, a.need + 5 ≤ 6 * a.toks.length
  | .num _ => by simp [Atom.need, Atom.toks]
  | .paren w1 e w2 => by
    have := Add.need_le e
    simp [Atom.need, Atom.toks, List.length_append]; omega
  | .unary _ w a => by
    have := Atom.need_le a
    simp [Atom.need, Atom.toks, List.length_append]; omega
theorem Mul.need_le : ∀ m : Mul, m.need + m.len + 2 ≤ 6 * m.toks.length
  | .single a => by
    have := Atom.need_le a
    simp [Mul.need, Mul.toks, Mul.len]; omega
  | .snoc m w1 _ w2 a => by
    have := Mul.need_le m
    have := Atom.need_le a
    simp [Mul.need, Mul.toks, Mul.len, List.length_append]; omega
theorem Add.need_le : ∀ e : Add, e.need + e.len ≤ 6 * e.toks.length
  | .single m => by
    have := Mul.need_le m
    simp [Add.need, Add.toks, Add.len]; omega
  | .snoc e w1 _ w2 m => by
    have := Add.need_le e
    have := Mul.need_le m
    simp [Add.need, Add.toks, Add.len, List.length_append]; omega
end

/-! ### one turn of each loop -/

theorem parseMulRestF_stop (f : Nat) (m : Mul) (rest : List Token) (h : contMul rest = false) :
    parseMulRestF (f + 1) m rest = some (m, rest) := by
  unfold parseMulRestF
  unfold contMul at h
  split
  · rename_i heq; rw [heq] at h; simp at h
  · rfl

theorem parseAddRestF_stop (f : Nat) (e : Add) (rest : List Token) (h : contAdd rest = false) :
    parseAddRestF (f + 1) e rest = some (e, rest) := by
  unfold parseAddRestF
  unfold contAdd at h
  split
  · rename_i heq; rw [heq] at h; simp at h
  · rfl

theorem parseMulRestF_turn (f : Nat) (m : Mul) (w1 : Ws) (o : MulOp) (w2 : Ws) (a : Atom) (rest : List Token)
    (ha : parseAtomF f (a.toks.map Token.blind ++ rest) = some (a, rest)) :
    parseMulRestF (f + 1) m (wsToks w1 ++ (.mulOp o :: (wsToks w2 ++ (a.toks.map Token.blind ++ rest))))
      = parseMulRestF f (.snoc m w1 o w2 a) rest := by
  have h1 : takeWs (wsToks w1 ++ (.mulOp o :: (wsToks w2 ++ (a.toks.map Token.blind ++ rest))))
      = (w1, .mulOp o :: (wsToks w2 ++ (a.toks.map Token.blind ++ rest))) :=
    takeWs_wsToks _ _ (by simp [startsWs])
  have h2 : takeWs (wsToks w2 ++ (a.toks.map Token.blind ++ rest)) = (w2, a.toks.map Token.blind ++ rest) :=
    takeWs_wsToks _ _ (a.startsWs_toks rest)
  rw [parseMulRestF]
  simp only [h1, h2, ha]

theorem parseAddRestF_turn (f : Nat) (e : Add) (w1 : Ws) (o : Sign) (w2 : Ws) (m : Mul) (rest : List Token)
    (hm : parseMulF f (m.toks.map Token.blind ++ rest) = some (m, rest)) :
    parseAddRestF (f + 1) e (wsToks w1 ++ (.addOp o :: (wsToks w2 ++ (m.toks.map Token.blind ++ rest))))
      = parseAddRestF f (.snoc e w1 o w2 m) rest := by
  have h1 : takeWs (wsToks w1 ++ (.addOp o :: (wsToks w2 ++ (m.toks.map Token.blind ++ rest))))
      = (w1, .addOp o :: (wsToks w2 ++ (m.toks.map Token.blind ++ rest))) :=
    takeWs_wsToks _ _ (by simp [startsWs])
  have h2 : takeWs (wsToks w2 ++ (m.toks.map Token.blind ++ rest)) = (w2, m.toks.map Token.blind ++ rest) :=
    takeWs_wsToks _ _ (m.startsWs_toks rest)
  rw [parseAddRestF]
  simp only [h1, h2, hm]

theorem contMul_ws_add (w : Ws) (o : Sign) (r : List Token) : contMul (wsToks w ++ (.addOp o :: r)) = false := by
  simp [contMul, takeWs_wsToks w (.addOp o :: r) (by simp [startsWs])]

theorem contMul_ws_rparen (w : Ws) (r : List Token) : contMul (wsToks w ++ (.rparen :: r)) = false := by
  simp [contMul, takeWs_wsToks w (.rparen :: r) (by simp [startsWs])]

theorem contAdd_ws_rparen (w : Ws) (r : List Token) : contAdd (wsToks w ++ (.rparen :: r)) = false := by
  simp [contAdd, takeWs_wsToks w (.rparen :: r) (by simp [startsWs])]

/-- From the loop lemma to "a whole product is read back", given the input does not go on with a MUL_OP. -/
theorem mul_ok_of_loop (m : Mul) (rest : List Token)
    (loop : ∀ f r, m.need ≤ f → parseMulRestF f m rest = some r →
      parseMulF (f + m.len) (m.toks.map Token.blind ++ rest) = some r)
    (hc : contMul rest = false) (F : Nat) (hF : m.need + m.len ≤ F) :
    parseMulF F (m.toks.map Token.blind ++ rest) = some (m, rest) := by
  have hn : 1 ≤ m.need := by cases m <;> simp [Mul.need] <;> omega
  obtain ⟨g, hg⟩ : ∃ g, F = (g + 1) + m.len := ⟨F - m.len - 1, by omega⟩
  subst hg
  exact loop (g + 1) _ (by omega) (parseMulRestF_stop g m rest hc)

theorem add_ok_of_loop (e : Add) (rest : List Token)
    (loop : ∀ f r, e.need ≤ f → parseAddRestF f e rest = some r →
      parseAddF (f + e.len) (e.toks.map Token.blind ++ rest) = some r)
    (hc : contAdd rest = false) (F : Nat) (hF : e.need + e.len ≤ F) :
    parseAddF F (e.toks.map Token.blind ++ rest) = some (e, rest) := by
  have hn : 1 ≤ e.need := by cases e <;> simp [Add.need] <;> omega
  obtain ⟨g, hg⟩ : ∃ g, F = (g + 1) + e.len := ⟨F - e.len - 1, by omega⟩
  subst hg
  exact loop (g + 1) _ (by omega) (parseAddRestF_stop g e rest hc)

/-! ### the three mutually recursive facts -/

mutual
theorem atom_ok : ∀ (a : Atom) (rest : List Token) (F : Nat), a.need ≤ F →
    parseAtomF F (a.toks.map Token.blind ++ rest) = some (a, rest)
  | .num t, rest, F, h => by
    obtain ⟨f, rfl⟩ : ∃ f, F = f + 1 := ⟨F - 1, by simp [Atom.need] at h; omega⟩
    simp [Atom.toks, Token.blind, parseAtomF]
  | .unary s w a, rest, F, h => by
    obtain ⟨f, rfl⟩ : ∃ f, F = f + 1 := ⟨F - 1, by simp [Atom.need] at h; omega⟩
    have ih := atom_ok a rest f (by simp [Atom.need] at h; omega)
    have h2 : takeWs (wsToks w ++ (a.toks.map Token.blind ++ rest)) = (w, a.toks.map Token.blind ++ rest) :=
      takeWs_wsToks _ _ (a.startsWs_toks rest)
    simp [Atom.toks, Token.blind, parseAtomF, List.append_assoc, h2, ih]
  | .paren w1 e w2, rest, F, h => by
    obtain ⟨f, rfl⟩ : ∃ f, F = f + 1 := ⟨F - 1, by simp [Atom.need] at h; omega⟩
    have ihe := add_ok_of_loop e (wsToks w2 ++ (.rparen :: rest))
      (fun g r hg hr => add_loop e _ g r (contMul_ws_rparen w2 rest) hg hr)
      (contAdd_ws_rparen w2 rest) f (by simp [Atom.need] at h; omega)
    have h1 : takeWs (wsToks w1 ++ (e.toks.map Token.blind ++ (wsToks w2 ++ (.rparen :: rest))))
        = (w1, e.toks.map Token.blind ++ (wsToks w2 ++ (.rparen :: rest))) :=
      takeWs_wsToks _ _ (e.startsWs_toks _)
    have h2 : takeWs (wsToks w2 ++ (.rparen :: rest)) = (w2, .rparen :: rest) :=
      takeWs_wsToks _ _ (by simp [startsWs])
    simp [Atom.toks, Token.blind, parseAtomF, List.append_assoc, h1, h2, ihe]
theorem mul_loop : ∀ (m : Mul) (rest : List Token) (f : Nat) (r : Mul × List Token), m.need ≤ f →
    parseMulRestF f m rest = some r → parseMulF (f + m.len) (m.toks.map Token.blind ++ rest) = some r
  | .single a, rest, f, r, h, hr => by
    have ha := atom_ok a rest f (by simp [Mul.need] at h; omega)
    simp [Mul.toks, Mul.len, parseMulF, ha, hr]
  | .snoc m w1 o w2 a, rest, f, r, h, hr => by
    have ha := atom_ok a rest f (by simp [Mul.need] at h; omega)
    have ih := mul_loop m (wsToks w1 ++ (.mulOp o :: (wsToks w2 ++ (a.toks.map Token.blind ++ rest)))) (f + 1) r
      (by simp [Mul.need] at h; omega)
      (by rw [parseMulRestF_turn f m w1 o w2 a rest ha]; exact hr)
    have e1 : f + (m.len + 1) = f + 1 + m.len := by omega
    simpa [Mul.toks, Mul.len, Token.blind, List.append_assoc, e1] using ih
theorem add_loop : ∀ (e : Add) (rest : List Token) (f : Nat) (r : Add × List Token), contMul rest = false →
    e.need ≤ f → parseAddRestF f e rest = some r → parseAddF (f + e.len) (e.toks.map Token.blind ++ rest) = some r
  | .single m, rest, f, r, hc, h, hr => by
    have hm := mul_ok_of_loop m rest (fun g r' hg hr' => mul_loop m rest g r' hg hr') hc f
      (by simp [Add.need] at h; omega)
    simp [Add.toks, Add.len, parseAddF, hm, hr]
  | .snoc e w1 o w2 m, rest, f, r, hc, h, hr => by
    have hm := mul_ok_of_loop m rest (fun g r' hg hr' => mul_loop m rest g r' hg hr') hc f
      (by simp [Add.need] at h; omega)
    have ih := add_loop e (wsToks w1 ++ (.addOp o :: (wsToks w2 ++ (m.toks.map Token.blind ++ rest)))) (f + 1) r
      (contMul_ws_add w1 o _)
      (by simp [Add.need] at h; omega)
      (by rw [parseAddRestF_turn f e w1 o w2 m rest hm]; exact hr)
    have e1 : f + (e.len + 1) = f + 1 + e.len := by omega
    simpa [Add.toks, Add.len, Token.blind, List.append_assoc, e1] using ih
end

/-- Every printed expression followed by input that cannot extend it is read back, with that input left over. -/
theorem parseAddF_toks (e : Add) (rest : List Token) (hm : contMul rest = false) (ha : contAdd rest = false)
    (F : Nat) (hF : e.need + e.len ≤ F) :
    parseAddF F (e.toks.map Token.blind ++ rest) = some (e, rest) :=
  add_ok_of_loop e rest (fun g r hg hr => add_loop e rest g r hm hg hr) ha F hF

theorem parseAdd_toks (e : Add) : parseAdd e.toks = some (e, []) := by
  have h := parseAddF_toks e [] (by simp [contMul, takeWs]) (by simp [contAdd, takeWs])
    (6 * e.toks.length + 1) (by have := Add.need_le e; omega)
  simpa [parseAdd] using h

/-! ### soundness: a successful parse consumed exactly the printing of its tree -/

theorem takeWs_split : ∀ (l : List Token), wsToks (takeWs l).1 ++ (takeWs l).2 = l
  | [] => by simp [takeWs, wsToks]
  | .ws t :: r => by
    have := takeWs_split r
    simp [takeWs, wsToks] at this ⊢
    exact this
  | .number _ :: _ => by simp [takeWs, wsToks]
  | .addOp _ :: _ => by simp [takeWs, wsToks]
  | .mulOp _ :: _ => by simp [takeWs, wsToks]
  | .unaryOp _ :: _ => by simp [takeWs, wsToks]
  | .lparen :: _ => by simp [takeWs, wsToks]
  | .rparen :: _ => by simp [takeWs, wsToks]

/-- What the five parser functions guarantee about a successful run. -/
structure SoundAt (f : Nat) : Prop where
  atom : ∀ toks a r, parseAtomF f toks = some (a, r) → toks = a.toks.map Token.blind ++ r
  mul : ∀ toks m r, parseMulF f toks = some (m, r) → toks = m.toks.map Token.blind ++ r
  mulRest : ∀ acc toks m r, parseMulRestF f acc toks = some (m, r) →
    acc.toks.map Token.blind ++ toks = m.toks.map Token.blind ++ r
  add : ∀ toks e r, parseAddF f toks = some (e, r) → toks = e.toks.map Token.blind ++ r
  addRest : ∀ acc toks e r, parseAddRestF f acc toks = some (e, r) →
    acc.toks.map Token.blind ++ toks = e.toks.map Token.blind ++ r

theorem soundAt : ∀ f, SoundAt f
  | 0 => by
    constructor <;> intros <;> simp_all [parseAtomF, parseMulF, parseMulRestF, parseAddF, parseAddRestF]
  | f + 1 => by
    have ih := soundAt f
    constructor
    · intro toks a r h
      cases toks with
      | nil => simp [parseAtomF] at h
      | cons t rest =>
        cases t with
        | number n =>
          simp [parseAtomF] at h
          obtain ⟨rfl, rfl⟩ := h
          simp [Atom.toks, Token.blind]
        | lparen =>
          simp only [parseAtomF] at h
          have h2 := takeWs_split rest
          generalize takeWs rest = p at h h2
          obtain ⟨w1, r1⟩ := p
          simp only at h h2
          subst h2
          split at h
          · simp at h
          · rename_i e r2 he
            have h3 := takeWs_split r2
            generalize takeWs r2 = q at h h3
            obtain ⟨w2, r3⟩ := q
            simp only at h h3
            subst h3
            split at h
            · rename_i r4
              simp at h
              obtain ⟨rfl, rfl⟩ := h
              have h1 := ih.add _ _ _ he
              simp [Atom.toks, Token.blind, List.append_assoc, h1]
            · simp at h
        | addOp s =>
          simp only [parseAtomF] at h
          have h2 := takeWs_split rest
          generalize takeWs rest = p at h h2
          obtain ⟨w1, r1⟩ := p
          simp only at h h2
          subst h2
          split at h
          · simp at h
          · rename_i a' r2 ha
            simp at h
            obtain ⟨rfl, rfl⟩ := h
            have h1 := ih.atom _ _ _ ha
            simp [Atom.toks, Token.blind, List.append_assoc, h1]
        | mulOp o => simp [parseAtomF] at h
        | unaryOp s => simp [parseAtomF] at h
        | rparen => simp [parseAtomF] at h
        | ws t => simp [parseAtomF] at h
    · intro toks m r h
      simp only [parseMulF] at h
      split at h
      · simp at h
      · rename_i a r1 ha
        have h1 := ih.atom _ _ _ ha
        have h2 := ih.mulRest _ _ _ _ h
        simpa [Mul.toks, h1] using h2
    · intro acc toks m r h
      simp only [parseMulRestF] at h
      have h3 := takeWs_split toks
      generalize takeWs toks = p at h h3
      obtain ⟨w1, r1⟩ := p
      simp only at h h3
      split at h
      · rename_i o r2
        have h4 := takeWs_split r2
        generalize takeWs r2 = q at h h4
        obtain ⟨w2, r3⟩ := q
        simp only at h h4
        subst h4
        split at h
        · simp at h
        · rename_i a r4 ha
          have h1 := ih.atom _ _ _ ha
          have h2 := ih.mulRest _ _ _ _ h
          rw [← h2, ← h3]
          simp [Mul.toks, Token.blind, List.append_assoc, h1]
      · simp at h
        obtain ⟨rfl, rfl⟩ := h
        rfl
    · intro toks e r h
      simp only [parseAddF] at h
      split at h
      · simp at h
      · rename_i m r1 hm
        have h1 := ih.mul _ _ _ hm
        have h2 := ih.addRest _ _ _ _ h
        simpa [Add.toks, h1] using h2
    · intro acc toks e r h
      simp only [parseAddRestF] at h
      have h3 := takeWs_split toks
      generalize takeWs toks = p at h h3
      obtain ⟨w1, r1⟩ := p
      simp only at h h3
      split at h
      · rename_i o r2
        have h4 := takeWs_split r2
        generalize takeWs r2 = q at h h4
        obtain ⟨w2, r3⟩ := q
        simp only at h h4
        subst h4
        split at h
        · simp at h
        · rename_i m r4 hm
          have h1 := ih.mul _ _ _ hm
          have h2 := ih.addRest _ _ _ _ h
          rw [← h2, ← h3]
          simp [Add.toks, Token.blind, List.append_assoc, h1]
      · simp at h
        obtain ⟨rfl, rfl⟩ := h
        rfl

theorem parseAdd_sound (toks : List Token) (e : Add) (r : List Token) (h : parseAdd toks = some (e, r)) :
    toks.map Token.blind = e.toks.map Token.blind ++ r :=
  (soundAt _).add _ _ _ h

/-! ### evaluation of the coercions -/

theorem asMulExpr_eval {α} (A : Arith α) (e : Add) : (asMulExpr e).eval A = e.eval A := by
  cases e <;> simp [asMulExpr, wrapParen, Mul.eval, Atom.eval, Add.eval]

theorem asAtomExpr_eval {α} (A : Arith α) (e : Add) : (asAtomExpr e).eval A = e.eval A := by
  cases e with
  | snoc e w1 o w2 m => simp [asAtomExpr, wrapParen, Atom.eval]
  | single m =>
    cases m with
    | snoc m w1 o w2 a => simp [asAtomExpr, wrapParen, Atom.eval]
    | single a => simp [asAtomExpr, Add.eval, Mul.eval]

end Autobean.NumExpr
