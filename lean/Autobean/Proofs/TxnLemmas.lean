import Autobean.Model.Txn
import Autobean.Model.OptSlot
/-
Payee/narration group and the generic optional value slot.
-/
namespace Autobean.Txn

theorem apply_refines (o : Op) (t : Txn) (h : Canon t) :
    Canon (o.apply t) ∧ view (o.apply t) = Rec.set o.a (view t) := by
  obtain ⟨raw, a⟩ := o
  obtain ⟨s0, s1, s2⟩ := t
  obtain ⟨h0, h12⟩ := h
  cases raw <;> cases a <;> rename_i v <;> cases v <;> cases s1 <;> cases s2 <;>
    simp_all [Op.apply, setPayeeRaw, setPayeeV, setNarrRaw, setNarrV, payee, narration, view, Rec.set, Canon]

theorem run_agree (os : List Op) (t : Txn) (h : Canon t) :
    (runC os t).map view = runR os (view t) ∧ ∀ t' ∈ runC os t, Canon t' := by
  induction os generalizing t with
  | nil => simp [runC, runR]
  | cons o os ih =>
    obtain ⟨hc, hv⟩ := apply_refines o t h
    obtain ⟨ih1, ih2⟩ := ih (o.apply t) hc
    refine ⟨?_, ?_⟩
    · simp only [runC, runR, List.map_cons]
      rw [← hv, ih1]
    · intro t' hmem
      simp only [runC, List.mem_cons] at hmem
      rcases hmem with rfl | hmem
      · exact hc
      · exact ih2 t' hmem

theorem view_ok (t : Txn) (h : Canon t) : (view t).Ok := by
  obtain ⟨s0, s1, s2⟩ := t
  exact h.2

theorem fromParsed_canon (b c : Option S) : Canon (fromParsed none b c) := by
  cases b <;> cases c <;> simp [fromParsed, Canon]

theorem reparse (t : Txn) (h : Canon t) : parse (printed t) = some t := by
  obtain ⟨s0, s1, s2⟩ := t
  obtain ⟨h0, h12⟩ := h
  cases s0 <;> cases s1 <;> cases s2 <;> simp_all [parse, printed, fromParsed]

end Autobean.Txn

namespace Autobean.OptSlot

theorem get_set_same (m : Obj) (i : Nat) (v : Option Nat) : getV (setV i v m) i = v := by
  unfold setV getV
  cases h : m.slots i <;> cases v <;> simp

theorem get_set_other (m : Obj) (i j : Nat) (v : Option Nat) (hj : j ≠ i) : getV (setV i v m) j = getV m j := by
  unfold setV getV
  cases h : m.slots i <;> cases v <;> simp [hj]

/-- Updating a present value keeps the node (its identity); only the value changes. -/
theorem set_keeps_node (m : Obj) (i : Nat) (n : Node) (v : Nat) (h : m.slots i = some n) :
    ((setV i (some v) m).slots i).map (·.id) = some n.id := by
  simp [setV, h]

end Autobean.OptSlot
