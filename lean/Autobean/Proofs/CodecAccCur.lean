import Autobean.Proofs.CodecStr
/-! Lemmas for C12: ACCOUNT and CURRENCY lexemes followed by a rest that cannot extend them. -/
set_option linter.unusedSimpArgs false
namespace Autobean.Codec

/-! ### generic list helpers -/

theorem stops_dropWhile_append (p : Char → Bool) (s rest : Text) (hr : Stops p rest) :
    Stops p (s.dropWhile p ++ rest) := by
  rcases dropWhile_stops p s with h | ⟨c, r, h, hc⟩
  · rw [h]; simpa using hr
  · rw [h]; exact Or.inr ⟨c, r ++ rest, by simp, hc⟩

theorem takeWhile_eq_self_of_dropWhile_nil (p : Char → Bool) (s : Text) (h : s.dropWhile p = []) :
    ∀ c ∈ s, p c = true := by
  induction s with
  | nil => simp
  | cons x s ih =>
    by_cases hx : p x = true
    · simp only [List.dropWhile_cons, hx, if_true] at h
      intro c hc
      rcases List.mem_cons.mp hc with rfl | hc
      · exact hx
      · exact ih h c hc
    · simp [List.dropWhile_cons, hx] at h

theorem takeWhile_append_all (p : Char → Bool) (a b : Text) (ha : ∀ c ∈ a, p c = true) :
    (a ++ b).takeWhile p = a ++ b.takeWhile p := by
  induction a with
  | nil => simp
  | cons x a ih =>
    have hx : p x = true := ha x (by simp)
    simp [List.takeWhile_cons, hx, ih (fun c hc => ha c (by simp [hc]))]

theorem dropWhile_append_all (p : Char → Bool) (a b : Text) (ha : ∀ c ∈ a, p c = true) :
    (a ++ b).dropWhile p = b.dropWhile p := by
  induction a with
  | nil => simp
  | cons x a ih =>
    have hx : p x = true := ha x (by simp)
    simp [List.dropWhile_cons, hx, ih (fun c hc => ha c (by simp [hc]))]

theorem takeWhile_self_of_all (p : Char → Bool) (a : Text) (ha : ∀ c ∈ a, p c = true) :
    a.takeWhile p = a := by
  have := takeWhile_append_all p a [] ha
  simpa using this

/-! ### ACCOUNT -/

/-- `rest` cannot extend an ACCOUNT lexeme: it is empty, or its first character is outside the account-name
class `[A-Za-z0-9-]|non-ASCII` and, if that character is `:`, what follows the `:` does not start a name
(`[A-Z0-9]|non-ASCII`).  This is the exact condition: in every other case the greedy terminal takes more. -/
def StopAccount (rest : Text) : Prop :=
  rest = [] ∨ ∃ c r, rest = c :: r ∧ isAccChar c = false ∧ (c = ':' → Stops isAccNameStart r)

theorem StopAccount.stops {rest : Text} (h : StopAccount rest) : Stops isAccChar rest := by
  rcases h with rfl | ⟨c, r, rfl, hc, _⟩
  · exact Or.inl rfl
  · exact Or.inr ⟨c, r, rfl, hc⟩

/-- On a non-extending rest `(":" NAME)*` takes nothing, whatever the fuel. -/
theorem lexAccMore_stop (f : Nat) (rest : Text) (hr : StopAccount rest) : lexAccMore f rest = ([], rest) := by
  cases f with
  | zero => rfl
  | succ f =>
    rcases hr with rfl | ⟨c, r, rfl, _, hcolon⟩
    · rfl
    · cases r with
      | nil => rfl
      | cons d r' =>
        have hcond : ¬ (c = ':' ∧ isAccNameStart d = true) := by
          rintro ⟨hc, hd⟩
          rcases hcolon hc with h | ⟨c', r'', h, hc'⟩
          · cases h
          · simp only [List.cons.injEq] at h
            obtain ⟨rfl, _⟩ := h
            rw [hd] at hc'; cases hc'
        simp only [lexAccMore, hcond, if_false]

/-- If `(":" NAME)*` with fuel `f` consumes the whole of `s`, then with any fuel `f' ≥ f` it consumes exactly `s` out of
`s ++ rest` for a non-extending `rest`. -/
theorem lexAccMore_append (rest : Text) (hr : StopAccount rest) : ∀ (f : Nat) (s : Text),
    (lexAccMore f s).2 = [] → ∀ f', f ≤ f' → lexAccMore f' (s ++ rest) = ((lexAccMore f s).1, rest) := by
  intro f
  induction f with
  | zero =>
    intro s h f' _
    simp only [lexAccMore] at h
    subst h
    simpa [lexAccMore] using lexAccMore_stop f' rest hr
  | succ f ih =>
    intro s h f' hf'
    obtain ⟨f'', rfl⟩ : ∃ f'', f' = f'' + 1 := ⟨f' - 1, by omega⟩
    match s, h with
    | [], _ => simpa [lexAccMore] using lexAccMore_stop (f'' + 1) rest hr
    | [c], h => simp [lexAccMore] at h
    | c :: d :: r, h =>
      by_cases hcond : c = ':' ∧ isAccNameStart d = true
      · simp only [lexAccMore, hcond, and_self, if_true] at h ⊢
        have hsplit : r = r.takeWhile isAccChar ++ r.dropWhile isAccChar := (List.takeWhile_append_dropWhile).symm
        have hst : Stops isAccChar (r.dropWhile isAccChar ++ rest) := stops_dropWhile_append _ _ _ hr.stops
        have e : r ++ rest = r.takeWhile isAccChar ++ (r.dropWhile isAccChar ++ rest) := by
          rw [← List.append_assoc, ← hsplit]
        have htk : (r ++ rest).takeWhile isAccChar = r.takeWhile isAccChar := by
          rw [e]; exact takeWhile_append_stop _ _ _ (all_takeWhile _ _) hst
        have hdr : (r ++ rest).dropWhile isAccChar = r.dropWhile isAccChar ++ rest := by
          rw [e]; exact dropWhile_append_stop _ _ _ (all_takeWhile _ _) hst
        simp only [List.cons_append, lexAccMore, hcond, and_self, if_true]
        rw [htk, hdr, ih _ h f'' (by omega)]
      · simp only [lexAccMore, hcond, if_false] at h
        cases h

theorem lexAccount_append (v rest : Text) (h : lexAccount v = some (v, [])) (hr : StopAccount rest) :
    lexAccount (v ++ rest) = some (v, rest) := by
  cases v with
  | nil => simp [lexAccount] at h
  | cons c s =>
    simp only [lexAccount] at h
    by_cases hc : isAccTypeStart c = true
    · simp only [hc, if_true] at h
      have hsplit : s = s.takeWhile isAccChar ++ s.dropWhile isAccChar := (List.takeWhile_append_dropWhile).symm
      have hst : Stops isAccChar (s.dropWhile isAccChar ++ rest) := stops_dropWhile_append _ _ _ hr.stops
      have e : s ++ rest = s.takeWhile isAccChar ++ (s.dropWhile isAccChar ++ rest) := by
        rw [← List.append_assoc, ← hsplit]
      have htk : (s ++ rest).takeWhile isAccChar = s.takeWhile isAccChar := by
        rw [e]; exact takeWhile_append_stop _ _ _ (all_takeWhile _ _) hst
      have hdr : (s ++ rest).dropWhile isAccChar = s.dropWhile isAccChar ++ rest := by
        rw [e]; exact dropWhile_append_stop _ _ _ (all_takeWhile _ _) hst
      generalize hM : lexAccMore (s.dropWhile isAccChar).length (s.dropWhile isAccChar) = M at h
      cases hM1 : M.1 with
      | nil => rw [hM1] at h; cases h
      | cons m ms =>
        rw [hM1] at h
        simp only [Option.some.injEq, Prod.mk.injEq] at h
        obtain ⟨hv, hM2⟩ := h
        have happ := lexAccMore_append rest hr _ _ (by rw [hM]; exact hM2)
          ((s.dropWhile isAccChar ++ rest).length) (by simp)
        rw [hM, hM1] at happ
        simp only [List.cons_append, lexAccount, hc, if_true]
        rw [htk, hdr, happ]
        simp only [Option.some.injEq, Prod.mk.injEq, and_true]
        exact hv
    · simp [hc] at h

/-! ### CURRENCY -/

/-- `rest` cannot extend a CURRENCY lexeme: the run of `_CURRENCY_BODY` characters `[A-Z0-9'._-]` at its start contains no
`[A-Z0-9]` (the terminal is greedy over the body class and then backtracks to the last `[A-Z0-9]`, so any such character
inside the run would be taken).  In particular any `rest` whose first character is outside the body class. -/
def StopCurrency (rest : Text) : Prop := ∀ c ∈ rest.takeWhile isCurBody, isCurEnd c = false

instance (rest : Text) : Decidable (StopCurrency rest) := by unfold StopCurrency; exact inferInstance

theorem StopCurrency.of_stops {rest : Text} (h : Stops isCurBody rest) : StopCurrency rest := by
  rcases h with rfl | ⟨c, r, rfl, hc⟩
  · intro c hc; simp at hc
  · intro c' hc'; simp [List.takeWhile_cons, hc] at hc'

theorem longestEnding_none_of_all (p : Char → Bool) (x : Text) (hx : ∀ c ∈ x, p c = false) :
    longestEnding p x = none := by
  induction x with
  | nil => rfl
  | cons c x ih =>
    simp only [longestEnding, ih (fun d hd => hx d (by simp [hd])), hx c (by simp)]
    simp

theorem longestEnding_append (p : Char → Bool) (a x : Text) (hx : ∀ c ∈ x, p c = false) :
    longestEnding p (a ++ x) = (longestEnding p a).map fun lr => (lr.1, lr.2 ++ x) := by
  induction a with
  | nil => simpa [longestEnding] using longestEnding_none_of_all p x hx
  | cons c a ih =>
    simp only [List.cons_append, longestEnding, ih]
    cases h : longestEnding p a with
    | some lr => simp
    | none =>
      simp only [Option.map_none]
      by_cases hc : p c = true <;> simp [hc]

theorem isUpper_isCurEnd (c : Char) (h : isCurEnd c = false) : isUpper c = false := by
  simp only [isCurEnd, Bool.or_eq_false_iff] at h
  exact h.1

theorem lexCurrency_append (v rest : Text) (h : lexCurrency v = some (v, [])) (hr : StopCurrency rest) :
    lexCurrency (v ++ rest) = some (v, rest) := by
  cases v with
  | nil => simp [lexCurrency] at h
  | cons c s =>
    -- the remainder of every accepting branch is `_ ++ s.dropWhile isCurBody`, so the whole of `s` is a body run
    have hbody : s.dropWhile isCurBody = [] := by
      simp only [lexCurrency] at h
      split at h
      · split at h
        · cases h
        · split at h <;>
          · simp only [Option.some.injEq, Prod.mk.injEq, List.append_eq_nil_iff] at h
            exact h.2.2
      · split at h
        · split at h
          · cases h
          · simp only [Option.some.injEq, Prod.mk.injEq, List.append_eq_nil_iff] at h
            exact h.2.2
        · cases h
    have hall := takeWhile_eq_self_of_dropWhile_nil _ _ hbody
    have htk0 : s.takeWhile isCurBody = s := takeWhile_self_of_all _ _ hall
    have htk : (s ++ rest).takeWhile isCurBody = s ++ rest.takeWhile isCurBody := takeWhile_append_all _ _ _ hall
    have hdr : (s ++ rest).dropWhile isCurBody = rest.dropWhile isCurBody := dropWhile_append_all _ _ _ hall
    have hrest : rest.takeWhile isCurBody ++ rest.dropWhile isCurBody = rest := List.takeWhile_append_dropWhile
    have hrU : ∀ c ∈ rest.takeWhile isCurBody, isUpper c = false := fun c hc => isUpper_isCurEnd c (hr c hc)
    simp only [lexCurrency, htk0, hbody, List.append_nil] at h
    simp only [List.cons_append, lexCurrency, htk, hdr]
    by_cases hs : c = '/'
    · simp only [hs, if_true] at h ⊢
      rw [longestEnding_append _ _ _ hrU]
      cases h1 : longestEnding isUpper s with
      | none => rw [h1] at h; cases h
      | some lr1 =>
        obtain ⟨l1, r1⟩ := lr1
        rw [h1] at h
        simp only [Option.map_some] at h ⊢
        rw [longestEnding_append _ _ _ hr]
        cases h2 : longestEnding isCurEnd r1 with
        | none =>
          rw [h2] at h
          simp only [Option.some.injEq, Prod.mk.injEq, List.cons.injEq, true_and] at h
          obtain ⟨hl, hr1⟩ := h
          subst hr1
          simp only [Option.map_none, Option.some.injEq, Prod.mk.injEq, List.cons.injEq, true_and, List.nil_append]
          exact ⟨hl, hrest⟩
        | some lr2 =>
          obtain ⟨l2, r2⟩ := lr2
          rw [h2] at h
          simp only [List.cons_append, Option.some.injEq, Prod.mk.injEq, List.cons.injEq, true_and] at h
          obtain ⟨hl, hr2⟩ := h
          subst hr2
          simp only [List.cons_append, Option.map_some, Option.some.injEq, Prod.mk.injEq, List.cons.injEq, true_and,
            List.nil_append]
          exact ⟨hl, hrest⟩
    · simp only [hs, if_false] at h ⊢
      by_cases hu : isUpper c = true
      · simp only [hu, if_true] at h ⊢
        rw [longestEnding_append _ _ _ hr]
        cases h1 : longestEnding isCurEnd s with
        | none => rw [h1] at h; cases h
        | some lr1 =>
          obtain ⟨l1, r1⟩ := lr1
          rw [h1] at h
          simp only [Option.some.injEq, Prod.mk.injEq, List.cons.injEq, true_and] at h
          obtain ⟨hl, hr1⟩ := h
          subst hr1
          simp only [Option.map_some, Option.some.injEq, Prod.mk.injEq, List.cons.injEq, true_and, List.nil_append]
          exact ⟨hl, hrest⟩
      · simp [hu] at h

end Autobean.Codec
