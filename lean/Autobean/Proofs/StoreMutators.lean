/-
The public mutators (`splice`, `insert_after`, `insert_before`, `replace`, `remove`) addressed by
token identity, reduced to `spliceCore` on positions, and the refusal of foreign tokens.
-/
import Autobean.Proofs.StoreAt

set_option linter.unusedSimpArgs false
set_option linter.unusedVariables false

namespace Autobean

/-! ### Block positions versus flat indexes -/

theorem prefix_succ (bs : List Block) {p : Nat} (hp : p < bs.length) :
    ((bs.take (p + 1)).map (·.toks.length)).sum = ((bs.take p).map (·.toks.length)).sum + (bs[p]).toks.length := by
  rw [List.take_add_one, List.getElem?_eq_getElem hp]
  simp only [Option.toList, List.map_append, List.map_cons, List.map_nil, List.sum_append, List.sum_cons,
    List.sum_nil, Nat.add_zero]

theorem prefix_mono (bs : List Block) {a b : Nat} (h : a ≤ b) :
    ((bs.take a).map (·.toks.length)).sum ≤ ((bs.take b).map (·.toks.length)).sum := by
  obtain ⟨d, rfl⟩ := Nat.exists_eq_add_of_le h
  rw [List.take_add]
  simp only [List.map_append, List.sum_append]
  omega

/-- Flat order of two token positions implies lexicographic order of the positions. -/
theorem lex_of_flat {bs : List Block} {p j p' j' : Nat} (hp' : p' < bs.length)
    (hj' : j' < (bs[p']).toks.length) (h : flatIdx bs p j ≤ flatIdx bs p' j') :
    p < p' ∨ (p = p' ∧ j ≤ j') := by
  rcases Nat.lt_trichotomy p p' with h1 | h1 | h1
  · exact Or.inl h1
  · subst h1; right; simp only [flatIdx] at h; exact ⟨rfl, by omega⟩
  · exfalso
    have m := prefix_mono bs (a := p' + 1) (b := p) (by omega)
    rw [prefix_succ bs hp'] at m
    simp only [flatIdx] at h
    omega

/-- `(p, k)` is a valid splice position of `s` with flat index `i`. -/
structure VPos (s : Store) (p k i : Nat) : Prop where
  lt : p < s.blocks.length
  le : k ≤ (s.blocks[p]'lt).toks.length
  flat : flatIdx s.blocks p k = i

theorem vpos_zero {s : Store} (hinv : Inv s) : VPos s 0 0 0 where
  lt := by
    have := hinv.binv.nonempty
    exact List.length_pos_iff.2 this
  le := Nat.zero_le _
  flat := by simp [flatIdx]

theorem At.vpos {s : Store} {id : Nat} {L R : List Block} {b : Block} {A B : List Tok} {t : Tok}
    (h : At s id L b R A t B) (hinv : Inv s) : VPos s L.length A.length (s.ids.idxOf id) where
  lt := h.lt_blocks
  le := by rw [h.getElem_blocks, h.toks]; simp
  flat := by rw [h.flatIdx_eq hinv, h.idxOf hinv]

theorem At.vpos_succ {s : Store} {id : Nat} {L R : List Block} {b : Block} {A B : List Tok} {t : Tok}
    (h : At s id L b R A t B) (hinv : Inv s) : VPos s L.length (A.length + 1) (s.ids.idxOf id + 1) where
  lt := h.lt_blocks
  le := by rw [h.getElem_blocks, h.toks]; simp
  flat := by rw [h.flatIdx_eq hinv, h.idxOf hinv]; omega

/-- `spliceCore` between two valid positions in lexicographic order. -/
theorem spliceCore_vpos {c : LF} (hc : c.WF) {s : Store} (hinv : Inv s) {si sj ei ej i j : Nat}
    (hs : VPos s si sj i) (he : VPos s ei ej j) (hle : si < ei ∨ (si = ei ∧ sj ≤ ej))
    {ts : List Tok} (hf : Fresh s ts) :
    ∃ out, spliceCore c s ts (si, sj) (ei, ej) = .ok out ∧ Inv out.store ∧ out.store.sid = s.sid ∧
      out.store.toList.map Tok.strip = (s.toList.take i ++ ts ++ s.toList.drop j).map Tok.strip ∧
      out.removed = ((s.toList.drop i).take (j - i)).map Tok.strip ∧ i ≤ j ∧ j ≤ s.toList.length := by
  obtain ⟨out, h1, h2, h3, h4, h5, h6, h7⟩ := spliceCore_inv hc hinv hs.lt he.lt hs.le he.le hle hf
  rw [hs.flat, he.flat] at h4 h5 h6
  rw [he.flat] at h7
  exact ⟨out, h1, h2, h3, h4, h5, h6, h7⟩

/-! ### The plain-list reading of the arguments -/

/-- List index denoted by the `ref` argument: `None` is the front. -/
def refIdx (ids : List Nat) : Option Nat → Nat
  | none => 0
  | some r => ids.idxOf r

/-- Exclusive end index denoted by the `del_end` argument: `None` deletes nothing. -/
def endIdx (ids : List Nat) (i : Nat) : Option Nat → Nat
  | none => i
  | some e => ids.idxOf e + 1

/-- Insertion index of `insert_after`: `None` is the front. -/
def afterIdx (ids : List Nat) : Option Nat → Nat
  | none => 0
  | some r => ids.idxOf r + 1

/-- What a successful splice between flat indexes `i ≤ j` looks like. -/
structure SpliceSpec (s : Store) (ts : List Tok) (i j : Nat) (out : SpliceOut) : Prop where
  inv : Inv out.store
  sid : out.store.sid = s.sid
  toks : out.store.toList.map Tok.strip = (s.toList.take i ++ ts ++ s.toList.drop j).map Tok.strip
  removed : out.removed = ((s.toList.drop i).take (j - i)).map Tok.strip
  le : i ≤ j
  bound : j ≤ s.toList.length

theorem SpliceSpec.cores {s : Store} {ts : List Tok} {i j : Nat} {out : SpliceOut} (h : SpliceSpec s ts i j out) :
    out.store.cores = s.cores.take i ++ ts.map Tok.core ++ s.cores.drop j := by
  have := map_core_of_strip h.toks
  simpa [Store.cores, List.map_take, List.map_drop] using this

theorem SpliceSpec.removed_cores {s : Store} {ts : List Tok} {i j : Nat} {out : SpliceOut} (h : SpliceSpec s ts i j out) :
    out.removed.map Tok.core = (s.cores.drop i).take (j - i) := by
  rw [h.removed]
  simp [Store.cores, List.map_take, List.map_drop, List.map_map, Function.comp_def]

theorem SpliceSpec.removed_detached {s : Store} {ts : List Tok} {i j : Nat} {out : SpliceOut} (h : SpliceSpec s ts i j out) :
    ∀ t ∈ out.removed, t.h = none := by
  rw [h.removed]
  intro t ht
  obtain ⟨x, _, rfl⟩ := List.mem_map.1 ht
  rfl

theorem SpliceSpec.ids {s : Store} {ts : List Tok} {i j : Nat} {out : SpliceOut} (h : SpliceSpec s ts i j out) :
    out.store.ids = s.ids.take i ++ ts.map (·.id) ++ s.ids.drop j := by
  have := map_id_of_strip h.toks
  simpa [Store.ids, List.map_take, List.map_drop] using this

theorem spliceSpec_of_vpos {c : LF} (hc : c.WF) {s : Store} (hinv : Inv s) {si sj ei ej i j : Nat}
    (hs : VPos s si sj i) (he : VPos s ei ej j) (hle : si < ei ∨ (si = ei ∧ sj ≤ ej))
    {ts : List Tok} (hf : Fresh s ts) :
    ∃ out, spliceCore c s ts (si, sj) (ei, ej) = .ok out ∧ SpliceSpec s ts i j out := by
  obtain ⟨out, h1, h2, h3, h4, h5, h6, h7⟩ := spliceCore_vpos hc hinv hs he hle hf
  exact ⟨out, h1, ⟨h2, h3, h4, h5, h6, h7⟩⟩

/-! ### `splice`, `insert_after`, `insert_before`, `replace`, `remove` -/

/-- `splice(tokens, ref, del_end)` is the slice assignment `l[i:j] = tokens` with `i` the index of
`ref` (0 for `None`) and `j` one past the index of `del_end` (`i` for `None`). -/
theorem splice_spec {c : LF} (hc : c.WF) {s : Store} (hinv : Inv s) {ts : List Tok} (hf : Fresh s ts)
    {ref delEnd : Option Nat}
    (href : ∀ r, ref = some r → r ∈ s.ids) (hend : ∀ e, delEnd = some e → e ∈ s.ids)
    (hord : ∀ r e, ref = some r → delEnd = some e → s.ids.idxOf r ≤ s.ids.idxOf e) :
    ∃ out, s.splice c ts ref delEnd = .ok out ∧
      SpliceSpec s ts (refIdx s.ids ref) (endIdx s.ids (refIdx s.ids ref) delEnd) out := by
  unfold Store.splice
  cases ref with
  | none =>
    cases delEnd with
    | none =>
      simp only [bind, Except.bind, pure, Except.pure, refIdx, endIdx]
      exact spliceSpec_of_vpos hc hinv (vpos_zero hinv) (vpos_zero hinv) (Or.inr ⟨rfl, Nat.le_refl _⟩) hf
    | some e =>
      obtain ⟨L, b, R, A, t, B, hat⟩ := exists_at (hend e rfl)
      simp only [bind, Except.bind, pure, Except.pure, refIdx, endIdx, hat.handlePos_eq hinv]
      refine spliceSpec_of_vpos hc hinv (vpos_zero hinv) (hat.vpos_succ hinv) ?_ hf
      rcases Nat.eq_zero_or_pos L.length with h0 | h0
      · exact Or.inr ⟨h0.symm, Nat.zero_le _⟩
      · exact Or.inl h0
  | some r =>
    obtain ⟨L, b, R, A, t, B, hat⟩ := exists_at (href r rfl)
    cases delEnd with
    | none =>
      simp only [bind, Except.bind, pure, Except.pure, refIdx, endIdx, hat.handlePos_eq hinv]
      exact spliceSpec_of_vpos hc hinv (hat.vpos hinv) (hat.vpos hinv) (Or.inr ⟨rfl, Nat.le_refl _⟩) hf
    | some e =>
      obtain ⟨L', b', R', A', t', B', hat'⟩ := exists_at (hend e rfl)
      simp only [bind, Except.bind, pure, Except.pure, refIdx, endIdx, hat.handlePos_eq hinv,
        hat'.handlePos_eq hinv]
      refine spliceSpec_of_vpos hc hinv (hat.vpos hinv) (hat'.vpos_succ hinv) ?_ hf
      have hle := hord r e rfl rfl
      rw [← (hat.vpos hinv).flat, ← (hat'.vpos hinv).flat] at hle
      have := lex_of_flat hat'.lt_blocks (by rw [hat'.getElem_blocks, hat'.toks]; simp) hle
      rcases this with h1 | ⟨h1, h2⟩
      · exact Or.inl h1
      · exact Or.inr ⟨h1, by omega⟩

/-- `insert_after(ref, tokens)` inserts at index `idx(ref) + 1` (at the front for `None`). -/
theorem insertAfter_spec {c : LF} (hc : c.WF) {s : Store} (hinv : Inv s) {ts : List Tok} (hf : Fresh s ts)
    {ref : Option Nat} (href : ∀ r, ref = some r → r ∈ s.ids) :
    ∃ out, s.insertAfter c ref ts = .ok out ∧
      SpliceSpec s ts (afterIdx s.ids ref) (afterIdx s.ids ref) out := by
  unfold Store.insertAfter
  cases ref with
  | none =>
    simp only [bind, Except.bind, pure, Except.pure, afterIdx]
    exact spliceSpec_of_vpos hc hinv (vpos_zero hinv) (vpos_zero hinv) (Or.inr ⟨rfl, Nat.le_refl _⟩) hf
  | some r =>
    obtain ⟨L, b, R, A, t, B, hat⟩ := exists_at (href r rfl)
    simp only [bind, Except.bind, pure, Except.pure, afterIdx, hat.handlePos_eq hinv]
    exact spliceSpec_of_vpos hc hinv (hat.vpos_succ hinv) (hat.vpos_succ hinv) (Or.inr ⟨rfl, Nat.le_refl _⟩) hf

/-- `insert_before(ref, tokens)` inserts at the index of `ref` (at the front for `None`). -/
theorem insertBefore_spec {c : LF} (hc : c.WF) {s : Store} (hinv : Inv s) {ts : List Tok} (hf : Fresh s ts)
    {ref : Option Nat} (href : ∀ r, ref = some r → r ∈ s.ids) :
    ∃ out, s.insertBefore c ref ts = .ok out ∧
      SpliceSpec s ts (refIdx s.ids ref) (refIdx s.ids ref) out := by
  unfold Store.insertBefore
  exact splice_spec hc hinv hf href (by intro e h; cases h) (by intro r e _ h; cases h)

/-- `replace(token, repl)` is `l[k:k+1] = [repl]`. -/
theorem replace_spec {c : LF} (hc : c.WF) {s : Store} (hinv : Inv s) {tok : Nat} {repl : Tok}
    (hf : Fresh s [repl]) (htok : tok ∈ s.ids) :
    ∃ out, s.replace c tok repl = .ok out ∧
      SpliceSpec s [repl] (s.ids.idxOf tok) (s.ids.idxOf tok + 1) out := by
  unfold Store.replace
  exact splice_spec (ref := some tok) (delEnd := some tok) hc hinv hf
    (by intro r h; cases h; exact htok) (by intro r h; cases h; exact htok)
    (by intro r e h1 h2; cases h1; cases h2; exact Nat.le_refl _)

/-- `remove(start, end)` is `del l[k1:k2+1]` (`end` defaults to `start`). -/
theorem remove_spec {c : LF} (hc : c.WF) {s : Store} (hinv : Inv s) {start : Nat} {stop : Option Nat}
    (hstart : start ∈ s.ids) (hstop : stop.getD start ∈ s.ids)
    (hord : s.ids.idxOf start ≤ s.ids.idxOf (stop.getD start)) :
    ∃ out, s.remove c start stop = .ok out ∧
      SpliceSpec s [] (s.ids.idxOf start) (s.ids.idxOf (stop.getD start) + 1) out := by
  unfold Store.remove
  have hf : Fresh s [] := ⟨⟨by simp, by simp, by simp⟩, by simp⟩
  exact splice_spec (ref := some start) (delEnd := some (stop.getD start)) hc hinv hf
    (by intro r h; cases h; exact hstart) (by intro r h; cases h; exact hstop)
    (by intro r e h1 h2; cases h1; cases h2; exact hord)

/-! ### Foreign tokens are refused -/

theorem accept_loop_foreign (s : Store) (start stop : Nat × Nat) (ts : List Tok)
    (hall : ∀ t ∈ ts, t.h = none ∨ ∃ hd, t.h = some hd ∧ hd.sid ≠ s.sid)
    (hex : ∃ t ∈ ts, ∃ hd, t.h = some hd ∧ hd.sid ≠ s.sid) :
    (forIn ts PUnit.unit (fun t (_ : PUnit) => (do
          let r ← spliceAccepts s start stop t
          if (!r) = true then do
              throw "ValueError:already-in-store"
              pure (ForInStep.yield PUnit.unit)
            else pure (ForInStep.yield PUnit.unit) : R (ForInStep PUnit)))) =
      .error "ValueError:already-in-store" := by
  induction ts with
  | nil => simp at hex
  | cons t ts ih =>
    simp only [List.mem_cons, forall_eq_or_imp] at hall
    rw [List.forIn_cons]
    rcases hall.1 with hn | ⟨hd, hh, hne⟩
    · simp only [spliceAccepts, hn]
      simp only [pure_bind, Bool.not_true, Bool.false_eq_true, if_false]
      apply ih hall.2
      obtain ⟨x, hx, hd, hh, hne⟩ := hex
      simp only [List.mem_cons] at hx
      rcases hx with rfl | hx
      · rw [hn] at hh; cases hh
      · exact ⟨x, hx, hd, hh, hne⟩
    · simp only [spliceAccepts, hh, hne, ne_eq, not_false_eq_true, if_true]
      rfl

/-- A token that carries a handle of another store makes `_splice` raise before anything is
touched (the model is pure, so the store is unchanged). -/
theorem spliceCore_foreign (c : LF) (s : Store) (ts : List Tok) (start stop : Nat × Nat)
    (hall : ∀ t ∈ ts, t.h = none ∨ ∃ hd, t.h = some hd ∧ hd.sid ≠ s.sid)
    (hex : ∃ t ∈ ts, ∃ hd, t.h = some hd ∧ hd.sid ≠ s.sid) :
    spliceCore c s ts start stop = .error "ValueError:already-in-store" := by
  obtain ⟨si, sj⟩ := start
  obtain ⟨ei, ej⟩ := stop
  unfold spliceCore
  simp only []
  rw [accept_loop_foreign s _ _ ts hall hex]
  rfl

end Autobean
