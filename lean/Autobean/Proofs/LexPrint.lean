/-
Lemmas about the built tree (`leaves`, `subs`, `adjust`), about whole-run consequences of the builder
specification, and about `printModel` on a store whose ids are its positions.
-/
import Autobean.Proofs.LexBuild

namespace Autobean.Lex

/-! ### whole run -/

/-- Everything the raw build guarantees under A2. -/
theorem buildRaw_spec {toks : List LTok} {t : PTree} {store : List STok} {m : MTree}
    (h : buildRaw toks t = .ok (store, m)) (hA2 : LeavesIncreasing toks t) :
    visS store = vis toks ∧ store.map (·.id) = List.range' 0 store.length ∧
      m.leaves.Sublist (store.map (·.id)) := by
  unfold buildRaw at h
  split at h
  · rename_i r cs
    unfold buildTree at h
    simp only at h
    split at h
    · rename_i o c m' h1
      simp only [Except.ok.injEq, Prod.mk.injEq] at h
      obtain ⟨rfl, rfl⟩ := h
      split at h1
      · rename_i o' c'' fs h2
        simp only [Except.ok.injEq, Prod.mk.injEq] at h1
        obtain ⟨rfl, rfl, rfl⟩ := h1
        unfold LeavesIncreasing at hA2
        rw [events] at hA2
        cases hr : cursorRun toks (eventsC cs) 0 with
        | none => rw [hr] at hA2; cases hA2
        | some cf =>
          obtain ⟨rfl, s⟩ := buildChildren_spec toks cs 0 0 _ _ _ cf h2 (Nat.zero_le _) hr
          refine ⟨?_, ?_, ?_⟩
          · rw [visS_append, s.once, gap_visS, ← vis_append, slice_append toks s.le s.len, slice_all]
          · rw [List.map_append, s.ids, gap_ids, List.length_append]
            have := List.range'_append_1 (s := 0) (m := o'.length) (n := (gap toks cf toks.length o'.length).length)
            simpa using this
          · rw [List.map_append, MTree.leaves]
            exact s.sub.trans (List.sublist_append_left _ _)
      · cases h1
    · cases h
  · cases h

/-! ### leaves of sub-models, `adjust` -/

mutual
theorem subs_leaves_sublist : ∀ (m m' : MTree), m' ∈ m.subs → m'.leaves.Sublist m.leaves
  | .tok i, m', h => by
    simp only [MTree.subs, List.mem_singleton] at h; subst h; exact List.Sublist.refl _
  | .absent, m', h => by simp [MTree.subs] at h
  | .rep ph items, m', h => by
    simp only [MTree.subs, List.mem_cons] at h
    rcases h with rfl | h
    · exact List.Sublist.refl _
    · rw [MTree.leaves]; exact (subsL_leaves_sublist items m' h).trans (List.sublist_cons_self _ _)
  | .node r fs, m', h => by
    simp only [MTree.subs, List.mem_cons] at h
    rcases h with rfl | h
    · exact List.Sublist.refl _
    · rw [MTree.leaves]; exact subsL_leaves_sublist fs m' h
theorem subsL_leaves_sublist : ∀ (ms : List MTree) (m' : MTree), m' ∈ subsL ms → m'.leaves.Sublist (leavesL ms)
  | [], m', h => by simp [subsL] at h
  | m :: ms, m', h => by
    simp only [subsL, List.mem_append] at h
    rw [leavesL]
    rcases h with h | h
    · exact (subs_leaves_sublist m m' h).trans (List.sublist_append_left _ _)
    · exact (subsL_leaves_sublist ms m' h).trans (List.sublist_append_right _ _)
end

theorem isAbsent_leaves {m : MTree} (h : m.isAbsent = true) : m.leaves = [] := by
  cases m <;> simp_all [MTree.isAbsent, MTree.leaves]

theorem isAbsent_adjust (m : MTree) : m.adjust.isAbsent = m.isAbsent := by
  cases m <;> simp [MTree.adjust, MTree.isAbsent]

theorem slot3Absent_adjustL (fs : List MTree) : slot3Absent (adjustL fs) = slot3Absent fs := by
  match fs with
  | [] => rfl
  | [_] => rfl
  | [_, _] => rfl
  | [_, _, _] => rfl
  | _ :: _ :: _ :: s0 :: _ => simp [adjustL, slot3Absent, isAbsent_adjust]

theorem txnSwap_leaves {l : List MTree} (h : slot3Absent l = true) :
    leavesL (txnSwap l) = leavesL l := by
  unfold txnSwap
  split
  · rename_i lc d f s0 s1 s2 args
    have h0 := isAbsent_leaves (show s0.isAbsent = true from h)
    split
    · rename_i hc
      simp only [Bool.and_eq_true] at hc
      have h2 := isAbsent_leaves hc.2
      simp [leavesL, h0, h2]
    · rfl
  · rfl

mutual
theorem adjust_leaves : ∀ (m : MTree), m.txnOk = true → m.adjust.leaves = m.leaves
  | .tok i, _ => by simp [MTree.adjust]
  | .absent, _ => by simp [MTree.adjust]
  | .rep ph items, h => by
    rw [MTree.txnOk] at h
    simp [MTree.adjust, MTree.leaves, adjustL_leaves items h]
  | .node r fs, h => by
    rw [MTree.txnOk, Bool.and_eq_true, Bool.or_eq_true] at h
    rw [MTree.adjust, MTree.leaves, MTree.leaves, ← adjustL_leaves fs h.2]
    unfold fromParsedChildren
    split
    · rename_i hr
      apply txnSwap_leaves
      rw [slot3Absent_adjustL]
      rcases h.1 with h1 | h1
      · simp_all
      · exact h1
    · rfl
theorem adjustL_leaves : ∀ (ms : List MTree), txnOkL ms = true → leavesL (adjustL ms) = leavesL ms
  | [], _ => by simp [adjustL]
  | m :: ms, h => by
    rw [txnOkL, Bool.and_eq_true] at h
    rw [adjustL, leavesL, leavesL, adjust_leaves m h.1, adjustL_leaves ms h.2]
end

theorem isFile_adjust (m : MTree) : m.adjust.isFile = m.isFile := by
  cases m <;> simp [MTree.adjust, MTree.isFile]

/-! ### printing on a store whose ids are its positions -/

theorem findIdx_range (store : List STok) : ∀ (n a : Nat),
    store.map (·.id) = List.range' n store.length → a < store.length →
    store.findIdx? (fun t => t.id == n + a) = some a := by
  induction store with
  | nil => intro n a _ h; simp at h
  | cons t r ih =>
    intro n a hid ha
    simp only [List.map_cons, List.length_cons, List.range'_succ, List.cons.injEq] at hid
    rw [List.findIdx?_cons]
    cases a with
    | zero => simp [hid.1]
    | succ a' =>
      have hne : (t.id == n + (a' + 1)) = false := by simp [hid.1]
      rw [hne]
      have := ih (n + 1) a' hid.2 (by simpa using ha)
      have e : n + 1 + a' = n + (a' + 1) := by omega
      rw [e] at this
      simp [this]

theorem posOf_range {store : List STok} {a : Nat} (hid : store.map (·.id) = List.range' 0 store.length)
    (ha : a < store.length) : posOf store a = some a := by
  have := findIdx_range store 0 a hid ha
  simpa [posOf] using this

theorem segment_range {store : List STok} {a b : Nat} (hid : store.map (·.id) = List.range' 0 store.length)
    (ha : a < store.length) (hb : b < store.length) :
    segment store a b = (store.drop a).take (b + 1 - a) := by
  simp [segment, posOf_range hid ha, posOf_range hid hb]

theorem sorted_head_le_last {l : List Nat} (hs : l.Pairwise (· < ·)) {a b : Nat}
    (ha : l.head? = some a) (hb : l.getLast? = some b) : a ≤ b := by
  cases l with
  | nil => cases ha
  | cons x r =>
    simp only [List.head?_cons, Option.some.injEq] at ha
    subst ha
    rw [List.pairwise_cons] at hs
    cases r with
    | nil => simp at hb; omega
    | cons y r' =>
      have : b ∈ (y :: r') := by
        rw [List.getLast?_cons_cons] at hb
        exact List.mem_of_getLast? hb
      exact Nat.le_of_lt (hs.1 b this)

/-- A sub-list of positions `0 … len-1` is strictly increasing and in range. -/
theorem sublist_range_sorted {l : List Nat} {len : Nat} (h : l.Sublist (List.range' 0 len)) :
    l.Pairwise (· < ·) ∧ ∀ i ∈ l, i < len := by
  refine ⟨List.Pairwise.sublist h (List.pairwise_lt_range' ..), ?_⟩
  intro i hi
  have := h.subset hi
  simp [List.mem_range'_1] at this
  exact this

/-- The text of a contiguous store segment is the corresponding character slice of the whole text. -/
theorem textOfS_segment (s : List STok) (a k : Nat) :
    textOfS ((s.drop a).take k) =
      ((textOfS s).drop (textOfS (s.take a)).length).take (textOfS ((s.drop a).take k)).length := by
  have e : s = s.take a ++ ((s.drop a).take k ++ (s.drop a).drop k) := by
    rw [List.take_append_drop, List.take_append_drop]
  have e2 : textOfS s = textOfS (s.take a) ++ (textOfS ((s.drop a).take k) ++ textOfS ((s.drop a).drop k)) := by
    rw [← textOfS_append, ← textOfS_append, ← e]
  rw [e2, List.drop_left, List.take_left]

/-! ### A2 without `indent` nodes is "strictly increasing and in range" -/

theorem cursorRun_noIndent (toks : List LTok) (evs : List Ev) (hni : ∀ e ∈ evs, e ≠ Ev.indent) : ∀ c,
    (cursorRun toks evs c).isSome ↔
      (leafIdxs evs).Pairwise (· < ·) ∧ ∀ i ∈ leafIdxs evs, c ≤ i ∧ i < toks.length := by
  induction evs with
  | nil => intro c; simp [cursorRun, leafIdxs]
  | cons e r ih =>
    have ih' := ih (fun e he => hni e (List.mem_cons_of_mem _ he))
    intro c
    cases e with
    | indent => exact absurd rfl (hni _ List.mem_cons_self)
    | ph => simp only [cursorRun, leafIdxs]; exact ih' c
    | leaf i =>
      simp only [cursorRun, leafIdxs, List.pairwise_cons, List.mem_cons, forall_eq_or_imp]
      split
      · rename_i hci
        rw [ih' (i + 1)]
        constructor
        · rintro ⟨hp, hb⟩
          exact ⟨⟨fun j hj => (hb j hj).1, hp⟩, hci, fun j hj => ⟨by have := (hb j hj).1; omega, (hb j hj).2⟩⟩
        · rintro ⟨⟨hlt, hp⟩, _, hb⟩
          exact ⟨hp, fun j hj => ⟨hlt j hj, (hb j hj).2⟩⟩
      · rename_i hci
        simp only [Option.isSome_none, Bool.false_eq_true, false_iff]
        rintro ⟨_, h1, _⟩
        exact hci h1

end Autobean.Lex
