/-
What an insertion into a repeated region keeps: the old store is cut once and a window is put in (no token
removed, moved or rewritten) and every old item keeps its token list.  No freshness hypothesis on the batch is
needed for these statements (compare `insertSegs_cut`, which also describes the window and needs `BatchOK`).
-/
import Autobean.Proofs.RepFresh
import Autobean.Proofs.RepMethods

namespace Autobean.Rep
open Autobean.Seq

/-- An insertion is one cut of the store with a window put in. -/
theorem insertSegs_window (c : Cfg) (L R : List Tk) (ph : Tk) (pre post : List Seg) (ctr : Nat)
    (vs : List (List Tk)) :
    ∃ P X Q, L ++ layout ph (pre ++ post) ++ R = P ++ Q ∧
      L ++ layout ph (insertSegs c ctr pre post vs) ++ R = P ++ X ++ Q := by
  cases pre with
  | cons sg pre' =>
    refine ⟨L ++ layout ph (sg :: pre'), body (leftSegs c.seps ctr vs), body post ++ R, ?_, ?_⟩
    · rw [layout_append]; simp
    · simp [insertSegs, layout, body_append]
  | nil =>
    cases post with
    | nil =>
      refine ⟨L ++ [ph], body (beforeSegs c ctr vs), R, ?_, ?_⟩
      · simp [layout]
      · simp [insertSegs, layout]
    | cons sg0 post' =>
      refine ⟨L ++ ph :: sg0.1, rightToks c.seps ctr vs, sg0.2 ++ body post' ++ R, ?_, ?_⟩
      · simp [layout]
      · simp [insertSegs, layout, body_append, body_rightSegs]

/-- Positional form of `items' = pre ++ [v] ++ post`: old item `k` is found at `k` (before the insertion point) or
`k + 1` (behind it). -/
theorem getElem?_insert_shift {α} (a b : List α) (x : α) (k : Nat) :
    (a ++ [x] ++ b)[if k < a.length then k else k + 1]? = (a ++ b)[k]? := by
  by_cases h : k < a.length
  · simp only [h, if_true]
    rw [List.append_assoc, List.getElem?_append_left h, List.getElem?_append_left h]
  · simp only [h, if_false]
    have h' : a.length ≤ k := Nat.le_of_not_lt h
    rw [List.append_assoc, List.getElem?_append_right (by omega), List.getElem?_append_right h']
    have : k + 1 - a.length = (k - a.length) + 1 := by omega
    rw [this]; simp

end Autobean.Rep
