/-
`DInv` is preserved by the slot edits of `Model/TreeOps.lean`: `replaceChild` (`replace_node`), `createOptL/R`
(`_create_node`), `removeOptL/R` (`_remove_node`).  Each `…_spec` theorem also says WHERE the store changed
(`S1 ++ M ++ S2 ↦ S1 ++ M' ++ S2`) and how the leaf sequence changed (`A ++ L ++ B ↦ A ++ L' ++ B`).
That the addressed child's span `M` is contiguous and holds no foreign leaf is derived from `DInv`
(`span_decomp`), not assumed.
-/
import Autobean.Proofs.TreeOpsStore
import Autobean.Proofs.TreeOpsLift

namespace Autobean
open List

theorem reattachAll_leaves' (σ : Nat) (t : Tree) : (reattachAll σ t).leaves = t.leaves := by
  simp [reattachAll, Tree.leaves_mapIds]

theorem reattachAll_tags' (σ : Nat) (t : Tree) : ∀ g ∈ (reattachAll σ t).tags, g = σ :=
  Tree.tags_mapIds id σ t

theorem FreshVal.nodup_store {d n : Doc} {seps : List Nat} (h : FreshVal d seps n) : n.store.Nodup := h.1.storeNodup

/-! ### replace_node -/

theorem replaceChild_spec {d n d' : Doc} {p : Path} (hd : DInv d) (hn : FreshVal d [] n)
    (h : replaceChild d p n = some d') :
    ∃ old S1 M S2 A B, d.tree.subAt p = some old ∧
      d.store = S1 ++ M ++ S2 ∧ d'.store = S1 ++ n.store ++ S2 ∧
      M.head? = old.firstLeaf ∧ M.getLast? = old.lastLeaf ∧
      d.tree.leaves = A ++ old.leaves ++ B ∧ d'.tree.leaves = A ++ n.tree.leaves ++ B ∧
      A <+ S1 ∧ old.leaves <+ M ∧ B <+ S2 ∧ d'.tag = d.tag ∧ DInv d' := by
  unfold replaceChild at h
  cases hs : d.tree.subAt p with
  | none => simp [hs] at h
  | some old =>
    simp only [hs] at h
    cases hf : old.firstLeaf with
    | none => simp [hf] at h
    | some f =>
      cases hl : old.lastLeaf with
      | none => simp [hf, hl] at h
      | some l =>
        simp only [hf, hl] at h
        cases hsp : Ids.splice f l n.store d.store with
        | none => simp [hsp] at h
        | some s' =>
          cases hr : d.tree.replaceAt p (reattachAll d.tag n.tree) with
          | none => simp [hsp, hr] at h
          | some t' =>
            simp only [hsp, hr, Option.some.injEq] at h
            subst h
            obtain ⟨A, B, h1, h2⟩ := leaves_replaceAt hs hr
            rw [reattachAll_leaves'] at h2
            have hsub := hd.leavesSub
            rw [h1] at hsub
            obtain ⟨S1, M, S2, hst, hA, hL, hB, hMf, hMl⟩ := span_decomp hsub hf hl
            have hnd := hd.storeNodup
            rw [hst] at hnd
            have hcomp := (Ids.range_spec hnd hMf hMl n.store).1
            rw [← hst, hsp, Option.some.injEq] at hcomp
            subst hcomp
            obtain ⟨hdn, hnn, hfr⟩ := hn
            have hinv := dinv_edit (M' := n.store) (L' := n.tree.leaves) (t' := t') hd hst
              (by simpa using hnn) (by simpa using hfr) hA hdn.leavesSub hB h2
              (tags_replaceAt_all hs hr hd.tagsEq (reattachAll_tags' _ _))
            exact ⟨old, S1, M, S2, A, B, rfl, hst, rfl, hMf.trans hf.symm, hMl.trans hl.symm, h1, h2, hA, hL, hB, rfl,
              hinv⟩

/-- **`replace_node` keeps the invariant.** -/
theorem dinv_replaceChild {d n d' : Doc} {p : Path} (hd : DInv d) (hn : FreshVal d [] n)
    (h : replaceChild d p n = some d') : DInv d' := by
  obtain ⟨_, _, _, _, _, _, _, _, _, _, _, _, _, _, _, _, _, hinv⟩ := replaceChild_spec hd hn h
  exact hinv

/-- `replace_node` does not fail on a child that has a token (under the invariant both ends are found). -/
theorem replaceChild_total {d : Doc} (n : Doc) {p : Path} {old : Tree} (hd : DInv d)
    (hs : d.tree.subAt p = some old) (hne : old.leaves ≠ []) : ∃ d', replaceChild d p n = some d' := by
  obtain ⟨f, hf⟩ : ∃ f, old.leaves.head? = some f := by
    cases h : old.leaves with
    | nil => exact absurd h hne
    | cons a _ => exact ⟨a, rfl⟩
  obtain ⟨l, hl⟩ : ∃ l, old.leaves.getLast? = some l := by
    rcases List.eq_nil_or_concat old.leaves with h | ⟨L, l, h⟩
    · exact absurd h hne
    · exact ⟨l, by rw [h]; simp⟩
  obtain ⟨t', hr⟩ := replaceAt_isSome p (reattachAll d.tag n.tree) hs
  obtain ⟨A, B, h1, _⟩ := leaves_replaceAt hs hr
  have hsub := hd.leavesSub
  rw [h1] at hsub
  obtain ⟨S1, M, S2, hst, _, _, _, hMf, hMl⟩ := span_decomp hsub hf hl
  have hnd := hd.storeNodup
  rw [hst] at hnd
  have hcomp := (Ids.range_spec hnd hMf hMl n.store).1
  rw [← hst] at hcomp
  exact ⟨⟨S1 ++ n.store ++ S2, t', d.tag⟩, by simp [replaceChild, hs, Tree.firstLeaf, Tree.lastLeaf, hf, hl, hcomp, hr]⟩

theorem dinv_setItem {d n d' : Doc} {q : Path} {i : Nat} (hd : DInv d) (hn : FreshVal d [] n)
    (h : setItem d q i n = some d') : DInv d' := dinv_replaceChild hd hn h

/-! ### optional fields -/

theorem getLast?_split {L : List Nat} {x : Nat} (h : L.getLast? = some x) : ∃ L0, L = L0 ++ [x] :=
  List.getLast?_eq_some_iff.mp h

theorem head?_split {L : List Nat} {x : Nat} (h : L.head? = some x) : ∃ L0, L = x :: L0 := by
  cases L with
  | nil => simp at h
  | cons a L0 => simp at h; exact ⟨L0, by rw [h]⟩

theorem fresh_sub_left {seps : List Nat} {n : Doc} (hn : DInv n) : n.tree.leaves <+ seps ++ n.store :=
  List.sublist_append_of_sublist_right hn.leavesSub

theorem fresh_sub_right {seps : List Nat} {n : Doc} (hn : DInv n) : n.tree.leaves <+ n.store ++ seps :=
  List.sublist_append_of_sublist_left hn.leavesSub

theorem createOptL_spec {d n d' : Doc} {q : Path} {k : Nat} {seps : List Nat} (hd : DInv d)
    (hn : FreshVal d seps n) (h : createOptL d q k seps n = some d') :
    ∃ S1 S2 A B pv, d.store = S1 ++ S2 ∧ d'.store = S1 ++ (seps ++ n.store) ++ S2 ∧ S1.getLast? = some pv ∧
      d.tree.leaves = A ++ B ∧ d'.tree.leaves = A ++ n.tree.leaves ++ B ∧ A.getLast? = some pv ∧
      A <+ S1 ∧ B <+ S2 ∧ d'.tag = d.tag ∧ DInv d' := by
  unfold createOptL at h
  cases hs : d.tree.subAt q with
  | none => simp [hs] at h
  | some parent =>
    cases parent with
    | tok i => simp [hs] at h
    | absent => simp [hs] at h
    | rep g ph is => simp [hs] at h
    | node c g ind fs =>
      simp only [hs] at h
      cases hk : fs[k]? with
      | none => simp [hk] at h
      | some slot =>
        simp only [hk] at h
        cases slot with
        | tok i => simp [Tree.isAbsent] at h
        | node => simp [Tree.isAbsent] at h
        | rep => simp [Tree.isAbsent] at h
        | absent =>
          simp only [Tree.isAbsent, if_true] at h
          cases hpv : pivotLeft fs k with
          | none => simp [hpv] at h
          | some pv =>
            simp only [hpv] at h
            cases hins : Ids.insertAfter pv (seps ++ n.store) d.store with
            | none => simp [hins] at h
            | some s' =>
              cases hset : d.tree.setOptAt q k (some (reattachAll d.tag n.tree)) with
              | none => simp [hins, hset] at h
              | some t' =>
                simp only [hins, hset, Option.some.injEq] at h
                subst h
                obtain ⟨A, B, h1, h2⟩ := leaves_setOptAt hs hk hset
                simp only [Option.getD_some, reattachAll_leaves', Tree.leaves_absent, List.append_nil] at h1 h2
                obtain ⟨pre', hpre⟩ := getLast?_split hpv
                rw [hpre] at h1 h2
                have hsub := hd.leavesSub
                have e1 : d.tree.leaves = ((A ++ pre') ++ [pv]) ++ ((fs.drop (k + 1)).flatMap Tree.leaves ++ B) := by
                  rw [h1]; simp
                rw [e1] at hsub
                obtain ⟨S1, S2, hst, hA, hB, hlast, hcomp⟩ := insAfter_decomp hd.storeNodup hsub
                have hc := hcomp (seps ++ n.store)
                rw [hins, Option.some.injEq] at hc
                subst hc
                obtain ⟨hdn, hnn, hfr⟩ := hn
                have e2 : t'.leaves = ((A ++ pre') ++ [pv]) ++ n.tree.leaves ++
                    ((fs.drop (k + 1)).flatMap Tree.leaves ++ B) := by rw [h2]; simp
                have hst' : d.store = S1 ++ [] ++ S2 := by simpa using hst
                have hinv := dinv_edit (M' := seps ++ n.store) (t' := t') hd hst' hnn hfr hA (fresh_sub_left hdn) hB e2
                  (tags_setOptAt hs hset hd.tagsEq (by simpa using reattachAll_tags' d.tag n.tree))
                exact ⟨S1, S2, A ++ pre' ++ [pv], (fs.drop (k + 1)).flatMap Tree.leaves ++ B, pv,
                  hst, rfl, hlast, e1, e2, by simp, hA, hB, rfl, hinv⟩

theorem dinv_createOptL {d n d' : Doc} {q : Path} {k : Nat} {seps : List Nat} (hd : DInv d)
    (hn : FreshVal d seps n) (h : createOptL d q k seps n = some d') : DInv d' := by
  obtain ⟨_, _, _, _, _, _, _, _, _, _, _, _, _, _, hinv⟩ := createOptL_spec hd hn h
  exact hinv

theorem nodup_append_swap {a b : List Nat} (h : (a ++ b).Nodup) : (b ++ a).Nodup := by
  rw [List.nodup_append] at h ⊢
  exact ⟨h.2.1, h.1, fun x hx y hy e => h.2.2 y hy x hx e.symm⟩

theorem FreshVal.nodup_right {d n : Doc} {seps : List Nat} (h : FreshVal d seps n) : (n.store ++ seps).Nodup :=
  nodup_append_swap h.2.1

theorem FreshVal.fresh_right {d n : Doc} {seps : List Nat} (h : FreshVal d seps n) :
    ∀ x ∈ n.store ++ seps, x ∉ d.store := by
  intro x hx
  exact h.2.2 x (by simp only [List.mem_append] at hx ⊢; exact hx.symm)

theorem createOptR_spec {d n d' : Doc} {q : Path} {k : Nat} {seps : List Nat} (hd : DInv d)
    (hn : FreshVal d seps n) (h : createOptR d q k seps n = some d') :
    ∃ S1 S2 A B pv, d.store = S1 ++ S2 ∧ d'.store = S1 ++ (n.store ++ seps) ++ S2 ∧ S2.head? = some pv ∧
      d.tree.leaves = A ++ B ∧ d'.tree.leaves = A ++ n.tree.leaves ++ B ∧ B.head? = some pv ∧
      A <+ S1 ∧ B <+ S2 ∧ d'.tag = d.tag ∧ DInv d' := by
  unfold createOptR at h
  cases hs : d.tree.subAt q with
  | none => simp [hs] at h
  | some parent =>
    cases parent with
    | tok i => simp [hs] at h
    | absent => simp [hs] at h
    | rep g ph is => simp [hs] at h
    | node c g ind fs =>
      simp only [hs] at h
      cases hk : fs[k]? with
      | none => simp [hk] at h
      | some slot =>
        simp only [hk] at h
        cases slot with
        | tok i => simp [Tree.isAbsent] at h
        | node => simp [Tree.isAbsent] at h
        | rep => simp [Tree.isAbsent] at h
        | absent =>
          simp only [Tree.isAbsent, if_true] at h
          cases hpv : pivotRight fs k with
          | none => simp [hpv] at h
          | some pv =>
            simp only [hpv] at h
            cases hins : Ids.insertBefore pv (n.store ++ seps) d.store with
            | none => simp [hins] at h
            | some s' =>
              cases hset : d.tree.setOptAt q k (some (reattachAll d.tag n.tree)) with
              | none => simp [hins, hset] at h
              | some t' =>
                simp only [hins, hset, Option.some.injEq] at h
                subst h
                obtain ⟨A, B, h1, h2⟩ := leaves_setOptAt hs hk hset
                simp only [Option.getD_some, reattachAll_leaves', Tree.leaves_absent, List.append_nil] at h1 h2
                obtain ⟨post', hpost⟩ := head?_split hpv
                rw [hpost] at h1 h2
                have hsub := hd.leavesSub
                have e1 : d.tree.leaves = (A ++ (fs.take k).flatMap Tree.leaves) ++ pv :: (post' ++ B) := by
                  rw [h1]; simp
                rw [e1] at hsub
                obtain ⟨S1, S2, hst, hA, hB, hhead, hcomp⟩ := insBefore_decomp hd.storeNodup hsub
                have hc := hcomp (n.store ++ seps)
                rw [hins, Option.some.injEq] at hc
                subst hc
                have e2 : t'.leaves = (A ++ (fs.take k).flatMap Tree.leaves) ++ n.tree.leaves ++
                    pv :: (post' ++ B) := by rw [h2]; simp
                have hst' : d.store = S1 ++ [] ++ S2 := by simpa using hst
                have hinv := dinv_edit (M' := n.store ++ seps) (t' := t') hd hst' hn.nodup_right hn.fresh_right hA
                  (fresh_sub_right hn.1) hB e2
                  (tags_setOptAt hs hset hd.tagsEq (by simpa using reattachAll_tags' d.tag n.tree))
                exact ⟨S1, S2, A ++ (fs.take k).flatMap Tree.leaves, pv :: (post' ++ B), pv,
                  hst, rfl, hhead, e1, e2, rfl, hA, hB, rfl, hinv⟩

theorem dinv_createOptR {d n d' : Doc} {q : Path} {k : Nat} {seps : List Nat} (hd : DInv d)
    (hn : FreshVal d seps n) (h : createOptR d q k seps n = some d') : DInv d' := by
  obtain ⟨_, _, _, _, _, _, _, _, _, _, _, _, _, _, hinv⟩ := createOptR_spec hd hn h
  exact hinv

theorem removeOptL_spec {d d' : Doc} {q : Path} {k : Nat} (hd : DInv d) (h : removeOptL d q k = some d') :
    ∃ cur S1 M S2 A B, d.tree.subAt (q ++ [k]) = some cur ∧
      d.store = S1 ++ M ++ S2 ∧ d'.store = S1 ++ S2 ∧ M.getLast? = cur.lastLeaf ∧
      d.tree.leaves = A ++ cur.leaves ++ B ∧ d'.tree.leaves = A ++ B ∧
      A <+ S1 ∧ cur.leaves <+ M ∧ B <+ S2 ∧ d'.tag = d.tag ∧ DInv d' := by
  unfold removeOptL at h
  cases hs : d.tree.subAt q with
  | none => simp [hs] at h
  | some parent =>
    cases parent with
    | tok i => simp [hs] at h
    | absent => simp [hs] at h
    | rep g ph is => simp [hs] at h
    | node c g ind fs =>
      simp only [hs] at h
      cases hk : fs[k]? with
      | none => simp [hk] at h
      | some cur =>
        simp only [hk] at h
        cases hpv : pivotLeft fs k with
        | none => simp [hpv] at h
        | some pv =>
          cases hl : cur.lastLeaf with
          | none => simp [hpv, hl] at h
          | some l =>
            simp only [hpv, hl] at h
            cases hnx : Ids.next pv d.store with
            | none => simp [hnx] at h
            | some first =>
              simp only [hnx] at h
              cases hrm : Ids.remove first l d.store with
              | none => simp [hrm] at h
              | some s' =>
                cases hset : d.tree.setOptAt q k none with
                | none => simp [hrm, hset] at h
                | some t' =>
                  simp only [hrm, hset, Option.some.injEq] at h
                  subst h
                  obtain ⟨A, B, h1, h2⟩ := leaves_setOptAt hs hk hset
                  simp only [Option.getD_none, Tree.leaves_absent, List.append_nil] at h1 h2
                  obtain ⟨pre', hpre⟩ := getLast?_split hpv
                  obtain ⟨Y, hY⟩ := getLast?_split hl
                  have hsub := hd.leavesSub
                  have e1 : d.tree.leaves = ((A ++ pre') ++ [pv]) ++ (Y ++ [l]) ++
                      ((fs.drop (k + 1)).flatMap Tree.leaves ++ B) := by
                    rw [h1, hpre, hY]; simp
                  rw [e1] at hsub
                  obtain ⟨S1, M, S2, hst, hA, hM, hB, hML, first', hnx', hrm'⟩ :=
                    removeAfter_decomp hd.storeNodup hsub
                  rw [hnx, Option.some.injEq] at hnx'
                  subst hnx'
                  rw [hrm, Option.some.injEq] at hrm'
                  subst hrm'
                  have e2 : t'.leaves = ((A ++ pre') ++ [pv]) ++ [] ++
                      ((fs.drop (k + 1)).flatMap Tree.leaves ++ B) := by rw [h2, hpre]; simp
                  have hinv := dinv_edit (M' := []) (t' := t') hd hst List.nodup_nil (by simp) hA
                    (Sublist.refl _) hB e2 (tags_setOptAt hs hset hd.tagsEq (by simp))
                  have hsub2 : d.tree.subAt (q ++ [k]) = some cur := Tree.subAt_snoc hs rfl hk
                  exact ⟨cur, S1, M, S2, A ++ pre' ++ [pv], (fs.drop (k + 1)).flatMap Tree.leaves ++ B, hsub2,
                    hst, rfl, hML.trans hl.symm, by rw [e1, hY], by simpa using e2, hA,
                    by rw [hY]; exact hM, hB, rfl, by simpa using hinv⟩

theorem dinv_removeOptL {d d' : Doc} {q : Path} {k : Nat} (hd : DInv d) (h : removeOptL d q k = some d') :
    DInv d' := by
  obtain ⟨_, _, _, _, _, _, _, _, _, _, _, _, _, _, _, _, hinv⟩ := removeOptL_spec hd h
  exact hinv

theorem removeOptR_spec {d d' : Doc} {q : Path} {k : Nat} (hd : DInv d) (h : removeOptR d q k = some d') :
    ∃ cur S1 M S2 A B, d.tree.subAt (q ++ [k]) = some cur ∧
      d.store = S1 ++ M ++ S2 ∧ d'.store = S1 ++ S2 ∧ M.head? = cur.firstLeaf ∧
      d.tree.leaves = A ++ cur.leaves ++ B ∧ d'.tree.leaves = A ++ B ∧
      A <+ S1 ∧ cur.leaves <+ M ∧ B <+ S2 ∧ d'.tag = d.tag ∧ DInv d' := by
  unfold removeOptR at h
  cases hs : d.tree.subAt q with
  | none => simp [hs] at h
  | some parent =>
    cases parent with
    | tok i => simp [hs] at h
    | absent => simp [hs] at h
    | rep g ph is => simp [hs] at h
    | node c g ind fs =>
      simp only [hs] at h
      cases hk : fs[k]? with
      | none => simp [hk] at h
      | some cur =>
        simp only [hk] at h
        cases hpv : pivotRight fs k with
        | none => simp [hpv] at h
        | some pv =>
          cases hf : cur.firstLeaf with
          | none => simp [hpv, hf] at h
          | some f =>
            simp only [hpv, hf] at h
            cases hpr : Ids.prev pv d.store with
            | none => simp [hpr] at h
            | some last =>
              simp only [hpr] at h
              cases hrm : Ids.remove f last d.store with
              | none => simp [hrm] at h
              | some s' =>
                cases hset : d.tree.setOptAt q k none with
                | none => simp [hrm, hset] at h
                | some t' =>
                  simp only [hrm, hset, Option.some.injEq] at h
                  subst h
                  obtain ⟨A, B, h1, h2⟩ := leaves_setOptAt hs hk hset
                  simp only [Option.getD_none, Tree.leaves_absent, List.append_nil] at h1 h2
                  obtain ⟨post', hpost⟩ := head?_split hpv
                  obtain ⟨Y, hY⟩ := head?_split hf
                  have hsub := hd.leavesSub
                  have e1 : d.tree.leaves = (A ++ (fs.take k).flatMap Tree.leaves) ++ (f :: Y) ++
                      pv :: (post' ++ B) := by
                    rw [h1, hpost, hY]; simp
                  rw [e1] at hsub
                  obtain ⟨S1, M, S2, hst, hA, hM, hB, hMH, last', hpr', hrm'⟩ :=
                    removeBefore_decomp hd.storeNodup hsub
                  rw [hpr, Option.some.injEq] at hpr'
                  subst hpr'
                  rw [hrm, Option.some.injEq] at hrm'
                  subst hrm'
                  have e2 : t'.leaves = (A ++ (fs.take k).flatMap Tree.leaves) ++ [] ++
                      pv :: (post' ++ B) := by rw [h2, hpost]; simp
                  have hinv := dinv_edit (M' := []) (t' := t') hd hst List.nodup_nil (by simp) hA
                    (Sublist.refl _) hB e2 (tags_setOptAt hs hset hd.tagsEq (by simp))
                  have hsub2 : d.tree.subAt (q ++ [k]) = some cur := Tree.subAt_snoc hs rfl hk
                  exact ⟨cur, S1, M, S2, A ++ (fs.take k).flatMap Tree.leaves, pv :: (post' ++ B), hsub2,
                    hst, rfl, hMH.trans hf.symm, by rw [e1, hY], by simpa using e2, hA,
                    by rw [hY]; exact hM, hB, rfl, by simpa using hinv⟩

theorem dinv_removeOptR {d d' : Doc} {q : Path} {k : Nat} (hd : DInv d) (h : removeOptR d q k = some d') :
    DInv d' := by
  obtain ⟨_, _, _, _, _, _, _, _, _, _, _, _, _, _, _, _, hinv⟩ := removeOptR_spec hd h
  exact hinv

end Autobean
