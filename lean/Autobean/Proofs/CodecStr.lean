import Autobean.Model.Codec
/-! Lemmas for C12: takeWhile/dropWhile helpers, EscapedString. -/
set_option linter.unusedSimpArgs false
namespace Autobean.Codec

/-! ### takeWhile / dropWhile -/

/-- "`b` does not continue a run of `p`" -/
def Stops (p : Char → Bool) (b : Text) : Prop := b = [] ∨ ∃ c r, b = c :: r ∧ p c = false

theorem takeWhile_append_stop (p : Char → Bool) (a b : Text)
    (ha : ∀ c ∈ a, p c = true) (hb : Stops p b) : (a ++ b).takeWhile p = a := by
  induction a with
  | nil =>
    rcases hb with rfl | ⟨c, r, rfl, hc⟩
    · simp
    · simp [List.takeWhile_cons, hc]
  | cons x a ih =>
    have hx : p x = true := ha x (by simp)
    simp [List.takeWhile_cons, hx, ih (fun c hc => ha c (by simp [hc]))]

theorem dropWhile_append_stop (p : Char → Bool) (a b : Text)
    (ha : ∀ c ∈ a, p c = true) (hb : Stops p b) : (a ++ b).dropWhile p = b := by
  induction a with
  | nil =>
    rcases hb with rfl | ⟨c, r, rfl, hc⟩
    · simp
    · simp [List.dropWhile_cons, hc]
  | cons x a ih =>
    have hx : p x = true := ha x (by simp)
    simp [List.dropWhile_cons, hx, ih (fun c hc => ha c (by simp [hc]))]

theorem dropWhile_stops (p : Char → Bool) (s : Text) : Stops p (s.dropWhile p) := by
  induction s with
  | nil => exact Or.inl rfl
  | cons c s ih =>
    by_cases h : p c = true
    · simpa [List.dropWhile_cons, h] using ih
    · right; exact ⟨c, s, by simp [List.dropWhile_cons, h], by simpa using h⟩

theorem all_takeWhile (p : Char → Bool) (s : Text) : ∀ c ∈ s.takeWhile p, p c = true := by
  induction s with
  | nil => simp
  | cons x s ih =>
    by_cases h : p x = true
    · simp only [List.takeWhile_cons, h, if_true, List.mem_cons]
      rintro c (rfl | hc)
      · exact h
      · exact ih c hc
    · simp [List.takeWhile_cons, h]

/-! ### EscapedString -/

theorem unescMap_special (c : Char) (h : needsEsc c = true) : unescMap c = c := by
  simp [needsEsc] at h
  rcases h with rfl | rfl <;> decide

theorem needsEsc_ne_nl (c : Char) (h : needsEsc c = true) : c ≠ '\n' := by
  simp [needsEsc] at h
  rcases h with rfl | rfl <;> decide

/-- `unescape(escape(s)) == s` for every string (quotes, backslashes, newlines, anything). -/
theorem unescape_escape (s : Text) : unescape (escape s) = s := by
  induction s with
  | nil => rfl
  | cons c s ih =>
    by_cases h : needsEsc c = true
    · simp [escape, h, unescape, needsEsc_ne_nl c h, unescMap_special c h, ih]
    · have hc : c ≠ '\\' := by intro e; subst e; exact h (by decide)
      simp only [escape, h]
      cases hs : escape s with
      | nil => simp [hs] at ih; simp [unescape, ← ih]
      | cons d r =>
        simp [unescape, hc]
        rw [← hs, ih]

theorem scanStr_escape (v rest : Text) :
    scanStr false (escape v ++ '"' :: rest) = some (escape v ++ ['"'], rest) := by
  induction v with
  | nil => simp [escape, scanStr]
  | cons c v ih =>
    by_cases h : needsEsc c = true
    · have h' := h
      simp [needsEsc] at h'
      rcases h' with rfl | rfl <;> simp [escape, needsEsc, scanStr, ih]
    · have h1 : c ≠ '"' := by intro e; subst e; exact h (by decide)
      have h2 : c ≠ '\\' := by intro e; subst e; exact h (by decide)
      simp [escape, h, scanStr, h1, h2, ih]

/-- The raw text of a string is lexed back as exactly that lexeme, whatever follows it. -/
theorem lexStr_fmtStr (v rest : Text) : lexStr (fmtStr v ++ rest) = some (fmtStr v, rest) := by
  simp [fmtStr, lexStr, scanStr_escape]

theorem parseStr_fmtStr (v : Text) : parseStr (fmtStr v) = v := by
  simp [parseStr, fmtStr, List.dropLast_concat, unescape_escape]

end Autobean.Codec
