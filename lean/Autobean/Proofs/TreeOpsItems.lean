/-
`DInv` is preserved by the repeated-field edits of `Model/TreeOps.lean`: `insertItem` (`insert` / `append`,
all three branches of `_insert_tokens`), `extendItems`, `removeItems` (both branches of `_del_tokens`),
`popItem` (remaining document AND popped node).  `insertItemCore_spec` is stated for the inserted tree as it
is put into `items` (reattached or not), so that the defective `insertItemNoReattach` can be characterised:
every clause of the invariant holds except possibly the tag clause.
-/
import Autobean.Proofs.TreeOpsSlots

namespace Autobean
open List

/-! ### Reference tokens of a repeated field -/

/-- `_prev_last(i)` is the last leaf of `placeholder :: items[:i]`. -/
theorem prevLast_split {ph i r : Nat} {is : List Tree} (h : prevLast ph is i = some r) :
    ∃ X, ph :: (is.take i).flatMap Tree.leaves = X ++ [r] := by
  cases i with
  | zero =>
    simp only [prevLast, Option.some.injEq] at h
    subst h
    exact ⟨[], by simp⟩
  | succ j =>
    simp only [prevLast] at h
    cases hj : is[j]? with
    | none => simp [hj] at h
    | some it =>
      simp only [hj] at h
      obtain ⟨Y, hY⟩ := getLast?_split h
      refine ⟨ph :: (is.take j).flatMap Tree.leaves ++ Y, ?_⟩
      rw [List.take_add_one, hj]
      simp [hY]

/-- The leaves of `items[a:b]` (`a < b ≤ len`) end with the last leaf of `items[b-1]`. -/
theorem mid_last {is : List Tree} {a b l : Nat} {itl : Tree} (hab : a < b) (hb : b ≤ is.length)
    (hit : is[b - 1]? = some itl) (hl : itl.lastLeaf = some l) :
    ∃ Y, ((is.take b).drop a).flatMap Tree.leaves = Y ++ [l] := by
  obtain ⟨Y0, hY0⟩ := getLast?_split hl
  have hb1 : b = (b - 1) + 1 := by omega
  have e : is.take b = is.take (b - 1) ++ [itl] := by
    conv => lhs; rw [hb1]
    rw [List.take_add_one, hit]; rfl
  have hlen : a ≤ (is.take (b - 1)).length := by
    rw [List.length_take]; omega
  refine ⟨((is.take (b - 1)).drop a).flatMap Tree.leaves ++ Y0, ?_⟩
  rw [e, List.drop_append_of_le_length hlen]
  simp [hY0]

theorem take_succ_drop {is : List Tree} {i : Nat} {it : Tree} (h : is[i]? = some it) :
    (is.take (i + 1)).drop i = [it] := by
  have hlt : i < is.length := (List.getElem?_eq_some_iff.mp h).1
  have hlen : i ≤ (is.take i).length := by rw [List.length_take]; omega
  rw [List.take_add_one, h, List.drop_append_of_le_length hlen]
  have : (is.take i).drop i = [] := by
    apply List.drop_eq_nil_of_le; rw [List.length_take]; omega
  simp [this]

/-! ### insert / append -/

/-- The store and leaf effect of `insertItemCore` for the tree `c` that is put into `items`
(`c = reattachAll d.tag n.tree` or `c = n.tree`: same leaves either way). -/
theorem insertItemCore_spec {r : Bool} {d n d' : Doc} {q : Path} {i : Nat} {seps : List Nat} (hd : DInv d)
    (hn : FreshVal d seps n) (h : insertItemCore r d q i seps n = some d') :
    ∃ g ph is S1 S2 A B M', d.tree.subAt q = some (.rep g ph is) ∧ i ≤ is.length ∧
      d.store = S1 ++ S2 ∧ d'.store = S1 ++ M' ++ S2 ∧ (M' = seps ++ n.store ∨ M' = n.store ++ seps) ∧
      d.tree.leaves = A ++ B ∧ d'.tree.leaves = A ++ n.tree.leaves ++ B ∧
      A <+ S1 ∧ B <+ S2 ∧ d'.tag = d.tag ∧
      d.tree.insertItemAt q i (if r then reattachAll d.tag n.tree else n.tree) = some d'.tree ∧
      d'.store.Nodup ∧ d'.tree.leaves.Nodup ∧ d'.tree.leaves <+ d'.store := by
  unfold insertItemCore at h
  cases hs : d.tree.subAt q with
  | none => simp [hs] at h
  | some parent =>
    cases parent with
    | tok i => simp [hs] at h
    | absent => simp [hs] at h
    | node c g ind fs => simp [hs] at h
    | rep g ph is =>
      simp only [hs] at h
      by_cases hle : i ≤ is.length
      · simp only [hle, if_true] at h
        cases hins : insertTokens d.store ph is i seps n.store with
        | none => simp [hins] at h
        | some s' =>
          cases hset : d.tree.insertItemAt q i (if r then reattachAll d.tag n.tree else n.tree) with
          | none => simp [hins, hset] at h
          | some t' =>
            simp only [hins, hset, Option.some.injEq] at h
            subst h
            obtain ⟨A, B, h1, h2⟩ := leaves_insertItemAt hs hset
            have hcl : (if r then reattachAll d.tag n.tree else n.tree).leaves = n.tree.leaves := by
              cases r <;> simp [reattachAll_leaves']
            rw [hcl] at h2
            have hsub := hd.leavesSub
            -- the store edit, by branch of `_insert_tokens`
            have key : ∃ S1 S2 A' B' M', d.store = S1 ++ S2 ∧ s' = S1 ++ M' ++ S2 ∧
                (M' = seps ++ n.store ∨ M' = n.store ++ seps) ∧
                d.tree.leaves = A' ++ B' ∧ t'.leaves = A' ++ n.tree.leaves ++ B' ∧ A' <+ S1 ∧ B' <+ S2 := by
              unfold insertTokens at hins
              by_cases hi : i = 0
              · subst hi
                simp only [if_true] at hins
                cases h0 : is[0]? with
                | some it0 =>
                  simp only [h0] at hins
                  cases hf0 : it0.firstLeaf with
                  | none => simp [hf0] at hins
                  | some f0 =>
                    simp only [hf0] at hins
                    cases hpr : Ids.prev f0 d.store with
                    | none => simp [hpr] at hins
                    | some r0 =>
                      simp only [hpr] at hins
                      obtain ⟨rest, hrest⟩ : ∃ rest, is = it0 :: rest := by
                        cases is with
                        | nil => simp at h0
                        | cons x rest => simp at h0; exact ⟨rest, by rw [h0]⟩
                      obtain ⟨Y, hY⟩ := head?_split hf0
                      have e1 : d.tree.leaves = (A ++ [ph]) ++ f0 :: (Y ++ rest.flatMap Tree.leaves ++ B) := by
                        rw [h1, hrest]; simp [hY]
                      have e2 : t'.leaves = (A ++ [ph]) ++ n.tree.leaves ++
                          f0 :: (Y ++ rest.flatMap Tree.leaves ++ B) := by
                        rw [h2, hrest]; simp [hY]
                      rw [e1] at hsub
                      obtain ⟨S1, S2, hst, hA, hB, r', hpr', hcomp⟩ := insAfterPrev_decomp hd.storeNodup hsub
                      rw [hpr, Option.some.injEq] at hpr'
                      subst hpr'
                      rw [hcomp, Option.some.injEq] at hins
                      exact ⟨S1, S2, _, _, n.store ++ seps, hst, hins.symm, Or.inr rfl, e1, e2, hA, hB⟩
                | none =>
                  simp only [h0] at hins
                  have hnil : is = [] := by
                    cases is with
                    | nil => rfl
                    | cons x rest => simp at h0
                  have e1 : d.tree.leaves = (A ++ [ph]) ++ B := by rw [h1, hnil]; simp
                  have e2 : t'.leaves = (A ++ [ph]) ++ n.tree.leaves ++ B := by rw [h2, hnil]; simp
                  rw [e1] at hsub
                  obtain ⟨S1, S2, hst, hA, hB, _, hcomp⟩ := insAfter_decomp hd.storeNodup hsub
                  rw [hcomp, Option.some.injEq] at hins
                  exact ⟨S1, S2, _, _, seps ++ n.store, hst, hins.symm, Or.inl rfl, e1, e2, hA, hB⟩
              · simp only [hi, if_false] at hins
                cases hpl : prevLast ph is i with
                | none => simp [hpl] at hins
                | some r0 =>
                  simp only [hpl] at hins
                  obtain ⟨X, hX⟩ := prevLast_split hpl
                  have e1 : d.tree.leaves = ((A ++ X) ++ [r0]) ++ ((is.drop i).flatMap Tree.leaves ++ B) := by
                    rw [h1]
                    have : A ++ (ph :: (is.take i).flatMap Tree.leaves ++ (is.drop i).flatMap Tree.leaves) ++ B =
                        A ++ ((ph :: (is.take i).flatMap Tree.leaves) ++ (is.drop i).flatMap Tree.leaves) ++ B := by
                      simp
                    rw [this, hX]; simp
                  have e2 : t'.leaves = ((A ++ X) ++ [r0]) ++ n.tree.leaves ++
                      ((is.drop i).flatMap Tree.leaves ++ B) := by
                    rw [h2]
                    have : A ++ (ph :: (is.take i).flatMap Tree.leaves ++ n.tree.leaves ++
                          (is.drop i).flatMap Tree.leaves) ++ B =
                        A ++ ((ph :: (is.take i).flatMap Tree.leaves) ++ n.tree.leaves ++
                          (is.drop i).flatMap Tree.leaves) ++ B := by simp
                    rw [this, hX]; simp
                  rw [e1] at hsub
                  obtain ⟨S1, S2, hst, hA, hB, _, hcomp⟩ := insAfter_decomp hd.storeNodup hsub
                  rw [hcomp, Option.some.injEq] at hins
                  exact ⟨S1, S2, _, _, seps ++ n.store, hst, hins.symm, Or.inl rfl, e1, e2, hA, hB⟩
            obtain ⟨S1, S2, A', B', M', hst, hs', hM', e1, e2, hA, hB⟩ := key
            subst hs'
            have hM'nd : M'.Nodup := by
              rcases hM' with rfl | rfl
              · exact hn.2.1
              · exact hn.nodup_right
            have hM'fr : ∀ x ∈ M', x ∉ d.store := by
              rcases hM' with rfl | rfl
              · exact hn.2.2
              · exact hn.fresh_right
            have hLM : n.tree.leaves <+ M' := by
              rcases hM' with rfl | rfl
              · exact fresh_sub_left hn.1
              · exact fresh_sub_right hn.1
            have hnd' : (S1 ++ M' ++ S2).Nodup := by
              have hnd := hd.storeNodup
              rw [hst] at hnd hM'fr
              have : (S1 ++ [] ++ S2).Nodup := by simpa using hnd
              exact nodup_window this hM'nd (by simpa using hM'fr)
            have hsub' : t'.leaves <+ S1 ++ M' ++ S2 := by
              rw [e2]; exact (hA.append hLM).append hB
            exact ⟨g, ph, is, S1, S2, A', B', M', rfl, hle, hst, rfl, hM', e1, e2, hA, hB, rfl, rfl, hnd',
              hsub'.nodup hnd', hsub'⟩
      · simp [hle] at h

/-- **`insert` / `append` keep the invariant.** -/
theorem dinv_insertItem {d n d' : Doc} {q : Path} {i : Nat} {seps : List Nat} (hd : DInv d)
    (hn : FreshVal d seps n) (h : insertItem d q i seps n = some d') : DInv d' := by
  obtain ⟨g, ph, is, S1, S2, A, B, M', hs, _, _, _, _, _, _, _, _, htag, hset, hnd, hlnd, hsub⟩ :=
    insertItemCore_spec hd hn h
  refine ⟨hnd, ?_, hlnd, hsub⟩
  rw [htag]
  simp only [if_true] at hset
  exact tags_insertItemAt hs hset hd.tagsEq (reattachAll_tags' _ _)

/-- **The defect, in general.**  Without the reattach every clause of the invariant still holds except the
tag clause, and the invariant holds afterwards exactly when the value's nodes already pointed at this
document's store — which a detached value never does. -/
theorem insertItemNoReattach_iff {d n d' : Doc} {q : Path} {i : Nat} {seps : List Nat} (hd : DInv d)
    (hn : FreshVal d seps n) (h : insertItemNoReattach d q i seps n = some d') :
    d'.store.Nodup ∧ d'.tree.leaves.Nodup ∧ d'.tree.leaves <+ d'.store ∧
      (DInv d' ↔ ∀ g ∈ n.tree.tags, g = d.tag) := by
  obtain ⟨g, ph, is, S1, S2, A, B, M', hs, hle, _, _, _, _, _, _, _, htag, hset, hnd, hlnd, hsub⟩ :=
    insertItemCore_spec hd hn h
  refine ⟨hnd, hlnd, hsub, ?_, ?_⟩
  · intro hinv g' hg'
    rw [← htag]
    apply hinv.tagsEq
    simp only [Bool.false_eq_true, if_false, Tree.insertItemAt, hs, hle, if_true] at hset
    obtain ⟨TA, TB, _, h4⟩ := tags_replaceAt hs hset
    rw [h4]
    simp only [Tree.tags_rep, List.mem_append, List.mem_cons, List.mem_flatMap]
    exact Or.inl (Or.inr (Or.inr ⟨n.tree, by simp, hg'⟩))
  · intro hall
    refine ⟨hnd, ?_, hlnd, hsub⟩
    rw [htag]
    simp only [Bool.false_eq_true, if_false] at hset
    exact tags_insertItemAt hs hset hd.tagsEq hall

/-! ### extend -/

theorem dinv_extendChecked {q : Path} : ∀ {vs : List (List Nat × Doc)} {d d' : Doc}, DInv d →
    extendChecked d q vs = some d' → DInv d' := by
  intro vs
  induction vs with
  | nil => intro d d' hd h; simp only [extendChecked, Option.some.injEq] at h; subst h; exact hd
  | cons v vs ih =>
    intro d d' hd h
    obtain ⟨seps, n⟩ := v
    simp only [extendChecked] at h
    by_cases hf : FreshVal d seps n
    · simp only [hf, if_true] at h
      cases hs : d.tree.subAt q with
      | none => simp [hs] at h
      | some parent =>
        cases parent with
        | tok i => simp [hs] at h
        | absent => simp [hs] at h
        | node c g ind fs => simp [hs] at h
        | rep g ph is =>
          simp only [hs] at h
          cases hi : insertItem d q is.length seps n with
          | none => simp [hi] at h
          | some d1 =>
            simp only [hi] at h
            exact ih (dinv_insertItem hd hf hi) h
    · simp [hf] at h

/-- The checked `extend` is the plain one (the check only refuses). -/
theorem extendChecked_eq {q : Path} : ∀ {vs : List (List Nat × Doc)} {d d' : Doc},
    extendChecked d q vs = some d' → extendItems d q vs = some d' := by
  intro vs
  induction vs with
  | nil => intro d d' h; simpa [extendChecked, extendItems] using h
  | cons v vs ih =>
    intro d d' h
    obtain ⟨seps, n⟩ := v
    simp only [extendChecked] at h
    by_cases hf : FreshVal d seps n
    · simp only [hf, if_true] at h
      cases hs : d.tree.subAt q with
      | none => simp [hs] at h
      | some parent =>
        cases parent with
        | tok i => simp [hs] at h
        | absent => simp [hs] at h
        | node c g ind fs => simp [hs] at h
        | rep g ph is =>
          simp only [hs] at h
          cases hi : insertItem d q is.length seps n with
          | none => simp [hi] at h
          | some d1 =>
            simp only [hi] at h
            simp only [extendItems, hs, hi]
            exact ih h
    · simp [hf] at h

end Autobean
