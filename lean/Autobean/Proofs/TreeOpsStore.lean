/-
Id-level store lemmas for the tree-level edits (`Model/TreeOps.lean`):

* `sublist_split`  — a leaf `f` of an ordered leaf sequence `X ++ f :: Y <+ s` cuts the store at `f` with `X`
  before and `Y` after it (this is what makes spans nested and "contiguous": nothing else has to be assumed);
* `span_decomp`    — the store range first-leaf … last-leaf of a leaf segment, with the leaves outside it outside;
* the computation of `Ids.*` on an explicitly cut store with distinct ids;
* `nodup_window` / `dinv_window` — replacing a window of the store by new distinct ids keeps `DInv`.
-/
import Autobean.Model.TreeOps

namespace Autobean
open List

namespace Ids

theorem cut_spec {r : Nat} {S1 S2 : List Nat} (h : r ∉ S1) : cut r (S1 ++ r :: S2) = some (S1, S2) := by
  induction S1 with
  | nil => simp [cut]
  | cons x S1 ih =>
    have hx : x ≠ r := fun e => h (by simp [e])
    have h' : r ∉ S1 := fun e => h (by simp [e])
    simp [cut, hx, ih h']

theorem notin_of_nodup_append_cons {x : Nat} {P Q : List Nat} (h : (P ++ x :: Q).Nodup) : x ∉ P := by
  intro hm
  exact (List.nodup_append.mp h).2.2 x hm x (by simp) rfl

theorem cut_sound {r : Nat} : ∀ {s a b : List Nat}, cut r s = some (a, b) → s = a ++ r :: b ∧ r ∉ a := by
  intro s
  induction s with
  | nil => intro a b h; simp [cut] at h
  | cons x xs ih =>
    intro a b h
    simp only [cut] at h
    split at h
    · rename_i hx
      simp only [Option.some.injEq, Prod.mk.injEq] at h
      obtain ⟨rfl, rfl⟩ := h
      simp [hx]
    · rename_i hx
      split at h
      · cases h
      · rename_i a' b' hc
        simp only [Option.some.injEq, Prod.mk.injEq] at h
        obtain ⟨rfl, rfl⟩ := h
        obtain ⟨h1, h2⟩ := ih hc
        refine ⟨by simp [h1], ?_⟩
        simp only [mem_cons, not_or]
        exact ⟨fun e => hx e.symm, h2⟩

theorem insertAfter_spec {r : Nat} {S1 S2 : List Nat} (xs : List Nat) (h : r ∉ S1) :
    insertAfter r xs (S1 ++ r :: S2) = some (S1 ++ r :: (xs ++ S2)) := by
  simp [insertAfter, cut_spec h]

theorem insertBefore_spec {r : Nat} {S1 S2 : List Nat} (xs : List Nat) (h : r ∉ S1) :
    insertBefore r xs (S1 ++ r :: S2) = some (S1 ++ (xs ++ r :: S2)) := by
  simp [insertBefore, cut_spec h]

theorem next_spec {r x : Nat} {S1 S2 : List Nat} (h : r ∉ S1) : next r (S1 ++ r :: x :: S2) = some x := by
  simp [next, cut_spec h]

theorem prev_spec {r x : Nat} {S1 S2 : List Nat} (h : r ∉ S1 ++ [x]) :
    prev r (S1 ++ x :: r :: S2) = some x := by
  have : S1 ++ x :: r :: S2 = (S1 ++ [x]) ++ r :: S2 := by simp
  simp only [prev]
  rw [this, cut_spec h]
  simp

/-- The inclusive range `f … l` of a store cut as `S1 ++ M ++ S2` with `M` running from `f` to `l`. -/
theorem range_spec {f l : Nat} {S1 M S2 : List Nat} (hnd : (S1 ++ M ++ S2).Nodup)
    (hf : M.head? = some f) (hl : M.getLast? = some l) (xs : List Nat) :
    splice f l xs (S1 ++ M ++ S2) = some (S1 ++ xs ++ S2) ∧ iter f l (S1 ++ M ++ S2) = some M := by
  obtain ⟨M', rfl⟩ : ∃ M', M = f :: M' := by
    cases M with
    | nil => simp at hf
    | cons a M' => simp at hf; exact ⟨M', by rw [hf]⟩
  obtain ⟨M'', hM''⟩ : ∃ M'', f :: M' = M'' ++ [l] := by
    have := List.getLast?_eq_some_iff.mp hl
    obtain ⟨ys, hys⟩ := this
    exact ⟨ys, hys⟩
  have hnd' : (S1 ++ (M'' ++ [l]) ++ S2).Nodup := by rw [← hM'']; exact hnd
  have hfS1 : f ∉ S1 := by
    have : (S1 ++ f :: (M' ++ S2)).Nodup := by simpa using hnd
    exact notin_of_nodup_append_cons this
  have hlM'' : l ∉ M'' := by
    have : ((S1 ++ M'') ++ l :: S2).Nodup := by simpa using hnd'
    intro hm
    exact notin_of_nodup_append_cons this (by simp [hm])
  have e1 : S1 ++ f :: M' ++ S2 = S1 ++ f :: (M' ++ S2) := by simp
  have e2 : f :: (M' ++ S2) = M'' ++ l :: S2 := by
    have : f :: (M' ++ S2) = (f :: M') ++ S2 := by simp
    rw [this, hM'']; simp
  constructor
  · simp only [splice]
    rw [e1, cut_spec hfS1]
    simp only []
    rw [e2, cut_spec hlM'']
    simp
  · simp only [iter]
    rw [e1, cut_spec hfS1]
    simp only []
    rw [e2, cut_spec hlM'']
    simp [hM'']

end Ids

/-! ### Cutting the store along the leaves -/

/-- A member `f` of an ordered sub-sequence cuts the list with the members before `f` before it and the
members after `f` after it. -/
theorem sublist_split {f : Nat} : ∀ {s X Y : List Nat}, (X ++ f :: Y) <+ s →
    ∃ S1 S2, s = S1 ++ f :: S2 ∧ X <+ S1 ∧ Y <+ S2 := by
  intro s
  induction s with
  | nil => intro X Y h; simp at h
  | cons a s ih =>
    intro X Y h
    rcases List.sublist_cons_iff.mp h with h' | ⟨r, heq, h'⟩
    · obtain ⟨S1, S2, rfl, h1, h2⟩ := ih h'
      exact ⟨a :: S1, S2, by simp, h1.cons _, h2⟩
    · cases X with
      | nil =>
        simp only [List.nil_append, List.cons.injEq] at heq
        obtain ⟨rfl, rfl⟩ := heq
        exact ⟨[], s, by simp, Sublist.refl _, h'⟩
      | cons x X' =>
        simp only [List.cons_append, List.cons.injEq] at heq
        obtain ⟨rfl, rfl⟩ := heq
        obtain ⟨S1, S2, rfl, h1, h2⟩ := ih h'
        exact ⟨x :: S1, S2, by simp, h1.cons_cons _, h2⟩

/-- The store range spanned by a non-empty leaf segment `L` of the leaf sequence `A ++ L ++ B`. -/
theorem span_decomp {s A L B : List Nat} {f l : Nat} (h : (A ++ L ++ B) <+ s)
    (hf : L.head? = some f) (hl : L.getLast? = some l) :
    ∃ S1 M S2, s = S1 ++ M ++ S2 ∧ A <+ S1 ∧ L <+ M ∧ B <+ S2 ∧ M.head? = some f ∧ M.getLast? = some l := by
  obtain ⟨L0, rfl⟩ : ∃ L0, L = L0 ++ [l] := List.getLast?_eq_some_iff.mp hl
  have h1 : ((A ++ L0) ++ l :: B) <+ s := by simpa using h
  obtain ⟨P, S2, rfl, hP, hB⟩ := sublist_split h1
  cases L0 with
  | nil =>
    simp only [List.nil_append, List.head?_cons, Option.some.injEq] at hf
    subst hf
    exact ⟨P, [l], S2, by simp, by simpa using hP, Sublist.refl _, hB, rfl, rfl⟩
  | cons f' L1 =>
    simp only [List.cons_append, List.head?_cons, Option.some.injEq] at hf
    subst hf
    obtain ⟨S1, Q, rfl, hA, hL1⟩ := sublist_split hP
    refine ⟨S1, f' :: (Q ++ [l]), S2, by simp, hA, ?_, hB, rfl, ?_⟩
    · simpa using (hL1.append (Sublist.refl [l])).cons_cons f'
    · exact List.getLast?_eq_some_iff.mpr ⟨f' :: Q, by simp⟩

/-! ### Replacing a window of the store -/

theorem nodup_window {S1 M M' S2 : List Nat} (h : (S1 ++ M ++ S2).Nodup) (hM : M'.Nodup)
    (hfresh : ∀ x ∈ M', x ∉ S1 ++ M ++ S2) : (S1 ++ M' ++ S2).Nodup := by
  simp only [List.append_assoc, List.nodup_append, List.mem_append] at h ⊢
  obtain ⟨h1, ⟨h2, h3, h4⟩, h5⟩ := h
  refine ⟨h1, ⟨hM, h3, ?_⟩, ?_⟩
  · intro a ha b hb e
    subst e
    exact hfresh a ha (by simp [hb])
  · intro a ha b hb e
    subst e
    rcases hb with hb | hb
    · exact hfresh a hb (by simp [ha])
    · exact h5 a ha a (Or.inr hb) rfl

/-- **Window edit on a document.**  If the new store is `S1 ++ M' ++ S2` (distinct ids) and the new tree's
leaves are `A ++ L' ++ B` with `A`, `L'`, `B` ordered sub-sequences of the three parts, and every node carries
the tag, the document satisfies the invariant. -/
theorem dinv_window {S1 M' S2 A L' B : List Nat} {t' : Tree} {σ : Nat}
    (hs : (S1 ++ M' ++ S2).Nodup) (hA : A <+ S1) (hL : L' <+ M') (hB : B <+ S2)
    (hleaves : t'.leaves = A ++ L' ++ B) (htags : ∀ g ∈ t'.tags, g = σ) :
    DInv ⟨S1 ++ M' ++ S2, t', σ⟩ := by
  have hsub : t'.leaves <+ S1 ++ M' ++ S2 := by rw [hleaves]; exact (hA.append hL).append hB
  exact ⟨hs, htags, hsub.nodup hs, hsub⟩

theorem nodup_of_infix {S1 M S2 : List Nat} (h : (S1 ++ M ++ S2).Nodup) : M.Nodup := by
  simp only [List.append_assoc, List.nodup_append] at h
  exact h.2.1.1

/-- The generic step of every edit: the store window `M` becomes the fresh, distinct `M'`; the leaves outside
the window stay outside; the new leaves inside are an ordered sub-sequence of `M'`. -/
theorem dinv_edit {d : Doc} {S1 M M' S2 A L' B : List Nat} {t' : Tree}
    (hd : DInv d) (hst : d.store = S1 ++ M ++ S2) (hM' : M'.Nodup) (hfresh : ∀ x ∈ M', x ∉ d.store)
    (hA : A <+ S1) (hL : L' <+ M') (hB : B <+ S2) (hleaves : t'.leaves = A ++ L' ++ B)
    (htags : ∀ g ∈ t'.tags, g = d.tag) : DInv ⟨S1 ++ M' ++ S2, t', d.tag⟩ := by
  have hnd := hd.storeNodup
  rw [hst] at hnd hfresh
  exact dinv_window (nodup_window hnd hM' hfresh) hA hL hB hleaves htags

/-! ### The reference-token computations of the Python on a store cut along the leaves -/

/-- `insert_after(pivot, xs)` where the pivot is the last leaf before the insertion point. -/
theorem insAfter_decomp {s X Y : List Nat} {pv : Nat} (hnd : s.Nodup) (h : (X ++ [pv]) ++ Y <+ s) :
    ∃ S1 S2, s = S1 ++ S2 ∧ X ++ [pv] <+ S1 ∧ Y <+ S2 ∧ S1.getLast? = some pv ∧
      ∀ xs, Ids.insertAfter pv xs s = some (S1 ++ xs ++ S2) := by
  have h' : X ++ pv :: Y <+ s := by simpa using h
  obtain ⟨P, S2, rfl, hX, hY⟩ := sublist_split h'
  have hpv : pv ∉ P := Ids.notin_of_nodup_append_cons hnd
  exact ⟨P ++ [pv], S2, by simp, hX.append (Sublist.refl _), hY, by simp,
    fun xs => by rw [Ids.insertAfter_spec xs hpv]; simp⟩

/-- `insert_before(pivot, xs)` where the pivot is the first leaf after the insertion point. -/
theorem insBefore_decomp {s X Y : List Nat} {pv : Nat} (hnd : s.Nodup) (h : X ++ pv :: Y <+ s) :
    ∃ S1 S2, s = S1 ++ S2 ∧ X <+ S1 ∧ pv :: Y <+ S2 ∧ S2.head? = some pv ∧
      ∀ xs, Ids.insertBefore pv xs s = some (S1 ++ xs ++ S2) := by
  obtain ⟨P, S2, rfl, hX, hY⟩ := sublist_split h
  have hpv : pv ∉ P := Ids.notin_of_nodup_append_cons hnd
  exact ⟨P, pv :: S2, rfl, hX, hY.cons_cons _, rfl,
    fun xs => by rw [Ids.insertBefore_spec xs hpv]; simp⟩

/-- `insert_after(get_prev(f0), xs)`: in front of `f0`, when some leaf (the placeholder) precedes it. -/
theorem insAfterPrev_decomp {s X Y : List Nat} {ph f0 : Nat} (hnd : s.Nodup) (h : (X ++ [ph]) ++ f0 :: Y <+ s) :
    ∃ S1 S2, s = S1 ++ S2 ∧ X ++ [ph] <+ S1 ∧ f0 :: Y <+ S2 ∧
      ∃ r, Ids.prev f0 s = some r ∧ ∀ xs, Ids.insertAfter r xs s = some (S1 ++ xs ++ S2) := by
  obtain ⟨P, S2, rfl, hX, hY⟩ := sublist_split h
  have hf0 : f0 ∉ P := Ids.notin_of_nodup_append_cons hnd
  obtain ⟨P', r, rfl⟩ : ∃ P' r, P = P' ++ [r] := by
    rcases List.eq_nil_or_concat P with rfl | ⟨P', r, rfl⟩
    · simp at hX
    · exact ⟨P', r, by simp⟩
  have hr : r ∉ P' := by
    have : (P' ++ r :: (f0 :: S2)).Nodup := by simpa using hnd
    exact Ids.notin_of_nodup_append_cons this
  refine ⟨P' ++ [r], f0 :: S2, rfl, hX, hY.cons_cons _, r, ?_, ?_⟩
  · have e : P' ++ [r] ++ f0 :: S2 = P' ++ r :: f0 :: S2 := by simp
    rw [e]; exact Ids.prev_spec hf0
  · intro xs
    have e : P' ++ [r] ++ f0 :: S2 = P' ++ r :: (f0 :: S2) := by simp
    rw [e, Ids.insertAfter_spec xs hr]; simp

/-- `remove(get_next(ref), l)`: everything after the leaf `ref` up to the leaf `l`. -/
theorem removeAfter_decomp {s X Y Z : List Nat} {r l : Nat} (hnd : s.Nodup)
    (h : (X ++ [r]) ++ (Y ++ [l]) ++ Z <+ s) :
    ∃ S1 M S2, s = S1 ++ M ++ S2 ∧ X ++ [r] <+ S1 ∧ Y ++ [l] <+ M ∧ Z <+ S2 ∧ M.getLast? = some l ∧
      ∃ first, Ids.next r s = some first ∧ Ids.remove first l s = some (S1 ++ S2) := by
  have h' : X ++ r :: (Y ++ l :: Z) <+ s := by simpa using h
  obtain ⟨P, U, rfl, hX, hU⟩ := sublist_split h'
  obtain ⟨T, S2, rfl, hY, hZ⟩ := sublist_split hU
  have hr : r ∉ P := Ids.notin_of_nodup_append_cons hnd
  obtain ⟨first, hfirst⟩ : ∃ first, (T ++ [l]).head? = some first := by cases T <;> simp
  have e : P ++ r :: (T ++ l :: S2) = (P ++ [r]) ++ (T ++ [l]) ++ S2 := by simp
  refine ⟨P ++ [r], T ++ [l], S2, e, hX.append (Sublist.refl _), hY.append (Sublist.refl _), hZ, by simp,
    first, ?_, ?_⟩
  · simp only [Ids.next, Ids.cut_spec hr]
    cases T <;> simpa using hfirst
  · rw [e] at hnd ⊢
    have := (Ids.range_spec hnd hfirst (List.getLast?_eq_some_iff.mpr ⟨T, rfl⟩) []).1
    simpa [Ids.remove] using this

/-- `remove(f, get_prev(ref))`: everything from the leaf `f` up to just before the leaf `ref`. -/
theorem removeBefore_decomp {s X Y Z : List Nat} {f r : Nat} (hnd : s.Nodup)
    (h : X ++ (f :: Y) ++ r :: Z <+ s) :
    ∃ S1 M S2, s = S1 ++ M ++ S2 ∧ X <+ S1 ∧ f :: Y <+ M ∧ r :: Z <+ S2 ∧ M.head? = some f ∧
      ∃ last, Ids.prev r s = some last ∧ Ids.remove f last s = some (S1 ++ S2) := by
  have h' : X ++ f :: (Y ++ r :: Z) <+ s := by simpa using h
  obtain ⟨P, U, rfl, hX, hU⟩ := sublist_split h'
  obtain ⟨T, S2, rfl, hY, hZ⟩ := sublist_split hU
  obtain ⟨T', last, hT'⟩ : ∃ T' last, f :: T = T' ++ [last] := by
    rcases List.eq_nil_or_concat (f :: T) with h0 | ⟨T', last, h0⟩
    · simp at h0
    · exact ⟨T', last, by simpa using h0⟩
  have e : P ++ f :: (T ++ r :: S2) = P ++ (f :: T) ++ r :: S2 := by simp
  have e2 : P ++ f :: (T ++ r :: S2) = (P ++ T') ++ last :: r :: S2 := by rw [e, hT']; simp
  have hr : r ∉ (P ++ T') ++ [last] := by
    have : ((P ++ T' ++ [last]) ++ r :: S2).Nodup := by rw [e2] at hnd; simpa using hnd
    exact Ids.notin_of_nodup_append_cons this
  refine ⟨P, f :: T, r :: S2, e, hX, hY.cons_cons _, hZ.cons_cons _, rfl, last, ?_, ?_⟩
  · rw [e2]; exact Ids.prev_spec hr
  · rw [e] at hnd ⊢
    have := (Ids.range_spec hnd (show (f :: T).head? = some f from rfl)
      (List.getLast?_eq_some_iff.mpr ⟨T', hT'⟩) []).1
    simpa [Ids.remove] using this

end Autobean
