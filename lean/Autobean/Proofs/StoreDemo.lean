/-
A concrete multi-block store (7 tokens, load factor 2, four blocks) used by the `example`s of the
property files to show that the hypotheses of the theorems are satisfiable.
-/
import Autobean.Proofs.StoreMutators

set_option linter.unusedSimpArgs false

namespace Autobean.Demo
open Autobean

/-- A detached token with a correct size. -/
def mkTok (id : Nat) (s : List Char) : Tok := { id := id, text := s, size := tokSize s, h := none }

def c2 : LF := LF.ofLoadFactor 2

def demoToks : List Tok :=
  [mkTok 1 ['a','b'], mkTok 2 ['\n'], mkTok 3 ['c'], mkTok 4 ['d','\n','e'], mkTok 5 [], mkTok 6 ['f'],
   mkTok 7 ['g']]

/-- What `from_tokens` builds from `demoToks` at load factor 2: blocks of 2, 2, 1, 2 tokens. -/
def demoStore : Store :=
  { sid := 1,
    blocks := [
      { ref := 1, idx := 0,
        toks := [{ id := 1, text := ['a', 'b'], size := ⟨0, 2⟩, h := some ⟨1, 1, 0⟩ },
                 { id := 2, text := ['\n'], size := ⟨1, 0⟩, h := some ⟨1, 1, 1⟩ }],
        size := ⟨1, 0⟩, lni := 1 },
      { ref := 2, idx := 1,
        toks := [{ id := 3, text := ['c'], size := ⟨0, 1⟩, h := some ⟨1, 2, 0⟩ },
                 { id := 4, text := ['d', '\n', 'e'], size := ⟨1, 1⟩, h := some ⟨1, 2, 1⟩ }],
        size := ⟨1, 1⟩, lni := 1 },
      { ref := 3, idx := 2,
        toks := [{ id := 5, text := [], size := ⟨0, 0⟩, h := some ⟨1, 3, 0⟩ }],
        size := ⟨0, 0⟩, lni := -1 },
      { ref := 4, idx := 3,
        toks := [{ id := 6, text := ['f'], size := ⟨0, 1⟩, h := some ⟨1, 4, 0⟩ },
                 { id := 7, text := ['g'], size := ⟨0, 1⟩, h := some ⟨1, 4, 1⟩ }],
        size := ⟨0, 2⟩, lni := -1 }],
    len := 7, nextRef := 5 }

theorem c2_wf : c2.WF := by decide

theorem demoToks_fresh : FreshToks demoToks := ⟨by decide, by decide, by decide⟩

theorem demo_fromTokens : Store.fromTokens c2 1 demoToks = .ok demoStore := by
  simp [Store.fromTokens, buildBlocks, demoToks, mkTok, c2, LF.ofLoadFactor, demoStore, Block.build,
    setHandlesFrom, pure, Except.pure]
  decide

theorem demo_inv : Inv demoStore := by
  obtain ⟨s, h1, h2, _, _⟩ := fromTokens_inv c2_wf 1 demoToks_fresh
  rw [demo_fromTokens] at h1
  cases h1
  exact h2

/-- A fresh token to insert. -/
def newTok : Tok := mkTok 9 ['x', '\n', 'y']

theorem newTok_fresh : Fresh demoStore [newTok] :=
  ⟨⟨by decide, by decide, by decide⟩, by decide⟩

end Autobean.Demo
