/-
Frame lemmas of `_del_tokens` (`delTokens`), both branches, under `RegionWF`.
-/
import Autobean.Proofs.RepLayout

namespace Autobean.Rep
open Autobean.Seq

theorem body_head? {sg : Seg} {rest : List Seg} :
    (body (sg :: rest)).head? = (sg.1 ++ sg.2).head?.or (body rest).head? := by
  simp only [body_cons]
  rw [List.head?_append]

/-- else-branch of `_del_tokens` (`start ≠ 0` or `stop = len(items)`): the segments `mid` disappear
completely, gap included: `get_next(_prev_last(start)) … items[stop-1].last_token`. -/
theorem delTokens_tail {c : Cfg} {store : List Tk} {items : List Span} {L R : List Tk} {ph : Tk}
    {pre mid post : List Seg}
    (wf : RegionWF c store items L R ph (pre ++ mid ++ post)) (hmid : mid ≠ [])
    (hbr : pre ≠ [] ∨ post = []) :
    delTokens c store items pre.length (pre.length + mid.length) = .ok (L ++ layout ph (pre ++ post) ++ R) := by
  have hne := wf.nonempty
  have hne_pre : ItemsNonempty pre := (ItemsNonempty.append.mp (ItemsNonempty.append.mp hne).1).1
  have hne_mid : ItemsNonempty mid := (ItemsNonempty.append.mp (ItemsNonempty.append.mp hne).1).2
  have hmlen : 0 < mid.length := List.length_pos_iff.mpr hmid
  have hitems : items = spans (pre ++ (mid ++ post)) := by rw [wf.items_eq, List.append_assoc]
  have hilen : items.length = pre.length + mid.length + post.length := by
    rw [wf.items_eq]; simp; omega
  -- the reference token
  obtain ⟨t, ht, hpl⟩ := prevLast_eq (c := c) (ph := ph) pre (mid ++ post) wf.ph_id hne_pre
  rw [← hitems] at hpl
  -- first and last token of the removed window
  have hbody : body mid ≠ [] := body_ne_nil hmid hne_mid
  obtain ⟨f, hf⟩ := exists_head hbody
  obtain ⟨mid0, sgl, rfl⟩ : ∃ mid0 sgl, mid = mid0 ++ [sgl] := by
    rcases snoc_cases mid with h | h
    · exact absurd h hmid
    · exact h
  have hsgl : sgl.2 ≠ [] := (ItemsNonempty.append.mp hne_mid).2 sgl (by simp)
  obtain ⟨l, hl⟩ := exists_getLast hsgl
  have hlast : (body (mid0 ++ [sgl])).getLast? = some l := by
    rw [body_getLast? mid0 rfl hsgl, hl]
  -- the store, cut around the window
  have hstore : store = (L ++ layout ph pre) ++ body (mid0 ++ [sgl]) ++ (body post ++ R) := by
    rw [wf.store_eq, layout_append, layout_append]; simp
  have hd : Distinct ((L ++ layout ph pre) ++ body (mid0 ++ [sgl]) ++ (body post ++ R)) := by
    rw [← hstore]; exact wf.distinct
  have hd2 : Distinct ((L ++ layout ph pre) ++ (body (mid0 ++ [sgl]) ++ (body post ++ R))) := by
    simpa using hd
  have hPlast : (L ++ layout ph pre).getLast? = some t := by
    rw [List.getLast?_append, ht]; rfl
  have hnext : next t.id store = .ok (some f.id) := by
    rw [hstore, List.append_assoc, next_after hPlast hd2, List.head?_append, hf]; rfl
  have hget : items[pre.length + (mid0 ++ [sgl]).length - 1]? = some (spanOf sgl.2) := by
    rw [wf.items_eq]
    have : pre.length + (mid0 ++ [sgl]).length - 1 = (pre ++ mid0).length := by simp
    rw [this]
    simp [spans]
  have hrm := removeRange_frame (a := L ++ layout ph pre) (b := body post ++ R) hf hlast hd
  -- run the definition
  unfold delTokens
  have h1 : ¬ (pre.length + (mid0 ++ [sgl]).length ≤ pre.length) := by omega
  have h2 : ¬ (pre.length = 0 ∧ pre.length + (mid0 ++ [sgl]).length < items.length) := by
    rintro ⟨ha, hb⟩
    rcases hbr with hb' | hb'
    · exact hb' (List.length_eq_zero_iff.mp ha)
    · rw [hilen, hb'] at hb; simp at hb
  rw [if_neg h1, if_neg h2, hpl]
  simp only
  rw [hnext]
  simp only
  rw [hget]
  simp only
  rw [spanOf_last hl, hstore, hrm, layout_append]
  simp

/-- first branch of `_del_tokens` (`start = 0`, `stop < len(items)`): `items[0].first_token …
get_prev(items[stop].first_token)` disappears; the gap before the old first item stays and becomes the gap
of the first surviving item, whose own gap is deleted. -/
theorem delTokens_head {c : Cfg} {store : List Tk} {items : List Span} {L R : List Tk} {ph : Tk}
    {g0 it0 gs its : List Tk} {mid' post' : List Seg}
    (wf : RegionWF c store items L R ph ((g0, it0) :: mid' ++ (gs, its) :: post')) :
    delTokens c store items 0 (mid'.length + 1) = .ok (L ++ layout ph ((g0, its) :: post') ++ R) := by
  have hne := wf.nonempty
  have hne1 : ItemsNonempty ((g0, it0) :: mid') := (ItemsNonempty.append.mp hne).1
  have hne2 : ItemsNonempty ((gs, its) :: post') := (ItemsNonempty.append.mp hne).2
  have hit0 : it0 ≠ [] := (ItemsNonempty.cons.mp hne1).1
  have hits : its ≠ [] := (ItemsNonempty.cons.mp hne2).1
  obtain ⟨f, hf⟩ := exists_head hit0
  obtain ⟨n, hn⟩ := exists_head hits
  have hilen : items.length = (mid'.length + 1) + (post'.length + 1) := by
    rw [wf.items_eq]; simp; omega
  -- removed window: it0 ++ body mid' ++ gs
  have hW : it0 ++ body mid' ++ gs ≠ [] := by simp [hit0]
  obtain ⟨l, hl⟩ := exists_getLast hW
  have hWhead : (it0 ++ body mid' ++ gs).head? = some f := by
    rw [List.append_assoc, List.head?_append, hf]; rfl
  have hstore : store = (L ++ (ph :: g0)) ++ (it0 ++ body mid' ++ gs) ++ (its ++ body post' ++ R) := by
    rw [wf.store_eq]; simp [layout, body_append]
  have hd : Distinct ((L ++ (ph :: g0)) ++ (it0 ++ body mid' ++ gs) ++ (its ++ body post' ++ R)) := by
    rw [← hstore]; exact wf.distinct
  have hprev : prev n.id store = .ok (some l.id) := by
    rw [hstore]
    have hq : (its ++ body post' ++ R).head? = some n := by
      rw [List.append_assoc, List.head?_append, hn]; rfl
    rw [prev_before hq hd, List.getLast?_append, hl]; rfl
  have hget0 : items[0]? = some (spanOf it0) := by rw [wf.items_eq]; simp [spans]
  have hgetS : items[mid'.length + 1]? = some (spanOf its) := by
    rw [wf.items_eq]
    have : mid'.length + 1 = ((g0, it0) :: mid').length := by simp
    rw [this]
    simp [spans]
  have hrm := removeRange_frame (a := L ++ (ph :: g0)) (b := its ++ body post' ++ R) hWhead hl hd
  unfold delTokens
  have h1 : ¬ (mid'.length + 1 ≤ 0) := by omega
  have h2 : (0 = 0 ∧ mid'.length + 1 < items.length) := ⟨rfl, by omega⟩
  rw [if_neg h1, if_pos h2, hget0, hgetS]
  simp only
  rw [spanOf_first hn, hprev]
  simp only
  rw [spanOf_first hf, hstore, hrm]
  simp [layout]

/-- `stop ≤ start`: nothing happens. -/
theorem delTokens_noop (c : Cfg) (store : List Tk) (items : List Span) {start stop : Nat} (h : stop ≤ start) :
    delTokens c store items start stop = .ok store := by
  simp [delTokens, h]

end Autobean.Rep
