/-
Store segments (`seg`, `tokensOf`), position-aligned documents, the deep-copy renaming, and the basic
facts about `treeEq` (reflexive, symmetric, transitive, descends along paths).  Core Lean only.
Used by `Properties/C11.lean` and `Properties/C20.lean`.
-/
import Autobean.Proofs.TreeLemmas
namespace Autobean
open List

@[simp] theorem ids_nil : ids [] = [] := rfl
@[simp] theorem ids_cons (t : TTk) (ts) : ids (t :: ts) = t.id :: ids ts := rfl
@[simp] theorem ids_append (a b : List TTk) : ids (a ++ b) = ids a ++ ids b := by simp [ids]
theorem mem_ids {s : List TTk} {i : Nat} : i ∈ ids s ↔ ∃ t ∈ s, t.id = i := by simp [ids]

theorem upTo_append (B : List TTk) (y : TTk) (C : List TTk) (h : y.id ∉ ids B) :
    upTo y.id (B ++ y :: C) = some (B ++ [y]) := by
  induction B with
  | nil => simp [upTo]
  | cons b B ih =>
    simp only [ids_cons, List.mem_cons, not_or] at h
    simp [upTo, Ne.symm h.1, ih h.2]

/-- The slice between the ends of a middle part of a store with distinct identities is that part. -/
theorem seg_mid (A B : List TTk) (y : TTk) (C : List TTk) (f : Nat)
    (hnd : (ids (A ++ (B ++ [y]) ++ C)).Nodup) (hf : (B ++ [y]).head?.map (·.id) = some f) :
    seg (A ++ (B ++ [y]) ++ C) f y.id = B ++ [y] := by
  induction A with
  | nil =>
    cases B with
    | nil =>
      simp at hf
      simp [seg, upTo, hf]
    | cons x B =>
      simp at hf
      have hy : y.id ∉ ids (x :: B) := by
        simp only [List.nil_append, ids_append, List.nodup_append] at hnd
        intro hmem
        exact hnd.1.2.2 _ hmem _ (by simp) rfl
      have := upTo_append (x :: B) y C hy
      simp only [List.cons_append] at this
      simp [seg, hf, this]
  | cons a A ih =>
    have hne : a.id ≠ f := by
      intro h
      have hfm : f ∈ ids (A ++ (B ++ [y]) ++ C) := by
        cases B with
        | nil => simp at hf; simp [hf]
        | cons x B => simp at hf; simp [hf]
      simp only [List.cons_append, ids_cons, List.nodup_cons] at hnd
      exact hnd.1 (h ▸ hfm)
    simp only [List.cons_append, ids_cons, List.nodup_cons] at hnd
    simp only [List.cons_append, seg, hne, if_false]
    exact ih hnd.2


/-- A non-empty order-preserving sub-sequence of the store identities ends inside a prefix of the store
that still contains all of it. -/
theorem sublist_prefix : ∀ (s : List TTk) (L : List Nat), L ≠ [] → L <+ ids s →
    ∃ S C, s = S ++ C ∧ S.getLast?.map (·.id) = L.getLast? ∧ L <+ ids S := by
  intro s
  induction s with
  | nil => intro L hL h; simp at h; exact absurd h hL
  | cons u us ih =>
    intro L hL h
    rw [ids_cons, List.sublist_cons_iff] at h
    rcases h with h | ⟨r, rfl, hr⟩
    · obtain ⟨S, C, rfl, hl, hs⟩ := ih L hL h
      refine ⟨u :: S, C, by simp, ?_, ?_⟩
      · cases hS : S.getLast? with
        | none =>
          rw [hS] at hl
          cases L with
          | nil => exact absurd rfl hL
          | cons a L => simp [List.getLast?_cons] at hl
        | some z => rw [List.getLast?_cons, hS, ← hl, hS]; rfl
      · simpa using hs.trans (List.sublist_cons_self u.id (ids S))
    · by_cases hr0 : r = []
      · subst hr0
        exact ⟨[u], us, by simp, by simp, by simp⟩
      · obtain ⟨S, C, rfl, hl, hs⟩ := ih r hr0 hr
        refine ⟨u :: S, C, by simp, ?_, ?_⟩
        · cases hS : S.getLast? with
          | none =>
            rw [hS] at hl
            cases r with
            | nil => exact absurd rfl hr0
            | cons a r => simp [List.getLast?_cons] at hl
          | some z =>
            cases r with
            | nil => exact absurd rfl hr0
            | cons a r =>
              rw [List.getLast?_cons, hS, List.getLast?_cons_cons, ← hl, hS]; rfl
        · simpa using hs.cons_cons u.id


/-- A non-empty order-preserving sub-sequence `L` of the store identities lies inside the middle part
that starts at its first and ends at its last element. -/
theorem sublist_decomp : ∀ (s : List TTk) (L : List Nat), L ≠ [] → L <+ ids s →
    ∃ A S C, s = A ++ S ++ C ∧ S.head?.map (·.id) = L.head? ∧ S.getLast?.map (·.id) = L.getLast? ∧
      L <+ ids S := by
  intro s
  induction s with
  | nil => intro L hL h; simp at h; exact absurd h hL
  | cons u us ih =>
    intro L hL h
    have h0 := h
    rw [ids_cons, List.sublist_cons_iff] at h
    rcases h with h | ⟨r, rfl, _⟩
    · obtain ⟨A, S, C, rfl, h1, h2, h3⟩ := ih L hL h
      exact ⟨u :: A, S, C, by simp, h1, h2, h3⟩
    · obtain ⟨S, C, hs, h2, h3⟩ := sublist_prefix (u :: us) (u.id :: r) hL h0
      refine ⟨[], S, C, by simpa using hs, ?_, h2, h3⟩
      cases S with
      | nil => simp at h3
      | cons x S =>
        simp only [List.cons_append, List.cons.injEq] at hs
        simp [hs.1]

/-- `spanOf` is the middle part of the store spanned by the leaves (under the invariant). -/
theorem spanOf_decomp {s : List TTk} {t : Tree} (hnd : (ids s).Nodup) (hsub : t.leaves <+ ids s)
    (hne : t.leaves ≠ []) :
    ∃ A C, s = A ++ spanOf s t ++ C ∧
      (spanOf s t).head?.map (·.id) = t.leaves.head? ∧
      (spanOf s t).getLast?.map (·.id) = t.leaves.getLast? ∧
      t.leaves <+ ids (spanOf s t) := by
  obtain ⟨A, S, C, rfl, h1, h2, h3⟩ := sublist_decomp s t.leaves hne hsub
  have hS : spanOf (A ++ S ++ C) t = S := by
    cases hL : t.leaves with
    | nil => exact absurd hL hne
    | cons f L =>
      rw [hL] at h1 h2
      have hSne : S ≠ [] := by intro h; subst h; simp at h1
      obtain ⟨B, y, rfl⟩ : ∃ B y, S = B ++ [y] := ⟨S.dropLast, S.getLast hSne, (List.dropLast_concat_getLast hSne).symm⟩
      have hy : ((f :: L).getLast?) = some y.id := by rw [← h2]; simp
      unfold spanOf
      rw [hL, hy]
      simp only [List.head?_cons]
      exact seg_mid A B y C f hnd (by simpa using h1)
  refine ⟨A, C, by rw [hS], by rw [hS]; exact h1, by rw [hS]; exact h2, by rw [hS]; exact h3⟩

/-- The tokens of a sub-tree whose leaves lie in a middle part `S` of the store are the same whether taken
in `S` or in the whole store. -/
theorem spanOf_restrict {A S C : List TTk} {t : Tree} (hnd : (ids (A ++ S ++ C)).Nodup)
    (hsub : t.leaves <+ ids S) :
    spanOf (A ++ S ++ C) t = spanOf S t := by
  by_cases hne : t.leaves = []
  · simp [spanOf, hne]
  · have hndS : (ids S).Nodup := by
      simp only [ids_append, List.nodup_append] at hnd
      exact hnd.1.2.1
    obtain ⟨A2, C2, hS, h1, h2, _⟩ := spanOf_decomp hndS hsub hne
    generalize spanOf S t = T at *
    subst hS
    cases hL : t.leaves with
    | nil => exact absurd hL hne
    | cons f L =>
      rw [hL] at h1 h2
      have hTne : T ≠ [] := by intro h; subst h; simp at h1
      obtain ⟨B, y, rfl⟩ : ∃ B y, T = B ++ [y] := ⟨T.dropLast, T.getLast hTne, (List.dropLast_concat_getLast hTne).symm⟩
      have hy : ((f :: L).getLast?) = some y.id := by rw [← h2]; simp
      unfold spanOf
      rw [hL, hy]
      simp only [List.head?_cons]
      have := seg_mid (A ++ A2) B y (C2 ++ C) f (by simpa [List.append_assoc] using hnd) (by simpa using h1)
      simpa [List.append_assoc] using this


/-! ### Position-aligned stores -/

theorem leaves_length_shape : ∀ t : Tree, t.shape.leaves.length = t.leaves.length := by
  intro t
  induction t using Tree.induct with
  | tok i => simp
  | absent => simp
  | node c g ind fs ih =>
    simp only [Tree.shape_node, Tree.leaves_node, List.flatMap_map, List.length_flatMap]
    congr 1
    exact List.map_congr_left ih
  | rep g ph is ih =>
    simp only [Tree.shape_rep, Tree.leaves_rep, List.flatMap_map, List.length_cons, List.length_flatMap]
    congr 2
    exact List.map_congr_left ih

theorem shape_eq_leaves_length {a b : Tree} (h : a.shape = b.shape) : a.leaves.length = b.leaves.length := by
  rw [← leaves_length_shape a, ← leaves_length_shape b, h]

/-- Cut the second store at the same places as the first. -/
theorem split_aligned {A T C Sb : List TTk} {ρ : Nat → Nat}
    (hids : ids Sb = (ids (A ++ T ++ C)).map ρ) (hkt : Sb.map TTk.kt = (A ++ T ++ C).map TTk.kt) :
    ∃ A' T' C', Sb = A' ++ T' ++ C' ∧ ids T' = (ids T).map ρ ∧ T'.map TTk.kt = T.map TTk.kt := by
  simp only [ids_append, List.map_append] at hids
  unfold ids at hids
  rw [List.map_eq_append_iff] at hids
  obtain ⟨X, C', rfl, hX, hC⟩ := hids
  rw [List.map_eq_append_iff] at hX
  obtain ⟨A', T', rfl, hA, hT⟩ := hX
  refine ⟨A', T', C', rfl, hT, ?_⟩
  simp only [List.map_append] at hkt
  have hlenA : (A'.map TTk.kt).length = (A.map TTk.kt).length := by
    have := congrArg List.length hA; simpa using this
  have hlenT : (T'.map TTk.kt).length = (T.map TTk.kt).length := by
    have := congrArg List.length hT; simpa using this
  rw [List.append_assoc, List.append_assoc] at hkt
  have h2 := (List.append_inj hkt hlenA).2
  exact (List.append_inj h2 hlenT).1

/-- Corresponding sub-trees of position-aligned stores have `(RULE, text)`-equal token lists. -/
theorem spanKT_of_aligned {Sa Sb : List TTk} {ρ : Nat → Nat}
    (hnd : (ids Sa).Nodup) (hnd' : (ids Sb).Nodup)
    (hids : ids Sb = (ids Sa).map ρ) (hkt : Sb.map TTk.kt = Sa.map TTk.kt)
    {a b : Tree} (hl : b.leaves = a.leaves.map ρ) (hsub : a.leaves <+ ids Sa) :
    (spanOf Sb b).map TTk.kt = (spanOf Sa a).map TTk.kt := by
  by_cases hne : a.leaves = []
  · have : b.leaves = [] := by rw [hl, hne]; rfl
    simp [spanOf, hne, this]
  · obtain ⟨A, C, hS, h1, h2, _⟩ := spanOf_decomp hnd hsub hne
    generalize spanOf Sa a = T at *
    subst hS
    obtain ⟨A', T', C', rfl, hT, hTkt⟩ := split_aligned hids hkt
    rw [← hTkt]
    congr 1
    cases hL : a.leaves with
    | nil => exact absurd hL hne
    | cons f L =>
      rw [hL] at h1 h2 hl
      have hTne : T ≠ [] := by intro h; subst h; simp at h1
      have hT'ne : T' ≠ [] := by
        intro h; subst h
        have := congrArg List.length hT
        simp [ids] at this
        exact hTne (List.length_eq_zero_iff.mp this.symm)
      obtain ⟨B, y, rfl⟩ : ∃ B y, T' = B ++ [y] :=
        ⟨T'.dropLast, T'.getLast hT'ne, (List.dropLast_concat_getLast hT'ne).symm⟩
      have hhead : (B ++ [y]).head?.map (·.id) = some (ρ f) := by
        have : (ids (B ++ [y])).head? = ((ids T).map ρ).head? := by rw [hT]
        simp only [ids, List.head?_map] at this h1 ⊢
        rw [this, h1]; rfl
      have hlast : (ρ f :: L.map ρ).getLast? = some y.id := by
        have : (ids (B ++ [y])).getLast? = ((ids T).map ρ).getLast? := by rw [hT]
        simp only [ids, List.getLast?_map] at this h2
        rw [h2] at this
        rw [← List.map_cons, List.getLast?_map, ← this]
        simp
      unfold spanOf
      rw [hl, List.map_cons, hlast]
      simp only [List.head?_cons]
      exact seg_mid A' B y C' (ρ f) hnd' hhead


/-! ### `treeEq` between position-aligned documents -/

theorem sublist_flatMap_of_mem {α β} {f : α → List β} {l : List α} {a : α} (h : a ∈ l) :
    f a <+ l.flatMap f := by
  induction l with
  | nil => cases h
  | cons x l ih =>
    simp only [List.flatMap_cons]
    cases h with
    | head => exact List.sublist_append_left _ _
    | tail _ h => exact (ih h).trans (List.sublist_append_right _ _)

/-- **Core lemma.**  Two documents whose relevant store parts `Sa`, `Sb` correspond position by position
(identities through `ρ`, same `(RULE, text)`), and two trees of the same shape whose leaves correspond
through `ρ`: the trees compare equal. -/
theorem treeEq_of_aligned {A Sa C A' Sb C' : List TTk} {ρ : Nat → Nat}
    (hnd : (ids (A ++ Sa ++ C)).Nodup) (hnd' : (ids (A' ++ Sb ++ C')).Nodup)
    (hids : ids Sb = (ids Sa).map ρ) (hkt : Sb.map TTk.kt = Sa.map TTk.kt) :
    (∀ a b : Tree, a.fileFree = true → a.shape = b.shape → b.leaves = a.leaves.map ρ → a.leaves <+ ids Sa →
      treeEq (A ++ Sa ++ C) (A' ++ Sb ++ C') a b = true) ∧
    (∀ fs fs' : List Tree, fs.all Tree.fileFree = true → fs.map Tree.shape = fs'.map Tree.shape →
      fs'.flatMap Tree.leaves = (fs.flatMap Tree.leaves).map ρ → fs.flatMap Tree.leaves <+ ids Sa →
      treeEqL (A ++ Sa ++ C) (A' ++ Sb ++ C') fs fs' = true) := by
  have hndS : (ids Sa).Nodup := by
    simp only [ids_append, List.nodup_append] at hnd; exact hnd.1.2.1
  have hndS' : (ids Sb).Nodup := by
    simp only [ids_append, List.nodup_append] at hnd'; exact hnd'.1.2.1
  -- token lists of corresponding sub-trees
  have hseg : ∀ a b : Tree, a.isFile = false → a.shape = b.shape → b.leaves = a.leaves.map ρ → a.leaves <+ ids Sa →
      segKT (A ++ Sa ++ C) a = segKT (A' ++ Sb ++ C') b := by
    intro a b hfa hsh hl hsub
    have hfb : b.isFile = false := by rw [← Tree.isFile_shape, ← hsh, Tree.isFile_shape]; exact hfa
    have hsub' : b.leaves <+ ids Sb := by rw [hl, hids]; exact hsub.map ρ
    unfold segKT
    rw [tokensOf_of_not_file hfa, tokensOf_of_not_file hfb, spanOf_restrict hnd hsub, spanOf_restrict hnd' hsub']
    exact (spanKT_of_aligned hndS hndS' hids hkt hl hsub).symm
  -- child lists
  have hlist : ∀ fs : List Tree,
      (∀ t ∈ fs, ∀ b : Tree, t.fileFree = true → t.shape = b.shape → b.leaves = t.leaves.map ρ → t.leaves <+ ids Sa →
        treeEq (A ++ Sa ++ C) (A' ++ Sb ++ C') t b = true) →
      ∀ fs' : List Tree, fs.all Tree.fileFree = true → fs.map Tree.shape = fs'.map Tree.shape →
        fs'.flatMap Tree.leaves = (fs.flatMap Tree.leaves).map ρ → fs.flatMap Tree.leaves <+ ids Sa →
        treeEqL (A ++ Sa ++ C) (A' ++ Sb ++ C') fs fs' = true := by
    intro fs
    induction fs with
    | nil =>
      intro _ fs' _ hsh _ _
      cases fs' with
      | nil => simp [treeEqL]
      | cons _ _ => simp at hsh
    | cons f fs ihfs =>
      intro ih fs' hff hsh hl hsub
      simp only [List.all_cons, Bool.and_eq_true] at hff
      cases fs' with
      | nil => simp at hsh
      | cons f' fs' =>
        simp only [List.map_cons, List.cons.injEq] at hsh
        simp only [List.flatMap_cons, List.map_append] at hl hsub
        have hlen : f'.leaves.length = (f.leaves.map ρ).length := by
          rw [List.length_map]; exact (shape_eq_leaves_length hsh.1).symm
        obtain ⟨hl1, hl2⟩ := List.append_inj hl hlen
        have hs1 : f.leaves <+ ids Sa := (List.sublist_append_left _ _).trans hsub
        have hs2 : fs.flatMap Tree.leaves <+ ids Sa := (List.sublist_append_right _ _).trans hsub
        simp only [treeEqL, Bool.and_eq_true]
        exact ⟨ih f (by simp) f' hff.1 hsh.1 hl1 hs1,
          ihfs (fun t ht => ih t (by simp [ht])) fs' hff.2 hsh.2 hl2 hs2⟩
  have hmain : ∀ a b : Tree, a.fileFree = true → a.shape = b.shape → b.leaves = a.leaves.map ρ →
      a.leaves <+ ids Sa → treeEq (A ++ Sa ++ C) (A' ++ Sb ++ C') a b = true := by
   intro a
   induction a using Tree.induct with
   | tok i =>
    intro b _ hsh hl hsub
    cases b with
    | tok j => simp only [treeEq, beq_iff_eq]; exact hseg _ _ (by simp [Tree.isFile]) hsh hl hsub
    | absent => simp at hsh
    | node _ _ _ _ => simp at hsh
    | rep _ _ _ => simp at hsh
   | absent =>
    intro b _ hsh _ _
    cases b with
    | absent => simp [treeEq]
    | tok _ => simp at hsh
    | node _ _ _ _ => simp at hsh
    | rep _ _ _ => simp at hsh
   | node c g ind fs ih =>
    intro b hff hsh hl hsub
    cases b with
    | tok _ => simp at hsh
    | absent => simp at hsh
    | rep _ _ _ => simp at hsh
    | node c' g' ind' fs' =>
      have hseg' := hseg _ _ (Tree.isFile_of_fileFree hff) hsh hl hsub
      simp only [Tree.shape_node, Tree.node.injEq, true_and] at hsh
      simp only [Tree.fileFree, Tree.fileFreeL_eq, Bool.and_eq_true] at hff
      simp only [Tree.leaves_node] at hl hsub
      simp only [treeEq, Bool.and_eq_true, beq_iff_eq]
      exact ⟨⟨⟨hseg', hsh.1⟩, hlist fs ih fs' hff.2 hsh.2.2 hl hsub⟩, hsh.2.1⟩
   | rep g ph is ih =>
    intro b hff hsh hl hsub
    cases b with
    | tok _ => simp at hsh
    | absent => simp at hsh
    | node _ _ _ _ => simp at hsh
    | rep g' ph' is' =>
      have hseg' := hseg _ _ (Tree.isFile_of_fileFree hff) hsh hl hsub
      simp only [Tree.shape_rep, Tree.rep.injEq, true_and] at hsh
      simp only [Tree.fileFree, Tree.fileFreeL_eq] at hff
      simp only [Tree.leaves_rep, List.map_cons, List.cons.injEq] at hl
      simp only [Tree.leaves_rep] at hsub
      simp only [treeEq, Bool.and_eq_true, beq_iff_eq]
      exact ⟨hseg', hlist is ih is' hff hsh hl.2 ((List.sublist_cons_self _ _).trans hsub)⟩
  exact ⟨hmain, fun fs fs' hff hsh hl hsub =>
    hlist fs (fun t _ b => hmain t b) fs' hff hsh hl hsub⟩


/-! ### Deep copy: the identity map, the copied tokens, `clone` -/

/-- The renaming used by a deep copy as a total function (`0` outside the copied range). -/
def renOf (base : Nat) (xs : List Nat) (i : Nat) : Nat := (renId base xs i).getD 0

theorem renId_isSome_of_mem {base : Nat} {xs : List Nat} {i : Nat} (h : i ∈ xs) :
    (renId base xs i).isSome = true := by
  induction xs generalizing base with
  | nil => cases h
  | cons x xs ih =>
    simp only [renId]
    by_cases hx : x = i
    · simp [hx]
    · simp only [hx, if_false]
      exact ih (by simpa [Ne.symm hx] using h)

theorem renId_bounds {base : Nat} {xs : List Nat} {i j : Nat} (h : renId base xs i = some j) :
    base ≤ j ∧ j < base + xs.length := by
  induction xs generalizing base with
  | nil => simp [renId] at h
  | cons x xs ih =>
    simp only [renId] at h
    by_cases hx : x = i
    · simp [hx] at h; subst h; simp
    · simp only [hx, if_false] at h
      have := ih h
      simp only [List.length_cons]
      omega

theorem ids_copyToks_range (base : Nat) (S : List TTk) : ids (copyToks base S) = List.range' base S.length := by
  induction S generalizing base with
  | nil => simp [copyToks]
  | cons t ts ih => simp [copyToks, ih, List.range'_succ]

/-- The copied store is the original range with every identity renamed (kind, text, claimed kept). -/
theorem copyToks_eq_map (base : Nat) (S : List TTk) (hnd : (ids S).Nodup) :
    copyToks base S = S.map fun t => { t with id := renOf base (ids S) t.id } := by
  induction S generalizing base with
  | nil => simp [copyToks]
  | cons t ts ih =>
    simp only [ids_cons, List.nodup_cons] at hnd
    simp only [copyToks, List.map_cons, ids_cons, List.cons.injEq]
    refine ⟨by simp [renOf, renId], ?_⟩
    rw [ih (base + 1) hnd.2]
    apply List.map_congr_left
    intro u hu
    have hne : t.id ≠ u.id := by
      intro h; exact hnd.1 (h ▸ mem_ids.mpr ⟨u, hu, rfl⟩)
    simp [renOf, renId, hne]

theorem ids_copyToks (base : Nat) (S : List TTk) (hnd : (ids S).Nodup) :
    ids (copyToks base S) = (ids S).map (renOf base (ids S)) := by
  rw [copyToks_eq_map base S hnd]; simp [ids]

theorem copyToks_kt (base : Nat) (S : List TTk) : (copyToks base S).map TTk.kt = S.map TTk.kt := by
  induction S generalizing base with
  | nil => simp [copyToks]
  | cons t ts ih => simp [copyToks, ih, TTk.kt]

theorem copyToks_text (base : Nat) (S : List TTk) : textOf (copyToks base S) = textOf S := by
  induction S generalizing base with
  | nil => simp [copyToks]
  | cons t ts ih =>
    have := ih (base + 1)
    simp only [textOf] at this ⊢
    simp [copyToks, this]

theorem copyToks_claimed (base : Nat) (S : List TTk) :
    (copyToks base S).map (·.claimed) = S.map (·.claimed) := by
  induction S generalizing base with
  | nil => simp [copyToks]
  | cons t ts ih => simp [copyToks, ih]

/-- The renaming is injective on the copied range. -/
theorem renOf_inj {base : Nat} {xs : List Nat} (hnd : xs.Nodup) {i j : Nat} (hi : i ∈ xs) (hj : j ∈ xs)
    (h : renOf base xs i = renOf base xs j) : i = j := by
  induction xs generalizing base with
  | nil => cases hi
  | cons x xs ih =>
    simp only [List.nodup_cons] at hnd
    unfold renOf at h
    simp only [renId] at h
    by_cases hxi : x = i <;> by_cases hxj : x = j
    · rw [← hxi, ← hxj]
    · subst hxi
      have hj' : j ∈ xs := by simpa [Ne.symm hxj] using hj
      have hs := renId_isSome_of_mem (base := base + 1) hj'
      obtain ⟨k, hk⟩ := Option.isSome_iff_exists.mp hs
      have := (renId_bounds hk).1
      rw [if_pos rfl, if_neg hxj, hk, Option.getD_some, Option.getD_some] at h
      omega
    · subst hxj
      have hi' : i ∈ xs := by simpa [Ne.symm hxi] using hi
      have hs := renId_isSome_of_mem (base := base + 1) hi'
      obtain ⟨k, hk⟩ := Option.isSome_iff_exists.mp hs
      have := (renId_bounds hk).1
      rw [if_pos rfl, if_neg hxi, hk, Option.getD_some, Option.getD_some] at h
      omega
    · simp only [hxi, hxj, if_false] at h
      exact ih hnd.2 (by simpa [Ne.symm hxi] using hi) (by simpa [Ne.symm hxj] using hj) h

/-- When the map is defined on every leaf, `clone` succeeds and returns the renamed, re-tagged tree. -/
theorem clone_ok (m : Nat → Option Nat) (σ : Nat) :
    ∀ t : Tree, (∀ i ∈ t.leaves, (m i).isSome = true) →
      clone m σ t = .ok (t.mapIds (fun i => (m i).getD 0) σ) := by
  have hlist : ∀ fs : List Tree,
      (∀ t ∈ fs, (∀ i ∈ t.leaves, (m i).isSome = true) → clone m σ t = .ok (t.mapIds (fun i => (m i).getD 0) σ)) →
      (∀ i ∈ fs.flatMap Tree.leaves, (m i).isSome = true) →
      cloneL m σ fs = .ok (fs.map (Tree.mapIds (fun i => (m i).getD 0) σ)) := by
    intro fs
    induction fs with
    | nil => intro _ _; simp [cloneL]
    | cons f fs ihfs =>
      intro ih hall
      simp only [List.flatMap_cons, List.mem_append] at hall
      simp only [cloneL, ih f (by simp) (fun i hi => hall i (Or.inl hi)),
        ihfs (fun t ht => ih t (by simp [ht])) (fun i hi => hall i (Or.inr hi)), List.map_cons]
  intro t
  induction t using Tree.induct with
  | tok i =>
    intro h
    have := h i (by simp)
    obtain ⟨j, hj⟩ := Option.isSome_iff_exists.mp this
    simp [clone, hj]
  | absent => intro _; simp [clone]
  | node c g ind fs ih =>
    intro h
    simp only [Tree.leaves_node] at h
    simp [clone, hlist fs ih h]
  | rep g ph is ih =>
    intro h
    simp only [Tree.leaves_rep, List.mem_cons] at h
    obtain ⟨j, hj⟩ := Option.isSome_iff_exists.mp (h ph (Or.inl rfl))
    simp [clone, hj, hlist is ih (fun i hi => h i (Or.inr hi))]

/-- Conversely, a leaf outside the map makes `clone` raise `KeyError`. -/
theorem clone_error_of_unmapped (m : Nat → Option Nat) (σ : Nat) :
    ∀ t : Tree, (∃ i ∈ t.leaves, m i = none) → clone m σ t = .error "KeyError" := by
  have hlist : ∀ fs : List Tree,
      (∀ t ∈ fs, (∃ i ∈ t.leaves, m i = none) → clone m σ t = .error "KeyError") →
      (∃ i ∈ fs.flatMap Tree.leaves, m i = none) → cloneL m σ fs = .error "KeyError" := by
    intro fs
    induction fs with
    | nil => intro _ h; simp at h
    | cons f fs ihfs =>
      intro ih ⟨i, hi, hm⟩
      simp only [List.flatMap_cons, List.mem_append] at hi
      simp only [cloneL]
      by_cases hf : ∃ i ∈ f.leaves, m i = none
      · rw [ih f (by simp) hf]
      · have hi' : i ∈ fs.flatMap Tree.leaves := by
          rcases hi with hi | hi
          · exact absurd ⟨i, hi, hm⟩ hf
          · exact hi
        have hrest := ihfs (fun t ht => ih t (by simp [ht])) ⟨i, hi', hm⟩
        have hok := clone_ok m σ f (by
          intro k hk
          cases hmk : m k with
          | none => exact absurd ⟨k, hk, hmk⟩ hf
          | some _ => rfl)
        rw [hrest, hok]
  intro t
  induction t using Tree.induct with
  | tok i => intro ⟨j, hj, hm⟩; simp at hj; subst hj; simp [clone, hm]
  | absent => intro ⟨j, hj, _⟩; simp at hj
  | node c g ind fs ih =>
    intro h
    simp only [Tree.leaves_node] at h
    simp [clone, hlist fs ih h]
  | rep g ph is ih =>
    intro ⟨i, hi, hm⟩
    simp only [Tree.leaves_rep, List.mem_cons] at hi
    simp only [clone]
    cases hph : m ph with
    | none => rfl
    | some j =>
      have hi' : i ∈ is.flatMap Tree.leaves := by
        rcases hi with hi | hi
        · subst hi; rw [hph] at hm; cases hm
        · exact hi
      simp [hlist is ih ⟨i, hi', hm⟩]


/-! ### `treeEq`: basic facts -/

theorem treeEq_segKT {sa sb : List TTk} : ∀ {a b : Tree}, treeEq sa sb a b = true → segKT sa a = segKT sb b := by
  intro a b h
  cases a <;> cases b <;> simp only [treeEq, Bool.and_eq_true, beq_iff_eq, Bool.false_eq_true] at h
  · exact h
  · simp [segKT, tokensOf, spanOf, Tree.isFile]
  · exact h.1.1.1
  · exact h.1

theorem treeEqL_length {sa sb : List TTk} : ∀ {as bs : List Tree}, treeEqL sa sb as bs = true → as.length = bs.length := by
  intro as
  induction as with
  | nil => intro bs h; cases bs <;> simp_all [treeEqL]
  | cons a as ih =>
    intro bs h
    cases bs with
    | nil => simp [treeEqL] at h
    | cons b bs =>
      simp only [treeEqL, Bool.and_eq_true] at h
      simp [ih h.2]

/-- Children at the same position of equal child lists are equal. -/
theorem treeEqL_split {sa sb : List TTk} : ∀ {pre pre' : List Tree} {a b : Tree} {post post' : List Tree},
    pre.length = pre'.length → treeEqL sa sb (pre ++ a :: post) (pre' ++ b :: post') = true →
    treeEq sa sb a b = true := by
  intro pre
  induction pre with
  | nil =>
    intro pre' a b post post' hlen h
    cases pre' with
    | nil => simp only [List.nil_append, treeEqL, Bool.and_eq_true] at h; exact h.1
    | cons _ _ => simp at hlen
  | cons p pre ih =>
    intro pre' a b post post' hlen h
    cases pre' with
    | nil => simp at hlen
    | cons p' pre' =>
      simp only [List.cons_append, treeEqL, Bool.and_eq_true] at h
      exact ih (by simpa using hlen) h.2

theorem treeEqL_refl_of {sa : List TTk} : ∀ fs : List Tree, (∀ t ∈ fs, treeEq sa sa t t = true) →
    treeEqL sa sa fs fs = true := by
  intro fs
  induction fs with
  | nil => intro _; simp [treeEqL]
  | cons f fs ih =>
    intro h
    simp only [treeEqL, Bool.and_eq_true]
    exact ⟨h f (by simp), ih (fun t ht => h t (by simp [ht]))⟩

theorem treeEq_refl (s : List TTk) : ∀ t : Tree, treeEq s s t t = true := by
  intro t
  induction t using Tree.induct with
  | tok i => simp [treeEq]
  | absent => simp [treeEq]
  | node c g ind fs ih => simp [treeEq, treeEqL_refl_of fs ih]
  | rep g ph is ih => simp [treeEq, treeEqL_refl_of is ih]

theorem treeEq_comm (sa sb : List TTk) : ∀ a b : Tree, treeEq sa sb a b = treeEq sb sa b a := by
  have hlist : ∀ fs : List Tree, (∀ t ∈ fs, ∀ b, treeEq sa sb t b = treeEq sb sa b t) →
      ∀ fs', treeEqL sa sb fs fs' = treeEqL sb sa fs' fs := by
    intro fs
    induction fs with
    | nil => intro _ fs'; cases fs' <;> simp [treeEqL]
    | cons f fs ihfs =>
      intro ih fs'
      cases fs' with
      | nil => simp [treeEqL]
      | cons f' fs' =>
        simp only [treeEqL]
        rw [ih f (by simp) f', ihfs (fun t ht => ih t (by simp [ht])) fs']
  intro a
  induction a using Tree.induct with
  | tok i => intro b; cases b <;> simp [treeEq, BEq.comm]
  | absent => intro b; cases b <;> simp [treeEq]
  | node c g ind fs ih =>
    intro b
    cases b with
    | node c' g' ind' fs' =>
      simp only [treeEq]
      rw [hlist fs ih fs', BEq.comm (a := c), BEq.comm (a := ind),
        BEq.comm (a := segKT sa (Tree.node c g ind fs))]
    | tok _ => simp [treeEq]
    | absent => simp [treeEq]
    | rep _ _ _ => simp [treeEq]
  | rep g ph is ih =>
    intro b
    cases b with
    | rep g' ph' is' =>
      simp only [treeEq]
      rw [hlist is ih is', BEq.comm (a := segKT sa (Tree.rep g ph is))]
    | tok _ => simp [treeEq]
    | absent => simp [treeEq]
    | node _ _ _ _ => simp [treeEq]

theorem treeEq_trans' (sa sb sc : List TTk) : ∀ a b c : Tree,
    treeEq sa sb a b = true → treeEq sb sc b c = true → treeEq sa sc a c = true := by
  have hlist : ∀ fs : List Tree,
      (∀ t ∈ fs, ∀ b c, treeEq sa sb t b = true → treeEq sb sc b c = true → treeEq sa sc t c = true) →
      ∀ fs' fs'', treeEqL sa sb fs fs' = true → treeEqL sb sc fs' fs'' = true → treeEqL sa sc fs fs'' = true := by
    intro fs
    induction fs with
    | nil =>
      intro _ fs' fs'' h1 h2
      cases fs' with
      | nil => cases fs'' <;> simp_all [treeEqL]
      | cons _ _ => simp [treeEqL] at h1
    | cons f fs ihfs =>
      intro ih fs' fs'' h1 h2
      cases fs' with
      | nil => simp [treeEqL] at h1
      | cons f' fs' =>
        cases fs'' with
        | nil => simp [treeEqL] at h2
        | cons f'' fs'' =>
          simp only [treeEqL, Bool.and_eq_true] at h1 h2 ⊢
          exact ⟨ih f (by simp) f' f'' h1.1 h2.1, ihfs (fun t ht => ih t (by simp [ht])) fs' fs'' h1.2 h2.2⟩
  intro a
  induction a using Tree.induct with
  | tok i =>
    intro b c h1 h2
    cases b <;> cases c <;> simp only [treeEq, beq_iff_eq, Bool.false_eq_true] at h1 h2 ⊢
    exact h1.trans h2
  | absent =>
    intro b c h1 h2
    cases b <;> cases c <;> simp only [treeEq, Bool.false_eq_true] at h1 h2 ⊢
  | node c g ind fs ih =>
    intro b c' h1 h2
    cases b with
    | node cb gb indb fsb =>
      cases c' with
      | node cc gc indc fsc =>
        simp only [treeEq, Bool.and_eq_true, beq_iff_eq] at h1 h2 ⊢
        exact ⟨⟨⟨h1.1.1.1.trans h2.1.1.1, h1.1.1.2.trans h2.1.1.2⟩, hlist fs ih fsb fsc h1.1.2 h2.1.2⟩,
          h1.2.trans h2.2⟩
      | tok _ => simp [treeEq] at h2
      | absent => simp [treeEq] at h2
      | rep _ _ _ => simp [treeEq] at h2
    | tok _ => simp [treeEq] at h1
    | absent => simp [treeEq] at h1
    | rep _ _ _ => simp [treeEq] at h1
  | rep g ph is ih =>
    intro b c' h1 h2
    cases b with
    | rep gb phb isb =>
      cases c' with
      | rep gc phc isc =>
        simp only [treeEq, Bool.and_eq_true, beq_iff_eq] at h1 h2 ⊢
        exact ⟨h1.1.trans h2.1, hlist is ih isb isc h1.2 h2.2⟩
      | tok _ => simp [treeEq] at h2
      | absent => simp [treeEq] at h2
      | node _ _ _ _ => simp [treeEq] at h2
    | tok _ => simp [treeEq] at h1
    | absent => simp [treeEq] at h1
    | node _ _ _ _ => simp [treeEq] at h1

/-- `treeEq` implies `shapeEq` (drop the token-list comparisons of inner nodes). -/
theorem treeEq_shapeEq (sa sb : List TTk) : ∀ a b : Tree, treeEq sa sb a b = true → shapeEq sa sb a b = true := by
  have hlist : ∀ fs : List Tree, (∀ t ∈ fs, ∀ b, treeEq sa sb t b = true → shapeEq sa sb t b = true) →
      ∀ fs', treeEqL sa sb fs fs' = true → shapeEqL sa sb fs fs' = true := by
    intro fs
    induction fs with
    | nil => intro _ fs' h; cases fs' <;> simp_all [treeEqL, shapeEqL]
    | cons f fs ihfs =>
      intro ih fs' h
      cases fs' with
      | nil => simp [treeEqL] at h
      | cons f' fs' =>
        simp only [treeEqL, shapeEqL, Bool.and_eq_true] at h ⊢
        exact ⟨ih f (by simp) f' h.1, ihfs (fun t ht => ih t (by simp [ht])) fs' h.2⟩
  intro a
  induction a using Tree.induct with
  | tok i => intro b h; cases b <;> simp_all [treeEq, shapeEq]
  | absent => intro b h; cases b <;> simp_all [treeEq, shapeEq]
  | node c g ind fs ih =>
    intro b h
    cases b with
    | node c' g' ind' fs' =>
      simp only [treeEq, shapeEq, Bool.and_eq_true, beq_iff_eq] at h ⊢
      exact ⟨⟨h.1.1.2, hlist fs ih fs' h.1.2⟩, h.2⟩
    | tok _ => simp [treeEq] at h
    | absent => simp [treeEq] at h
    | rep _ _ _ => simp [treeEq] at h
  | rep g ph is ih =>
    intro b h
    cases b with
    | rep g' ph' is' =>
      simp only [treeEq, shapeEq, Bool.and_eq_true] at h ⊢
      exact hlist is ih is' h.2
    | tok _ => simp [treeEq] at h
    | absent => simp [treeEq] at h
    | node _ _ _ _ => simp [treeEq] at h

theorem treeEq_cls {sa sb : List TTk} {a b : Tree} (h : treeEq sa sb a b = true) : a.cls = b.cls := by
  cases a <;> cases b <;> simp_all [treeEq, Tree.cls]

/-- `shapeEq` implies equal erased shapes. -/
theorem shapeEq_shape (sa sb : List TTk) : ∀ a b : Tree, shapeEq sa sb a b = true → a.shape = b.shape := by
  have hlist : ∀ fs : List Tree, (∀ t ∈ fs, ∀ b, shapeEq sa sb t b = true → t.shape = b.shape) →
      ∀ fs', shapeEqL sa sb fs fs' = true → fs.map Tree.shape = fs'.map Tree.shape := by
    intro fs
    induction fs with
    | nil => intro _ fs' h; cases fs' <;> simp_all [shapeEqL]
    | cons f fs ihfs =>
      intro ih fs' h
      cases fs' with
      | nil => simp [shapeEqL] at h
      | cons f' fs' =>
        simp only [shapeEqL, Bool.and_eq_true] at h
        simp only [List.map_cons, List.cons.injEq]
        exact ⟨ih f (by simp) f' h.1, ihfs (fun t ht => ih t (by simp [ht])) fs' h.2⟩
  intro a
  induction a using Tree.induct with
  | tok i => intro b h; cases b <;> simp_all [shapeEq]
  | absent => intro b h; cases b <;> simp_all [shapeEq]
  | node c g ind fs ih =>
    intro b h
    cases b with
    | node c' g' ind' fs' =>
      simp only [shapeEq, Bool.and_eq_true, beq_iff_eq] at h
      simp only [Tree.shape_node, Tree.node.injEq, true_and]
      exact ⟨h.1.1, h.2, hlist fs ih fs' h.1.2⟩
    | tok _ => simp [shapeEq] at h
    | absent => simp [shapeEq] at h
    | rep _ _ _ => simp [shapeEq] at h
  | rep g ph is ih =>
    intro b h
    cases b with
    | rep g' ph' is' =>
      simp only [shapeEq] at h
      simp only [Tree.shape_rep, Tree.rep.injEq, true_and]
      exact hlist is ih is' h
    | tok _ => simp [shapeEq] at h
    | absent => simp [shapeEq] at h
    | node _ _ _ _ => simp [shapeEq] at h

/-- Equality descends along a path: the sub-trees at the same path of equal trees are equal. -/
theorem treeEq_subAt (sa sb : List TTk) : ∀ (a b : Tree) (p : List Nat) (x : Tree),
    treeEq sa sb a b = true → a.subAt p = some x → ∃ y, b.subAt p = some y ∧ treeEq sa sb x y = true := by
  have hlist : ∀ fs : List Tree,
      (∀ t ∈ fs, ∀ (b : Tree) (p : List Nat) (x : Tree), treeEq sa sb t b = true → t.subAt p = some x →
        ∃ y, b.subAt p = some y ∧ treeEq sa sb x y = true) →
      ∀ (fs' : List Tree) (k : Nat) (p : List Nat) (x : Tree), treeEqL sa sb fs fs' = true →
        Tree.subAtL fs k p = some x → ∃ y, Tree.subAtL fs' k p = some y ∧ treeEq sa sb x y = true := by
    intro fs
    induction fs with
    | nil => intro _ fs' k p x _ hx; simp [Tree.subAtL] at hx
    | cons f fs ihfs =>
      intro ih fs' k p x h hx
      cases fs' with
      | nil => simp [treeEqL] at h
      | cons f' fs' =>
        simp only [treeEqL, Bool.and_eq_true] at h
        cases k with
        | zero =>
          simp only [Tree.subAtL] at hx ⊢
          exact ih f (by simp) f' p x h.1 hx
        | succ k =>
          simp only [Tree.subAtL] at hx ⊢
          exact ihfs (fun t ht => ih t (by simp [ht])) fs' k p x h.2 hx
  intro a
  induction a using Tree.induct with
  | tok i =>
    intro b p x h hx
    cases p with
    | nil => simp only [Tree.subAt, Option.some.injEq] at hx; subst hx; exact ⟨b, by simp [Tree.subAt], h⟩
    | cons k p => simp [Tree.subAt] at hx
  | absent =>
    intro b p x h hx
    cases p with
    | nil => simp only [Tree.subAt, Option.some.injEq] at hx; subst hx; exact ⟨b, by simp [Tree.subAt], h⟩
    | cons k p => simp [Tree.subAt] at hx
  | node c g ind fs ih =>
    intro b p x h hx
    cases p with
    | nil => simp only [Tree.subAt, Option.some.injEq] at hx; subst hx; exact ⟨b, by simp [Tree.subAt], h⟩
    | cons k p =>
      cases b with
      | node c' g' ind' fs' =>
        simp only [treeEq, Bool.and_eq_true] at h
        simp only [Tree.subAt] at hx ⊢
        exact hlist fs ih fs' k p x h.1.2 hx
      | tok _ => simp [treeEq] at h
      | absent => simp [treeEq] at h
      | rep _ _ _ => simp [treeEq] at h
  | rep g ph is ih =>
    intro b p x h hx
    cases p with
    | nil => simp only [Tree.subAt, Option.some.injEq] at hx; subst hx; exact ⟨b, by simp [Tree.subAt], h⟩
    | cons k p =>
      cases b with
      | rep g' ph' is' =>
        simp only [treeEq, Bool.and_eq_true] at h
        simp only [Tree.subAt] at hx ⊢
        exact hlist is ih is' k p x h.2 hx
      | tok _ => simp [treeEq] at h
      | absent => simp [treeEq] at h
      | node _ _ _ _ => simp [treeEq] at h

/-! ### Changing one token of the store -/

theorem upTo_map (g : TTk → TTk) (hg : ∀ t, (g t).id = t.id) (l : Nat) :
    ∀ s : List TTk, upTo l (s.map g) = (upTo l s).map (List.map g) := by
  intro s
  induction s with
  | nil => simp [upTo]
  | cons t ts ih =>
    simp only [List.map_cons, upTo, hg]
    by_cases h : t.id = l
    · simp [h]
    · simp only [h, if_false, ih, Option.map_map]
      congr 1

/-- An identity-preserving change of tokens commutes with taking a slice. -/
theorem seg_map (g : TTk → TTk) (hg : ∀ t, (g t).id = t.id) (f l : Nat) :
    ∀ s : List TTk, seg (s.map g) f l = (seg s f l).map g := by
  intro s
  induction s with
  | nil => simp [seg]
  | cons t ts ih =>
    simp only [List.map_cons, seg, hg]
    by_cases h : t.id = f
    · simp only [h, if_true]
      have := upTo_map g hg l (t :: ts)
      simp only [List.map_cons] at this
      rw [this]
      cases upTo l (t :: ts) <;> simp
    · simp only [h, if_false, ih]

theorem tokensOf_map (g : TTk → TTk) (hg : ∀ t, (g t).id = t.id) (s : List TTk) (t : Tree) :
    tokensOf (s.map g) t = (tokensOf s t).map g := by
  unfold tokensOf spanOf
  split
  · rfl
  · cases t.leaves.head? <;> cases t.leaves.getLast? <;> simp [seg_map g hg]

theorem map_kt_ne {S : List TTk} {g : TTk → TTk} {x : TTk} (hx : x ∈ S) (hne : (g x).kt ≠ x.kt) :
    (S.map g).map TTk.kt ≠ S.map TTk.kt := by
  induction S with
  | nil => cases hx
  | cons t ts ih =>
    intro h
    simp only [List.map_cons, List.cons.injEq] at h
    cases hx with
    | head => exact hne h.1
    | tail _ hx => exact ih hx h.2

/-! ### Whole documents (`File` spans its whole store) -/

/-- The tokens of any model are a middle part of the store that contains all its leaves (under the clauses of
the invariant); for a `File` it is the whole store. -/
theorem tokensOf_decomp {s : List TTk} {t : Tree} (hnd : (ids s).Nodup) (hsub : t.leaves <+ ids s)
    (hne : t.leaves ≠ []) :
    ∃ A C, s = A ++ tokensOf s t ++ C ∧ t.leaves <+ ids (tokensOf s t) ∧
      (t.isFile = true → A = [] ∧ C = []) := by
  by_cases hf : t.isFile = true
  · refine ⟨[], [], by simp [tokensOf_of_file hf], by rw [tokensOf_of_file hf]; exact hsub, fun _ => ⟨rfl, rfl⟩⟩
  · have hf' : t.isFile = false := by simpa using hf
    obtain ⟨A, C, hS, _, _, h3⟩ := spanOf_decomp hnd hsub hne
    refine ⟨A, C, by rw [tokensOf_of_not_file hf']; exact hS, by rw [tokensOf_of_not_file hf']; exact h3, ?_⟩
    intro h; rw [hf'] at h; cases h

theorem tokensOf_nodup {s : List TTk} {t : Tree} (hnd : (ids s).Nodup) (hsub : t.leaves <+ ids s)
    (hne : t.leaves ≠ []) : (ids (tokensOf s t)).Nodup := by
  obtain ⟨A, C, hS, _, _⟩ := tokensOf_decomp hnd hsub hne
  rw [hS] at hnd
  simp only [ids_append, List.nodup_append] at hnd
  exact hnd.1.2.1

/-- For a model other than `File` the token list starts at the first and ends at the last leaf. -/
theorem tokensOf_ends {s : List TTk} {t : Tree} (hnd : (ids s).Nodup) (hsub : t.leaves <+ ids s)
    (hne : t.leaves ≠ []) (hf : t.isFile = false) :
    (tokensOf s t).head?.map (·.id) = t.leaves.head? ∧ (tokensOf s t).getLast?.map (·.id) = t.leaves.getLast? := by
  obtain ⟨_, _, _, h1, h2, _⟩ := spanOf_decomp hnd hsub hne
  rw [tokensOf_of_not_file hf]
  exact ⟨h1, h2⟩

/-- **Aligned documents compare equal.**  `a` in store `s`, `b` in store `s'`, same shape, leaves corresponding
through `ρ`, and the two token lists corresponding position by position (identities through `ρ`, same
`(RULE, text)`): then `a == b`. -/
theorem treeEq_of_aligned_doc {s s' : List TTk} {a b : Tree} {ρ : Nat → Nat}
    (hnd : (ids s).Nodup) (hnd' : (ids s').Nodup) (hsub : a.leaves <+ ids s) (hsub' : b.leaves <+ ids s')
    (hne : a.leaves ≠ []) (hroot : a.innerFileFree = true)
    (hsh : a.shape = b.shape) (hl : b.leaves = a.leaves.map ρ)
    (hids : ids (tokensOf s' b) = (ids (tokensOf s a)).map ρ)
    (hkt : (tokensOf s' b).map TTk.kt = (tokensOf s a).map TTk.kt) :
    treeEq s s' a b = true := by
  have hne' : b.leaves ≠ [] := by rw [hl]; intro h0; exact hne (List.map_eq_nil_iff.mp h0)
  have hfb : b.isFile = a.isFile := by rw [← Tree.isFile_shape b, ← hsh, Tree.isFile_shape]
  obtain ⟨A, C, hS, hin, hAC⟩ := tokensOf_decomp hnd hsub hne
  obtain ⟨A', C', hS', _, hAC'⟩ := tokensOf_decomp hnd' hsub' hne'
  have core := treeEq_of_aligned (A := A) (C := C) (A' := A') (C' := C') (ρ := ρ)
    (by rw [← hS]; exact hnd) (by rw [← hS']; exact hnd') hids hkt
  rw [← hS, ← hS'] at core
  by_cases hf : a.isFile = true
  · -- the File root: whole stores, children by the list part of the core lemma
    cases a with
    | tok _ => simp [Tree.isFile] at hf
    | absent => simp [Tree.isFile] at hf
    | rep _ _ _ => simp [Tree.isFile] at hf
    | node c g ind fs =>
      cases b with
      | tok _ => simp at hsh
      | absent => simp at hsh
      | rep _ _ _ => simp at hsh
      | node c' g' ind' fs' =>
        have hseg : segKT s (.node c g ind fs) = segKT s' (.node c' g' ind' fs') := by
          unfold segKT; exact hkt.symm
        simp only [Tree.shape_node, Tree.node.injEq, true_and] at hsh
        simp only [Tree.innerFileFree, Tree.fileFreeL_eq] at hroot
        simp only [Tree.leaves_node] at hl hin
        simp only [treeEq, Bool.and_eq_true, beq_iff_eq]
        exact ⟨⟨⟨hseg, hsh.1⟩, core.2 fs fs' hroot hsh.2.2 hl hin⟩, hsh.2.1⟩
  · have hf' : a.isFile = false := by simpa using hf
    exact core.1 a b (Tree.fileFree_of_innerFileFree hroot hf') hsh hl hin

/-- The same with the alignment given on the whole stores (two parses of one text). -/
theorem treeEq_of_aligned_stores {s s' : List TTk} {a b : Tree} {ρ : Nat → Nat}
    (hnd : (ids s).Nodup) (hnd' : (ids s').Nodup) (hsub : a.leaves <+ ids s) (hroot : a.innerFileFree = true)
    (hsh : a.shape = b.shape) (hl : b.leaves = a.leaves.map ρ)
    (hids : ids s' = (ids s).map ρ) (hkt : s'.map TTk.kt = s.map TTk.kt) :
    treeEq s s' a b = true := by
  have core := treeEq_of_aligned (A := []) (C := []) (A' := []) (C' := []) (ρ := ρ) (Sa := s) (Sb := s')
    (by simpa using hnd) (by simpa using hnd') hids hkt
  simp only [List.nil_append, List.append_nil] at core
  by_cases hf : a.isFile = true
  · cases a with
    | tok _ => simp [Tree.isFile] at hf
    | absent => simp [Tree.isFile] at hf
    | rep _ _ _ => simp [Tree.isFile] at hf
    | node c g ind fs =>
      cases b with
      | tok _ => simp at hsh
      | absent => simp at hsh
      | rep _ _ _ => simp at hsh
      | node c' g' ind' fs' =>
        have hfb : (Tree.node c' g' ind' fs').isFile = true := by
          rw [← Tree.isFile_shape, ← hsh, Tree.isFile_shape]; exact hf
        have hseg : segKT s (.node c g ind fs) = segKT s' (.node c' g' ind' fs') := by
          unfold segKT; rw [tokensOf_of_file hf, tokensOf_of_file hfb]; exact hkt.symm
        simp only [Tree.shape_node, Tree.node.injEq, true_and] at hsh
        simp only [Tree.innerFileFree, Tree.fileFreeL_eq] at hroot
        simp only [Tree.leaves_node] at hl hsub
        simp only [treeEq, Bool.and_eq_true, beq_iff_eq]
        exact ⟨⟨⟨hseg, hsh.1⟩, core.2 fs fs' hroot hsh.2.2 hl hsub⟩, hsh.2.1⟩
  · have hf' : a.isFile = false := by simpa using hf
    exact core.1 a b (Tree.fileFree_of_innerFileFree hroot hf') hsh hl hsub

end Autobean
