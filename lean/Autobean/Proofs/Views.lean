import Autobean.Model.Views
/-
Helper lemmas for C10 (views of a repeated field).
-/
namespace Autobean.Views

/-! ### filterIdxFrom -/

theorem filterIdxFrom_append (p : Nat → Bool) (k : Nat) (a b : List Item) :
    filterIdxFrom p k (a ++ b) = filterIdxFrom p k a ++ filterIdxFrom p (k + a.length) b := by
  induction a generalizing k with
  | nil => simp [filterIdxFrom]
  | cons x xs ih =>
    simp only [List.cons_append, filterIdxFrom, List.length_cons]
    have : k + (xs.length + 1) = k + 1 + xs.length := by omega
    split <;> simp [ih, this]

theorem filterIdxFrom_shift (p : Nat → Bool) (k d : Nat) (xs : List Item) :
    filterIdxFrom p (k + d) xs = (filterIdxFrom p k xs).map (· + d) := by
  induction xs generalizing k with
  | nil => simp [filterIdxFrom]
  | cons x xs ih =>
    simp only [filterIdxFrom]
    have : k + d + 1 = k + 1 + d := by omega
    split <;> simp [this, ih]

theorem filterIdxFrom_bounds (p : Nat → Bool) (k : Nat) (xs : List Item) :
    ∀ i ∈ filterIdxFrom p k xs, k ≤ i ∧ i < k + xs.length := by
  induction xs generalizing k with
  | nil => simp [filterIdxFrom]
  | cons x xs ih =>
    intro i hi
    simp only [filterIdxFrom] at hi
    split at hi
    · rcases List.mem_cons.mp hi with h | h
      · subst h; simp
      · have := ih (k + 1) i h; simp only [List.length_cons]; omega
    · have := ih (k + 1) i hi; simp only [List.length_cons]; omega

theorem filterIdxFrom_length_le (p : Nat → Bool) (k : Nat) (xs : List Item) :
    (filterIdxFrom p k xs).length ≤ xs.length := by
  induction xs generalizing k with
  | nil => simp [filterIdxFrom]
  | cons x xs ih =>
    simp only [filterIdxFrom]
    split
    · simp only [List.length_cons]; have := ih (k + 1); omega
    · simp only [List.length_cons]; have := ih (k + 1); omega

/-! ### bisect_left -/

/-- Binary search finds the boundary of any list split into a part below `v` and a part not below `v`. -/
theorem bisectLoop_partition (A B : List Nat) (v : Nat)
    (hA : ∀ a ∈ A, a < v) (hB : ∀ b ∈ B, v ≤ b) (lo hi : Nat)
    (h1 : lo ≤ A.length) (h2 : A.length ≤ hi) (h3 : hi ≤ (A ++ B).length) :
    bisectLoop (A ++ B) v lo hi = A.length := by
  fun_induction bisectLoop (A ++ B) v lo hi with
  | case1 lo hi hlt mid hmid ih =>
    apply ih
    · -- mid < |A|, otherwise xs[mid] ∈ B
      rcases Nat.lt_or_ge mid A.length with h | h
      · omega
      · exfalso
        have hm : mid - A.length < B.length := by simp at h3; omega
        have : (A ++ B).getD mid 0 = B[mid - A.length] := by
          simp [List.getD, List.getElem?_append_right h, hm]
        have hb := hB _ (List.getElem_mem hm)
        omega
    · exact h2
    · exact h3
  | case2 lo hi hlt mid hmid ih =>
    apply ih
    · exact h1
    · rcases Nat.lt_or_ge mid A.length with h | h
      · exfalso
        have : (A ++ B).getD mid 0 = A[mid] := by
          simp [List.getD, List.getElem?_append_left h, List.getElem?_eq_getElem h]
        have ha := hA _ (List.getElem_mem h)
        omega
      · exact h
    · omega
  | case3 lo hi hge => omega

theorem bisectLeft_partition (A B : List Nat) (v : Nat)
    (hA : ∀ a ∈ A, a < v) (hB : ∀ b ∈ B, v ≤ b) : bisectLeft (A ++ B) v = A.length := by
  unfold bisectLeft
  apply bisectLoop_partition A B v hA hB <;> simp

/-! ### handle_splice -/

theorem shiftIdx_add (diff : Int) (y r : Nat) (n : Nat) (h : (r : Int) + diff = n) :
    shiftIdx diff (y + r) = y + n := by
  unfold shiftIdx
  omega

theorem handleSplice_correct' (p : Nat → Bool) (items vals : List Item) (l r : Nat)
    (hlr : l ≤ r) (hr : r ≤ items.length) :
    handleSplice p (filterIdx p items) l r vals = filterIdx p (items.take l ++ vals ++ items.drop r) := by
  -- split the old list in three
  have hsplit : items = items.take l ++ ((items.drop l).take (r - l) ++ items.drop r) := by
    have h1 : items.drop l = (items.drop l).take (r - l) ++ (items.drop l).drop (r - l) :=
      (List.take_append_drop _ _).symm
    have h2 : (items.drop l).drop (r - l) = items.drop r := by
      rw [List.drop_drop]; congr 1; omega
    rw [← h2, ← h1, List.take_append_drop]
  have hl1 : (items.take l).length = l := by simp; omega
  have hl2 : ((items.drop l).take (r - l)).length = r - l := by simp; omega
  generalize hI1 : items.take l = I1 at *
  generalize hI2 : (items.drop l).take (r - l) = I2 at *
  generalize hI3 : items.drop r = I3 at *
  -- the old raw indexes in three parts
  have hold : filterIdx p items = filterIdxFrom p 0 I1 ++ (filterIdxFrom p l I2 ++ filterIdxFrom p r I3) := by
    unfold filterIdx
    rw [hsplit, filterIdxFrom_append, filterIdxFrom_append]
    simp only [hl1, hl2, Nat.zero_add]
    have : l + (r - l) = r := by omega
    rw [this]
  have hnew : filterIdx p (I1 ++ vals ++ I3) =
      filterIdxFrom p 0 I1 ++ (filterIdxFrom p l vals ++ filterIdxFrom p (l + vals.length) I3) := by
    unfold filterIdx
    rw [List.append_assoc, filterIdxFrom_append, filterIdxFrom_append]
    simp only [hl1, Nat.zero_add]
  have bA1 := filterIdxFrom_bounds p 0 I1
  have bA2 := filterIdxFrom_bounds p l I2
  have bA3 := filterIdxFrom_bounds p r I3
  generalize hA1 : filterIdxFrom p 0 I1 = A1 at *
  generalize hA2 : filterIdxFrom p l I2 = A2 at *
  generalize hA3 : filterIdxFrom p r I3 = A3 at *
  have hll : bisectLeft (A1 ++ (A2 ++ A3)) l = A1.length := by
    apply bisectLeft_partition
    · intro a ha; have := bA1 a ha; omega
    · intro b hb
      rcases List.mem_append.mp hb with h | h
      · exact (bA2 b h).1
      · have := (bA3 b h).1; omega
  have hrr : bisectLeft (A1 ++ (A2 ++ A3)) r = (A1 ++ A2).length := by
    rw [← List.append_assoc]
    apply bisectLeft_partition
    · intro a ha
      rcases List.mem_append.mp ha with h | h
      · have := bA1 a h; omega
      · have := bA2 a h; omega
    · intro b hb; exact (bA3 b hb).1
  have hfilt : (filterIdx p vals).map (l + ·) = filterIdxFrom p l vals := by
    unfold filterIdx
    have := filterIdxFrom_shift p 0 l vals
    simp only [Nat.zero_add] at this
    rw [this]; congr 1; funext x; omega
  have hshift : A3.map (shiftIdx ((vals.length : Int) - r + l)) = filterIdxFrom p (l + vals.length) I3 := by
    rw [← hA3]
    have e1 := filterIdxFrom_shift p 0 r I3
    have e2 := filterIdxFrom_shift p 0 (l + vals.length) I3
    simp only [Nat.zero_add] at e1 e2
    rw [e1, e2, List.map_map]
    apply List.map_congr_left
    intro y _
    simp only [Function.comp]
    apply shiftIdx_add
    push_cast; omega
  rw [hnew, hold]
  unfold handleSplice
  simp only [hll, hrr, hfilt]
  have hnot : ¬ ((A1 ++ A2).length < A1.length) := by simp
  simp only [hnot, if_false]
  have htake : (A1 ++ (A2 ++ A3)).take A1.length = A1 := by simp
  have hdrop : (A1 ++ (A2 ++ A3)).drop (A1 ++ A2).length = A3 := by
    rw [← List.append_assoc]; simp
  rw [htake, hdrop]
  have hk : (A1 ++ filterIdxFrom p l vals ++ A3).take (A1.length + (filterIdxFrom p l vals).length)
      = A1 ++ filterIdxFrom p l vals := List.take_left' (by simp)
  have hk' : (A1 ++ filterIdxFrom p l vals ++ A3).drop (A1.length + (filterIdxFrom p l vals).length) = A3 :=
    List.drop_left' (by simp)
  split
  · -- diff = 0: the tail is not shifted, and the shift would be the identity
    rename_i hd
    have : filterIdxFrom p (l + vals.length) I3 = A3 := by
      rw [← hshift, hd]
      have h0 : shiftIdx 0 = id := by funext x; simp [shiftIdx]
      rw [h0, List.map_id]
    rw [this, List.append_assoc]
  · rw [hk, hk', hshift, List.append_assoc]

/-! ### PyList: index and slice normalisation -/
namespace PyList

theorem normIndex_ok {len : Nat} {i : Int} {j : Nat} (h : normIndex len i = .ok j) :
    j < len ∧ (j : Int) = (if i < 0 then i + len else i) := by
  unfold normIndex at h
  by_cases hi : i < 0
  · simp only [hi, if_true] at h ⊢
    split at h
    · simp at h
    · rename_i hc
      injection h with h; subst h
      constructor <;> omega
  · simp only [hi, if_false] at h ⊢
    split at h
    · simp at h
    · rename_i hc
      injection h with h; subst h
      constructor <;> omega

theorem normIndex_of_nat {len j : Nat} (h : j < len) : normIndex len (j : Int) = .ok j := by
  unfold normIndex
  have h1 : ¬ ((j : Int) < 0) := by omega
  simp only [h1, if_false]
  split
  · rename_i hc; exfalso; rcases hc with hc | hc <;> omega
  · simp

theorem clampBound_id {n st v : Int} (h0 : 0 ≤ v) (h1 : v ≤ n) (hst : 0 < st) : clampBound n st v = v := by
  unfold clampBound
  have a : ¬ v < 0 := by omega
  have b : ¬ st < 0 := by omega
  simp only [a, b, if_false]
  split <;> omega

theorem clampBound_pos_bounds {n st v : Int} (hn : 0 ≤ n) (hst : 0 < st) :
    0 ≤ clampBound n st v ∧ clampBound n st v ≤ n := by
  unfold clampBound
  have b : ¬ st < 0 := by omega
  simp only [b, if_false]
  split
  · split <;> constructor <;> omega
  · split <;> constructor <;> omega

theorem sliceIndices_ok {len : Nat} {a b c : Option Int} {s e st : Int}
    (h : sliceIndices len a b c = .ok (s, e, st)) :
    st ≠ 0 ∧ st = c.getD 1 ∧ (0 < st → 0 ≤ s ∧ s ≤ len ∧ 0 ≤ e ∧ e ≤ len) := by
  unfold sliceIndices at h
  simp only at h
  split at h
  · cases h
  · rename_i hne
    injection h with h
    simp only [Prod.mk.injEq] at h
    obtain ⟨hs, he, hst⟩ := h
    refine ⟨by omega, hst.symm, ?_⟩
    intro hpos
    rw [← hst] at hpos
    have hb : ¬ (Option.getD c 1 < 0) := by omega
    have hn : (0 : Int) ≤ (len : Int) := by omega
    subst hs he
    refine ⟨?_, ?_, ?_, ?_⟩
    · cases a with
      | none => simp [hb]
      | some v => exact (clampBound_pos_bounds hn hpos).1
    · cases a with
      | none => simp [hb]
      | some v => exact (clampBound_pos_bounds hn hpos).2
    · cases b with
      | none => simp [hb]
      | some v => exact (clampBound_pos_bounds hn hpos).1
    · cases b with
      | none => simp [hb]
      | some v => exact (clampBound_pos_bounds hn hpos).2

/-- Normalising already normalised bounds of a step-1 slice changes nothing. -/
theorem sliceIndices_norm1 {len : Nat} {s e : Int} (hs0 : 0 ≤ s) (hs1 : s ≤ len) (he0 : 0 ≤ e) (he1 : e ≤ len) :
    sliceIndices len (some s) (some e) (some 1) = .ok (s, e, 1) := by
  unfold sliceIndices
  simp [clampBound_id hs0 hs1, clampBound_id he0 he1]

end PyList


/-! ### The raw wrapper notifies with normalised bounds -/
open PyList

theorem PyList.setSlice_norm1 {α} (xs vals : List α) {s e : Int} (hs0 : 0 ≤ s) (hse : s ≤ e) (he1 : e ≤ xs.length) :
    PyList.setSlice xs (some s) (some e) (some 1) vals = .ok (xs.take s.toNat ++ vals ++ xs.drop e.toNat) := by
  unfold PyList.setSlice
  rw [sliceIndices_norm1 hs0 (by omega) (by omega) he1]
  have : ¬ e < s := by omega
  simp [bind, Except.bind, pure, Except.pure, this]

theorem Raw.setSlice_splice {items vals items' vals' : List Item} {l r : Nat} {a b c : Option Int}
    (h : Raw.setSlice items a b c vals = .ok (items', .splice l r vals')) :
    vals' = vals ∧ l ≤ r ∧ r ≤ items.length ∧ items' = items.take l ++ vals ++ items.drop r := by
  unfold Raw.setSlice at h
  simp only [bind, Except.bind, pure, Except.pure, throw, throwThe, MonadExceptOf.throw] at h
  split at h
  · simp at h
  · split at h
    · simp at h
    · rename_i v hv
      obtain ⟨s, e0, st⟩ := v
      simp only at h
      have hb := sliceIndices_ok hv
      split at h
      · rename_i hst
        subst hst
        obtain ⟨hs0, hs1, he0, he1⟩ := hb.2.2 (by omega)
        simp only [true_and] at h
        generalize he : (if e0 < s then s else e0) = e at h
        have hse : s ≤ e := by rw [← he]; split <;> omega
        have hel : e ≤ items.length := by rw [← he]; split <;> omega
        have hne : ¬ e = -1 := by omega
        simp only [Raw.sliceFromRange, hne, if_false] at h
        rw [PyList.setSlice_norm1 items vals hs0 hse hel] at h
        simp only [Except.ok.injEq, Prod.mk.injEq, Notif.splice.injEq] at h
        obtain ⟨h1, h2, h3, h4⟩ := h
        subst h1 h2 h3 h4
        refine ⟨rfl, ?_, ?_, rfl⟩ <;> omega
      · split at h <;> (split at h <;> simp at h)

theorem PyList.getItem_ok {α} {xs : List α} {i : Int} {x : α} (h : PyList.getItem xs i = .ok x) :
    ∃ j, normIndex xs.length i = .ok j ∧ xs[j]? = some x := by
  unfold PyList.getItem at h
  simp only [bind, Except.bind, pure, Except.pure] at h
  split at h
  · simp at h
  · rename_i j hj
    split at h
    · rename_i y hy
      injection h with h; subst h
      exact ⟨j, hj, hy⟩
    · simp at h

theorem Raw.setInt_splice {items items' vals' : List Item} {l r : Nat} {i : Int} {v : Item}
    (h : Raw.setInt items i v = .ok (items', .splice l r vals')) :
    vals' = [v] ∧ l ≤ r ∧ r ≤ items.length ∧ items' = items.take l ++ [v] ++ items.drop r := by
  unfold Raw.setInt at h
  simp only [bind, Except.bind, pure, Except.pure] at h
  split at h
  · simp at h
  · rename_i x hx
    obtain ⟨j, hj, _⟩ := PyList.getItem_ok hx
    obtain ⟨hjl, hji⟩ := normIndex_ok hj
    rw [← hji] at h
    simp only [PyList.setItem, normIndex_of_nat hjl, bind, Except.bind, pure, Except.pure] at h
    simp only [Except.ok.injEq, Prod.mk.injEq, Notif.splice.injEq] at h
    obtain ⟨h1, h2, h3, h4⟩ := h
    subst h1 h4
    have e1 : (j : Int).toNat = j := by simp
    have e2 : ((j : Int) + 1).toNat = j + 1 := by omega
    rw [e1] at h2; rw [e2] at h3
    subst h2 h3
    refine ⟨rfl, by omega, by omega, ?_⟩
    rw [List.set_eq_take_append_cons_drop]
    simp [hjl]

theorem Raw.delInt_splice {items items' vals' : List Item} {l r : Nat} {i : Int}
    (h : Raw.delInt items i = .ok (items', .splice l r vals')) :
    vals' = [] ∧ l ≤ r ∧ r ≤ items.length ∧ items' = items.take l ++ [] ++ items.drop r := by
  unfold Raw.delInt at h
  simp only [bind, Except.bind] at h
  split at h
  · simp at h
  · exact Raw.setSlice_splice h

theorem Raw.delSlice_splice {items items' vals' : List Item} {l r : Nat} {a b c : Option Int}
    (h : Raw.delSlice items a b c = .ok (items', .splice l r vals')) :
    vals' = [] ∧ l ≤ r ∧ r ≤ items.length ∧ items' = items.take l ++ [] ++ items.drop r := by
  unfold Raw.delSlice at h
  simp only [bind, Except.bind, pure, Except.pure] at h
  split at h
  · simp at h
  · split at h
    · exact Raw.setSlice_splice h
    · simp [Raw.dropMany] at h

theorem PyList.insertPos_clamped {len : Nat} {k : Int} (h0 : 0 ≤ k) (h1 : k ≤ len) : insertPos len k = k.toNat := by
  unfold insertPos
  have a : ¬ k < 0 := by omega
  have b : ¬ (len : Int) < k := by omega
  simp [a, b]

theorem Raw.insert_splice (items : List Item) (i : Int) (v : Item) :
    ∃ k, Raw.insert items i v = (items.take k ++ [v] ++ items.drop k, .splice k k [v]) ∧ k ≤ items.length := by
  unfold Raw.insert
  simp only
  generalize hidx : min (if i < 0 then max (i + (items.length : Int)) 0 else i) (items.length : Int) = idx
  have h0 : 0 ≤ idx := by rw [← hidx]; split <;> omega
  have h1 : idx ≤ items.length := by rw [← hidx]; omega
  refine ⟨idx.toNat, ?_, by omega⟩
  simp [PyList.insert, PyList.insertPos_clamped h0 h1]

theorem Raw.pop_splice {items items' vals' : List Item} {l r : Nat} {i : Int}
    (h : Raw.pop items i = .ok (items', .splice l r vals')) :
    vals' = [] ∧ l ≤ r ∧ r ≤ items.length ∧ items' = items.take l ++ [] ++ items.drop r := by
  unfold Raw.pop at h
  simp only [bind, Except.bind, pure, Except.pure] at h
  split at h
  · simp at h
  · rename_i x hx
    obtain ⟨j, hj, hxj⟩ := PyList.getItem_ok hx
    obtain ⟨hjl, _⟩ := normIndex_ok hj
    simp only [hj, PyList.pop, bind, Except.bind, pure, Except.pure, hxj] at h
    simp only [Except.ok.injEq, Prod.mk.injEq, Notif.splice.injEq] at h
    obtain ⟨h1, h2, h3, h4⟩ := h
    subst h1 h2 h3 h4
    refine ⟨rfl, by omega, by omega, ?_⟩
    simp [List.eraseIdx_eq_take_drop_succ]


/-! ### In-place value updates do not move anything -/

theorem filterIdxFrom_congr_ty (p : Nat → Bool) (k : Nat) (xs ys : List Item)
    (h : xs.map (·.ty) = ys.map (·.ty)) : filterIdxFrom p k xs = filterIdxFrom p k ys := by
  induction xs generalizing ys k with
  | nil =>
    cases ys with
    | nil => rfl
    | cons y ys => simp at h
  | cons x xs ih =>
    cases ys with
    | nil => simp at h
    | cons y ys =>
      simp only [List.map_cons, List.cons.injEq] at h
      simp only [filterIdxFrom, h.1, ih (k + 1) ys h.2]

theorem map_ty_set_val (items : List Item) (ri : Nat) (old : Item) (val : Nat) (h : items[ri]? = some old) :
    (items.set ri { old with val := val }).map (·.ty) = items.map (·.ty) := by
  rw [List.map_set]
  apply List.ext_getElem?
  intro n
  rw [List.getElem?_set]
  split
  · rename_i hn
    subst hn
    split
    · rw [List.getElem?_map, h]; rfl
    · rename_i hlt
      simp at hlt
      rw [List.getElem?_eq_none (by simpa using hlt)]
  · rfl


/-! ### Reading a consistent view -/
theorem filterIdxFrom_map_get (p : Nat → Bool) (xs pre : List Item) (k : Nat) (hk : pre.length = k) :
    (filterIdxFrom p k xs).map (fun i => (pre ++ xs)[i]?) = (xs.filter fun x => p x.ty).map some := by
  induction xs generalizing pre k with
  | nil => simp [filterIdxFrom]
  | cons x xs ih =>
    have e : pre ++ x :: xs = (pre ++ [x]) ++ xs := by simp
    have ih' := ih (pre ++ [x]) (k + 1) (by simp [hk])
    rw [← e] at ih'
    simp only [filterIdxFrom, List.filter_cons]
    split
    · rename_i hp
      simp only [List.map_cons, ih']
      congr 1
      subst hk
      simp
    · exact ih'

theorem filterIdx_map_get (p : Nat → Bool) (items : List Item) :
    (filterIdx p items).map (fun i => items[i]?) = (filterItems p items).map some := by
  have := filterIdxFrom_map_get p items [] 0 rfl
  simpa [filterIdx, filterItems] using this

theorem filterIdx_length (p : Nat → Bool) (items : List Item) :
    (filterIdx p items).length = (filterItems p items).length := by
  have := congrArg List.length (filterIdx_map_get p items)
  simpa using this

theorem filterIdx_filterMap_get (p : Nat → Bool) (items : List Item) :
    (filterIdx p items).filterMap (fun i => items[i]?) = filterItems p items := by
  have h := filterIdx_map_get p items
  have : (filterIdx p items).filterMap (fun i => items[i]?) =
      ((filterIdx p items).map (fun i => items[i]?)).filterMap id := by
    rw [List.filterMap_map]; rfl
  rw [this, h, List.filterMap_map]
  simp

/-- The `j`-th index of a consistent view points at the `j`-th element of the filtered list. -/
theorem filterIdx_get (p : Nat → Bool) (items : List Item) (j : Nat) (hj : j < (filterIdx p items).length) :
    items[(filterIdx p items)[j]]? = (filterItems p items)[j]? := by
  have h := congrArg (fun l => l[j]?) (filterIdx_map_get p items)
  simp only [List.getElem?_map] at h
  rw [List.getElem?_eq_getElem hj] at h
  simp only [Option.map_some] at h
  have hj' : j < (filterItems p items).length := by rw [← filterIdx_length]; exact hj
  rw [List.getElem?_eq_getElem hj'] at h ⊢
  simp only [Option.map_some, Option.some.injEq] at h
  exact h


theorem filterIdx_lt (p : Nat → Bool) (items : List Item) (j : Nat) (hj : j < (filterIdx p items).length) :
    (filterIdx p items)[j] < items.length := by
  have := (filterIdxFrom_bounds p 0 items _ (List.getElem_mem hj)).2
  simpa [filterIdx] using this

theorem filterIdx_bind_get (p : Nat → Bool) (items : List Item) (j : Nat) :
    ((filterIdx p items)[j]?).bind (fun ri => items[ri]?) = (filterItems p items)[j]? := by
  by_cases hj : j < (filterIdx p items).length
  · rw [List.getElem?_eq_getElem hj]
    simp only [Option.bind_some]
    exact filterIdx_get p items j hj
  · have hj' : ¬ j < (filterItems p items).length := by rw [← filterIdx_length]; exact hj
    rw [List.getElem?_eq_none (by omega), List.getElem?_eq_none (by omega)]
    rfl

theorem View.getInt_eq (v : View) (items : List Item) (h : v.rawIdx = filterIdx v.pred items) (i : Int) :
    v.getInt items i = PyList.getItem (filterItems v.pred items) i := by
  unfold View.getInt PyList.getItem
  rw [h, filterIdx_length]
  simp only [bind, Except.bind, pure, Except.pure]
  cases hn : normIndex (filterItems v.pred items).length i with
  | error e => rfl
  | ok j =>
    simp only
    have hjl := (normIndex_ok hn).1
    have hj1 : j < (filterIdx v.pred items).length := by rw [filterIdx_length]; exact hjl
    rw [List.getElem?_eq_getElem hj1, List.getElem?_eq_getElem hjl]
    simp only
    have hlt := filterIdx_lt v.pred items j hj1
    rw [normIndex_of_nat hlt]
    simp only
    rw [filterIdx_get v.pred items j hj1, List.getElem?_eq_getElem hjl]

theorem View.getSlice_eq (v : View) (items : List Item) (h : v.rawIdx = filterIdx v.pred items)
    (a b c : Option Int) :
    v.getSlice items a b c = PyList.getSlice (filterItems v.pred items) a b c := by
  unfold View.getSlice PyList.getSlice
  rw [h, filterIdx_length]
  simp only [bind, Except.bind, pure, Except.pure]
  cases hn : sliceIdxs (filterItems v.pred items).length a b c with
  | error e => rfl
  | ok idxs =>
    simp only [Except.ok.injEq]
    rw [List.filterMap_filterMap]
    congr 1
    funext j
    exact filterIdx_bind_get v.pred items j


/-! ### The raw wrapper acts on the item list like a Python list -/
theorem PyList.getItem_of_norm {α} {xs : List α} {i : Int} {j : Nat} (hj : normIndex xs.length i = .ok j) :
    ∃ x, xs[j]? = some x ∧ PyList.getItem xs i = .ok x := by
  have hjl := (normIndex_ok hj).1
  refine ⟨xs[j], List.getElem?_eq_getElem hjl, ?_⟩
  simp [PyList.getItem, hj, bind, Except.bind, pure, Except.pure, List.getElem?_eq_getElem hjl]

theorem PyList.getItem_err {α} {xs : List α} {i : Int} {e : String} (hj : normIndex xs.length i = .error e) :
    PyList.getItem xs i = .error e := by
  simp [PyList.getItem, hj, bind, Except.bind]

theorem Raw.setInt_ref (items : List Item) (i : Int) (v : Item) :
    (Raw.setInt items i v).map (·.1) = PyList.setItem items i v := by
  unfold Raw.setInt
  cases hn : normIndex items.length i with
  | error e =>
    simp [PyList.getItem_err hn, PyList.setItem, hn, bind, Except.bind, Except.map]
  | ok j =>
    obtain ⟨x, _, hx⟩ := PyList.getItem_of_norm hn
    obtain ⟨hjl, hji⟩ := normIndex_ok hn
    simp only [hx, bind, Except.bind, ← hji]
    simp [PyList.setItem, normIndex_of_nat hjl, hn, bind, Except.bind, pure, Except.pure, Except.map]

theorem PyList.setSlice_of_indices {α} (xs vals : List α) {a b c : Option Int} {s e st : Int}
    (hs : sliceIndices xs.length a b c = .ok (s, e, st)) :
    PyList.setSlice xs a b c vals =
      if st = 1 then .ok (xs.take s.toNat ++ vals ++ xs.drop (if e < s then s else e).toNat)
      else if ((rangeList s e st).map Int.toNat).length ≠ vals.length then .error "ValueError:size"
      else .ok (setMany xs ((rangeList s e st).map Int.toNat) vals) := by
  simp only [PyList.setSlice, hs, bind, Except.bind, pure, Except.pure]

theorem PyList.delSlice_of_indices {α} (xs : List α) {a b c : Option Int} {s e st : Int}
    (hs : sliceIndices xs.length a b c = .ok (s, e, st)) :
    PyList.delSlice xs a b c =
      if st = 1 then .ok (xs.take s.toNat ++ xs.drop (if e < s then s else e).toNat)
      else .ok (eraseIdxs xs ((rangeList s e st).map Int.toNat)) := by
  simp only [PyList.delSlice, hs, bind, Except.bind, pure, Except.pure]

theorem Raw.setSlice_ref (items vals : List Item) (a b c : Option Int) (hre : Raw.reusable items vals = true) :
    (Raw.setSlice items a b c vals).map (·.1) = PyList.setSlice items a b c vals := by
  unfold Raw.setSlice
  simp only [hre, Bool.not_true, Bool.false_eq_true, if_false, bind, Except.bind, pure, Except.pure]
  cases hs : sliceIndices items.length a b c with
  | error e => simp [PyList.setSlice, hs, bind, Except.bind, Except.map]
  | ok v =>
    obtain ⟨s, e0, st⟩ := v
    have hb := sliceIndices_ok hs
    rw [PyList.setSlice_of_indices items vals hs]
    simp only
    by_cases hst : st = 1
    · subst hst
      obtain ⟨hs0, hs1, he0, he1⟩ := hb.2.2 (by omega)
      simp only [true_and, if_true]
      generalize he : (if e0 < s then s else e0) = e
      have hse : s ≤ e := by rw [← he]; split <;> omega
      have hel : e ≤ items.length := by rw [← he]; split <;> omega
      have hne : ¬ e = -1 := by omega
      simp only [Raw.sliceFromRange, hne, if_false]
      rw [PyList.setSlice_norm1 items vals hs0 hse hel]
      simp [Except.map]
    · simp only [hst, false_and, if_false]
      split <;> simp [Except.map, throw, throwThe, MonadExceptOf.throw]

theorem Raw.delInt_ref (items : List Item) (i : Int) :
    (Raw.delInt items i).map (·.1) = PyList.delItem items i := by
  unfold Raw.delInt PyList.delItem
  cases hn : normIndex items.length i with
  | error e => simp [bind, Except.bind, Except.map]
  | ok j =>
    have hjl := (normIndex_ok hn).1
    simp only [bind, Except.bind, pure, Except.pure]
    have hne : ¬ ((j : Int) + 1 = -1) := by omega
    simp only [Raw.sliceFromRange, hne, if_false]
    rw [Raw.setSlice_ref items [] _ _ _ (by simp [Raw.reusable])]
    rw [PyList.setSlice_norm1 items [] (by omega) (by omega) (by omega)]
    have e1 : (j : Int).toNat = j := by simp
    have e2 : ((j : Int) + 1).toNat = j + 1 := by omega
    simp [e1, e2, List.eraseIdx_eq_take_drop_succ]

theorem Raw.delSlice_ref (items : List Item) (a b c : Option Int) :
    (Raw.delSlice items a b c).map (·.1) = PyList.delSlice items a b c := by
  unfold Raw.delSlice
  cases hs : sliceIndices items.length a b c with
  | error e => simp [PyList.delSlice, hs, bind, Except.bind, Except.map]
  | ok v =>
    obtain ⟨s, e, st⟩ := v
    have hb := sliceIndices_ok hs
    rw [PyList.delSlice_of_indices items hs]
    simp only [bind, Except.bind, pure, Except.pure]
    by_cases hst : st = 1
    · subst hst
      obtain ⟨hs0, hs1, he0, he1⟩ := hb.2.2 (by omega)
      have hne : ¬ e = -1 := by omega
      simp only [if_true, Raw.sliceFromRange, hne, if_false]
      rw [Raw.setSlice_ref items [] _ _ _ (by simp [Raw.reusable])]
      rw [PyList.setSlice_of_indices items [] (sliceIndices_norm1 hs0 hs1 he0 he1)]
      simp
    · simp [hst, Raw.dropMany, Except.map]

theorem PyList.insertPos_clamp (len : Nat) (i : Int) :
    insertPos len (min (if i < 0 then max (i + (len : Int)) 0 else i) (len : Int)) = insertPos len i := by
  unfold insertPos
  simp only
  congr 1
  by_cases hi : i < 0
  · simp only [hi, if_true]
    split <;> split <;> (try split) <;> omega
  · simp only [hi, if_false]
    split <;> split <;> (try split) <;> omega

theorem Raw.insert_ref (items : List Item) (i : Int) (v : Item) :
    (Raw.insert items i v).1 = PyList.insert items i v := by
  unfold Raw.insert PyList.insert
  simp only
  rw [PyList.insertPos_clamp]

theorem Raw.pop_ref (items : List Item) (i : Int) :
    (Raw.pop items i).map (·.1) = (PyList.pop items i).map (·.1) := by
  unfold Raw.pop
  cases hn : normIndex items.length i with
  | error e =>
    simp [PyList.getItem_err hn, PyList.pop, hn, bind, Except.bind, Except.map]
  | ok j =>
    obtain ⟨x, hxj, hx⟩ := PyList.getItem_of_norm hn
    simp [hx, PyList.pop, hn, hxj, bind, Except.bind, pure, Except.pure, Except.map]



/-! ### One element of a view and the raw list around it -/
theorem filterIdxFrom_split (p : Nat → Bool) (items : List Item) (k j : Nat)
    (hj : j < (filterIdxFrom p k items).length) :
    ∃ A old B, items = A ++ old :: B ∧ (filterIdxFrom p k items)[j] = k + A.length ∧ p old.ty = true
      ∧ (filterItems p A).length = j := by
  induction items generalizing k j with
  | nil => simp [filterIdxFrom] at hj
  | cons x xs ih =>
    by_cases hp : p x.ty = true
    · have e : filterIdxFrom p k (x :: xs) = k :: filterIdxFrom p (k + 1) xs := by simp [filterIdxFrom, hp]
      cases j with
      | zero => exact ⟨[], x, xs, rfl, by simp [e], hp, rfl⟩
      | succ j' =>
        have hj' : j' < (filterIdxFrom p (k + 1) xs).length := by rw [e] at hj; simpa using hj
        obtain ⟨A, old, B, h1, h2, h3, h4⟩ := ih (k + 1) j' hj'
        refine ⟨x :: A, old, B, by simp [h1], ?_, h3, ?_⟩
        · simp only [e, List.getElem_cons_succ, h2, List.length_cons]; omega
        · simp [filterItems, hp] at h4 ⊢; exact h4
    · have e : filterIdxFrom p k (x :: xs) = filterIdxFrom p (k + 1) xs := by simp [filterIdxFrom, hp]
      have hj' : j < (filterIdxFrom p (k + 1) xs).length := by rw [e] at hj; exact hj
      obtain ⟨A, old, B, h1, h2, h3, h4⟩ := ih (k + 1) j hj'
      refine ⟨x :: A, old, B, by simp [h1], ?_, h3, ?_⟩
      · simp only [e, h2, List.length_cons]; omega
      · simp [filterItems, hp] at h4 ⊢; exact h4

/-- Around the `j`-th element of a view: the raw list splits at the raw index into a prefix holding exactly `j`
elements of the view, the element itself, and the rest. -/
theorem filterIdx_split (p : Nat → Bool) (items : List Item) (j : Nat) (hj : j < (filterIdx p items).length) :
    ∃ A old B, items = A ++ old :: B ∧ (filterIdx p items)[j] = A.length ∧ p old.ty = true
      ∧ (filterItems p A).length = j
      ∧ filterItems p items = filterItems p A ++ old :: filterItems p B := by
  obtain ⟨A, old, B, h1, h2, h3, h4⟩ := filterIdxFrom_split p items 0 j hj
  refine ⟨A, old, B, h1, by rw [Nat.zero_add] at h2; exact h2, h3, h4, ?_⟩
  rw [h1]; simp [filterItems, h3]

theorem filterItems_append (p : Nat → Bool) (a b : List Item) :
    filterItems p (a ++ b) = filterItems p a ++ filterItems p b := by simp [filterItems]

theorem filterItems_all (p : Nat → Bool) (vals : List Item) (h : ∀ x ∈ vals, p x.ty = true) :
    filterItems p vals = vals := by
  simp only [filterItems, List.filter_eq_self]; exact h

/-- Replacing the element under the `j`-th raw index by an element the view also shows replaces the `j`-th
element of the view. -/
theorem filterItems_set (p : Nat → Bool) (items : List Item) (j : Nat) (hj : j < (filterIdx p items).length)
    (y : Item) (hy : p y.ty = true) :
    filterItems p (items.set (filterIdx p items)[j] y) = (filterItems p items).set j y := by
  obtain ⟨A, old, B, h1, h2, h3, h4, h5⟩ := filterIdx_split p items j hj
  rw [h5, h2]
  conv => lhs; rw [h1]
  rw [List.set_append_right _ _ (by omega)]
  simp only [Nat.sub_self, List.set_cons_zero]
  rw [filterItems_append]
  rw [List.set_append_right _ _ (by omega)]
  have h4' : (List.filter (fun x => p x.ty) A).length = j := h4
  simp [filterItems, hy, h4']

theorem filterItems_eraseIdx (p : Nat → Bool) (items : List Item) (j : Nat) (hj : j < (filterIdx p items).length) :
    filterItems p (items.eraseIdx (filterIdx p items)[j]) = (filterItems p items).eraseIdx j := by
  obtain ⟨A, old, B, h1, h2, h3, h4, h5⟩ := filterIdx_split p items j hj
  rw [h5, h2]
  conv => lhs; rw [h1]
  rw [List.eraseIdx_append_of_length_le (by omega)]
  simp only [Nat.sub_self, List.eraseIdx_cons_zero]
  rw [filterItems_append]
  rw [List.eraseIdx_append_of_length_le (by omega)]
  have h4' : (List.filter (fun x => p x.ty) A).length = j := h4
  simp [filterItems, h4', h3]

theorem filterItems_insert (p : Nat → Bool) (items : List Item) (j : Nat) (hj : j < (filterIdx p items).length)
    (y : Item) (hy : p y.ty = true) :
    filterItems p (items.take (filterIdx p items)[j] ++ [y] ++ items.drop (filterIdx p items)[j])
      = (filterItems p items).take j ++ [y] ++ (filterItems p items).drop j := by
  obtain ⟨A, old, B, h1, h2, h3, h4, h5⟩ := filterIdx_split p items j hj
  rw [h5, h2]
  conv => lhs; rw [h1]
  rw [List.take_left' rfl, List.drop_left' rfl]
  rw [List.take_left' h4, List.drop_left' h4]
  simp [filterItems, hy, h3]



/-! raw calls with an in-range natural index -/
theorem Raw.setInt_nat (items : List Item) (ri : Nat) (x : Item) (h : ri < items.length) :
    (Raw.setInt items (ri : Int) x).map (·.1) = .ok (items.set ri x) := by
  rw [Raw.setInt_ref]
  simp [PyList.setItem, normIndex_of_nat h, bind, Except.bind, pure, Except.pure]

theorem Raw.pop_nat (items : List Item) (ri : Nat) (h : ri < items.length) :
    (Raw.pop items (ri : Int)).map (·.1) = .ok (items.eraseIdx ri) := by
  rw [Raw.pop_ref]
  have hn := normIndex_of_nat h
  simp [PyList.pop, hn, List.getElem?_eq_getElem h, bind, Except.bind, pure, Except.pure, Except.map]

theorem Raw.insert_nat (items : List Item) (ri : Nat) (x : Item) (h : ri ≤ items.length) :
    (Raw.insert items (ri : Int) x).1 = items.take ri ++ [x] ++ items.drop ri := by
  rw [Raw.insert_ref]
  unfold PyList.insert
  rw [PyList.insertPos_clamped (by omega) (by omega)]
  simp

theorem eraseIdxs_single {α} (xs : List α) (k : Nat) : eraseIdxs xs [k] = xs.eraseIdx k := by
  unfold eraseIdxs
  suffices h : ∀ (xs : List α) (k o : Nat),
      ((xs.zipIdx o).filter fun q => !(q.2 == o + k)).map (·.1) = xs.eraseIdx k by
    have := h xs k 0
    simp only [Nat.zero_add] at this
    simp only [List.contains_cons, List.contains_nil, Bool.or_false]
    exact this
  intro xs
  induction xs with
  | nil => simp
  | cons x xs ih =>
    intro k o
    cases k with
    | zero =>
      simp only [List.zipIdx_cons, Nat.add_zero, List.eraseIdx_cons_zero]
      rw [List.filter_cons]
      simp only [beq_self_eq_true, Bool.not_true, Bool.false_eq_true, if_false]
      have : ∀ q ∈ xs.zipIdx (o + 1), (!(q.2 == o)) = true := by
        intro q hq
        have := List.mem_zipIdx hq
        simp; omega
      rw [List.filter_eq_self.mpr this]
      simp
    | succ k' =>
      simp only [List.zipIdx_cons, List.eraseIdx_cons_succ]
      rw [List.filter_cons]
      have : (!(o == o + (k' + 1))) = true := by simp
      simp only [this, if_true, List.map_cons]
      congr 1
      have := ih k' (o + 1)
      have e : o + 1 + k' = o + (k' + 1) := by omega
      rw [e] at this
      exact this



theorem normIndex_err {len : Nat} {i : Int} (h : ¬ (-(len : Int) ≤ i ∧ i < len)) :
    normIndex len i = .error "IndexError" := by
  unfold normIndex
  by_cases hi : i < 0
  · simp only [hi, if_true]
    split
    · rfl
    · rename_i hc; exfalso; omega
  · simp only [hi, if_false]
    split
    · rfl
    · rename_i hc; exfalso; simp only [false_or] at hc; omega

theorem normIndex_ok_of {len : Nat} {i : Int} (h : -(len : Int) ≤ i ∧ i < len) :
    ∃ j, normIndex len i = .ok j ∧ j < len ∧ (j : Int) = (if i < 0 then i + len else i) := by
  cases hn : normIndex len i with
  | ok j => exact ⟨j, rfl, normIndex_ok hn⟩
  | error e =>
    exfalso
    unfold normIndex at hn
    by_cases hi : i < 0
    · simp only [hi, if_true] at hn
      split at hn
      · rename_i hc; omega
      · cases hn
    · simp only [hi, if_false] at hn
      split at hn
      · rename_i hc; simp only [false_or] at hc; omega
      · cases hn

theorem normIndex_error_tag {len : Nat} {i : Int} {e : String} (h : normIndex len i = .error e) :
    e = "IndexError" ∧ ¬ (-(len : Int) ≤ i ∧ i < len) := by
  by_cases hr : (-(len : Int) ≤ i ∧ i < len)
  · obtain ⟨j, hj, _⟩ := normIndex_ok_of hr
    rw [hj] at h; cases h
  · rw [normIndex_err hr] at h
    injection h with h
    exact ⟨h.symm, hr⟩

/-! ### world-level plumbing -/

theorem stepRaw_map_items (w : World) (rop : RawOp) :
    (w.stepRaw rop).map (·.items) = (Raw.apply w.items rop).map (·.1) := by
  unfold World.stepRaw
  cases Raw.apply w.items rop with
  | error e => rfl
  | ok r => rfl

theorem outcome_single_raw (w : World) (rop : RawOp) :
    World.outcome (w.runMicros [.raw rop]) = (Raw.apply w.items rop).map (·.1)
    ∧ ((w.runMicros [.raw rop]).2 ≠ none → (w.runMicros [.raw rop]).1 = w) := by
  have h := stepRaw_map_items w rop
  simp only [World.runMicros, World.stepMicro]
  cases hs : w.stepRaw rop with
  | error e =>
    rw [hs] at h
    simp only [World.outcome]
    exact ⟨by simpa [Except.map] using h, by simp⟩
  | ok w' =>
    rw [hs] at h
    simp only [World.outcome]
    exact ⟨by simpa [Except.map] using h, by simp⟩

theorem step_view_eq (w : World) (k : Nat) (v : View) (op : ViewOp) (hk : w.views[k]? = some v) :
    w.step (.view k op) = (match v.apply w.items op with
      | .error e => (w, some e)
      | .ok ms => w.runMicros ms) := by
  simp only [World.step, hk]
  cases v.apply w.items op <;> rfl



/-! ### Calls through a view, one by one -/
theorem spec_of_error {β : Type} {w : World} {k : Nat} {v : View} {op : ViewOp} {conv : Item → β} {e : String}
    (hk : w.views[k]? = some v) (hap : v.apply w.items op = .error e) :
    ViewCallSpec w k v op (.error e) conv := by
  unfold ViewCallSpec
  rw [step_view_eq w k v op hk, hap]
  exact ⟨rfl, fun _ => rfl⟩

theorem spec_of_single {β : Type} {w : World} {k : Nat} {v : View} {op : ViewOp} {conv : Item → β}
    {rop : RawOp} {ref : Except String (List Item)}
    (hk : w.views[k]? = some v) (hap : v.apply w.items op = .ok [.raw rop])
    (href : (Raw.apply w.items rop).map (fun r => filterItems v.pred r.1) = ref) :
    ViewCallSpec w k v op ref conv := by
  unfold ViewCallSpec
  rw [step_view_eq w k v op hk, hap]
  simp only
  obtain ⟨h1, h2⟩ := outcome_single_raw w rop
  refine ⟨?_, h2⟩
  rw [h1, ← href]
  cases Raw.apply w.items rop <;> rfl

theorem filterIdx_get?_lt {p : Nat → Bool} {items : List Item} {j ri : Nat}
    (h : (filterIdx p items)[j]? = some ri) :
    ∃ hj : j < (filterIdx p items).length, ri = (filterIdx p items)[j] ∧ ri < items.length := by
  obtain ⟨hj, rfl⟩ := List.getElem?_eq_some_iff.mp h
  exact ⟨hj, rfl, filterIdx_lt p items j hj⟩

/-- `view.pop(i)` -/
theorem spec_pop {β : Type} (w : World) (k : Nat) (v : View) (conv : Item → β) (i : Int)
    (hk : w.views[k]? = some v) (hv : v.rawIdx = filterIdx v.pred w.items) :
    ViewCallSpec w k v (.pop i) ((PyList.pop (filterItems v.pred w.items) i).map (·.1)) conv := by
  have hlen : v.rawIdx.length = (filterItems v.pred w.items).length := by rw [hv, filterIdx_length]
  by_cases hr : (-(v.rawIdx.length : Int) ≤ i ∧ i < v.rawIdx.length)
  · obtain ⟨j, hj, hjl, _⟩ := normIndex_ok_of hr
    obtain ⟨ri, hri, hget⟩ := PyList.getItem_of_norm hj
    have hap : v.apply w.items (.pop i) = .ok [.raw (.pop (ri : Int))] := by
      simp [View.apply, View.popM, hr, hget, bind, Except.bind, pure, Except.pure]
    rw [hv] at hri
    obtain ⟨hj', hri', hlt⟩ := filterIdx_get?_lt hri
    have href : PyList.pop (filterItems v.pred w.items) i
        = .ok ((filterItems v.pred w.items).eraseIdx j, (filterItems v.pred w.items)[j]'(by omega)) := by
      have hj2 : normIndex (filterItems v.pred w.items).length i = .ok j := by rw [← hlen]; exact hj
      simp [PyList.pop, hj2, List.getElem?_eq_getElem (show j < (filterItems v.pred w.items).length by omega),
        bind, Except.bind, pure, Except.pure]
    rw [href]
    apply spec_of_single hk hap
    have := Raw.pop_nat w.items ri hlt
    simp only [Raw.apply]
    cases hp : Raw.pop w.items (ri : Int) with
    | error e => rw [hp] at this; simp [Except.map] at this
    | ok r =>
      rw [hp] at this
      simp only [Except.map, Except.ok.injEq] at this ⊢
      rw [this, hri', filterItems_eraseIdx v.pred w.items j hj']
  · have hap : v.apply w.items (.pop i) = .error "IndexError" := by
      simp [View.apply, View.popM, hr, bind, Except.bind, throw, throwThe, MonadExceptOf.throw]
    have href : PyList.pop (filterItems v.pred w.items) i = .error "IndexError" := by
      rw [hlen] at hr
      simp [PyList.pop, normIndex_err hr, bind, Except.bind]
    rw [href]
    exact spec_of_error hk hap


theorem rangeList_single (j : Int) : rangeList j (j + 1) 1 = [j] := by
  have h : rangeLen j (j + 1) 1 = 1 := by
    unfold rangeLen
    have a : (0 : Int) < 1 := by omega
    have b : j < j + 1 := by omega
    simp only [a, b, if_true]
    have : (j + 1 - j - 1) / 1 + 1 = (1 : Int) := by omega
    rw [this]; rfl
  simp [rangeList, h, List.range_succ]

/-- `del view[i]` -/
theorem spec_delInt {β : Type} (w : World) (k : Nat) (v : View) (conv : Item → β) (i : Int)
    (hk : w.views[k]? = some v) (hv : v.rawIdx = filterIdx v.pred w.items) :
    ViewCallSpec w k v (.delInt i) (PyList.delItem (filterItems v.pred w.items) i) conv := by
  have hlen : v.rawIdx.length = (filterItems v.pred w.items).length := by rw [hv, filterIdx_length]
  cases hn : normIndex v.rawIdx.length i with
  | error e =>
    have hap : v.apply w.items (.delInt i) = .error e := by
      simp [View.apply, View.delIntM, hn, bind, Except.bind]
    have href : PyList.delItem (filterItems v.pred w.items) i = .error e := by
      rw [hlen] at hn; simp [PyList.delItem, hn, bind, Except.bind]
    rw [href]; exact spec_of_error hk hap
  | ok j =>
    have hjl := (normIndex_ok hn).1
    have hap : v.apply w.items (.delInt i) = .ok [.raw (.dropMany [v.rawIdx[j]])] := by
      simp [View.apply, View.delIntM, hn, bind, Except.bind, pure, Except.pure, rangeList_single,
        List.getElem?_eq_getElem hjl]
    have href : PyList.delItem (filterItems v.pred w.items) i = .ok ((filterItems v.pred w.items).eraseIdx j) := by
      rw [hlen] at hn; simp [PyList.delItem, hn, bind, Except.bind, pure, Except.pure]
    rw [href]
    apply spec_of_single hk hap
    have hj' : j < (filterIdx v.pred w.items).length := by rw [← hv]; exact hjl
    simp only [Raw.apply, Raw.dropMany, pure, Except.pure, Except.map, eraseIdxs_single, Except.ok.injEq]
    have : v.rawIdx[j] = (filterIdx v.pred w.items)[j] := by simp [hv]
    rw [this, filterItems_eraseIdx v.pred w.items j hj']

/-- `view.append(x)` -/
theorem spec_append {β : Type} (w : World) (k : Nat) (v : View) (conv : Item → β) (x : Item)
    (hk : w.views[k]? = some v) (hx : v.pred x.ty = true) :
    ViewCallSpec w k v (.append x) (.ok (PyList.append (filterItems v.pred w.items) x)) conv := by
  apply spec_of_single hk (rop := .append x) (by simp [View.apply, pure, Except.pure])
  simp [Raw.apply, Raw.append, PyList.append, pure, Except.pure, Except.map, filterItems, hx]

/-- `view.extend(vals)` -/
theorem spec_extend {β : Type} (w : World) (k : Nat) (v : View) (conv : Item → β) (vals : List Item)
    (hk : w.views[k]? = some v) (hx : ∀ x ∈ vals, v.pred x.ty = true)
    (hre : Raw.reusable w.items vals = true) :
    ViewCallSpec w k v (.extend vals) (.ok (PyList.extend (filterItems v.pred w.items) vals)) conv := by
  apply spec_of_single hk (rop := .extend vals) (by simp [View.apply, pure, Except.pure])
  simp only [Raw.apply, Raw.extend, hre, Bool.not_true, Bool.false_eq_true, if_false, bind, Except.bind, pure,
    Except.pure, Except.map, PyList.extend, Except.ok.injEq]
  rw [filterItems_append, filterItems_all v.pred vals hx]

/-- `view.insert(i, x)` -/
theorem spec_insert {β : Type} (w : World) (k : Nat) (v : View) (conv : Item → β) (i : Int) (x : Item)
    (hk : w.views[k]? = some v) (hv : v.rawIdx = filterIdx v.pred w.items) (hx : v.pred x.ty = true) :
    ViewCallSpec w k v (.insert i x) (.ok (PyList.insert (filterItems v.pred w.items) i x)) conv := by
  have hlen : v.rawIdx.length = (filterItems v.pred w.items).length := by rw [hv, filterIdx_length]
  by_cases h1 : (v.rawIdx.length : Int) ≤ i
  · have hap : v.apply w.items (.insert i x) = .ok [.raw (.insert (w.items.length : Int) x)] := by
      simp [View.apply, h1, pure, Except.pure]
    apply spec_of_single hk hap
    simp only [Raw.apply, pure, Except.pure, Except.map, Except.ok.injEq]
    rw [Raw.insert_nat w.items w.items.length x (Nat.le_refl _)]
    have hpos : insertPos (filterItems v.pred w.items).length i = (filterItems v.pred w.items).length := by
      unfold insertPos
      rw [hlen] at h1
      have a : ¬ i < 0 := by omega
      simp only [a, if_false]
      split <;> omega
    simp only [PyList.insert, hpos, filterItems_append]
    simp [filterItems, hx]
  · by_cases h2 : i < -(v.rawIdx.length : Int)
    · have hap : v.apply w.items (.insert i x) = .ok [.raw (.insert ((0 : Nat) : Int) x)] := by
        simp [View.apply, h1, h2, pure, Except.pure]
      apply spec_of_single hk hap
      simp only [Raw.apply, pure, Except.pure, Except.map, Except.ok.injEq]
      rw [Raw.insert_nat w.items 0 x (Nat.zero_le _)]
      have hpos : insertPos (filterItems v.pred w.items).length i = 0 := by
        unfold insertPos
        rw [hlen] at h2
        have a : i < 0 := by omega
        have b : i + ((filterItems v.pred w.items).length : Int) < 0 := by omega
        simp [a, b]
      simp only [PyList.insert, hpos, filterItems_append]
      simp [filterItems, hx]
    · have hr : (-(v.rawIdx.length : Int) ≤ i ∧ i < v.rawIdx.length) := by omega
      obtain ⟨j, hj, hjl, hji⟩ := normIndex_ok_of hr
      obtain ⟨ri, hri, hget⟩ := PyList.getItem_of_norm hj
      have hap : v.apply w.items (.insert i x) = .ok [.raw (.insert (ri : Int) x)] := by
        simp [View.apply, h1, h2, hget, bind, Except.bind, pure, Except.pure]
      rw [hv] at hri
      obtain ⟨hj', hri', hlt⟩ := filterIdx_get?_lt hri
      apply spec_of_single hk hap
      simp only [Raw.apply, pure, Except.pure, Except.map, Except.ok.injEq]
      rw [Raw.insert_nat w.items ri x (by omega), hri', filterItems_insert v.pred w.items j hj' x hx]
      have hpos : insertPos (filterItems v.pred w.items).length i = j := by
        unfold insertPos
        rw [hlen] at hr hji
        by_cases a : i < 0
        · have b : ¬ (i + ((filterItems v.pred w.items).length : Int) < 0) := by omega
          simp only [a, b, if_true, if_false] at hji ⊢
          omega
        · have b : ¬ (((filterItems v.pred w.items).length : Int) < i) := by omega
          simp only [a, b, if_false] at hji ⊢
          omega
      simp [PyList.insert, hpos]



/-! ### Assignment through a view -/
theorem filterIdxFrom_congr_pred (p : Nat → Bool) (k : Nat) (xs ys : List Item)
    (h : xs.map (fun x => p x.ty) = ys.map (fun x => p x.ty)) : filterIdxFrom p k xs = filterIdxFrom p k ys := by
  induction xs generalizing ys k with
  | nil =>
    cases ys with
    | nil => rfl
    | cons y ys => simp at h
  | cons x xs ih =>
    cases ys with
    | nil => simp at h
    | cons y ys =>
      simp only [List.map_cons, List.cons.injEq] at h
      simp only [filterIdxFrom, h.1, ih (k + 1) ys h.2]

theorem map_set_same {γ : Type} (f : Item → γ) (items : List Item) (ri : Nat) (old y : Item)
    (h : items[ri]? = some old) (hf : f y = f old) : (items.set ri y).map f = items.map f := by
  rw [List.map_set]
  apply List.ext_getElem?
  intro n
  rw [List.getElem?_set]
  split
  · rename_i hn
    subst hn
    split
    · rw [List.getElem?_map, h, hf]; rfl
    · rename_i hlt
      simp at hlt
      rw [List.getElem?_eq_none (by simpa using hlt)]
  · rfl

/-- What one `if not update_raw(raw[ri], x): raw[ri] = x` does to the item list. -/
def setOrUpd (upd : UpdKind) (acc : List Item) (q : Nat × Item) : List Item :=
  match acc[q.1]? with
  | some old => acc.set q.1 (if upd.applies old q.2 then { old with val := q.2.val } else q.2)
  | none => acc

theorem setOrUpd_length (upd : UpdKind) (acc : List Item) (q : Nat × Item) :
    (setOrUpd upd acc q).length = acc.length := by
  unfold setOrUpd; split <;> simp

theorem stepMicro_setOrUpdate (w : World) (upd : UpdKind) (ri : Nat) (x : Item) (h : ri < w.items.length) :
    ∃ w', w.stepMicro (.setOrUpdate upd ri x) = .ok w' ∧ w'.items = setOrUpd upd w.items (ri, x) := by
  have hold : w.items[ri]? = some w.items[ri] := List.getElem?_eq_getElem h
  simp only [World.stepMicro, hold, setOrUpd]
  by_cases ha : upd.applies w.items[ri] x = true
  · simp only [ha, if_true, pure, Except.pure]
    exact ⟨_, rfl, by simp [World.updateInPlace, hold]⟩
  · simp only [ha, Bool.false_eq_true, if_false]
    have h1 := stepRaw_map_items w (.setInt (ri : Int) x)
    have h2 := Raw.setInt_nat w.items ri x h
    simp only [Raw.apply] at h1
    rw [h2] at h1
    cases hs : w.stepRaw (.setInt (ri : Int) x) with
    | error e => rw [hs] at h1; simp [Except.map] at h1
    | ok w' =>
      rw [hs] at h1
      simp only [Except.map, Except.ok.injEq] at h1
      exact ⟨w', rfl, h1⟩

theorem runMicros_sets (upd : UpdKind) (pairs : List (Nat × Item)) (w : World)
    (h : ∀ q ∈ pairs, q.1 < w.items.length) :
    ∃ w', w.runMicros (pairs.map fun q => Micro.setOrUpdate upd q.1 q.2) = (w', none)
      ∧ w'.items = pairs.foldl (setOrUpd upd) w.items := by
  induction pairs generalizing w with
  | nil => exact ⟨w, rfl, rfl⟩
  | cons q qs ih =>
    obtain ⟨w1, hw1, hi1⟩ := stepMicro_setOrUpdate w upd q.1 q.2 (h q (List.mem_cons_self ..))
    have hlen : w1.items.length = w.items.length := by rw [hi1, setOrUpd_length]
    obtain ⟨w2, hw2, hi2⟩ := ih w1 (by
      intro q' hq'
      rw [hlen]
      exact h q' (List.mem_cons_of_mem _ hq'))
    refine ⟨w2, ?_, ?_⟩
    · simp only [List.map_cons, World.runMicros, hw1]
      exact hw2
    · simp only [List.foldl_cons]
      rw [hi2, hi1]

theorem setMany_map_congr {β : Type} (conv : Item → β) (S : List Nat) (vals a b : List Item)
    (h : a.map conv = b.map conv) : (setMany a S vals).map conv = (setMany b S vals).map conv := by
  unfold setMany
  induction S generalizing vals a b with
  | nil => simpa using h
  | cons j S ih =>
    cases vals with
    | nil => simpa using h
    | cons x xs =>
      simp only [List.zip_cons_cons, List.foldl_cons]
      apply ih
      rw [List.map_set, List.map_set, h]

/-- Assigning through a view to the view positions `S` acts on the filtered (converted) list as assigning to
the positions `S` of a plain list. -/
theorem filter_foldl_sets {β : Type} (p : Nat → Bool) (upd : UpdKind) (conv : Item → β)
    (hconv : ∀ old new : Item, upd.applies old new = true → conv { old with val := new.val } = conv new)
    (S : List Nat) (vals items fl' : List Item)
    (hS : ∀ j ∈ S, j < (filterIdx p items).length) (hvals : ∀ x ∈ vals, p x.ty = true)
    (hfl : (filterItems p items).map conv = fl'.map conv) :
    (filterItems p (((S.filterMap fun j => (filterIdx p items)[j]?).zip vals).foldl (setOrUpd upd) items)).map conv
      = (setMany fl' S vals).map conv := by
  induction S generalizing vals items fl' with
  | nil => simpa [setMany] using hfl
  | cons j S ih =>
    have hj := hS j (List.mem_cons_self ..)
    cases vals with
    | nil => simpa [setMany] using hfl
    | cons x xs =>
      have hget : (filterIdx p items)[j]? = some (filterIdx p items)[j] := List.getElem?_eq_getElem hj
      simp only [List.filterMap_cons, hget, List.zip_cons_cons, List.foldl_cons]
      -- the element under the raw index
      obtain ⟨A, old, B, h1, h2, h3, h4, h5⟩ := filterIdx_split p items j hj
      have hlt := filterIdx_lt p items j hj
      have hold : items[(filterIdx p items)[j]]? = some old := by
        rw [h2]; conv => lhs; rw [h1]
        simp
      generalize hy : (if upd.applies old x then { old with val := x.val } else x) = y
      have hstep : setOrUpd upd items ((filterIdx p items)[j], x) = items.set (filterIdx p items)[j] y := by
        simp only [setOrUpd, hold, hy]
      have hpy : p y.ty = true := by
        rw [← hy]; split
        · exact h3
        · exact hvals x (List.mem_cons_self ..)
      have hcy : conv y = conv x := by
        rw [← hy]; split
        · rename_i ha; exact hconv old x ha
        · rfl
      rw [hstep]
      have hidx : filterIdx p (items.set (filterIdx p items)[j] y) = filterIdx p items := by
        unfold filterIdx
        apply filterIdxFrom_congr_pred
        exact map_set_same (fun x => p x.ty) items _ old y hold (by rw [hpy, h3])
      have := ih xs (items.set (filterIdx p items)[j] y) (fl'.set j x)
        (by intro j' hj'; rw [hidx]; exact hS j' (List.mem_cons_of_mem _ hj'))
        (by intro x' hx'; exact hvals x' (List.mem_cons_of_mem _ hx'))
        (by rw [filterItems_set p items j hj y hpy, List.map_set, List.map_set, hfl, hcy])
      rw [hidx] at this
      rw [this]
      simp [setMany]



theorem rangeList_mem {s e st k : Int} (hk : k ∈ rangeList s e st) :
    (0 < st → s ≤ k ∧ k < e) ∧ (st < 0 → e < k ∧ k ≤ s) := by
  unfold rangeList at hk
  simp only [List.mem_map, List.mem_range] at hk
  obtain ⟨m, hm, rfl⟩ := hk
  unfold rangeLen at hm
  constructor
  · intro hst
    simp only [hst, if_true] at hm
    split at hm
    · rename_i hlt
      have h1 : (m : Int) ≤ (e - s - 1) / st := by omega
      have h2 : (m : Int) * st ≤ (e - s - 1) / st * st := Int.mul_le_mul_of_nonneg_right h1 (by omega)
      have h3 : (e - s - 1) / st * st ≤ e - s - 1 := Int.ediv_mul_le _ (by omega)
      have h4 : 0 ≤ (m : Int) * st := Int.mul_nonneg (by omega) (by omega)
      constructor <;> omega
    · omega
  · intro hst
    have hn : ¬ (0 < st) := by omega
    simp only [hn, if_false] at hm
    split at hm
    · rename_i hlt
      have h1 : (m : Int) ≤ (s - e - 1) / (-st) := by omega
      have h2 : (m : Int) * (-st) ≤ (s - e - 1) / (-st) * (-st) := Int.mul_le_mul_of_nonneg_right h1 (by omega)
      have h3 : (s - e - 1) / (-st) * (-st) ≤ s - e - 1 := Int.ediv_mul_le _ (by omega)
      have h4 : 0 ≤ (m : Int) * (-st) := Int.mul_nonneg (by omega) (by omega)
      have h5 : (m : Int) * (-st) = -((m : Int) * st) := by rw [Int.mul_neg]
      constructor <;> omega
    · omega

theorem clampBound_neg_bounds {n st v : Int} (hn : 0 ≤ n) (hst : st < 0) :
    -1 ≤ clampBound n st v ∧ clampBound n st v ≤ n - 1 := by
  unfold clampBound
  simp only [hst, if_true]
  split
  · split <;> constructor <;> omega
  · split <;> constructor <;> omega

theorem sliceIndices_neg_bounds {len : Nat} {a b c : Option Int} {s e st : Int}
    (h : sliceIndices len a b c = .ok (s, e, st)) (hst : st < 0) :
    -1 ≤ s ∧ s ≤ (len : Int) - 1 ∧ -1 ≤ e ∧ e ≤ (len : Int) - 1 := by
  unfold sliceIndices at h
  simp only at h
  split at h
  · cases h
  · injection h with h
    simp only [Prod.mk.injEq] at h
    obtain ⟨hs, he, hst'⟩ := h
    rw [← hst'] at hst
    have hn : (0 : Int) ≤ (len : Int) := by omega
    subst hs he
    refine ⟨?_, ?_, ?_, ?_⟩
    · cases a with
      | none => simp only [hst, if_true]; omega
      | some v => exact (clampBound_neg_bounds hn hst).1
    · cases a with
      | none => simp only [hst, if_true]; omega
      | some v => exact (clampBound_neg_bounds hn hst).2
    · cases b with
      | none => simp only [hst, if_true]; omega
      | some v => exact (clampBound_neg_bounds hn hst).1
    · cases b with
      | none => simp only [hst, if_true]; omega
      | some v => exact (clampBound_neg_bounds hn hst).2

/-- The indexes `range(len)[slice]` enumerates are valid positions. -/
theorem sliceIndices_range_valid {len : Nat} {a b c : Option Int} {s e st : Int}
    (h : sliceIndices len a b c = .ok (s, e, st)) :
    ∀ k ∈ rangeList s e st, 0 ≤ k ∧ k < len := by
  intro k hk
  have hm := rangeList_mem hk
  have hb := sliceIndices_ok h
  rcases Int.lt_trichotomy st 0 with hneg | hz | hpos
  · have := sliceIndices_neg_bounds h hneg
    have := hm.2 hneg
    omega
  · exact absurd hz hb.1
  · have := hb.2.2 hpos
    have := hm.1 hpos
    omega



theorem filterMap_get_length (R S : List Nat) (h : ∀ j ∈ S, j < R.length) :
    (S.filterMap fun j => R[j]?).length = S.length := by
  induction S with
  | nil => rfl
  | cons j S ih =>
    have hj := h j (List.mem_cons_self ..)
    simp only [List.filterMap_cons, List.getElem?_eq_getElem hj, List.length_cons]
    rw [ih (fun j' hj' => h j' (List.mem_cons_of_mem _ hj'))]

theorem filterMap_get_mem (R S : List Nat) (r : Nat) (h : r ∈ S.filterMap fun j => R[j]?) : r ∈ R := by
  simp only [List.mem_filterMap] at h
  obtain ⟨j, _, hj⟩ := h
  exact List.mem_of_getElem? hj

theorem spec_setIdxs {β : Type} (w : World) (k : Nat) (v : View) (conv : Item → β) (op : ViewOp)
    (s e st : Int) (vals : List Item)
    (hk : w.views[k]? = some v) (hv : v.rawIdx = filterIdx v.pred w.items)
    (hconv : ∀ old new : Item, v.upd.applies old new = true → conv { old with val := new.val } = conv new)
    (hvals : ∀ x ∈ vals, v.pred x.ty = true)
    (hap : v.apply w.items op = View.setIdxs v s e st vals)
    (hvalid : ∀ k ∈ rangeList s e st, 0 ≤ k ∧ k < (v.rawIdx.length : Int))
    (hsz : (rangeList s e st).length = vals.length) :
    ViewCallSpec w k v op (.ok (setMany (filterItems v.pred w.items) ((rangeList s e st).map Int.toNat) vals)) conv := by
  generalize hS : (rangeList s e st).map Int.toNat = S
  have hSv : ∀ j ∈ S, j < (filterIdx v.pred w.items).length := by
    intro j hj
    rw [← hS] at hj
    simp only [List.mem_map] at hj
    obtain ⟨k', hk', rfl⟩ := hj
    have := hvalid k' hk'
    rw [← hv]; omega
  have hTU : ((rangeList s e st).filterMap fun k => v.rawIdx[k.toNat]?) = S.filterMap fun j => (filterIdx v.pred w.items)[j]? := by
    rw [← hS, List.filterMap_map, hv]; rfl
  have hlen : (S.filterMap fun j => (filterIdx v.pred w.items)[j]?).length = vals.length := by
    rw [filterMap_get_length _ S hSv, ← hS, List.length_map, hsz]
  have hap' : v.apply w.items op = .ok (((S.filterMap fun j => (filterIdx v.pred w.items)[j]?).zip vals).map
      fun q => Micro.setOrUpdate v.upd q.1 q.2) := by
    rw [hap]
    simp only [View.setIdxs, hTU, hlen, ne_eq, not_true_eq_false, if_false, bind, Except.bind, pure, Except.pure]
  obtain ⟨w', hw', hi'⟩ := runMicros_sets v.upd ((S.filterMap fun j => (filterIdx v.pred w.items)[j]?).zip vals) w (by
    intro q hq
    have h1 : q.1 ∈ S.filterMap fun j => (filterIdx v.pred w.items)[j]? := (List.of_mem_zip hq).1
    have h2 := filterMap_get_mem _ S q.1 h1
    have := (filterIdxFrom_bounds v.pred 0 w.items q.1 h2).2
    simpa using this)
  unfold ViewCallSpec
  rw [step_view_eq w k v op hk, hap']
  simp only [hw', World.outcome, Except.map, ne_eq, not_true_eq_false, false_implies, and_true, Except.ok.injEq]
  rw [hi']
  exact filter_foldl_sets v.pred v.upd conv hconv S vals w.items _ hSv hvals rfl

/-- `view[i] = x` -/
theorem spec_setInt {β : Type} (w : World) (k : Nat) (v : View) (conv : Item → β) (i : Int) (x : Item)
    (hk : w.views[k]? = some v) (hv : v.rawIdx = filterIdx v.pred w.items)
    (hconv : ∀ old new : Item, v.upd.applies old new = true → conv { old with val := new.val } = conv new)
    (hx : v.pred x.ty = true) :
    ViewCallSpec w k v (.setInt i x) (PyList.setItem (filterItems v.pred w.items) i x) conv := by
  have hlen : v.rawIdx.length = (filterItems v.pred w.items).length := by rw [hv, filterIdx_length]
  cases hn : normIndex v.rawIdx.length i with
  | error e =>
    have hap : v.apply w.items (.setInt i x) = .error e := by
      simp [View.apply, View.setIntM, hn, bind, Except.bind]
    have href : PyList.setItem (filterItems v.pred w.items) i x = .error e := by
      rw [hlen] at hn; simp [PyList.setItem, hn, bind, Except.bind]
    rw [href]; exact spec_of_error hk hap
  | ok j =>
    have hjl := (normIndex_ok hn).1
    have href : PyList.setItem (filterItems v.pred w.items) i x = .ok ((filterItems v.pred w.items).set j x) := by
      rw [hlen] at hn; simp [PyList.setItem, hn, bind, Except.bind, pure, Except.pure]
    rw [href]
    have := spec_setIdxs w k v conv (.setInt i x) j (j + 1) 1 [x] hk hv hconv
      (by intro y hy; simp at hy; subst hy; exact hx)
      (by simp [View.apply, View.setIntM, hn, bind, Except.bind])
      (by intro k' hk'; rw [rangeList_single] at hk'; simp at hk'; subst hk'; omega)
      (by rw [rangeList_single]; rfl)
    rw [rangeList_single] at this
    simpa [setMany] using this



theorem setMany_range {α} (vals fl : List α) (s : Nat) (h : s + vals.length ≤ fl.length) :
    setMany fl (List.range' s vals.length) vals = fl.take s ++ vals ++ fl.drop (s + vals.length) := by
  induction vals generalizing fl s with
  | nil => simp [setMany]
  | cons x xs ih =>
    simp only [List.length_cons] at h ⊢
    have hstep : setMany fl (List.range' s (xs.length + 1)) (x :: xs)
        = setMany (fl.set s x) (List.range' (s + 1) xs.length) xs := by
      simp [setMany, List.range'_succ]
    rw [hstep, ih (fl.set s x) (s + 1) (by simp; omega)]
    have hslt : s < fl.length := by omega
    have hset : fl.set s x = (fl.take s ++ [x]) ++ fl.drop (s + 1) := by
      rw [List.set_eq_take_append_cons_drop]; simp [hslt]
    have hpl : (fl.take s ++ [x]).length = s + 1 := by simp; omega
    have h1 : (fl.set s x).take (s + 1) = fl.take s ++ [x] := by
      rw [hset]; exact List.take_left' hpl
    have h2 : (fl.set s x).drop (s + 1 + xs.length) = fl.drop (s + (xs.length + 1)) := by
      rw [hset, ← List.drop_drop, List.drop_left' hpl, List.drop_drop]
      congr 1; omega
    rw [h1, h2]; simp

theorem rangeList_step1 (s e : Int) (hs : 0 ≤ s) :
    (rangeList s e 1).map Int.toNat = List.range' s.toNat (rangeLen s e 1) := by
  unfold rangeList
  rw [List.map_map, List.range'_eq_map_range]
  apply List.map_congr_left
  intro k _
  simp only [Function.comp]
  omega

theorem rangeLen_step1 (s e : Int) : rangeLen s e 1 = (e - s).toNat := by
  unfold rangeLen
  have a : (0 : Int) < 1 := by omega
  simp only [a, if_true]
  split
  · have : (e - s - 1) / 1 + 1 = e - s := by omega
    rw [this]
  · omega



/-- `view[a:b:c] = vals` (sizes equal for step 1: the documented restriction; for extended slices a size
mismatch raises `ValueError` exactly as a list does). -/
theorem spec_setSlice {β : Type} (w : World) (k : Nat) (v : View) (conv : Item → β) (a b c : Option Int)
    (vals : List Item)
    (hk : w.views[k]? = some v) (hv : v.rawIdx = filterIdx v.pred w.items)
    (hconv : ∀ old new : Item, v.upd.applies old new = true → conv { old with val := new.val } = conv new)
    (hvals : ∀ x ∈ vals, v.pred x.ty = true)
    (hsz : ∀ s e, sliceIndices (filterItems v.pred w.items).length a b c = .ok (s, e, 1) →
      (rangeList s e 1).length = vals.length) :
    ViewCallSpec w k v (.setSlice a b c vals) (PyList.setSlice (filterItems v.pred w.items) a b c vals) conv := by
  have hlen : v.rawIdx.length = (filterItems v.pred w.items).length := by rw [hv, filterIdx_length]
  cases hs : sliceIndices (filterItems v.pred w.items).length a b c with
  | error e =>
    have hap : v.apply w.items (.setSlice a b c vals) = .error e := by
      simp [View.apply, hlen, hs, bind, Except.bind]
    have href : PyList.setSlice (filterItems v.pred w.items) a b c vals = .error e := by
      simp [PyList.setSlice, hs, bind, Except.bind]
    rw [href]; exact spec_of_error hk hap
  | ok r =>
    obtain ⟨s, e, st⟩ := r
    have hap : v.apply w.items (.setSlice a b c vals) = View.setIdxs v s e st vals := by
      simp [View.apply, hlen, hs, bind, Except.bind]
    have hvalid := sliceIndices_range_valid hs
    rw [PyList.setSlice_of_indices _ vals hs]
    by_cases hst : st = 1
    · subst hst
      have hsz' := hsz s e hs
      obtain ⟨hs0, hs1, he0, he1⟩ := (sliceIndices_ok hs).2.2 (by omega)
      simp only [if_true]
      have := spec_setIdxs w k v conv (.setSlice a b c vals) s e 1 vals hk hv hconv hvals hap
        (by intro k' hk'; rw [hlen]; exact hvalid k' hk') hsz'
      have hrl : (rangeList s e 1).length = rangeLen s e 1 := by simp [rangeList]
      rw [rangeList_step1 s e hs0, ← hrl, hsz'] at this
      have hle : s.toNat + vals.length ≤ (filterItems v.pred w.items).length := by
        rw [← hsz', hrl, rangeLen_step1]; omega
      rw [setMany_range vals _ s.toNat hle] at this
      have he' : (if e < s then s else e).toNat = s.toNat + vals.length := by
        rw [← hsz', hrl, rangeLen_step1]; split <;> omega
      rw [he']
      exact this
    · simp only [hst, if_false]
      by_cases hz : ((rangeList s e st).map Int.toNat).length = vals.length
      · have hz' : ¬ ((rangeList s e st).map Int.toNat).length ≠ vals.length := by simp [hz]
        simp only [hz', if_false]
        exact spec_setIdxs w k v conv (.setSlice a b c vals) s e st vals hk hv hconv hvals hap
          (by intro k' hk'; rw [hlen]; exact hvalid k' hk') (by simpa using hz)
      · have hz' : ((rangeList s e st).map Int.toNat).length ≠ vals.length := hz
        rw [if_pos hz']
        apply spec_of_error hk
        rw [hap]
        -- the view's own size check fails in the same way
        have hTU : ((rangeList s e st).filterMap fun k => v.rawIdx[k.toNat]?).length = (rangeList s e st).length := by
          have := filterMap_get_length v.rawIdx ((rangeList s e st).map Int.toNat) (by
            intro j hj
            simp only [List.mem_map] at hj
            obtain ⟨k', hk', rfl⟩ := hj
            have := hvalid k' hk'
            rw [hlen]; omega)
          rw [List.filterMap_map] at this
          simpa using this
        have hne : ((rangeList s e st).filterMap fun k => v.rawIdx[k.toNat]?).length ≠ vals.length := by
          rw [hTU]; simpa using hz
        simp [View.setIdxs, hne, bind, Except.bind, throw, throwThe, MonadExceptOf.throw]



theorem find_rel (R : List Nat) (fl : List Item) (g : Nat → Option Item) (val : Nat)
    (h : R.map g = fl.map some) :
    match fl.findIdx? (fun x => x.val == val) with
    | some j => R.find? (fun ri => (g ri).map (·.val) == some val) = R[j]? ∧ j < R.length
    | none => R.find? (fun ri => (g ri).map (·.val) == some val) = none := by
  induction R generalizing fl with
  | nil =>
    cases fl with
    | nil => simp
    | cons x xs => simp at h
  | cons r R ih =>
    cases fl with
    | nil => simp at h
    | cons x xs =>
      simp only [List.map_cons, List.cons.injEq] at h
      obtain ⟨hg, hrest⟩ := h
      have ih' := ih xs hrest
      simp only [List.findIdx?_cons, List.find?_cons, hg, Option.map_some]
      by_cases hm : (x.val == val) = true
      · have : (some x.val == some val) = true := by simpa using hm
        simp [hm, this]
      · have hm' : (x.val == val) = false := by simpa using hm
        have : (some x.val == some val) = false := by simpa using hm
        simp only [hm', this]
        cases hf : xs.findIdx? (fun x => x.val == val) with
        | none => rw [hf] at ih'; simpa using ih'
        | some j =>
          rw [hf] at ih'
          simp only [Option.map_some, List.getElem?_cons_succ, List.length_cons]
          exact ⟨ih'.1, by omega⟩

/-- `view.remove(value)`: first match -/
theorem spec_remove {β : Type} (w : World) (k : Nat) (v : View) (conv : Item → β) (val : Nat)
    (hk : w.views[k]? = some v) (hv : v.rawIdx = filterIdx v.pred w.items) :
    ViewCallSpec w k v (.remove val) (PyList.remove (filterItems v.pred w.items) fun x => x.val == val) conv := by
  have hrel := find_rel (filterIdx v.pred w.items) (filterItems v.pred w.items) (fun ri => w.items[ri]?) val
    (filterIdx_map_get v.pred w.items)
  unfold PyList.remove
  cases hf : (filterItems v.pred w.items).findIdx? (fun x => x.val == val) with
  | none =>
    rw [hf] at hrel
    simp only at hrel ⊢
    apply spec_of_error hk
    simp only [View.apply, hv, hrel]
  | some j =>
    rw [hf] at hrel
    simp only at hrel ⊢
    obtain ⟨hfind, hj⟩ := hrel
    rw [List.getElem?_eq_getElem hj] at hfind
    have hap : v.apply w.items (.remove val) = .ok [.raw (.pop ((filterIdx v.pred w.items)[j] : Nat))] := by
      simp only [View.apply, hv, hfind, pure, Except.pure]
    apply spec_of_single hk hap
    have hlt := filterIdx_lt v.pred w.items j hj
    have := Raw.pop_nat w.items _ hlt
    simp only [Raw.apply]
    cases hp : Raw.pop w.items (((filterIdx v.pred w.items)[j] : Nat) : Int) with
    | error e => rw [hp] at this; simp [Except.map] at this
    | ok r =>
      rw [hp] at this
      simp only [Except.map, Except.ok.injEq, pure, Except.pure] at this ⊢
      rw [this, filterItems_eraseIdx v.pred w.items j hj]



/-! ### Deleting through a view -/
/-- Deleting raw positions `D`: the view keeps exactly the elements whose raw index is not in `D`. -/
theorem filter_erase_zip (p : Nat → Bool) (D : List Nat) (xs : List Item) (k : Nat) :
    filterItems p (((xs.zipIdx k).filter fun q => !D.contains q.2).map (·.1))
      = (((filterItems p xs).zip (filterIdxFrom p k xs)).filter fun q => !D.contains q.2).map (·.1) := by
  induction xs generalizing k with
  | nil => simp [filterItems, filterIdxFrom]
  | cons x xs ih =>
    have ih' := ih (k + 1)
    simp only [List.zipIdx_cons, filterIdxFrom]
    by_cases hp : p x.ty = true
    · have e1 : filterItems p (x :: xs) = x :: filterItems p xs := by simp [filterItems, hp]
      simp only [hp, if_true, e1, List.zip_cons_cons]
      rw [List.filter_cons, List.filter_cons]
      by_cases hd : (!D.contains k) = true
      · simp only [hd, if_true, List.map_cons]
        have : filterItems p (x :: (List.map (·.1) (List.filter (fun q => !D.contains q.2) (xs.zipIdx (k + 1)))))
            = x :: filterItems p (List.map (·.1) (List.filter (fun q => !D.contains q.2) (xs.zipIdx (k + 1)))) := by
          simp [filterItems, hp]
        rw [this, ih']
      · simp only [hd, if_false]
        exact ih'
    · have e1 : filterItems p (x :: xs) = filterItems p xs := by simp [filterItems, hp]
      have hpf : p x.ty = false := by simpa using hp
      simp only [hpf, Bool.false_eq_true, if_false, e1]
      rw [List.filter_cons]
      by_cases hd : (!D.contains k) = true
      · simp only [hd, if_true, List.map_cons]
        have : filterItems p (x :: (List.map (·.1) (List.filter (fun q => !D.contains q.2) (xs.zipIdx (k + 1)))))
            = filterItems p (List.map (·.1) (List.filter (fun q => !D.contains q.2) (xs.zipIdx (k + 1)))) := by
          simp [filterItems, hpf]
        rw [this, ih']
      · simp only [hd, if_false]
        exact ih'

theorem filterItems_eraseIdxs (p : Nat → Bool) (D : List Nat) (items : List Item) :
    filterItems p (eraseIdxs items D)
      = (((filterItems p items).zip (filterIdx p items)).filter fun q => !D.contains q.2).map (·.1) := by
  have := filter_erase_zip p D items 0
  simpa [eraseIdxs, filterIdx] using this

theorem zip_rel {γ : Type} (R : List Nat) (fl : List γ) (g : Nat → Option γ) (h : R.map g = fl.map some) :
    ∀ q ∈ fl.zip R, g q.2 = some q.1 := by
  induction R generalizing fl with
  | nil => cases fl <;> simp
  | cons r R ih =>
    cases fl with
    | nil => simp
    | cons x xs =>
      simp only [List.map_cons, List.cons.injEq] at h
      intro q hq
      simp only [List.zip_cons_cons, List.mem_cons] at hq
      rcases hq with rfl | hq
      · exact h.1
      · exact ih xs h.2 q hq

theorem zip_filter_fst {γ δ : Type} (fl : List γ) (R : List δ) (f : γ → Bool) (h : fl.length = R.length) :
    ((fl.zip R).filter fun q => f q.1).map (·.1) = fl.filter f := by
  induction fl generalizing R with
  | nil => simp
  | cons x xs ih =>
    cases R with
    | nil => simp at h
    | cons r R =>
      simp only [List.length_cons, Nat.add_right_cancel_iff] at h
      simp only [List.zip_cons_cons, List.filter_cons]
      split <;> simp [ih R h]

/-- `view.clear()` -/
theorem spec_clear {β : Type} (w : World) (k : Nat) (v : View) (conv : Item → β)
    (hk : w.views[k]? = some v) (hv : v.rawIdx = filterIdx v.pred w.items) :
    ViewCallSpec w k v .clear (.ok (PyList.clear (filterItems v.pred w.items))) conv := by
  apply spec_of_single hk (rop := .dropMany v.rawIdx) (by simp [View.apply, pure, Except.pure])
  simp only [Raw.apply, Raw.dropMany, pure, Except.pure, Except.map, Except.ok.injEq, PyList.clear]
  rw [filterItems_eraseIdxs, hv]
  rw [List.filter_eq_nil_iff.mpr (by
    intro q hq
    have := (List.of_mem_zip hq).2
    simp [this])]
  rfl

/-- `view.discard(value)` -/
theorem spec_discard {β : Type} (w : World) (k : Nat) (v : View) (conv : Item → β) (val : Nat)
    (hk : w.views[k]? = some v) (hv : v.rawIdx = filterIdx v.pred w.items) :
    ViewCallSpec w k v (.discard val)
      (.ok (PyList.discard (filterItems v.pred w.items) fun x => x.val == val)) conv := by
  apply spec_of_single hk
    (rop := .dropMany (v.rawIdx.filter fun ri => (w.items[ri]?.map (·.val)) == some val))
    (by simp [View.apply, pure, Except.pure])
  simp only [Raw.apply, Raw.dropMany, pure, Except.pure, Except.map, Except.ok.injEq, PyList.discard]
  rw [filterItems_eraseIdxs, hv]
  have hrel := zip_rel (filterIdx v.pred w.items) (filterItems v.pred w.items) (fun ri => w.items[ri]?)
    (filterIdx_map_get v.pred w.items)
  have hcongr : ∀ q ∈ (filterItems v.pred w.items).zip (filterIdx v.pred w.items),
      (!((filterIdx v.pred w.items).filter fun ri => (w.items[ri]?.map (·.val)) == some val).contains q.2)
        = (fun q : Item × Nat => !(q.1.val == val)) q := by
    intro q hq
    have h1 := hrel q hq
    have h2 := (List.of_mem_zip hq).2
    have hmem : q.2 ∈ ((filterIdx v.pred w.items).filter fun ri => (w.items[ri]?.map (·.val)) == some val)
        ↔ q.1.val = val := by
      rw [List.mem_filter]; simp [h1, h2]
    by_cases hm : q.1.val = val
    · have := hmem.mpr hm
      simp [this, hm]
    · have : ¬ q.2 ∈ ((filterIdx v.pred w.items).filter fun ri => (w.items[ri]?.map (·.val)) == some val) :=
        fun h => hm (hmem.mp h)
      simp [this, hm]
  rw [List.filter_congr hcongr]
  exact zip_filter_fst _ _ (fun x => !(x.val == val)) (filterIdx_length v.pred w.items).symm



theorem filterIdxFrom_pairwise (p : Nat → Bool) (k : Nat) (xs : List Item) :
    (filterIdxFrom p k xs).Pairwise (· < ·) := by
  induction xs generalizing k with
  | nil => simp [filterIdxFrom]
  | cons x xs ih =>
    simp only [filterIdxFrom]
    split
    · rw [List.pairwise_cons]
      refine ⟨?_, ih (k + 1)⟩
      intro a ha
      have := (filterIdxFrom_bounds p (k + 1) xs a ha).1
      omega
    · exact ih (k + 1)

theorem filterIdx_nodup (p : Nat → Bool) (items : List Item) : (filterIdx p items).Nodup := by
  have := filterIdxFrom_pairwise p 0 items
  exact List.Pairwise.imp (fun h => Nat.ne_of_lt h) this

theorem zip_filter_idx {γ : Type} (fl : List γ) (R : List Nat) (k : Nat) (f g : Nat → Bool)
    (hlen : fl.length = R.length) (h : ∀ j (hj : j < R.length), f R[j] = g (k + j)) :
    ((fl.zip R).filter fun q => f q.2).map (·.1) = ((fl.zipIdx k).filter fun q => g q.2).map (·.1) := by
  induction fl generalizing R k with
  | nil => simp
  | cons x xs ih =>
    cases R with
    | nil => simp at hlen
    | cons r R =>
      simp only [List.length_cons, Nat.add_right_cancel_iff] at hlen
      have h0 := h 0 (by simp)
      simp only [List.getElem_cons_zero, Nat.add_zero] at h0
      have ih' := ih R (k + 1) hlen (by
        intro j hj
        have := h (j + 1) (by simp; omega)
        simp only [List.getElem_cons_succ] at this
        rw [this]; congr 1; omega)
      simp only [List.zip_cons_cons, List.zipIdx_cons, List.filter_cons, h0]
      split <;> simp [ih']

/-- Deleting the view positions `S` through the view deletes the positions `S` of the filtered list. -/
theorem filterItems_eraseIdxs_view (p : Nat → Bool) (items : List Item) (S : List Nat) :
    filterItems p (eraseIdxs items (S.filterMap fun j => (filterIdx p items)[j]?))
      = eraseIdxs (filterItems p items) S := by
  rw [filterItems_eraseIdxs]
  unfold eraseIdxs
  refine zip_filter_idx _ _ 0 (fun r => !(S.filterMap fun j => (filterIdx p items)[j]?).contains r)
    (fun j => !S.contains j) (filterIdx_length p items).symm ?_
  intro j hj
  simp only [Nat.zero_add]
  congr 1
  rw [List.contains_eq_mem, List.contains_eq_mem]
  congr 1
  apply propext
  rw [List.mem_filterMap]
  constructor
  · rintro ⟨j', hj'S, hj'⟩
    obtain ⟨hlt, heq⟩ := List.getElem?_eq_some_iff.mp hj'
    have := (List.getElem_inj (filterIdx_nodup p items)).mp heq
    rw [← this]; exact hj'S
  · intro hjS
    exact ⟨j, hjS, List.getElem?_eq_getElem hj⟩

theorem eraseIdxs_range {α} (xs : List α) (s m : Nat) :
    eraseIdxs xs (List.range' s m) = xs.take s ++ xs.drop (s + m) := by
  unfold eraseIdxs
  have hx : xs = xs.take s ++ ((xs.drop s).take m ++ xs.drop (s + m)) := by
    rw [← List.drop_drop, List.take_append_drop, List.take_append_drop]
  generalize hA : xs.take s = A at hx
  generalize hB : (xs.drop s).take m = B at hx
  generalize hC : xs.drop (s + m) = C at hx
  have hAl : A.length ≤ s := by rw [← hA]; simp; omega
  have hBl : B.length ≤ m := by rw [← hB]; simp; omega
  have hB0 : B ≠ [] → A.length = s := by
    intro hne
    rw [← hA]; simp
    by_cases h : s ≤ xs.length
    · omega
    · exfalso; apply hne; rw [← hB]; simp; omega
  have hC0 : C ≠ [] → A.length = s ∧ B.length = m := by
    intro hne
    have : s + m < xs.length := by
      rcases Nat.lt_or_ge (s + m) xs.length with h | h
      · exact h
      · exfalso; apply hne; rw [← hC]; simp; omega
    constructor
    · rw [← hA]; simp; omega
    · rw [← hB]; simp; omega
  rw [hx, List.zipIdx_append, List.zipIdx_append, List.filter_append, List.filter_append, List.map_append,
    List.map_append]
  have h1 : (A.zipIdx 0).filter (fun q => !(List.range' s m).contains q.2) = A.zipIdx 0 := by
    apply List.filter_eq_self.mpr
    intro q hq
    have := List.mem_zipIdx hq
    simp only [List.contains_eq_mem, List.mem_range'_1, Bool.not_eq_eq_eq_not, Bool.not_true, decide_eq_false_iff_not]
    omega
  have h2 : (B.zipIdx (0 + A.length)).filter (fun q => !(List.range' s m).contains q.2) = [] := by
    apply List.filter_eq_nil_iff.mpr
    intro q hq
    have hne : B ≠ [] := by intro h; rw [h] at hq; simp at hq
    have := hB0 hne
    have := List.mem_zipIdx hq
    simp only [List.contains_eq_mem, List.mem_range'_1, Bool.not_eq_eq_eq_not, Bool.not_true, decide_eq_false_iff_not,
      Decidable.not_not]
    omega
  have h3 : (C.zipIdx (0 + A.length + B.length)).filter (fun q => !(List.range' s m).contains q.2)
      = C.zipIdx (0 + A.length + B.length) := by
    apply List.filter_eq_self.mpr
    intro q hq
    have hne : C ≠ [] := by intro h; rw [h] at hq; simp at hq
    have := hC0 hne
    have := List.mem_zipIdx hq
    simp only [List.contains_eq_mem, List.mem_range'_1, Bool.not_eq_eq_eq_not, Bool.not_true, decide_eq_false_iff_not]
    omega
  rw [h1, h2, h3]
  simp



/-- `del view[a:b:c]` -/
theorem spec_delSlice {β : Type} (w : World) (k : Nat) (v : View) (conv : Item → β) (a b c : Option Int)
    (hk : w.views[k]? = some v) (hv : v.rawIdx = filterIdx v.pred w.items) :
    ViewCallSpec w k v (.delSlice a b c) (PyList.delSlice (filterItems v.pred w.items) a b c) conv := by
  have hlen : v.rawIdx.length = (filterItems v.pred w.items).length := by rw [hv, filterIdx_length]
  cases hs : sliceIndices (filterItems v.pred w.items).length a b c with
  | error e =>
    have hap : v.apply w.items (.delSlice a b c) = .error e := by
      simp [View.apply, hlen, hs, bind, Except.bind]
    have href : PyList.delSlice (filterItems v.pred w.items) a b c = .error e := by
      simp [PyList.delSlice, hs, bind, Except.bind]
    rw [href]; exact spec_of_error hk hap
  | ok r =>
    obtain ⟨s, e, st⟩ := r
    have hap : v.apply w.items (.delSlice a b c)
        = .ok [.raw (.dropMany (((rangeList s e st).map Int.toNat).filterMap fun j => (filterIdx v.pred w.items)[j]?))] := by
      have hs' : sliceIndices v.rawIdx.length a b c = .ok (s, e, st) := by rw [hlen]; exact hs
      simp only [View.apply, hs', bind, Except.bind, pure, Except.pure, List.filterMap_map]
      rw [hv]
      rfl
    apply spec_of_single hk hap
    simp only [Raw.apply, Raw.dropMany, pure, Except.pure, Except.map]
    rw [filterItems_eraseIdxs_view, PyList.delSlice_of_indices _ hs]
    by_cases hst : st = 1
    · subst hst
      obtain ⟨hs0, hs1, he0, he1⟩ := (sliceIndices_ok hs).2.2 (by omega)
      simp only [if_true]
      rw [rangeList_step1 s e hs0, eraseIdxs_range, rangeLen_step1]
      have : (if e < s then s else e).toNat = s.toNat + (e - s).toNat := by split <;> omega
      rw [this]
    · simp only [hst, if_false]


/-- A step-1 slice assignment through a view with another number of values is refused (documented restriction),
like an extended slice of another size; nothing changes. -/
theorem setSlice_size_refused (w : World) (k : Nat) (v : View) (a b c : Option Int) (vals : List Item)
    (s e st : Int) (hk : w.views[k]? = some v) (hv : v.rawIdx = filterIdx v.pred w.items)
    (hs : sliceIndices (filterItems v.pred w.items).length a b c = .ok (s, e, st))
    (hne : (rangeList s e st).length ≠ vals.length) :
    w.step (.view k (.setSlice a b c vals)) = (w, some "ValueError:size") := by
  have hlen : v.rawIdx.length = (filterItems v.pred w.items).length := by rw [hv, filterIdx_length]
  have hvalid := sliceIndices_range_valid hs
  have hTU : ((rangeList s e st).filterMap fun k => v.rawIdx[k.toNat]?).length = (rangeList s e st).length := by
    have := filterMap_get_length v.rawIdx ((rangeList s e st).map Int.toNat) (by
      intro j hj
      simp only [List.mem_map] at hj
      obtain ⟨k', hk', rfl⟩ := hj
      have := hvalid k' hk'
      rw [hlen]; omega)
    rw [List.filterMap_map] at this
    simpa using this
  have hne' : ((rangeList s e st).filterMap fun k => v.rawIdx[k.toNat]?).length ≠ vals.length := by
    rw [hTU]; exact hne
  have hap : v.apply w.items (.setSlice a b c vals) = .error "ValueError:size" := by
    simp [View.apply, hlen, hs, View.setIdxs, hne', bind, Except.bind, throw, throwThe, MonadExceptOf.throw]
  rw [step_view_eq w k v _ hk, hap]

/-- On a consistent view the key lookup of the mapping views is "first match in list order". -/
theorem findKey_eq (v : View) (items : List Item) (hv : v.rawIdx = filterIdx v.pred items) (key : Nat) :
    v.findKey items key = (filterItems v.pred items).findIdx? (fun x => x.val == key)
    ∧ v.getKey items key = (match (filterItems v.pred items).find? (fun x => x.val == key) with
        | some x => .ok x
        | none => .error "KeyError")
    ∧ v.containsKey items key = (filterItems v.pred items).any (fun x => x.val == key) := by
  have hiter : v.iter items = filterItems v.pred items := by
    unfold View.iter; rw [hv, filterIdx_filterMap_get]
  simp only [View.findKey, View.getKey, View.containsKey, hiter]
  refine ⟨trivial, ?_, trivial⟩
  cases (filterItems v.pred items).find? (fun x => x.val == key) <;> rfl

end Autobean.Views
