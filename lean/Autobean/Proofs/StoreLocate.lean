/-
Locating a token by identity: `findTok`, `handlePos`, `handleBlock`, and the relation between block
positions `(p, j)` and flat indexes.
-/
import Autobean.Proofs.StoreSplice

set_option linter.unusedSimpArgs false
set_option linter.unusedVariables false

namespace Autobean

/-! ### Generic list facts -/

theorem take_drop_of_split {α} {l X Y Z : List α} (h : l = X ++ Y ++ Z) :
    l.take X.length = X ∧ l.drop (X.length + Y.length) = Z ∧ (l.drop X.length).take Y.length = Y := by
  subst h
  refine ⟨?_, ?_, ?_⟩
  · rw [List.append_assoc, List.take_left' rfl]
  · have : X.length + Y.length = (X ++ Y).length := by simp
    rw [this, List.drop_left' rfl]
  · rw [List.append_assoc, List.drop_left' rfl, List.take_left' rfl]

theorem idxOf_of_split {l X Z : List Nat} {a : Nat} (h : l = X ++ a :: Z) (ha : a ∉ X) : l.idxOf a = X.length := by
  subst h
  rw [List.idxOf_append, if_neg ha]; simp

theorem sum_lengths (L : List Block) : (L.map (·.toks.length)).sum = (L.flatMap (·.toks)).length := by
  rw [List.length_flatMap]

theorem find?_mid {p : Block → Bool} {L R : List Block} {b : Block} (hL : ∀ x ∈ L, p x = false) (hb : p b = true) :
    (L ++ b :: R).find? p = some b := by
  induction L with
  | nil => simp [hb]
  | cons x L ih =>
    simp only [List.mem_cons, forall_eq_or_imp] at hL
    simp [List.find?_cons, hL.1, ih hL.2]

theorem findIdx?_mid {p : Block → Bool} {L R : List Block} {b : Block} (hL : ∀ x ∈ L, p x = false) (hb : p b = true) :
    (L ++ b :: R).findIdx? p = some L.length := by
  induction L with
  | nil => simp [List.findIdx?_cons, hb]
  | cons x L ih =>
    simp only [List.mem_cons, forall_eq_or_imp] at hL
    simp [List.findIdx?_cons, hL.1, ih hL.2]

/-! ### Flat indexes -/

theorem flatIdx_mid (L R : List Block) (b : Block) (k : Nat) :
    flatIdx (L ++ b :: R) L.length k = (L.flatMap (·.toks)).length + k := by
  simp only [flatIdx, List.take_left' rfl, sum_lengths]; omega

theorem flatIdx_two (L M R : List Block) (sb eb : Block) (k : Nat) :
    flatIdx (L ++ sb :: (M ++ eb :: R)) (L.length + 1 + M.length) k =
      (L.flatMap (·.toks)).length + sb.toks.length + (M.flatMap (·.toks)).length + k := by
  have e : L ++ sb :: (M ++ eb :: R) = (L ++ sb :: M) ++ eb :: R := by simp
  have l : L.length + 1 + M.length = (L ++ sb :: M).length := by simp; omega
  rw [e, l, flatIdx_mid]
  simp; omega

theorem decomp_one {bs : List Block} {p : Nat} (hp : p < bs.length) :
    bs = bs.take p ++ bs[p] :: bs.drop (p + 1) ∧ (bs.take p).length = p := by
  constructor
  · simp
  · simp; omega

theorem decomp_two {bs : List Block} {si ei : Nat} (h : si < ei) (hei : ei < bs.length) :
    ∃ L M R, bs = L ++ bs[si] :: (M ++ bs[ei] :: R) ∧ L.length = si ∧ L.length + 1 + M.length = ei := by
  obtain ⟨h1, l1⟩ := decomp_one (bs := bs) (p := si) (by omega)
  have hlen : ei - si - 1 < (bs.drop (si + 1)).length := by simp; omega
  obtain ⟨h2, l2⟩ := decomp_one hlen
  refine ⟨bs.take si, (bs.drop (si + 1)).take (ei - si - 1), (bs.drop (si + 1)).drop (ei - si - 1 + 1), ?_, l1, ?_⟩
  · have e : (bs.drop (si + 1))[ei - si - 1] = bs[ei] := by
      simp only [List.getElem_drop]; congr 1; omega
    rw [← e, ← h2]; exact h1
  · rw [l1, l2]; omega

/-! ### `spliceCore` in index form -/

/-- The heart of C07 in the form the later proofs use (`Inv`, equalities up to handles). -/
theorem spliceCore_inv {c : LF} (hc : c.WF) {s : Store} (hinv : Inv s) {si sj ei ej : Nat}
    (hsi : si < s.blocks.length) (hei : ei < s.blocks.length)
    (hsj : sj ≤ (s.blocks[si]).toks.length) (hej : ej ≤ (s.blocks[ei]).toks.length)
    (hle : si < ei ∨ (si = ei ∧ sj ≤ ej)) {ts : List Tok} (hf : Fresh s ts) :
    ∃ out, spliceCore c s ts (si, sj) (ei, ej) = .ok out ∧ Inv out.store ∧ out.store.sid = s.sid ∧
      out.store.toList.map Tok.strip =
        (s.toList.take (flatIdx s.blocks si sj) ++ ts ++ s.toList.drop (flatIdx s.blocks ei ej)).map Tok.strip ∧
      out.removed = ((s.toList.drop (flatIdx s.blocks si sj)).take
        (flatIdx s.blocks ei ej - flatIdx s.blocks si sj)).map Tok.strip ∧
      flatIdx s.blocks si sj ≤ flatIdx s.blocks ei ej ∧ flatIdx s.blocks ei ej ≤ s.toList.length := by
  rcases hle with hlt | ⟨rfl, hse⟩
  · obtain ⟨L, M, R, hs, hl1, hl2⟩ := decomp_two hlt hei
    generalize s.blocks[si] = sb at *
    generalize s.blocks[ei] = eb at *
    subst hl1; subst hl2
    obtain ⟨out, h1, h2, h3, h4, h5⟩ := spliceCore_multi hc hinv hs (sj := sj) hej hf
    have htl : s.toList = (L.flatMap (·.toks) ++ sb.toks.take sj) ++
        (sb.toks.drop sj ++ M.flatMap (·.toks) ++ eb.toks.take ej) ++
        (eb.toks.drop ej ++ R.flatMap (·.toks)) := by
      simp only [Store.toList, hs, List.flatMap_append, List.flatMap_cons]
      conv => lhs; rw [← List.take_append_drop sj sb.toks, ← List.take_append_drop ej eb.toks]
      simp only [List.append_assoc]
    have hi : flatIdx s.blocks L.length sj = (L.flatMap (·.toks) ++ sb.toks.take sj).length := by
      rw [hs, flatIdx_mid]; simp; omega
    have hj : flatIdx s.blocks (L.length + 1 + M.length) ej = (L.flatMap (·.toks) ++ sb.toks.take sj).length +
        (sb.toks.drop sj ++ M.flatMap (·.toks) ++ eb.toks.take ej).length := by
      rw [hs, flatIdx_two]; simp; omega
    obtain ⟨t1, t2, t3⟩ := take_drop_of_split htl
    refine ⟨out, h1, h2, h3, ?_, ?_, ?_, ?_⟩
    · rw [h4, hi, hj, t1, t2]
    · rw [h5, hi, hj, Nat.add_sub_cancel_left, t3]
    · rw [hi, hj]; omega
    · rw [hj, htl]; simp only [List.length_append]; omega
  · obtain ⟨hs, hl1⟩ := decomp_one hsi
    generalize s.blocks[si] = b at *
    generalize s.blocks.take si = L at *
    generalize s.blocks.drop (si + 1) = R at *
    subst hl1
    obtain ⟨out, h1, h2, h3, h4, h5⟩ := spliceCore_same hc hinv hs hse hej hf
    have htl : s.toList = (L.flatMap (·.toks) ++ b.toks.take sj) ++ (b.toks.drop sj).take (ej - sj) ++
        (b.toks.drop ej ++ R.flatMap (·.toks)) := by
      simp only [Store.toList, hs, List.flatMap_append, List.flatMap_cons]
      conv => lhs; rw [split3 b.toks hse hej]
      simp only [List.append_assoc]
    have hi : flatIdx s.blocks L.length sj = (L.flatMap (·.toks) ++ b.toks.take sj).length := by
      rw [hs, flatIdx_mid]; simp; omega
    have hj : flatIdx s.blocks L.length ej = (L.flatMap (·.toks) ++ b.toks.take sj).length +
        ((b.toks.drop sj).take (ej - sj)).length := by
      rw [hs, flatIdx_mid]; simp; omega
    obtain ⟨t1, t2, t3⟩ := take_drop_of_split htl
    refine ⟨out, h1, h2, h3, ?_, ?_, ?_, ?_⟩
    · rw [h4, hi, hj, t1, t2]
    · rw [h5, hi, hj, Nat.add_sub_cancel_left, t3]
    · rw [hi, hj]; omega
    · rw [hj, htl]; simp only [List.length_append]; omega

end Autobean
