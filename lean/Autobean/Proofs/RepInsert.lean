/-
Closed forms of the `_insert_tokens` loop (`insLoop`) in its three modes, and the frame lemma of
`insertTokens` in cut form.
-/
import Autobean.Proofs.RepLayout

namespace Autobean.Rep
open Autobean.Seq

/-- New segments in "separators first" mode: `(copy of seps, vᵢ)`. -/
def leftSegs (seps : List Tk) : Nat → List (List Tk) → List Seg
  | _, [] => []
  | c, v :: vs => (copySeps seps c, v) :: leftSegs seps (c + seps.length) vs

/-- New tokens in "value first" mode: `v₀ ++ seps ++ v₁ ++ seps ++ …`. -/
def rightToks (seps : List Tk) : Nat → List (List Tk) → List Tk
  | _, [] => []
  | c, v :: vs => v ++ copySeps seps c ++ rightToks seps (c + seps.length) vs

/-- Segments in "value first" mode: the first value inherits the gap `g`, every later value and finally the
old first item `it` get a fresh copy of the separators. -/
def rightSegs (seps : List Tk) : Nat → List Tk → List (List Tk) → List Tk → List Seg
  | _, g, [], it => [(g, it)]
  | c, g, v :: vs, it => (g, v) :: rightSegs seps (c + seps.length) (copySeps seps c) vs it

theorem body_rightSegs (seps : List Tk) (c : Nat) (g : List Tk) (vs : List (List Tk)) (it : List Tk) :
    body (rightSegs seps c g vs it) = g ++ rightToks seps c vs ++ it := by
  induction vs generalizing c g with
  | nil => simp [rightSegs, rightToks]
  | cons v vs ih => simp [rightSegs, rightToks, ih]

theorem leftSegs_items (seps : List Tk) (c : Nat) (vs : List (List Tk)) : itemsOf (leftSegs seps c vs) = vs := by
  induction vs generalizing c with
  | nil => rfl
  | cons v vs ih => simp [leftSegs, itemsOf] at ih ⊢; exact ih _

theorem leftSegs_gaps (seps : List Tk) (c : Nat) (vs : List (List Tk)) :
    ∀ sg ∈ leftSegs seps c vs, IsCopy seps sg.1 := by
  induction vs generalizing c with
  | nil => simp [leftSegs]
  | cons v vs ih =>
    intro sg hsg
    simp only [leftSegs] at hsg
    rcases List.mem_cons.mp hsg with rfl | hsg
    · exact copySeps_isCopy _ _
    · exact ih _ sg hsg

theorem leftSegs_spans (seps : List Tk) (c : Nat) (vs : List (List Tk)) :
    spans (leftSegs seps c vs) = vs.map spanOf := by
  induction vs generalizing c with
  | nil => rfl
  | cons v vs ih => simp [leftSegs, spans] at ih ⊢; exact ih _

theorem leftSegs_nonempty (seps : List Tk) (c : Nat) (vs : List (List Tk)) (h : ∀ v ∈ vs, v ≠ []) :
    ItemsNonempty (leftSegs seps c vs) := by
  induction vs generalizing c with
  | nil => simp [leftSegs, ItemsNonempty]
  | cons v vs ih =>
    simp only [leftSegs]
    exact ItemsNonempty.cons.mpr ⟨h v (by simp), ih _ (fun w hw => h w (by simp [hw]))⟩

theorem rightSegs_items (seps : List Tk) (c : Nat) (g : List Tk) (vs : List (List Tk)) (it : List Tk) :
    itemsOf (rightSegs seps c g vs it) = vs ++ [it] := by
  induction vs generalizing c g with
  | nil => rfl
  | cons v vs ih => simp [rightSegs, itemsOf] at ih ⊢; exact ih _ _

/-- Gaps of value-first mode: the old gap `g`, then one fresh separator copy per value. -/
theorem rightSegs_gaps (seps : List Tk) (c : Nat) (g : List Tk) (vs : List (List Tk)) (it : List Tk) :
    ∃ ss, gapsOf (rightSegs seps c g vs it) = g :: ss ∧ ss.length = vs.length ∧ ∀ s ∈ ss, IsCopy seps s := by
  induction vs generalizing c g with
  | nil => exact ⟨[], rfl, rfl, by simp⟩
  | cons v vs ih =>
    obtain ⟨ss, h1, h2, h3⟩ := ih (c + seps.length) (copySeps seps c)
    refine ⟨copySeps seps c :: ss, ?_, by simp [h2], ?_⟩
    · simp [rightSegs, gapsOf] at h1 ⊢; exact h1
    · intro s hs
      rcases List.mem_cons.mp hs with rfl | hs
      · exact copySeps_isCopy _ _
      · exact h3 s hs

theorem rightSegs_spans (seps : List Tk) (c : Nat) (g : List Tk) (vs : List (List Tk)) (it : List Tk) :
    spans (rightSegs seps c g vs it) = vs.map spanOf ++ [spanOf it] := by
  induction vs generalizing c g with
  | nil => rfl
  | cons v vs ih => simp [rightSegs, spans] at ih ⊢; exact ih _ _

theorem rightSegs_nonempty (seps : List Tk) (c : Nat) (g : List Tk) (vs : List (List Tk)) (it : List Tk)
    (h : ∀ v ∈ vs, v ≠ []) (hit : it ≠ []) : ItemsNonempty (rightSegs seps c g vs it) := by
  induction vs generalizing c g with
  | nil => simp [rightSegs, ItemsNonempty, hit]
  | cons v vs ih =>
    simp only [rightSegs]
    exact ItemsNonempty.cons.mpr ⟨h v (by simp), ih _ _ (fun w hw => h w (by simp [hw]))⟩

/-! ### the loop -/

/-- Separators-first mode: `index ≠ 0`, or a later value of a batch going into an empty list. -/
theorem insLoop_left (c : Cfg) (store : List Tk) (items : List Span) (index length i : Nat) (st : InsSt)
    (vs : List (List Tk)) (h : index ≠ 0 ∨ (i ≠ 0 ∧ length = 0)) :
    insLoop c store items index length i st vs =
      .ok { st with tokens := st.tokens ++ body (leftSegs c.seps st.ctr vs),
                    ctr := st.ctr + vs.length * c.seps.length } := by
  induction vs generalizing i st with
  | nil => simp [insLoop, leftSegs]
  | cons v vs ih =>
    have h' : index ≠ 0 ∨ (i + 1 ≠ 0 ∧ length = 0) := by
      rcases h with h | h
      · exact Or.inl h
      · exact Or.inr ⟨by omega, h.2⟩
    simp only [insLoop, insStep, h, ↓reduceIte]
    rw [ih (i + 1) _ h']
    simp [leftSegs, Nat.add_mul, Nat.add_assoc, Nat.add_comm]

/-- `separators_before_last` as `_insert_tokens` resolves it on first use. -/
def resolveSbl (store : List Tk) (items : List Span) : Option Nat → R Nat
  | some x => .ok x
  | none =>
    match items[0]? with
    | none => .error "IndexError"
    | some it =>
      match prev it.first store with
      | .error e => .error e
      | .ok none => .error "AssertionError"
      | .ok (some p) => .ok p

theorem insStep_right_eq (c : Cfg) (store : List Tk) (items : List Span) (length i : Nat) (st : InsSt)
    (v : List Tk) (hl : length ≠ 0) :
    insStep c store items 0 length i st v =
      match resolveSbl store items st.sbl with
      | .error e => .error e
      | .ok x => .ok { tokens := st.tokens ++ (v ++ copySeps c.seps st.ctr), ref := x, sbl := some x,
                       ctr := st.ctr + c.seps.length } := by
  unfold insStep resolveSbl
  have h1 : ¬ ((0 : Nat) ≠ 0 ∨ (i ≠ 0 ∧ length = 0)) := by
    intro h; rcases h with h | h
    · exact h rfl
    · exact hl h.2
  rw [if_neg h1, if_pos hl]
  cases st.sbl with
  | some y => rfl
  | none =>
    cases items[0]? with
    | none => rfl
    | some it =>
      simp only
      cases prev it.first store with
      | error e => rfl
      | ok o => cases o <;> rfl

theorem insStep_right (c : Cfg) (store : List Tk) (items : List Span) (length i : Nat) (st : InsSt) (v : List Tk)
    (hl : length ≠ 0) {x : Nat} (hx : resolveSbl store items st.sbl = .ok x) :
    insStep c store items 0 length i st v =
      .ok { tokens := st.tokens ++ (v ++ copySeps c.seps st.ctr), ref := x, sbl := some x,
            ctr := st.ctr + c.seps.length } := by
  rw [insStep_right_eq c store items length i st v hl, hx]

/-- Value-first mode once `ref` and `separators_before_last` are settled. -/
theorem insLoop_right_aux (c : Cfg) (store : List Tk) (items : List Span) (length i : Nat) (st : InsSt)
    (vs : List (List Tk)) (hl : length ≠ 0) {x : Nat} (hs : st.sbl = some x) (hr : st.ref = x) :
    insLoop c store items 0 length i st vs =
      .ok { st with tokens := st.tokens ++ rightToks c.seps st.ctr vs,
                    ctr := st.ctr + vs.length * c.seps.length } := by
  induction vs generalizing i st with
  | nil => simp [insLoop, rightToks]
  | cons v vs ih =>
    have hx : resolveSbl store items st.sbl = .ok x := by rw [hs]; rfl
    simp only [insLoop, insStep_right c store items length i st v hl hx]
    rw [ih (i + 1) _ rfl rfl]
    cases st
    simp at hs hr
    simp [rightToks, hs, hr, Nat.add_mul, Nat.add_assoc, Nat.add_comm]

/-- Value-first mode (`index = 0`, non-empty list), at least one value. -/
theorem insLoop_right (c : Cfg) (store : List Tk) (items : List Span) (length i : Nat) (st : InsSt)
    (v : List Tk) (vs : List (List Tk)) (hl : length ≠ 0) {x : Nat}
    (hx : resolveSbl store items st.sbl = .ok x) :
    insLoop c store items 0 length i st (v :: vs) =
      .ok { tokens := st.tokens ++ rightToks c.seps st.ctr (v :: vs), ref := x, sbl := some x,
            ctr := st.ctr + (vs.length + 1) * c.seps.length } := by
  simp only [insLoop, insStep_right c store items length i st v hl hx]
  rw [insLoop_right_aux c store items length (i + 1) _ vs hl rfl rfl]
  simp [rightToks, Nat.add_mul, Nat.add_assoc, Nat.add_comm]

/-- Segments when a batch goes into an EMPTY list: `separators_before` before the first value, `separators`
before every later one. -/
def beforeSegs (c : Cfg) (ctr : Nat) : List (List Tk) → List Seg
  | [] => []
  | v :: vs => (copySeps c.sepsBefore ctr, v) :: leftSegs c.seps (ctr + c.sepsBefore.length) vs

/-- The counter after a batch went into an empty list. -/
def beforeCtr (c : Cfg) (ctr : Nat) : List (List Tk) → Nat
  | [] => ctr
  | _ :: vs => ctr + c.sepsBefore.length + vs.length * c.seps.length

/-- Empty-list mode (`index = 0`, `length = 0`). -/
theorem insLoop_before (c : Cfg) (store : List Tk) (items : List Span) (st : InsSt) (vs : List (List Tk)) :
    insLoop c store items 0 0 0 st vs =
      .ok { st with tokens := st.tokens ++ body (beforeSegs c st.ctr vs), ctr := beforeCtr c st.ctr vs } := by
  cases vs with
  | nil => simp [insLoop, beforeSegs, beforeCtr]
  | cons v vs =>
    simp only [insLoop, insStep, beforeCtr]
    simp only [ne_eq, not_true_eq_false, and_true, or_self, ↓reduceIte]
    rw [insLoop_left c store items 0 0 1 _ vs (Or.inr ⟨by omega, rfl⟩)]
    simp [beforeSegs]

end Autobean.Rep

namespace Autobean.Rep
open Autobean.Seq

/-! ### `insertTokens` in cut form: the store is `P ++ Q`, cut right after the reference token -/

/-- Separators-first mode (`index ≠ 0`): `seps ++ v` for every value, right after `_prev_last(index)`. -/
theorem insertTokens_left {c : Cfg} {P Q : List Tk} {items : List Span} {t : Tk} (ctr index : Nat)
    (vs : List (List Tk)) (length sbl : Option Nat)
    (hidx : index ≠ 0) (hpl : prevLast c items index = .ok t.id) (hP : P.getLast? = some t)
    (hd : Distinct (P ++ Q)) :
    insertTokens c (P ++ Q) items ctr index vs length sbl =
      .ok (P ++ body (leftSegs c.seps ctr vs) ++ Q, ctr + vs.length * c.seps.length) := by
  unfold insertTokens
  rw [hpl]
  simp only
  rw [insLoop_left c (P ++ Q) items index _ 0 _ vs (Or.inl hidx)]
  simp only [List.nil_append]
  rw [insertAfter_cut _ hP hd]

/-- Empty-list mode (`index = 0`, `length = 0`): `separators_before ++ v₀`, then `seps ++ vᵢ`, right after
the placeholder. -/
theorem insertTokens_before {c : Cfg} {P Q : List Tk} {items : List Span} {ph : Tk} (ctr : Nat)
    (vs : List (List Tk)) (length sbl : Option Nat)
    (hlen : length.getD items.length = 0) (hph : ph.id = c.ph) (hP : P.getLast? = some ph)
    (hd : Distinct (P ++ Q)) :
    insertTokens c (P ++ Q) items ctr 0 vs length sbl =
      .ok (P ++ body (beforeSegs c ctr vs) ++ Q, beforeCtr c ctr vs) := by
  have h := insLoop_before c (P ++ Q) items ⟨[], c.ph, sbl, ctr⟩ vs
  unfold insertTokens
  simp only [prevLast, Nat.lt_irrefl, ↓reduceIte, hlen]
  rw [h]
  simp only [List.nil_append]
  rw [← hph, insertAfter_cut _ hP hd]

/-- Value-first mode (`index = 0`, non-empty list, at least one value): `v ++ seps` for every value, right
after `separators_before_last`. -/
theorem insertTokens_right {c : Cfg} {P Q : List Tk} {items : List Span} {x : Tk} (ctr : Nat)
    (v : List Tk) (vs : List (List Tk)) (length sbl : Option Nat)
    (hlen : length.getD items.length ≠ 0) (hx : resolveSbl (P ++ Q) items sbl = .ok x.id)
    (hP : P.getLast? = some x) (hd : Distinct (P ++ Q)) :
    insertTokens c (P ++ Q) items ctr 0 (v :: vs) length sbl =
      .ok (P ++ rightToks c.seps ctr (v :: vs) ++ Q, ctr + (vs.length + 1) * c.seps.length) := by
  unfold insertTokens
  simp only [prevLast, Nat.lt_irrefl, ↓reduceIte]
  rw [insLoop_right c (P ++ Q) items _ 0 ⟨[], c.ph, sbl, ctr⟩ v vs hlen hx]
  simp only [List.nil_append]
  rw [insertAfter_cut _ hP hd]

/-- No values: nothing happens (`insert_after(ref, [])`). -/
theorem insertTokens_nil {c : Cfg} {P Q : List Tk} {items : List Span} {t : Tk} (ctr index : Nat)
    (length sbl : Option Nat)
    (hpl : prevLast c items index = .ok t.id) (hP : P.getLast? = some t) (hd : Distinct (P ++ Q)) :
    insertTokens c (P ++ Q) items ctr index [] length sbl = .ok (P ++ Q, ctr) := by
  unfold insertTokens
  rw [hpl]
  simp only [insLoop]
  rw [insertAfter_cut _ hP hd]
  simp

end Autobean.Rep
