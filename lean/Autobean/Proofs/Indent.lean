import Autobean.Model.Indent
/-! Helper lemmas for C18 (core Lean only). -/
set_option linter.unusedSimpArgs false
namespace Autobean.Indent

theorem splitLines_ne_nil (s : Str) : splitLines s ≠ [] := by
  induction s with
  | nil => simp [splitLines]
  | cons c cs ih =>
    by_cases hc : c = '\n'
    · simp [splitLines, hc]
    · simp only [splitLines, hc, if_false]
      cases h : splitLines cs with
      | nil => simp
      | cons l ls => simp

/-- Shape of `_splitlines`' result: every line but the last is `body ++ "\n"` with no other `\n`; the last has none. -/
inductive LinesOk : List Str → Prop
  | last (l : Str) : '\n' ∉ l → LinesOk [l]
  | cons (body : Str) (rest : List Str) : '\n' ∉ body → LinesOk rest → LinesOk ((body ++ ['\n']) :: rest)

theorem linesOk_splitLines (s : Str) : LinesOk (splitLines s) := by
  induction s with
  | nil => exact .last [] (by simp)
  | cons c cs ih =>
    by_cases hc : c = '\n'
    · simp only [splitLines, hc, if_true]
      exact .cons [] _ (by simp) ih
    · simp only [splitLines, hc, if_false]
      generalize splitLines cs = L at ih
      cases ih with
      | last l hl => exact .last (c :: l) (by simp [hl, Ne.symm hc])
      | cons body rest hb hr =>
        exact .cons (c :: body) rest (by simp [hb, Ne.symm hc]) hr

theorem splitLines_no_nl {l : Str} (h : '\n' ∉ l) : splitLines l = [l] := by
  induction l with
  | nil => rfl
  | cons c cs ih =>
    have hc : ¬ c = '\n' := by intro hc; exact h (by simp [hc])
    have hcs : '\n' ∉ cs := by intro hcs; exact h (by simp [hcs])
    simp [splitLines, hc, ih hcs]

theorem splitLines_body {body : Str} (x : Str) (h : '\n' ∉ body) :
    splitLines (body ++ '\n' :: x) = (body ++ ['\n']) :: splitLines x := by
  induction body with
  | nil => simp [splitLines]
  | cons c cs ih =>
    have hc : ¬ c = '\n' := by intro hc; exact h (by simp [hc])
    have hcs : '\n' ∉ cs := by intro hcs; exact h (by simp [hcs])
    simp [splitLines, hc, ih hcs]

theorem splitLines_flatten {L : List Str} (h : LinesOk L) : splitLines L.flatten = L := by
  induction h with
  | last l hl => simpa using splitLines_no_nl hl
  | cons body rest hb _ ih =>
    simp only [List.flatten_cons, List.append_assoc, List.singleton_append]
    rw [splitLines_body _ hb, ih]

theorem hasContent_snoc_nl (body : Str) : hasContent (body ++ ['\n']) = hasContent body := by
  simp [hasContent]

theorem commentLine_snoc_nl (indent body : Str) :
    commentLine indent (body ++ ['\n']) = (commentLine indent body) ++ ['\n'] := by
  simp only [commentLine, hasContent_snoc_nl]
  split <;> simp

theorem commentLine_no_nl {indent l : Str} (hi : '\n' ∉ indent) (hl : '\n' ∉ l) : '\n' ∉ commentLine indent l := by
  simp only [commentLine]
  split <;> simp [hi, hl]

theorem linesOk_map_commentLine {indent : Str} (hi : '\n' ∉ indent) {L : List Str} (h : LinesOk L) :
    LinesOk (L.map (commentLine indent)) := by
  induction h with
  | last l hl => exact .last _ (commentLine_no_nl hi hl)
  | cons body rest hb _ ih =>
    simp only [List.map_cons, commentLine_snoc_nl]
    exact .cons _ _ (commentLine_no_nl hi hb) ih

theorem commentLine_prefix (indent l : Str) : (indent ++ [';']) <+: commentLine indent l := by
  simp only [commentLine]
  split
  · exact ⟨' ' :: l, by simp⟩
  · exact ⟨l, by simp⟩

theorem takeWhile_ne_semicolon {indent : Str} (x : Str) (h : ';' ∉ indent) :
    (indent ++ ';' :: x).takeWhile (· ≠ ';') = indent := by
  induction indent with
  | nil => simp
  | cons c cs ih =>
    have hc : c ≠ ';' := by intro hc; exact h (by simp [hc])
    have hcs : ';' ∉ cs := by intro hcs; exact h (by simp [hcs])
    have := ih hcs
    simp only [ne_eq, decide_not] at this
    simp [List.takeWhile_cons, hc, this]

end Autobean.Indent
