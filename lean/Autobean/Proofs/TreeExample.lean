/-
A concrete non-trivial document for the non-vacuity examples of C11 and C20:

    ; c⏎2000-01-01 open A USD⏎  ; m⏎

parsed as a `File` with comments attributed: `; c` is the leading comment of the `open` directive, `  ; m` is an
item of its `meta` field.  Kinds: 0 PLACEHOLDER, 1 BLOCK_COMMENT, 2 _NL, 3 DATE, 4 WHITESPACE, 5 OPEN,
6 ACCOUNT, 7 CURRENCY, 8 EOL.  Classes: 1 File, 2 Open.  Store tag 7.
-/
import Autobean.Model.Tree

namespace Autobean.Example

def exStore : List TTk := [
  ⟨0, 0, [], false⟩, ⟨1, 1, [';', ' ', 'c'], true⟩, ⟨2, 2, ['\n'], false⟩, ⟨3, 3, ['2', '0', '0', '0'], false⟩,
  ⟨4, 4, [' '], false⟩, ⟨5, 5, ['o', 'p', 'e', 'n'], false⟩, ⟨6, 4, [' '], false⟩, ⟨7, 6, ['A'], false⟩,
  ⟨8, 0, [], false⟩, ⟨9, 4, [' '], false⟩, ⟨10, 7, ['U', 'S', 'D'], false⟩, ⟨11, 8, [], false⟩,
  ⟨12, 0, [], false⟩, ⟨13, 2, ['\n'], false⟩, ⟨14, 1, [' ', ' ', ';', ' ', 'm'], true⟩, ⟨15, 2, ['\n'], false⟩]

/-- `Open(leading_comment, date, label, account, currencies, booking, inline_comment, eol, meta,
dedent_mark, trailing_comment; indent_by='    ')`. -/
def exOpen : Tree :=
  .node 2 7 (some [' ', ' ', ' ', ' '])
    [.tok 1, .tok 3, .tok 5, .tok 7, .rep 7 8 [.tok 10], .absent, .absent, .tok 11, .rep 7 12 [.tok 14],
     .absent, .absent]

def exFile : Tree := .node 1 7 none [.rep 7 0 [exOpen]]

/-- The same directive with the leading comment un-claimed (owned by nobody). -/
def exOpenUnclaimed : Tree :=
  .node 2 7 (some [' ', ' ', ' ', ' '])
    [.absent, .tok 3, .tok 5, .tok 7, .rep 7 8 [.tok 10], .absent, .absent, .tok 11, .rep 7 12 [.tok 14],
     .absent, .absent]

/-- … and with the comment owned by the `File`'s directive list as a stand-alone item. -/
def exFileCommentItem : Tree := .node 1 7 none [.rep 7 0 [.tok 1, exOpenUnclaimed]]

/-- The state the pre-`0f1862a` claim defect left behind: a comment item *before* its field's placeholder. -/
def badStore : List TTk := [⟨1, 1, [';'], true⟩, ⟨2, 2, ['\n'], false⟩, ⟨0, 0, [], false⟩, ⟨3, 3, ['d'], false⟩]
def badRep : Tree := .rep 7 0 [.tok 1, .tok 3]

/-- Two identical block comments next to each other (`; x⏎⏎; x⏎D`), for the alignment counterexamples. -/
def twinStore : List TTk := [
  ⟨0, 0, [], false⟩, ⟨1, 1, [';', ' ', 'x'], true⟩, ⟨2, 2, ['\n'], false⟩, ⟨3, 1, [';', ' ', 'x'], true⟩,
  ⟨4, 2, ['\n'], false⟩, ⟨5, 3, ['d'], false⟩]

end Autobean.Example
