/-
The read-only queries of the store (`get_index`, `get_prev`, `get_next`, `get_first`, `get_last`,
`iter`, `__len__`) agree with the plain-list view `s.ids` under the invariant.
-/
import Autobean.Proofs.StoreAt

set_option linter.unusedSimpArgs false
set_option linter.unusedVariables false

namespace Autobean

theorem len_eq {s : Store} (hinv : Inv s) : s.len = s.ids.length := by
  rw [hinv.len]; simp [Store.ids]

theorem getIndex_eq {s : Store} (hinv : Inv s) {id : Nat} (h : id ∈ s.ids) :
    s.getIndex id = .ok (s.ids.idxOf id) := by
  obtain ⟨L, b, R, A, t, B, hat⟩ := exists_at h
  have hf := hat.flatIdx_eq hinv A.length
  unfold flatIdx at hf
  simp only [Store.getIndex, hat.handlePos_eq hinv, bind, Except.bind, pure, Except.pure]
  rw [hf, hat.idxOf hinv]

theorem getElem?_of_split {α} {l X Z : List α} {a : α} {n : Nat} (h : l = X ++ a :: Z) (hn : n = X.length) :
    l[n]? = some a := by
  subst h hn; simp

theorem getPrev_eq {s : Store} (hinv : Inv s) {id : Nat} (h : id ∈ s.ids) :
    s.getPrev id = .ok (if s.ids.idxOf id = 0 then none else s.ids[s.ids.idxOf id - 1]?) := by
  obtain ⟨L, b, R, A, t, B, hat⟩ := exists_at h
  have hk := hat.idxOf hinv
  have hids := hat.ids
  simp only [Store.getPrev, hat.handleBlock_eq hinv, bind, Except.bind, pure, Except.pure]
  rcases List.eq_nil_or_concat A with hA | ⟨A', a, hA⟩
  all_goals try rw [List.concat_eq_append] at hA
  · subst hA
    simp only [List.length_nil, ne_eq, not_true, if_false]
    rw [hat.idx_eq hinv]
    rcases List.eq_nil_or_concat L with hL | ⟨L', pb, hL⟩
    all_goals try rw [List.concat_eq_append] at hL
    · subst hL
      simp at hk
      simp [hk]
    · subst hL
      have hpb : pb.toks ≠ [] :=
        hinv.binv.noEmpty (by rw [hat.blocks]; simp; omega) pb (by rw [hat.blocks]; simp)
      rcases List.eq_nil_or_concat pb.toks with h0 | ⟨P, a, hp⟩
      all_goals try rw [List.concat_eq_append] at hp
      · exact absurd h0 hpb
      · have hg : getBlock s.blocks ((L' ++ [pb]).length - 1) = .ok pb :=
          getBlock_of (by rw [hat.blocks]; simp)
        have hne : ¬ (L' ++ [pb]).length = 0 := by simp
        simp only [hne, if_false, hg]
        have hk0 : ¬ s.ids.idxOf id = 0 := by rw [hk]; simp [hp]
        rw [if_neg hk0]
        have e : s.ids = (L'.flatMap (·.toks) ++ P).map (·.id) ++ a.id ::
            (id :: (B ++ R.flatMap (·.toks)).map (·.id)) := by
          rw [hids]; simp [hp]
        rw [getElem?_of_split e (by rw [hk]; simp [hp])]
        simp [hp]
  · subst hA
    have hj : ¬ (A' ++ [a]).length = 0 := by simp
    have hbt : b.toks[(A' ++ [a]).length - 1]? = some a := by rw [hat.toks]; simp
    simp only [ne_eq, hj, not_false_eq_true, if_true, hbt]
    have hk0 : ¬ s.ids.idxOf id = 0 := by rw [hk]; simp
    rw [if_neg hk0]
    have e : s.ids = (L.flatMap (·.toks) ++ A').map (·.id) ++ a.id ::
        (id :: (B ++ R.flatMap (·.toks)).map (·.id)) := by
      rw [hids]; simp
    rw [getElem?_of_split e (by rw [hk]; simp)]

theorem getNext_eq {s : Store} (hinv : Inv s) {id : Nat} (h : id ∈ s.ids) :
    s.getNext id = .ok (s.ids[s.ids.idxOf id + 1]?) := by
  obtain ⟨L, b, R, A, t, B, hat⟩ := exists_at h
  have hk := hat.idxOf hinv
  have hids := hat.ids
  simp only [Store.getNext, hat.handleBlock_eq hinv, bind, Except.bind, pure, Except.pure]
  cases B with
  | cons b' B' =>
    have hlt : A.length + 1 < b.toks.length := by rw [hat.toks]; simp
    have hbt : b.toks[A.length + 1]? = some b' := by rw [hat.toks]; simp
    simp only [hlt, if_true, hbt]
    have e : s.ids = (L.flatMap (·.toks) ++ A ++ [t]).map (·.id) ++ b'.id ::
        (B' ++ R.flatMap (·.toks)).map (·.id) := by
      rw [hids]; simp [hat.id]
    rw [getElem?_of_split e (by rw [hk]; simp; omega)]
  | nil =>
    have hlt : ¬ A.length + 1 < b.toks.length := by rw [hat.toks]; simp
    simp only [hlt, if_false]
    rw [hat.idx_eq hinv]
    cases R with
    | nil =>
      have hl : ¬ L.length + 1 < s.blocks.length := by rw [hat.blocks]; simp
      simp only [hl, if_false]
      have : s.ids.length ≤ s.ids.idxOf id + 1 := by rw [hk, hids]; simp; omega
      rw [List.getElem?_eq_none this]
    | cons nb R' =>
      have hl : L.length + 1 < s.blocks.length := by rw [hat.blocks]; simp
      have hg : getBlock s.blocks (L.length + 1) = .ok nb := getBlock_of (by rw [hat.blocks]; simp)
      have hnb : nb.toks ≠ [] :=
        hinv.binv.noEmpty (by rw [hat.blocks]; simp; omega) nb (by rw [hat.blocks]; simp)
      simp only [hl, if_true, hg]
      cases hn : nb.toks with
      | nil => exact absurd hn hnb
      | cons n N =>
        simp only [List.head?_cons]
        have e : s.ids = (L.flatMap (·.toks) ++ A ++ [t]).map (·.id) ++ n.id ::
            (N ++ R'.flatMap (·.toks)).map (·.id) := by
          rw [hids]; simp [hat.id, hn]
        rw [getElem?_of_split e (by rw [hk]; simp; omega)]

theorem getFirst_eq{s : Store} (hinv : Inv s) : s.getFirst = s.ids.head? := by
  have hb := hinv.binv
  unfold Store.getFirst Store.ids Store.toList
  cases hbs : s.blocks with
  | nil => exact absurd hbs hb.nonempty
  | cons b rest =>
    simp only []
    cases ht : b.toks with
    | nil =>
      have : rest = [] := by
        cases rest with
        | nil => rfl
        | cons r rs => exact absurd ht (hb.noEmpty (by rw [hbs]; simp) b (by rw [hbs]; simp))
      subst this; simp [ht]
    | cons t ts => simp [ht]

theorem getLast_eq {s : Store} (hinv : Inv s) : s.getLast = .ok s.ids.getLast? := by
  have hb := hinv.binv
  obtain ⟨b, rest, hbs⟩ : ∃ b rest, s.blocks = b :: rest := by
    cases h : s.blocks with
    | nil => exact absurd h hb.nonempty
    | cons b rest => exact ⟨b, rest, rfl⟩
  simp only [Store.getLast, hbs]
  cases ht : b.toks with
  | nil =>
    have : rest = [] := by
      cases rest with
      | nil => rfl
      | cons r rs => exact absurd ht (hb.noEmpty (by rw [hbs]; simp) b (by rw [hbs]; simp))
    subst this
    simp [Store.ids, Store.toList, hbs, ht]; rfl
  | cons t0 ts0 =>
    simp only [List.isEmpty_cons, Bool.false_eq_true, if_false]
    rcases List.eq_nil_or_concat (b :: rest) with h | ⟨L, lb, hl⟩
    · simp at h
    · have hne : lb.toks ≠ [] := by
        cases L with
        | nil =>
          simp at hl
          rw [← hl.1, ht]; simp
        | cons x L =>
          apply hb.noEmpty
          · rw [hbs, hl]; simp
          · rw [hbs, hl]; simp
      rcases List.eq_nil_or_concat lb.toks with h | ⟨P, t, hp⟩
      · exact absurd h hne
      · rw [hl]
        simp [Store.ids, Store.toList, hbs, hl, hp]
        rfl

theorem drop_take_mid {α} (X Y Z : List α) (i n : Nat) (h : i + n ≤ Y.length) :
    ((X ++ Y ++ Z).drop (X.length + i)).take n = (Y.drop i).take n := by
  rw [List.append_assoc, ← List.drop_drop, List.drop_left' rfl, List.drop_append_of_le_length (by omega),
    List.take_append_of_le_length (by simp; omega)]

theorem iter_eq {s : Store} (hinv : Inv s) {a b : Nat} (ha : a ∈ s.ids) (hb : b ∈ s.ids)
    (hab : s.ids.idxOf a ≤ s.ids.idxOf b) :
    s.iter a b = .ok ((s.ids.drop (s.ids.idxOf a)).take (s.ids.idxOf b + 1 - s.ids.idxOf a)) := by
  obtain ⟨L, ba, R, A, ta, B, hata⟩ := exists_at ha
  obtain ⟨L', bb, R', A', tb, B', hatb⟩ := exists_at hb
  have hka := hata.idxOf hinv
  have hkb := hatb.idxOf hinv
  have hbl : L ++ ba :: R = L' ++ bb :: R' := by rw [← hata.blocks, ← hatb.blocks]
  simp only [Store.iter, hata.handleBlock_eq hinv, hatb.handleBlock_eq hinv, bind, Except.bind,
    pure, Except.pure]
  by_cases href : ba.ref = bb.ref
  · simp only [href, if_true]
    have h1 := hata.findIdx?_eq hinv
    have h2 := hatb.findIdx?_eq hinv
    rw [href, h2] at h1
    have hlen : L'.length = L.length := by simpa using h1
    obtain ⟨e1, e2⟩ := List.append_inj hbl hlen.symm
    simp only [List.cons.injEq] at e2
    obtain ⟨e2, e3⟩ := e2
    subst e1 e2 e3
    have hids : s.ids = (L.flatMap (·.toks)).map (·.id) ++ ba.toks.map (·.id) ++
        (R.flatMap (·.toks)).map (·.id) := by
      simp [Store.ids, Store.toList, hata.blocks]
    have hle : A.length ≤ A'.length := by omega
    have hA' : A'.length < ba.toks.length := by rw [hatb.toks]; simp
    have hl : (L.flatMap (·.toks)).length = ((L.flatMap (·.toks)).map (·.id)).length := by simp
    rw [hka, hkb, hids, hl, drop_take_mid _ _ _ _ _ (by simp; omega)]
    simp only [List.map_drop, List.map_take]
    congr 2; omega
  · simp only [href, if_false]
    rw [hata.idx_eq hinv, hatb.idx_eq hinv]
    rcases List.append_eq_append_iff.1 hbl with ⟨M0, e1, e2⟩ | ⟨M0, e1, e2⟩
    · cases M0 with
      | nil =>
        simp at e2
        exact absurd (by rw [e2.1]) href
      | cons x M =>
        simp only [List.cons_append, List.cons.injEq] at e2
        obtain ⟨rfl, e2⟩ := e2
        subst e1 e2
        have hmid : (s.blocks.drop (L.length + 1)).take ((L ++ ba :: M).length - (L.length + 1)) = M := by
          have e : L ++ ba :: (M ++ bb :: R') = (L ++ [ba]) ++ M ++ (bb :: R') := by simp
          have l : L.length + 1 = (L ++ [ba]).length := by simp
          have l2 : (L ++ ba :: M).length - (L.length + 1) = M.length := by simp; omega
          rw [l2, hata.blocks, e, l]
          exact (take_drop_of_split rfl).2.2
        rw [hmid]
        have hd : ba.toks.drop A.length = ta :: B := by rw [hata.toks]; simp
        have ht : bb.toks.take (A'.length + 1) = A' ++ [tb] := by
          rw [hatb.toks]
          have : A' ++ tb :: B' = (A' ++ [tb]) ++ B' := by simp
          rw [this, List.take_left' (by simp)]
        rw [hd, ht]
        have hids : s.ids = ((L.flatMap (·.toks) ++ A).map (·.id)) ++
            ((ta :: B ++ M.flatMap (·.toks) ++ (A' ++ [tb])).map (·.id)) ++
            ((B' ++ R'.flatMap (·.toks)).map (·.id)) := by
          simp [Store.ids, Store.toList, hata.blocks, hata.toks, hatb.toks]
        have hl1 : s.ids.idxOf a = ((L.flatMap (·.toks) ++ A).map (·.id)).length := by
          rw [hka]; simp
        have hl2 : s.ids.idxOf b + 1 - s.ids.idxOf a =
            ((ta :: B ++ M.flatMap (·.toks) ++ (A' ++ [tb])).map (·.id)).length := by
          rw [hka, hkb]; simp [hata.toks]; omega
        rw [hl2, hl1, (take_drop_of_split hids).2.2]
    · cases M0 with
      | nil =>
        simp at e2
        exact absurd (by rw [e2.1]) href
      | cons x M =>
        simp only [List.cons_append, List.cons.injEq] at e2
        obtain ⟨rfl, e2⟩ := e2
        subst e1
        exfalso
        have : A'.length < bb.toks.length := by rw [hatb.toks]; simp
        rw [hka, hkb] at hab
        simp at hab
        omega

/-- a token that is not in the store: every handle-based query raises -/
theorem getIndex_not_mem {s : Store} {id : Nat} (h : id ∉ s.ids) :
    s.getIndex id = .error "ValueError:not-in-store" := by
  simp only [Store.getIndex, handlePos, findTok_of_not_mem h]
  rfl

end Autobean
