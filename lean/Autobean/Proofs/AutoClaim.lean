import Autobean.Model.AutoClaim
import Autobean.Proofs.Ownership
/-
Helper lemmas about the tree walk of `auto_claim_comments` (Model/AutoClaim.lean), used by Properties/C14.lean.
-/
namespace Autobean.Comments

/-! ### A predicate kept by every primitive step is kept by the walk -/

/-- What the walk does to a document, step by step: the two self-claims with `ignore_if_already_claimed=True`, the
refresh of the span cache of a field's entries, the interleaving claim without a comment set. -/
structure StepInv (P : Doc → Prop) : Prop where
  leading : ∀ {n st : Nat} {d d' : Doc} {r : Option Nat}, P d → claimLeading n st true d = .ok (d', r) → P d'
  trailing : ∀ {n st : Nat} {d d' : Doc} {r : Option Nat}, P d → claimTrailing n st true d = .ok (d', r) → P d'
  refresh : ∀ {r : Nat} {its : List Item} {d : Doc}, P d → itemKinds its = itemKinds (repItems r d.reps) →
    P { d with reps := setRep r its d.reps }
  inter : ∀ {r ph mf ml : Nat} {d d' : Doc} {cs : List Nat}, P d → claimInter r ph mf ml none d = .ok (d', cs) → P d'

theorem refreshItems_kinds {d : Doc} {ns : List CNode} {items its : List Item}
    (h : refreshItems d ns items = .ok its) : itemKinds its = itemKinds items := by
  induction items generalizing ns its with
  | nil =>
    cases ns with
    | nil => simp [refreshItems] at h; subst h; rfl
    | cons n ns => simp [refreshItems] at h
  | cons it items ih =>
    simp only [refreshItems] at h
    split at h
    · rename_i hc
      cases hr : refreshItems d ns items with
      | error e => simp [hr] at h
      | ok r =>
        simp only [hr] at h
        cases h
        simp [itemKinds, hc]
        exact ih hr
    · rename_i hc
      cases ns with
      | nil => simp at h
      | cons n ns' =>
        simp only at h
        split at h
        · rename_i f l hf hl
          cases hr : refreshItems d ns' items with
          | error e => simp [hr] at h
          | ok r =>
            simp only [hr] at h
            cases h
            simp [itemKinds, hc]
            exact ih hr
        · cases h

theorem walkSelf_inv {P : Doc → Prop} (hP : StepInv P) {d d' : Doc} {id : Nat} {self : CNode} {cs : List Call}
    (hd : P d) (h : walkSelf d id self = .ok (d', cs)) : P d' := by
  unfold walkSelf at h
  split at h
  · cases h
  · rename_i f hf
    cases h1 : claimLeading id f true d with
    | error e => simp [h1] at h
    | ok p1 =>
      obtain ⟨d1, r1⟩ := p1
      simp only [h1] at h
      split at h
      · cases h
      · rename_i l hl
        cases h2 : claimTrailing id l true d1 with
        | error e => simp [h2] at h
        | ok p2 =>
          obtain ⟨d2, r2⟩ := p2
          simp only [h2] at h
          cases h
          exact hP.trailing (hP.leading hd h1) h2

theorem walkInter_inv {P : Doc → Prop} (hP : StepInv P) {d d' : Doc} {owner : CNode} {r ph : Nat} {items : CNodes}
    {cs : List Call} (hd : P d) (h : walkInter d owner r ph items = .ok (d', cs)) : P d' := by
  unfold walkInter at h
  cases hr : refreshItems d items.toList (repItems r d.reps) with
  | error e => simp [hr] at h
  | ok its =>
    simp only [hr] at h
    split at h
    · rename_i mf ml hmf hml
      cases hc : claimInter r ph mf ml none { d with reps := setRep r its d.reps } with
      | error e => simp [hc] at h
      | ok p =>
        obtain ⟨d3, cs3⟩ := p
        simp only [hc] at h
        cases h
        exact hP.inter (hP.refresh hd (refreshItems_kinds hr)) hc
    · cases h

mutual
  theorem walkNode_inv {P : Doc → Prop} (hP : StepInv P) :
      ∀ (n : CNode) {d d' : Doc} {cs : List Call}, P d → walkNode d n = .ok (d', cs) → P d'
    | .surround id fs, d, d', cs, hd, h => by
      rw [walkNode] at h
      cases h1 : walkSelf d id (.surround id fs) with
      | error e => simp [h1] at h
      | ok p1 =>
        obtain ⟨d2, c1⟩ := p1
        simp only [h1] at h
        cases h2 : walkFieldsRev d2 (.surround id fs) fs with
        | error e => simp [h2] at h
        | ok p2 =>
          obtain ⟨d3, c2⟩ := p2
          simp only [h2] at h
          cases h
          exact walkFieldsRev_inv hP fs (walkSelf_inv hP hd h1) h2
    | .bare ws fs, d, d', cs, hd, h => by
      rw [walkNode] at h
      exact walkFieldsRev_inv hP fs hd h
  theorem walkFieldsRev_inv {P : Doc → Prop} (hP : StepInv P) :
      ∀ (fs : CFields) {owner : CNode} {d d' : Doc} {cs : List Call}, P d → walkFieldsRev d owner fs = .ok (d', cs) → P d'
    | .nil, owner, d, d', cs, hd, h => by
      rw [walkFieldsRev] at h
      cases h
      exact hd
    | .cons f fs, owner, d, d', cs, hd, h => by
      rw [walkFieldsRev] at h
      cases h1 : walkFieldsRev d owner fs with
      | error e => simp [h1] at h
      | ok p1 =>
        obtain ⟨d1, c1⟩ := p1
        simp only [h1] at h
        cases h2 : walkField d1 owner f with
        | error e => simp [h2] at h
        | ok p2 =>
          obtain ⟨d2, c2⟩ := p2
          simp only [h2] at h
          cases h
          exact walkField_inv hP f (walkFieldsRev_inv hP fs hd h1) h2
  theorem walkField_inv {P : Doc → Prop} (hP : StepInv P) :
      ∀ (f : CField) {owner : CNode} {d d' : Doc} {cs : List Call}, P d → walkField d owner f = .ok (d', cs) → P d'
    | .plain sp, owner, d, d', cs, hd, h => by
      rw [walkField] at h
      cases h
      exact hd
    | .child n, owner, d, d', cs, hd, h => by
      rw [walkField] at h
      exact walkNode_inv hP n hd h
    | .rep r ph wc items, owner, d, d', cs, hd, h => by
      rw [walkField] at h
      cases h1 : walkNodesRev d items with
      | error e => simp [h1] at h
      | ok p1 =>
        obtain ⟨d1, c1⟩ := p1
        simp only [h1] at h
        have hd1 := walkNodesRev_inv hP items hd h1
        cases wc with
        | false =>
          simp only [Bool.false_eq_true, if_false] at h
          cases h
          exact hd1
        | true =>
          simp only [if_true] at h
          cases h2 : walkInter d1 owner r ph items with
          | error e => simp [h2] at h
          | ok p2 =>
            obtain ⟨d2, c2⟩ := p2
            simp only [h2] at h
            cases h
            exact walkInter_inv hP hd1 h2
  theorem walkNodesRev_inv {P : Doc → Prop} (hP : StepInv P) :
      ∀ (ns : CNodes) {d d' : Doc} {cs : List Call}, P d → walkNodesRev d ns = .ok (d', cs) → P d'
    | .nil, d, d', cs, hd, h => by
      rw [walkNodesRev] at h
      cases h
      exact hd
    | .cons n ns, d, d', cs, hd, h => by
      rw [walkNodesRev] at h
      cases h1 : walkNodesRev d ns with
      | error e => simp [h1] at h
      | ok p1 =>
        obtain ⟨d1, c1⟩ := p1
        simp only [h1] at h
        cases h2 : walkNode d1 n with
        | error e => simp [h2] at h
        | ok p2 =>
          obtain ⟨d2, c2⟩ := p2
          simp only [h2] at h
          cases h
          exact walkNode_inv hP n (walkNodesRev_inv hP ns hd h1) h2
end

theorem autoClaimWalk_inv {P : Doc → Prop} (hP : StepInv P) {n : CNode} {d d' : Doc} (hd : P d)
    (h : autoClaimWalk d n = .ok d') : P d' := by
  unfold autoClaimWalk at h
  cases hw : walkNode d n with
  | error e => simp [hw] at h
  | ok p =>
    obtain ⟨d1, cs⟩ := p
    simp only [hw] at h
    cases h
    exact walkNode_inv hP n hd hw

/-! ### The calls the walk issues -/

theorem walkSelf_calls {d d' : Doc} {id : Nat} {self : CNode} {cs : List Call}
    (h : walkSelf d id self = .ok (d', cs)) : ∀ c ∈ cs, c.isAuto = true := by
  unfold walkSelf at h
  split at h
  · cases h
  · rename_i f hf
    cases h1 : claimLeading id f true d with
    | error e => simp [h1] at h
    | ok p1 =>
      obtain ⟨d1, r1⟩ := p1
      simp only [h1] at h
      split at h
      · cases h
      · rename_i l hl
        cases h2 : claimTrailing id l true d1 with
        | error e => simp [h2] at h
        | ok p2 =>
          obtain ⟨d2, r2⟩ := p2
          simp only [h2] at h
          cases h
          intro c hc
          simp only [List.mem_cons, List.not_mem_nil, or_false] at hc
          rcases hc with rfl | rfl <;> rfl

theorem walkInter_calls {d d' : Doc} {owner : CNode} {r ph : Nat} {items : CNodes} {cs : List Call}
    (h : walkInter d owner r ph items = .ok (d', cs)) : ∀ c ∈ cs, c.isAuto = true := by
  unfold walkInter at h
  cases hr : refreshItems d items.toList (repItems r d.reps) with
  | error e => simp [hr] at h
  | ok its =>
    simp only [hr] at h
    split at h
    · rename_i mf ml hmf hml
      cases hc : claimInter r ph mf ml none { d with reps := setRep r its d.reps } with
      | error e => simp [hc] at h
      | ok p =>
        obtain ⟨d3, cs3⟩ := p
        simp only [hc] at h
        cases h
        intro c hc
        simp only [List.mem_cons, List.not_mem_nil, or_false] at hc
        subst hc; rfl
    · cases h

theorem forall_mem_append {α : Type} {p : α → Prop} {a b : List α} (ha : ∀ x ∈ a, p x) (hb : ∀ x ∈ b, p x) :
    ∀ x ∈ a ++ b, p x := by
  intro x hx
  rcases List.mem_append.mp hx with h | h
  · exact ha x h
  · exact hb x h

mutual
  theorem walkNode_calls :
      ∀ (n : CNode) {d d' : Doc} {cs : List Call}, walkNode d n = .ok (d', cs) → ∀ c ∈ cs, c.isAuto = true
    | .surround id fs, d, d', cs, h => by
      rw [walkNode] at h
      cases h1 : walkSelf d id (.surround id fs) with
      | error e => simp [h1] at h
      | ok p1 =>
        obtain ⟨d2, c1⟩ := p1
        simp only [h1] at h
        cases h2 : walkFieldsRev d2 (.surround id fs) fs with
        | error e => simp [h2] at h
        | ok p2 =>
          obtain ⟨d3, c2⟩ := p2
          simp only [h2] at h
          cases h
          exact forall_mem_append (walkSelf_calls h1) (walkFieldsRev_calls fs h2)
    | .bare ws fs, d, d', cs, h => by
      rw [walkNode] at h
      exact walkFieldsRev_calls fs h
  theorem walkFieldsRev_calls :
      ∀ (fs : CFields) {owner : CNode} {d d' : Doc} {cs : List Call}, walkFieldsRev d owner fs = .ok (d', cs) →
        ∀ c ∈ cs, c.isAuto = true
    | .nil, owner, d, d', cs, h => by
      rw [walkFieldsRev] at h
      cases h
      simp
    | .cons f fs, owner, d, d', cs, h => by
      rw [walkFieldsRev] at h
      cases h1 : walkFieldsRev d owner fs with
      | error e => simp [h1] at h
      | ok p1 =>
        obtain ⟨d1, c1⟩ := p1
        simp only [h1] at h
        cases h2 : walkField d1 owner f with
        | error e => simp [h2] at h
        | ok p2 =>
          obtain ⟨d2, c2⟩ := p2
          simp only [h2] at h
          cases h
          exact forall_mem_append (walkFieldsRev_calls fs h1) (walkField_calls f h2)
  theorem walkField_calls :
      ∀ (f : CField) {owner : CNode} {d d' : Doc} {cs : List Call}, walkField d owner f = .ok (d', cs) →
        ∀ c ∈ cs, c.isAuto = true
    | .plain sp, owner, d, d', cs, h => by
      rw [walkField] at h
      cases h
      simp
    | .child n, owner, d, d', cs, h => by
      rw [walkField] at h
      exact walkNode_calls n h
    | .rep r ph wc items, owner, d, d', cs, h => by
      rw [walkField] at h
      cases h1 : walkNodesRev d items with
      | error e => simp [h1] at h
      | ok p1 =>
        obtain ⟨d1, c1⟩ := p1
        simp only [h1] at h
        have hc1 := walkNodesRev_calls items h1
        cases wc with
        | false =>
          simp only [Bool.false_eq_true, if_false] at h
          cases h
          exact hc1
        | true =>
          simp only [if_true] at h
          cases h2 : walkInter d1 owner r ph items with
          | error e => simp [h2] at h
          | ok p2 =>
            obtain ⟨d2, c2⟩ := p2
            simp only [h2] at h
            cases h
            exact forall_mem_append hc1 (walkInter_calls h2)
  theorem walkNodesRev_calls :
      ∀ (ns : CNodes) {d d' : Doc} {cs : List Call}, walkNodesRev d ns = .ok (d', cs) → ∀ c ∈ cs, c.isAuto = true
    | .nil, d, d', cs, h => by
      rw [walkNodesRev] at h
      cases h
      simp
    | .cons n ns, d, d', cs, h => by
      rw [walkNodesRev] at h
      cases h1 : walkNodesRev d ns with
      | error e => simp [h1] at h
      | ok p1 =>
        obtain ⟨d1, c1⟩ := p1
        simp only [h1] at h
        cases h2 : walkNode d1 n with
        | error e => simp [h2] at h
        | ok p2 =>
          obtain ⟨d2, c2⟩ := p2
          simp only [h2] at h
          cases h
          exact forall_mem_append (walkNodesRev_calls ns h1) (walkNode_calls n h2)
end

/-! ### The three instances: ownership invariant, only placeholders move, nothing happens once everything is claimed -/

theorem itemCommentIds_of_kinds (items : List Item) : itemCommentIds items = (itemKinds items).filterMap id := by
  induction items with
  | nil => rfl
  | cons it its ih =>
    rw [itemCommentIds_cons, ih]
    simp only [itemKinds, List.map_cons, List.filterMap_cons]
    split <;> simp

theorem OwnInv.refresh {d : Doc} {r : Nat} {its : List Item} (hi : OwnInv d)
    (hk : itemKinds its = itemKinds (repItems r d.reps)) : OwnInv { d with reps := setRep r its d.reps } := by
  have hc : itemCommentIds its = itemCommentIds (repItems r d.reps) := by
    rw [itemCommentIds_of_kinds, itemCommentIds_of_kinds, hk]
  have hp : (owned { d with reps := setRep r its d.reps }).Perm (owned d) := by
    have hf := flatMap_setRep r its d.reps
    simp only [owned]
    rw [List.perm_iff_count] at hf ⊢
    intro z; have a := hf z
    rw [hc] at a
    simp only [List.count_append] at a ⊢; omega
  refine ⟨hi.ids, hi.lkeys, hi.tkeys, hp.nodup_iff.mpr hi.uniq, ?_⟩
  intro t ht hkind
  rw [hp.mem_iff]
  exact hi.flags t ht hkind

theorem stepInv_ownInv : StepInv OwnInv where
  leading := fun hd h => hd.claimLeading h
  trailing := fun hd h => hd.claimTrailing h
  refresh := fun hd hk => hd.refresh hk
  inter := fun hd h => hd.claimInter h

theorem stepInv_moved (s0 : Store) : StepInv (fun d => OnlyPhMoved d.store s0) where
  leading := fun hd h => (claimLeading_moved h).trans hd
  trailing := fun hd h => (claimTrailing_moved h).trans hd
  refresh := fun hd _ => hd
  inter := fun hd h => (claimInter_moved h).trans hd

theorem claimLeading_fixed {n st : Nat} {ig : Bool} {d d' : Doc} {r : Option Nat} (ha : AllClaimed d.store)
    (hig : ig = true) (h : claimLeading n st ig d = .ok (d', r)) : d' = d := by
  have := runCall_auto_fixed (c := .claimLeading n st ig) ha (by simp [Call.isAuto, hig])
  simpa [runCall, h] using this

theorem claimTrailing_fixed {n st : Nat} {ig : Bool} {d d' : Doc} {r : Option Nat} (ha : AllClaimed d.store)
    (hig : ig = true) (h : claimTrailing n st ig d = .ok (d', r)) : d' = d := by
  have := runCall_auto_fixed (c := .claimTrailing n st ig) ha (by simp [Call.isAuto, hig])
  simpa [runCall, h] using this

theorem claimInter_fixed {r ph mf ml : Nat} {d d' : Doc} {cs : List Nat} (ha : AllClaimed d.store)
    (h : claimInter r ph mf ml none d = .ok (d', cs)) : d' = d := by
  have := runCall_auto_fixed (c := .claimInter r ph mf ml none) ha (by simp [Call.isAuto])
  simpa [runCall, h] using this

theorem setRep_kinds {r : Nat} {its : List Item} {reps : List (Nat × List Item)}
    (hk : itemKinds its = itemKinds (repItems r reps)) :
    (setRep r its reps).map (fun p => (p.1, itemKinds p.2)) = reps.map (fun p => (p.1, itemKinds p.2)) := by
  induction reps with
  | nil =>
    simp only [repItems, itemKinds, List.map_nil, List.map_eq_nil_iff] at hk
    subst hk
    simp [setRep]
  | cons p rest ih =>
    obtain ⟨k, v⟩ := p
    simp only [setRep, repItems] at hk ⊢
    by_cases hkr : k = r
    · simp only [hkr, if_true] at hk ⊢
      simp [hk]
    · simp only [hkr, if_false] at hk ⊢
      simp [ih hk]

theorem stepInv_fixed {d0 : Doc} (ha : AllClaimed d0.store) : StepInv (fun d => d.obs = d0.obs) where
  leading := by
    intro n st d d' r hd h
    have hs : d.store = d0.store := by simpa [Doc.obs] using congrArg (·.1) hd
    rw [claimLeading_fixed (hs ▸ ha) rfl h]; exact hd
  trailing := by
    intro n st d d' r hd h
    have hs : d.store = d0.store := by simpa [Doc.obs] using congrArg (·.1) hd
    rw [claimTrailing_fixed (hs ▸ ha) rfl h]; exact hd
  refresh := by
    intro r its d hd hk
    rw [← hd]
    simp only [Doc.obs, setRep_kinds hk]
  inter := by
    intro r ph mf ml d d' cs hd h
    have hs : d.store = d0.store := by simpa [Doc.obs] using congrArg (·.1) hd
    rw [claimInter_fixed (hs ▸ ha) h]; exact hd

/-! ### The final claim of a `File` leaves nothing unclaimed (under `coverInner`) -/

theorem firstTok_file {d : Doc} {p : Tk} {post : List Tk} (fs : CFields) (hs : d.store = p :: post) :
    firstTok d (.bare true fs) = some p.id := by
  simp [firstTok, hs]

theorem lastTok_file {d : Doc} {lt : Tk} (fs : CFields) (hl : d.store.getLast? = some lt) :
    lastTok d (.bare true fs) = some lt.id := by
  simp [lastTok, hl]

theorem OnlyPhMoved.idsNodup {s' s : Store} (h : OnlyPhMoved s' s) (hn : IdsNodup s) : IdsNodup s' := by
  have hp := h.perm.map (fun c : Nat × Kind × List Char => c.1)
  simp only [List.map_map] at hp
  have e : ∀ l : Store, l.map ((fun c : Nat × Kind × List Char => c.1) ∘ Tk.core) = l.map (·.id) := by
    intro l; apply List.map_congr_left; intro t _; rfl
  rw [e, e] at hp
  exact hp.nodup_iff.mpr hn

theorem repItems_setRep (r : Nat) (its : List Item) (reps : List (Nat × List Item)) :
    repItems r (setRep r its reps) = its := by
  induction reps with
  | nil =>
    simp only [setRep]
    by_cases h : its.isEmpty = true
    · have : its = [] := by simpa using h
      simp [this, repItems]
    · simp [h, repItems]
  | cons p rest ih =>
    obtain ⟨k, v⟩ := p
    simp only [setRep]
    by_cases hk : k = r
    · simp [hk, repItems]
    · simp [hk, repItems, ih]

theorem tailOk_comment {t : Tk} (h : tailOk t = true) (hk : t.kind = .blockComment) :
    t.claimed = false ∧ skippable t = false := by
  simp only [tailOk, hk, if_true, Bool.and_eq_true, Bool.not_eq_true'] at h
  refine ⟨h.1, ?_⟩
  simp [skippable, hk, h.2]

theorem tailOk_other {t : Tk} (h : tailOk t = true) (hk : t.kind ≠ .blockComment) : skippable t = true := by
  simpa [tailOk, hk] using h

/-- With the universe as comment set, `_find_outer` over a walk of harmless tokens yields every block comment of it
(the limit is only met at the end of the walk). -/
theorem findOuter_all {inSet : Nat → Bool} (hin : ∀ i, inSet i = true) {limit : Nat} :
    ∀ (w : List Tk) (prev : Nat), (∀ u ∈ w, tailOk u = true) → prev ≠ limit → (∀ u ∈ w.dropLast, u.id ≠ limit) →
      ∀ u ∈ w, u.kind = .blockComment → u ∈ findOuter inSet limit prev w
  | [], _, _, _, _, u, hu, _ => by simp at hu
  | t :: ts, prev, hok, hprev, hdrop, u, hu, hk => by
    have ht := hok t (by simp)
    have hrest : ∀ (hu' : u ∈ ts), u ∈ findOuter inSet limit t.id ts := by
      intro hu'
      have hne : ts ≠ [] := List.ne_nil_of_mem hu'
      have hd : (t :: ts).dropLast = t :: ts.dropLast := by
        cases ts with
        | nil => exact absurd rfl hne
        | cons a l => rfl
      rw [hd] at hdrop
      exact findOuter_all hin ts t.id (fun v hv => hok v (by simp [hv])) (hdrop t (by simp))
        (fun v hv => hdrop v (by simp [hv])) u hu' hk
    unfold findOuter
    simp only [hprev, if_false]
    by_cases hs : skippable t = true
    · simp only [hs, if_true]
      have hnk : t.kind ≠ .blockComment := by
        intro hk'
        have := (tailOk_comment ht hk').2
        simp [hs] at this
      rcases List.mem_cons.mp hu with rfl | hu'
      · exact absurd hk hnk
      · exact hrest hu'
    · simp only [hs]
      have hk' : t.kind = .blockComment := by
        by_cases hk' : t.kind = .blockComment
        · exact hk'
        · exact absurd (tailOk_other ht hk') hs
      have hcl := (tailOk_comment ht hk').1
      simp only [hk', if_true, hcl, Bool.false_eq_true, if_false, hin]
      rcases List.mem_cons.mp hu with rfl | hu'
      · simp
      · simp [hrest hu']

theorem mem_gapComments {inSet : Nat → Bool} (hin : ∀ i, inSet i = true) {gap : List Tk} {u : Tk} (hu : u ∈ gap)
    (hk : u.kind = .blockComment) (hcl : u.claimed = false) : u ∈ gapComments inSet gap := by
  simp [gapComments, hu, hk, hcl, hin]

/-- `_find_inner` with the universe as comment set, on a layout satisfying `coverInner`: every block comment of the
scanned tokens is already claimed, or is yielded, or lies behind the last entry; and behind the last entry there are
only harmless tokens. -/
theorem findInner_cover {inSet : Nat → Bool} (hin : ∀ i, inSet i = true) {items : List Item} :
    ∀ {cur : List Tk} {ys : List Item} {left : List Tk}, findInner inSet cur items = .ok (ys, left) →
      coverInner cur items = true →
      (∀ u ∈ cur, u.kind = .blockComment → u.claimed = true ∨ u.id ∈ itemCommentIds ys ∨ u ∈ left) ∧
      (∀ u ∈ left, tailOk u = true) := by
  induction items with
  | nil =>
    intro cur ys left h hc
    simp only [findInner] at h
    cases h
    refine ⟨fun u hu _ => Or.inr (Or.inr hu), ?_⟩
    simpa [coverInner] using hc
  | cons it its ih =>
    intro cur ys left h hc
    simp only [findInner] at h
    simp only [coverInner] at hc
    cases hsp : splitAt? it.last (List.dropWhile (fun t => t.id != it.first) cur) with
    | none => simp [hsp] at h
    | some trip =>
      obtain ⟨a, x, after⟩ := trip
      simp only [hsp] at h hc
      cases hrec : findInner inSet after its with
      | error e => simp [hrec] at h
      | ok q =>
        obtain ⟨ys', left'⟩ := q
        simp only [hrec] at h
        cases h
        simp only [Bool.and_eq_true] at hc
        obtain ⟨hspan, hc'⟩ := hc
        obtain ⟨ih1, ih2⟩ := ih hrec hc'
        refine ⟨?_, ih2⟩
        intro u hu hk
        have hcur : cur = List.takeWhile (fun t => t.id != it.first) cur ++ (a ++ x :: after) := by
          rw [← (splitAt?_eq hsp).1]; exact (List.takeWhile_append_dropWhile).symm
        rw [hcur] at hu
        rcases List.mem_append.mp hu with hg | hr
        · -- in the gap in front of the entry
          by_cases hcl : u.claimed = true
          · exact Or.inl hcl
          · right; left
            have hcl' : u.claimed = false := by simpa using hcl
            have := mem_gapComments hin hg hk hcl'
            rw [itemCommentIds_append, itemCommentIds_commentItems]
            exact List.mem_append_left _ (List.mem_map_of_mem this)
        · have hr' : u ∈ (a ++ [x]) ∨ u ∈ after := by
            simp only [List.mem_append, List.mem_cons, List.not_mem_nil, or_false] at hr ⊢
            rcases hr with h1 | h1 | h1
            · exact Or.inl (Or.inl h1)
            · exact Or.inl (Or.inr h1)
            · exact Or.inr h1
          rcases hr' with h1 | h1
          · -- inside the entry's span
            have := List.all_eq_true.mp hspan u h1
            simp [hk] at this
            exact Or.inl this
          · rcases ih1 u h1 hk with h2 | h2 | h2
            · exact Or.inl h2
            · right; left
              rw [itemCommentIds_append, itemCommentIds_cons]
              exact List.mem_append_right _ (List.mem_append_right _ h2)
            · exact Or.inr (Or.inr h2)

/-- `_find_inner` consumes a prefix of its walk; the last token of the last entry lies in that prefix. -/
theorem findInner_split {inSet : Nat → Bool} {items : List Item} :
    ∀ {cur : List Tk} {ys : List Item} {left : List Tk}, findInner inSet cur items = .ok (ys, left) →
      ∃ pre, cur = pre ++ left ∧ ∀ it, items.getLast? = some it → ∃ x ∈ pre, x.id = it.last := by
  induction items with
  | nil =>
    intro cur ys left h
    simp only [findInner] at h
    cases h
    exact ⟨[], rfl, by simp⟩
  | cons it its ih =>
    intro cur ys left h
    simp only [findInner] at h
    cases hsp : splitAt? it.last (List.dropWhile (fun t => t.id != it.first) cur) with
    | none => simp [hsp] at h
    | some trip =>
      obtain ⟨a, x, after⟩ := trip
      simp only [hsp] at h
      cases hrec : findInner inSet after its with
      | error e => simp [hrec] at h
      | ok q =>
        obtain ⟨ys', left'⟩ := q
        simp only [hrec] at h
        cases h
        obtain ⟨pre', hafter, hlast⟩ := ih hrec
        have hx := (splitAt?_eq hsp).2
        have hcur : cur = List.takeWhile (fun t => t.id != it.first) cur ++ (a ++ x :: after) := by
          rw [← (splitAt?_eq hsp).1]; exact (List.takeWhile_append_dropWhile).symm
        refine ⟨List.takeWhile (fun t => t.id != it.first) cur ++ (a ++ x :: pre'), ?_, ?_⟩
        · conv => lhs; rw [hcur, hafter]
          simp
        · intro it' hit'
          cases its with
          | nil =>
            simp at hit'
            subst hit'
            exact ⟨x, by simp, hx⟩
          | cons b l =>
            have : (b :: l).getLast? = some it' := by simpa [List.getLast?_cons_cons] using hit'
            obtain ⟨x', hx', hid⟩ := hlast it' this
            exact ⟨x', by simp [hx'], hid⟩

theorem getLast?_append_of_ne_nil {α : Type} (a : List α) {b : List α} (hb : b ≠ []) :
    (a ++ b).getLast? = b.getLast? := by
  cases b with
  | nil => exact absurd rfl hb
  | cons x l =>
    rw [List.getLast?_append]
    cases h : (x :: l).getLast? with
    | none => simp at h
    | some v => simp

/-- The interleaving claim of a field whose placeholder is the first token of the store, with the store's last token
as limit and no comment set, on a layout satisfying `coverInner`: afterwards every block comment is claimed. -/
theorem claimInterleaving_cover {ph mf ml : Nat} {its : List Item} {p : Tk} {post : List Tk} {o : InterOut}
    (hn : IdsNodup (p :: post)) (hp : p.id = ph) (hpk : isPh p = true)
    (hml : ((p :: post).getLast?).map (·.id) = some ml)
    (hc : coverInner post its = true)
    (h : claimInterleaving ph its mf ml none (p :: post) = .ok o) : AllClaimed o.store := by
  have hin : ∀ i, inSetOf none i = true := fun _ => rfl
  unfold claimInterleaving at h
  have hsplit : splitAt? ph (p :: post) = some ([], p, post) := by simp [splitAt?, hp]
  cases hsc : scanComments (inSetOf none) ph its mf ml (p :: post) with
  | error e => simp [hsc] at h
  | ok sc =>
    simp only [hsc] at h
    unfold scanComments at hsc
    simp only [hsplit] at hsc
    cases hfi : findInner (inSetOf none) post its with
    | error e => simp [hfi] at hsc
    | ok q =>
      obtain ⟨inner, left⟩ := q
      simp only [hfi] at hsc
      cases hsc
      simp only [List.reverse_nil, findOuter, List.map_nil, List.nil_append] at h
      split at h
      · cases h
      · simp only [shiftBefore] at h
        cases h2 : shiftAfter (findOuter (inSetOf none) ml (lastIdOf ph its) left) (lastIdOf ph its) (p :: post) with
        | error e => simp [h2] at h
        | ok s2 =>
          simp only [h2] at h
          cases h
          obtain ⟨hcov, htail⟩ := findInner_cover hin hfi hc
          obtain ⟨pre, hpost, hlast⟩ := findInner_split hfi
          have hperm : s2.Perm (p :: post) := (shiftAfter_moved h2).2
          -- every comment of `left` is yielded by the scan behind the last entry
          have hafter : ∀ u ∈ left, u.kind = .blockComment →
              u ∈ findOuter (inSetOf none) ml (lastIdOf ph its) left := by
            intro u hu hk
            have hne : left ≠ [] := List.ne_nil_of_mem hu
            -- the store's last token is the last token of `left`
            have hl : left.getLast?.map (·.id) = some ml := by
              have : (p :: post) = (p :: pre) ++ left := by rw [hpost]; simp
              rw [this, getLast?_append_of_ne_nil _ hne] at hml
              exact hml
            have hn' : IdsNodup ((p :: pre) ++ left) := by
              have : (p :: post) = (p :: pre) ++ left := by rw [hpost]; simp
              rw [← this]; exact hn
            have hdis := idsNodup_append hn'
            obtain ⟨lt, hlt⟩ : ∃ lt, left.getLast? = some lt := by
              cases hg : left.getLast? with
              | none => simp [hg] at hl
              | some lt => exact ⟨lt, rfl⟩
            have hltid : lt.id = ml := by simpa [hlt] using hl
            have hltmem : lt ∈ left := List.mem_of_getLast? hlt
            refine findOuter_all hin left (lastIdOf ph its) htail ?_ ?_ u hu hk
            · -- the start of the scan is a token in front of `left`
              have : ∃ x ∈ p :: pre, x.id = lastIdOf ph its := by
                unfold lastIdOf
                cases hg : its.getLast? with
                | none => exact ⟨p, by simp, hp⟩
                | some it =>
                  obtain ⟨x, hx, hid⟩ := hlast it hg
                  exact ⟨x, by simp [hx], hid⟩
              obtain ⟨x, hx, hid⟩ := this
              rw [← hid, ← hltid]
              exact hdis.2.2 x hx lt hltmem
            · intro v hv
              rw [← hltid]
              -- distinct positions of `left` carry distinct ids
              have hnl : (left.map (·.id)).Nodup := hdis.2.1
              obtain ⟨ys, hys⟩ := List.getLast?_eq_some_iff.mp hlt
              have hdl : left.dropLast = ys := by simp [hys]
              rw [hdl] at hv
              rw [hys] at hnl
              simp only [List.map_append, List.map_cons, List.map_nil] at hnl
              exact (List.nodup_append.mp hnl).2.2 v.id (List.mem_map_of_mem hv) lt.id (by simp)
          intro t ht hk
          simp only [setFlags, List.mem_map] at ht
          obtain ⟨u, hu, rfl⟩ := ht
          have hu' : u ∈ p :: post := hperm.mem_iff.mp hu
          by_cases hcond : u.kind = .blockComment ∧ u.id ∈ itemCommentIds (inner ++ (findOuter (inSetOf none) ml (lastIdOf ph its) left).map commentItem)
          · simp [hcond]
          · simp only [hcond, if_false] at hk ⊢
            rcases List.mem_cons.mp hu' with rfl | hpostmem
            · simp [isPh] at hpk; simp [hpk] at hk
            · rcases hcov u hpostmem hk with h1 | h1 | h1
              · exact h1
              · exfalso; apply hcond
                exact ⟨hk, by rw [itemCommentIds_append]; exact List.mem_append_left _ h1⟩
              · exfalso; apply hcond
                refine ⟨hk, ?_⟩
                rw [itemCommentIds_append, itemCommentIds_commentItems]
                exact List.mem_append_right _ (List.mem_map_of_mem (hafter u h1 hk))

/-! ### A filled slot stays as it is; a node directly below an unclaimed comment takes it -/

theorem claimLeading_leading {n st : Nat} {ig : Bool} {d d' : Doc} {r : Option Nat}
    (h : claimLeading n st ig d = .ok (d', r)) :
    d'.trailing = d.trailing ∧ d'.reps = d.reps ∧
    (d'.leading = d.leading ∨ (lookup n d.leading = none ∧ ∃ c, d'.leading = (n, c) :: d.leading)) := by
  unfold claimLeading at h
  split at h
  · cases h; exact ⟨rfl, rfl, Or.inl rfl⟩
  · rename_i hlk
    cases hc : claimComment true ig st d.store with
    | error e => simp [hc] at h
    | ok p =>
      obtain ⟨s, r'⟩ := p
      cases r' with
      | none => simp only [hc] at h; cases h; exact ⟨rfl, rfl, Or.inl rfl⟩
      | some c => simp only [hc] at h; cases h; exact ⟨rfl, rfl, Or.inr ⟨hlk, c, rfl⟩⟩

theorem claimTrailing_trailing {n st : Nat} {ig : Bool} {d d' : Doc} {r : Option Nat}
    (h : claimTrailing n st ig d = .ok (d', r)) :
    d'.leading = d.leading ∧ d'.reps = d.reps ∧
    (d'.trailing = d.trailing ∨ (lookup n d.trailing = none ∧ ∃ c, d'.trailing = (n, c) :: d.trailing)) := by
  unfold claimTrailing at h
  split at h
  · cases h; exact ⟨rfl, rfl, Or.inl rfl⟩
  · rename_i hlk
    cases hc : claimComment false ig st d.store with
    | error e => simp [hc] at h
    | ok p =>
      obtain ⟨s, r'⟩ := p
      cases r' with
      | none => simp only [hc] at h; cases h; exact ⟨rfl, rfl, Or.inl rfl⟩
      | some c => simp only [hc] at h; cases h; exact ⟨rfl, rfl, Or.inr ⟨hlk, c, rfl⟩⟩

theorem claimInter_slots {r ph mf ml : Nat} {set : Option (List Nat)} {d d' : Doc} {cs : List Nat}
    (h : claimInter r ph mf ml set d = .ok (d', cs)) : d'.leading = d.leading ∧ d'.trailing = d.trailing := by
  unfold claimInter at h
  cases hc : claimInterleaving ph (repItems r d.reps) mf ml set d.store with
  | error e => simp [hc] at h
  | ok o => simp only [hc] at h; cases h; exact ⟨rfl, rfl⟩

/-- A filled leading slot is never changed by the walk. -/
theorem stepInv_leadingKept (m c : Nat) : StepInv (fun d => lookup m d.leading = some c) where
  leading := by
    intro n st d d' r hd h
    obtain ⟨-, -, h3⟩ := claimLeading_leading h
    rcases h3 with h3 | ⟨hnone, c', h3⟩
    · rw [h3]; exact hd
    · rw [h3]
      have hne : n ≠ m := by intro he; subst he; rw [hnone] at hd; cases hd
      simp [lookup, hne, hd]
  trailing := by
    intro n st d d' r hd h
    rw [(claimTrailing_trailing h).1]; exact hd
  refresh := fun hd _ => hd
  inter := by
    intro r ph mf ml d d' cs hd h
    rw [(claimInter_slots h).1]; exact hd

/-- A filled trailing slot is never changed by the walk. -/
theorem stepInv_trailingKept (m c : Nat) : StepInv (fun d => lookup m d.trailing = some c) where
  leading := by
    intro n st d d' r hd h
    rw [(claimLeading_leading h).1]; exact hd
  trailing := by
    intro n st d d' r hd h
    obtain ⟨-, -, h3⟩ := claimTrailing_trailing h
    rcases h3 with h3 | ⟨hnone, c', h3⟩
    · rw [h3]; exact hd
    · rw [h3]
      have hne : n ≠ m := by intro he; subst he; rw [hnone] at hd; cases hd
      simp [lookup, hne, hd]
  refresh := fun hd _ => hd
  inter := by
    intro r ph mf ml d d' cs hd h
    rw [(claimInter_slots h).2]; exact hd

theorem repItems_setRep_ne {r r' : Nat} (hne : r' ≠ r) (its : List Item) (reps : List (Nat × List Item)) :
    repItems r (setRep r' its reps) = repItems r reps := by
  induction reps with
  | nil =>
    simp only [setRep]
    by_cases h : its.isEmpty = true
    · simp [h]
    · simp [h, repItems, hne]
  | cons p rest ih =>
    obtain ⟨k, v⟩ := p
    simp only [setRep]
    by_cases hk : k = r'
    · have : k ≠ r := by rw [hk]; exact hne
      simp [hk, repItems, hne]
    · by_cases hkr : k = r
      · subst hkr
        simp [hk, repItems]
      · simp [hk, repItems, hkr, ih]

/-- A comment entry of a repeated field is never dropped by the walk. -/
theorem stepInv_entryKept (r c : Nat) : StepInv (fun d => c ∈ itemCommentIds (repItems r d.reps)) where
  leading := by
    intro n st d d' x hd h
    rw [(claimLeading_leading h).2.1]; exact hd
  trailing := by
    intro n st d d' x hd h
    rw [(claimTrailing_trailing h).2.1]; exact hd
  refresh := by
    intro r' its d hd hk
    by_cases hr : r' = r
    · subst hr
      rw [repItems_setRep, itemCommentIds_of_kinds, hk, ← itemCommentIds_of_kinds]; exact hd
    · simp only [repItems_setRep_ne hr]; exact hd
  inter := by
    intro r' ph mf ml d d' cs hd h
    unfold claimInter at h
    cases hc : claimInterleaving ph (repItems r' d.reps) mf ml none d.store with
    | error e => simp [hc] at h
    | ok o =>
      simp only [hc] at h
      cases h
      by_cases hr : r' = r
      · subst hr
        rw [repItems_setRep]
        -- the new entries are the old ones plus what was found
        unfold claimInterleaving at hc
        cases hsc : scanComments (inSetOf none) ph (repItems r' d.reps) mf ml d.store with
        | error e => simp [hsc] at hc
        | ok sc =>
          simp only [hsc] at hc
          split at hc
          · cases hc
          · cases h1 : shiftBefore sc.before ph d.store with
            | error e => simp [h1] at hc
            | ok s1 =>
              simp only [h1] at hc
              cases h2 : shiftAfter sc.after sc.lastId s1 with
              | error e => simp [h2] at hc
              | ok s2 =>
                simp only [h2] at hc
                cases hc
                unfold scanComments at hsc
                cases hsp : splitAt? ph d.store with
                | none => simp [hsp] at hsc
                | some trip =>
                  obtain ⟨pre, p, post⟩ := trip
                  simp only [hsp] at hsc
                  cases hfi : findInner (inSetOf none) post (repItems r' d.reps) with
                  | error e => simp [hfi] at hsc
                  | ok q =>
                    obtain ⟨inner, left⟩ := q
                    simp only [hfi] at hsc
                    cases hsc
                    obtain ⟨found, -, hperm, -⟩ := findInner_spec hfi
                    rw [itemCommentIds_append, itemCommentIds_append]
                    refine List.mem_append_left _ (List.mem_append_right _ ?_)
                    exact hperm.mem_iff.mpr (List.mem_append_right _ hd)
      · simp only [repItems_setRep_ne hr]; exact hd

/-- A block-commentable model whose first token stands directly below an unclaimed comment (one line break and
placeholders in between) and whose leading slot is empty: its two self-claims fill the leading slot with that comment. -/
theorem walkSelf_takes_leading {d d' : Doc} {id : Nat} {self : CNode} {cs : List Call} {A P2 P1 B : List Tk} {c nl st : Tk}
    (hn : IdsNodup d.store) (hslot : lookup id d.leading = none) (hfirst : firstTok d self = some st.id)
    (hlay : d.store = A ++ c :: (P2 ++ nl :: (P1 ++ st :: B)))
    (hk : c.kind = .blockComment) (hcl : c.claimed = false) (hnl : nl.kind = .newline)
    (hP1 : ∀ t ∈ P1, isPh t = true) (hP2 : ∀ t ∈ P2, isPh t = true)
    (h : walkSelf d id self = .ok (d', cs)) : lookup id d'.leading = some c.id := by
  unfold walkSelf at h
  simp only [hfirst] at h
  -- the leading claim
  have hn' : IdsNodup ((A ++ c :: (P2 ++ nl :: P1)) ++ st :: B) := by
    have : (A ++ c :: (P2 ++ nl :: P1)) ++ st :: B = A ++ c :: (P2 ++ nl :: (P1 ++ st :: B)) := by simp
    rw [this, ← hlay]; exact hn
  have hsplit := splitAt?_of_nodup hn'
  have hwalk : claimWalk true (A ++ c :: (P2 ++ nl :: P1)).reverse =
      .ok (nl :: { c with claimed := true } :: ((P1.reverse ++ P2.reverse) ++ A.reverse), some c.id) := by
    have e : (A ++ c :: (P2 ++ nl :: P1)).reverse = P1.reverse ++ nl :: (P2.reverse ++ c :: A.reverse) := by simp
    rw [e, claimWalk_layout (by simpa using hP1) (by simpa using hP2) hnl hk hcl]
  have hlead : ∃ s1, claimLeading id st.id true d = .ok ({ d with store := s1, leading := (id, c.id) :: d.leading }, some c.id) := by
    unfold claimLeading
    simp only [hslot]
    have hst : d.store = (A ++ c :: (P2 ++ nl :: P1)) ++ st :: B := by rw [hlay]; simp
    rw [claimComment_eq, hst, hsplit]
    simp only [if_true, hwalk]
    exact ⟨_, rfl⟩
  obtain ⟨s1, hl⟩ := hlead
  simp only [hl] at h
  split at h
  · cases h
  · rename_i l hlast
    cases h2 : claimTrailing id l true { d with store := s1, leading := (id, c.id) :: d.leading } with
    | error e => simp [h2] at h
    | ok p2 =>
      obtain ⟨d2, r2⟩ := p2
      simp only [h2] at h
      cases h
      rw [(claimTrailing_trailing h2).1]
      simp [lookup]


/-- A block-commentable model whose last token (after its leading claim) stands directly above an unclaimed comment and
whose trailing slot is empty: its trailing claim fills the slot with that comment. -/
theorem walkSelf_takes_trailing {d d1 d' : Doc} {id f : Nat} {self : CNode} {cs : List Call} {r : Option Nat}
    {A P1 P2 B : List Tk} {c nl st : Tk}
    (hfirst : firstTok d self = some f) (hlead : claimLeading id f true d = .ok (d1, r))
    (hn : IdsNodup d1.store) (hslot : lookup id d1.trailing = none) (hlast : lastTok d1 self = some st.id)
    (hlay : d1.store = A ++ st :: (P1 ++ nl :: (P2 ++ c :: B)))
    (hk : c.kind = .blockComment) (hcl : c.claimed = false) (hnl : nl.kind = .newline)
    (hP1 : ∀ t ∈ P1, isPh t = true) (hP2 : ∀ t ∈ P2, isPh t = true)
    (h : walkSelf d id self = .ok (d', cs)) : lookup id d'.trailing = some c.id := by
  unfold walkSelf at h
  simp only [hfirst, hlead, hlast] at h
  have hsplit := splitAt?_of_nodup (hlay ▸ hn)
  have hwalk := claimWalk_layout (ig := true) (r4 := B) hP1 hP2 hnl hk hcl
  have ht : ∃ s2, claimTrailing id st.id true d1 = .ok ({ d1 with store := s2, trailing := (id, c.id) :: d1.trailing }, some c.id) := by
    unfold claimTrailing
    simp only [hslot]
    rw [claimComment_eq, hlay, hsplit]
    simp only [Bool.false_eq_true, if_false, hwalk]
    exact ⟨_, rfl⟩
  obtain ⟨s2, ht⟩ := ht
  simp only [ht] at h
  cases h
  simp [lookup]

end Autobean.Comments
