/-
Lemmas about `ModelBuilder` (`Model/Lex.lean`): what one run of the builder over a (sub)tree appends to
`_built_tokens`, where the cursor ends, and which store ids become leaves.
-/
import Autobean.Proofs.LexPost

namespace Autobean.Lex

/-! ### store-side text/visibility algebra -/

@[simp] theorem textOfS_nil : textOfS [] = [] := rfl
@[simp] theorem textOfS_cons (t : STok) (ts : List STok) : textOfS (t :: ts) = t.text ++ textOfS ts := by
  simp [textOfS]
@[simp] theorem textOfS_append (a b : List STok) : textOfS (a ++ b) = textOfS a ++ textOfS b := by
  simp [textOfS]
@[simp] theorem visS_nil : visS [] = [] := rfl
@[simp] theorem visS_append (a b : List STok) : visS (a ++ b) = visS a ++ visS b := by
  simp [visS]
theorem visS_cons (t : STok) (ts : List STok) :
    visS (t :: ts) = (if t.text.isEmpty then [] else [(t.kind, t.text)]) ++ visS ts := by
  unfold visS
  cases h : t.text.isEmpty <;> simp [h]

theorem textOfS_eq_visS (ts : List STok) : textOfS ts = ((visS ts).map (·.2)).flatten := by
  induction ts with
  | nil => rfl
  | cons t ts ih =>
    rw [visS_cons, textOfS_cons, ih]
    cases h : t.text.isEmpty
    · simp
    · have : t.text = [] := by simpa using h
      simp [this]

/-! ### `mkToks`, `slice`, `gap` -/

@[simp] theorem mkToks_length (l : List LTok) : ∀ n, (mkToks n l).length = l.length := by
  induction l with
  | nil => intro n; rfl
  | cons t r ih => intro n; simp [mkToks, ih]

theorem mkToks_ids (l : List LTok) : ∀ n, (mkToks n l).map (·.id) = List.range' n l.length := by
  induction l with
  | nil => intro n; rfl
  | cons t r ih => intro n; simp [mkToks, ih, List.range'_succ]

theorem mkToks_visS (l : List LTok) : ∀ n, visS (mkToks n l) = vis l := by
  induction l with
  | nil => intro n; rfl
  | cons t r ih => intro n; rw [mkToks, visS_cons, vis_cons, ih]

theorem vis_filter (l : List LTok) : vis (l.filter fun t => !t.value.isEmpty) = vis l := by
  simp [vis, List.filter_filter]

theorem gap_visS (toks : List LTok) (c t n : Nat) : visS (gap toks c t n) = vis (slice toks c t) := by
  rw [gap, mkToks_visS, vis_filter]

theorem gap_ids (toks : List LTok) (c t n : Nat) :
    (gap toks c t n).map (·.id) = List.range' n (gap toks c t n).length := by
  rw [gap, mkToks_ids, mkToks_length]

theorem slice_self (toks : List LTok) (c : Nat) : slice toks c c = [] := by simp [slice]

theorem slice_append (toks : List LTok) {a b c : Nat} (h1 : a ≤ b) (h2 : b ≤ c) :
    slice toks a b ++ slice toks b c = slice toks a c := by
  unfold slice
  have : c - a = (b - a) + (c - b) := by omega
  rw [this, List.take_add, List.drop_drop]
  congr 3; omega

theorem slice_snoc (toks : List LTok) {a i : Nat} {t : LTok} (h1 : a ≤ i) (h2 : toks[i]? = some t) :
    slice toks a i ++ [t] = slice toks a (i + 1) := by
  rw [← slice_append toks h1 (Nat.le_succ i)]
  congr 1
  unfold slice
  have hi : i < toks.length := by
    rcases Nat.lt_or_ge i toks.length with h | h
    · exact h
    · rw [List.getElem?_eq_none h] at h2; cases h2
  rw [List.getElem?_eq_getElem hi] at h2
  cases h2
  have : i + 1 - i = 1 := by omega
  rw [this, List.drop_eq_getElem_cons hi, List.take_succ_cons, List.take_zero]

theorem slice_all (toks : List LTok) : slice toks 0 toks.length = toks := by simp [slice]

/-! ### The specification of one builder run -/

/-- What a run of the builder from `(cursor c, next id n)` to cursor `c'` that appended `out` and produced
leaves `ls` guarantees. -/
structure Spec (toks : List LTok) (c n : Nat) (out : List STok) (c' : Nat) (ls : List Nat) : Prop where
  le : c ≤ c'
  len : c' ≤ toks.length
  ids : out.map (·.id) = List.range' n out.length
  once : visS out = vis (slice toks c c')
  sub : ls.Sublist (out.map (·.id))

theorem Spec.nil {toks : List LTok} {c n : Nat} (h : c ≤ toks.length) : Spec toks c n [] c [] :=
  ⟨Nat.le_refl _, h, rfl, by simp [slice_self], List.Sublist.refl _⟩

theorem Spec.append {toks : List LTok} {c n c1 c2 : Nat} {o1 o2 : List STok} {l1 l2 : List Nat}
    (h1 : Spec toks c n o1 c1 l1) (h2 : Spec toks c1 (n + o1.length) o2 c2 l2) :
    Spec toks c n (o1 ++ o2) c2 (l1 ++ l2) where
  le := Nat.le_trans h1.le h2.le
  len := h2.len
  ids := by
    rw [List.map_append, h1.ids, h2.ids, List.length_append]
    exact (List.range'_append_1 ..)
  once := by rw [visS_append, h1.once, h2.once, ← vis_append, slice_append toks h1.le h2.le]
  sub := by rw [List.map_append]; exact List.Sublist.append h1.sub h2.sub

theorem Spec.ph {toks : List LTok} {c n c' : Nat} {o : List STok} {l : List Nat}
    (h : Spec toks c (n + 1) o c' l) : Spec toks c n (placeholder n :: o) c' (n :: l) where
  le := h.le
  len := h.len
  ids := by simp [placeholder, h.ids, List.range'_succ]
  once := by rw [visS_cons]; simp [placeholder, h.once]
  sub := by simp [placeholder, h.sub]

theorem Spec.absentCons {toks : List LTok} {c n c' : Nat} {o : List STok} {l : List Nat}
    (h : Spec toks c n o c' l) : Spec toks c n o c' ([] ++ l) := by simpa using h

theorem buildToken_ok {toks : List LTok} {i c n : Nat} {o : List STok} {c' : Nat} {m : MTree}
    (h : buildToken toks i c n = .ok (o, c', m)) :
    ∃ t, toks[i]? = some t ∧ o = gap toks c i n ++ [⟨n + (gap toks c i n).length, t.type, t.value⟩] ∧
      c' = i + 1 ∧ m = .tok (n + (gap toks c i n).length) := by
  unfold buildToken at h
  split at h
  · cases h
  · rename_i t ht
    simp only [Except.ok.injEq, Prod.mk.injEq] at h
    exact ⟨t, ht, h.1.symm, h.2.1.symm, h.2.2.symm⟩

theorem Spec.token {toks : List LTok} {i c n : Nat} {o : List STok} {c' : Nat} {m : MTree}
    (h : buildToken toks i c n = .ok (o, c', m)) (hc : c ≤ i) :
    c' = i + 1 ∧ Spec toks c n o c' m.leaves := by
  obtain ⟨t, ht, rfl, rfl, rfl⟩ := buildToken_ok h
  have hi : i < toks.length := by
    rcases Nat.lt_or_ge i toks.length with h | h
    · exact h
    · rw [List.getElem?_eq_none h] at ht; cases ht
  refine ⟨rfl, ⟨by omega, hi, ?_, ?_, ?_⟩⟩
  · rw [List.map_append, gap_ids, List.length_append]
    simp only [List.map_cons, List.map_nil, List.length_cons, List.length_nil]
    rw [show [n + (gap toks c i n).length] = List.range' (n + (gap toks c i n).length) 1 from by simp]
    exact (List.range'_append_1 ..)
  · rw [visS_append, gap_visS, ← slice_snoc toks hc ht, vis_append, visS_cons, vis_cons]; simp
  · simp [MTree.leaves]

/-! ### `_build_indent` -/

theorem findIndentGo_bounds (l : List LTok) : ∀ (k j : Nat), findIndentGo l k = some j →
    k ≤ j ∧ j < k + l.length := by
  induction l with
  | nil => intro k j h; cases h
  | cons t ts ih =>
    intro k j h
    rw [findIndentGo] at h
    split at h
    · split at h
      · cases h; simp
      · split at h
        · cases h
        · have := ih _ _ h; simp; omega
    · have := ih _ _ h; simp; omega

theorem findIndent_bounds {toks : List LTok} {c j : Nat} (hc : c ≤ toks.length)
    (h : findIndent toks c = some j) : c ≤ j ∧ j < toks.length := by
  have := findIndentGo_bounds _ _ _ h
  simp at this; omega

/-! ### Cursor run over events -/

theorem cursorRun_append (toks : List LTok) (e1 e2 : List Ev) : ∀ c,
    cursorRun toks (e1 ++ e2) c = (cursorRun toks e1 c).bind (cursorRun toks e2) := by
  induction e1 with
  | nil => intro c; simp [cursorRun]
  | cons e r ih =>
    intro c
    cases e with
    | leaf i => simp only [List.cons_append, cursorRun]; split <;> simp [ih]
    | ph => simp only [List.cons_append, cursorRun, ih]
    | indent => simp only [List.cons_append, cursorRun]; split <;> simp [ih]

theorem cursorRun_append_some {toks : List LTok} {e1 e2 : List Ev} {c cf : Nat}
    (h : cursorRun toks (e1 ++ e2) c = some cf) :
    ∃ c1, cursorRun toks e1 c = some c1 ∧ cursorRun toks e2 c1 = some cf := by
  rw [cursorRun_append] at h
  cases h1 : cursorRun toks e1 c with
  | none => rw [h1] at h; cases h
  | some c1 => rw [h1] at h; exact ⟨c1, rfl, h⟩

/-! ### The builder meets its specification -/

mutual
theorem buildChildren_spec (toks : List LTok) : ∀ (cs : List PTree) (c n : Nat) (out : List STok) (c' : Nat)
    (fs : List MTree) (cf : Nat), buildChildren toks cs c n = .ok (out, c', fs) → c ≤ toks.length →
    cursorRun toks (eventsC cs) c = some cf → cf = c' ∧ Spec toks c n out c' (leavesL fs)
  | [], c, n, out, c', fs, cf, h, hc, hr => by
    simp only [buildChildren, Except.ok.injEq, Prod.mk.injEq] at h
    obtain ⟨rfl, rfl, rfl⟩ := h
    simp only [eventsC, cursorRun, Option.some.injEq] at hr
    exact ⟨hr.symm, Spec.nil hc⟩
  | .absent :: rest, c, n, out, c', fs, cf, h, hc, hr => by
    rw [buildChildren] at h
    split at h
    · rename_i o c2 fs2 h2
      simp only [Except.ok.injEq, Prod.mk.injEq] at h
      obtain ⟨rfl, rfl, rfl⟩ := h
      rw [eventsC] at hr
      have := buildChildren_spec toks rest c n _ _ _ cf h2 hc hr
      simpa [leavesL, MTree.leaves] using this
    · cases h
  | .leaf i :: rest, c, n, out, c', fs, cf, h, hc, hr => by
    rw [buildChildren] at h
    split at h
    · cases h
    · rename_i o1 c1 m h1
      split at h
      · rename_i o2 c2 fs2 h2
        simp only [Except.ok.injEq, Prod.mk.injEq] at h
        obtain ⟨rfl, rfl, rfl⟩ := h
        rw [eventsC, cursorRun] at hr
        split at hr
        · rename_i hci
          obtain ⟨rfl, s1⟩ := Spec.token h1 hci.1
          obtain ⟨rfl, s2⟩ := buildChildren_spec toks rest (i + 1) _ _ _ _ cf h2 s1.len hr
          exact ⟨rfl, by rw [leavesL]; exact s1.append s2⟩
        · cases hr
      · cases h
  | .node r cs :: rest, c, n, out, c', fs, cf, h, hc, hr => by
    rw [buildChildren] at h
    rw [eventsC] at hr
    split at h
    · -- repeated
      rename_i hrep
      rw [if_pos hrep, cursorRun] at hr
      obtain ⟨c1', hr1, hr2⟩ := cursorRun_append_some hr
      split at h
      · cases h
      · rename_i o1 c1 items h1
        split at h
        · rename_i o2 c2 fs2 h2
          simp only [Except.ok.injEq, Prod.mk.injEq] at h
          obtain ⟨rfl, rfl, rfl⟩ := h
          obtain ⟨rfl, s1⟩ := buildItems_spec toks cs c (n + 1) _ _ _ _ h1 hc hr1
          have s1' := Spec.ph s1
          have h2' : buildChildren toks rest c1' (n + (placeholder n :: o1).length) = .ok (o2, c2, fs2) := by
            rw [← h2]; congr 1; simp; omega
          obtain ⟨rfl, s2⟩ := buildChildren_spec toks rest c1' _ _ _ _ cf h2' s1.len hr2
          refine ⟨rfl, ?_⟩
          have := s1'.append s2
          simpa [leavesL, MTree.leaves] using this
        · cases h
    · rename_i hrep
      rw [if_neg hrep] at hr
      split at h
      · -- indent
        rename_i hind
        rw [if_pos hind, cursorRun] at hr
        split at hr
        · rename_i j hj
          unfold buildIndent at h
          rw [hj] at h
          simp only at h
          split at h
          · cases h
          · rename_i o1 c1 m h1
            split at h
            · rename_i o2 c2 fs2 h2
              simp only [Except.ok.injEq, Prod.mk.injEq] at h
              obtain ⟨rfl, rfl, rfl⟩ := h
              obtain ⟨rfl, s1⟩ := Spec.token h1 (findIndent_bounds hc hj).1
              obtain ⟨rfl, s2⟩ := buildChildren_spec toks rest (j + 1) _ _ _ _ cf h2 s1.len hr
              exact ⟨rfl, by rw [leavesL]; exact s1.append s2⟩
            · cases h
        · cases hr
      · rename_i hind
        rw [if_neg hind] at hr
        split at h
        · -- skipped
          rename_i hsk
          rw [if_pos hsk] at hr
          exact buildChildren_spec toks rest c n _ _ _ cf h hc hr
        · rename_i hsk
          rw [if_neg hsk] at hr
          obtain ⟨c1', hr1, hr2⟩ := cursorRun_append_some hr
          split at h
          · cases h
          · rename_i o1 c1 fs1 h1
            split at h
            · rename_i o2 c2 fs2 h2
              simp only [Except.ok.injEq, Prod.mk.injEq] at h
              obtain ⟨rfl, rfl, rfl⟩ := h
              obtain ⟨rfl, s1⟩ := buildChildren_spec toks cs c n _ _ _ _ h1 hc hr1
              obtain ⟨rfl, s2⟩ := buildChildren_spec toks rest c1' _ _ _ _ cf h2 s1.len hr2
              exact ⟨rfl, by rw [leavesL, MTree.leaves]; exact s1.append s2⟩
            · cases h
theorem buildItems_spec (toks : List LTok) : ∀ (cs : List PTree) (c n : Nat) (out : List STok) (c' : Nat)
    (ms : List MTree) (cf : Nat), buildItems toks cs c n = .ok (out, c', ms) → c ≤ toks.length →
    cursorRun toks (eventsI cs) c = some cf → cf = c' ∧ Spec toks c n out c' (leavesL ms)
  | [], c, n, out, c', ms, cf, h, hc, hr => by
    simp only [buildItems, Except.ok.injEq, Prod.mk.injEq] at h
    obtain ⟨rfl, rfl, rfl⟩ := h
    simp only [eventsI, cursorRun, Option.some.injEq] at hr
    exact ⟨hr.symm, Spec.nil hc⟩
  | .absent :: rest, c, n, out, c', ms, cf, h, hc, hr => by
    rw [buildItems] at h; cases h
  | .leaf i :: rest, c, n, out, c', ms, cf, h, hc, hr => by
    rw [buildItems] at h
    split at h
    · cases h
    · rename_i o1 c1 m h1
      split at h
      · rename_i o2 c2 fs2 h2
        simp only [Except.ok.injEq, Prod.mk.injEq] at h
        obtain ⟨rfl, rfl, rfl⟩ := h
        rw [eventsI, cursorRun] at hr
        split at hr
        · rename_i hci
          obtain ⟨rfl, s1⟩ := Spec.token h1 hci.1
          obtain ⟨rfl, s2⟩ := buildItems_spec toks rest (i + 1) _ _ _ _ cf h2 s1.len hr
          exact ⟨rfl, by rw [leavesL]; exact s1.append s2⟩
        · cases hr
      · cases h
  | .node r cs :: rest, c, n, out, c', ms, cf, h, hc, hr => by
    rw [buildItems] at h
    rw [eventsI] at hr
    split at h
    · rename_i hsk
      rw [if_pos hsk] at hr
      exact buildItems_spec toks rest c n _ _ _ cf h hc hr
    · rename_i hsk
      rw [if_neg hsk] at hr
      obtain ⟨c1', hr1, hr2⟩ := cursorRun_append_some hr
      split at h
      · cases h
      · rename_i o1 c1 fs1 h1
        split at h
        · rename_i o2 c2 fs2 h2
          simp only [Except.ok.injEq, Prod.mk.injEq] at h
          obtain ⟨rfl, rfl, rfl⟩ := h
          obtain ⟨rfl, s1⟩ := buildChildren_spec toks cs c n _ _ _ _ h1 hc hr1
          obtain ⟨rfl, s2⟩ := buildItems_spec toks rest c1' _ _ _ _ cf h2 s1.len hr2
          exact ⟨rfl, by rw [leavesL, MTree.leaves]; exact s1.append s2⟩
        · cases h
end

end Autobean.Lex
