/-
The fast path of `_splice`: when the block keeps a line break after the replaced range, the cached
size and last-newline index are adjusted incrementally instead of being recomputed.
-/
import Autobean.Proofs.StoreUpdate

set_option linter.unusedSimpArgs false
set_option linter.unusedVariables false

namespace Autobean

/-- The incremental cache update of the fast path gives the recomputed values. `P` is the kept
prefix, `Rm` the removed range, `S` the kept suffix (which contains a line break), `T` the
inserted tokens. -/
theorem fastpath_cache {P Rm S T : List Tok} {lni : Int} {size : Pos}
    (hsize : size = sizeOfToks (P ++ Rm ++ S)) (hlni : lni = lniFrom 0 (-1) (P ++ Rm ++ S))
    (hge : lni ≥ ((P ++ Rm).length : Int)) :
    (⟨((size.line : Int) + ((sumLines T : Int) - (sumLines Rm : Int))).toNat, size.col⟩ : Pos)
        = sizeOfToks (P ++ T ++ S) ∧
      lni + ((T.length : Int) - (((P ++ Rm).length : Int) - (P.length : Int)))
        = lniFrom 0 (-1) (P ++ T ++ S) := by
  simp only [List.length_append] at hge
  cases hS : lastNL S with
  | none =>
    exfalso
    cases hPR : lastNL (P ++ Rm) with
    | none => rw [lniFrom_of_none (by rw [lastNL_append_none _ hS]; exact hPR)] at hlni; omega
    | some i =>
      rw [lniFrom_of_some (by rw [lastNL_append_none _ hS]; exact hPR)] at hlni
      have := lastNL_lt hPR
      simp only [List.length_append] at this
      omega
  | some i =>
    rw [lniFrom_of_some (lastNL_append_some _ hS)] at hlni
    have hSl : (sizeOfToks S).line ≠ 0 := by
      rw [Ne, sizeOfToks_line_eq_zero_iff, hS]; simp
    constructor
    · apply Pos.ext'
      · simp only [hsize, sizeOfToks_append, Pos.add_line, sizeOfToks_line]
        omega
      · simp only [hsize, sizeOfToks_append, Pos.add_col, hSl, if_false]
    · rw [lniFrom_of_some (lastNL_append_some _ hS)]
      simp only [List.length_append] at hlni ⊢
      omega

/-- The block the fast path writes back. -/
def fastBlock (sid : Nat) (b : Block) (ts : List Tok) (sj ej : Nat) : Block :=
  { b with
    toks := b.toks.take sj ++ setHandlesFrom sid b.ref sj (ts ++ b.toks.drop ej),
    lni := b.lni + ((ts.length : Int) - ((ej : Int) - (sj : Int))),
    size := ⟨((b.size.line : Int) + ((sumLines ts : Int) -
      (sumLines ((b.toks.drop sj).take (ej - sj)) : Int))).toNat, b.size.col⟩ }

theorem split3 (l : List Tok) {sj ej : Nat} (hse : sj ≤ ej) (hej : ej ≤ l.length) :
    l = l.take sj ++ (l.drop sj).take (ej - sj) ++ l.drop ej := by
  have h1 : l.drop ej = (l.drop sj).drop (ej - sj) := by
    rw [List.drop_drop]; congr 1; omega
  rw [h1, List.append_assoc, List.take_append_drop, List.take_append_drop]

theorem fastBlock_strip (sid : Nat) (b : Block) (ts : List Tok) (sj ej : Nat) :
    (fastBlock sid b ts sj ej).toks.map Tok.strip = (b.toks.take sj ++ ts ++ b.toks.drop ej).map Tok.strip := by
  simp [fastBlock]

theorem fastBlock_bok {sid : Nat} {b : Block} (hb : BOK sid b) (ts : List Tok) {sj ej : Nat}
    (hse : sj ≤ ej) (hej : ej ≤ b.toks.length) (hlni : b.lni ≥ (ej : Int)) :
    BOK sid (fastBlock sid b ts sj ej) := by
  have hlen1 : (b.toks.take sj).length = sj := by simp; omega
  have hlen2 : (b.toks.take sj ++ (b.toks.drop sj).take (ej - sj)).length = ej := by
    simp; omega
  have h3 := split3 b.toks hse hej
  have hc := fastpath_cache (P := b.toks.take sj) (Rm := (b.toks.drop sj).take (ej - sj))
    (S := b.toks.drop ej) (T := ts) (lni := b.lni) (size := b.size)
    (by rw [← h3]; exact hb.size) (by rw [← h3]; exact hb.lni) (by rw [hlen2]; exact hlni)
  rw [hlen2, hlen1] at hc
  have hsz : (b.toks.take sj ++ setHandlesFrom sid b.ref sj (ts ++ b.toks.drop ej)).map (·.size)
      = (b.toks.take sj ++ ts ++ b.toks.drop ej).map (·.size) := by
    simp
  refine ⟨?_, ?_, ?_⟩
  · show setHandlesFrom sid b.ref 0 (b.toks.take sj ++ setHandlesFrom sid b.ref sj (ts ++ b.toks.drop ej))
      = b.toks.take sj ++ setHandlesFrom sid b.ref sj (ts ++ b.toks.drop ej)
    rw [setHandlesFrom_append, hok_take hb.hs, hlen1, Nat.zero_add, setHandlesFrom_idem]
  · show _ = sizeOfToks (b.toks.take sj ++ setHandlesFrom sid b.ref sj (ts ++ b.toks.drop ej))
    rw [sizeOfToks_congr hsz]; exact hc.1
  · show _ = lniFrom 0 (-1) (b.toks.take sj ++ setHandlesFrom sid b.ref sj (ts ++ b.toks.drop ej))
    rw [lniFrom_congr hsz]; exact hc.2

end Autobean
