/-
Extended-slice assignment `self[a:b:k] = values` (k ≠ 1): the loop `for i, value in zip(r, values)` performs,
for every index, the same delete-then-insert as `self[i:i+1] = [value]`, with the ONE
`separators_before_last` computed before the loop.
-/
import Autobean.Proofs.RepFold
import Autobean.Proofs.PyRange

namespace Autobean.Rep
open Autobean.Seq

theorem SblFor.congr {L : List Tk} {ph : Tk} {segs segs' : List Seg} {sbl : Option Nat}
    (h : SblFor L ph segs sbl) (hh : segs'.head? = segs.head?) : SblFor L ph segs' sbl := by
  intro first rest hfr
  rw [hfr] at hh
  cases segs with
  | nil => simp at hh
  | cons f r =>
    simp at hh
    subst hh
    exact h first r rfl

/-- One iteration of the loop, in decomposed form. -/
theorem extStep_region {c : Cfg} {st : St} {L R : List Tk} {ph : Tk} {pre post : List Seg} {sg : Seg}
    (v : List Tk) (sbl : Option Nat)
    (wf : RegionWF c st.store st.items L R ph (pre ++ [sg] ++ post))
    (hsbl : pre = [] → post ≠ [] → SblFor L ph ([sg] ++ post) sbl) :
    ∃ store1, delTokens c st.store st.items pre.length (pre.length + 1) = .ok store1 ∧
      insertTokens c store1 st.items st.ctr pre.length [v] (some (st.items.length - 1)) sbl
        = .ok (L ++ layout ph (setSegs c st.ctr pre [sg] post [v]) ++ R, setCtr c st.ctr pre [sg] post [v]) ∧
      st.items.set pre.length (spanOf v) = spans (setSegs c st.ctr pre [sg] post [v]) := by
  have hdel := delTokens_region wf
  rw [deleteSegs_eq] at hdel
  have hins := insertAfterDelete [v] sbl wf (fun hp hq _ => hsbl hp hq)
  have harith : st.items.length - (pre.length + [sg].length - pre.length) = st.items.length - 1 := by
    simp
  rw [harith] at hins
  refine ⟨_, hdel, hins, ?_⟩
  rw [setSegs_spans, wf.items_eq]
  simp [spans]

/-- `items[i] = v` for every pair, in order. -/
def setMany {α} : List α → List (Nat × α) → List α
  | l, [] => l
  | l, (i, v) :: rest => setMany (l.set i v) rest

/-- The loop keeps the region well-formed inside the same frame `L … R`; the item count is unchanged; the item
token lists are the Python result (`items[i] = v` for each pair, all other items untouched); every gap is an
old gap or a copy of the declared separators. -/
theorem setExtLoop_inv {c : Cfg} {L R : List Tk} {ph : Tk} (sbl : Option Nat) :
    ∀ (pairs : List (Nat × List Tk)) (st : St) (segs : List Seg),
      RegionWF c st.store st.items L R ph segs → CtrOK st.store st.ctr →
      (∀ p ∈ pairs, p.1 < segs.length) → (pairs.map (·.1)).Nodup →
      ValsOK st.store st.ctr (pairs.map (·.2)) →
      (0 ∈ pairs.map (·.1) → 1 < segs.length → SblFor L ph segs sbl) →
      ∃ st' segs', setExtLoop c sbl st pairs = .ok st' ∧
        RegionWF c st'.store st'.items L R ph segs' ∧ CtrOK st'.store st'.ctr ∧
        segs'.length = segs.length ∧ itemsOf segs' = setMany (itemsOf segs) pairs ∧ GapsFrom c segs segs' := by
  intro pairs
  induction pairs with
  | nil =>
    intro st segs wf hc _ _ _ _
    exact ⟨st, segs, rfl, wf, hc, rfl, rfl, GapsFrom.refl c segs⟩
  | cons p rest ih =>
    intro st segs wf hc hidx hnd hv hsbl
    obtain ⟨i, v⟩ := p
    have hi : i < segs.length := hidx (i, v) (by simp)
    have hsegs := split_at segs hi
    have hlen : i = (segs.take i).length := by rw [List.length_take]; omega
    -- abbreviations
    generalize hpre : segs.take i = pre at hsegs hlen
    generalize hpost : segs.drop (i + 1) = post at hsegs
    generalize hsg : segs[i] = sg at hsegs
    clear hpre hpost hsg
    subst hlen
    have wf' : RegionWF c st.store st.items L R ph (pre ++ [sg] ++ post) := by rw [← hsegs]; exact wf
    have hsbl' : pre = [] → post ≠ [] → SblFor L ph ([sg] ++ post) sbl := by
      intro hp hq
      have hi0 : pre.length = 0 := by rw [hp]; rfl
      have h1 : 1 < segs.length := by
        rw [hsegs, hp]; cases post with
        | nil => exact absurd rfl hq
        | cons a b => simp
      have := hsbl (by simp [hi0]) h1
      rw [hsegs, hp] at this
      simpa using this
    obtain ⟨store1, hdel, hins, hit⟩ := extStep_region v sbl wf' hsbl'
    -- the new state
    let segs1 := setSegs c st.ctr pre [sg] post [v]
    let st1 : St := ⟨L ++ layout ph segs1 ++ R, st.items.set pre.length (spanOf v), setCtr c st.ctr pre [sg] post [v]⟩
    have hstep : setExtLoop c sbl st ((pre.length, v) :: rest) = setExtLoop c sbl st1 rest := by
      simp only [setExtLoop]
      rw [hdel]
      simp only
      rw [hins]
    -- invariants of the new state
    have hs := wf'.store_eq
    have wfD := wf'.delete
    rw [deleteSegs_eq] at wfD
    have hcD : CtrOK (L ++ layout ph (pre ++ postAfter pre [sg] post) ++ R) st.ctr := by
      have := hc; rw [hs] at this; have := this.delete; rwa [deleteSegs_eq] at this
    have hv1 : ValsOK st.store st.ctr [v] := by
      refine ⟨⟨?_, ?_⟩, ?_, ?_⟩
      · have := hv.batch.distinct; simp at this; simpa using this.append_left
      · intro t ht; exact hv.batch.lt t (by simp at ht ⊢; exact Or.inl ht)
      · intro t ht s hs'; exact hv.new t (by simp at ht ⊢; exact Or.inl ht) s hs'
      · intro w hw; simp at hw; subst hw; exact hv.nonempty w (by simp)
    have hvD : ValsOK (L ++ layout ph (pre ++ postAfter pre [sg] post) ++ R) st.ctr [v] := by
      have := hv1; rw [hs] at this; have := this.delete; rwa [deleteSegs_eq] at this
    obtain ⟨w1, hc1⟩ := wfD.insert hcD hvD
    have hitems1 : st1.items = spans segs1 := by
      exact hit
    have wf1 : RegionWF c st1.store st1.items L R ph segs1 := by
      rw [hitems1]; exact w1
    have hlen1 : segs1.length = segs.length := by
      have h1 : (spans segs1).length = (spans (pre ++ [sg] ++ post)).length := by
        rw [setSegs_spans]; simp [spans]
      rw [spans_length, spans_length] at h1
      rw [h1, hsegs]
    -- the remaining batch is still new
    have hge : st.ctr ≤ st1.ctr := insertCtr_ge c st.ctr pre (postAfter pre [sg] post) [v]
    have hvrest : ValsOK st1.store st1.ctr (rest.map (·.2)) := by
      have hb := hv.batch
      simp only [List.map_cons] at hb
      obtain ⟨_, _, hdis⟩ := hb.head
      refine ⟨⟨hb.tail.distinct, fun t ht => Nat.lt_of_lt_of_le (hb.tail.lt t ht) hge⟩, ?_, ?_⟩
      · intro t ht s hs1
        have hmem := mem_insert_store (c := c) (L := L) (R := R) (ph := ph) pre (postAfter pre [sg] post)
          hvD.batch hs1
        rcases hmem with h | h | h
        · have : s ∈ st.store := by
            rw [hs]
            have := mem_of_mem_delete (L := L) (R := R) (ph := ph) (pre := pre) (mid := [sg]) (post := post)
              (by rw [deleteSegs_eq]; exact h)
            exact this
          exact hv.new t (by simp at ht ⊢; exact Or.inr ht) s this
        · simp at h
          exact fun e => hdis s h t ht e.symm
        · have := hb.tail.lt t ht; omega
      · intro w hw; exact hv.nonempty w (by simp at hw ⊢; exact Or.inr hw)
    -- separators_before_last stays valid while index 0 is still to come
    have hsbl1 : 0 ∈ rest.map (·.1) → 1 < segs1.length → SblFor L ph segs1 sbl := by
      intro h0 h1
      have hi0 : pre.length ≠ 0 := by
        intro e
        have hnd' := hnd
        simp only [List.map_cons, List.nodup_cons] at hnd'
        exact hnd'.1 (by rw [e]; exact h0)
      have hpne : pre ≠ [] := by
        intro e; rw [e] at hi0; exact hi0 rfl
      have h0' : 0 ∈ ((pre.length, v) :: rest).map (·.1) := by simp; exact Or.inr (by simpa using h0)
      have := hsbl h0' (by rw [← hlen1]; exact h1)
      refine this.congr ?_
      cases hp : pre with
      | nil => exact absurd hp hpne
      | cons sg0 pre' =>
        show (setSegs c st.ctr pre [sg] post [v]).head? = segs.head?
        rw [hsegs, hp]
        rfl
    have hidx1 : ∀ p ∈ rest, p.1 < segs1.length := by
      intro p hp; rw [hlen1]; exact hidx p (by simp [hp])
    have hnd1 : (rest.map (·.1)).Nodup := by
      simp only [List.map_cons, List.nodup_cons] at hnd; exact hnd.2
    obtain ⟨st', segs', h1, h2, h3, h4, h5, h6⟩ := ih st1 segs1 wf1 hc1 hidx1 hnd1 hvrest hsbl1
    have hit1 : itemsOf segs1 = (itemsOf segs).set pre.length v := by
      show itemsOf (setSegs c st.ctr pre [sg] post [v]) = _
      rw [setSegs_items, hsegs]
      simp [itemsOf]
    have hg1 : GapsFrom c segs segs1 := by
      have := setSegs_gapsFrom c st.ctr pre [sg] post [v]
      rw [← hsegs] at this
      exact this
    exact ⟨st', segs', by rw [hstep]; exact h1, h2, h3, by rw [h4, hlen1],
      by rw [h5, hit1]; rfl, hg1.trans h6⟩

/-- `self[a:b:k] = values` with `k ≠ 1`: a size mismatch is refused before anything is touched. -/
theorem setSlice_ext_size {c : Cfg} {st : St} {L R : List Tk} {ph : Tk} {segs : List Seg}
    (start stop step : Option Int) (vs : List (List Tk)) {s e k : Int}
    (wf : RegionWF c st.store st.items L R ph segs)
    (hs : sliceIndices start stop step st.items.length = .ok (s, e, k)) (hk : k ≠ 1)
    (hlen : (rangeElems s e k).length ≠ vs.length) :
    setSlice c st start stop step vs = .error "ValueError:size" := by
  obtain ⟨sbl, hsbl⟩ := sepsBeforeLast_total wf
  unfold setSlice
  simp only
  rw [hs]
  simp only
  rw [hsbl]
  have hk' : ¬ (k = 1 ∧ e < s) := fun h => hk h.1
  simp only [hk, hk', ↓reduceIte, and_false, false_and]
  simp [hlen]

/-- `self[a:b:k] = values` with `k ≠ 1` and matching sizes. -/
theorem setSlice_ext_region {c : Cfg} {st : St} {L R : List Tk} {ph : Tk} {segs : List Seg}
    (start stop step : Option Int) (vs : List (List Tk)) {s e k : Int}
    (wf : RegionWF c st.store st.items L R ph segs) (hc : CtrOK st.store st.ctr)
    (hs : sliceIndices start stop step st.items.length = .ok (s, e, k)) (hk : k ≠ 1)
    (hlen : (rangeElems s e k).length = vs.length)
    (hv : ValsOK st.store st.ctr vs) :
    ∃ st' segs', setSlice c st start stop step vs = .ok st' ∧
      RegionWF c st'.store st'.items L R ph segs' ∧ CtrOK st'.store st'.ctr ∧
      segs'.length = segs.length ∧
      itemsOf segs' = setMany (itemsOf segs) ((rangeElems s e k).zip vs) ∧ GapsFrom c segs segs' := by
  obtain ⟨sbl, hsbl⟩ := sepsBeforeLast_total wf
  have hsf := sblFor_of_sepsBeforeLast wf hsbl
  have hn : st.items.length = segs.length := by rw [wf.items_eq]; simp
  have hr : ∀ i ∈ rangeElems s e k, i < segs.length := by rw [← hn]; exact rangeElems_lt hs
  have hnd : (rangeElems s e k).Nodup := rangeElems_nodup hs
  have hfst : ((rangeElems s e k).zip vs).map (·.1) = rangeElems s e k := by
    rw [List.map_fst_zip]; omega
  have hsnd : ((rangeElems s e k).zip vs).map (·.2) = vs := by
    rw [List.map_snd_zip]; omega
  obtain ⟨st', segs', h1, h2, h3, h4, h5, h6⟩ := setExtLoop_inv (c := c) (L := L) (R := R) (ph := ph) sbl
    ((rangeElems s e k).zip vs) st segs wf hc
    (fun p hp => hr p.1 (by rw [← hfst]; exact List.mem_map_of_mem hp))
    (by rw [hfst]; exact hnd) (by rw [hsnd]; exact hv) (fun _ _ => hsf)
  refine ⟨st', segs', ?_, h2, h3, h4, h5, h6⟩
  unfold setSlice
  simp only
  rw [hs]
  simp only
  rw [hsbl]
  have hk' : ¬ (k = 1 ∧ e < s) := fun h => hk h.1
  simp only [hk, hk', ↓reduceIte, and_false, false_and]
  simp [hlen, h1]

end Autobean.Rep
