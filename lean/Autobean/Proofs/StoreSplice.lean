/-
`_splice`: the same-block paths (fast path and `_update_block`) and the multi-block path.
-/
import Autobean.Proofs.StoreFast

set_option linter.unusedSimpArgs false
set_option linter.unusedVariables false

namespace Autobean

/-- The "already in a store" loop accepts detached tokens. -/
theorem accept_loop_fresh (s : Store) (start stop : Nat × Nat) (ts : List Tok) (h : ∀ t ∈ ts, t.h = none) :
    (forIn ts PUnit.unit (fun t (_ : PUnit) => (do
          let r ← spliceAccepts s start stop t
          if (!r) = true then do
              throw "ValueError:already-in-store"
              pure (ForInStep.yield PUnit.unit)
            else pure (ForInStep.yield PUnit.unit) : R (ForInStep PUnit)))) = pure PUnit.unit := by
  induction ts with
  | nil => rfl
  | cons t ts ih =>
    simp only [List.mem_cons, forall_eq_or_imp] at h
    rw [List.forIn_cons]
    simp only [spliceAccepts, h.1]
    simp only [pure_bind, Bool.not_true, Bool.false_eq_true, if_false]
    exact ih h.2

theorem spliceCore_same_eq (c : LF) {s : Store} {L R : List Block} {b : Block}
    (hs : s.blocks = L ++ b :: R) {sj ej : Nat} (hse : sj ≤ ej) (hej : ej ≤ b.toks.length)
    {ts : List Tok} (hd : ∀ t ∈ ts, t.h = none) :
    spliceCore c s ts (L.length, sj) (L.length, ej) =
      if (b.toks.take sj ++ ts ++ b.toks.drop ej).length < c.dbl ∧
          ((b.toks.take sj ++ ts ++ b.toks.drop ej).length > c.half ∨ s.blocks.length = 1) ∧
          b.lni ≥ (ej : Int) then
        .ok { store := { s with blocks := L ++ fastBlock s.sid b ts sj ej :: R,
                                len := ((s.len : Int) + ((ts.length : Int) - ((ej : Int) - (sj : Int)))).toNat },
              removed := ((b.toks.drop sj).take (ej - sj)).map Tok.strip }
      else
        (updateBlock c { s with blocks := L ++ { b with toks := b.toks.take sj ++ ts ++ b.toks.drop ej } :: R }
            L.length) >>= fun s' =>
          .ok { store := { s' with len := ((s.len : Int) + ((ts.length : Int) - ((ej : Int) - (sj : Int)))).toNat },
                removed := ((b.toks.drop sj).take (ej - sj)).map Tok.strip } := by
  unfold spliceCore
  simp only []
  rw [accept_loop_fresh s _ _ ts hd]
  simp only [pure_bind, ↓reduceIte]
  rw [hs, getBlock_mid]
  simp only [bind, Except.bind]
  rw [if_neg (Nat.not_lt.2 hej)]
  have hmax : max sj ej = ej := Nat.max_eq_right hse
  simp only [hmax, setAt_mid]
  have hl : (b.toks.take sj).length = sj := by simp; omega
  have e1 : List.take sj (List.take sj b.toks ++ ts ++ List.drop ej b.toks) = List.take sj b.toks := by
    rw [List.append_assoc, List.take_left' hl]
  have e2 : List.drop sj (List.take sj b.toks ++ ts ++ List.drop ej b.toks) = ts ++ List.drop ej b.toks := by
    rw [List.append_assoc, List.drop_left' hl]
  rw [e1, e2]
  rfl

/-! ### Invariant plumbing -/

theorem nodup_splice {α} {X Y Z T : List α} (h : (X ++ Y ++ Z).Nodup) (hT : T.Nodup)
    (hd : ∀ a ∈ T, a ∉ X ++ Y ++ Z) : (X ++ T ++ Z).Nodup := by
  simp only [List.nodup_append, List.mem_append, not_or] at h hd ⊢
  refine ⟨⟨h.1.1, hT, ?_⟩, h.2.1, ?_⟩
  · intro a ha b hb e; subst e; exact (hd _ hb).1.1 ha
  · intro a ha b hb e; subst e
    rcases ha with ha | ha
    · exact h.2.2 a (Or.inl ha) a hb rfl
    · exact (hd _ ha).2 hb

/-- From the block-list invariant and the token sequence (up to handles) to the full invariant. -/
theorem inv_of_binv_strip {s' : Store} {l : List Tok} (hb : BInv s'.sid s'.nextRef s'.blocks)
    (hstrip : s'.toList.map Tok.strip = l.map Tok.strip) (hnodup : (l.map (·.id)).Nodup)
    (hsz : ∀ t ∈ l, t.size = tokSize t.text) (hlen : s'.len = l.length) : Inv s' where
  binv := hb
  idsNodup := by
    show (s'.toList.map (·.id)).Nodup
    rw [map_id_of_strip hstrip]; exact hnodup
  tokSize := forall_of_strip hstrip (fun t => t.size = tokSize t.text) (fun t => Iff.rfl) hsz
  len := by rw [hlen, length_of_strip hstrip]

/-- Replace the block at position `L.length` by another consistent block object with the same
identity and stored index. -/
theorem binv_replace_mid {sid n : Nat} {L R : List Block} {b b' : Block} (h : BInv sid n (L ++ b :: R))
    (hidx : b'.idx = b.idx) (href : b'.ref = b.ref) (hbok : BOK sid b')
    (hne : L ++ R ≠ [] → b'.toks ≠ []) : BInv sid n (L ++ b' :: R) where
  nonempty := by simp
  noEmpty := by
    intro hlen x hx
    have hlen' : 1 < (L ++ b :: R).length := by simpa using hlen
    simp only [List.mem_append, List.mem_cons] at hx
    rcases hx with hx | rfl | hx
    · exact h.noEmpty hlen' x (by simp [hx])
    · apply hne
      intro e
      have h1 : L = [] ∧ R = [] := by simpa using e
      rw [h1.1, h1.2] at hlen; simp at hlen
    · exact h.noEmpty hlen' x (by simp [hx])
  idx := by
    have := h.idx
    rw [idxFrom_append, idxFrom_cons] at this ⊢
    rw [hidx]; exact this
  refsNodup := by
    have := h.refsNodup
    simpa [href] using this
  refsLt := by
    intro x hx
    simp only [List.mem_append, List.mem_cons] at hx
    rcases hx with hx | rfl | hx
    · exact h.refsLt x (by simp [hx])
    · rw [href]; exact h.refsLt b (by simp)
    · exact h.refsLt x (by simp [hx])
  bok := by
    intro x hx
    simp only [List.mem_append, List.mem_cons] at hx
    rcases hx with hx | rfl | hx
    · exact h.bok x (by simp [hx])
    · exact hbok
    · exact h.bok x (by simp [hx])

/-- Overwriting the token list of the block at `L.length` leaves a store that is in order except there. -/
theorem dirty_of_binv {sid n : Nat} {L R : List Block} {b b' : Block} (h : BInv sid n (L ++ b :: R))
    (hidx : b'.idx = b.idx) (href : b'.ref = b.ref) : Dirty sid n L b' R where
  idx := by
    have := h.idx
    rw [idxFrom_append, idxFrom_cons] at this ⊢
    rw [hidx]; exact this
  refsNodup := by
    have := h.refsNodup
    simpa [href] using this
  refsLt := by
    intro x hx
    simp only [List.mem_append, List.mem_cons] at hx
    rcases hx with hx | rfl | hx
    · exact h.refsLt x (by simp [hx])
    · rw [href]; exact h.refsLt b (by simp)
    · exact h.refsLt x (by simp [hx])
  bok := by
    intro x hx
    simp only [List.mem_append] at hx
    rcases hx with hx | hx
    · exact h.bok x (by simp [hx])
    · exact h.bok x (by simp [hx])
  ne := by
    intro x hx
    have hlen : 1 < (L ++ b :: R).length := by
      simp only [List.mem_append] at hx
      rcases hx with hx | hx
      · have := List.length_pos_of_mem hx; simp; omega
      · have := List.length_pos_of_mem hx; simp; omega
    simp only [List.mem_append] at hx
    rcases hx with hx | hx
    · exact h.noEmpty hlen x (by simp [hx])
    · exact h.noEmpty hlen x (by simp [hx])

/-! ### Same-block splice -/

theorem spliceCore_same {c : LF} (hc : c.WF) {s : Store} (hinv : Inv s) {L R : List Block} {b : Block}
    (hs : s.blocks = L ++ b :: R) {sj ej : Nat} (hse : sj ≤ ej) (hej : ej ≤ b.toks.length)
    {ts : List Tok} (hf : Fresh s ts) :
    ∃ out, spliceCore c s ts (L.length, sj) (L.length, ej) = .ok out ∧ Inv out.store ∧
      out.store.sid = s.sid ∧
      out.store.toList.map Tok.strip =
        ((L.flatMap (·.toks) ++ b.toks.take sj) ++ ts ++ (b.toks.drop ej ++ R.flatMap (·.toks))).map Tok.strip ∧
      out.removed = ((b.toks.drop sj).take (ej - sj)).map Tok.strip := by
  have hbinv := hinv.binv
  rw [hs] at hbinv
  have htl : s.toList = (L.flatMap (·.toks) ++ b.toks.take sj) ++ (b.toks.drop sj).take (ej - sj) ++
      (b.toks.drop ej ++ R.flatMap (·.toks)) := by
    simp only [Store.toList, hs, List.flatMap_append, List.flatMap_cons]
    conv => lhs; rw [split3 b.toks hse hej]
    simp only [List.append_assoc]
  have hnodup : (((L.flatMap (·.toks) ++ b.toks.take sj) ++ ts ++ (b.toks.drop ej ++ R.flatMap (·.toks))).map (·.id)).Nodup := by
    have h1 := hinv.idsNodup
    simp only [Store.ids, htl, List.map_append] at h1
    simp only [List.map_append]
    apply nodup_splice h1 hf.nodup
    intro a ha
    obtain ⟨t, ht, rfl⟩ := List.mem_map.1 ha
    have := hf.disjoint t ht
    simpa only [Store.ids, htl, List.map_append] using this
  have hsz : ∀ t ∈ (L.flatMap (·.toks) ++ b.toks.take sj) ++ ts ++ (b.toks.drop ej ++ R.flatMap (·.toks)),
      t.size = tokSize t.text := by
    intro t ht
    simp only [List.mem_append] at ht
    rcases ht with (ht | ht) | ht
    · exact hinv.tokSize t (by rw [htl]; simp only [List.mem_append]; exact Or.inl (Or.inl ht))
    · exact hf.sized t ht
    · exact hinv.tokSize t (by rw [htl]; simp only [List.mem_append]; exact Or.inr ht)
  have hlen : ((s.len : Int) + ((ts.length : Int) - ((ej : Int) - (sj : Int)))).toNat =
      ((L.flatMap (·.toks) ++ b.toks.take sj) ++ ts ++ (b.toks.drop ej ++ R.flatMap (·.toks))).length := by
    rw [hinv.len, htl]
    simp only [List.length_append, List.length_take, List.length_drop]
    omega
  rw [spliceCore_same_eq c hs hse hej hf.detached]
  split
  next hcond =>
    refine ⟨_, rfl, ?_, rfl, ?_, rfl⟩
    · apply inv_of_binv_strip (l := (L.flatMap (·.toks) ++ b.toks.take sj) ++ ts ++ (b.toks.drop ej ++ R.flatMap (·.toks)))
      · show BInv s.sid s.nextRef (L ++ fastBlock s.sid b ts sj ej :: R)
        apply binv_replace_mid (b' := fastBlock s.sid b ts sj ej) hbinv rfl rfl
          (fastBlock_bok (hbinv.bok b (by simp)) ts hse hej hcond.2.2)
        intro hLR
        have h1 : (L ++ b :: R).length ≠ 1 := by
          intro e
          apply hLR
          have : L.length + (R.length + 1) = 1 := by simpa using e
          have hL : L = [] := List.eq_nil_of_length_eq_zero (by omega)
          have hR : R = [] := List.eq_nil_of_length_eq_zero (by omega)
          simp [hL, hR]
        rw [hs] at hcond
        have h2 := hcond.2.1.resolve_right h1
        intro e
        have h3 := congrArg List.length (congrArg (List.map Tok.strip) e)
        rw [fastBlock_strip] at h3
        simp only [List.length_map, List.map_nil, List.length_nil] at h3
        omega
      · simp only [Store.toList, List.flatMap_append, List.flatMap_cons, List.map_append, fastBlock_strip]
        simp only [List.append_assoc]
      · exact hnodup
      · exact hsz
      · exact hlen
    · simp only [Store.toList, List.flatMap_append, List.flatMap_cons, List.map_append, fastBlock_strip]
      simp only [List.append_assoc]
  next hcond =>
    obtain ⟨s', r1, r2, r3, r4, r5, r6⟩ := updateBlock_spec hc
      (s := { s with blocks := L ++ { b with toks := b.toks.take sj ++ ts ++ b.toks.drop ej } :: R })
      rfl (dirty_of_binv hbinv rfl rfl)
    rw [r1]
    have hstrip : s'.toList.map Tok.strip =
        ((L.flatMap (·.toks) ++ b.toks.take sj) ++ ts ++ (b.toks.drop ej ++ R.flatMap (·.toks))).map Tok.strip := by
      rw [r6]
      simp only [Store.toList, List.flatMap_append, List.flatMap_cons, List.map_append, List.append_assoc]
    refine ⟨_, rfl, ?_, r2, hstrip, rfl⟩
    apply inv_of_binv_strip (l := (L.flatMap (·.toks) ++ b.toks.take sj) ++ ts ++ (b.toks.drop ej ++ R.flatMap (·.toks)))
    · show BInv s'.sid s'.nextRef s'.blocks
      rw [r2]; exact r5
    · exact hstrip
    · exact hnodup
    · exact hsz
    · exact hlen

/-! ### Multi-block splice -/

theorem getElem?_two (L M R : List Block) (sb eb : Block) :
    (L ++ sb :: (M ++ eb :: R))[L.length + 1 + M.length]? = some eb := by
  have e : L ++ sb :: (M ++ eb :: R) = (L ++ sb :: M) ++ eb :: R := by simp
  have l : L.length + 1 + M.length = (L ++ sb :: M).length := by simp; omega
  rw [e, l]; simp

theorem drop_two (L M R : List Block) (sb eb : Block) :
    (L ++ sb :: (M ++ eb :: R)).drop (L.length + 1 + M.length + 1) = R := by
  have e : L ++ sb :: (M ++ eb :: R) = (L ++ sb :: M ++ [eb]) ++ R := by simp
  have l : L.length + 1 + M.length + 1 = (L ++ sb :: M ++ [eb]).length := by simp; omega
  rw [e, l, List.drop_left']; rfl

theorem middle_two (L M R : List Block) (sb eb : Block) :
    ((L ++ sb :: (M ++ eb :: R)).drop (L.length + 1)).take (L.length + 1 + M.length - L.length - 1) = M := by
  have e : L ++ sb :: (M ++ eb :: R) = (L ++ [sb]) ++ (M ++ eb :: R) := by simp
  have l : L.length + 1 = (L ++ [sb]).length := by simp
  have l2 : L.length + 1 + M.length - L.length - 1 = M.length := by omega
  rw [l2, e, l, List.drop_left', List.take_left']
  all_goals rfl

theorem spliceCore_multi_eq (c : LF) {s : Store} {L M R : List Block} {sb eb : Block}
    (hs : s.blocks = L ++ sb :: (M ++ eb :: R)) {sj ej : Nat} (hej : ej ≤ eb.toks.length)
    {ts : List Tok} (hd : ∀ t ∈ ts, t.h = none) :
    spliceCore c s ts (L.length, sj) (L.length + 1 + M.length, ej) =
      (updateBlock c { s with
          blocks := L ++ { ref := s.nextRef, idx := L.length, toks := sb.toks.take sj ++ ts ++ eb.toks.drop ej,
                           size := Pos.zero, lni := -1 } :: reindexFrom (L.length + 1) (L.length + 1) R,
          nextRef := s.nextRef + 1 } L.length) >>= fun s2 =>
        .ok { store := { s2 with len := ((s.len : Int) + ((ts.length : Int) -
                  ((sb.toks.drop sj ++ M.flatMap (·.toks) ++ eb.toks.take ej).length : Int))).toNat },
              removed := (sb.toks.drop sj ++ M.flatMap (·.toks) ++ eb.toks.take ej).map Tok.strip } := by
  unfold spliceCore
  simp only []
  rw [accept_loop_fresh s _ _ ts hd]
  simp only [pure_bind]
  rw [if_neg (by omega), hs, getBlock_mid, getBlock_of (getElem?_two L M R sb eb)]
  simp only [bind, Except.bind]
  rw [if_neg (by omega), if_neg (Nat.not_lt.2 hej)]
  rw [drop_two, middle_two, List.take_left' rfl]
  rw [reindexFrom_split (by simp)]
  simp only [List.length_append, List.length_cons, List.length_nil, List.append_assoc, List.cons_append, List.nil_append]
  rfl

theorem spliceCore_multi {c : LF} (hc : c.WF) {s : Store} (hinv : Inv s) {L M R : List Block} {sb eb : Block}
    (hs : s.blocks = L ++ sb :: (M ++ eb :: R)) {sj ej : Nat} (hej : ej ≤ eb.toks.length)
    {ts : List Tok} (hf : Fresh s ts) :
    ∃ out, spliceCore c s ts (L.length, sj) (L.length + 1 + M.length, ej) = .ok out ∧ Inv out.store ∧
      out.store.sid = s.sid ∧
      out.store.toList.map Tok.strip =
        ((L.flatMap (·.toks) ++ sb.toks.take sj) ++ ts ++ (eb.toks.drop ej ++ R.flatMap (·.toks))).map Tok.strip ∧
      out.removed = (sb.toks.drop sj ++ M.flatMap (·.toks) ++ eb.toks.take ej).map Tok.strip := by
  have hbinv := hinv.binv
  rw [hs] at hbinv
  have htl : s.toList = (L.flatMap (·.toks) ++ sb.toks.take sj) ++
      (sb.toks.drop sj ++ M.flatMap (·.toks) ++ eb.toks.take ej) ++
      (eb.toks.drop ej ++ R.flatMap (·.toks)) := by
    simp only [Store.toList, hs, List.flatMap_append, List.flatMap_cons]
    conv => lhs; rw [← List.take_append_drop sj sb.toks, ← List.take_append_drop ej eb.toks]
    simp only [List.append_assoc]
  have hnodup : (((L.flatMap (·.toks) ++ sb.toks.take sj) ++ ts ++ (eb.toks.drop ej ++ R.flatMap (·.toks))).map (·.id)).Nodup := by
    have h1 := hinv.idsNodup
    simp only [Store.ids, htl, List.map_append] at h1
    simp only [List.map_append]
    apply nodup_splice (Y := List.map (fun x => x.id) (List.drop sj sb.toks) ++ List.map (fun x => x.id) (M.flatMap (·.toks)) ++
      List.map (fun x => x.id) (List.take ej eb.toks)) h1 hf.nodup
    intro a ha
    obtain ⟨t, ht, rfl⟩ := List.mem_map.1 ha
    have := hf.disjoint t ht
    simpa only [Store.ids, htl, List.map_append] using this
  have hsz : ∀ t ∈ (L.flatMap (·.toks) ++ sb.toks.take sj) ++ ts ++ (eb.toks.drop ej ++ R.flatMap (·.toks)),
      t.size = tokSize t.text := by
    intro t ht
    simp only [List.mem_append] at ht
    rcases ht with (ht | ht) | ht
    · exact hinv.tokSize t (by rw [htl]; simp only [List.mem_append]; exact Or.inl (Or.inl ht))
    · exact hf.sized t ht
    · exact hinv.tokSize t (by rw [htl]; simp only [List.mem_append]; exact Or.inr ht)
  have hlen : ((s.len : Int) + ((ts.length : Int) -
        ((sb.toks.drop sj ++ M.flatMap (·.toks) ++ eb.toks.take ej).length : Int))).toNat =
      ((L.flatMap (·.toks) ++ sb.toks.take sj) ++ ts ++ (eb.toks.drop ej ++ R.flatMap (·.toks))).length := by
    rw [hinv.len, htl]
    simp only [List.length_append, List.length_take, List.length_drop]
    omega
  rw [spliceCore_multi_eq c hs hej hf.detached]
  have hdirty : Dirty s.sid (s.nextRef + 1) L
      { ref := s.nextRef, idx := L.length, toks := sb.toks.take sj ++ ts ++ eb.toks.drop ej,
        size := Pos.zero, lni := -1 } (reindexFrom (L.length + 1) (L.length + 1) R) := by
    have hidx := hbinv.idx
    rw [idxFrom_append] at hidx
    have hrefs := hbinv.refsNodup
    have hlen2 : 1 < (L ++ sb :: (M ++ eb :: R)).length := by simp; omega
    refine ⟨?_, ?_, ?_, ?_, ?_⟩
    · rw [idxFrom_append, idxFrom_cons]
      exact ⟨hidx.1, by simp, by simpa using idxFrom_reindexFrom R (Nat.le_refl _)⟩
    · simp only [List.map_append, List.map_cons, reindexFrom_map_ref]
      have hsub : (L.map (·.ref) ++ R.map (·.ref)).Nodup := by
        refine hrefs.sublist ?_
        simp only [List.map_append, List.map_cons]
        apply List.Sublist.append_left
        apply List.Sublist.cons
        exact List.Sublist.trans (List.sublist_cons_self _ _) (List.sublist_append_right _ _)
      simp only [List.nodup_append, List.nodup_cons, List.mem_append, List.mem_cons] at hsub ⊢
      refine ⟨hsub.1, ⟨?_, hsub.2.1⟩, ?_⟩
      · intro hm
        obtain ⟨x, hx, e⟩ := List.mem_map.1 hm
        have := hbinv.refsLt x (by simp [hx]); omega
      · intro a ha b hb
        rcases hb with rfl | hb
        · obtain ⟨x, hx, e⟩ := List.mem_map.1 ha
          have := hbinv.refsLt x (by simp [hx]); omega
        · exact hsub.2.2 a ha b hb
    · intro x hx
      simp only [List.mem_append, List.mem_cons] at hx
      rcases hx with hx | rfl | hx
      · have := hbinv.refsLt x (by simp [hx]); omega
      · simp
      · obtain ⟨y, hy, k, rfl⟩ := mem_reindexFrom hx
        have := hbinv.refsLt y (by simp [hy])
        show y.ref < s.nextRef + 1
        omega
    · intro x hx
      simp only [List.mem_append] at hx
      rcases hx with hx | hx
      · exact hbinv.bok x (by simp [hx])
      · obtain ⟨y, hy, k, rfl⟩ := mem_reindexFrom hx
        exact (bok_idx_irrel k).2 (hbinv.bok y (by simp [hy]))
    · intro x hx
      simp only [List.mem_append] at hx
      rcases hx with hx | hx
      · exact hbinv.noEmpty hlen2 x (by simp [hx])
      · obtain ⟨y, hy, k, rfl⟩ := mem_reindexFrom hx
        exact hbinv.noEmpty hlen2 y (by simp [hy])
  obtain ⟨s', r1, r2, r3, r4, r5, r6⟩ := updateBlock_spec hc
    (s := { s with
          blocks := L ++ { ref := s.nextRef, idx := L.length, toks := sb.toks.take sj ++ ts ++ eb.toks.drop ej,
                           size := Pos.zero, lni := -1 } :: reindexFrom (L.length + 1) (L.length + 1) R,
          nextRef := s.nextRef + 1 })
    rfl hdirty
  rw [r1]
  have hstrip : s'.toList.map Tok.strip =
      ((L.flatMap (·.toks) ++ sb.toks.take sj) ++ ts ++ (eb.toks.drop ej ++ R.flatMap (·.toks))).map Tok.strip := by
    rw [r6]
    simp only [Store.toList, List.flatMap_append, List.flatMap_cons, List.map_append, List.append_assoc,
      reindexFrom_flatMap_toks]
  refine ⟨_, rfl, ?_, r2, hstrip, rfl⟩
  apply inv_of_binv_strip (l := (L.flatMap (·.toks) ++ sb.toks.take sj) ++ ts ++ (eb.toks.drop ej ++ R.flatMap (·.toks)))
  · show BInv s'.sid s'.nextRef s'.blocks
    rw [r2]; exact r5
  · exact hstrip
  · exact hnodup
  · exact hsz
  · exact hlen

end Autobean
