import Autobean.Model.Cost
/-
Lemmas about the unordered component list: what `ufind` / `cnt` say after `uset` / `urepl`.
-/
namespace Autobean.Cost

@[simp] theorem cnt_nil (k : Kind) : cnt k [] = 0 := rfl

theorem cnt_cons (k : Kind) (x : Comp) (l : List Comp) :
    cnt k (x :: l) = cnt k l + (if x.kind = k then 1 else 0) := by
  simp [cnt, List.countP_cons]

theorem cnt_append (k : Kind) (l : List Comp) (x : Comp) :
    cnt k (l ++ [x]) = cnt k l + (if x.kind = k then 1 else 0) := by
  simp [cnt, List.countP_append, List.countP_cons]

theorem ufind_none_iff (k : Kind) (l : List Comp) : ufind k l = none ↔ cnt k l = 0 := by
  induction l with
  | nil => simp [ufind]
  | cons x xs ih =>
    by_cases h : x.kind = k <;> simp [ufind, cnt_cons, h, ih]

theorem ufind_some_kind {k : Kind} {l : List Comp} {x : Comp} (h : ufind k l = some x) : x.kind = k := by
  induction l with
  | nil => simp [ufind] at h
  | cons y ys ih =>
    by_cases hy : y.kind = k
    · simp [ufind, hy] at h; subst h; exact hy
    · simp [ufind, hy] at h; exact ih h

theorem ufind_some_cnt {k : Kind} {l : List Comp} {x : Comp} (h : ufind k l = some x) : 1 ≤ cnt k l := by
  have : cnt k l ≠ 0 := by
    intro h0; rw [← ufind_none_iff] at h0; simp [h0] at h
  omega

theorem ufind_append (k : Kind) (l : List Comp) (x : Comp) :
    ufind k (l ++ [x]) = match ufind k l with
      | some y => some y
      | none => if x.kind = k then some x else none := by
  induction l with
  | nil => simp [ufind]
  | cons y ys ih =>
    by_cases hy : y.kind = k <;> simp [ufind, hy, ih]

theorem ufind_upop_ne {k k' : Kind} (h : k' ≠ k) (l : List Comp) : ufind k' (upop k l) = ufind k' l := by
  induction l with
  | nil => rfl
  | cons x xs ih =>
    by_cases hx : x.kind = k
    · have hk : ¬ k = k' := fun e => h e.symm
      simp [upop, ufind, hx, hk]
    · simp [upop, ufind, hx, ih]

theorem cnt_upop_ne {k k' : Kind} (h : k' ≠ k) (l : List Comp) : cnt k' (upop k l) = cnt k' l := by
  induction l with
  | nil => rfl
  | cons x xs ih =>
    by_cases hx : x.kind = k
    · have hk : ¬ k = k' := fun e => h e.symm
      simp [upop, cnt_cons, hx, hk]
    · simp [upop, cnt_cons, hx, ih]

theorem cnt_upop_self (k : Kind) (l : List Comp) : cnt k (upop k l) = cnt k l - 1 := by
  induction l with
  | nil => rfl
  | cons x xs ih =>
    by_cases hx : x.kind = k
    · simp [upop, cnt_cons, hx]
    · simp [upop, cnt_cons, hx, ih]

theorem ufind_urepl_ne {k k' : Kind} {y : Comp} (hy : y.kind = k) (h : k' ≠ k) (l : List Comp) :
    ufind k' (urepl k y l) = ufind k' l := by
  induction l with
  | nil => rfl
  | cons x xs ih =>
    by_cases hx : x.kind = k
    · have hk : ¬ k = k' := fun e => h e.symm
      simp [urepl, ufind, hx, hy, hk]
    · simp [urepl, ufind, hx, ih]

theorem ufind_urepl_self {k : Kind} {y : Comp} (hy : y.kind = k) (l : List Comp) :
    ufind k (urepl k y l) = if ufind k l = none then none else some y := by
  induction l with
  | nil => rfl
  | cons x xs ih =>
    by_cases hx : x.kind = k
    · simp [urepl, ufind, hx, hy]
    · simp [urepl, ufind, hx, ih]

theorem cnt_urepl {k : Kind} {y : Comp} (hy : y.kind = k) (k' : Kind) (l : List Comp) :
    cnt k' (urepl k y l) = cnt k' l := by
  induction l with
  | nil => rfl
  | cons x xs ih =>
    by_cases hx : x.kind = k
    · simp [urepl, cnt_cons, hx, hy]
    · simp [urepl, cnt_cons, hx, ih]

/-- What the first-of-type reads after `uset`, for another type. -/
theorem ufind_uset_ne {k k' : Kind} {p : Bool} {v : Option Comp} (hv : ∀ y, v = some y → y.kind = k)
    (h : k' ≠ k) (l : List Comp) : ufind k' (uset k p v l) = ufind k' l := by
  cases hf : ufind k l with
  | none =>
    cases v with
    | none => simp [uset, hf]
    | some y =>
      have hy : ¬ y.kind = k' := by rw [hv y rfl]; exact fun e => h e.symm
      cases p
      · simp only [uset, hf, Bool.false_eq_true, if_false, ufind_append, hy]
        cases ufind k' l <;> rfl
      · simp [uset, hf, ufind, hy]
  | some x =>
    cases v with
    | none => simp only [uset, hf]; exact ufind_upop_ne h l
    | some y => simp only [uset, hf]; exact ufind_urepl_ne (hv y rfl) h l

/-- What the first-of-type reads after `uset`, for the same type. -/
theorem ufind_uset_self {k : Kind} {p : Bool} {v : Option Comp} (hv : ∀ y, v = some y → y.kind = k)
    (l : List Comp) (h1 : cnt k l ≤ 1) : ufind k (uset k p v l) = v := by
  cases hf : ufind k l with
  | none =>
    cases v with
    | none => simp [uset, hf]
    | some y =>
      cases p
      · simp [uset, hf, ufind_append, hv y rfl]
      · simp [uset, hf, ufind, hv y rfl]
  | some x =>
    cases v with
    | none =>
      simp only [uset, hf]
      rw [ufind_none_iff, cnt_upop_self]; omega
    | some y =>
      simp only [uset, hf]
      rw [ufind_urepl_self (hv y rfl)]; simp [hf]

theorem cnt_uset_ne {k k' : Kind} {p : Bool} {v : Option Comp} (hv : ∀ y, v = some y → y.kind = k)
    (h : k' ≠ k) (l : List Comp) : cnt k' (uset k p v l) = cnt k' l := by
  cases hf : ufind k l with
  | none =>
    cases v with
    | none => simp [uset, hf]
    | some y =>
      have hy : ¬ y.kind = k' := by rw [hv y rfl]; exact fun e => h e.symm
      cases p <;> simp [uset, hf, cnt_cons, cnt_append, hy]
  | some x =>
    cases v with
    | none => simp only [uset, hf]; exact cnt_upop_ne h l
    | some y => simp only [uset, hf]; exact cnt_urepl (hv y rfl) k' l

theorem cnt_uset_self {k : Kind} {p : Bool} {v : Option Comp} (hv : ∀ y, v = some y → y.kind = k)
    (l : List Comp) (h1 : cnt k l ≤ 1) : cnt k (uset k p v l) = if v.isSome then 1 else 0 := by
  cases hf : ufind k l with
  | none =>
    have h0 := (ufind_none_iff k l).1 hf
    cases v with
    | none => simp [uset, hf, h0]
    | some y => cases p <;> simp [uset, hf, cnt_cons, cnt_append, hv y rfl, h0]
  | some x =>
    have h0 := ufind_some_cnt hf
    cases v with
    | none => simp only [uset, hf]; rw [cnt_upop_self]; simp; omega
    | some y => simp only [uset, hf]; rw [cnt_urepl (hv y rfl)]; simp; omega

/-- When the type is present, replacing in place is what `uset` does. -/
theorem urepl_eq_uset {k : Kind} (p : Bool) (y : Comp) {l : List Comp} {x : Comp} (h : ufind k l = some x) :
    urepl k y l = uset k p (some y) l := by
  simp [uset, h]

end Autobean.Cost
