/-
Basic lemmas about the block helpers of the store model: `setHandlesFrom`, `clearHandles`,
`sizeOfToks`, `lniFrom`, `Block.build`, `reindexFrom`.
-/
import Autobean.Proofs.Pos
import Autobean.Proofs.StoreDefs

set_option linter.unusedSimpArgs false

namespace Autobean

/-! ### `strip`, `core` -/

@[simp] theorem Tok.strip_id (t : Tok) : t.strip.id = t.id := rfl
@[simp] theorem Tok.strip_text (t : Tok) : t.strip.text = t.text := rfl
@[simp] theorem Tok.strip_size (t : Tok) : t.strip.size = t.size := rfl
@[simp] theorem Tok.strip_h (t : Tok) : t.strip.h = none := rfl
@[simp] theorem Tok.strip_strip (t : Tok) : t.strip.strip = t.strip := rfl
@[simp] theorem Tok.core_strip (t : Tok) : t.strip.core = t.core := rfl

theorem Tok.strip_eq_self {t : Tok} (h : t.h = none) : t.strip = t := by
  cases t; simp_all [Tok.strip]

theorem clearHandles_eq (ts : List Tok) : clearHandles ts = ts.map Tok.strip := rfl

theorem map_strip_eq_self {ts : List Tok} (h : ∀ t ∈ ts, t.h = none) : ts.map Tok.strip = ts := by
  induction ts with
  | nil => rfl
  | cons t ts ih =>
    simp only [List.map_cons, List.mem_cons, forall_eq_or_imp] at h ⊢
    rw [Tok.strip_eq_self h.1, ih h.2]

theorem map_core_of_strip {a b : List Tok} (h : a.map Tok.strip = b.map Tok.strip) :
    a.map Tok.core = b.map Tok.core := by
  have : ∀ l : List Tok, l.map Tok.core = (l.map Tok.strip).map Tok.core := by
    intro l; simp [List.map_map, Function.comp_def]
  rw [this a, this b, h]

theorem map_id_of_strip {a b : List Tok} (h : a.map Tok.strip = b.map Tok.strip) :
    a.map (·.id) = b.map (·.id) := by
  have : ∀ l : List Tok, l.map (·.id) = (l.map Tok.strip).map (·.id) := by
    intro l; simp [List.map_map, Function.comp_def]
  rw [this a, this b, h]

theorem map_size_of_strip {a b : List Tok} (h : a.map Tok.strip = b.map Tok.strip) :
    a.map (·.size) = b.map (·.size) := by
  have : ∀ l : List Tok, l.map (·.size) = (l.map Tok.strip).map (·.size) := by
    intro l; simp [List.map_map, Function.comp_def]
  rw [this a, this b, h]

theorem length_of_strip {a b : List Tok} (h : a.map Tok.strip = b.map Tok.strip) :
    a.length = b.length := by
  have := congrArg List.length h
  simpa using this

/-- A property of tokens that ignores the handle transfers along `strip`-equality. -/
theorem forall_of_strip {a b : List Tok} (h : a.map Tok.strip = b.map Tok.strip)
    (P : Tok → Prop) (hP : ∀ t, P t ↔ P t.strip) (hb : ∀ t ∈ b, P t) : ∀ t ∈ a, P t := by
  intro t ht
  have : t.strip ∈ b.map Tok.strip := by rw [← h]; exact List.mem_map_of_mem ht
  obtain ⟨t', ht', e⟩ := List.mem_map.1 this
  rw [hP, ← e, ← hP]; exact hb t' ht'

/-! ### `setHandlesFrom` -/

@[simp] theorem setHandlesFrom_nil (sid ref k : Nat) : setHandlesFrom sid ref k [] = [] := rfl

@[simp] theorem setHandlesFrom_length (sid ref k : Nat) (ts : List Tok) :
    (setHandlesFrom sid ref k ts).length = ts.length := by
  induction ts generalizing k with
  | nil => rfl
  | cons t ts ih => simp [setHandlesFrom, ih]

theorem setHandlesFrom_append (sid ref k : Nat) (a b : List Tok) :
    setHandlesFrom sid ref k (a ++ b) =
      setHandlesFrom sid ref k a ++ setHandlesFrom sid ref (k + a.length) b := by
  induction a generalizing k with
  | nil => simp
  | cons t a ih =>
    simp only [List.cons_append, setHandlesFrom, ih, List.length_cons]
    congr 3; omega

@[simp] theorem setHandlesFrom_map_strip (sid ref k : Nat) (ts : List Tok) :
    (setHandlesFrom sid ref k ts).map Tok.strip = ts.map Tok.strip := by
  induction ts generalizing k with
  | nil => rfl
  | cons t ts ih => simp [setHandlesFrom, ih, Tok.strip]

@[simp] theorem setHandlesFrom_map_size (sid ref k : Nat) (ts : List Tok) :
    (setHandlesFrom sid ref k ts).map (·.size) = ts.map (·.size) :=
  map_size_of_strip (setHandlesFrom_map_strip ..)

@[simp] theorem setHandlesFrom_idem (sid ref k sid' ref' k' : Nat) (ts : List Tok) :
    setHandlesFrom sid ref k (setHandlesFrom sid' ref' k' ts) = setHandlesFrom sid ref k ts := by
  induction ts generalizing k k' with
  | nil => rfl
  | cons t ts ih => simp [setHandlesFrom, ih]

theorem setHandlesFrom_getElem? (sid ref k : Nat) (ts : List Tok) (j : Nat) :
    (setHandlesFrom sid ref k ts)[j]? =
      (ts[j]?).map fun t => { t with h := some ⟨sid, ref, k + j⟩ } := by
  induction ts generalizing k j with
  | nil => simp
  | cons t ts ih =>
    cases j with
    | zero => simp [setHandlesFrom]
    | succ j =>
      simp only [setHandlesFrom, List.getElem?_cons_succ, ih]
      have : k + 1 + j = k + (j + 1) := by omega
      rw [this]

theorem setHandlesFrom_getElem (sid ref k : Nat) (ts : List Tok) (j : Nat)
    (hj : j < (setHandlesFrom sid ref k ts).length) :
    (setHandlesFrom sid ref k ts)[j] =
      { ts[j]'(by simpa using hj) with h := some ⟨sid, ref, k + j⟩ } := by
  have hj' : j < ts.length := by simpa using hj
  have := setHandlesFrom_getElem? sid ref k ts j
  rw [List.getElem?_eq_getElem hj, List.getElem?_eq_getElem hj'] at this
  simpa using this

theorem setHandlesFrom_eq_self_iff (sid ref k : Nat) (ts : List Tok) :
    setHandlesFrom sid ref k ts = ts ↔
      ∀ j (hj : j < ts.length), (ts[j]).h = some ⟨sid, ref, k + j⟩ := by
  constructor
  · intro h j hj
    have hj' : j < (setHandlesFrom sid ref k ts).length := by simpa using hj
    have := setHandlesFrom_getElem sid ref k ts j hj'
    have e : (setHandlesFrom sid ref k ts)[j] = ts[j] := by simp [h]
    rw [e] at this
    rw [this]
  · intro h
    apply List.ext_getElem (by simp)
    intro j h1 h2
    rw [setHandlesFrom_getElem]
    have := h j h2
    generalize ts[j] = t at this ⊢
    cases t; simp_all

theorem setHandlesFrom_take (sid ref k n : Nat) (ts : List Tok) :
    setHandlesFrom sid ref k (ts.take n) = (setHandlesFrom sid ref k ts).take n := by
  induction ts generalizing k n with
  | nil => simp
  | cons t ts ih =>
    cases n with
    | zero => simp
    | succ n => simp [setHandlesFrom, ih]

theorem setHandlesFrom_drop (sid ref k n : Nat) (ts : List Tok) :
    setHandlesFrom sid ref (k + n) (ts.drop n) = (setHandlesFrom sid ref k ts).drop n := by
  induction ts generalizing k n with
  | nil => simp
  | cons t ts ih =>
    cases n with
    | zero => simp
    | succ n =>
      simp only [List.drop_succ_cons, setHandlesFrom]
      rw [← ih]; congr 1; omega

/-- Handles that are right on a list are right on a prefix. -/
theorem hok_take {sid ref k : Nat} {ts : List Tok} (h : setHandlesFrom sid ref k ts = ts) (n : Nat) :
    setHandlesFrom sid ref k (ts.take n) = ts.take n := by
  rw [setHandlesFrom_take, h]

theorem hok_drop {sid ref k : Nat} {ts : List Tok} (h : setHandlesFrom sid ref k ts = ts) (n : Nat) :
    setHandlesFrom sid ref (k + n) (ts.drop n) = ts.drop n := by
  rw [setHandlesFrom_drop, h]

/-! ### `sizeOfToks`, `sumLines` -/

@[simp] theorem sizeOfToks_nil : sizeOfToks [] = Pos.zero := rfl

theorem sizeOfToks_cons (t : Tok) (ts : List Tok) : sizeOfToks (t :: ts) = t.size + sizeOfToks ts := by
  simp [sizeOfToks, sumPos_cons]

theorem sizeOfToks_append (a b : List Tok) : sizeOfToks (a ++ b) = sizeOfToks a + sizeOfToks b := by
  simp [sizeOfToks, sumPos_append]

theorem sizeOfToks_congr {a b : List Tok} (h : a.map (·.size) = b.map (·.size)) :
    sizeOfToks a = sizeOfToks b := by
  simp [sizeOfToks, h]

theorem sizeOfToks_line (ts : List Tok) : (sizeOfToks ts).line = sumLines ts := by
  simp [sizeOfToks, sumLines, sumPos_line, List.map_map, Function.comp_def]

/-! ### `lniFrom` via the index of the last token with a line break -/

/-- Index of the last token whose size has a line break. -/
def lastNL : List Tok → Option Nat
  | [] => none
  | t :: ts =>
    match lastNL ts with
    | some i => some (i + 1)
    | none => if t.size.line = 0 then none else some 0

theorem lniFrom_eq (k : Nat) (acc : Int) (ts : List Tok) :
    lniFrom k acc ts = match lastNL ts with
      | some i => (k : Int) + (i : Int)
      | none => acc := by
  induction ts generalizing k acc with
  | nil => rfl
  | cons t ts ih =>
    simp only [lniFrom, lastNL, ih]
    cases h : lastNL ts with
    | some i => simp; omega
    | none => by_cases h0 : t.size.line = 0 <;> simp [h0]

theorem lastNL_append (a b : List Tok) :
    lastNL (a ++ b) = match lastNL b with
      | some i => some (a.length + i)
      | none => lastNL a := by
  induction a with
  | nil => cases h : lastNL b <;> simp [h, lastNL]
  | cons t a ih =>
    simp only [List.cons_append, lastNL, ih]
    cases h : lastNL b with
    | some i => simp; omega
    | none => simp

theorem lniFrom_of_some {ts : List Tok} {i : Nat} (h : lastNL ts = some i) (k : Nat) (acc : Int) :
    lniFrom k acc ts = (k : Int) + (i : Int) := by
  rw [lniFrom_eq, h]

theorem lniFrom_of_none {ts : List Tok} (h : lastNL ts = none) (k : Nat) (acc : Int) :
    lniFrom k acc ts = acc := by
  rw [lniFrom_eq, h]

theorem lastNL_append_some (a : List Tok) {b : List Tok} {i : Nat} (h : lastNL b = some i) :
    lastNL (a ++ b) = some (a.length + i) := by
  rw [lastNL_append, h]

theorem lastNL_append_none (a : List Tok) {b : List Tok} (h : lastNL b = none) :
    lastNL (a ++ b) = lastNL a := by
  rw [lastNL_append, h]

theorem lastNL_none_iff (ts : List Tok) : lastNL ts = none ↔ ∀ t ∈ ts, t.size.line = 0 := by
  induction ts with
  | nil => simp [lastNL]
  | cons t ts ih =>
    simp only [lastNL, List.mem_cons, forall_eq_or_imp]
    cases h : lastNL ts with
    | some i =>
      simp only [h] at ih
      simp only [reduceCtorEq, false_iff, not_and]
      intro _ h2; exact absurd (ih.2 h2) (by simp)
    | none =>
      simp only [h, true_iff] at ih
      by_cases h0 : t.size.line = 0
      · simp [h0]; exact ih
      · simp [h0]

theorem lastNL_lt {ts : List Tok} {i : Nat} (h : lastNL ts = some i) : i < ts.length := by
  induction ts generalizing i with
  | nil => simp [lastNL] at h
  | cons t ts ih =>
    simp only [lastNL] at h
    cases h' : lastNL ts with
    | some i' =>
      simp only [h', Option.some.injEq] at h
      have := ih h'; simp; omega
    | none =>
      simp only [h'] at h
      split at h <;> simp at h
      subst h; simp

theorem sizeOfToks_line_eq_zero_iff (ts : List Tok) : (sizeOfToks ts).line = 0 ↔ lastNL ts = none := by
  rw [lastNL_none_iff]
  induction ts with
  | nil => simp
  | cons t ts ih => simp [sizeOfToks_cons, ih]

theorem lastNL_congr {a b : List Tok} (h : a.map (·.size) = b.map (·.size)) : lastNL a = lastNL b := by
  induction a generalizing b with
  | nil => cases b <;> simp_all
  | cons t a ih =>
    cases b with
    | nil => simp at h
    | cons t' b =>
      simp only [List.map_cons, List.cons.injEq] at h
      simp [lastNL, ih h.2, h.1]

theorem lniFrom_congr {a b : List Tok} (h : a.map (·.size) = b.map (·.size)) (k : Nat) (acc : Int) :
    lniFrom k acc a = lniFrom k acc b := by
  rw [lniFrom_eq, lniFrom_eq, lastNL_congr h]

/-! ### `Block.build` -/

@[simp] theorem Block.build_ref (sid ref idx : Nat) (ts : List Tok) : (Block.build sid ref idx ts).ref = ref := rfl
@[simp] theorem Block.build_idx (sid ref idx : Nat) (ts : List Tok) : (Block.build sid ref idx ts).idx = idx := rfl
@[simp] theorem Block.build_toks (sid ref idx : Nat) (ts : List Tok) :
    (Block.build sid ref idx ts).toks = setHandlesFrom sid ref 0 ts := rfl

theorem bok_build (sid ref idx : Nat) (ts : List Tok) : BOK sid (Block.build sid ref idx ts) where
  hs := by simp
  size := by
    show sizeOfToks ts = sizeOfToks (setHandlesFrom sid ref 0 ts)
    exact sizeOfToks_congr (by simp)
  lni := by
    show lniFrom 0 (-1) ts = lniFrom 0 (-1) (setHandlesFrom sid ref 0 ts)
    exact lniFrom_congr (by simp) _ _

theorem build_toks_ne_nil {sid ref idx : Nat} {ts : List Tok} (h : ts ≠ []) :
    (Block.build sid ref idx ts).toks ≠ [] := by
  intro e
  have := congrArg List.length e
  simp at this; exact h this

theorem bok_idx_irrel {sid : Nat} {b : Block} (k : Nat) : BOK sid { b with idx := k } ↔ BOK sid b :=
  ⟨fun h => ⟨h.hs, h.size, h.lni⟩, fun h => ⟨h.hs, h.size, h.lni⟩⟩

/-! ### `reindexFrom` -/

@[simp] theorem reindexFrom_length (i p : Nat) (bs : List Block) : (reindexFrom i p bs).length = bs.length := by
  induction bs generalizing p with
  | nil => rfl
  | cons b bs ih => simp [reindexFrom, ih]

theorem reindexFrom_append (i p : Nat) (a b : List Block) :
    reindexFrom i p (a ++ b) = reindexFrom i p a ++ reindexFrom i (p + a.length) b := by
  induction a generalizing p with
  | nil => simp [reindexFrom]
  | cons x a ih =>
    simp only [List.cons_append, reindexFrom, ih, List.length_cons]
    congr 3; omega

/-- Blocks before position `i` are untouched. -/
theorem reindexFrom_of_le {i p : Nat} {bs : List Block} (h : p + bs.length ≤ i) : reindexFrom i p bs = bs := by
  induction bs generalizing p with
  | nil => rfl
  | cons b bs ih =>
    simp only [List.length_cons] at h
    have : ¬ i ≤ p := by omega
    simp only [reindexFrom, this, if_false]
    rw [ih (by omega)]

/-- Blocks from position `i` on get consecutive indexes. -/
theorem idxFrom_reindexFrom {i p : Nat} (bs : List Block) (h : i ≤ p) : IdxFrom p (reindexFrom i p bs) := by
  induction bs generalizing p with
  | nil => simp [IdxFrom, reindexFrom]
  | cons b bs ih =>
    have ih' := ih (p := p + 1) (by omega)
    simp only [IdxFrom, reindexFrom_length] at ih' ⊢
    simp [reindexFrom, h, ih', List.range'_succ]

/-- A list whose stored indexes are already right is a fixed point. -/
theorem reindexFrom_of_idxFrom {i p : Nat} {bs : List Block} (h : IdxFrom p bs) : reindexFrom i p bs = bs := by
  induction bs generalizing p with
  | nil => rfl
  | cons b bs ih =>
    simp only [IdxFrom, List.map_cons, List.length_cons, List.range'_succ, List.cons.injEq] at h
    simp only [reindexFrom]
    rw [ih h.2]
    split
    · cases b; simp_all
    · rfl

theorem idxFrom_append {p : Nat} {a b : List Block} :
    IdxFrom p (a ++ b) ↔ IdxFrom p a ∧ IdxFrom (p + a.length) b := by
  simp only [IdxFrom, List.map_append, List.length_append]
  rw [← List.range'_append_1]
  constructor
  · intro h
    have := List.append_inj h (by simp)
    exact this
  · rintro ⟨h1, h2⟩; rw [h1, h2]

theorem idxFrom_cons {p : Nat} {b : Block} {bs : List Block} :
    IdxFrom p (b :: bs) ↔ b.idx = p ∧ IdxFrom (p + 1) bs := by
  simp [IdxFrom, List.range'_succ]

@[simp] theorem idxFrom_nil (p : Nat) : IdxFrom p [] := by simp [IdxFrom]

/-- Membership in a re-indexed list: the same block up to its stored index. -/
theorem mem_reindexFrom {i p : Nat} {bs : List Block} {b' : Block} (h : b' ∈ reindexFrom i p bs) :
    ∃ b ∈ bs, ∃ k, b' = { b with idx := k } := by
  induction bs generalizing p with
  | nil => simp [reindexFrom] at h
  | cons b bs ih =>
    simp only [reindexFrom, List.mem_cons] at h
    rcases h with h | h
    · refine ⟨b, by simp, ?_⟩
      split at h
      · exact ⟨p, h⟩
      · exact ⟨b.idx, by rw [h]⟩
    · obtain ⟨x, hx, k, e⟩ := ih h
      exact ⟨x, by simp [hx], k, e⟩

@[simp] theorem reindexFrom_map_ref (i p : Nat) (bs : List Block) :
    (reindexFrom i p bs).map (·.ref) = bs.map (·.ref) := by
  induction bs generalizing p with
  | nil => rfl
  | cons b bs ih => simp only [reindexFrom, List.map_cons, ih]; split <;> rfl

@[simp] theorem reindexFrom_map_toks (i p : Nat) (bs : List Block) :
    (reindexFrom i p bs).map (·.toks) = bs.map (·.toks) := by
  induction bs generalizing p with
  | nil => rfl
  | cons b bs ih => simp only [reindexFrom, List.map_cons, ih]; split <;> rfl

@[simp] theorem reindexFrom_flatMap_toks (i p : Nat) (bs : List Block) :
    (reindexFrom i p bs).flatMap (·.toks) = bs.flatMap (·.toks) := by
  rw [List.flatMap_def, List.flatMap_def, reindexFrom_map_toks]

end Autobean
