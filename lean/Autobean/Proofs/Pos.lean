/-
Lemmas about `Pos` (the `Position` monoid) and `tokSize` (`_token_size`).

* `Pos.add` is associative with unit `Pos.zero`.
* `tokSize` is a monoid homomorphism from texts (under `++`) to `Pos`.
* `sumPos` (a left fold of `Pos.add`) distributes over `++`.
-/
import Autobean.Model.Pos

namespace Autobean

namespace Pos

theorem add_def (a b : Pos) :
    a + b = ⟨a.line + b.line, if b.line = 0 then a.col + b.col else b.col⟩ := rfl

theorem add_eq (a b : Pos) : Pos.add a b = a + b := rfl

@[simp] theorem add_line (a b : Pos) : (a + b).line = a.line + b.line := rfl

theorem add_col (a b : Pos) : (a + b).col = if b.line = 0 then a.col + b.col else b.col := rfl

theorem ext' {a b : Pos} (h1 : a.line = b.line) (h2 : a.col = b.col) : a = b := by
  cases a; cases b; simp_all

theorem add_assoc (a b c : Pos) : a + b + c = a + (b + c) := by
  apply ext'
  · simp [Nat.add_assoc]
  · simp only [add_col, add_line]
    repeat' split
    all_goals omega

@[simp] theorem zero_add (a : Pos) : zero + a = a := by
  apply ext'
  · simp [zero]
  · simp only [add_col, zero]; split <;> omega

@[simp] theorem add_zero (a : Pos) : a + zero = a := by
  apply ext'
  · simp [zero]
  · simp [add_col, zero]

@[simp] theorem zero_line : zero.line = 0 := rfl
@[simp] theorem zero_col : zero.col = 0 := rfl

end Pos

/-! ### `tokSize` -/

theorem countNL_append (a b : List Char) : countNL (a ++ b) = countNL a + countNL b := by
  induction a with
  | nil => simp [countNL]
  | cons c a ih => simp [countNL, ih, Nat.add_assoc]

theorem colAfterLastNL_of_noNL (b : List Char) (h : countNL b = 0) : colAfterLastNL b = b.length := by
  induction b with
  | nil => rfl
  | cons c b ih =>
    simp only [countNL] at h
    have hb : countNL b = 0 := by omega
    have hc : ¬ c = '\n' := by intro hc; simp [hc] at h
    simp [colAfterLastNL, hb, hc]; omega

theorem colAfterLastNL_append (a b : List Char) :
    colAfterLastNL (a ++ b) = if countNL b = 0 then colAfterLastNL a + colAfterLastNL b else colAfterLastNL b := by
  induction a with
  | nil => simp [colAfterLastNL]
  | cons c a ih =>
    simp only [List.cons_append, colAfterLastNL, countNL_append, ih]
    by_cases hb : countNL b = 0
    · simp only [hb, Nat.add_zero, if_true, colAfterLastNL_of_noNL b hb, List.length_append]
      split <;> omega
    · simp [hb]

/-- `_token_size` of a concatenation is the `Position` sum of the sizes. -/
theorem tokSize_append (a b : List Char) : tokSize (a ++ b) = tokSize a + tokSize b := by
  apply Pos.ext'
  · simp [tokSize, countNL_append]
  · simp [tokSize, Pos.add_col, colAfterLastNL_append]

@[simp] theorem tokSize_nil : tokSize [] = Pos.zero := rfl

/-! ### `sumPos` -/

theorem foldl_add_eq (x : Pos) (l : List Pos) : l.foldl Pos.add x = x + l.foldl Pos.add Pos.zero := by
  induction l generalizing x with
  | nil => simp
  | cons p l ih =>
    simp only [List.foldl_cons]
    rw [ih, ih (Pos.add Pos.zero p), Pos.add_eq, Pos.add_eq, Pos.zero_add, Pos.add_assoc]

@[simp] theorem sumPos_nil : sumPos [] = Pos.zero := rfl

theorem sumPos_cons (p : Pos) (l : List Pos) : sumPos (p :: l) = p + sumPos l := by
  simp only [sumPos, List.foldl_cons]
  rw [foldl_add_eq, Pos.add_eq, Pos.zero_add]

theorem sumPos_append (a b : List Pos) : sumPos (a ++ b) = sumPos a + sumPos b := by
  induction a with
  | nil => simp
  | cons p a ih => simp [sumPos_cons, ih, Pos.add_assoc]

theorem sumPos_line (l : List Pos) : (sumPos l).line = (l.map (·.line)).sum := by
  induction l with
  | nil => rfl
  | cons p l ih => simp [sumPos_cons, ih]

/-- The size of the flattened text is the sum of the sizes of the pieces. -/
theorem tokSize_flatten (l : List (List Char)) : tokSize l.flatten = sumPos (l.map tokSize) := by
  induction l with
  | nil => rfl
  | cons a l ih => simp [tokSize_append, sumPos_cons, ih]

end Autobean
