import Autobean.Model.Indent
import Autobean.Proofs.Indent
/-!
C18 — children created from values are indented by the documented rule.

Model: `Autobean/Model/Indent.lean` (`RepeatedMetaItemWrapper._get_indent`, `_get_default_indent`,
`optional_indented_string_property`, `BlockComment._format_value`).  The rule is a two-line function; these
theorems say what it computes.  That the created item lands in the parent's repeated field without touching
any other token ("a raw node keeps its own indent verbatim", "no existing line's indentation changes") is the
frame property of repeated-field insertion (C03, `rep_insert_frame`) and is tied here by the oracle of
`harness/props/c18.py`; `append_keeps_indents_partial` states the list-level part.
-/
namespace Autobean.C18
open Autobean.Indent

/-- **`indent_rule`, no siblings.**  Posting (parent indent `p`): `p ++ indent_by`; entry (no parent indent): `indent_by`. -/
theorem indent_rule_empty (parentIndent : Option Str) (indentBy : Str) :
    newIndent [] parentIndent indentBy = parentIndent.getD [] ++ indentBy := by
  cases parentIndent <;> simp [newIndent]

/-- **`indent_rule`, with siblings**: the first sibling's indent, whatever the parent's indent and `indent_by`. -/
theorem indent_rule_siblings (siblings : List Str) (parentIndent : Option Str) (indentBy : Str) (h : siblings ≠ []) :
    some (newIndent siblings parentIndent indentBy) = siblings.head? := by
  cases siblings with
  | nil => exact absurd rfl h
  | cons i _ => rfl

/-- **`indent_rule`, uniform layout** (the property's quantifier): if all existing items share the indent `i`, the
new item gets `i`. -/
theorem indent_rule_uniform (siblings : List Str) (parentIndent : Option Str) (indentBy i : Str)
    (h : siblings ≠ []) (hu : ∀ s ∈ siblings, s = i) :
    newIndent siblings parentIndent indentBy = i := by
  cases siblings with
  | nil => exact absurd rfl h
  | cons x _ => exact hu x (by simp)

/-- The rule is total and falls in exactly one of the two documented cases. -/
theorem indent_rule (siblings : List Str) (parentIndent : Option Str) (indentBy : Str) :
    (siblings = [] ∧ newIndent siblings parentIndent indentBy = parentIndent.getD [] ++ indentBy) ∨
    (∃ i rest, siblings = i :: rest ∧ newIndent siblings parentIndent indentBy = i) := by
  cases siblings with
  | nil => exact Or.inl ⟨rfl, indent_rule_empty _ _⟩
  | cons i rest => exact Or.inr ⟨i, rest, rfl, rfl⟩

/-- **`comment_indent`.**  The formatted comment is the concatenation of its lines, there is at least one, and every
line starts with the indent followed by `;`. -/
theorem comment_indent (indent value : Str) :
    commentFormat indent value = (commentLines indent value).flatten ∧ commentLines indent value ≠ [] ∧
      ∀ l ∈ commentLines indent value, (indent ++ [';']) <+: l := by
  refine ⟨rfl, ?_, ?_⟩
  · simp [commentLines, splitLines_ne_nil]
  · intro l hl
    simp only [commentLines, List.mem_map] at hl
    obtain ⟨x, _, rfl⟩ := hl
    exact commentLine_prefix indent x

/-- Those lines are the lines of the formatted text: splitting `commentFormat indent value` at `\n` (as
`BlockComment._parse_value` does) gives back one formatted line per line of the value — provided the indent itself
contains no `\n`. -/
theorem comment_lines (indent value : Str) (hi : '\n' ∉ indent) :
    splitLines (commentFormat indent value) = commentLines indent value :=
  splitLines_flatten (linesOk_map_commentLine hi (linesOk_splitLines value))

/-- So every line of the printed comment starts with `indent ++ ";"`. -/
theorem comment_every_line (indent value : Str) (hi : '\n' ∉ indent) :
    ∀ l ∈ splitLines (commentFormat indent value), (indent ++ [';']) <+: l := by
  rw [comment_lines indent value hi]
  exact (comment_indent indent value).2.2

/-- and the comment's `indent` as the parser reads it back is the indent given. -/
theorem indentOf_commentFormat (indent value : Str) (hi : '\n' ∉ indent) (hs : ';' ∉ indent) :
    indentOf (commentFormat indent value) = indent := by
  simp only [indentOf, comment_lines indent value hi, commentLines]
  cases h : splitLines value with
  | nil => exact absurd h (splitLines_ne_nil value)
  | cons l ls =>
    simp only [List.map_cons, commentLine]
    split
    · have : indent ++ [';', ' '] ++ l = indent ++ ';' :: (' ' :: l) := by simp
      rw [this]; exact takeWhile_ne_semicolon _ hs
    · have : indent ++ [';'] ++ l = indent ++ ';' :: l := by simp
      rw [this]; exact takeWhile_ne_semicolon _ hs

/-- Comment setters: owners with an indent (postings, meta items) pass it; top-level entries pass none. -/
theorem comment_setter_indent (ownerIndent : Option Str) :
    commentIndentFor ownerIndent = ownerIndent.getD [] := rfl

/-- List-level frame of an append (`raw_meta.append(item)` / mapping assignment creating an item): the indents of
the existing items are unchanged and the appended item's indent is its own.  Partial: that the *tokens* of the
other lines are untouched is C03's `rep_insert_frame`, not restated here. -/
theorem append_keeps_indents_partial {α} (indentOfItem : α → Str) (items : List α) (x : α) :
    (items ++ [x]).map indentOfItem = items.map indentOfItem ++ [indentOfItem x] := by
  simp

/-! ## non-vacuity -/

example : newIndent [] (some "  ".toList) "\t".toList = "  \t".toList := by decide
example : newIndent [] none "  ".toList = "  ".toList := by decide
example : newIndent ["\t".toList, "\t".toList] (some "  ".toList) "    ".toList = "\t".toList := by decide
/-- non-uniform siblings (outside the property's quantifier): the code copies the first -/
example : newIndent ["  ".toList, "      ".toList] none "    ".toList = "  ".toList := by decide
example : commentFormat "  ".toList "lead\n\nmore\r\n".toList = "  ; lead\n  ;\n  ; more\r\n  ;".toList := by decide
example : commentLines "\t".toList "a\nb".toList = ["\t; a\n".toList, "\t; b".toList] := by decide
example : indentOf "    ; x\n    ; y".toList = "    ".toList := by decide
example : splitLines "a\n\nb\n".toList = ["a\n".toList, "\n".toList, "b\n".toList, []] := by decide

end Autobean.C18
