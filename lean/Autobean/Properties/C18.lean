import Autobean.Model.Indent
import Autobean.Proofs.Indent
import Autobean.Proofs.RepKeep
import Autobean.Properties.C03
/-!
C18 — children created from values are indented by the documented rule.

Model: `Autobean/Model/Indent.lean` (`RepeatedMetaItemWrapper._get_indent`, `_get_default_indent`,
`optional_indented_string_property`, `BlockComment._format_value`).  The rule is a two-line function; these
theorems say what it computes.  That the created item lands in the parent's repeated field without touching
any other token ("a raw node keeps its own indent verbatim", "no existing line's indentation changes") is the
frame property of repeated-field insertion (C03, `rep_insert_frame`) and is tied here by the oracle of
`harness/props/c18.py`; `append_keeps_indents_partial` states the list-level part, `insert_keeps_indents` /
`append_keeps_indents` the token-level statement (through C03's `rep_insert_frame` / `rep_append_frame`).
-/
namespace Autobean.C18
open Autobean.Indent

/-- **`indent_rule`, no siblings.**  Posting (parent indent `p`): `p ++ indent_by`; entry (no parent indent): `indent_by`. -/
theorem indent_rule_empty (parentIndent : Option Str) (indentBy : Str) :
    newIndent [] parentIndent indentBy = parentIndent.getD [] ++ indentBy := by
  cases parentIndent <;> simp [newIndent]

/-- **`indent_rule`, with siblings**: the first sibling's indent, whatever the parent's indent and `indent_by`. -/
theorem indent_rule_siblings (siblings : List Str) (parentIndent : Option Str) (indentBy : Str) (h : siblings ≠ []) :
    some (newIndent siblings parentIndent indentBy) = siblings.head? := by
  cases siblings with
  | nil => exact absurd rfl h
  | cons i _ => rfl

/-- **`indent_rule`, uniform layout** (the property's quantifier): if all existing items share the indent `i`, the
new item gets `i`. -/
theorem indent_rule_uniform (siblings : List Str) (parentIndent : Option Str) (indentBy i : Str)
    (h : siblings ≠ []) (hu : ∀ s ∈ siblings, s = i) :
    newIndent siblings parentIndent indentBy = i := by
  cases siblings with
  | nil => exact absurd rfl h
  | cons x _ => exact hu x (by simp)

/-- The rule is total and falls in exactly one of the two documented cases. -/
theorem indent_rule (siblings : List Str) (parentIndent : Option Str) (indentBy : Str) :
    (siblings = [] ∧ newIndent siblings parentIndent indentBy = parentIndent.getD [] ++ indentBy) ∨
    (∃ i rest, siblings = i :: rest ∧ newIndent siblings parentIndent indentBy = i) := by
  cases siblings with
  | nil => exact Or.inl ⟨rfl, indent_rule_empty _ _⟩
  | cons i rest => exact Or.inr ⟨i, rest, rfl, rfl⟩

/-- **`comment_indent`.**  The formatted comment is the concatenation of its lines, there is at least one, and every
line starts with the indent followed by `;`. -/
theorem comment_indent (indent value : Str) :
    commentFormat indent value = (commentLines indent value).flatten ∧ commentLines indent value ≠ [] ∧
      ∀ l ∈ commentLines indent value, (indent ++ [';']) <+: l := by
  refine ⟨rfl, ?_, ?_⟩
  · simp [commentLines, splitLines_ne_nil]
  · intro l hl
    simp only [commentLines, List.mem_map] at hl
    obtain ⟨x, _, rfl⟩ := hl
    exact commentLine_prefix indent x

/-- Those lines are the lines of the formatted text: splitting `commentFormat indent value` at `\n` (as
`BlockComment._parse_value` does) gives back one formatted line per line of the value — provided the indent itself
contains no `\n`. -/
theorem comment_lines (indent value : Str) (hi : '\n' ∉ indent) :
    splitLines (commentFormat indent value) = commentLines indent value :=
  splitLines_flatten (linesOk_map_commentLine hi (linesOk_splitLines value))

/-- So every line of the printed comment starts with `indent ++ ";"`. -/
theorem comment_every_line (indent value : Str) (hi : '\n' ∉ indent) :
    ∀ l ∈ splitLines (commentFormat indent value), (indent ++ [';']) <+: l := by
  rw [comment_lines indent value hi]
  exact (comment_indent indent value).2.2

/-- and the comment's `indent` as the parser reads it back is the indent given. -/
theorem indentOf_commentFormat (indent value : Str) (hi : '\n' ∉ indent) (hs : ';' ∉ indent) :
    indentOf (commentFormat indent value) = indent := by
  simp only [indentOf, comment_lines indent value hi, commentLines]
  cases h : splitLines value with
  | nil => exact absurd h (splitLines_ne_nil value)
  | cons l ls =>
    simp only [List.map_cons, commentLine]
    split
    · have : indent ++ [';', ' '] ++ l = indent ++ ';' :: (' ' :: l) := by simp
      rw [this]; exact takeWhile_ne_semicolon _ hs
    · have : indent ++ [';'] ++ l = indent ++ ';' :: l := by simp
      rw [this]; exact takeWhile_ne_semicolon _ hs

/-- Comment setters: owners with an indent (postings, meta items) pass it; top-level entries pass none. -/
theorem comment_setter_indent (ownerIndent : Option Str) :
    commentIndentFor ownerIndent = ownerIndent.getD [] := rfl

/-- (Superseded by `insert_keeps_indents` / `append_keeps_indents` below; kept.)  List-level frame of an append (`raw_meta.append(item)` / mapping assignment creating an item): the indents of
the existing items are unchanged and the appended item's indent is its own.  Partial: that the *tokens* of the
other lines are untouched is C03's `rep_insert_frame`, not restated here. -/
theorem append_keeps_indents_partial {α} (indentOfItem : α → Str) (items : List α) (x : α) :
    (items ++ [x]).map indentOfItem = items.map indentOfItem ++ [indentOfItem x] := by
  simp

/-! ## Existing indents unchanged, at token level (through the C03 frame theorems) -/

open Autobean.Seq Autobean.Rep in
/-- The `Indent` token of an item (a posting, a meta item): its first token when that token has kind `K`
(`K` = the kind number the `INDENT` token class has in the store dump); identity, kind and text. -/
def indentTok (K : Nat) (item : List Tk) : Option Tk := item.head?.filter (·.kind == K)

section
open Autobean.Seq Autobean.Rep

/-- **`insert(index, item)` keeps every existing indent, token for token.**  For a well-formed repeated region
(`store = L ++ ph :: gap₀ ++ item₀ ++ … ++ R`, `L`, `R` and the gaps arbitrary) and any raw item `v`:
* the call succeeds, the new store is `L ++ (region') ++ R` — the tokens outside the region are untouched;
* the items of `region'` are the old items, each with its **exact token list** (ids, kinds, texts), and `v`
  verbatim at the insertion point ("a raw node keeps its own indent"); positionally: old item `k` is item `k`
  (before the insertion point) or `k + 1` (behind it) of the result;
* hence the `INDENT` token at the head of each old item is the same token object with the same text, and the new
  item's is its own;
* the old store is cut at one place and a window put in: `store = P ++ Q`, `store' = P ++ X ++ Q` — no existing
  token of any line is removed, moved or rewritten (so `store` is a sublist of `store'`).
Supersedes `append_keeps_indents_partial`. -/
theorem insert_keeps_indents {c : Cfg} {st : St} {L R : List Tk} {ph : Tk} {pre post : List Seg}
    (K : Nat) (index : Int) (v : List Tk) (wf : RegionWF c st.store st.items L R ph (pre ++ post))
    (hk : insertPos index st.items.length = pre.length) :
    ∃ st' segs', insert c st index v = .ok st' ∧
      st'.store = L ++ layout ph segs' ++ R ∧ st'.items = spans segs' ∧
      itemsOf segs' = itemsOf pre ++ [v] ++ itemsOf post ∧
      (∀ k, (itemsOf segs')[if k < pre.length then k else k + 1]? = (itemsOf (pre ++ post))[k]?) ∧
      (itemsOf segs').map (indentTok K) =
        (itemsOf pre).map (indentTok K) ++ [indentTok K v] ++ (itemsOf post).map (indentTok K) ∧
      (∃ P X Q, st.store = P ++ Q ∧ st'.store = P ++ X ++ Q) ∧ st.store.Sublist st'.store := by
  obtain ⟨segs', ctr', hins, hsegs, hitems⟩ := C03.rep_insert_frame index v wf hk
  obtain ⟨P, X, Q, hold, hnew⟩ := insertSegs_window c L R ph pre post st.ctr [v]
  have hw : st.store = P ++ Q := by rw [wf.store_eq, hold]
  have hw' : L ++ layout ph segs' ++ R = P ++ X ++ Q := by rw [hsegs, hnew]
  refine ⟨_, segs', hins, rfl, rfl, hitems, ?_, ?_, ⟨P, X, Q, hw, hw'⟩, ?_⟩
  · intro k
    rw [hitems]
    have := getElem?_insert_shift (itemsOf pre) (itemsOf post) v k
    simpa [itemsOf] using this
  · rw [hitems]; simp
  · show st.store.Sublist (L ++ layout ph segs' ++ R)
    rw [hw, hw', List.append_assoc]
    exact List.Sublist.append (List.Sublist.refl _) (List.sublist_append_right _ _)

/-- The same for one old item: if item `k` of the region starts with an `INDENT` token `t`, then after the insertion
the item at `k` (resp. `k + 1`) has the same token list and so starts with the very same `t`. -/
theorem insert_keeps_indent_token {c : Cfg} {st : St} {L R : List Tk} {ph : Tk} {pre post : List Seg}
    (K : Nat) (index : Int) (v : List Tk) (wf : RegionWF c st.store st.items L R ph (pre ++ post))
    (hk : insertPos index st.items.length = pre.length) {k : Nat} {item : List Tk} {t : Tk}
    (hitem : (itemsOf (pre ++ post))[k]? = some item) (ht : indentTok K item = some t) :
    ∃ st' segs', insert c st index v = .ok st' ∧ st'.store = L ++ layout ph segs' ++ R ∧
      (itemsOf segs')[if k < pre.length then k else k + 1]? = some item ∧ indentTok K item = some t ∧
      t ∈ st'.store := by
  obtain ⟨st', segs', hins, hstore, _, _, hpos, _, _, hsub⟩ := insert_keeps_indents K index v wf hk
  refine ⟨st', segs', hins, hstore, by rw [hpos k, hitem], ht, hsub.subset ?_⟩
  -- `t` is the head of an old item, which lies in the old store
  have hmem : item ∈ itemsOf (pre ++ post) := List.mem_of_getElem? hitem
  have hthd : t ∈ item := by
    unfold indentTok at ht
    cases hh : item.head? with
    | none => rw [hh] at ht; cases ht
    | some x =>
      rw [hh] at ht
      simp only [Option.filter] at ht
      split at ht
      · cases ht; exact List.mem_of_head? hh
      · cases ht
  rw [wf.store_eq]
  simp only [itemsOf, List.mem_map] at hmem
  obtain ⟨sg, hsg, rfl⟩ := hmem
  have : t ∈ body (pre ++ post) := by
    clear hitem hpos hsub wf hk
    generalize pre ++ post = segs at hsg
    induction segs with
    | nil => cases hsg
    | cons a r ih =>
      simp only [body, List.mem_append]
      rcases List.mem_cons.mp hsg with rfl | h
      · exact Or.inl (Or.inr hthd)
      · exact Or.inr (ih h)
  simp [layout, this]

/-- **`append(item)`**: as `insert_keeps_indents` at the end of the list. -/
theorem append_keeps_indents {c : Cfg} {st : St} {L R : List Tk} {ph : Tk} {segs : List Seg}
    (K : Nat) (v : List Tk) (wf : RegionWF c st.store st.items L R ph segs) :
    ∃ st' segs', append c st v = .ok st' ∧
      st'.store = L ++ layout ph segs' ++ R ∧ st'.items = spans segs' ∧
      itemsOf segs' = itemsOf segs ++ [v] ∧
      (itemsOf segs').map (indentTok K) = (itemsOf segs).map (indentTok K) ++ [indentTok K v] ∧
      (∃ P X Q, st.store = P ++ Q ∧ st'.store = P ++ X ++ Q) ∧ st.store.Sublist st'.store := by
  obtain ⟨segs', ctr', happ, hsegs, hitems⟩ := C03.rep_append_frame v wf
  obtain ⟨P, X, Q, hold, hnew⟩ := insertSegs_window c L R ph segs [] st.ctr [v]
  have hw : st.store = P ++ Q := by rw [wf.store_eq, ← hold]; simp
  have hw' : L ++ layout ph segs' ++ R = P ++ X ++ Q := by rw [hsegs, hnew]
  refine ⟨_, segs', happ, rfl, rfl, hitems, by rw [hitems]; simp, ⟨P, X, Q, hw, hw'⟩, ?_⟩
  show st.store.Sublist (L ++ layout ph segs' ++ R)
  rw [hw, hw', List.append_assoc]
  exact List.Sublist.append (List.Sublist.refl _) (List.sublist_append_right _ _)

end

/-! ## non-vacuity -/

example : newIndent [] (some "  ".toList) "\t".toList = "  \t".toList := by decide
example : newIndent [] none "  ".toList = "  ".toList := by decide
example : newIndent ["\t".toList, "\t".toList] (some "  ".toList) "    ".toList = "\t".toList := by decide
/-- non-uniform siblings (outside the property's quantifier): the code copies the first -/
example : newIndent ["  ".toList, "      ".toList] none "    ".toList = "  ".toList := by decide
example : commentFormat "  ".toList "lead\n\nmore\r\n".toList = "  ; lead\n  ;\n  ; more\r\n  ;".toList := by decide
example : commentLines "\t".toList "a\nb".toList = ["\t; a\n".toList, "\t; b".toList] := by decide
example : indentOf "    ; x\n    ; y".toList = "    ".toList := by decide
example : splitLines "a\n\nb\n".toList = ["a\n".toList, "\n".toList, "b\n".toList, []] := by decide

/-! A meta region with two indented items (`··a:·1` / `····b:·2`, kinds: 1 newline, 2 INDENT, 3 key, 4 blank, 5 value);
a third item with its own indent `\t` is inserted in the middle: the hypotheses of `insert_keeps_indents` hold and the
old items' `INDENT` tokens (ids 11 and 21, texts `··` and `····`) are found unchanged around the new one. -/
section
open Autobean.Seq Autobean.Rep
def exPh : Tk := ⟨1, 0, []⟩
def exSegs : List Seg :=
  [([⟨10, 1, ['\n']⟩], [⟨11, 2, [' ', ' ']⟩, ⟨12, 3, ['a', ':']⟩, ⟨13, 4, [' ']⟩, ⟨14, 5, ['1']⟩]),
   ([⟨20, 1, ['\n']⟩], [⟨21, 2, [' ', ' ', ' ', ' ']⟩, ⟨22, 3, ['b', ':']⟩, ⟨23, 4, [' ']⟩, ⟨24, 5, ['2']⟩])]
def exCfg : Cfg := ⟨[⟨0, 1, ['\n']⟩], [⟨0, 1, ['\n']⟩], 1⟩
def exL : List Tk := [⟨2, 6, ['x']⟩]
def exR : List Tk := [⟨3, 1, ['\n']⟩]
def exSt : St := ⟨exL ++ layout exPh exSegs ++ exR, spans exSegs, 100⟩
def exNew : List Tk := [⟨31, 2, ['\t']⟩, ⟨32, 3, ['c', ':']⟩]

example : RegionWF exCfg exSt.store exSt.items exL exR exPh (exSegs.take 1 ++ exSegs.drop 1) :=
  ⟨rfl, by unfold Distinct; decide, rfl, by unfold ItemsNonempty; decide, rfl⟩
example : insertPos 1 exSt.items.length = (exSegs.take 1).length := by decide
example : (insert exCfg exSt 1 exNew).toOption.map (fun st' => st'.store.filter (·.kind == 2)) =
    some [⟨11, 2, [' ', ' ']⟩, ⟨31, 2, ['\t']⟩, ⟨21, 2, [' ', ' ', ' ', ' ']⟩] := by decide
example : (itemsOf exSegs).map (indentTok 2) = [some ⟨11, 2, [' ', ' ']⟩, some ⟨21, 2, [' ', ' ', ' ', ' ']⟩] ∧
    indentTok 2 exNew = some ⟨31, 2, ['\t']⟩ ∧ indentTok 2 [(⟨12, 3, ['a', ':']⟩ : Tk)] = none := by decide
end

end Autobean.C18
