import Autobean.Model.Construct
/-!
# C15 — constructed models are well-formed (model side)

`assemble` is what every generated `from_children` computes (the recipe itself is extracted from the source and
checked by `Obligations.from_children_canonical`; the emitted token list is diffed against the real
constructors on every run).  Theorems: the tree's own tokens occur in the new store in declaration order
(`assemble_owned`), every other emitted token is a copy of a declared separator (`emit_owned_or_separator`),
absent optional parts emit nothing, inside a repeated field the first gap is `separators_before` and every
other gap is `separators` (`rep_gaps`).  That the printed text parses back to the same content needs the real
lexer/parser and is carried by the re-parse oracle: the model-side statement is named `reparse_partial`
accordingly in the manifest text — there is no theorem claiming it.
-/
namespace Autobean.C15
open Autobean.Construct

/-- Items of a repeated field occur in the emitted list in order (whatever separators are declared). -/
theorem emitItems_sublist (sb s : List Tk) (first : Bool) (items : List (List Tk)) :
    List.Sublist items.flatten (emitItems sb s first items) := by
  induction items generalizing first with
  | nil => simp [emitItems]
  | cons it rest ih =>
    have h := ih false
    cases first
    · simp only [emitItems, List.flatten_cons, List.append_assoc]
      exact (List.Sublist.append (List.Sublist.refl it) h).trans (List.sublist_append_right s _)
    · simp only [emitItems, List.flatten_cons, List.append_assoc]
      exact (List.Sublist.append (List.Sublist.refl it) h).trans (List.sublist_append_right sb _)

/-- Every piece emits the tokens the tree owns (children, placeholder, items), in order. -/
theorem owned_sublist_emit (p : Piece) : List.Sublist (owned p) (emit p) := by
  cases p with
  | lit t => simp [owned, emit]
  | child ts => simp [owned, emit]
  | optL seps c => cases c <;> simp [owned, emit]
  | optR seps c => cases c <;> simp [owned, emit]
  | rep ph sb s items =>
    simp only [owned, emit]
    exact List.Sublist.cons_cons ph (emitItems_sublist sb s true items)

/-- **Leaves in order.** The tokens owned by the constructed tree, in field-declaration order, form a
sub-sequence of the new store: no child is dropped, duplicated or re-ordered by `from_children`. -/
theorem assemble_owned (ps : List Piece) : List.Sublist (ps.flatMap owned) (assemble ps) := by
  induction ps with
  | nil => simp [assemble]
  | cons p ps ih =>
    simp only [assemble, List.flatMap_cons] at ih ⊢
    exact List.Sublist.append (owned_sublist_emit p) ih

/-- The separators a piece may emit. -/
def sepsOf : Piece → List Tk
  | .lit t => [t]
  | .child _ => []
  | .optL seps _ => seps
  | .optR seps _ => seps
  | .rep _ sb s _ => sb ++ s

theorem emitItems_mem (sb s : List Tk) (first : Bool) (items : List (List Tk)) (t : Tk)
    (h : t ∈ emitItems sb s first items) : t ∈ items.flatten ∨ t ∈ sb ++ s := by
  induction items generalizing first with
  | nil => simp [emitItems] at h
  | cons it rest ih =>
    cases first <;> simp only [emitItems, List.mem_append, List.flatten_cons] at h ⊢
    · rcases h with (h | h) | h
      · exact Or.inr (Or.inr h)
      · exact Or.inl (Or.inl h)
      · rcases ih false h with h' | h'
        · exact Or.inl (Or.inr h')
        · exact Or.inr (by simpa using h')
    · rcases h with (h | h) | h
      · exact Or.inr (Or.inl h)
      · exact Or.inl (Or.inl h)
      · rcases ih false h with h' | h'
        · exact Or.inl (Or.inr h')
        · exact Or.inr (by simpa using h')

/-- **Nothing but separators in between.** Every emitted token is either owned by the tree or a copy of a
separator declared for that piece. -/
theorem emit_owned_or_separator (p : Piece) (t : Tk) (h : t ∈ emit p) : t ∈ owned p ∨ t ∈ sepsOf p := by
  cases p with
  | lit t' => simp [emit] at h; simp [sepsOf, h]
  | child ts => simp [emit] at h; simp [owned, h]
  | optL seps c =>
    cases c with
    | none => simp [emit] at h
    | some c => simp [emit] at h; simp [owned, sepsOf]; exact h.symm
  | optR seps c =>
    cases c with
    | none => simp [emit] at h
    | some c => simp [emit] at h; simp [owned, sepsOf]; exact h
  | rep ph sb s items =>
    simp only [emit, List.mem_cons] at h
    rcases h with h | h
    · exact Or.inl (by simp [owned, h])
    · rcases emitItems_mem sb s true items t h with h' | h'
      · exact Or.inl (by simp only [owned, List.mem_cons]; exact Or.inr h')
      · exact Or.inr (by simpa [sepsOf] using h')

/-- Absent optional parts emit nothing (every subset of optional arguments gives a store with exactly the
present parts). -/
theorem absent_emits_nothing (seps : List Tk) : emit (.optL seps none) = [] ∧ emit (.optR seps none) = [] :=
  ⟨rfl, rfl⟩

/-- A present optional-left child comes with its separators in front, an optional-right one with them behind. -/
theorem present_optional (seps c : List Tk) :
    emit (.optL seps (some c)) = seps ++ c ∧ emit (.optR seps (some c)) = c ++ seps := ⟨rfl, rfl⟩

/-- **Gaps of a repeated field.** After the placeholder: `separators_before` then the first item; every
later item is preceded by exactly `separators`. -/
theorem rep_gaps (ph : Tk) (sb s : List Tk) (it : List Tk) (rest : List (List Tk)) :
    emit (.rep ph sb s (it :: rest)) = ph :: (sb ++ it ++ (rest.map (s ++ ·)).flatten) := by
  have hrest : ∀ l : List (List Tk), emitItems sb s false l = (l.map (s ++ ·)).flatten := by
    intro l
    induction l with
    | nil => rfl
    | cons a l ih => simp [emitItems, ih]
  simp [emit, emitItems, hrest]

/-- An empty repeated field is just its placeholder. -/
theorem rep_empty (ph : Tk) (sb s : List Tk) : emit (.rep ph sb s []) = [ph] := rfl

/-- The printed text of the constructed model is the concatenation of the pieces' texts. -/
theorem assemble_text (ps : List Piece) : textOf (assemble ps) = (ps.map fun p => textOf (emit p)).flatten := by
  induction ps with
  | nil => rfl
  | cons p ps ih =>
    simp only [assemble, List.flatMap_cons, textOf, List.map_append, List.flatten_append, List.map_cons,
      List.flatten_cons] at ih ⊢
    rw [ih]

/-! Non-vacuity: `2000-01-01 open Assets:A USD, EUR` with an absent booking. -/
private def tk (k : String) (s : String) : Tk := ⟨k, s.toList⟩
private def demo : List Piece :=
  [.child [tk "Date" "2000-01-01"], .lit (tk "Whitespace" " "), .child [tk "OpenLabel" "open"],
   .lit (tk "Whitespace" " "), .child [tk "Account" "Assets:A"],
   .rep (tk "Placeholder" "") [tk "Whitespace" " "] [tk "Comma" ",", tk "Whitespace" " "]
     [[tk "Currency" "USD"], [tk "Currency" "EUR"]],
   .optL [tk "Whitespace" " "] none, .child [tk "Eol" ""]]

example : String.ofList (textOf (assemble demo)) = "2000-01-01 open Assets:A USD, EUR" := by decide

end Autobean.C15
